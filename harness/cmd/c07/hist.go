package main

import (
	"bufio"
	"encoding/hex"
	"fmt"
	"runtime"
	"strings"

	"github.com/ctessum/geom"
	"github.com/ctessum/geom/encoding/geojson"
	ghex "github.com/ctessum/geom/encoding/hex"
	"github.com/ctessum/geom/encoding/wkb"

	"verif/harness/vproto"
)

// History lines: STATE CARRIED ACROSS CALLS, with the whole history on one line (replay unit).
//
//	hist <wkb|hex|json> <reps> x<hex> x<hex> ...
//
// The members are decoded one after the other, the whole list `reps` times over, in ONE process
// (about 10 000 calls per line), failing and succeeding decodes mixed. Every single call is measured
// (TotalAlloc delta around that call only) and rendered as returned. Per member the line reports the
// first call, the LARGEST allocation over all its calls, and whether every later call returned
// exactly what the first one did. A decoder that learns something from an earlier (possibly failing)
// call — a chunk size taken from a lying count, a cached buffer, a pool — passes every fresh-process
// test and fails here: the allocation clause is judged per call, not per process.
//
// Result: `hist || m <i> <status> A=<max alloc> F=<first alloc> K=<index of the max call> n=<calls> <same|changed:<status>> [| <geom>]`

type histMember struct {
	first    string // status of the first call
	toks     string
	max      uint64
	firstA   uint64
	maxCall  int
	calls    int
	changed  string
	lastToks string
}

func decodeOnce(fam string, buf []byte, s string) (st, toks string, alloc uint64) {
	var g geom.Geom
	var err error
	var m0, m1 runtime.MemStats
	runtime.ReadMemStats(&m0)
	pan := vproto.Safe(func() {
		switch fam {
		case "wkb":
			g, err = wkb.Decode(buf)
		case "hex":
			g, err = ghex.Decode(s)
		default:
			g, err = geojson.Decode(buf)
		}
	})
	runtime.ReadMemStats(&m1)
	alloc = m1.TotalAlloc - m0.TotalAlloc
	switch {
	case pan != "":
		return "panic:" + pan, "", alloc
	case err != nil && g != nil:
		return "both:" + errClass(err), "", alloc
	case err != nil:
		return "err:" + errClass(err), "", alloc
	case g == nil:
		return "nilnil", "", alloc
	}
	if alloc > bigAlloc {
		return "ok", "big", alloc
	}
	return "ok", vproto.GeomToks(g), alloc
}

func runHist(line string) string {
	p := vproto.NewParser(line)
	p.Next()
	fam := p.Next()
	reps := p.Int()
	var bufs [][]byte
	var strs []string
	for !p.Done() {
		b := mustHex(p.Next()[1:])
		bufs = append(bufs, b)
		strs = append(strs, string(b))
	}
	ms := make([]histMember, len(bufs))
	call := 0
	stop := false
	for rep := 0; rep < reps && !stop; rep++ {
		for i := range bufs {
			st, toks, a := decodeOnce(fam, bufs[i], strs[i])
			m := &ms[i]
			if m.calls == 0 {
				m.first, m.toks, m.firstA = st, toks, a
			} else if m.changed == "" && (st != m.first || toks != m.toks) {
				m.changed = st
				m.lastToks = toks
			}
			if a > m.max || m.calls == 0 {
				m.max, m.maxCall = a, call
			}
			m.calls++
			call++
			if a > bigAlloc { // the allocation clause is violated whatever the judge's constants: stop here
				stop = true
				break
			}
		}
	}
	var b strings.Builder
	b.WriteString("hist")
	for i, m := range ms {
		same := "same"
		if m.changed != "" {
			same = "changed:" + m.changed
		}
		fmt.Fprintf(&b, " || m %d %s A=%d F=%d K=%d n=%d %s", i, m.first, m.max, m.firstA, m.maxCall, m.calls, same)
		if m.first == "ok" && m.calls > 0 {
			b.WriteString(" | " + m.toks)
		}
	}
	return b.String()
}

// genHist: per family a pool of succeeding members (several types and sizes, one sequence longer
// than a chunk) and failing members (counts that lie at every reader: 1025, 4097, 2^16, 2^20, 2^28,
// 2^32-1 with little or no data behind them; truncated input; unknown type / byte order; for JSON
// syntax errors, wrong depth, numbers out of range, deep nesting). Each line draws 8-24 members, liars
// first on some lines, last or interleaved on others, and repeats the list up to ~10 000 calls.
func genHist(out *bufio.Writer, r *vproto.Rng, tier string) {
	lines, calls := 6, 10000
	if tier == "thorough" {
		lines = 40
	}
	le := func(v uint32) []byte { return c32(v, true) }
	liar := func(code uint32, n uint32, data []byte) []byte { return cat(hdr(code, n, true), data) }
	wkbLiars := func() [][]byte {
		var l [][]byte
		for _, n := range []uint32{1025, 4097, 1 << 16, 1 << 20, 1 << 28, 0xFFFFFFFF} {
			l = append(l,
				liar(2, n, nil),                                      // linestring, no data
				liar(2, n, pointData(2, r)),                          // linestring, 2 points of data
				cat(hdr(3, 1, true), le(n), pointData(1, r)),         // polygon ring
				liar(4, n, nil),                                      // multipoint
				liar(5, n, liar(2, n, nil)),                          // multilinestring of a lying linestring
				liar(6, n, nil), liar(7, n, nil),                     // multipolygon, collection
				cat(hdr(7, 2, false), liar(2, n, pointData(1, r))),   // nested in a collection
				cat(hdr(3, n, true), le(0), le(0), le(n)),            // polygon: rings count lies, ring count lies
			)
		}
		l = append(l, []byte{1, 9, 0, 0, 0}, []byte{7, 1, 0, 0, 0}, []byte{1, 2, 0, 0}, nil, []byte{1, 0xa1, 0x0f, 0, 0})
		return l
	}
	wkbGood := func() [][]byte {
		var l [][]byte
		for i := 0; i < 10; i++ {
			l = append(l, encodeMeta(genGeom(r, 2), r.Bool(), i%3 == 0, r).b)
		}
		l = append(l, liar(2, 1500, pointData(1500, r)), liar(2, 1024, pointData(1024, r)), liar(2, 1, pointData(1, r)),
			cat(hdr(3, 1, true), le(1030), pointData(1030, r)))
		return l
	}
	jsonGood := func() [][]byte {
		var l [][]byte
		for i := 0; i < 10; i++ {
			typ := geoTypes[r.Intn(6)]
			var sb strings.Builder
			jobj("type", jstr(typ), "coordinates", coords(geoDepth[typ], r, true)).render(&sb, r)
			l = append(l, []byte(sb.String()))
		}
		return l
	}
	jsonBad := [][]byte{
		[]byte(`{"type":"Point","coordinates":[1,2]`), []byte(`{"type":"Point","coordinates":[1,2,3]}`),
		[]byte(`{"type":"Polygon","coordinates":[[1,2]]}`), []byte(`{"type":"LineString","coordinates":[[1,2],[1e999,2]]}`),
		[]byte(`{"type":"MultiPolygon","coordinates":[[[]]]}`), []byte(`{"type":"Nothing","coordinates":[1,2]}`),
		[]byte(`{"type":"MultiPoint","coordinates":` + strings.Repeat("[", 300) + strings.Repeat("]", 300) + `}`),
		[]byte(`{"type":"MultiLineString","coordinates":[[[1,2],[3,"4"]]]}`), []byte(`[1,2]`), []byte(``), []byte(`nul`),
		[]byte(`{"type":"Polygon","coordinates":{"a":[[[1,2]]]}}`),
	}
	for i := 0; i < lines; i++ {
		fam := []string{"wkb", "wkb", "hex", "json", "wkb", "json"}[i%6]
		var good, bad [][]byte
		switch fam {
		case "json":
			good, bad = jsonGood(), jsonBad
		default:
			good, bad = wkbGood(), wkbLiars()
		}
		k := r.Range(8, 24)
		var ms [][]byte
		nb := r.Range(2, k-2)
		for j := 0; j < k; j++ {
			var m []byte
			isBad := false
			switch i % 3 {
			case 0: // the liars first
				isBad = j < nb
			case 1: // the liars last
				isBad = j >= k-nb
			default:
				isBad = r.Intn(2) == 0
			}
			if isBad {
				m = bad[r.Intn(len(bad))]
			} else {
				m = good[r.Intn(len(good))]
			}
			if fam == "hex" {
				m = []byte(hex.EncodeToString(m))
				if isBad && r.Intn(6) == 0 && len(m) > 0 {
					m = m[:len(m)-1] // odd length
				}
			}
			ms = append(ms, m)
		}
		var b strings.Builder
		fmt.Fprintf(&b, "hist %s %d", fam, (calls+k-1)/k)
		for _, m := range ms {
			b.WriteString(" x" + hex.EncodeToString(m))
		}
		fmt.Fprintln(out, b.String())
	}
}
