package main

import (
	"bufio"
	"encoding/binary"
	"encoding/hex"
	"fmt"
	"math"
	"strings"

	"github.com/ctessum/geom"

	"verif/harness/vproto"
)

// ---- geometry generator (small members; the big/boundary shapes are built explicitly below)

func coord(r *vproto.Rng) float64 {
	switch r.Intn(8) {
	case 0:
		return math.Float64frombits(r.U64())
	case 1:
		return math.Copysign(0, -1)
	case 2:
		return math.Inf(1 - 2*r.Intn(2))
	case 3:
		return math.Float64frombits(0x7ff8000000000000 | r.U64()&0xffff)
	default:
		return float64(r.Range(-1000, 1000)) / 8
	}
}

func cnt(r *vproto.Rng) int {
	switch r.Intn(8) {
	case 0, 1:
		return 0
	case 2, 3:
		return 1
	case 4, 5:
		return 2
	default:
		return r.Range(0, 5)
	}
}

func pts(r *vproto.Rng) []geom.Point {
	p := make([]geom.Point, cnt(r))
	for i := range p {
		p[i] = geom.Point{X: coord(r), Y: coord(r)}
	}
	return p
}

func ptss(r *vproto.Rng) []geom.Path {
	p := make([]geom.Path, cnt(r))
	for i := range p {
		p[i] = pts(r)
	}
	return p
}

func genGeom(r *vproto.Rng, depth int) geom.Geom {
	k := r.Intn(8)
	if depth <= 0 && k >= 6 {
		k = r.Intn(6)
	}
	switch k {
	case 0:
		return geom.Point{X: coord(r), Y: coord(r)}
	case 1:
		return geom.MultiPoint(pts(r))
	case 2:
		return geom.LineString(pts(r))
	case 3:
		m := make(geom.MultiLineString, cnt(r))
		for i := range m {
			m[i] = pts(r)
		}
		return m
	case 4:
		return geom.Polygon(ptss(r))
	case 5:
		m := make(geom.MultiPolygon, cnt(r))
		for i := range m {
			m[i] = ptss(r)
		}
		return m
	default:
		m := make(geom.GeometryCollection, cnt(r))
		for i := range m {
			m[i] = genGeom(r, depth-1)
		}
		return m
	}
}

// ---- own serializer that remembers where the flag / type / count fields are

type field struct {
	off  int
	kind byte // 'f' flag, 't' type code, 'c' count
	le   bool
	anc  []int // indices (into wenc.fields) of the count fields of the enclosing containers, outermost first
}

// cut is a truncation point together with the count fields whose loops are still running there:
// the enclosing containers, and the container itself once its own count field has been read.
type cut struct {
	off int
	anc []int
}

type wenc struct {
	b      []byte
	fields []field
	cuts   []cut
	stack  []int // count fields of the containers that are open at the current position
	r      *vproto.Rng
	mixed  bool // choose a byte order per element
}

func (e *wenc) cut(off int) {
	e.cuts = append(e.cuts, cut{off, append([]int(nil), e.stack...)})
}

func (e *wenc) u32(v uint32, le bool, kind byte) {
	// truncation points of this field: before it, after its first byte, before its last byte
	e.cut(len(e.b))
	e.cut(len(e.b) + 1)
	e.cut(len(e.b) + 3)
	e.fields = append(e.fields, field{len(e.b), kind, le, append([]int(nil), e.stack...)})
	var t [4]byte
	if le {
		binary.LittleEndian.PutUint32(t[:], v)
	} else {
		binary.BigEndian.PutUint32(t[:], v)
	}
	e.b = append(e.b, t[:]...)
}

// open: the count field just written starts a loop; close: the container ends here (a truncation
// exactly at the end of the last member, with the loop still believed to be running)
func (e *wenc) open() { e.stack = append(e.stack, len(e.fields)-1) }
func (e *wenc) close() {
	e.cut(len(e.b))
	e.stack = e.stack[:len(e.stack)-1]
}

func (e *wenc) f64(v float64, le bool) {
	var t [8]byte
	if le {
		binary.LittleEndian.PutUint64(t[:], math.Float64bits(v))
	} else {
		binary.BigEndian.PutUint64(t[:], math.Float64bits(v))
	}
	e.b = append(e.b, t[:]...)
}

func (e *wenc) header(code uint32, le bool) bool {
	if e.mixed {
		le = e.r.Bool()
	}
	e.cut(len(e.b))
	e.fields = append(e.fields, field{len(e.b), 'f', le, append([]int(nil), e.stack...)})
	if le {
		e.b = append(e.b, 1)
	} else {
		e.b = append(e.b, 0)
	}
	e.u32(code, le, 't')
	return le
}

func (e *wenc) point(p geom.Point, le bool) {
	e.cut(len(e.b))
	e.cut(len(e.b) + 1)
	e.f64(p.X, le)
	e.cut(len(e.b))
	e.cut(len(e.b) + 7)
	e.f64(p.Y, le)
}

func (e *wenc) points(ps []geom.Point, le bool) {
	e.u32(uint32(len(ps)), le, 'c')
	e.open()
	for _, p := range ps {
		e.point(p, le)
	}
	e.close()
}

func (e *wenc) geom(g geom.Geom, le bool) {
	members := func(code uint32, n int, each func(i int, le bool)) {
		le = e.header(code, le)
		e.u32(uint32(n), le, 'c')
		e.open()
		for i := 0; i < n; i++ {
			each(i, le)
		}
		e.close()
	}
	switch t := g.(type) {
	case geom.Point:
		le = e.header(1, le)
		e.point(t, le)
	case geom.LineString:
		le = e.header(2, le)
		e.points(t, le)
	case geom.Polygon:
		members(3, len(t), func(i int, le bool) { e.points(t[i], le) })
	case geom.MultiPoint:
		members(4, len(t), func(i int, le bool) { e.geom(t[i], le) })
	case geom.MultiLineString:
		members(5, len(t), func(i int, le bool) { e.geom(geom.LineString(t[i]), le) })
	case geom.MultiPolygon:
		members(6, len(t), func(i int, le bool) { e.geom(geom.Polygon(t[i]), le) })
	case geom.GeometryCollection:
		members(7, len(t), func(i int, le bool) { e.geom(t[i], le) })
	default:
		panic("wenc: unsupported")
	}
}

func encodeMeta(g geom.Geom, le, mixed bool, r *vproto.Rng) *wenc {
	e := &wenc{r: r, mixed: mixed}
	e.geom(g, le)
	return e
}

func put32(b []byte, off int, v uint32, le bool) []byte {
	c := append([]byte(nil), b...)
	if le {
		binary.LittleEndian.PutUint32(c[off:], v)
	} else {
		binary.BigEndian.PutUint32(c[off:], v)
	}
	return c
}

// ---- explicit shapes

// chain builds `depth` nested collections (count field `count` at every level) around `inner`.
func chain(depth int, count uint32, le bool, alternate bool, inner []byte) []byte {
	var b []byte
	for i := 0; i < depth; i++ {
		l := le
		if alternate && i%2 == 1 {
			l = !le
		}
		var t [9]byte
		if l {
			t[0] = 1
			binary.LittleEndian.PutUint32(t[1:], 7)
			binary.LittleEndian.PutUint32(t[5:], count)
		} else {
			binary.BigEndian.PutUint32(t[1:], 7)
			binary.BigEndian.PutUint32(t[5:], count)
		}
		b = append(b, t[:]...)
	}
	return append(b, inner...)
}

func hdr(code, count uint32, le bool) []byte {
	var t [9]byte
	if le {
		t[0] = 1
		binary.LittleEndian.PutUint32(t[1:], code)
		binary.LittleEndian.PutUint32(t[5:], count)
	} else {
		binary.BigEndian.PutUint32(t[1:], code)
		binary.BigEndian.PutUint32(t[5:], count)
	}
	return t[:]
}

func c32(v uint32, le bool) []byte {
	var t [4]byte
	if le {
		binary.LittleEndian.PutUint32(t[:], v)
	} else {
		binary.BigEndian.PutUint32(t[:], v)
	}
	return t[:]
}

func rep(b []byte, n int) []byte {
	out := make([]byte, 0, len(b)*n)
	for i := 0; i < n; i++ {
		out = append(out, b...)
	}
	return out
}

func cat(bs ...[]byte) []byte {
	var out []byte
	for _, b := range bs {
		out = append(out, b...)
	}
	return out
}

func pointData(n int, r *vproto.Rng) []byte {
	b := make([]byte, 16*n)
	for i := 0; i < n; i++ {
		binary.LittleEndian.PutUint64(b[16*i:], math.Float64bits(float64(i)))
		binary.LittleEndian.PutUint64(b[16*i+8:], math.Float64bits(float64(r.Range(-9, 9))))
	}
	return b
}

const maxInput = 65536

type wkbEmitter struct {
	out *bufio.Writer
	r   *vproto.Rng
	r2  *vproto.Rng // private stream of the wkbn lines (so that adding them did not shift the other generators)
	n   int
}

func (w *wkbEmitter) wkb(b []byte) {
	if len(b) > maxInput {
		b = b[:maxInput]
	}
	fmt.Fprintf(w.out, "wkb x%s\n", hex.EncodeToString(b))
	w.n++
}

// also through hex.Decode and through wkb.Read on a reader that is not a bytes.Buffer
func (w *wkbEmitter) all(b []byte) {
	if len(b) > maxInput {
		b = b[:maxInput]
	}
	w.wkb(b)
	h := hex.EncodeToString(b)
	if w.r.Bool() {
		// upper-case some digits: encoding/hex accepts both cases
		hb := []byte(h)
		for i := range hb {
			if hb[i] >= 'a' && w.r.Intn(3) == 0 {
				hb[i] -= 32
			}
		}
		h = string(hb)
	}
	fmt.Fprintf(w.out, "hex s%s\n", hex.EncodeToString([]byte(h)))
	fmt.Fprintf(w.out, "wkbr %d x%s\n", []int{1, 3, 7, 16, 4096}[w.r.Intn(5)], hex.EncodeToString(b))
	w.stream(b, []string{"E", "D", "U", "C", "X"}[w.r.Intn(5)])
	if len(b) <= 2048 {
		w.scriptRandom(b)
	}
}

// ---------------------------------------------------------------------------------------------
// wkbn: wkb.Read on a reader whose errors are NOT sticky. `wkbn <fin> <ev>...`: each event is a
// letter and hex data — d: data, no error; c / e / u: data and, with its last byte, the reader's own
// error / io.EOF / io.ErrUnexpectedEOF (no data: the error alone; `d` alone: an empty read (0, nil)).
// After the last event the reader answers (0, fin) for ever, fin = C | E | U.

func evTok(kind byte, b []byte) string { return string(kind) + hex.EncodeToString(b) }

// dataEvents: b as 1..3 error-free events, sometimes with an empty read in between
func (w *wkbEmitter) dataEvents(b []byte) []string {
	var evs []string
	for len(b) > 0 {
		n := len(b)
		if n > 1 && w.r2.Intn(3) > 0 && len(evs) < 2 {
			n = 1 + w.r2.Intn(n-1)
		}
		evs = append(evs, evTok('d', b[:n]))
		b = b[n:]
		if w.r2.Intn(5) == 0 {
			evs = append(evs, "d")
		}
	}
	return evs
}

// scriptAt: ALL of b is in the script; an error of the given kind is raised at offset k, either alone
// (a Read that returns (0, err)) or together with the bytes that end at k. io.ReadFull drops it in the
// second form exactly when k is the end of a request; the reader then carries on.
func (w *wkbEmitter) scriptAt(b []byte, k int, kind byte, alone bool) {
	var evs []string
	if alone {
		evs = append(w.dataEvents(b[:k]), evTok(kind, nil))
	} else {
		cut := 0
		if k > 1 && w.r2.Intn(3) > 0 {
			cut = w.r2.Intn(k)
		}
		evs = append(w.dataEvents(b[:cut]), evTok(kind, b[cut:k]))
	}
	evs = append(evs, w.dataEvents(b[k:])...)
	fmt.Fprintf(w.out, "wkbn %s %s\n", []string{"E", "C", "U"}[w.r2.Intn(3)], strings.Join(evs, " "))
}

// scriptRandom: 1..3 errors at random offsets (with data or alone, any kind), pieces of random size
func (w *wkbEmitter) scriptRandom(b []byte) {
	var evs []string
	rest := b
	for i, n := 0, 1+w.r2.Intn(3); i < n; i++ {
		k := 0
		if len(rest) > 0 {
			k = w.r2.Intn(len(rest) + 1)
			if w.r2.Intn(4) == 0 && len(rest) >= 9 {
				k = []int{1, 5, 9}[w.r2.Intn(3)] // request boundaries of every header
			}
		}
		kind := "cceu"[w.r2.Intn(4)]
		if w.r2.Bool() {
			evs = append(evs, w.dataEvents(rest[:k])...)
			evs = append(evs, evTok(kind, nil))
		} else {
			cut := 0
			if k > 1 {
				cut = w.r2.Intn(k)
			}
			evs = append(evs, w.dataEvents(rest[:cut])...)
			evs = append(evs, evTok(kind, rest[cut:k]))
		}
		rest = rest[k:]
	}
	evs = append(evs, w.dataEvents(rest)...)
	fmt.Fprintf(w.out, "wkbn %s %s\n", []string{"E", "C", "U"}[w.r2.Intn(3)], strings.Join(evs, " "))
}

// stream: wkb.Read on a reader that is not a slice: pieces of varying size, empty reads, and a
// sticky error (EOF or the reader's own) alone or together with the last piece
func (w *wkbEmitter) stream(b []byte, end string) {
	if w.r.Bool() {
		end += "z"
	}
	fmt.Fprintf(w.out, "wkbs %s %d x%s\n", end, []int{1, 2, 3, 5, 16, 1000, 70000}[w.r.Intn(7)], hex.EncodeToString(b))
}

var inflated = func(n int) []uint32 {
	return []uint32{uint32(n + 1), 1 << 16, 1 << 28, 1 << 31, 0xffffffff}
}

// cutMutations: for every truncation point of the encoding (every byte-level position inside and
// around every flag / type / count field, every point boundary, the end of every container) and every
// count field whose loop is still running at that point (the enclosing containers and the container
// itself), the input truncated THERE with THAT count inflated. A reader that stops trusting the end
// of input anywhere (an EOF treated as "empty", a `break` instead of an error) lets the inflated count
// drive its loop and its allocation.
func (w *wkbEmitter) cutMutations(e *wenc, counts []uint32) {
	b := e.b
	seen := map[string]bool{}
	for _, c := range e.cuts {
		if c.off > len(b) {
			continue
		}
		var usable []int
		for _, a := range c.anc {
			if e.fields[a].off+4 <= c.off {
				usable = append(usable, a)
			}
		}
		key := fmt.Sprint(c.off, usable)
		if len(usable) == 0 || seen[key] {
			continue
		}
		seen[key] = true
		for _, a := range usable {
			f := e.fields[a]
			old := binary.LittleEndian.Uint32(b[f.off:])
			if !f.le {
				old = binary.BigEndian.Uint32(b[f.off:])
			}
			w.wkb(put32(b, f.off, old+1, f.le)[:c.off])
			for _, v := range counts {
				w.wkb(put32(b, f.off, v, f.le)[:c.off])
			}
		}
		if len(usable) > 1 {
			m := b
			for _, a := range usable {
				m = put32(m, e.fields[a].off, counts[len(counts)-1], e.fields[a].le)
			}
			w.wkb(m[:c.off])
		}
	}
}

// zoo: one geometry of every type with members of every shape (empty, one, several), alone and as
// a member of every container that can hold it, to depth 3
func zoo() []geom.Geom {
	p := func(i int) geom.Point { return geom.Point{X: float64(i), Y: float64(-i) / 2} }
	ls := geom.LineString{p(1), p(2)}
	pg := geom.Polygon{{p(1), p(2), p(3)}, {}, {p(4)}}
	mp := geom.MultiPoint{p(5), p(6)}
	mls := geom.MultiLineString{ls, {}, {p(7)}}
	mpg := geom.MultiPolygon{pg, {}, {{p(8)}, {}}}
	gc := geom.GeometryCollection{p(9), ls, pg, mp, mls, mpg, geom.GeometryCollection{pg}, geom.GeometryCollection{}}
	return []geom.Geom{
		p(0), ls, geom.LineString{}, pg, geom.Polygon{}, geom.Polygon{{}}, geom.Polygon{{}, {}}, mp, geom.MultiPoint{}, mls, geom.MultiLineString{{}},
		mpg, geom.MultiPolygon{{}}, geom.MultiPolygon{{{}}}, geom.MultiPolygon{pg, pg}, gc, geom.GeometryCollection{},
		geom.GeometryCollection{pg}, geom.GeometryCollection{geom.Polygon{{}}}, geom.GeometryCollection{mpg, pg},
		geom.GeometryCollection{geom.GeometryCollection{mpg, pg}, pg},
		geom.GeometryCollection{geom.GeometryCollection{geom.GeometryCollection{geom.MultiPolygon{{{}}}}, mls}, mp},
	}
}

func genWKB(out *bufio.Writer, r *vproto.Rng, tier string, seed uint64) {
	w := &wkbEmitter{out: out, r: r, r2: vproto.NewRng(vproto.NewRng(seed ^ 0xC07C07).U64())}
	thorough := tier == "thorough"
	scale := 2
	if thorough {
		scale = 40
	}

	// 1. fixed corpus: small inflated counts FIRST, then growing (the worker is memory-limited)
	for _, le := range []bool{true, false} {
		for code := uint32(2); code <= 7; code++ {
			for _, c := range []uint32{1, 2, 1025, 1 << 12, 1 << 16, 1 << 20, 1 << 24, 1 << 28, 1 << 31, 0xffffffff} {
				w.all(hdr(code, c, le))
			}
			// lying counts of every magnitude between "one chunk" and 2^16 (a reader that trusts
			// counts below some threshold wastes threshold*elemsize bytes on a 9-byte message)
			for _, c := range []uint32{1023, 1024, 1536, 2047, 2048, 2049, 2100, 2500, 3000, 3500, 4095, 4097, 5000, 6000, 8191, 8192, 10000, 12000, 16384, 20000, 32768, 50000, 65535} {
				w.wkb(hdr(code, c, le))
			}
		}
	}
	w.all(nil)
	w.all([]byte{1})
	w.all([]byte{0})
	w.all([]byte{2, 1, 0, 0, 0})
	w.all([]byte{0xff, 1, 0, 0, 0})
	w.all([]byte{1, 1, 0, 0})
	for code := uint32(0); code <= 20; code++ {
		w.all(cat(hdr(code, 0, true), make([]byte, 16)))
		w.all(cat(hdr(code, 0, false), make([]byte, 16)))
	}
	for _, code := range []uint32{1001, 2003, 3002, 0x80000001, 0x20000001, 0x40000002, 0xffffffff, 0x01000000, 0x07000000} {
		w.all(cat(hdr(code, 1, true), make([]byte, 32)))
		w.all(cat(hdr(code, 1, false), make([]byte, 32)))
	}
	// polygon whose inner ring count lies, multi* whose members lie, at each position
	for _, le := range []bool{true, false} {
		for _, c := range []uint32{3, 1 << 16, 0xffffffff} {
			w.all(cat(hdr(3, 2, le), c32(1, le), make([]byte, 16), c32(c, le), make([]byte, 32)))
			w.all(cat(hdr(5, 2, le), hdr(2, 1, le), make([]byte, 16), hdr(2, c, le), make([]byte, 32)))
			w.all(cat(hdr(6, 2, le), hdr(3, 1, le), c32(0, le), hdr(3, c, le), c32(c, le)))
			w.all(cat(hdr(6, c, le), hdr(3, c, le), c32(c, le)))
			w.all(cat(hdr(4, c, le), hdr(1, 0, le)[:5], make([]byte, 16)))
			w.all(cat(hdr(7, c, le), hdr(4, c, le), hdr(1, 0, le)[:5], make([]byte, 16)))
		}
		// members of the wrong type
		w.all(cat(hdr(4, 1, le), hdr(2, 0, le)))
		w.all(cat(hdr(5, 1, le), hdr(1, 0, le)[:5], make([]byte, 16)))
		w.all(cat(hdr(6, 1, le), hdr(2, 0, le)))
		w.all(cat(hdr(4, 2, le), hdr(1, 0, le)[:5], make([]byte, 16), hdr(7, 0, le)))
	}

	// 1b. the zoo: every truncation point x every count whose loop is running there, inflated
	for zi, g := range zoo() {
		for _, le := range []bool{true, false} {
			e := encodeMeta(g, le, false, r)
			w.all(e.b)
			for k := 0; k < len(e.b); k++ {
				w.wkb(e.b[:k])
				if le {
					// the reader fails at EVERY offset, in every way
					for _, end := range []string{"E", "D", "U", "C", "X"} {
						w.stream(e.b[:k], end)
					}
				}
				// a NON-sticky error at EVERY offset of the complete encoding: with the bytes that end
				// there (dropped iff a request ends there) and alone (always fatal while data is missing)
				if le || k%3 == zi%3 {
					kind := "ce"[(k+zi)%2]
					w.scriptAt(e.b, k, kind, false)
					w.scriptAt(e.b, k, "ceu"[(k+zi)%3], true)
					if le {
						w.scriptAt(e.b, k, "ec"[(k+zi)%2], false)
					}
				}
			}
			w.cutMutations(e, []uint32{4097, 1 << 16, 1 << 20})
		}
		if zi%2 == 0 {
			w.cutMutations(encodeMeta(g, true, true, r), []uint32{1 << 16, 1 << 20})
		}
	}

	// 2. chunk boundaries of readPoints (1024-point chunks): honest, short by one byte, short by a chunk
	for _, n := range []int{1023, 1024, 1025, 2047, 2048, 2049, 3072, 4094} {
		for _, le := range []bool{true, false} {
			data := pointData(n, r)
			full := cat(hdr(2, uint32(n), le), data)
			w.all(full)
			w.wkb(full[:len(full)-1])
			w.wkb(full[:len(full)-16])
			if n > 1024 {
				w.wkb(full[:9+16*1024])   // exactly one chunk present
				w.wkb(full[:9+16*1024+1]) // one chunk and one byte
				w.wkb(full[:9+16*1024-1])
			}
			w.wkb(cat(hdr(2, uint32(n+1), le), data))           // count one too large
			w.wkb(cat(hdr(2, uint32(n-1), le), data))           // count one too small (trailing bytes ignored)
			w.wkb(cat(hdr(3, 1, le), c32(uint32(n), le), data)) // as a polygon ring
			w.wkb(cat(hdr(3, 2, le), c32(uint32(n), le), data, c32(0xffffffff, le)))
			for _, c := range inflated(n) {
				w.wkb(cat(hdr(2, c, le), data))
			}
		}
	}

	// 3. allocation-heavy honest shapes up to 64 KiB
	for _, le := range []bool{true, false} {
		for _, n := range []int{100, 1000, 5000, 16381} {
			w.all(cat(hdr(3, uint32(n), le), rep(c32(0, le), n)))  // polygon of n empty rings
			w.wkb(cat(hdr(3, 0xffffffff, le), rep(c32(0, le), n))) // ... with a lying ring count
			w.wkb(cat(hdr(3, uint32(n), le), rep(cat(c32(1, le), make([]byte, 16)), n/5)))
		}
		for _, n := range []int{100, 1000, 7280} {
			w.all(cat(hdr(7, uint32(n), le), rep(hdr(7, 0, le), n))) // collection of n empty collections
			w.wkb(cat(hdr(7, 0xffffffff, le), rep(hdr(7, 0, le), n)))
			w.wkb(cat(hdr(7, uint32(n), le), rep(hdr(3, 0, le), n))) // of empty polygons
		}
		for _, n := range []int{100, 1000, 5040} {
			w.all(cat(hdr(5, uint32(n), le), rep(hdr(2, 0, le), n))) // multilinestring of empty lines
			w.all(cat(hdr(6, uint32(n), le), rep(hdr(3, 0, le), n))) // multipolygon of empty polygons
			w.wkb(cat(hdr(6, uint32(n), le), rep(cat(hdr(3, 1, le), c32(0, le)), n*9/13)))
		}
		for _, n := range []int{100, 1000, 3120} {
			w.all(cat(hdr(4, uint32(n), le), rep(cat(hdr(1, 0, le)[:5], make([]byte, 16)), n))) // multipoint
			w.wkb(cat(hdr(4, 0xffffffff, le), rep(cat(hdr(1, 0, le)[:5], make([]byte, 16)), n)))
		}
	}

	// 4. deep nesting: 9 bytes per level; 7281 levels fill 64 KiB
	for _, d := range []int{1, 2, 10, 100, 1000, 5000, 7281} {
		for _, le := range []bool{true, false} {
			w.all(chain(d, 1, le, false, hdr(7, 0, le)))                                      // honest
			w.wkb(chain(d, 1, le, true, cat(hdr(1, 0, le)[:5], make([]byte, 16))))            // alternating byte order
			w.wkb(chain(d, 0xffffffff, le, false, nil))                                       // every level lies
			w.wkb(chain(d, 1<<16, le, true, hdr(2, 0xffffffff, le)))                          // lies all the way down
			w.wkb(chain(d, 2, le, false, hdr(3, 1<<28, le)))                                  // count 2 but one member
			w.wkb(chain(d, 1, le, false, nil))                                                // truncated at the innermost header
			w.wkb(chain(d, 1, le, false, []byte{1, 7, 0}))                                    // ... in the middle of a header
			w.wkb(cat(hdr(6, 1<<20, le), hdr(3, 1<<20, le), chain(d, 1<<20, le, false, nil))) // multipolygon>polygon>ring count, then junk
		}
	}

	// 5. valid encodings and their systematic mutations
	nGeoms := 60 * scale
	for i := 0; i < nGeoms; i++ {
		g := genGeom(r, 3)
		le := r.Bool()
		e := encodeMeta(g, le, i%3 == 0, r)
		b := e.b
		if len(b) > 4096 {
			continue
		}
		w.all(b)
		w.wkb(cat(b, []byte{1, 2, 3})) // trailing bytes are ignored
		// truncation at EVERY offset for encodings up to 512 bytes (quick: a third of the geometries)
		if len(b) <= 512 && (thorough || i%3 == 0) {
			for k := 0; k < len(b); k++ {
				w.wkb(b[:k])
			}
		} else {
			for k := 0; k < 12; k++ {
				w.wkb(b[:r.Intn(len(b))])
			}
		}
		// every field position
		for _, f := range e.fields {
			switch f.kind {
			case 'c':
				for _, c := range inflated(len(b)) {
					w.wkb(put32(b, f.off, c, f.le))
				}
				if i%4 == 0 {
					// the right bytes in the wrong order, and off-by-one counts
					w.wkb(put32(b, f.off, binary.LittleEndian.Uint32(b[f.off:]), !f.le))
					old := binary.LittleEndian.Uint32(b[f.off:])
					if !f.le {
						old = binary.BigEndian.Uint32(b[f.off:])
					}
					w.wkb(put32(b, f.off, old+1, f.le))
					if old > 0 {
						w.wkb(put32(b, f.off, old-1, f.le))
					}
				}
			case 't':
				for _, c := range []uint32{0, 8, 15, 16, 17, uint32(r.Range(1, 7)), uint32(r.Range(1, 7)) + 1000, uint32(r.U64())} {
					w.wkb(put32(b, f.off, c, f.le))
				}
			case 'f':
				for _, v := range []byte{2, 0xff, byte(r.Intn(256)), b[f.off] ^ 1} {
					c := append([]byte(nil), b...)
					c[f.off] = v
					w.wkb(c)
				}
			}
		}
		if thorough || i%2 == 0 {
			w.cutMutations(e, []uint32{1 << 16, 1 << 20})
		}
		// single and double bit flips
		for k := 0; k < 24; k++ {
			c := append([]byte(nil), b...)
			c[r.Intn(len(c))] ^= 1 << uint(r.Intn(8))
			if k%2 == 1 {
				c[r.Intn(len(c))] ^= 1 << uint(r.Intn(8))
			}
			if k%8 == 0 {
				w.all(c)
			} else {
				w.wkb(c)
			}
		}
	}

	// 6. random bytes: pure, and "plausible" streams made of headers, counts and payload in random order
	nRand := 300 * scale
	for i := 0; i < nRand; i++ {
		var n int
		switch r.Intn(6) {
		case 0:
			n = r.Intn(16)
		case 1:
			n = r.Intn(65536)
		default:
			n = r.Intn(300)
		}
		b := make([]byte, n)
		for j := range b {
			b[j] = byte(r.U64())
		}
		if i%2 == 0 && n > 0 {
			b[0] &= 1
		}
		if i%10 == 0 {
			w.all(b)
		} else {
			w.wkb(b)
		}
	}
	for i := 0; i < nRand*2; i++ {
		var b []byte
		steps := r.Range(1, 40)
		if i%50 == 0 {
			steps = r.Range(1000, 7000)
		}
		for s := 0; s < steps && len(b) < maxInput; s++ {
			le := r.Intn(8) != 0
			switch r.Intn(7) {
			case 0, 1, 2:
				code := uint32(r.Range(1, 7))
				if r.Intn(20) == 0 {
					code = uint32(r.Range(0, 20))
				}
				b = append(b, hdr(code, 0, le)[:5]...)
			case 3, 4:
				c := uint32(r.Intn(4))
				switch r.Intn(12) {
				case 0:
					c = uint32(r.U64())
				case 1:
					c = []uint32{1 << 16, 1 << 24, 0xffffffff, 1024, 1025}[r.Intn(5)]
				}
				b = append(b, c32(c, le)...)
			case 5:
				b = append(b, make([]byte, 16)...)
			default:
				b = append(b, byte(r.U64()))
			}
		}
		if i%10 == 0 {
			w.all(b)
		} else {
			w.wkb(b)
		}
	}

	// 7. hex strings that are not hex
	for _, s := range []string{"", "0", "0g", "zz", "0102000000", "01 02", "0x01", "010", "０１", "01\n", "0102000000FFFFFFFF", "\x00\x01", "ÿÿ"} {
		fmt.Fprintf(out, "hex s%s\n", hex.EncodeToString([]byte(s)))
	}
	// which error: the FIRST non-digit decides (first or second digit of a pair, or the odd trailing
	// byte); an odd length is reported only when every byte is a digit
	for _, s := range []string{"g", "0g", "g0", "gg", "00g", "0g0", "g00", "00zz", "0z0y", "0y0z0", "012", "01g", "0g1", "g01", "xyz", "0102000000f", "0102000000g",
		"010200000g00", "01020000000g", "0G", "0:", "0/", "0@", "0`", "0\x00", "\x000", "0\xff1", "AbCdEf0", "abcdefg", "ABCDEFG", "0 ", " 0"} {
		fmt.Fprintf(out, "hex s%s\n", hex.EncodeToString([]byte(s)))
	}
	for i := 0; i < 60*scale; i++ {
		n := r.Intn(30)
		b := make([]byte, n)
		for j := range b {
			b[j] = "0123456789abcdefABCDEF"[r.Intn(22)]
		}
		for k := r.Intn(3); k > 0 && n > 0; k-- {
			b[r.Intn(n)] = []byte{'g', 'G', ' ', 0, 0xff, '/', ':', '@', '`', 'x', byte(r.U64())}[r.Intn(11)]
		}
		fmt.Fprintf(out, "hex s%s\n", hex.EncodeToString(b))
	}
	for i := 0; i < 40*scale; i++ {
		n := r.Intn(40)
		b := make([]byte, n)
		for j := range b {
			if r.Intn(10) == 0 {
				b[j] = byte(r.U64())
			} else {
				b[j] = "0123456789abcdefABCDEF"[r.Intn(22)]
			}
		}
		fmt.Fprintf(out, "hex s%s\n", hex.EncodeToString(b))
	}
}
