package main

import (
	"bufio"
	"encoding/binary"
	"encoding/hex"
	"fmt"
	"math"

	"github.com/ctessum/geom"

	"verif/harness/vproto"
)

// ---- geometry generator (small members; the big/boundary shapes are built explicitly below)

func coord(r *vproto.Rng) float64 {
	switch r.Intn(8) {
	case 0:
		return math.Float64frombits(r.U64())
	case 1:
		return math.Copysign(0, -1)
	case 2:
		return math.Inf(1 - 2*r.Intn(2))
	case 3:
		return math.Float64frombits(0x7ff8000000000000 | r.U64()&0xffff)
	default:
		return float64(r.Range(-1000, 1000)) / 8
	}
}

func cnt(r *vproto.Rng) int {
	switch r.Intn(8) {
	case 0, 1:
		return 0
	case 2, 3:
		return 1
	case 4, 5:
		return 2
	default:
		return r.Range(0, 5)
	}
}

func pts(r *vproto.Rng) []geom.Point {
	p := make([]geom.Point, cnt(r))
	for i := range p {
		p[i] = geom.Point{X: coord(r), Y: coord(r)}
	}
	return p
}

func ptss(r *vproto.Rng) []geom.Path {
	p := make([]geom.Path, cnt(r))
	for i := range p {
		p[i] = pts(r)
	}
	return p
}

func genGeom(r *vproto.Rng, depth int) geom.Geom {
	k := r.Intn(8)
	if depth <= 0 && k >= 6 {
		k = r.Intn(6)
	}
	switch k {
	case 0:
		return geom.Point{X: coord(r), Y: coord(r)}
	case 1:
		return geom.MultiPoint(pts(r))
	case 2:
		return geom.LineString(pts(r))
	case 3:
		m := make(geom.MultiLineString, cnt(r))
		for i := range m {
			m[i] = pts(r)
		}
		return m
	case 4:
		return geom.Polygon(ptss(r))
	case 5:
		m := make(geom.MultiPolygon, cnt(r))
		for i := range m {
			m[i] = ptss(r)
		}
		return m
	default:
		m := make(geom.GeometryCollection, cnt(r))
		for i := range m {
			m[i] = genGeom(r, depth-1)
		}
		return m
	}
}

// ---- own serializer that remembers where the flag / type / count fields are

type field struct {
	off  int
	kind byte // 'f' flag, 't' type code, 'c' count
	le   bool
}

type wenc struct {
	b      []byte
	fields []field
	r      *vproto.Rng
	mixed  bool // choose a byte order per element
}

func (e *wenc) u32(v uint32, le bool, kind byte) {
	e.fields = append(e.fields, field{len(e.b), kind, le})
	var t [4]byte
	if le {
		binary.LittleEndian.PutUint32(t[:], v)
	} else {
		binary.BigEndian.PutUint32(t[:], v)
	}
	e.b = append(e.b, t[:]...)
}

func (e *wenc) f64(v float64, le bool) {
	var t [8]byte
	if le {
		binary.LittleEndian.PutUint64(t[:], math.Float64bits(v))
	} else {
		binary.BigEndian.PutUint64(t[:], math.Float64bits(v))
	}
	e.b = append(e.b, t[:]...)
}

func (e *wenc) header(code uint32, le bool) bool {
	if e.mixed {
		le = e.r.Bool()
	}
	e.fields = append(e.fields, field{len(e.b), 'f', le})
	if le {
		e.b = append(e.b, 1)
	} else {
		e.b = append(e.b, 0)
	}
	e.u32(code, le, 't')
	return le
}

func (e *wenc) points(ps []geom.Point, le bool) {
	e.u32(uint32(len(ps)), le, 'c')
	for _, p := range ps {
		e.f64(p.X, le)
		e.f64(p.Y, le)
	}
}

func (e *wenc) geom(g geom.Geom, le bool) {
	switch t := g.(type) {
	case geom.Point:
		le = e.header(1, le)
		e.f64(t.X, le)
		e.f64(t.Y, le)
	case geom.LineString:
		le = e.header(2, le)
		e.points(t, le)
	case geom.Polygon:
		le = e.header(3, le)
		e.u32(uint32(len(t)), le, 'c')
		for _, ring := range t {
			e.points(ring, le)
		}
	case geom.MultiPoint:
		le = e.header(4, le)
		e.u32(uint32(len(t)), le, 'c')
		for _, p := range t {
			e.geom(p, le)
		}
	case geom.MultiLineString:
		le = e.header(5, le)
		e.u32(uint32(len(t)), le, 'c')
		for _, p := range t {
			e.geom(p, le)
		}
	case geom.MultiPolygon:
		le = e.header(6, le)
		e.u32(uint32(len(t)), le, 'c')
		for _, p := range t {
			e.geom(p, le)
		}
	case geom.GeometryCollection:
		le = e.header(7, le)
		e.u32(uint32(len(t)), le, 'c')
		for _, p := range t {
			e.geom(p, le)
		}
	default:
		panic("wenc: unsupported")
	}
}

func encodeMeta(g geom.Geom, le, mixed bool, r *vproto.Rng) *wenc {
	e := &wenc{r: r, mixed: mixed}
	e.geom(g, le)
	return e
}

func put32(b []byte, off int, v uint32, le bool) []byte {
	c := append([]byte(nil), b...)
	if le {
		binary.LittleEndian.PutUint32(c[off:], v)
	} else {
		binary.BigEndian.PutUint32(c[off:], v)
	}
	return c
}

// ---- explicit shapes

// chain builds `depth` nested collections (count field `count` at every level) around `inner`.
func chain(depth int, count uint32, le bool, alternate bool, inner []byte) []byte {
	var b []byte
	for i := 0; i < depth; i++ {
		l := le
		if alternate && i%2 == 1 {
			l = !le
		}
		var t [9]byte
		if l {
			t[0] = 1
			binary.LittleEndian.PutUint32(t[1:], 7)
			binary.LittleEndian.PutUint32(t[5:], count)
		} else {
			binary.BigEndian.PutUint32(t[1:], 7)
			binary.BigEndian.PutUint32(t[5:], count)
		}
		b = append(b, t[:]...)
	}
	return append(b, inner...)
}

func hdr(code, count uint32, le bool) []byte {
	var t [9]byte
	if le {
		t[0] = 1
		binary.LittleEndian.PutUint32(t[1:], code)
		binary.LittleEndian.PutUint32(t[5:], count)
	} else {
		binary.BigEndian.PutUint32(t[1:], code)
		binary.BigEndian.PutUint32(t[5:], count)
	}
	return t[:]
}

func c32(v uint32, le bool) []byte {
	var t [4]byte
	if le {
		binary.LittleEndian.PutUint32(t[:], v)
	} else {
		binary.BigEndian.PutUint32(t[:], v)
	}
	return t[:]
}

func rep(b []byte, n int) []byte {
	out := make([]byte, 0, len(b)*n)
	for i := 0; i < n; i++ {
		out = append(out, b...)
	}
	return out
}

func cat(bs ...[]byte) []byte {
	var out []byte
	for _, b := range bs {
		out = append(out, b...)
	}
	return out
}

func pointData(n int, r *vproto.Rng) []byte {
	b := make([]byte, 16*n)
	for i := 0; i < n; i++ {
		binary.LittleEndian.PutUint64(b[16*i:], math.Float64bits(float64(i)))
		binary.LittleEndian.PutUint64(b[16*i+8:], math.Float64bits(float64(r.Range(-9, 9))))
	}
	return b
}

const maxInput = 65536

type wkbEmitter struct {
	out *bufio.Writer
	r   *vproto.Rng
	n   int
}

func (w *wkbEmitter) wkb(b []byte) {
	if len(b) > maxInput {
		b = b[:maxInput]
	}
	fmt.Fprintf(w.out, "wkb x%s\n", hex.EncodeToString(b))
	w.n++
}

// also through hex.Decode and through wkb.Read on a reader that is not a bytes.Buffer
func (w *wkbEmitter) all(b []byte) {
	if len(b) > maxInput {
		b = b[:maxInput]
	}
	w.wkb(b)
	h := hex.EncodeToString(b)
	if w.r.Bool() {
		// upper-case some digits: encoding/hex accepts both cases
		hb := []byte(h)
		for i := range hb {
			if hb[i] >= 'a' && w.r.Intn(3) == 0 {
				hb[i] -= 32
			}
		}
		h = string(hb)
	}
	fmt.Fprintf(w.out, "hex s%s\n", hex.EncodeToString([]byte(h)))
	fmt.Fprintf(w.out, "wkbr %d x%s\n", []int{1, 3, 7, 16, 4096}[w.r.Intn(5)], hex.EncodeToString(b))
}

var inflated = func(n int) []uint32 {
	return []uint32{uint32(n + 1), 1 << 16, 1 << 28, 1 << 31, 0xffffffff}
}

func genWKB(out *bufio.Writer, r *vproto.Rng, tier string) {
	w := &wkbEmitter{out: out, r: r}
	thorough := tier == "thorough"
	scale := 2
	if thorough {
		scale = 40
	}

	// 1. fixed corpus: small inflated counts FIRST, then growing (the worker is memory-limited)
	for _, le := range []bool{true, false} {
		for code := uint32(2); code <= 7; code++ {
			for _, c := range []uint32{1, 2, 1025, 1 << 12, 1 << 16, 1 << 20, 1 << 24, 1 << 28, 1 << 31, 0xffffffff} {
				w.all(hdr(code, c, le))
			}
			// lying counts of every magnitude between "one chunk" and 2^16 (a reader that trusts
			// counts below some threshold wastes threshold*elemsize bytes on a 9-byte message)
			for _, c := range []uint32{1023, 1024, 1536, 2047, 2048, 2049, 2100, 2500, 3000, 3500, 4095, 4097, 5000, 6000, 8191, 8192, 10000, 12000, 16384, 20000, 32768, 50000, 65535} {
				w.wkb(hdr(code, c, le))
			}
		}
	}
	w.all(nil)
	w.all([]byte{1})
	w.all([]byte{0})
	w.all([]byte{2, 1, 0, 0, 0})
	w.all([]byte{0xff, 1, 0, 0, 0})
	w.all([]byte{1, 1, 0, 0})
	for code := uint32(0); code <= 20; code++ {
		w.all(cat(hdr(code, 0, true), make([]byte, 16)))
		w.all(cat(hdr(code, 0, false), make([]byte, 16)))
	}
	for _, code := range []uint32{1001, 2003, 3002, 0x80000001, 0x20000001, 0x40000002, 0xffffffff, 0x01000000, 0x07000000} {
		w.all(cat(hdr(code, 1, true), make([]byte, 32)))
		w.all(cat(hdr(code, 1, false), make([]byte, 32)))
	}
	// polygon whose inner ring count lies, multi* whose members lie, at each position
	for _, le := range []bool{true, false} {
		for _, c := range []uint32{3, 1 << 16, 0xffffffff} {
			w.all(cat(hdr(3, 2, le), c32(1, le), make([]byte, 16), c32(c, le), make([]byte, 32)))
			w.all(cat(hdr(5, 2, le), hdr(2, 1, le), make([]byte, 16), hdr(2, c, le), make([]byte, 32)))
			w.all(cat(hdr(6, 2, le), hdr(3, 1, le), c32(0, le), hdr(3, c, le), c32(c, le)))
			w.all(cat(hdr(6, c, le), hdr(3, c, le), c32(c, le)))
			w.all(cat(hdr(4, c, le), hdr(1, 0, le)[:5], make([]byte, 16)))
			w.all(cat(hdr(7, c, le), hdr(4, c, le), hdr(1, 0, le)[:5], make([]byte, 16)))
		}
		// members of the wrong type
		w.all(cat(hdr(4, 1, le), hdr(2, 0, le)))
		w.all(cat(hdr(5, 1, le), hdr(1, 0, le)[:5], make([]byte, 16)))
		w.all(cat(hdr(6, 1, le), hdr(2, 0, le)))
		w.all(cat(hdr(4, 2, le), hdr(1, 0, le)[:5], make([]byte, 16), hdr(7, 0, le)))
	}

	// 2. chunk boundaries of readPoints (1024-point chunks): honest, short by one byte, short by a chunk
	for _, n := range []int{1023, 1024, 1025, 2047, 2048, 2049, 3072, 4094} {
		for _, le := range []bool{true, false} {
			data := pointData(n, r)
			full := cat(hdr(2, uint32(n), le), data)
			w.all(full)
			w.wkb(full[:len(full)-1])
			w.wkb(full[:len(full)-16])
			if n > 1024 {
				w.wkb(full[:9+16*1024])   // exactly one chunk present
				w.wkb(full[:9+16*1024+1]) // one chunk and one byte
				w.wkb(full[:9+16*1024-1])
			}
			w.wkb(cat(hdr(2, uint32(n+1), le), data))           // count one too large
			w.wkb(cat(hdr(2, uint32(n-1), le), data))           // count one too small (trailing bytes ignored)
			w.wkb(cat(hdr(3, 1, le), c32(uint32(n), le), data)) // as a polygon ring
			w.wkb(cat(hdr(3, 2, le), c32(uint32(n), le), data, c32(0xffffffff, le)))
			for _, c := range inflated(n) {
				w.wkb(cat(hdr(2, c, le), data))
			}
		}
	}

	// 3. allocation-heavy honest shapes up to 64 KiB
	for _, le := range []bool{true, false} {
		for _, n := range []int{100, 1000, 5000, 16381} {
			w.all(cat(hdr(3, uint32(n), le), rep(c32(0, le), n)))  // polygon of n empty rings
			w.wkb(cat(hdr(3, 0xffffffff, le), rep(c32(0, le), n))) // ... with a lying ring count
			w.wkb(cat(hdr(3, uint32(n), le), rep(cat(c32(1, le), make([]byte, 16)), n/5)))
		}
		for _, n := range []int{100, 1000, 7280} {
			w.all(cat(hdr(7, uint32(n), le), rep(hdr(7, 0, le), n))) // collection of n empty collections
			w.wkb(cat(hdr(7, 0xffffffff, le), rep(hdr(7, 0, le), n)))
			w.wkb(cat(hdr(7, uint32(n), le), rep(hdr(3, 0, le), n))) // of empty polygons
		}
		for _, n := range []int{100, 1000, 5040} {
			w.all(cat(hdr(5, uint32(n), le), rep(hdr(2, 0, le), n))) // multilinestring of empty lines
			w.all(cat(hdr(6, uint32(n), le), rep(hdr(3, 0, le), n))) // multipolygon of empty polygons
			w.wkb(cat(hdr(6, uint32(n), le), rep(cat(hdr(3, 1, le), c32(0, le)), n*9/13)))
		}
		for _, n := range []int{100, 1000, 3120} {
			w.all(cat(hdr(4, uint32(n), le), rep(cat(hdr(1, 0, le)[:5], make([]byte, 16)), n))) // multipoint
			w.wkb(cat(hdr(4, 0xffffffff, le), rep(cat(hdr(1, 0, le)[:5], make([]byte, 16)), n)))
		}
	}

	// 4. deep nesting: 9 bytes per level; 7281 levels fill 64 KiB
	for _, d := range []int{1, 2, 10, 100, 1000, 5000, 7281} {
		for _, le := range []bool{true, false} {
			w.all(chain(d, 1, le, false, hdr(7, 0, le)))                                      // honest
			w.wkb(chain(d, 1, le, true, cat(hdr(1, 0, le)[:5], make([]byte, 16))))            // alternating byte order
			w.wkb(chain(d, 0xffffffff, le, false, nil))                                       // every level lies
			w.wkb(chain(d, 1<<16, le, true, hdr(2, 0xffffffff, le)))                          // lies all the way down
			w.wkb(chain(d, 2, le, false, hdr(3, 1<<28, le)))                                  // count 2 but one member
			w.wkb(chain(d, 1, le, false, nil))                                                // truncated at the innermost header
			w.wkb(chain(d, 1, le, false, []byte{1, 7, 0}))                                    // ... in the middle of a header
			w.wkb(cat(hdr(6, 1<<20, le), hdr(3, 1<<20, le), chain(d, 1<<20, le, false, nil))) // multipolygon>polygon>ring count, then junk
		}
	}

	// 5. valid encodings and their systematic mutations
	nGeoms := 60 * scale
	for i := 0; i < nGeoms; i++ {
		g := genGeom(r, 3)
		le := r.Bool()
		e := encodeMeta(g, le, i%3 == 0, r)
		b := e.b
		if len(b) > 4096 {
			continue
		}
		w.all(b)
		w.wkb(cat(b, []byte{1, 2, 3})) // trailing bytes are ignored
		// truncation at EVERY offset for encodings up to 512 bytes (quick: a third of the geometries)
		if len(b) <= 512 && (thorough || i%3 == 0) {
			for k := 0; k < len(b); k++ {
				w.wkb(b[:k])
			}
		} else {
			for k := 0; k < 12; k++ {
				w.wkb(b[:r.Intn(len(b))])
			}
		}
		// every field position
		for _, f := range e.fields {
			switch f.kind {
			case 'c':
				for _, c := range inflated(len(b)) {
					w.wkb(put32(b, f.off, c, f.le))
				}
				if i%4 == 0 {
					// the right bytes in the wrong order, and off-by-one counts
					w.wkb(put32(b, f.off, binary.LittleEndian.Uint32(b[f.off:]), !f.le))
					old := binary.LittleEndian.Uint32(b[f.off:])
					if !f.le {
						old = binary.BigEndian.Uint32(b[f.off:])
					}
					w.wkb(put32(b, f.off, old+1, f.le))
					if old > 0 {
						w.wkb(put32(b, f.off, old-1, f.le))
					}
				}
			case 't':
				for _, c := range []uint32{0, 8, 15, 16, 17, uint32(r.Range(1, 7)), uint32(r.Range(1, 7)) + 1000, uint32(r.U64())} {
					w.wkb(put32(b, f.off, c, f.le))
				}
			case 'f':
				for _, v := range []byte{2, 0xff, byte(r.Intn(256)), b[f.off] ^ 1} {
					c := append([]byte(nil), b...)
					c[f.off] = v
					w.wkb(c)
				}
			}
		}
		// single and double bit flips
		for k := 0; k < 24; k++ {
			c := append([]byte(nil), b...)
			c[r.Intn(len(c))] ^= 1 << uint(r.Intn(8))
			if k%2 == 1 {
				c[r.Intn(len(c))] ^= 1 << uint(r.Intn(8))
			}
			if k%8 == 0 {
				w.all(c)
			} else {
				w.wkb(c)
			}
		}
	}

	// 6. random bytes: pure, and "plausible" streams made of headers, counts and payload in random order
	nRand := 300 * scale
	for i := 0; i < nRand; i++ {
		var n int
		switch r.Intn(6) {
		case 0:
			n = r.Intn(16)
		case 1:
			n = r.Intn(65536)
		default:
			n = r.Intn(300)
		}
		b := make([]byte, n)
		for j := range b {
			b[j] = byte(r.U64())
		}
		if i%2 == 0 && n > 0 {
			b[0] &= 1
		}
		if i%10 == 0 {
			w.all(b)
		} else {
			w.wkb(b)
		}
	}
	for i := 0; i < nRand*2; i++ {
		var b []byte
		steps := r.Range(1, 40)
		if i%50 == 0 {
			steps = r.Range(1000, 7000)
		}
		for s := 0; s < steps && len(b) < maxInput; s++ {
			le := r.Intn(8) != 0
			switch r.Intn(7) {
			case 0, 1, 2:
				code := uint32(r.Range(1, 7))
				if r.Intn(20) == 0 {
					code = uint32(r.Range(0, 20))
				}
				b = append(b, hdr(code, 0, le)[:5]...)
			case 3, 4:
				c := uint32(r.Intn(4))
				switch r.Intn(12) {
				case 0:
					c = uint32(r.U64())
				case 1:
					c = []uint32{1 << 16, 1 << 24, 0xffffffff, 1024, 1025}[r.Intn(5)]
				}
				b = append(b, c32(c, le)...)
			case 5:
				b = append(b, make([]byte, 16)...)
			default:
				b = append(b, byte(r.U64()))
			}
		}
		if i%10 == 0 {
			w.all(b)
		} else {
			w.wkb(b)
		}
	}

	// 7. hex strings that are not hex
	for _, s := range []string{"", "0", "0g", "zz", "0102000000", "01 02", "0x01", "010", "０１", "01\n", "0102000000FFFFFFFF", "\x00\x01", "ÿÿ"} {
		fmt.Fprintf(out, "hex s%s\n", hex.EncodeToString([]byte(s)))
	}
	for i := 0; i < 40*scale; i++ {
		n := r.Intn(40)
		b := make([]byte, n)
		for j := range b {
			if r.Intn(10) == 0 {
				b[j] = byte(r.U64())
			} else {
				b[j] = "0123456789abcdefABCDEF"[r.Intn(22)]
			}
		}
		fmt.Fprintf(out, "hex s%s\n", hex.EncodeToString(b))
	}
}
