// Harness for C07 (decoders are total on untrusted input). Subcommands:
//
//	gen --seed S --tier T   write case lines (inputs only)
//	impl                    supervisor: feeds each line to a memory-limited worker child and
//	                        records ok/err/panic from the worker, oom/crash/timeout when it dies
//	worker                  reads lines, runs the real decoder under recover, prints one result line
//
// Line kinds (inputs are hex so that arbitrary bytes survive the line protocol):
//
//	wkb  x<hex>             wkb.Decode(bytes)
//	wkbr <k> x<hex>         wkb.Read(reader that returns at most k bytes per call, not a bytes.Buffer)
//	wkbs <E|D|U|C|X>[z] <k> x<hex>  wkb.Read(scripted reader: pieces, empty reads, then a sticky error; see scriptReader)
//	wkbn <C|E|U> <ev>...    wkb.Read(eventReader: errors that are NOT sticky; ev = d|c|e|u + hex; see gen_wkb.go)
//	hex  s<hex>             hex.Decode(string(bytes))
//	json x<hex>             geojson.Decode(bytes)
//	gj   <T> <goval>        geojson.FromGeoJSON(&Geometry{Type, Coordinates}); T = s<hex> | NILPTR
//
// Result: `ok A=<TotalAlloc delta> S=<stack growth> | <geom> | <re-decode 1> | <re-decode 2>`
// or `err:<class> A=.. S=..`, `panic:<msg> A=.. S=..`, or from the supervisor `oom`, `crash`, `timeout`.
package main

import (
	"bufio"
	"bytes"
	"encoding/binary"
	"encoding/hex"
	"errors"
	"fmt"
	"io"
	"os"
	"os/exec"
	"runtime"
	"runtime/debug"
	"runtime/metrics"
	"strings"
	"syscall"
	"time"

	"github.com/ctessum/geom"
	"github.com/ctessum/geom/encoding/geojson"
	ghex "github.com/ctessum/geom/encoding/hex"
	"github.com/ctessum/geom/encoding/wkb"

	"verif/harness/vproto"
)

// ---------------------------------------------------------------------------------------------
// worker: the real code, in-process, under recover, with allocation measured around the call only

const workerMemLimit = 4 << 30 // RLIMIT_AS of the worker: 4 GiB of address space (the Go runtime itself reserves several hundred MiB)

func errClass(err error) string {
	var ue *wkb.UnexpectedGeometryError
	var ie *geojson.InvalidGeometryError
	var se *geojson.UnsupportedGeometryError
	var re runtime.Error
	var he hex.InvalidByteError
	switch {
	case err == io.EOF || err == io.ErrUnexpectedEOF:
		return "eof"
	case err == errUEOF:
		return "ueof"
	case errors.As(err, &ue):
		return "unexpected"
	case errors.As(err, &ie):
		return "invalid"
	case errors.As(err, &se):
		return "unsupported"
	case errors.As(err, &re):
		return "runtime"
	case err == errReader:
		return "reader"
	case errors.As(err, &he):
		return fmt.Sprintf("hexbyte:%02x", byte(he))
	case err == hex.ErrLength:
		return "hexlen"
	case strings.HasPrefix(err.Error(), "invalid byte order"):
		return "order"
	case strings.HasPrefix(err.Error(), "unsupported geometry type"):
		return "type"
	case strings.HasPrefix(err.Error(), "json:") || strings.HasPrefix(err.Error(), "invalid character") ||
		strings.HasPrefix(err.Error(), "unexpected end of JSON"):
		return "json"
	}
	return "other(" + strings.ReplaceAll(err.Error(), " ", "_") + ")"
}

// slowReader hands out at most k bytes per Read call and is not a *bytes.Buffer.
type slowReader struct {
	b []byte
	k int
}

func (s *slowReader) Read(p []byte) (int, error) {
	if len(s.b) == 0 {
		return 0, io.EOF
	}
	n := s.k
	if n > len(p) {
		n = len(p)
	}
	if n > len(s.b) {
		n = len(s.b)
	}
	copy(p, s.b[:n])
	s.b = s.b[n:]
	return n, nil
}

// scriptReader delivers b in pieces (sizes cycle through k, 1, 2k; with `zero` every third call is
// an empty read `(0, nil)`), then fails for ever (a sticky error) with
//
//	E  (0, io.EOF)                      D  io.EOF together with the last piece
//	U  (0, io.ErrUnexpectedEOF)         C  (0, errReader)        X  errReader together with the last piece
type scriptReader struct {
	b     []byte
	k     int
	zero  bool
	end   byte
	calls int
}

var errReader = errors.New("c07: the reader failed")

// errUEOF stands for io.ErrUnexpectedEOF on wkbn lines, where the model predicts WHICH of the two
// end-of-input values io.ReadFull returns (everywhere else they are one class, as in C05)
var errUEOF = errors.New("c07: io.ErrUnexpectedEOF")

// eventReader plays a script: every Read call hands out (a part of) the data of the next event; the
// call that hands out the event's last byte also returns the event's error; an event without data is
// an empty read (0, nil) or an error alone (0, err). After the script: (0, fin) for ever.
type event struct {
	data []byte
	err  error
}
type eventReader struct {
	evs []event
	fin error
}

func (r *eventReader) Read(p []byte) (int, error) {
	if len(r.evs) == 0 {
		return 0, r.fin
	}
	e := &r.evs[0]
	if len(e.data) <= len(p) {
		n := copy(p, e.data)
		err := e.err
		r.evs = r.evs[1:]
		return n, err
	}
	n := copy(p, e.data[:len(p)])
	e.data = e.data[len(p):]
	return n, nil
}

func readerErr(c byte) error {
	switch c {
	case 'c', 'C':
		return errReader
	case 'e', 'E':
		return io.EOF
	case 'u', 'U':
		return io.ErrUnexpectedEOF
	}
	return nil
}

func (s *scriptReader) fail() error {
	switch s.end {
	case 'C', 'X':
		return errReader
	case 'U':
		return io.ErrUnexpectedEOF
	}
	return io.EOF
}

func (s *scriptReader) Read(p []byte) (int, error) {
	s.calls++
	if len(s.b) == 0 {
		return 0, s.fail()
	}
	if s.zero && s.calls%3 == 0 {
		return 0, nil
	}
	n := []int{s.k, 1, 2 * s.k}[s.calls%3]
	if n > len(p) {
		n = len(p)
	}
	if n > len(s.b) {
		n = len(s.b)
	}
	copy(p, s.b[:n])
	s.b = s.b[n:]
	if len(s.b) == 0 && (s.end == 'D' || s.end == 'X') {
		return n, s.fail()
	}
	return n, nil
}

func reWKB(g geom.Geom, xdr bool) string {
	var order binary.ByteOrder = wkb.NDR
	if xdr {
		order = wkb.XDR
	}
	buf, err := wkb.Encode(g, order)
	if err != nil {
		return "encerr"
	}
	g2, err := wkb.Decode(buf)
	if err != nil {
		return "err:" + errClass(err)
	}
	return "ok " + vproto.GeomToks(g2)
}

func reJSON(g geom.Geom) string {
	buf, err := geojson.Encode(g)
	if err != nil {
		return "encerr"
	}
	g2, err := geojson.Decode(buf)
	if err != nil {
		return "err:" + errClass(err)
	}
	return "ok " + vproto.GeomToks(g2)
}

// runCase executes one line; everything that is not the decoder call itself happens outside the
// measured window.
func runCase(line string) (res string) {
	p := vproto.NewParser(line)
	kind := p.Next()
	if kind == "batch" {
		return runBatch(line)
	}
	if kind == "hist" {
		return runHist(line)
	}
	var call func() (geom.Geom, error)
	family := "wkb"
	switch kind {
	case "wkb":
		buf := mustHex(p.Next()[1:])
		call = func() (geom.Geom, error) { return wkb.Decode(buf) }
	case "wkbr":
		k := p.Int()
		buf := mustHex(p.Next()[1:])
		rd := &slowReader{b: buf, k: k}
		call = func() (geom.Geom, error) { return wkb.Read(rd) }
	case "wkbs":
		mode := p.Next()
		k := p.Int()
		buf := mustHex(p.Next()[1:])
		rd := &scriptReader{b: buf, k: k, end: mode[0], zero: strings.HasSuffix(mode, "z")}
		call = func() (geom.Geom, error) { return wkb.Read(rd) }
	case "wkbn":
		rd := &eventReader{fin: readerErr(p.Next()[0])}
		for _, t := range strings.Fields(line)[2:] {
			rd.evs = append(rd.evs, event{data: mustHex(t[1:]), err: readerErr(t[0])})
		}
		call = func() (geom.Geom, error) {
			g, err := wkb.Read(rd)
			if err == io.ErrUnexpectedEOF {
				err = errUEOF
			}
			return g, err
		}
	case "hex":
		s := string(mustHex(p.Next()[1:]))
		call = func() (geom.Geom, error) { return ghex.Decode(s) }
	case "json":
		family = "json"
		buf := mustHex(p.Next()[1:])
		call = func() (geom.Geom, error) { return geojson.Decode(buf) }
	case "gj":
		family = "json"
		t := p.Next()
		var gp *geojson.Geometry
		if t != "NILPTR" {
			gp = &geojson.Geometry{Type: string(mustHex(t[1:]))}
			gp.Coordinates = parseGoVal(p)
		}
		call = func() (geom.Geom, error) { return geojson.FromGeoJSON(gp) }
	default:
		return "badline"
	}
	var g geom.Geom
	var err error
	var m0, m1 runtime.MemStats
	g0 := runtime.NumGoroutine()
	runtime.ReadMemStats(&m0)
	pan := vproto.Safe(func() { g, err = call() })
	runtime.ReadMemStats(&m1)
	// a decoder that hands work to goroutines: give them the chance to finish (or to die — a panic
	// in a goroutine aborts the whole process, which the supervisor reports as `crash` for THIS line)
	for i := 0; i < 200 && runtime.NumGoroutine() > g0; i++ {
		time.Sleep(time.Millisecond)
	}
	stack := int64(m1.StackInuse) - int64(m0.StackInuse)
	if stack < 0 {
		stack = 0
	}
	meas := fmt.Sprintf("A=%d S=%d", m1.TotalAlloc-m0.TotalAlloc, stack)
	switch {
	case pan != "":
		return "panic:" + pan + " " + meas
	case err != nil && g != nil:
		return "both:" + errClass(err) + " " + meas // a geometry AND an error: not allowed by the property
	case err != nil:
		return "err:" + errClass(err) + " " + meas
	case g == nil:
		return "nilnil " + meas // neither a geometry nor an error
	}
	if m1.TotalAlloc-m0.TotalAlloc > bigAlloc {
		return "ok " + meas + " | big"
	}
	if family == "json" {
		return "ok " + meas + " | " + vproto.GeomToks(g) + " | " + reJSON(g)
	}
	return "ok " + meas + " | " + vproto.GeomToks(g) + " | " + reWKB(g, false) + " | " + reWKB(g, true)
}

// bigAlloc: inputs are at most 64 KiB, so the largest allocation the Spec allows for any line is
// 128*65536 + 65536 bytes (8.4 MB). A successful call that allocated more than 16 MiB has violated
// the allocation clause whatever it returned; its result (possibly hundreds of millions of tokens)
// is not transported to the judge, which reports the allocation.
const bigAlloc = 16 << 20

func mustHex(s string) []byte {
	b, err := hex.DecodeString(s)
	if err != nil {
		panic("harness: bad hex in line: " + err.Error())
	}
	return b
}

func worker() {
	lim := syscall.Rlimit{Cur: workerMemLimit, Max: workerMemLimit}
	_ = syscall.Setrlimit(syscall.RLIMIT_AS, &lim)
	debug.SetMemoryLimit(1 << 30)
	debug.SetMaxStack(128 << 20) // runaway recursion dies fast: `fatal error: stack overflow` → crash
	go heapWatchdog()
	in := bufio.NewReaderSize(os.Stdin, 1<<20)
	out := bufio.NewWriterSize(os.Stdout, 1<<16)
	// warm-up: one-time lazy initialisation inside reflect / encoding/binary / encoding/json
	// (type caches) must not be charged to the first measured call
	for _, l := range []string{
		"wkb x0107000000070000000101000000000000000000f03f0000000000000040010200000001000000000000000000f03f0000000000000040" +
			"01030000000100000001000000000000000000f03f0000000000000040010400000001000000010100000000000000000000000000000000000000" +
			"010500000001000000010200000000000000010600000001000000010300000000000000010700000000000000",
		"wkbr 3 x000000000200000001" + "3ff00000000000004000000000000000",
		"wkbs Xz 3 x000000000200000001" + "3ff00000000000004000000000000000",
		"wkbs C 2 x0000000002000000",
		"wkbn C d01 c01000000 d000000000000f03f d0000000000000040",
		"wkbn E d0102 e000000 d00",
		"hex s3031303130303030303030303030303030303030663033663030303030303030303030303030343020",
		"json x7b2274797065223a224d756c7469506f6c79676f6e222c22636f6f7264696e61746573223a5b5b5b5b312c325d5d5d5d2c2278223a7b2261223a6e756c6c7d7d",
		"json x7b2274797065223a22506f696e74222c22636f6f7264696e61746573223a5b312c5d7d",
		"gj s506f696e74 a 2 f 3ff0000000000000 f 4000000000000000",
	} {
		runCase(l)
	}
	for {
		line, err := in.ReadString('\n')
		l := strings.TrimSpace(line)
		if l != "" {
			res := runCase(l)
			out.WriteString(res)
			out.WriteByte('\n')
			out.Flush()
		}
		if err != nil {
			return
		}
	}
}

// heapWatchdog turns runaway allocation into a quick death: the live heap is sampled every few
// milliseconds and the worker gives up (reported as `oom` for the current line) as soon as it holds
// more than 256 MiB — for an input of at most 64 KiB (30 times the largest allocation the Spec allows). Without it the collector fights the soft limit
// for many seconds before the address-space limit finally kills the process.
func heapWatchdog() {
	sample := []metrics.Sample{{Name: "/memory/classes/heap/objects:bytes"}}
	for {
		time.Sleep(5 * time.Millisecond)
		metrics.Read(sample)
		if sample[0].Value.Kind() == metrics.KindUint64 && sample[0].Value.Uint64() > 256<<20 {
			fmt.Fprintln(os.Stderr, "out of memory: worker heap exceeds 256 MiB")
			os.Exit(3)
		}
	}
}

// ---------------------------------------------------------------------------------------------
// supervisor

// maxDeaths: every death of the worker (oom / crash / timeout) and every `big` result (more than
// 16 MiB allocated) is a violation of the property with the line as failing input. After this many the verdict is long settled; the remaining lines are
// not run (`skipped`), so that a check against a badly broken tree ends in minutes, not hours. On a
// tree where no worker dies nothing is ever skipped.
const maxDeaths = 25

type child struct {
	cmd    *exec.Cmd
	in     io.WriteCloser
	out    *bufio.Reader
	stderr *bytes.Buffer
}

func startChild() *child {
	c := &child{stderr: &bytes.Buffer{}}
	c.cmd = exec.Command(os.Args[0], "worker")
	c.cmd.Env = append(os.Environ(), "GOTRACEBACK=single", "GOMAXPROCS=2")
	var err error
	if c.in, err = c.cmd.StdinPipe(); err != nil {
		panic(err)
	}
	po, err := c.cmd.StdoutPipe()
	if err != nil {
		panic(err)
	}
	c.out = bufio.NewReaderSize(po, 1<<20)
	c.cmd.Stderr = c.stderr
	if err := c.cmd.Start(); err != nil {
		panic(err)
	}
	return c
}

func (c *child) kill() {
	c.in.Close()
	c.cmd.Process.Kill()
	c.cmd.Wait()
}

// ask sends one line and waits for one result line (watchdog: 15 s; the slowest line on the unchanged tree takes a few milliseconds).
func (c *child) ask(line string) (string, bool) {
	type ans struct {
		s   string
		err error
	}
	ch := make(chan ans, 1)
	go func() {
		if _, err := io.WriteString(c.in, line+"\n"); err != nil {
			ch <- ans{"", err}
			return
		}
		s, err := c.out.ReadString('\n')
		ch <- ans{strings.TrimSpace(s), err}
	}()
	select {
	case a := <-ch:
		if a.err != nil || a.s == "" {
			c.in.Close()
			c.cmd.Wait()
			msg := c.stderr.String()
			switch {
			case strings.Contains(msg, "out of memory") || strings.Contains(msg, "cannot allocate"):
				return "oom", false
			case strings.Contains(msg, "stack overflow") || strings.Contains(msg, "stack exceeds"):
				return "crash:stackoverflow", false
			}
			first := strings.SplitN(strings.TrimSpace(msg), "\n", 2)[0]
			return "crash:" + strings.ReplaceAll(first, " ", "_"), false
		}
		return a.s, true
	case <-time.After(15 * time.Second):
		c.kill()
		return "timeout", false
	}
}

// suspicious: a result that violates the property on the face of it (death of the worker, panic,
// nil/nil, more than the Spec's allocation bound 64*len + 64 KiB resp. 128*len + 64 KiB for JSON text —
// the constants of Spec.lean, used here ONLY to decide whether the line is run a second time alone).
func suspicious(line, res string) bool {
	f := strings.Fields(line)
	if len(f) == 0 || f[0] == "batch" || f[0] == "hist" || f[0] == "gj" {
		return false
	}
	first := strings.SplitN(res, " ", 2)[0]
	if first == "oom" || first == "timeout" || strings.HasPrefix(first, "crash") || strings.HasPrefix(first, "panic:") ||
		first == "nilnil" || strings.HasPrefix(first, "both:") || strings.HasSuffix(res, "| big") {
		return true
	}
	size := (len(f[len(f)-1]) - 1) / 2
	if f[0] == "wkbn" { // the input is spread over the events
		size = 0
		for _, t := range f[2:] {
			size += (len(t) - 1) / 2
		}
	}
	per := 64
	if f[0] == "json" {
		per = 128
	}
	for _, t := range strings.Fields(res) {
		var v int
		if strings.HasPrefix(t, "A=") {
			fmt.Sscanf(t[2:], "%d", &v)
			if v > per*size+65536 {
				return true
			}
		}
		// stack growth is measured process-wide and a goroutine stack shrunk by the collector grows
		// again under whichever call comes next: beyond the Spec's bound (128*len + 1 MiB) the line is
		// run again alone, so that the failing input reported is one that reproduces by itself
		if strings.HasPrefix(t, "S=") {
			fmt.Sscanf(t[2:], "%d", &v)
			return v > 128*size+1048576
		}
	}
	return false
}

func impl() {
	in := bufio.NewReaderSize(os.Stdin, 1<<20)
	out := bufio.NewWriterSize(os.Stdout, 1<<20)
	defer out.Flush()
	var c *child
	deaths := 0
	defer func() {
		if c != nil {
			c.kill()
		}
	}()
	for {
		line, err := in.ReadString('\n')
		l := strings.TrimSpace(line)
		if l != "" {
			if deaths >= maxDeaths {
				fmt.Fprintf(out, "%s => skipped\n", l)
				continue
			}
			if c == nil {
				c = startChild()
			}
			res, alive := c.ask(l)
			if !alive {
				c = nil
				deaths++
			} else if strings.HasSuffix(res, "| big") {
				deaths++ // > 16 MiB allocated for <= 64 KiB of input: a violation whatever the judge's constants
			}
			if suspicious(l, res) && res != "timeout" {
				// the input, or the calls before it? Run the line again ALONE in a fresh process. If it does
				// not fail there, the failure is carried by state from earlier calls: this line is not a
				// self-contained failing input (the judge says DIFF ...-statedep; the `hist` lines carry
				// whole histories on one line and are the replayable failing inputs for such defects).
				c2 := startChild()
				res2, alive2 := c2.ask(l)
				if alive2 {
					c2.kill()
				}
				if !suspicious(l, res2) {
					res = "statedep:" + strings.SplitN(res, " ", 2)[0] + " " + res2
				}
			}
			fmt.Fprintf(out, "%s => %s\n", l, res)
			out.Flush()
		}
		if err != nil {
			return
		}
	}
}

func main() {
	if len(os.Args) < 2 {
		fmt.Fprintln(os.Stderr, "usage: c07 gen|impl|worker")
		os.Exit(2)
	}
	switch os.Args[1] {
	case "gen":
		seed, tier := vproto.SeedTier(os.Args[2:])
		gen(seed, tier)
	case "impl":
		impl()
	case "worker":
		worker()
	}
}
