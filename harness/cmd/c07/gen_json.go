package main

import (
	"bufio"
	"encoding/hex"
	"encoding/json"
	"fmt"
	"math"
	"os"
	"strconv"
	"strings"

	"verif/harness/vproto"
)

var geoTypes = []string{"Point", "MultiPoint", "LineString", "MultiLineString", "Polygon", "MultiPolygon"}
var geoDepth = map[string]int{"Point": 1, "MultiPoint": 2, "LineString": 2, "MultiLineString": 3, "Polygon": 3, "MultiPolygon": 4}

var numberTexts = []string{
	"0", "-0", "1", "-1", "1.5", "1e0", "1E+2", "1e-2", "0.1e-7", "-0.0e5", "0.1", "0.3", "1e23", "8.41e21", "5e-324", "4.9e-324",
	"2.4e-324", "2.5e-324", "2.4703282292062327e-324", "2.4703282292062328e-324", "9007199254740993", "9007199254740995",
	"9007199254740992.5", "9007199254740993.0000000000000000000000000000001", "123456789012345678901234567890",
	"0.000000000000000000000000000001", "1e308", "1.7976931348623157e308", "1.7976931348623158e308", "1.7976931348623159e308",
	"179769313486231580793728971405303415079934132710037826936173778980444968292764750946649017977587207096330286416692887910946555547851940402630657488671505820681908902000708383676273854845817711531764475730270069855571366959622842914819860834936475292719074168444365510704342711559699508093042880177904174497791.999999999999999999999999",
	"179769313486231580793728971405303415079934132710037826936173778980444968292764750946649017977587207096330286416692887910946555547851940402630657488671505820681908902000708383676273854845817711531764475730270069855571366959622842914819860834936475292719074168444365510704342711559699508093042880177904174497792",
	"1e309", "1e999", "-1e999", "1e-999", "1e99999999999999999999", "1e-99999999999999999999", "0e99999999999999999999", "-0e-99999999999999999999",
	"2.2250738585072011e-308", "2.2250738585072014e-308", "2.225073858507201e-308", "1.00000000000000011102230246251565404236316680908203125",
	"1.00000000000000011102230246251565404236316680908203124", "1.00000000000000011102230246251565404236316680908203126",
	"0.5", "-2.5", "1234.5678e-2", "100000000000000000000000", "6.02214076e23", "1E400", "1e-400", "12345678901234567890e-5",
}

// json.Number leaves (a Geometry unmarshalled with Decoder.UseNumber, or built by hand): in range,
// out of the float64 range, and not numbers at all
var jsonNumberTexts = []string{"1", "-2.5", "1e300", "-2.5e-300", "0", "-0", "1e400", "-1e999", "6e310", "1.7976931348623159e308",
	"1" + strings.Repeat("0", 315), "-1" + strings.Repeat("0", 400), "1e-400", "abc", "", "NaN", "Inf", "+Inf", "0x1p-2", "1e", " 1", "1_0"}

var badNumberTexts = []string{"01", "+1", ".5", "1.", "1e", "1e+", "-", "--1", "0x10", "1_000", "NaN", "Infinity", "-Infinity", "1.e5", "00", "1e5.5", "١"}

func numText(f float64, r *vproto.Rng) string {
	switch r.Intn(4) {
	case 0:
		return strconv.FormatFloat(f, 'e', -1, 64)
	case 1:
		return strings.ToUpper(strconv.FormatFloat(f, 'e', 17, 64))
	case 2:
		return strconv.FormatFloat(f, 'f', -1, 64)
	}
	return strconv.FormatFloat(f, 'g', -1, 64)
}

func ws(r *vproto.Rng) string {
	if r.Intn(4) != 0 {
		return ""
	}
	return []string{" ", "\n", "\t", "\r\n", "  "}[r.Intn(5)]
}

func strLit(s string, r *vproto.Rng) string {
	var b strings.Builder
	b.WriteByte('"')
	for _, c := range s {
		switch {
		case c == '"' || c == '\\':
			b.WriteByte('\\')
			b.WriteRune(c)
		case c < 0x20:
			fmt.Fprintf(&b, "\\u%04x", c)
		case c < 0x10000 && r.Intn(6) == 0:
			fmt.Fprintf(&b, "\\u%04X", c)
		case c == '/' && r.Bool():
			b.WriteString("\\/")
		default:
			b.WriteRune(c)
		}
	}
	b.WriteByte('"')
	return b.String()
}

func (v *jv) render(b *strings.Builder, r *vproto.Rng) {
	switch v.kind {
	case 'n':
		b.WriteString("null")
	case 'f':
		if math.IsNaN(v.num) || math.IsInf(v.num, 0) {
			b.WriteString("1e999")
		} else {
			b.WriteString(numText(v.num, r))
		}
	case 'r':
		b.WriteString(v.raw)
	case 's':
		b.WriteString(strLit(v.str, r))
	case 't':
		b.WriteString("true")
	case 'u':
		b.WriteString("false")
	case 'a':
		b.WriteString("[" + ws(r))
		for i, x := range v.arr {
			if i > 0 {
				b.WriteString("," + ws(r))
			}
			x.render(b, r)
		}
		b.WriteString(ws(r) + "]")
	case 'o':
		b.WriteString("{" + ws(r))
		for i, x := range v.arr {
			if i > 0 {
				b.WriteString("," + ws(r))
			}
			b.WriteString(strLit(v.keys[i], r) + ws(r) + ":" + ws(r))
			x.render(b, r)
		}
		b.WriteString(ws(r) + "}")
	case 'g':
		b.WriteString("null")
	}
}

func jcoord(r *vproto.Rng) *jv {
	switch r.Intn(10) {
	case 0:
		return jraw(numberTexts[r.Intn(len(numberTexts))])
	case 1:
		return jnum(math.Float64frombits(r.U64() & 0x7fefffffffffffff)) // any finite positive double
	case 2:
		return jnum(-math.Float64frombits(r.U64() & 0x7fefffffffffffff))
	case 3:
		return jnum(math.Copysign(0, -1))
	default:
		return jnum(float64(r.Range(-2000, 2000)) / 16)
	}
}

func jpos(r *vproto.Rng) *jv { return jarr(jcoord(r), jcoord(r)) }

// coords builds a well-formed coordinates member of nesting depth d (1 = position) with member
// counts >= 1 at the first member (the decoder's guard) and possibly-empty later members.
func coords(d int, r *vproto.Rng, first bool) *jv {
	if d == 1 {
		return jpos(r)
	}
	n := r.Range(1, 3)
	if !first && r.Intn(4) == 0 {
		n = 0
	}
	a := jarr()
	for i := 0; i < n; i++ {
		a.arr = append(a.arr, coords(d-1, r, first && i == 0))
	}
	return a
}

// nodes lists all nodes of the tree with their depth.
func nodes(v *jv, d int, acc *[]*jv, depths *[]int) {
	*acc = append(*acc, v)
	*depths = append(*depths, d)
	for _, x := range v.arr {
		nodes(x, d+1, acc, depths)
	}
}

func junk(r *vproto.Rng, goOnly bool) *jv {
	k := r.Intn(15)
	if !goOnly && k >= 11 {
		k = r.Intn(11)
	}
	switch k {
	case 0:
		return jnull()
	case 1:
		return jstr([]string{"", "1", "x", "Point", "1.5", "ſ", "a\"b\\c\n"}[r.Intn(7)])
	case 2:
		return jbool(r.Bool())
	case 3:
		return jobj()
	case 4:
		return jobj("x", jnum(1), "y", jarr(jnum(2)))
	case 5:
		return jarr()
	case 6:
		return jarr(jnum(1))
	case 7:
		return jarr(jnum(1), jnum(2), jnum(3))
	case 8:
		return jnum(float64(r.Range(-5, 5)))
	case 9:
		return jarr(jarr(jnum(1), jnum(2)))
	case 10:
		return jarr(jnull(), jnum(2))
	case 11:
		return jgo("i " + strconv.Itoa(r.Range(-3, 3)))
	case 12:
		if r.Bool() {
			return jgo("jn " + strTok(jsonNumberTexts[r.Intn(len(jsonNumberTexts))]))
		}
		return jgo("F1 2 " + vproto.F2H(1) + " " + vproto.F2H(2))
	case 13:
		return jgo([]string{"ref 0", "ref 0", "ref 1", "ref 2"}[r.Intn(4)])
	default:
		return jgo([]string{"PT " + vproto.F2H(1) + " " + vproto.F2H(2), "F2 1 2 " + vproto.F2H(1) + " " + vproto.F2H(2), "F1 0", "F2 0", "f 7ff8000000000001", "f 7ff0000000000000", "f fff0000000000000"}[r.Intn(7)])
	}
}

// mutate damages the coordinates tree at one random node.
func mutate(c *jv, r *vproto.Rng, goOnly bool) *jv {
	c = c.clone()
	var ns []*jv
	var ds []int
	nodes(c, 0, &ns, &ds)
	t := ns[r.Intn(len(ns))]
	switch r.Intn(9) {
	case 0, 1, 2:
		*t = *junk(r, goOnly)
	case 3: // one more level
		inner := *t
		*t = *jarr(&inner)
	case 4: // one level less
		if t.kind == 'a' && len(t.arr) > 0 {
			*t = *t.arr[0]
		} else {
			*t = *jarr()
		}
	case 5: // drop all members
		if t.kind == 'a' {
			t.arr = nil
		} else {
			*t = *jnull()
		}
	case 6: // arity: append a member of the same kind or a number
		if t.kind == 'a' {
			if len(t.arr) > 0 && r.Bool() {
				t.arr = append(t.arr, t.arr[len(t.arr)-1].clone())
			} else {
				t.arr = append(t.arr, jnum(3))
			}
		} else {
			*t = *jarr(jnum(1))
		}
	case 7: // drop the last member
		if t.kind == 'a' && len(t.arr) > 0 {
			t.arr = t.arr[:len(t.arr)-1]
		} else {
			*t = *jstr("7")
		}
	default: // empty FIRST member, or empty LAST member
		if t.kind == 'a' && len(t.arr) > 0 {
			if r.Bool() {
				t.arr[0] = jarr()
			} else {
				t.arr[len(t.arr)-1] = jarr()
			}
		} else {
			*t = *jraw(numberTexts[r.Intn(len(numberTexts))])
		}
	}
	return c
}

func typeKey(r *vproto.Rng) string {
	return []string{"type", "type", "type", "type", "Type", "TYPE", "tYpE", "typ", "type ", "tуpe"}[r.Intn(10)]
}

func coordKey(r *vproto.Rng) string {
	return []string{"coordinates", "coordinates", "coordinates", "coordinates", "Coordinates", "COORDINATES", "coordinateſ",
		"coordinateS", "coordinate", "coordinatesK", "Koordinates"}[r.Intn(11)]
}

func typeName(r *vproto.Rng) string {
	if r.Intn(3) != 0 {
		return geoTypes[r.Intn(6)]
	}
	return []string{"", "point", "POINT", "GeometryCollection", "Feature", "Polygon ", "Polуgon", "Point\x00", "LinearRing"}[r.Intn(9)]
}

func emitJSON(out *bufio.Writer, text string) {
	b := []byte(text)
	if len(b) > maxInput {
		b = b[:maxInput]
	}
	fmt.Fprintf(out, "json x%s\n", hex.EncodeToString(b))
}

func emitGJ(out *bufio.Writer, typ string, c *jv) {
	var b strings.Builder
	c.toks(&b)
	fmt.Fprintf(out, "gj s%s%s\n", hex.EncodeToString([]byte(typ)), b.String())
}

// noRaw replaces raw number literals by the value Go's parser gives them (only used for gj lines).
func noRaw(v *jv) *jv {
	c := v.clone()
	var ns []*jv
	var ds []int
	nodes(c, 0, &ns, &ds)
	for _, n := range ns {
		if n.kind == 'r' {
			f, err := strconv.ParseFloat(n.raw, 64)
			if err != nil {
				f = math.Inf(1)
			}
			*n = *jnum(f)
		}
	}
	return c
}

func doc(typ *jv, c *jv, r *vproto.Rng) string {
	o := jobj()
	add := func(k string, v *jv) { o.keys = append(o.keys, k); o.arr = append(o.arr, v) }
	var items []func()
	if typ != nil {
		items = append(items, func() { add("type", typ) })
	}
	if c != nil {
		items = append(items, func() { add("coordinates", c) })
	}
	if r.Intn(3) == 0 {
		items = append(items, func() { add([]string{"bbox", "crs", "properties", "x", ""}[r.Intn(5)], junk(r, false)) })
	}
	// random order
	for i := len(items) - 1; i > 0; i-- {
		j := r.Intn(i + 1)
		items[i], items[j] = items[j], items[i]
	}
	for _, f := range items {
		f()
	}
	var b strings.Builder
	b.WriteString(ws(r))
	o.render(&b, r)
	b.WriteString(ws(r))
	return b.String()
}

// wideCoords builds a coordinates member for a geometry of nesting depth d whose array at level
// `wide` (0 = outermost) has n members along the path `lead` (index of the member that is followed
// at the levels above `wide`); all other arrays have two members. When bad != nil, the position
// reached from member badIdx of the wide array (first members below it) is replaced by it.
func wideCoords(d, wide, n, lead, badIdx int, bad *jv) *jv {
	k := 0
	pos := func() *jv { k++; return jarr(jnum(float64(k%97)), jnum(float64(-k%89)/4)) }
	var build func(level int, onPath, badPath bool) *jv
	build = func(level int, onPath, badPath bool) *jv {
		if level == d-1 {
			if badPath && bad != nil {
				return bad.clone()
			}
			return pos()
		}
		a := jarr()
		m := 2
		if onPath && level == wide {
			m = n
		}
		for i := 0; i < m; i++ {
			switch {
			case onPath && level == wide:
				a.arr = append(a.arr, build(level+1, false, i == badIdx))
			case onPath:
				a.arr = append(a.arr, build(level+1, i == lead, false))
			default:
				a.arr = append(a.arr, build(level+1, false, badPath && i == 0))
			}
		}
		return a
	}
	return build(0, true, false)
}

// genWide: member / ring / position counts around and above 32, 64, 128, 256, 1024 at every array
// level of every type, well-formed and with ONE malformed position at an early, middle or the last
// member (a decoder that treats large inputs differently - batching, goroutines, a fast path - must
// still turn the malformed element into an error on the caller's goroutine)
// emitShort: documents longer than the 64 KiB of the property's quantifier are not emitted (a
// truncated one would only be a syntax error)
func emitShort(out *bufio.Writer, text string) {
	if len(text) <= maxInput {
		emitJSON(out, text)
	}
}

func genWide(out *bufio.Writer, r *vproto.Rng, thorough bool) {
	bads := []*jv{jarr(jnum(1), jnum(0), jnum(7)), jarr(jnum(1)), jarr(), jnull(), jstr("x"), jnum(3), jarr(jarr(jnum(1), jnum(2))),
		jobj("x", jnum(1)), jarr(jnum(1), jstr("2")), jarr(jnum(1), jnull()), jarr(jnum(1), jnum(2), jnum(3), jnum(4))}
	sizes := []int{31, 32, 33, 63, 64, 65, 127, 128, 129, 255, 256, 257, 1025, 2049, 4100}
	for _, typ := range geoTypes {
		d := geoDepth[typ]
		for wide := 0; wide < d-1; wide++ {
			for _, n := range sizes {
				leads := []int{0}
				if wide > 0 {
					leads = []int{0, 1}
				}
				for _, lead := range leads {
					c := wideCoords(d, wide, n, lead, -1, nil)
					emitShort(out, doc(jstr(typ), c, r))
					emitGJ(out, typ, c)
					for _, idx := range []int{1, n / 2, n - 1} {
						for bi, bad := range bads {
							full := thorough || n == 32 || n == 33 || n == 65 || n == 129
							if !full && bi != (n+idx)%len(bads) && bi != 0 {
								continue
							}
							m := wideCoords(d, wide, n, lead, idx, bad)
							emitShort(out, doc(jstr(typ), m, r))
							if bi%2 == 0 || thorough {
								emitGJ(out, typ, m)
							}
						}
					}
				}
			}
		}
		// compact: every member minimal (one ring, one position, small integers), so that thousands of
		// members fit into the 64 KiB of the quantifier as JSON TEXT
		for _, n := range []int{33, 130, 1025, 2049, 3000, 4100} {
			for wide := 0; wide < d-1; wide++ {
				mk := func(badIdx int, bad *jv) *jv {
					var build func(level int, on bool, isBad bool) *jv
					build = func(level int, on bool, isBad bool) *jv {
						if level == d-1 {
							if isBad {
								return bad.clone()
							}
							return jarr(jraw("1"), jraw("0"))
						}
						a := jarr()
						if on && level == wide {
							for i := 0; i < n; i++ {
								a.arr = append(a.arr, build(level+1, false, i == badIdx))
							}
						} else {
							a.arr = append(a.arr, build(level+1, on, isBad))
						}
						return a
					}
					return build(0, true, false)
				}
				var sb strings.Builder
				render := func(c *jv) string {
					sb.Reset()
					sb.WriteString(`{"type":"` + typ + `","coordinates":`)
					c.render(&sb, vproto.NewRng(0x7fffffff)) // no optional white space: this rng never draws it
					sb.WriteString("}")
					return strings.ReplaceAll(strings.ReplaceAll(sb.String(), " ", ""), "\n", "")
				}
				emitShort(out, render(mk(-1, nil)))
				for _, idx := range []int{n / 2, n - 1} {
					emitShort(out, render(mk(idx, bads[0])))
					emitShort(out, render(mk(idx, bads[2])))
				}
			}
		}
		// a position with n numbers
		for _, n := range []int{3, 32, 33, 64, 1025} {
			p := jarr()
			for i := 0; i < n; i++ {
				p.arr = append(p.arr, jnum(float64(i)))
			}
			emitShort(out, doc(jstr(typ), wideCoords(d, 0, 2, 0, 1, p), r))
			emitGJ(out, typ, wideCoords(d, 0, 40, 0, 39, p))
		}
	}
}

func genJSON(out *bufio.Writer, r *vproto.Rng, tier string) {
	scale := 2
	if tier == "thorough" {
		scale = 40
	}
	// 1. fixed corpus
	fixed := []string{
		``, ` `, `null`, ` null `, `true`, `false`, `3`, `"Point"`, `[]`, `[1,2]`, `{}`, `{ }`, `{"type":"Point"}`, `{"coordinates":[1,2]}`,
		`{"type":"Point","coordinates":[1,2]}`, `{"coordinates":[1,2],"type":"Point"}`, `{"type":"Point","coordinates":[1,2]} `,
		`{"type":"Point","coordinates":[1,2]}{}`, `{"type":"Point","coordinates":[1,2]},`, `{"type":"Point","coordinates":[1,2],}`,
		`{"type":"Point","coordinates":[1,2,]}`, `{"type":"Point","coordinates":[1 2]}`, `{"type":"Point" "coordinates":[1,2]}`,
		`{"type":"Point","coordinates":[1,2]`, `{"type":"Point","coordinates":[1,2`, `{"type":"Point","coordinates":[1,`, `{"type":"Poi`,
		`{'type':'Point','coordinates':[1,2]}`, `{type:"Point",coordinates:[1,2]}`, "\xef\xbb\xbf" + `{"type":"Point","coordinates":[1,2]}`,
		`{"type":"Point","type":null,"coordinates":[1,2]}`, `{"type":null,"coordinates":[1,2]}`, `{"type":"Point","type":"LineString","coordinates":[1,2]}`,
		`{"type":"LineString","type":"Point","coordinates":[1,2]}`, `{"type":"Point","Type":"LineString","coordinates":[[1,2]]}`,
		`{"TYPE":"Point","coordinate` + "ſ" + `":[1,2]}`, `{"type":"Point","coordinates":[1,2]}`, `{"type":"Point","coordinates":[1,2]}`,
		`{"type":"Point","coordinates":[1,2],"coordinates":[1]}`, `{"type":"Point","coordinates":[1],"coordinates":[1,2]}`,
		`{"type":"Point","coordinates":[1e999],"coordinates":[1,2]}`, `{"x":1e999,"type":"Point","coordinates":[1,2]}`, `{"x":[1e999,{"y":-1e999}],"type":"Point","coordinates":[1,2]}`,
		`{"type":3,"coordinates":[1,2]}`, `{"type":true,"coordinates":[1,2]}`, `{"type":["Point"],"coordinates":[1,2]}`, `{"type":{"a":"Point"},"coordinates":[1,2]}`,
		`{"type":"Point","coordinates":null}`, `{"type":"Point","coordinates":"1,2"}`, `{"type":"Point","coordinates":{"x":1,"y":2}}`, `{"type":"Point","coordinates":12}`,
		`{"type":"Point","coordinates":[]}`, `{"type":"Point","coordinates":[1]}`, `{"type":"Point","coordinates":[1,2,3]}`, `{"type":"Point","coordinates":[[1,2]]}`,
		`{"type":"Point","coordinates":["1","2"]}`, `{"type":"Point","coordinates":[null,2]}`, `{"type":"Point","coordinates":[1,null]}`, `{"type":"Point","coordinates":[true,false]}`,
		`{"type":"MultiPoint","coordinates":[]}`, `{"type":"MultiPoint","coordinates":[[]]}`, `{"type":"MultiPoint","coordinates":[[1,2],[]]}`, `{"type":"MultiPoint","coordinates":[[1,2],[3]]}`,
		`{"type":"MultiPoint","coordinates":[[1,2],[3,4,5]]}`, `{"type":"MultiPoint","coordinates":[[1,2,3],[3,4]]}`, `{"type":"MultiPoint","coordinates":[[1,2],3]}`, `{"type":"MultiPoint","coordinates":[1,2]}`,
		`{"type":"LineString","coordinates":[]}`, `{"type":"LineString","coordinates":[[1,2]]}`, `{"type":"LineString","coordinates":[[1,2],[3,4]]}`, `{"type":"LineString","coordinates":[[1,2],[3,"4"]]}`,
		`{"type":"Polygon","coordinates":[]}`, `{"type":"Polygon","coordinates":[[]]}`, `{"type":"Polygon","coordinates":[[[1,2]],[]]}`, `{"type":"Polygon","coordinates":[[],[[1,2]]]}`,
		`{"type":"Polygon","coordinates":[[[1,2],[3,4],[5,6],[1,2]]]}`, `{"type":"Polygon","coordinates":[[[1,2],[3]]]}`, `{"type":"Polygon","coordinates":[[[1,2]],[[3]]]}`, `{"type":"Polygon","coordinates":[[[1,2]],[3,4]]}`,
		`{"type":"Polygon","coordinates":[[[]]]}`, `{"type":"Polygon","coordinates":[[[1,2]],[[]]]}`,
		`{"type":"MultiLineString","coordinates":[[[1,2]],[]]}`, `{"type":"MultiLineString","coordinates":[[],[[1,2]]]}`, `{"type":"MultiLineString","coordinates":[[[1,2],[3,4]],[[5,6]]]}`,
		`{"type":"MultiPolygon","coordinates":[]}`, `{"type":"MultiPolygon","coordinates":[[]]}`, `{"type":"MultiPolygon","coordinates":[[[]]]}`, `{"type":"MultiPolygon","coordinates":[[[[]]]]}`,
		`{"type":"MultiPolygon","coordinates":[[[[1,2]]],[]]}`, `{"type":"MultiPolygon","coordinates":[[[[1,2]]],[[]]]}`, `{"type":"MultiPolygon","coordinates":[[[[1,2]]],[[[]]]]}`, `{"type":"MultiPolygon","coordinates":[[[[1,2]],[]],[[[3,4]]]]}`,
		`{"type":"MultiPolygon","coordinates":[[[[1,2,3]]]]}`, `{"type":"MultiPolygon","coordinates":[[[[1,2]]],[[[3,4,5]]]]}`, `{"type":"MultiPolygon","coordinates":[[[[1,2]]],[[3,4]]]}`,
		`{"type":"GeometryCollection","geometries":[]}`, `{"type":"Feature","geometry":null}`, `{"type":"","coordinates":[1,2]}`, `{"type":"point","coordinates":[1,2]}`,
		`{"type":"P\ud800","coordinates":[1,2]}`, `{"type":"Point\u0000","coordinates":[1,2]}`, "{\"type\":\"Po\xffint\",\"coordinates\":[1,2]}", "{\"type\":\"Point\",\"coordinates\":[1,2],\"\xff\":1}",
		`{"type":"Point","coordinates":[1,2],"":null}`, `{"type":"Point","coordinates":[1,2],"a":"😀\uD83D"}`, `{"type":"Point","coordinates":[1,2],"a":"\x"}`, `{"type":"Point","coordinates":[1,2],"a":"\u12g4"}`,
		"{\"type\":\"Point\",\"coordinates\":[1,2],\"a\":\"\t\"}", "{\"type\":\"Point\",\"coordinates\":[1,2],\"a\":\"\x7f\"}", "{\"type\":\"Point\",\v\"coordinates\":[1,2]}", "{\"type\":\"Point\", \"coordinates\":[1,2]}",
		`{"type":"Point","coordinates":[1,2]}` + "\x00", `nul`, `nulll`, `tru`, `True`, `{"type":"Point","coordinates":[1,2],"a":tru}`, `[`, `]`, `{`, `}`, `{"a"}`, `{"a":}`, `{:1}`, `{"a":1,}`, `{,}`, `[,]`, `"`, `"\`, `"\u`, `"\u00`, `-`, `0.`, `1e`,
	}
	for _, s := range fixed {
		emitJSON(out, s)
	}
	for _, n := range numberTexts {
		emitJSON(out, `{"type":"Point","coordinates":[`+n+`,-`+strings.TrimPrefix(n, "-")+`]}`)
		emitJSON(out, `{"type":"LineString","coordinates":[[1,`+n+`],[`+n+`,2]]}`)
	}
	for _, n := range badNumberTexts {
		emitJSON(out, `{"type":"Point","coordinates":[`+n+`,2]}`)
		emitJSON(out, `{"type":"Point","coordinates":[1,2],"x":`+n+`}`)
	}
	// long digit strings. Integer parts stay below 800 digits: beyond that strconv.ParseFloat drops
	// digits WITHOUT scaling (`1<800 zeros>e-800` parses as 0.1), a standard-library quirk that is
	// outside this package (see notes/C07.md).
	for _, k := range []int{20, 400, 799, 800, 801, 2000} {
		if k < 800 {
			emitJSON(out, `{"type":"Point","coordinates":[1`+strings.Repeat("0", k)+`,0.`+strings.Repeat("0", k)+`1]}`)
			emitJSON(out, `{"type":"Point","coordinates":[1`+strings.Repeat("0", k)+`e-`+strconv.Itoa(k)+`,0.`+strings.Repeat("0", k)+`1e`+strconv.Itoa(k+1)+`]}`)
			emitJSON(out, `{"type":"Point","coordinates":[0.`+strings.Repeat("3", k)+`,`+strings.Repeat("9", k)+`e-`+strconv.Itoa(k)+`]}`)
		}
		emitJSON(out, `{"type":"Point","coordinates":[0.`+strings.Repeat("3", k)+`,0.`+strings.Repeat("0", k)+`1e`+strconv.Itoa(k+1)+`]}`)
		emitJSON(out, `{"type":"Point","coordinates":[0.`+strings.Repeat("9", k)+`e1,0.`+strings.Repeat("0", k)+`9e`+strconv.Itoa(k)+`]}`)
		emitJSON(out, `{"type":"Point","coordinates":[9007199254740993.`+strings.Repeat("0", k)+`1,9007199254740992.`+strings.Repeat("9", k)+`]}`)
	}
	// the worst allocation per input byte in encoding/json: nested maps with empty keys
	for _, d := range []int{1000, 9990} {
		emitJSON(out, `{"type":"Point","coordinates":`+strings.Repeat(`{"":`, d)+`1`+strings.Repeat("}", d)+`}`)
		emitJSON(out, `{"type":"Polygon","coordinates":[`+strings.TrimSuffix(strings.Repeat(`{"":{}},`, d), ",")+`]}`)
	}
	// nesting depth (encoding/json refuses more than 10000 levels)
	for _, d := range []int{5, 100, 9998, 9999, 10000, 10001, 20000, 32000} {
		emitJSON(out, `{"type":"Polygon","coordinates":`+strings.Repeat("[", d)+strings.Repeat("]", d)+`}`)
		emitJSON(out, `{"x":`+strings.Repeat("[", d)+strings.Repeat("]", d)+`,"type":"Point","coordinates":[1,2]}`)
		emitJSON(out, `{"type":"Polygon","coordinates":`+strings.Repeat("[", d))
		emitJSON(out, `{"type":"Point","coordinates":`+strings.Repeat(`{"a":`, d)+`1`+strings.Repeat("}", d)+`}`)
		emitJSON(out, strings.Repeat("[", d)+strings.Repeat("]", d))
	}
	// allocation-heavy documents up to 64 KiB
	for _, typ := range geoTypes {
		for _, n := range []int{1000, 32000} {
			emitJSON(out, `{"type":"`+typ+`","coordinates":[`+strings.TrimSuffix(strings.Repeat("0,", n), ",")+`]}`)
			emitJSON(out, `{"type":"`+typ+`","coordinates":[`+strings.TrimSuffix(strings.Repeat("[],", n*2/3), ",")+`]}`)
			emitJSON(out, `{"type":"`+typ+`","coordinates":[`+strings.TrimSuffix(strings.Repeat("[0,0],", n/3), ",")+`]}`)
			emitJSON(out, `{"type":"`+typ+`","coordinates":[[`+strings.TrimSuffix(strings.Repeat("[0,0],", n/3), ",")+`]]}`)
			emitJSON(out, `{"type":"`+typ+`","coordinates":[[[`+strings.TrimSuffix(strings.Repeat("[0,0],", n/3), ",")+`]]]}`)
			emitJSON(out, `{"type":"`+typ+`","coordinates":[`+strings.TrimSuffix(strings.Repeat("[[0,0]],", n/4), ",")+`]}`)
			emitJSON(out, `{"type":"`+typ+`","coordinates":[`+strings.TrimSuffix(strings.Repeat("[[[0,0]]],", n/5), ",")+`]}`)
			emitJSON(out, `{"type":"`+typ+`","coordinates":[[[0,0]],`+strings.TrimSuffix(strings.Repeat("[],", n*2/3), ",")+`]}`)
			emitJSON(out, `{"type":"`+typ+`","coordinates":[[[[0,0]]],`+strings.TrimSuffix(strings.Repeat("[[]],", n/3), ",")+`]}`)
		}
	}
	emitJSON(out, `{"type":"Point","coordinates":[1,2],"x":"`+strings.Repeat("a", 60000)+`"}`)
	emitJSON(out, `{"type":"`+strings.Repeat("P", 60000)+`","coordinates":[1,2]}`)
	emitJSON(out, `{`+strings.TrimSuffix(strings.Repeat(`"a":{},`, 9000), ",")+`}`)

	// 1b. wide arrays with one late malformed element
	genWide(out, r, tier == "thorough")

	// 2. generated documents: well-formed, then damaged
	nDocs := 1200 * scale
	for i := 0; i < nDocs; i++ {
		typ := geoTypes[r.Intn(6)]
		c := coords(geoDepth[typ], r, true)
		switch r.Intn(10) {
		case 0, 1, 2: // well-formed
			emitJSON(out, doc(jstr(typ), c, r))
		case 3: // type/coordinates mismatch
			emitJSON(out, doc(jstr(typeName(r)), c, r))
		case 4, 5, 6, 7: // damaged coordinates
			m := mutate(c, r, false)
			if r.Intn(4) == 0 {
				m = mutate(m, r, false)
			}
			emitJSON(out, doc(jstr(typ), m, r))
		case 8: // keys: renamed, duplicated, missing
			o := jobj()
			add := func(k string, v *jv) { o.keys = append(o.keys, k); o.arr = append(o.arr, v) }
			for k := r.Range(1, 4); k > 0; k-- {
				switch r.Intn(5) {
				case 0, 1:
					add(typeKey(r), jstr(typeName(r)))
				case 2, 3:
					if r.Bool() {
						add(coordKey(r), c)
					} else {
						add(coordKey(r), mutate(c, r, false))
					}
				default:
					if r.Bool() {
						add(typeKey(r), junk(r, false))
					} else {
						add(coordKey(r), junk(r, false))
					}
				}
			}
			var b strings.Builder
			o.render(&b, r)
			emitJSON(out, b.String())
		default: // syntactic damage of a well-formed document
			s := []byte(doc(jstr(typ), c, r))
			switch r.Intn(5) {
			case 0:
				s = s[:r.Intn(len(s))]
			case 1:
				s[r.Intn(len(s))] = byte(r.U64())
			case 2:
				k := r.Intn(len(s))
				s = append(s[:k:k], s[k+1:]...)
			case 3:
				k := r.Intn(len(s))
				s = append(s[:k:k], append([]byte{",:[]{}\"0-e. "[r.Intn(12)]}, s[k:]...)...)
			default:
				s[r.Intn(len(s))] ^= 1 << uint(r.Intn(8))
			}
			emitJSON(out, string(s))
		}
	}
	// random bytes as JSON
	for i := 0; i < 100*scale; i++ {
		n := r.Intn(60)
		if i%25 == 0 {
			n = r.Intn(65536)
		}
		b := make([]byte, n)
		for j := range b {
			if r.Intn(3) == 0 {
				b[j] = byte(r.U64())
			} else {
				const alphabet = "{}[]\",:0123456789.-+eE tfn\\u"
				b[j] = alphabet[r.Intn(len(alphabet))]
			}
		}
		emitJSON(out, string(b))
	}

	// 3. arbitrary Geometry VALUES for FromGeoJSON (not necessarily produced by encoding/json)
	fmt.Fprintln(out, "gj NILPTR")
	for _, typ := range append(append([]string{}, geoTypes...), "", "point", "GeometryCollection") {
		for _, tok := range []string{"n", "f 3ff0000000000000", "a 0", "a 1 n", "a 2 f 3ff0000000000000 f 4000000000000000", "a 2 f 7ff8000000000000 f 7ff0000000000000",
			"a 1 a 2 f 7ff8000000000001 f fff0000000000000", "a 1 a 1 a 2 f 7ff8000000000001 f 8000000000000000", "a 1 a 1 a 1 a 2 f 7ff0000000000000 f 0000000000000001",
			"F1 2 3ff0000000000000 4000000000000000", "F2 1 2 3ff0000000000000 4000000000000000", "a 1 F1 2 3ff0000000000000 4000000000000000", "a 2 i 1 i 2", "a 2 f 3ff0000000000000 i 2",
			"PT 3ff0000000000000 4000000000000000", "a 1 PT 3ff0000000000000 4000000000000000", "s 5b312c325d", "t", "i 5", "o 0", "o 1 78 f 3ff0000000000000", "a 2 a 0 a 2 f 3ff0000000000000 f 4000000000000000",
			"a 1 a 2 a 0 a 0", "a 1 a 1 a 2 a 0 a 0", "a 1 a 1 a 1 a 2 a 0 a 0", "a 1 a 0", "a 1 a 1 a 0", "a 1 a 1 a 1 a 0", "a 1 a 1 a 1 a 1 a 0"} {
			fmt.Fprintf(out, "gj s%s %s\n", hex.EncodeToString([]byte(typ)), tok)
		}
	}
	// CYCLIC values (only a hand-built *Geometry can hold them; json.Unmarshal builds trees):
	// the array contains itself at position 0, at another position, through 2-5 levels, through a
	// map, next to well-formed members
	for _, typ := range append(append([]string{}, geoTypes...), "", "GeometryCollection") {
		one, two := "f 3ff0000000000000", "f 4000000000000000"
		for _, tok := range []string{
			"a 1 ref 0", "a 2 ref 0 " + two, "a 2 " + one + " ref 0", "a 3 ref 0 ref 0 ref 0", "a 2 ref 0 ref 0",
			"a 1 a 1 ref 1", "a 1 a 1 ref 0", "a 1 a 1 a 1 ref 2", "a 1 a 1 a 1 a 1 ref 3", "a 1 a 1 a 1 a 1 a 1 ref 4", "a 1 a 1 a 1 a 1 a 1 a 1 ref 5",
			"a 2 a 1 ref 1 " + two, "a 2 a 2 " + one + " " + two + " ref 0", "a 2 a 2 " + one + " " + two + " a 1 ref 1",
			"a 1 a 2 a 2 " + one + " " + two + " ref 1", "a 1 a 1 a 2 a 2 " + one + " " + two + " ref 2", "a 1 a 1 a 1 a 2 " + one + " ref 3",
			"a 1 o 1 6b ref 0", "a 2 o 1 6b ref 0 ref 0", "a 1 a 1 o 1 6b a 1 ref 2", "a 2 " + one + " a 1 ref 1", "a 1 a 2 ref 1 ref 0", "ref 0", "a 1 ref 7",
		} {
			fmt.Fprintf(out, "gj s%s %s\n", hex.EncodeToString([]byte(typ)), tok)
		}
	}
	// json.Number at every leaf position of every type
	jn := func(s string) string { return "jn " + strTok(s) }
	for _, t := range jsonNumberTexts {
		for _, other := range []string{"f 4000000000000000", jn("2"), jn(t)} {
			p1, p2 := "a 2 "+jn(t)+" "+other, "a 2 "+other+" "+jn(t)
			for _, pos := range []string{p1, p2} {
				fmt.Fprintf(out, "gj s%s %s\n", hex.EncodeToString([]byte("Point")), pos)
				fmt.Fprintf(out, "gj s%s a 2 a 2 f 3ff0000000000000 f 4000000000000000 %s\n", hex.EncodeToString([]byte("LineString")), pos)
				fmt.Fprintf(out, "gj s%s a 1 %s\n", hex.EncodeToString([]byte("MultiPoint")), pos)
				fmt.Fprintf(out, "gj s%s a 1 a 1 %s\n", hex.EncodeToString([]byte("Polygon")), pos)
				fmt.Fprintf(out, "gj s%s a 2 a 1 %s a 0\n", hex.EncodeToString([]byte("MultiLineString")), pos)
				fmt.Fprintf(out, "gj s%s a 1 a 1 a 1 %s\n", hex.EncodeToString([]byte("MultiPolygon")), pos)
			}
		}
	}
	// generated documents read by a REAL json.Decoder with UseNumber: Coordinates holds json.Number everywhere
	for i := 0; i < 300*scale; i++ {
		typ := geoTypes[r.Intn(6)]
		c := coords(geoDepth[typ], r, true)
		if r.Intn(3) != 0 {
			c = mutate(c, r, false)
		}
		var sb strings.Builder
		jobj("type", jstr(typ), "coordinates", c).render(&sb, r)
		var gv struct {
			Type        string      `json:"type"`
			Coordinates interface{} `json:"coordinates"`
		}
		dec := json.NewDecoder(strings.NewReader(sb.String()))
		dec.UseNumber()
		if err := dec.Decode(&gv); err != nil {
			continue
		}
		var tb strings.Builder
		valToks(&tb, gv.Coordinates)
		fmt.Fprintf(out, "gj s%s%s\n", hex.EncodeToString([]byte(gv.Type)), tb.String())
	}
	for i := 0; i < 500*scale; i++ {
		typ := geoTypes[r.Intn(6)]
		c := noRaw(coords(geoDepth[typ], r, true))
		switch r.Intn(6) {
		case 0:
			emitGJ(out, typ, c)
		case 1:
			emitGJ(out, typeName(r), c)
		default:
			m := noRaw(mutate(c, r, true))
			if r.Intn(3) == 0 {
				m = noRaw(mutate(m, r, true))
			}
			// non-finite coordinates can only arrive through Geometry values
			if r.Intn(5) == 0 {
				var ns []*jv
				var ds []int
				nodes(m, 0, &ns, &ds)
				t := ns[r.Intn(len(ns))]
				if t.kind == 'f' {
					t.num = []float64{math.NaN(), math.Inf(1), math.Inf(-1)}[r.Intn(3)]
				}
			}
			emitGJ(out, typ, m)
		}
	}
}

func gen(seed uint64, tier string) {
	w := bufio.NewWriterSize(os.Stdout, 1<<20)
	defer w.Flush()
	// vproto.NewRng(s) and NewRng(s+1) are the same splitmix stream shifted by one step, so the
	// stream is re-seeded from a hashed output to make different seeds independent.
	r := vproto.NewRng(vproto.NewRng(seed).U64())
	genHist(w, r, tier)
	genBatches(w, r, tier)
	genWKB(w, r, tier, seed)
	genJSON(w, r, tier)
}
