// Harness for C13 (Simplify keeps endpoints, stays within tolerance, adds no self-intersection).
//
//	gen --seed S --tier T   write case lines        simp <class> <tol-hex> <GEOM tokens>
//	impl                    supervisor: runs `worker` children, restarts them after a timeout
//	worker                  read case lines, call the real Simplify under a watchdog, print
//	                        <line> => ok <GEOM> <same|mutated> [members <GEOM>]
//	                        <line> => panic <msg> | timeout <wall|mem>
//
// Every Simplify call runs in its own goroutine under a wall-clock watchdog (2 s) and a heap
// guard (unbounded growth of `out` is the symptom of the non-terminating loop); a goroutine that
// spins cannot be killed, so the worker prints `timeout` and exits and the supervisor starts a new
// worker for the remaining lines.
package main

import (
	"bufio"
	"fmt"
	"io"
	"math"
	"os"
	"os/exec"
	"runtime"
	"runtime/debug"
	"strings"
	"sync"
	"sync/atomic"
	"time"
	"unsafe"

	"github.com/ctessum/geom"

	"verif/harness/vproto"
)

// ---------------------------------------------------------------- exact integer geometry (generator only)

type ip struct{ x, y int64 }

func orient(a, b, c ip) int64 {
	v := (b.x-a.x)*(c.y-a.y) - (b.y-a.y)*(c.x-a.x)
	switch {
	case v > 0:
		return 1
	case v < 0:
		return -1
	}
	return 0
}

func onSeg(a, b, p ip) bool { // p collinear with a,b assumed
	return min64(a.x, b.x) <= p.x && p.x <= max64(a.x, b.x) && min64(a.y, b.y) <= p.y && p.y <= max64(a.y, b.y)
}
func min64(a, b int64) int64 {
	if a < b {
		return a
	}
	return b
}
func max64(a, b int64) int64 {
	if a > b {
		return a
	}
	return b
}

// segsMeet: closed segments ab and cd share at least one point.
func segsMeet(a, b, c, d ip) bool {
	o1, o2, o3, o4 := orient(a, b, c), orient(a, b, d), orient(c, d, a), orient(c, d, b)
	if o1 != o2 && o3 != o4 {
		return true
	}
	return (o1 == 0 && onSeg(a, b, c)) || (o2 == 0 && onSeg(a, b, d)) || (o3 == 0 && onSeg(c, d, a)) || (o4 == 0 && onSeg(c, d, b))
}

func toPath(ps []ip) []geom.Point {
	r := make([]geom.Point, len(ps))
	for i, p := range ps {
		r[i] = geom.Point{X: float64(p.x), Y: float64(p.y)}
	}
	return r
}

// ---------------------------------------------------------------- generators

var tols = []float64{0, 0.25, 0.5, 1.5, 3.5, 1e6}

func pickTol(r *vproto.Rng) float64 {
	if r.Chance(0.12) {
		return []float64{1, 2, 2.5, 5, 7.5, 12, 30}[r.Intn(7)]
	}
	return tols[r.Intn(len(tols))]
}

func pickLen(r *vproto.Rng, big bool) int {
	switch k := r.Intn(20); {
	case k == 0:
		return r.Intn(4) // 0..3
	case k < 10:
		return r.Range(4, 14)
	case k < 17:
		return r.Range(15, 40)
	case k < 19 || !big:
		return r.Range(41, 80)
	default:
		return r.Range(81, 200)
	}
}

// integer-grid random walk (revisits, duplicates and crossings allowed)
func randomWalk(r *vproto.Rng, n int) []ip {
	ps := make([]ip, 0, n)
	s := int64(r.Range(1, 4))
	p := ip{int64(r.Range(-5, 5)), int64(r.Range(-5, 5))}
	for len(ps) < n {
		ps = append(ps, p)
		p = ip{p.x + int64(r.Range(-int(s), int(s))), p.y + int64(r.Range(-int(s), int(s)))}
	}
	return ps
}

// self-avoiding lattice walk (unit steps with momentum; simple by construction, not in general position)
func selfAvoiding(r *vproto.Rng, n int) []ip {
	seen := map[ip]bool{}
	p := ip{0, 0}
	dirs := []ip{{1, 0}, {0, 1}, {-1, 0}, {0, -1}}
	d := r.Intn(4)
	ps := []ip{}
	for len(ps) < n {
		ps = append(ps, p)
		seen[p] = true
		ok := false
		for try := 0; try < 12; try++ {
			nd := d
			if r.Chance(0.45) {
				nd = (d + 1 + 2*r.Intn(2)) % 4
			}
			q := ip{p.x + dirs[nd].x, p.y + dirs[nd].y}
			if !seen[q] {
				p, d, ok = q, nd, true
				break
			}
		}
		if !ok {
			break
		}
	}
	return ps
}

// simple open line in general position: all vertices distinct, no three collinear, no two
// non-adjacent segments meet. Built by rejection with exact integer predicates.
func gpLine(r *vproto.Rng, n int) []ip {
	step := int64([]int{3, 5, 8, 13, 30}[r.Intn(5)])
	ps := []ip{{int64(r.Range(-20, 20)), int64(r.Range(-20, 20))}}
	// a drifting heading makes loops, hooks and spirals rather than a blob
	ang := r.Float() * 2 * math.Pi
	turn := (r.Float() - 0.5) * 1.6
	for len(ps) < n {
		placed := false
		for try := 0; try < 60 && !placed; try++ {
			a := ang + (r.Float()-0.5)*2.2
			l := (0.3 + r.Float()) * float64(step)
			last := ps[len(ps)-1]
			q := ip{last.x + int64(math.Round(l*math.Cos(a))), last.y + int64(math.Round(l*math.Sin(a)))}
			if gpOK(ps, q) {
				ps = append(ps, q)
				ang = a + turn
				placed = true
			}
		}
		if !placed {
			if len(ps) >= 3 || r.Chance(0.5) {
				break
			}
			ang = r.Float() * 2 * math.Pi
		}
		if r.Chance(0.1) {
			turn = (r.Float() - 0.5) * 1.6
		}
	}
	return ps
}

func gpOK(ps []ip, q ip) bool {
	m := len(ps)
	for a := 0; a < m; a++ {
		if ps[a] == q {
			return false
		}
		for b := a + 1; b < m; b++ {
			if orient(ps[a], ps[b], q) == 0 {
				return false
			}
		}
	}
	for a := 0; a+2 < m; a++ { // segment (a,a+1) vs new segment (m-1,q); adjacent one (m-2,m-1) skipped
		if segsMeet(ps[a], ps[a+1], ps[m-1], q) {
			return false
		}
	}
	return true
}

// rectangular / polygonal spiral with jitter, inward or outward: forces back-off against curve[j:]
func spiral(r *vproto.Rng, n int) []ip {
	ps := make([]ip, 0, n)
	gap := float64(r.Range(2, 6))
	per := float64(r.Range(4, 9)) // vertices per turn
	jit := r.Intn(2)
	for k := 0; k < n; k++ {
		t := float64(k) / per * 2 * math.Pi
		rad := gap * (1 + float64(k)/per)
		x := int64(math.Round(rad*math.Cos(t))) + int64(r.Range(-jit, jit))
		y := int64(math.Round(rad*math.Sin(t))) + int64(r.Range(-jit, jit))
		ps = append(ps, ip{x, y})
	}
	if r.Bool() { // inward
		for a, b := 0, len(ps)-1; a < b; a, b = a+1, b-1 {
			ps[a], ps[b] = ps[b], ps[a]
		}
	}
	return ps
}

// comb: long teeth; the chord over several teeth crosses later teeth / earlier output
func comb(r *vproto.Rng, n int) []ip {
	ps := make([]ip, 0, n)
	h := int64(r.Range(2, 9))
	w := int64(r.Range(1, 3))
	x := int64(0)
	for len(ps) < n {
		hh := h + int64(r.Intn(3))
		ps = append(ps, ip{x, 0}, ip{x, hh}, ip{x + w, hh}, ip{x + w, 0})
		x += 2 * w
	}
	ps = ps[:n]
	if r.Chance(0.5) && n > 4 { // come back underneath / through the teeth
		ps = append(ps, ip{x + 1, -int64(r.Range(1, 3))}, ip{-2, -int64(r.Range(0, 2))}, ip{-3, h / 2}, ip{x, h/2 + int64(r.Range(-1, 1))})
	}
	return ps
}

// collinear trap: a run A … B whose interior vertices lie off the line AB but within a small
// tolerance, plus — earlier or later in the curve — a segment lying ON the line AB at integer
// parameters (overlapping the chord, touching it, at distance exactly 1 from A, disjoint …).
// This drives segMakesNotSimple into the parallel/collinear branch of findIntersection with
// all its boundary cases (the source scales the parameters by |d0| instead of |d0|²).
func collTrap(r *vproto.Rng) []ip {
	dirs := []ip{{1, 0}, {0, 1}, {-1, 0}, {0, -1}, {1, 1}, {1, -1}, {2, 0}, {0, 3}, {3, 4}, {2, 1}}
	d := dirs[r.Intn(len(dirs))]
	n := ip{-d.y, d.x}
	A := ip{int64(r.Range(-6, 6)), int64(r.Range(-6, 6))}
	L := int64(r.Range(2, 9))
	at := func(t, s int64) ip { return ip{A.x + t*d.x + s*n.x, A.y + t*d.y + s*n.y} }
	run := []ip{at(0, 0)}
	for t := int64(1); t < L; t++ {
		if r.Chance(0.7) {
			run = append(run, at(t, int64([]int{1, -1, 1, -1, 2, 0}[r.Intn(6)])))
		}
	}
	run = append(run, at(L, 0))
	u := int64(r.Range(-3, int(L)+3))
	v := int64(r.Range(-3, int(L)+3))
	if r.Chance(0.35) {
		u = []int64{1, 0, L, L - 1, -1, L + 1}[r.Intn(6)]
	}
	if u == v {
		v = u + int64(r.Range(1, 3))
	}
	trap := []ip{at(u, 0), at(v, 0)}
	if r.Chance(0.3) {
		trap = append(trap, at(v+int64(r.Range(1, 2)), 0))
	}
	far1 := at(int64(r.Range(-4, int(L)+4)), int64(r.Range(4, 9)))
	far2 := at(int64(r.Range(-4, int(L)+4)), -int64(r.Range(4, 9)))
	var ps []ip
	tail := []ip{}
	for k := r.Intn(3); k > 0; k-- {
		tail = append(tail, at(int64(r.Range(-5, int(L)+5)), int64(r.Range(-9, 9))))
	}
	switch r.Intn(4) {
	case 0:
		ps = append(append(append(ps, trap...), far1), run...)
	case 1:
		ps = append(append(append(ps, run...), far1), trap...)
	case 2:
		ps = append(append(append(append(ps, trap...), far1), run...), far2)
	default:
		ps = append(append(append(append(ps, far2), run...), far1), trap...)
	}
	return append(ps, tail...)
}

// ---- smooth long runs: densely digitised gentle curves where ONE output segment replaces
// 65..500 consecutive vertices (the middle of such a run sags away from the chord while its tail
// stays close: every skipped vertex has to be re-checked against every longer chord).

func quarter(t float64) float64 { // tolerances are multiples of 1/4 (exact in binary)
	q := math.Round(t*4) / 4
	if q < 0.5 {
		q = 0.5
	}
	return q
}

// arc of a circle of radius R, vertices `sp` apart (integer-rounded), n vertices; tolerance such
// that the sagitta of a run of about `run` vertices equals it: t = (run*sp)^2 / (8R)
func smoothArc(r *vproto.Rng, n int) ([]ip, float64) {
	R := float64([]int{150, 300, 600, 1000, 1500, 3000}[r.Intn(6)])
	sp := float64(r.Range(1, 3))
	run := float64(r.Range(70, 500))
	if run > float64(n)*0.8 {
		run = math.Max(66, float64(n)*0.6)
	}
	tol := quarter(run * sp * run * sp / (8 * R))
	a0 := r.Float() * 2 * math.Pi
	dir := 1.0
	if r.Bool() {
		dir = -1
	}
	cx, cy := float64(r.Range(-50, 50)), float64(r.Range(-50, 50))
	ps := make([]ip, n)
	for k := range ps {
		a := a0 + dir*float64(k)*sp/R
		ps[k] = ip{int64(math.Round(cx + R*math.Cos(a))), int64(math.Round(cy + R*math.Sin(a)))}
	}
	return ps, tol
}

// parabola y = x^2/(2p): curvature 1/p at the vertex, flatter further out
func smoothParabola(r *vproto.Rng, n int) ([]ip, float64) {
	pp := float64([]int{200, 500, 1000, 2500}[r.Intn(4)])
	sp := int64(r.Range(1, 3))
	run := float64(r.Range(70, 400))
	if run > float64(n)*0.8 {
		run = math.Max(66, float64(n)*0.6)
	}
	tol := quarter(run * float64(sp) * run * float64(sp) / (8 * pp))
	x0 := -int64(n) * sp / 2
	if r.Bool() {
		x0 = -int64(r.Intn(n)) * sp
	}
	ps := make([]ip, n)
	for k := range ps {
		x := x0 + int64(k)*sp
		ps[k] = ip{x, int64(math.Round(float64(x) * float64(x) / (2 * pp)))}
	}
	if r.Bool() { // rotate by a quarter turn
		for k := range ps {
			ps[k] = ip{-ps[k].y, ps[k].x}
		}
	}
	return ps, tol
}

// slow sine wave with a small zig-zag on top: very flat, long droppable runs
func smoothWave(r *vproto.Rng, n int) ([]ip, float64) {
	amp := float64(r.Range(8, 60))
	period := float64(r.Range(300, 1200))
	sp := int64(r.Range(1, 3))
	zig := int64(r.Intn(2))
	// curvature at a crest: amp*(2pi/period)^2 per unit of x
	curv := amp * (2 * math.Pi / (period * float64(sp))) * (2 * math.Pi / (period * float64(sp)))
	run := float64(r.Range(70, 300))
	tol := quarter(run*float64(sp)*run*float64(sp)*curv/8 + float64(zig))
	ps := make([]ip, n)
	for k := range ps {
		y := int64(math.Round(amp * math.Sin(2*math.Pi*float64(k)/period)))
		if zig == 1 && k%2 == 1 {
			y++
		}
		ps[k] = ip{int64(k) * sp, y}
	}
	return ps, tol
}

func smoothCase(r *vproto.Rng, n int) (string, []ip, float64) {
	switch r.Intn(5) {
	case 0, 1:
		ps, t := smoothArc(r, n)
		return "smooth", ps, t
	case 2, 3:
		ps, t := smoothParabola(r, n)
		return "smooth", ps, t
	default:
		ps, t := smoothWave(r, n)
		return "smooth", ps, t
	}
}

// star-shaped closed ring around (cx,cy): first == last
func starRing(r *vproto.Rng, cx, cy int64, rad float64, m int) []ip {
	if m <= 0 {
		return []ip{}
	}
	ps := make([]ip, 0, m+1)
	off := r.Float() * 2 * math.Pi
	for k := 0; k < m; k++ {
		t := off + float64(k)/float64(m)*2*math.Pi
		rr := rad * (0.45 + 0.55*r.Float())
		ps = append(ps, ip{cx + int64(math.Round(rr*math.Cos(t))), cy + int64(math.Round(rr*math.Sin(t)))})
	}
	if !r.Chance(0.03) { // rarely an unclosed ring
		ps = append(ps, ps[0])
	}
	return ps
}

func polygon(r *vproto.Rng, big bool) geom.Polygon {
	if r.Chance(0.03) {
		return geom.Polygon{}
	}
	rad := float64(r.Range(6, 40))
	cx, cy := int64(r.Range(-10, 10)), int64(r.Range(-10, 10))
	m := pickLen(r, big)
	if m > 60 {
		m = 60
	}
	pg := geom.Polygon{toPath(starRing(r, cx, cy, rad, m))}
	if r.Chance(0.3) {
		// a ring that is not star-shaped: a generated line closed back to its start (late chords
		// then run close to early segments of the same ring; the closing segment may cross)
		_, ps := lineOf(r, false)
		if len(ps) > 60 {
			ps = ps[:60]
		}
		if len(ps) > 0 && !r.Chance(0.05) {
			ps = append(ps, ps[0])
		}
		pg[0] = toPath(ps)
	}
	nh := []int{0, 0, 1, 1, 2, 3}[r.Intn(6)]
	for h := 0; h < nh; h++ {
		hr := rad * (0.1 + 0.3*r.Float())
		a := r.Float() * 2 * math.Pi
		d := rad * 0.5 * r.Float()
		hm := []int{0, 1, 2, 3, 4, 5, 7, 9, 12}[r.Intn(9)]
		if r.Chance(0.8) && hm < 3 {
			hm += 3
		}
		pg = append(pg, toPath(starRing(r, cx+int64(d*math.Cos(a)), cy+int64(d*math.Sin(a)), hr, hm)))
	}
	return pg
}

func lineOf(r *vproto.Rng, big bool) (string, []ip) {
	n := pickLen(r, big)
	switch k := r.Intn(20); {
	case k < 5:
		return "walk", randomWalk(r, n)
	case k < 8:
		return "saw", selfAvoiding(r, n)
	case k < 15:
		if n > 60 {
			n = 60
		}
		return "gp", gpLine(r, n)
	case k < 17:
		return "spiral", spiral(r, n)
	case k < 19:
		return "colltrap", collTrap(r)
	default:
		return "comb", comb(r, n)
	}
}

// scalePts multiplies every coordinate by f (a power of two: exact, and the Rat model stays exact)
func scalePts(ps []geom.Point, f float64) []geom.Point {
	r := make([]geom.Point, len(ps))
	for i, p := range ps {
		r[i] = geom.Point{X: p.X * f, Y: p.Y * f}
	}
	return r
}

func gen(seed uint64, tier string) {
	out := bufio.NewWriter(os.Stdout)
	defer out.Flush()
	r := vproto.NewRng(seed)
	emit := func(cls string, tol float64, g geom.Geom) {
		fmt.Fprintf(out, "simp %s %s %s\n", cls, vproto.F2H(tol), vproto.GeomToks(g))
	}
	P := func(c ...float64) []geom.Point {
		ps := make([]geom.Point, len(c)/2)
		for i := range ps {
			ps[i] = geom.Point{X: c[2*i], Y: c[2*i+1]}
		}
		return ps
	}
	// ---- fixed corpus: short curves (lengths 0,1,2,3) for every type and tolerance
	for _, tol := range tols {
		emit("corpus", tol, geom.LineString{})
		emit("corpus", tol, geom.LineString(P(0, 0)))
		emit("corpus", tol, geom.LineString(P(0, 0, 3, 4)))
		emit("corpus", tol, geom.LineString(P(0, 0, 1, 1, 2, 0)))
		emit("corpus", tol, geom.LineString(P(0, 0, 1, 1, 2, 2)))
		emit("corpus", tol, geom.LineString(P(0, 0, 1, 1, 2, 2, 3, 3, 4, 4, 5, 9)))
	}
	emit("corpus", 1, geom.MultiLineString{})
	emit("corpus", 1, geom.MultiLineString{{}, geom.LineString(P(1, 1)), geom.LineString(P(0, 0, 1, 1)), geom.LineString(P(0, 0, 4, 1, 8, 0, 12, 5))})
	emit("corpus", 1, geom.Polygon{})
	emit("corpus", 1, geom.Polygon{{}})
	emit("corpus", 1, geom.Polygon{P(1, 1)})
	emit("corpus", 1, geom.Polygon{P(1, 1, 2, 2)})
	emit("corpus", 1, geom.Polygon{P(0, 0, 10, 0, 10, 10, 0, 10, 0, 0), {}, P(5, 5)})
	emit("corpus", 1, geom.Polygon{P(0, 0, 10, 0, 10, 10, 0, 10, 0, 0), P(2, 2, 2, 4, 3, 5, 4, 4, 4, 2, 2, 2)})
	emit("corpus", 100, geom.Polygon{P(1, 1, 1, 3, 1.25, 2, 1, 1)}) // TestSimplifyDegenerate
	emit("corpus", 1, geom.MultiPolygon{})
	emit("corpus", 1, geom.MultiPolygon{{}, {{}}, {P(3, 3)}, {P(0, 0, 8, 0, 8, 8, 4, 9, 0, 8, 0, 0)}})
	// closing segment crosses an earlier spike (simple input in general position)
	emit("corpus", 10, geom.LineString(P(10, -50, 20, 25, 30, -50, 40, 20, 20, 30, 0, 20)))
	emit("corpus", 10, geom.LineString(P(10, -50, 21, 25, 33, -50, 40, 20, 20, 30, 0, 21)))
	// chord collinear with the following segment (not in general position)
	emit("corpus", 1, geom.LineString(P(0, 0, 2, 1, 4, 0, 2, 0)))
	// duplicate consecutive vertices; closed line string; zero-length chords
	emit("corpus", 0.5, geom.LineString(P(0, 0, 0, 0, 1, 0, 1, 0, 1, 1, 0, 0)))
	emit("corpus", 0.5, geom.LineString(P(0, 0, 5, 1, 0, 0, 5, -1, 0, 0, 7, 7)))
	// negative tolerance: every candidate is kept
	emit("corpus", -1, geom.LineString(P(0, 0, 1, 0, 2, 0, 3, 0)))
	// TestSimplify's two curves (coordinates are not on a grid: tie hygiene applies)
	emit("corpus", 30, geom.LineString(P(153.52, 928.49, 240.79, 988.95, 323.34, 1014.40, 404.41, 1020.08, 475.60, 981.17, 497.37, 921.45,
		546.26, 903.57, 598.10, 907.57, 655.31, 941.11, 679.28, 1004.20, 630.91, 1052.36, 581.17, 1029.23)))
	emit("corpus", 30, geom.LineString(P(70.57, 609.01, 102.21, 618.89, 125.19, 635.79, 133.07, 659.34, 134.86, 688.40, 121.04, 709.80,
		104.15, 726.70, 80.45, 731.71, 56.40, 729.34, 37.86, 714.81, 22.83, 692.69, 23.19, 669.21, 33.42, 648.38, 49.74, 635.79,
		84.03, 628.63, 115.31, 645.31, 118.75, 681.96, 109.94, 704.43, 84.39, 715.17, 60.20, 716.24, 42.37, 703.14, 34.64, 675.16,
		46.31, 658.05, 69.50, 645.16, 85.68, 651.96, 98.78, 669.93, 92.84, 691.98, 68.07, 699.21, 72.58, 676.59)))

	// ---- class `ladder`: graded near-ties.  One vertex B between A and C whose exact distance to the
	// segment AC is tol·(1 ± 2^-k), k = 12 … 30 — in the projection branch (AC along a 3-4-5 direction, B off
	// the line by 5(1 ± 2^-k)) and in the end-point branch (B = (3,4)(1 ± 2^-k) behind A) — under the eight
	// axis symmetries and three dyadic scales (all coordinates dyadic, every product exact).  Above tol the
	// vertex must be kept, below it may go; a comparison that loses precision (float32, an epsilon in the
	// test, a squared comparison rounded differently) drops a vertex that is farther than tol by more than
	// the Spec's slack (2·2^-k ≥ 1.8e-9 > 1e-9).
	for _, k := range []int{12, 16, 20, 22, 24, 26, 28, 30} {
		eps := math.Ldexp(1, -k)
		for _, sg := range []float64{1, -1} {
			e := sg * eps
			shapes := [][]float64{
				{0, 0, 5 - 4*e, 15 + 3*e, 24, 32},      // projection branch, distance 5(1+e)
				{0, 0, 3 + 3*e, 4 + 4*e, -7, 1},        // end-point branch (behind A), distance 5(1+e)
				{-7, 1, 3 + 3*e, 4 + 4*e, 0, 0, 2, -9}, // end-point branch at the far end, one more vertex behind
			}
			for si, sh := range shapes {
				for sym := 0; sym < 8; sym++ {
					for _, sc := range []float64{1, 0.125, 32} {
						if (si+sym+k)%3 != 0 && sc != 1 {
							continue // the scaled copies for a third of the combinations
						}
						c := make([]float64, len(sh))
						for q := 0; q < len(sh); q += 2 {
							x, y := sh[q], sh[q+1]
							if sym&1 != 0 {
								x = -x
							}
							if sym&2 != 0 {
								y = -y
							}
							if sym&4 != 0 {
								x, y = y, x
							}
							c[q], c[q+1] = x*sc, y*sc
						}
						emit("ladder", 5*sc, geom.LineString(P(c...)))
					}
				}
			}
		}
	}

	n := 5000
	big := false
	// smooth long runs: few but long cases (the exact model costs O(run^2) rational distance tests per run)
	smoothLens := []int{200, 260, 330, 420, 560, 640, 700}
	if tier == "thorough" {
		n, big = 60000, true
		smoothLens = nil
		for k := 0; k < 110; k++ {
			smoothLens = append(smoothLens, r.Range(200, 900))
		}
		for k := 0; k < 30; k++ {
			smoothLens = append(smoothLens, r.Range(900, 1600))
		}
		for k := 0; k < 6; k++ {
			smoothLens = append(smoothLens, r.Range(1600, 3000))
		}
	}
	// the seeded example of a gentle bend: unit steps on a circle of radius 1000, tolerance 11.25
	{
		m := 700
		if tier == "thorough" {
			m = 1500
		}
		ps := make([]ip, m)
		for k := range ps {
			a := float64(k) / 1000
			ps[k] = ip{int64(math.Round(1000 * math.Cos(a))), int64(math.Round(1000 * math.Sin(a)))}
		}
		emit("smooth", 11.25, geom.LineString(toPath(ps)))
	}
	for _, m := range smoothLens {
		cls, ps, tol := smoothCase(r, m)
		emit(cls, tol, geom.LineString(toPath(ps)))
	}
	// finite coordinates whose DIFFERENCES overflow float64 (more than MaxFloat64 apart): the largest
	// coordinate difference is +Inf inside distPointToSegment; Simplify must still return
	{
		big, mx := 1.5e308, math.MaxFloat64
		for _, tol := range []float64{0, 1, 1e300} {
			emit("overflow", tol, geom.LineString(P(-big, 0, 0, 1, big, 0)))
			emit("overflow", tol, geom.LineString(P(-big, 0, -big, 5, 0, 1e307, big, 3, big, 0)))
			emit("overflow", tol, geom.LineString(P(0, -mx, 1, 0, 2, mx, 3, 0, 4, -mx)))
			emit("overflow", tol, geom.LineString(P(-mx, -mx, 0, 0, mx, mx, mx, -mx, 7, 7)))
			emit("overflow", tol, geom.Polygon{P(-big, -big, big, -big, big, big, 0, 1e308, -big, big, -big, -big), P(0, 0, 1, 0, 1, 1, 0, 0)})
			emit("overflow", tol, geom.MultiLineString{P(-big, 0, 0, 1, big, 0), P(0, 0, 1, 1, 2, 0, 3, 1)})
		}
		// differences still finite: the rescale branch of distPointToSegment is taken once
		emit("overflow", 1e300, geom.LineString(P(-8e307, 0, 0, 1e306, 8e307, 0, 8e307, 4e307)))
		emit("overflow", 1e-310, geom.LineString(P(0, 0, 3e-309, 1e-309, 6e-309, 0, 9e-309, 2e-309)))
	}
	// class far: integer-grid shapes (smooth runs, lines in general position) scaled by 2^±520 … 2^±900 and
	// into the subnormal range, tolerance scaled alike.  Every distance test goes through the rescale
	// branch of distPointToSegment (exact power-of-two scaling), so the tolerance clause is judged with the
	// real tolerance although the exact model is not tied there (findIntersection overflows/underflows).
	{
		exps := []int{520, -520, 600, -600, 900, -900, 1000, -1060}
		r := vproto.NewRng(seed*7919 + 13) // own stream: the cases behind this block stay what they were
		nf := 2
		if tier == "thorough" {
			nf = 12
		}
		for _, e := range exps {
			f := math.Ldexp(1, e)
			for c := 0; c < nf; c++ {
				// sizes stay at or below 208 vertices: at 2^-520 and below findIntersection underflows, the guard backs
				// off almost everywhere and a run costs ~n^3 (360 vertices: 2.3 s, over the 2 s watchdog)
				cls, ps, tol := smoothCase(r, 120+40*(c%2)+8*(c/2))
				emit(cls+"@far", tol*f, geom.LineString(scalePts(toPath(ps), f)))
				gp := gpLine(r, 12+r.Intn(30))
				emit("gp@far", []float64{1.5, 3.5, 7.5, 12}[r.Intn(4)]*f, geom.LineString(scalePts(toPath(gp), f)))
			}
		}
	}
	// class detour (self-mutation N3: curves above a size threshold simplified in independent blocks): the
	// pocket shape A–B–C … F–G with a long zig-zag detour of 30–125 vertices between its bump and its
	// re-entry, all vertices in general position, so that the chord over the bump and the segment that
	// crosses it are far apart in the vertex list (n = 40 … 132, straddling 48/64/128).
	{
		r := vproto.NewRng(seed*104729 + 7)
		lens := []int{33, 45, 57, 59, 70, 100, 121, 125}
		if tier == "thorough" {
			lens = append(lens, 34, 40, 50, 56, 58, 60, 61, 80, 90, 110, 120, 122, 123, 124)
		}
		for _, nd := range lens {
			for try := 0; try < 50; try++ {
				j := func(v int64) int64 { return v + int64(r.Range(-9, 9)) }
				ps := []ip{{j(0), j(0)}, {j(3200), j(320)}, {j(4000), j(0)}, {j(4400), j(-800)}}
				ok := true
				add := func(q ip) {
					if ok && gpOK(ps, q) {
						ps = append(ps, q)
					} else {
						ok = false
					}
				}
				for k := 1; k <= nd && ok; k++ {
					x := 4400 - int64(k)*4400/int64(nd+1)
					y := int64(-1200)
					if k%2 == 0 {
						y = -1700
					}
					placed := false
					for t := 0; t < 20 && !placed; t++ {
						q := ip{x + int64(r.Range(-12, 12)), y + int64(r.Range(-90, 90))}
						if gpOK(ps, q) {
							ps = append(ps, q)
							placed = true
						}
					}
					ok = placed
				}
				add(ip{j(0), j(-800)})
				add(ip{j(200), j(-48)})
				add(ip{j(3800), j(32)})
				if ok {
					emit("detour", float64(r.Range(380, 420)), geom.LineString(toPath(ps)))
					break
				}
			}
		}
	}
	// double back-off (seeded C13-d2): an already emitted output segment blocks the longest chord
	// A–Q, and the next candidate A–P is crossed only by the input segment Q–R that the first
	// back-off has just un-dropped. The instance, then transformed and jittered copies.
	{
		base := []ip{{110, -600}, {120, -16}, {0, 0}, {100, 20}, {200, 0}, {210, -60}, {100, 10}}
		mats := [][4]int64{{1, 0, 0, 1}, {0, -1, 1, 0}, {-1, 0, 0, -1}, {0, 1, -1, 0}, {3, -4, 4, 3}, {4, 3, -3, 4}, {5, -12, 12, 5}, {1, 0, 0, -1}, {0, 1, 1, 0}, {-3, 4, 4, 3}}
		norms := []float64{1, 1, 1, 1, 5, 5, 13, 1, 1, 5}
		apply := func(ps []ip, k int, tx, ty int64) []ip {
			m := mats[k]
			r := make([]ip, len(ps))
			for i, q := range ps {
				r[i] = ip{m[0]*q.x + m[1]*q.y + tx, m[2]*q.x + m[3]*q.y + ty}
			}
			return r
		}
		for k := range mats {
			for _, t := range []float64{56, 58, 60} {
				emit("dbo", t*norms[k], geom.LineString(toPath(apply(base, k, int64(7*k), int64(-3*k)))))
			}
		}
		nj := 60
		if tier == "thorough" {
			nj = 1500
		}
		for c := 0; c < nj; c++ {
			ps := make([]ip, len(base))
			for i, q := range base {
				ps[i] = ip{q.x + int64(r.Range(-3, 3)), q.y + int64(r.Range(-3, 3))}
			}
			// vary the shape a little more: height of the bump B, depth of Q, overshoot of R
			ps[3].y += int64(r.Range(-6, 10))
			ps[5].y += int64(r.Range(-10, 10))
			ps[6].x += int64(r.Range(-15, 15))
			ps[0].x += int64(r.Range(-10, 10))
			if r.Chance(0.3) { // a longer lead-in
				ps = append([]ip{{ps[0].x + int64(r.Range(20, 80)), ps[0].y - int64(r.Range(0, 40))}}, ps...)
			}
			if r.Chance(0.3) { // and something after R
				ps = append(ps, ip{ps[len(ps)-1].x + int64(r.Range(-30, 30)), ps[len(ps)-1].y + int64(r.Range(40, 120))})
			}
			k := r.Intn(len(mats))
			t := float64(r.Range(112, 122)) / 2
			emit("dbo", t*norms[k], geom.LineString(toPath(apply(ps, k, int64(r.Range(-50, 50)), int64(r.Range(-50, 50))))))
		}
	}
	// shallow pocket at small ABSOLUTE scales (seeded C13-e1: an absolute threshold in findIntersection's
	// parallel test treats a shallow crossing of short segments as "parallel, different lines" = no
	// intersection).  A–B–C is a low bump that the chord A–C may replace; the line then runs round and
	// re-enters the pocket under the bump through the chord at a shallow angle, F (near A, off the chord's
	// line) → G (inside the pocket, where the line ends: an odd number of crossings).  The unchanged code
	// sees the crossing and keeps B.  Every shape is emitted on a ladder of scales — dyadic 2^-8..2^-40
	// (exact), decimal 1e-3..1e-7 — without and with a large offset (lon/lat -93.265, 44.977), so that an
	// absolute threshold anywhere in a wide range has shapes inside its window.
	{
		mats := [][4]int64{{1, 0, 0, 1}, {0, -1, 1, 0}, {-1, 0, 0, -1}, {3, -4, 4, 3}, {1, 0, 0, -1}, {0, 1, 1, 0}, {-3, 4, 4, 3}}
		norms := []float64{1, 1, 1, 5, 1, 1, 5}
		emitLadder := func(ps []ip, tol float64) {
			base := toPath(ps)
			shift := func(pts []geom.Point, ox, oy float64) []geom.Point {
				q := make([]geom.Point, len(pts))
				for i, p := range pts {
					q[i] = geom.Point{X: p.X + ox, Y: p.Y + oy}
				}
				return q
			}
			for k := 8; k <= 40; k++ {
				f := math.Ldexp(1, -k)
				emit("pocket@dy", tol*f, geom.LineString(scalePts(base, f)))
				if k <= 26 && k%2 == 0 {
					emit("pocket@dyoff", tol*f, geom.LineString(shift(scalePts(base, f), -93.265, 44.977)))
				}
			}
			for _, f := range []float64{1e-3, 3e-4, 1e-4, 3e-5, 1e-5, 2e-6, 1e-6, 3e-7, 1e-7} {
				emit("pocket@dec", tol*f, geom.LineString(scalePts(base, f)))
				emit("pocket@decoff", tol*f, geom.LineString(shift(scalePts(base, f), -93.265, 44.977)))
			}
		}
		// the seeded witness (unit 1e-5 there; here x5 on the integer grid)
		emitLadder([]ip{{0, 0}, {400, 40}, {500, 0}, {550, -100}, {0, -100}, {25, -6}, {475, 4}}, 50)
		npk := 10
		if tier == "thorough" {
			npk = 100
		}
		for c := 0; c < npk; c++ {
			lc := int64(r.Range(300, 800))
			bx := lc * int64(r.Range(55, 90)) / 100
			h := int64(r.Range(12, 44))
			d := ip{lc + int64(r.Range(20, 80)), -int64(r.Range(60, 140))}
			e := ip{int64(r.Range(-40, 10)), -int64(r.Range(60, 140))}
			f := ip{int64(r.Range(10, 40)), -int64(r.Range(2, 12))}
			gx := lc * int64(r.Range(80, 96)) / 100
			roof := h * (lc - gx) / (lc - bx)
			if gx <= bx {
				roof = h * gx / bx
			}
			if roof < 2 {
				roof = 2
			}
			g := ip{gx, 1 + int64(r.Intn(int(roof*6/10)+1))}
			ps := []ip{{0, 0}, {bx, h}, {lc, 0}, d, e, f, g}
			if r.Chance(0.3) { // a lead-in before A
				ps = append([]ip{{-int64(r.Range(30, 90)), int64(r.Range(20, 90))}}, ps...)
			}
			k := r.Intn(len(mats))
			m := mats[k]
			tx, ty := int64(r.Range(-50, 50)), int64(r.Range(-50, 50))
			q := make([]ip, len(ps))
			for i, v := range ps {
				q[i] = ip{m[0]*v.x + m[1]*v.y + tx, m[2]*v.x + m[3]*v.y + ty}
			}
			emitLadder(q, 50*norms[k])
		}
	}
	// concurrent callers (class prefix conc): multi-geometries with 32..80 members, long lines and rings, so
	// that the 8 identical calls and the 8 unrelated ones overlap (see concurrentCallers)
	{
		ncc := 60
		if tier == "thorough" {
			ncc = 200
		}
		for c := 0; c < ncc; c++ {
			tol := []float64{0.5, 1.5, 3.5, float64(r.Range(2, 16))}[r.Intn(4)]
			switch c % 4 {
			case 0:
				ml := make(geom.MultiLineString, r.Range(32, 80))
				for i := range ml {
					_, ps := lineOf(r, false)
					ml[i] = toPath(ps)
				}
				emit("conc", tol, ml)
			case 1:
				mp := make(geom.MultiPolygon, r.Range(32, 48))
				for i := range mp {
					mp[i] = polygon(r, false)
				}
				emit("conc", tol, mp)
			case 2:
				emit("conc", tol, geom.LineString(toPath(randomWalk(r, r.Range(150, 600)))))
			default:
				pg := geom.Polygon{toPath(starRing(r, 0, 0, float64(r.Range(200, 2000)), r.Range(100, 400)))}
				for h := r.Intn(5); h > 0; h-- {
					pg = append(pg, toPath(starRing(r, int64(r.Range(-60, 60)), int64(r.Range(-60, 60)), float64(r.Range(5, 30)), r.Range(3, 20))))
				}
				emit("conc", tol, pg)
			}
		}
	}
	// vertex and member counts around 64 / 128 (/ 1024 / 2048 in the thorough tier), one level at a time
	{
		sizes := []int{63, 64, 65, 66, 127, 128, 129, 130}
		if tier == "thorough" {
			sizes = append(sizes, 255, 256, 257, 1023, 1024, 1025, 2047, 2048, 2049)
		}
		for _, m := range sizes {
			ps, tol := smoothArc(r, m)
			emit("size", tol, geom.LineString(toPath(ps)))
			if m <= 1025 {
				emit("size", 1e6, geom.LineString(toPath(ps))) // one segment replaces everything
			}
		}
		for _, m := range []int{64, 65, 128, 129} {
			ml := make(geom.MultiLineString, m)
			pg := geom.Polygon{P(-400, -400, 400, -400, 400, 400, 0, 420, -400, 400, -400, -400)}
			for i := range ml {
				x := float64(i%20)*30 - 300
				y := float64(i/20)*30 - 300
				ml[i] = geom.LineString(P(x, y, x+4, y+1, x+8, y, x+12, y+5))
				if i > 0 {
					pg = append(pg, P(x, y, x+4, y+1, x+8, y, x+5, y+6, x, y))
				}
			}
			emit("size", 1.5, ml)
			emit("size", 1.5, pg)
			mp := make(geom.MultiPolygon, m)
			for i := range mp {
				x := float64(i%20) * 30
				y := float64(i/20) * 30
				mp[i] = geom.Polygon{P(x, y, x+9, y+1, x+18, y, x+19, y+9, x+18, y+18, x, y+18, x, y)}
			}
			emit("size", 1.5, mp)
		}
	}
	// a smooth ring with a hole, and a multi-line string with a long smooth member
	{
		ps, tol := smoothArc(r, 300)
		ring := toPath(append(ps, ps[0]))
		emit("smooth", tol, geom.Polygon{ring, P(ring[0].X/2, ring[0].Y/2, ring[0].X/2+3, ring[0].Y/2, ring[0].X/2, ring[0].Y/2+3, ring[0].X/2, ring[0].Y/2)})
		ps2, tol2 := smoothParabola(r, 260)
		emit("smooth", tol2, geom.MultiLineString{toPath(ps2), P(0, 0, 5, 5), toPath(ps2[:90])})
	}
	// ---- densified simple lines: a simple line in general position whose segments are cut into 2..5
	// collinear pieces (coordinates scaled by the number of pieces: exact).  Not in general position, but
	// every collinear triple is in order along its line (Spec.ColOrdered; theorem
	// C13_simple_collinear_ordered), so the answer must be simple; chords that start or end inside a
	// straight run are tested against the rest of the same run (collinear branch of findIntersection).
	nd := 150
	if tier == "thorough" {
		nd = 1500
	}
	for c := 0; c < nd; c++ {
		base := gpLine(r, r.Range(3, 12))
		k := int64(r.Range(2, 5))
		ps := []ip{}
		for i := 0; i+1 < len(base); i++ {
			for t := int64(0); t < k; t++ {
				ps = append(ps, ip{(k-t)*base[i].x + t*base[i+1].x, (k-t)*base[i].y + t*base[i+1].y})
			}
		}
		if len(base) > 0 {
			ps = append(ps, ip{k * base[len(base)-1].x, k * base[len(base)-1].y})
		}
		tol := float64(k) * []float64{0, 0.5, 1.5, 3.5, float64(r.Range(2, 16)), float64(r.Range(2, 16))}[r.Intn(6)]
		pts := toPath(ps)
		if r.Chance(0.15) { // below unit length the collinear branch reports disjoint pieces as meeting
			pts = scalePts(pts, 1.0/1024)
			tol /= 1024
			emit("dense@scaled", tol, geom.LineString(pts))
		} else {
			emit("dense", tol, geom.LineString(pts))
		}
	}
	for c := 0; c < n; c++ {
		tol := pickTol(r)
		switch k := r.Intn(20); {
		case k < 12:
			cls, ps := lineOf(r, big)
			if cls == "gp" && tol == 0 && r.Chance(0.8) {
				tol = []float64{1.5, 3.5, 5, 7.5, 12}[r.Intn(5)] // tol 0 keeps every vertex of a line in general position
			}
			if r.Chance(0.08) {
				// the same shapes at very small and very large coordinate scales (absolute thresholds)
				f := math.Ldexp(1, []int{-30, -24, -20, 20, 24, 30}[r.Intn(6)])
				emit(cls+"@scaled", tol*f, geom.LineString(scalePts(toPath(ps), f)))
			} else {
				emit(cls, tol, geom.LineString(toPath(ps)))
			}
		case k < 14:
			m := []int{0, 1, 2, 2, 3, 4}[r.Intn(6)]
			ml := make(geom.MultiLineString, m)
			for i := range ml {
				if r.Chance(0.15) {
					ml[i] = geom.LineString(toPath(randomWalk(r, r.Intn(3))))
				} else {
					_, ps := lineOf(r, false)
					ml[i] = toPath(ps)
				}
			}
			emit("mls", tol, ml)
		case k < 18:
			if r.Chance(0.4) { // tolerance comparable to the size of the spikes of the ring
				tol = float64(r.Range(2, 16))
			}
			emit("pg", tol, polygon(r, big))
		default:
			if r.Chance(0.4) {
				tol = float64(r.Range(2, 16))
			}
			m := []int{0, 1, 2, 2, 3}[r.Intn(5)]
			mp := make(geom.MultiPolygon, m)
			for i := range mp {
				mp[i] = polygon(r, false)
			}
			if r.Chance(0.3) {
				// members that are single rings made of a closed generated line, tolerance comparable to the
				// ring: the ring is its own obstacle (a chord is checked against replaced original segments
				// of the same ring), so an answer computed without it differs (self-mutation X7)
				tol = float64(r.Range(2, 16))
				for i := range mp {
					_, ps := lineOf(r, false)
					if len(ps) > 60 {
						ps = ps[:60]
					}
					if len(ps) > 0 {
						ps = append(ps, ps[0])
					}
					mp[i] = geom.Polygon{toPath(ps)}
				}
			}
			emit("mpg", tol, mp)
		}
	}
}

// ---------------------------------------------------------------- implementation side

const (
	wallLimit = 2 * time.Second
	heapLimit = 768 << 20
)

func clonePts(p []geom.Point) []geom.Point {
	if p == nil {
		return nil
	}
	return append(make([]geom.Point, 0, len(p)), p...)
}

func cloneGeom(g geom.Geom) geom.Geom {
	switch t := g.(type) {
	case geom.LineString:
		return geom.LineString(clonePts(t))
	case geom.MultiLineString:
		r := make(geom.MultiLineString, len(t))
		for i := range t {
			r[i] = clonePts(t[i])
		}
		return r
	case geom.Polygon:
		r := make(geom.Polygon, len(t))
		for i := range t {
			r[i] = clonePts(t[i])
		}
		return r
	case geom.MultiPolygon:
		r := make(geom.MultiPolygon, len(t))
		for i := range t {
			r[i] = cloneGeom(t[i]).(geom.Polygon)
		}
		return r
	}
	return g
}

// call runs f under the watchdog. ok=false means the call did not return (the worker must exit).
func call(limit time.Duration, f func() string) (res string, ok bool) {
	ch := make(chan string, 1)
	go func() {
		var r string
		if pan := vproto.Safe(func() { r = f() }); pan != "" {
			r = "panic " + pan
		}
		ch <- r
	}()
	deadline := time.After(limit)
	tick := time.NewTicker(10 * time.Millisecond)
	defer tick.Stop()
	var ms runtime.MemStats
	for {
		select {
		case r := <-ch:
			return r, true
		case <-deadline:
			return "timeout wall", false
		case <-tick.C:
			runtime.ReadMemStats(&ms)
			if ms.HeapAlloc > heapLimit {
				return "timeout mem", false
			}
		}
	}
}

func nVertices(g geom.Geom) int {
	n := 0
	switch t := g.(type) {
	case geom.LineString:
		n = len(t)
	case geom.MultiLineString:
		for _, l := range t {
			n += len(l)
		}
	case geom.Polygon:
		for _, l := range t {
			n += len(l)
		}
	case geom.MultiPolygon:
		for _, p := range t {
			n += nVertices(p)
		}
	}
	return n
}

// ---- generic probes (aliasing / shared backing arrays / address-keyed state / late check)

var sentinel = geom.Point{X: 12345.5, Y: -54321.25}

const spare = 8

// flatten rebuilds g so that all its members are consecutive windows of ONE flat buffer with spare
// capacity: member k is buf[a:b] with cap reaching to the end of the buffer (over the storage of
// the following members and a tail of sentinel points). Empty members alternate between nil and an
// empty slice with capacity. The whole buffer is compared bit for bit after the calls.
func flatten(g geom.Geom) (geom.Geom, []geom.Point) {
	r, buf, _ := flattenT(g)
	return r, buf
}

// sentinel entries behind the used part of the slice-of-slices tables
var sentRing = []geom.Point{sentinel, {X: -7.25, Y: 9.5}, sentinel}

// hdr is the header of one table entry: address of the first element, length, capacity
type hdr struct {
	p    *geom.Point
	l, c int
}

func hdrOf(ps []geom.Point) hdr { return hdr{unsafe.SliceData(ps), len(ps), cap(ps)} }

// flattenT: as described above for the points, and the SAME layout one level up: the rings of a polygon
// / of all polygons of a multi-polygon are consecutive windows of ONE []Path table (polygon k is
// tab[a:b] with capacity reaching over the rings of the polygons behind it and `spare` sentinel rings);
// the polygons of a multi-polygon are a window of a []Polygon table, the lines of a multi-line string a
// window of a []LineString table, each followed by sentinel entries within the capacity.  snap() reads
// the headers (address, len, cap) of EVERY table entry, sentinels included; it is compared before vs
// after all calls like the point buffer (a callee that appends to a receiver's ring list writes there).
func flattenT(g geom.Geom) (geom.Geom, []geom.Point, func() []hdr) {
	total := nVertices(g)
	buf := make([]geom.Point, 0, total+spare)
	empties := 0
	type span struct {
		a, b  int
		isNil bool
	}
	// two passes: first lay out, then slice the final buffer (append may not move it: cap is exact)
	var spans []span
	add := func(ps []geom.Point) {
		a := len(buf)
		buf = append(buf, ps...)
		isNil := false
		if len(ps) == 0 {
			empties++
			isNil = empties%2 == 1
		}
		spans = append(spans, span{a, len(buf), isNil})
	}
	switch t := g.(type) {
	case geom.LineString:
		add(t)
	case geom.MultiLineString:
		for _, l := range t {
			add(l)
		}
	case geom.Polygon:
		for _, l := range t {
			add(l)
		}
	case geom.MultiPolygon:
		for _, pg := range t {
			for _, l := range pg {
				add(l)
			}
		}
	default:
		return g, nil, func() []hdr { return nil }
	}
	for k := 0; k < spare; k++ {
		buf = append(buf, sentinel)
	}
	k := 0
	next := func() []geom.Point {
		sp := spans[k]
		k++
		if sp.isNil {
			return nil
		}
		return buf[sp.a:sp.b] // cap(buf)-sp.a: spare capacity over everything behind it
	}
	switch t := g.(type) {
	case geom.LineString:
		return geom.LineString(next()), buf, func() []hdr { return nil }
	case geom.MultiLineString:
		tab := make([]geom.LineString, len(t)+spare)
		for i := range t {
			tab[i] = next()
		}
		for i := len(t); i < len(tab); i++ {
			tab[i] = sentRing
		}
		return geom.MultiLineString(tab[:len(t)]), buf, func() []hdr {
			h := make([]hdr, len(tab))
			for i := range tab {
				h[i] = hdrOf(tab[i])
			}
			return h
		}
	case geom.Polygon:
		tab := make([]geom.Path, len(t)+spare)
		for i := range t {
			tab[i] = next()
		}
		for i := len(t); i < len(tab); i++ {
			tab[i] = sentRing
		}
		return geom.Polygon(tab[:len(t)]), buf, func() []hdr {
			h := make([]hdr, len(tab))
			for i := range tab {
				h[i] = hdrOf(tab[i])
			}
			return h
		}
	case geom.MultiPolygon:
		nr := 0
		for i := range t {
			nr += len(t[i])
		}
		tab := make([]geom.Path, nr+spare)
		ptab := make([]geom.Polygon, len(t)+spare)
		a := 0
		for i := range t {
			for j := range t[i] {
				tab[a+j] = next()
			}
			ptab[i] = geom.Polygon(tab[a : a+len(t[i])]) // cap reaches over the rings of the polygons behind it
			a += len(t[i])
		}
		for i := nr; i < len(tab); i++ {
			tab[i] = sentRing
		}
		for i := len(t); i < len(ptab); i++ {
			ptab[i] = geom.Polygon(tab[nr : nr+1])
		}
		return geom.MultiPolygon(ptab[:len(t)]), buf, func() []hdr {
			h := make([]hdr, 0, len(tab)+len(ptab))
			for i := range tab {
				h = append(h, hdrOf(tab[i]))
			}
			for i := range ptab {
				var p0 *geom.Point
				if len(ptab[i]) > 0 || cap(ptab[i]) > 0 {
					p0 = (*geom.Point)(unsafe.Pointer(unsafe.SliceData(ptab[i])))
				}
				h = append(h, hdr{p0, len(ptab[i]), cap(ptab[i])})
			}
			return h
		}
	}
	return g, buf, func() []hdr { return nil }
}

func sameHdrs(a, b []hdr) bool {
	if len(a) != len(b) {
		return false
	}
	for i := range a {
		if a[i] != b[i] {
			return false
		}
	}
	return true
}

func sameBits(a, b []geom.Point) bool {
	if len(a) != len(b) {
		return false
	}
	for i := range a {
		if math.Float64bits(a[i].X) != math.Float64bits(b[i].X) || math.Float64bits(a[i].Y) != math.Float64bits(b[i].Y) {
			return false
		}
	}
	return true
}

// simplifyOne: `ok <answer> same|mutated stable|unstable [members <GEOM>] [again <GEOM>]`
//
//	same/mutated    the flat input buffer (spare capacity and sentinels included) before vs after ALL calls
//	stable/unstable the first answer re-read after the later calls (late check)
//	members         every member simplified on its own (fresh copies)
//	again           the identical call repeated after the operand was changed IN PLACE (x and y of
//	                every vertex swapped: same addresses, same lengths); judged against the swapped input
//
// ---- concurrent callers (generic probe (g)): the four Simplify methods are pure functions of receiver
// and tolerance.  For a line of class `conc-…` the reference answer is computed alone; then 8 goroutines
// repeat the call on private deep copies while 8 others hammer the same API on unrelated large inputs
// (long lines, many members) so that calls overlap.  The first answer that is not bit-identical to the
// reference replaces the answer of the line (the Spec and the model then judge it); a panic in one of
// our goroutines is reported as `panic`, a modified private copy as `mutated`.  A panic in a goroutine
// the LIBRARY spawned cannot be recovered here: it kills the worker and the supervisor reports the line
// as `crash`.
var hammerOnce sync.Once
var hammerInputs []geom.Geom

func hammerSet() []geom.Geom {
	hammerOnce.Do(func() {
		r := vproto.NewRng(424242)
		hammerInputs = append(hammerInputs, geom.LineString(toPath(randomWalk(r, 2500))))
		ml := make(geom.MultiLineString, 64)
		for i := range ml {
			ml[i] = toPath(randomWalk(r, 40))
		}
		hammerInputs = append(hammerInputs, ml)
		pg := geom.Polygon{toPath(starRing(r, 0, 0, 4000, 600))}
		for h := 0; h < 6; h++ {
			pg = append(pg, toPath(starRing(r, int64(200*h-500), int64(100*h-300), 60, 24)))
		}
		hammerInputs = append(hammerInputs, pg)
		mp := make(geom.MultiPolygon, 40)
		for i := range mp {
			mp[i] = geom.Polygon{toPath(starRing(r, int64(300*i), 0, 100, 50))}
		}
		hammerInputs = append(hammerInputs, mp)
	})
	return hammerInputs
}

// concurrentCallers returns ("", "", false) when every concurrent answer equals ref
func concurrentCallers(g geom.Geom, tol float64, ref string) (dev string, panicMsg string, mutated bool) {
	const callers, hammers, rounds = 8, 8, 6
	var mu sync.Mutex
	var stop int32
	var wgC, wgH sync.WaitGroup
	note := func(d, p string, m bool) {
		mu.Lock()
		if dev == "" && d != "" {
			dev = d
		}
		if panicMsg == "" && p != "" {
			panicMsg = p
		}
		mutated = mutated || m
		mu.Unlock()
	}
	hs := hammerSet()
	for h := 0; h < hammers; h++ {
		wgH.Add(1)
		go func(h int) {
			defer wgH.Done()
			defer func() {
				if e := recover(); e != nil {
					note("", fmt.Sprintf("in-concurrent-unrelated-call %v", e), false)
				}
			}()
			in := cloneGeom(hs[h%len(hs)]).(geom.Simplifier)
			for k := 0; atomic.LoadInt32(&stop) == 0; k++ {
				in.Simplify([]float64{1.5, 3.5, 20, 0.5}[(h+k)%4])
			}
		}(h)
	}
	start := make(chan struct{})
	for c := 0; c < callers; c++ {
		wgC.Add(1)
		go func() {
			defer wgC.Done()
			defer func() {
				if e := recover(); e != nil {
					note("", fmt.Sprintf("in-concurrent-call %v", e), false)
				}
			}()
			priv, buf, snap := flattenT(cloneGeom(g))
			saved := append([]geom.Point(nil), buf...)
			savedH := snap()
			<-start
			for k := 0; k < rounds; k++ {
				t := vproto.GeomToks(priv.(geom.Simplifier).Simplify(tol))
				if t != ref {
					note(t, "", false)
				}
			}
			if !sameBits(buf, saved) || !sameHdrs(snap(), savedH) {
				note("", "", true)
			}
		}()
	}
	close(start)
	wgC.Wait()
	atomic.StoreInt32(&stop, 1)
	wgH.Wait()
	return
}

func simplifyOne(g0 geom.Geom, tol float64, conc bool) string {
	g, buf, snap := flattenT(g0)
	s, isS := g.(geom.Simplifier)
	if !isS {
		return "badgeom"
	}
	saved := append([]geom.Point(nil), buf...)
	savedH := snap()
	o := s.Simplify(tol)
	first := vproto.GeomToks(o)
	ref := first // the answer of the call made alone; `first` may become a deviating concurrent answer
	res := ""
	ccMutated := false
	if conc {
		dev, pm, mut := concurrentCallers(g0, tol, first)
		if pm != "" {
			return "panic " + strings.ReplaceAll(pm, " ", "_")
		}
		ccMutated = mut
		if dev != "" {
			first = dev
		}
	}
	// members simplified on their own (independence of members of multi-geometries)
	switch t := g0.(type) {
	case geom.MultiLineString:
		m := make(geom.MultiLineString, len(t))
		for i := range t {
			m[i] = geom.LineString(clonePts(t[i])).Simplify(tol).(geom.LineString)
		}
		res += " members " + vproto.GeomToks(m)
	case geom.MultiPolygon:
		m := make(geom.MultiPolygon, len(t))
		for i := range t {
			m[i] = cloneGeom(t[i]).(geom.Polygon).Simplify(tol).(geom.Polygon)
		}
		res += " members " + vproto.GeomToks(m)
	}
	same := "same"
	if !sameBits(buf, saved) || ccMutated || !sameHdrs(snap(), savedH) {
		same = "mutated"
	}
	if nVertices(g) <= 80 {
		for i := range buf {
			buf[i].X, buf[i].Y = buf[i].Y, buf[i].X
		}
		swapped := append([]geom.Point(nil), buf...)
		o2 := s.Simplify(tol)
		res += " again " + vproto.GeomToks(o2)
		if !sameBits(buf, swapped) || !sameHdrs(snap(), savedH) {
			same = "mutated"
		}
		for i := range buf {
			buf[i].X, buf[i].Y = buf[i].Y, buf[i].X
		}
	}
	stable := "stable"
	if vproto.GeomToks(o) != ref {
		stable = "unstable"
	}
	return "ok " + first + " " + same + " " + stable + res
}

func worker() {
	debug.SetGCPercent(50)
	debug.SetMaxStack(64 << 20) // a runaway recursion aborts the worker quickly; the supervisor reports the line as crashed
	in := bufio.NewReaderSize(os.Stdin, 1<<20)
	out := bufio.NewWriterSize(os.Stdout, 1<<16)
	for {
		line, err := in.ReadString('\n')
		l := strings.TrimSpace(line)
		if l != "" {
			var g geom.Geom
			var tol float64
			var cls string
			perr := vproto.Safe(func() {
				p := vproto.NewParser(l)
				p.Next()       // simp
				cls = p.Next() // class
				tol = p.F()
				g = p.Geom()
			})
			if perr != "" {
				fmt.Fprintf(out, "%s => badline %s\n", l, perr)
				out.Flush()
			} else {
				// a terminating call on fewer than 64 vertices takes microseconds: a short limit keeps
				// runs with many non-terminating cases fast (the spinning goroutine allocates GB/s)
				limit := wallLimit
				if nVertices(g) < 64 {
					limit = wallLimit / 8
				}
				conc := strings.HasPrefix(cls, "conc")
				if conc {
					limit = 4 * wallLimit
				}
				res, ok := call(limit, func() string { return simplifyOne(g, tol, conc) })
				fmt.Fprintf(out, "%s => %s\n", l, res)
				out.Flush()
				if !ok {
					os.Exit(0) // the spinning goroutine cannot be stopped; the supervisor restarts us
				}
			}
		}
		if err != nil {
			return
		}
	}
}

func supervisor() {
	data, _ := io.ReadAll(bufio.NewReaderSize(os.Stdin, 1<<20))
	var lines []string
	for _, l := range strings.Split(string(data), "\n") {
		if strings.TrimSpace(l) != "" {
			lines = append(lines, strings.TrimSpace(l))
		}
	}
	out := bufio.NewWriterSize(os.Stdout, 1<<16)
	defer out.Flush()
	pos := 0
	for pos < len(lines) {
		cmd := exec.Command(os.Args[0], "worker")
		cmd.Stderr = io.Discard
		stdin, _ := cmd.StdinPipe()
		stdout, _ := cmd.StdoutPipe()
		if err := cmd.Start(); err != nil {
			fmt.Fprintf(out, "%s => crash cannot-start-worker\n", lines[pos])
			pos++
			continue
		}
		rest := lines[pos:]
		go func() {
			w := bufio.NewWriterSize(stdin, 1<<16)
			for _, l := range rest {
				if _, err := w.WriteString(l + "\n"); err != nil {
					break
				}
			}
			w.Flush()
			stdin.Close()
		}()
		rd := bufio.NewReaderSize(stdout, 1<<20)
		got := 0
		for {
			l, err := rd.ReadString('\n')
			if strings.HasSuffix(l, "\n") && strings.Contains(l, " => ") && got < len(rest) {
				out.WriteString(l)
				out.Flush()
				got++
			}
			if err != nil {
				break
			}
		}
		cmd.Process.Kill()
		cmd.Wait()
		pos += got
		if got == 0 && pos < len(lines) {
			// the worker died without answering (e.g. killed by the memory limit)
			fmt.Fprintf(out, "%s => crash worker-died\n", lines[pos])
			out.Flush()
			pos++
		}
	}
}

func main() {
	if len(os.Args) < 2 {
		fmt.Fprintln(os.Stderr, "usage: c13 gen|impl|worker")
		os.Exit(2)
	}
	switch os.Args[1] {
	case "gen":
		seed, tier := vproto.SeedTier(os.Args[2:])
		gen(seed, tier)
	case "impl":
		supervisor()
	case "worker":
		worker()
	case "extract":
		extractMain(os.Args[2:])
	case "skeleton":
		skeletonMain(os.Args[2:])
	}
}
