package main

// T1 tie for C13: regenerate Lean definitions of the pure arithmetic/decision functions of
// simplify.go (pointSubtract, dot, norm, d, distPointToSegment) and intersection.go
// (lengthToOrigin, findIntersection2, findIntersection — first result only) from the Go source of
// the tree under test, and print a canonical control skeleton of the functions with loops
// (simplifyCurve, segMakesNotSimple, the four Simplify methods).
//
//	c13 extract  --repo DIR   prints module GeomV.C13.Gen   (lean/GeomV/C13/Ties.lean proves Gen.f = Model.f)
//	c13 skeleton --repo DIR   prints the skeleton            (compared with skeleton.expected.txt)
//
// Translatable subset (anything else is an error, reported as a broken tie — never skipped):
// parameters of type Point / segment / float64 (float64 parameter kinds are taken from the call
// site); straight-line `x := e`, `x = e`; `if c { … } [else …]` with returns; `return e[, …]` (first
// result only); expressions over .X .Y .start .end, numeric literals (exact, via go/constant),
// + - * /, comparisons, && ||, Point{…}, calls of translated functions, math.Sqrt / Min / Max.
// Square roots stay symbolic (GenLib.lean): math.Sqrt(q) : Len; rational*Len*Len : Surd;
// rational/Len : OverLen; comparisons between those kinds are exact (signs and squares).
// Result-irrelevant state is dropped by one rule: a variable that is returned only in a position
// after the first, or whose address is passed to a call, or a pointer parameter, is DEAD; dead
// variables are not bound, so any use of one inside a kept expression makes the translation fail.
// Statements that only write dead variables (`pi0.X = …`, `*w = append(*w, …)`, `w := make(…)`,
// `pi0 := nanPoint`) and `if`s consisting only of such statements are dropped.

import (
	"bytes"
	"fmt"
	"go/ast"
	"go/constant"
	"go/parser"
	"go/printer"
	"go/scanner"
	"go/token"
	"os"
	"path/filepath"
	"strings"
)

type kind int

const (
	kRat kind = iota
	kLen
	kSurd
	kOver
	kPt
	kSeg
	kNat
	kInt
	kProp
	kBool
)

var kindName = map[kind]string{kRat: "Rat", kLen: "Len", kSurd: "Surd", kOver: "OverLen", kPt: "P", kSeg: "Seg", kNat: "Nat", kInt: "Int", kBool: "Bool"}

type xerr struct{ msg string }

func xfail(f string, a ...interface{}) { panic(xerr{fmt.Sprintf(f, a...)}) }

type binding struct {
	lean string
	k    kind
}
type xenv map[string]binding

func (e xenv) copy() xenv {
	r := xenv{}
	for k, v := range e {
		r[k] = v
	}
	return r
}

type fnSig struct {
	params []kind
	ret    kind
	done   bool
}

type translator struct {
	fset  *token.FileSet
	decls map[string]*ast.FuncDecl
	sigs  map[string]*fnSig // translated functions
	calls map[string][]kind // argument kinds seen at the call sites of not-yet-translated functions
	dead  map[string]bool
	cur   string
	rec   map[string]bool // functions that call themselves (translated with fuel)
	out   strings.Builder
}

func (t *translator) pos(n ast.Node) string {
	p := t.fset.Position(n.Pos())
	return fmt.Sprintf("%s:%d", filepath.Base(p.Filename), p.Line)
}

func asBool(s string, k kind) string {
	switch k {
	case kBool:
		return s
	case kProp:
		return "decide (" + s + ")"
	}
	xfail("expected a condition, got %q", s)
	return ""
}

func litRat(v constant.Value) string {
	v = constant.ToFloat(v)
	if v.Kind() != constant.Float && v.Kind() != constant.Int {
		xfail("literal is not numeric")
	}
	n, d := constant.Num(v), constant.Denom(v)
	if d.ExactString() == "1" {
		return "(" + n.ExactString() + " : Rat)"
	}
	return "((" + n.ExactString() + " : Rat) / " + d.ExactString() + ")"
}

func (t *translator) expr(x ast.Expr, e xenv) (string, kind) {
	switch n := x.(type) {
	case *ast.ParenExpr:
		return t.expr(n.X, e)
	case *ast.Ident:
		if b, ok := e[n.Name]; ok {
			return b.lean, b.k
		}
		if t.dead[n.Name] {
			xfail("%s: %s: result-irrelevant variable %q is used in a kept expression", t.cur, t.pos(n), n.Name)
		}
		xfail("%s: %s: identifier %q outside the subset", t.cur, t.pos(n), n.Name)
	case *ast.BasicLit:
		if n.Kind == token.INT || n.Kind == token.FLOAT {
			return litRat(constant.MakeFromLiteral(n.Value, n.Kind, 0)), kRat
		}
		xfail("%s: literal %s", t.cur, n.Value)
	case *ast.SelectorExpr:
		s, k := t.expr(n.X, e)
		switch {
		case k == kPt && n.Sel.Name == "X":
			return s + ".x", kRat
		case k == kPt && n.Sel.Name == "Y":
			return s + ".y", kRat
		case k == kSeg && n.Sel.Name == "start":
			return s + ".s", kPt
		case k == kSeg && n.Sel.Name == "end":
			return s + ".e", kPt
		}
		xfail("%s: %s: selector .%s", t.cur, t.pos(n), n.Sel.Name)
	case *ast.CompositeLit:
		id, ok := n.Type.(*ast.Ident)
		if ok && id.Name == "Point" && len(n.Elts) == 0 {
			return "(⟨0, 0⟩ : P)", kPt
		}
		if !ok || id.Name != "Point" || len(n.Elts) != 2 {
			xfail("%s: %s: composite literal outside the subset", t.cur, t.pos(n))
		}
		var xs, ys string
		for i, el := range n.Elts {
			val := el
			key := []string{"X", "Y"}[i]
			if kv, ok := el.(*ast.KeyValueExpr); ok {
				val = kv.Value
				key = kv.Key.(*ast.Ident).Name
			}
			v, k := t.expr(val, e)
			if k != kRat {
				xfail("%s: %s: Point field is not a rational expression", t.cur, t.pos(n))
			}
			if key == "X" {
				xs = v
			} else {
				ys = v
			}
		}
		return "(⟨" + xs + ", " + ys + "⟩ : P)", kPt
	case *ast.CallExpr:
		return t.call(n, e)
	case *ast.UnaryExpr:
		v, k := t.expr(n.X, e)
		switch {
		case n.Op == token.NOT && (k == kBool || k == kProp):
			return "(!" + asBool(v, k) + ")", kBool
		case n.Op == token.SUB && k == kRat:
			return "(-" + v + ")", kRat
		}
		xfail("%s: %s: unary %s outside the subset", t.cur, t.pos(n), n.Op)
	case *ast.BinaryExpr:
		l, kl := t.expr(n.X, e)
		r, kr := t.expr(n.Y, e)
		switch n.Op {
		case token.ADD, token.SUB, token.MUL:
			op := map[token.Token]string{token.ADD: "+", token.SUB: "-", token.MUL: "*"}[n.Op]
			switch {
			case kl == kRat && kr == kRat:
				return "(" + l + " " + op + " " + r + ")", kRat
			case kl == kInt && (kr == kInt || isIntLit(n.Y)):
				return "(" + l + " " + op + " " + strings.Replace(r, " : Rat)", " : Int)", 1) + ")", kInt
			case n.Op == token.MUL && kl == kRat && kr == kLen:
				return "(Surd.ofRatMulLen " + l + " " + r + ")", kSurd
			case n.Op == token.MUL && kl == kSurd && kr == kLen:
				return "(Surd.mulLen " + l + " " + r + ")", kSurd
			case n.Op == token.ADD && kl == kOver && kr == kOver:
				if divisor(n.X, e) == "" || divisor(n.X, e) != divisor(n.Y, e) {
					xfail("%s: %s: sum of quotients by different lengths", t.cur, t.pos(n))
				}
				return "(OverLen.add " + l + " " + r + ")", kOver
			}
			xfail("%s: %s: operator %s on kinds %v, %v", t.cur, t.pos(n), n.Op, kl, kr)
		case token.QUO:
			switch {
			case kl == kRat && kr == kRat:
				return "(" + l + " / " + r + ")", kRat
			case kl == kRat && kr == kLen:
				return "(OverLen.mk' " + l + " " + r + ")", kOver
			}
			xfail("%s: %s: division on kinds %v, %v", t.cur, t.pos(n), kl, kr)
		case token.LSS, token.GTR, token.LEQ, token.GEQ, token.EQL:
			op := map[token.Token]string{token.LSS: "<", token.GTR: ">", token.LEQ: "≤", token.GEQ: "≥", token.EQL: "="}[n.Op]
			switch {
			case kl == kRat && kr == kRat, kl == kNat && kr == kNat:
				return l + " " + op + " " + r, kProp
			case kl == kNat && kr == kRat, kl == kRat && kr == kNat:
				xfail("%s: %s: mixed int/float comparison", t.cur, t.pos(n))
			case kl == kRat && kr == kSurd && n.Op == token.GTR:
				return "Surd.ratGt " + l + " " + r, kBool
			case kl == kLen && kr == kRat && n.Op == token.GTR:
				return "Len.gtRat " + l + " " + r, kBool
			case kl == kRat && kr == kOver && n.Op == token.LSS:
				return "OverLen.ratLt " + l + " " + r, kBool
			case kl == kRat && kr == kOver && n.Op == token.GTR:
				return "OverLen.ratGt " + l + " " + r, kBool
			case kl == kRat && kr == kOver && n.Op == token.EQL:
				return "OverLen.ratEq " + l + " " + r, kBool
			}
			xfail("%s: %s: comparison %s on kinds %v, %v", t.cur, t.pos(n), n.Op, kl, kr)
		case token.LAND:
			return "(" + asBool(l, kl) + " && " + asBool(r, kr) + ")", kBool
		case token.LOR:
			return "(" + asBool(l, kl) + " || " + asBool(r, kr) + ")", kBool
		}
		xfail("%s: %s: operator %s", t.cur, t.pos(n), n.Op)
	}
	xfail("%s: %s: expression %T outside the subset", t.cur, t.pos(x), x)
	return "", kRat
}

// divisor returns the Go identifier a quotient expression (or a variable bound to one) was divided
// by, "" when unknown; used to make sure quotients that are added share their length.
var overDivisor = map[string]string{}

func divisor(x ast.Expr, e xenv) string {
	switch n := x.(type) {
	case *ast.ParenExpr:
		return divisor(n.X, e)
	case *ast.Ident:
		return overDivisor[n.Name]
	case *ast.BinaryExpr:
		if n.Op == token.QUO {
			if id, ok := n.Y.(*ast.Ident); ok {
				return id.Name
			}
		}
		if n.Op == token.ADD {
			if a, b := divisor(n.X, e), divisor(n.Y, e); a == b {
				return a
			}
		}
	}
	return ""
}

func (t *translator) call(n *ast.CallExpr, e xenv) (string, kind) {
	if sel, ok := n.Fun.(*ast.SelectorExpr); ok {
		pk, _ := sel.X.(*ast.Ident)
		if pk == nil || pk.Name != "math" {
			xfail("%s: %s: call outside the subset", t.cur, t.pos(n))
		}
		switch sel.Sel.Name {
		case "Abs":
			a, k := t.expr(n.Args[0], e)
			if k != kRat {
				xfail("%s: %s: math.Abs of a non-rational", t.cur, t.pos(n))
			}
			return "(rabs " + a + ")", kRat
		case "IsInf":
			// the model is over finite values: never infinite
			if _, k := t.expr(n.Args[0], e); k != kRat {
				xfail("%s: %s: math.IsInf of a non-rational", t.cur, t.pos(n))
			}
			return "false", kBool
		case "Ldexp":
			a, ka := t.expr(n.Args[0], e)
			b, kb := t.expr(n.Args[1], e)
			if ka != kRat || kb != kInt {
				xfail("%s: %s: math.Ldexp outside the subset", t.cur, t.pos(n))
			}
			return "(ldexp " + a + " " + b + ")", kRat
		case "Sqrt":
			a, k := t.expr(n.Args[0], e)
			if k != kRat {
				xfail("%s: %s: math.Sqrt of a non-rational", t.cur, t.pos(n))
			}
			return "(Len.sqrt " + a + ")", kLen
		case "Min", "Max":
			a, ka := t.expr(n.Args[0], e)
			b, kb := t.expr(n.Args[1], e)
			if ka == kRat && kb == kRat {
				return "(" + strings.ToLower(sel.Sel.Name) + " " + a + " " + b + ")", kRat
			}
			if ka != kOver || kb != kOver || divisor(n.Args[0], e) == "" || divisor(n.Args[0], e) != divisor(n.Args[1], e) {
				xfail("%s: %s: math.%s outside the subset (two quotients by the same length expected)", t.cur, t.pos(n), sel.Sel.Name)
			}
			return "(OverLen." + strings.ToLower(sel.Sel.Name) + " " + a + " " + b + ")", kOver
		}
		xfail("%s: %s: math.%s outside the subset", t.cur, t.pos(n), sel.Sel.Name)
	}
	fn, ok := n.Fun.(*ast.Ident)
	if !ok {
		xfail("%s: %s: call outside the subset", t.cur, t.pos(n))
	}
	var args []string
	var kinds []kind
	for _, a := range n.Args {
		if u, ok := a.(*ast.UnaryExpr); ok && u.Op == token.AND {
			if id, ok := u.X.(*ast.Ident); ok && t.dead[id.Name] {
				continue // address of a result-irrelevant variable
			}
			xfail("%s: %s: address-of outside the subset", t.cur, t.pos(n))
		}
		s, k := t.expr(a, e)
		args = append(args, s)
		kinds = append(kinds, k)
	}
	sig := t.sigs[fn.Name]
	if sig != nil && !sig.done && fn.Name == t.cur {
		// direct self-recursion: the function is emitted with a fuel argument
		t.rec[fn.Name] = true
		if len(sig.params) != len(kinds) {
			xfail("%s: %s: recursive call with %d arguments", t.cur, t.pos(n), len(kinds))
		}
		for i := range kinds {
			if kinds[i] != sig.params[i] {
				xfail("%s: %s: recursive call: argument %d has kind %v", t.cur, t.pos(n), i, kinds[i])
			}
		}
		return "(" + fn.Name + "F fuel " + strings.Join(args, " ") + ")", sig.ret
	}
	if sig == nil || !sig.done {
		// translate the callee now, with the argument kinds of this call site
		if t.decls[fn.Name] == nil {
			xfail("%s: %s: call of %s, which is not among the translated functions", t.cur, t.pos(n), fn.Name)
		}
		saveCur, saveDead, saveDiv := t.cur, t.dead, overDivisor
		t.fn(fn.Name, kinds)
		t.cur, t.dead, overDivisor = saveCur, saveDead, saveDiv
		sig = t.sigs[fn.Name]
	}
	if len(sig.params) != len(kinds) {
		xfail("%s: %s: call of %s with %d arguments", t.cur, t.pos(n), fn.Name, len(kinds))
	}
	for i := range kinds {
		if kinds[i] != sig.params[i] {
			xfail("%s: %s: call of %s: argument %d has kind %v, the function was translated for %v", t.cur, t.pos(n), fn.Name, i, kinds[i], sig.params[i])
		}
	}
	return "(" + fn.Name + " " + strings.Join(args, " ") + ")", sig.ret
}

// ---- dead (result-irrelevant) variables

func (t *translator) findDead(fd *ast.FuncDecl) map[string]bool {
	dead := map[string]bool{}
	for _, f := range fd.Type.Params.List {
		if _, ok := f.Type.(*ast.StarExpr); ok {
			for _, n := range f.Names {
				dead[n.Name] = true
			}
		}
	}
	ast.Inspect(fd.Body, func(n ast.Node) bool {
		switch s := n.(type) {
		case *ast.ReturnStmt:
			for i, r := range s.Results {
				if id, ok := r.(*ast.Ident); ok && i > 0 {
					dead[id.Name] = true
				}
			}
		case *ast.UnaryExpr:
			if id, ok := s.X.(*ast.Ident); ok && s.Op == token.AND {
				dead[id.Name] = true
			}
		}
		return true
	})
	// a name returned in first position somewhere is live
	ast.Inspect(fd.Body, func(n ast.Node) bool {
		if s, ok := n.(*ast.ReturnStmt); ok && len(s.Results) > 0 {
			if id, ok := s.Results[0].(*ast.Ident); ok {
				delete(dead, id.Name)
			}
		}
		return true
	})
	return dead
}

func rootIdent(x ast.Expr) string {
	switch n := x.(type) {
	case *ast.Ident:
		return n.Name
	case *ast.SelectorExpr:
		return rootIdent(n.X)
	case *ast.StarExpr:
		return rootIdent(n.X)
	case *ast.ParenExpr:
		return rootIdent(n.X)
	}
	return ""
}

// skippable: the statement only writes dead variables
func (t *translator) skippable(s ast.Stmt) bool {
	switch n := s.(type) {
	case *ast.AssignStmt:
		for _, l := range n.Lhs {
			if !t.dead[rootIdent(l)] {
				return false
			}
		}
		return true
	case *ast.IfStmt:
		if n.Init != nil {
			return false
		}
		for _, b := range n.Body.List {
			if !t.skippable(b) {
				return false
			}
		}
		switch el := n.Else.(type) {
		case nil:
		case *ast.BlockStmt:
			for _, b := range el.List {
				if !t.skippable(b) {
					return false
				}
			}
		case *ast.IfStmt:
			return t.skippable(el)
		}
		return true
	}
	return false
}

func (t *translator) stmts(ss []ast.Stmt, e xenv, ind string, ret *kind) string {
	for len(ss) > 0 && t.skippable(ss[0]) {
		ss = ss[1:]
	}
	if len(ss) == 0 {
		xfail("%s: control reaches the end of the function without a return", t.cur)
	}
	rest := ss[1:]
	switch n := ss[0].(type) {
	case *ast.ReturnStmt:
		if len(n.Results) == 0 {
			xfail("%s: bare return", t.cur)
		}
		s, k := t.expr(n.Results[0], e)
		if k == kProp {
			s, k = "decide ("+s+")", kBool
		}
		if k == kSurd && *ret == kLen {
			// a non-negative rational multiple of a length is a length
			s, k = "(Surd.toLen "+s+")", kLen
		}
		if k == kRat && *ret == kNat {
			// integer literal returned from a function whose result type is int
			s = strings.Replace(s, " : Rat)", " : Nat)", 1)
			k = kNat
		}
		if *ret != k {
			xfail("%s: %s: return of kind %v, expected %v", t.cur, t.pos(n), k, *ret)
		}
		return ind + s
	case *ast.AssignStmt:
		if name, arg, ok := frexpAssign(n); ok {
			v, k := t.expr(arg, e)
			if k != kRat {
				xfail("%s: %s: math.Frexp of a non-rational", t.cur, t.pos(n))
			}
			e2 := e.copy()
			e2[name] = binding{name, kInt}
			return ind + "let " + name + " := frexpExp " + v + "\n" + t.stmts(rest, e2, ind, ret)
		}
		if len(n.Lhs) != 1 || len(n.Rhs) != 1 || (n.Tok != token.DEFINE && n.Tok != token.ASSIGN) {
			xfail("%s: %s: assignment outside the subset", t.cur, t.pos(n))
		}
		id, ok := n.Lhs[0].(*ast.Ident)
		if !ok {
			xfail("%s: %s: assignment to a non-variable", t.cur, t.pos(n))
		}
		v, k := t.expr(n.Rhs[0], e)
		if k == kProp {
			v, k = "decide ("+v+")", kBool
		}
		if n.Tok == token.ASSIGN {
			old, ok := e[id.Name]
			if !ok || old.k != k {
				xfail("%s: %s: re-assignment of %s changes its kind", t.cur, t.pos(n), id.Name)
			}
		}
		if k == kOver {
			overDivisor[id.Name] = divisor(n.Rhs[0], e)
		}
		e2 := e.copy()
		e2[id.Name] = binding{id.Name, k}
		return ind + "let " + id.Name + " := " + v + "\n" + t.stmts(rest, e2, ind, ret)
	case *ast.IfStmt:
		if n.Init != nil {
			// `if x := e; c { … }`  ≡  `x := e; if c { … }` (x is fresh: := in an if header declares)
			as, ok := n.Init.(*ast.AssignStmt)
			if !ok || as.Tok != token.DEFINE {
				xfail("%s: %s: if with an init statement outside the subset", t.cur, t.pos(n))
			}
			for _, l := range as.Lhs {
				if id, ok := l.(*ast.Ident); ok {
					if _, bound := e[id.Name]; bound {
						xfail("%s: %s: if-init shadows %s", t.cur, t.pos(n), id.Name)
					}
				}
			}
			plain := *n
			plain.Init = nil
			return t.stmts(append([]ast.Stmt{as, &plain}, rest...), e, ind, ret)
		}
		c, k := t.expr(n.Cond, e)
		if k != kProp && k != kBool {
			xfail("%s: %s: condition is not boolean", t.cur, t.pos(n))
		}
		thenS := t.stmts(append(append([]ast.Stmt{}, n.Body.List...), rest...), e, ind+"  ", ret)
		var elseS string
		switch el := n.Else.(type) {
		case nil:
			elseS = t.stmts(rest, e, ind+"  ", ret)
		case *ast.BlockStmt:
			elseS = t.stmts(append(append([]ast.Stmt{}, el.List...), rest...), e, ind+"  ", ret)
		case *ast.IfStmt:
			elseS = t.stmts(append([]ast.Stmt{el}, rest...), e, ind+"  ", ret)
		}
		return ind + "if " + c + " then\n" + thenS + "\n" + ind + "else\n" + elseS
	}
	xfail("%s: %s: statement %T outside the subset", t.cur, t.pos(ss[0]), ss[0])
	return ""
}

func isIntLit(x ast.Expr) bool {
	l, ok := x.(*ast.BasicLit)
	return ok && l.Kind == token.INT
}

// frexpAssign recognises `_, e := math.Frexp(x)`
func frexpAssign(n *ast.AssignStmt) (string, ast.Expr, bool) {
	if n.Tok != token.DEFINE || len(n.Lhs) != 2 || len(n.Rhs) != 1 {
		return "", nil, false
	}
	b, ok1 := n.Lhs[0].(*ast.Ident)
	id, ok2 := n.Lhs[1].(*ast.Ident)
	c, ok3 := n.Rhs[0].(*ast.CallExpr)
	if !ok1 || !ok2 || !ok3 || b.Name != "_" || len(c.Args) != 1 {
		return "", nil, false
	}
	sel, ok := c.Fun.(*ast.SelectorExpr)
	if !ok || sel.Sel.Name != "Frexp" {
		return "", nil, false
	}
	if pk, ok := sel.X.(*ast.Ident); !ok || pk.Name != "math" {
		return "", nil, false
	}
	return id.Name, c.Args[0], true
}

var retKinds = map[string]kind{"pointSubtract": kPt, "dot": kRat, "norm": kLen, "d": kLen, "distPointToSegment": kLen,
	"lengthToOrigin": kLen, "findIntersection2": kNat, "findIntersection": kNat}

// fn translates one function; callKinds gives the kinds of float64 parameters (from a call site)
func (t *translator) fn(name string, callKinds []kind) {
	fd := t.decls[name]
	if fd == nil {
		xfail("function %s not found", name)
	}
	if s := t.sigs[name]; s != nil {
		if !s.done {
			xfail("%s: recursion outside the subset", name)
		}
		return
	}
	sig := &fnSig{}
	t.sigs[name] = sig
	t.cur = name
	t.dead = t.findDead(fd)
	overDivisor = map[string]string{}
	e := xenv{}
	var params []string
	idx := 0
	for _, f := range fd.Type.Params.List {
		var k kind
		isDead := false
		switch ty := f.Type.(type) {
		case *ast.Ident:
			switch ty.Name {
			case "Point":
				k = kPt
			case "segment":
				k = kSeg
			case "float64":
				k = kRat
			default:
				xfail("%s: parameter type %s outside the subset", name, ty.Name)
			}
		case *ast.StarExpr:
			isDead = true
		default:
			xfail("%s: parameter type outside the subset", name)
		}
		for _, n := range f.Names {
			if isDead {
				continue
			}
			kk := k
			if callKinds != nil {
				if idx >= len(callKinds) {
					xfail("%s: call site passes too few arguments", name)
				}
				kk = callKinds[idx]
			}
			idx++
			sig.params = append(sig.params, kk)
			e[n.Name] = binding{n.Name, kk}
			params = append(params, fmt.Sprintf("(%s : %s)", n.Name, kindName[kk]))
			if kk == kOver {
				overDivisor[n.Name] = "<param>"
			}
		}
	}
	rk, ok := retKinds[name]
	if !ok {
		xfail("%s: no result kind known", name)
	}
	sig.ret = rk
	body := t.stmts(fd.Body.List, e, "  ", &rk)
	sig.done = true
	if t.rec[name] {
		// self-recursive: structural recursion on a fuel argument; the entry point gives fuel 2
		// (`distPointToSegment` recurses once, on inputs rescaled into [1,2)); running out of fuel
		// yields a default value, and the tie lemmas state when that cannot happen
		var names []string
		for _, f := range fd.Type.Params.List {
			if _, ok := f.Type.(*ast.StarExpr); ok {
				continue
			}
			for _, n := range f.Names {
				names = append(names, n.Name)
			}
		}
		def := map[kind]string{kLen: "(Len.sqrt 0)", kRat: "(0 : Rat)", kNat: "(0 : Nat)", kBool: "false"}[rk]
		if def == "" {
			xfail("%s: recursive function with result kind %v", name, rk)
		}
		fmt.Fprintf(&t.out, "/-- %s (self-recursive: fuel) -/\ndef %sF (fuel : Nat) %s : %s :=\n  match fuel with\n  | 0 => %s\n  | fuel + 1 =>\n%s\n\n",
			t.pos(fd), name, strings.Join(params, " "), kindName[rk], def, indent(body))
		fmt.Fprintf(&t.out, "def %s %s : %s := %sF 2 %s\n\n", name, strings.Join(params, " "), kindName[rk], name, strings.Join(names, " "))
		return
	}
	fmt.Fprintf(&t.out, "/-- %s -/\ndef %s %s : %s :=\n%s\n\n", t.pos(fd), name, strings.Join(params, " "), kindName[rk], body)
}

func indent(s string) string {
	ls := strings.Split(s, "\n")
	for i := range ls {
		ls[i] = "  " + ls[i]
	}
	return strings.Join(ls, "\n")
}

func loadDecls(repo string, files []string) (*token.FileSet, map[string]*ast.FuncDecl, error) {
	fset := token.NewFileSet()
	decls := map[string]*ast.FuncDecl{}
	for _, fn := range files {
		f, err := parser.ParseFile(fset, filepath.Join(repo, fn), nil, 0)
		if err != nil {
			return nil, nil, err
		}
		for _, d := range f.Decls {
			if fd, ok := d.(*ast.FuncDecl); ok {
				key := fd.Name.Name
				if fd.Recv != nil && len(fd.Recv.List) == 1 {
					if id, ok := fd.Recv.List[0].Type.(*ast.Ident); ok {
						key = id.Name + "." + key
					}
				}
				decls[key] = fd
			}
		}
	}
	return fset, decls, nil
}

func extract(repo string) (out string, err error) {
	defer func() {
		if r := recover(); r != nil {
			if xe, ok := r.(xerr); ok {
				err = fmt.Errorf("%s", xe.msg)
				return
			}
			err = fmt.Errorf("%v", r)
		}
	}()
	fset, decls, lerr := loadDecls(repo, []string{"simplify.go", "intersection.go"})
	if lerr != nil {
		return "", lerr
	}
	t := &translator{fset: fset, decls: decls, sigs: map[string]*fnSig{}, calls: map[string][]kind{}, rec: map[string]bool{}}
	// callees are translated on demand (findIntersection2 gets its parameter kinds from its call
	// site in findIntersection); this order fixes the order of the output
	for _, name := range []string{"pointSubtract", "dot", "norm", "d", "distPointToSegment", "lengthToOrigin", "findIntersection"} {
		t.fn(name, nil)
	}
	if s := t.sigs["findIntersection2"]; s == nil || !s.done {
		return "", fmt.Errorf("findIntersection no longer calls findIntersection2")
	}
	return "import GeomV.C13.GenLib\n/-! GENERATED by `harness/cmd/c13 extract` from simplify.go and intersection.go of the tree under test.\nDo not edit; regenerated by every `bin/check C13` run (checks/C13.py pregen). -/\nset_option linter.unusedVariables false\nnamespace GeomV.C13.Gen\nopen GeomV GeomV.C13\n\n" +
		t.out.String() + "end GeomV.C13.Gen\n", nil
}

// ---- control skeleton of the functions with loops

var skeletonFuncs = []string{"simplifyCurve", "segMakesNotSimple", "LineString.Simplify", "MultiLineString.Simplify", "Polygon.Simplify", "MultiPolygon.Simplify"}

func skeleton(repo string) (string, error) {
	fset, decls, err := loadDecls(repo, []string{"simplify.go"})
	if err != nil {
		return "", err
	}
	var b strings.Builder
	for _, name := range skeletonFuncs {
		fd := decls[name]
		if fd == nil {
			return "", fmt.Errorf("simplify.go: function %s not found", name)
		}
		fd.Doc = nil
		var buf bytes.Buffer
		// the file was parsed without comments, so this is the code alone in gofmt layout
		if err := (&printer.Config{Mode: printer.UseSpaces | printer.TabIndent, Tabwidth: 8}).Fprint(&buf, fset, fd); err != nil {
			return "", err
		}
		fmt.Fprintf(&b, "== %s\n", name)
		b.WriteString(canonical(buf.Bytes()))
	}
	return b.String(), nil
}

// canonical re-tokenises a piece of Go source and lays it out one statement per line (a line ends
// after `{`, before and after `}`, and at every — possibly automatically inserted — semicolon), so
// that the skeleton does not depend on line breaks, blanks or comments of the source.
func canonical(src []byte) string {
	var sc scanner.Scanner
	fset := token.NewFileSet()
	sc.Init(fset.AddFile("", fset.Base(), len(src)), src, nil, 0)
	var b strings.Builder
	var line []string
	depth := 0
	flush := func() {
		if len(line) > 0 {
			b.WriteString(strings.Repeat("  ", depth) + strings.Join(line, " ") + "\n")
			line = nil
		}
	}
	for {
		_, tok, lit := sc.Scan()
		if tok == token.EOF {
			break
		}
		switch tok {
		case token.SEMICOLON:
			flush()
		case token.LBRACE:
			line = append(line, "{")
			flush()
			depth++
		case token.RBRACE:
			flush()
			depth--
			line = append(line, "}")
		default:
			if lit != "" {
				line = append(line, lit)
			} else {
				line = append(line, tok.String())
			}
		}
	}
	flush()
	return b.String()
}

func repoArg(args []string) string {
	repo := "/repo"
	for i := 0; i+1 < len(args); i++ {
		if args[i] == "--repo" {
			repo = args[i+1]
		}
	}
	return repo
}

func extractMain(args []string) {
	s, err := extract(repoArg(args))
	if err != nil {
		fmt.Fprintln(os.Stderr, "extract:", err)
		os.Exit(3)
	}
	fmt.Print(s)
}

func skeletonMain(args []string) {
	s, err := skeleton(repoArg(args))
	if err != nil {
		fmt.Fprintln(os.Stderr, "skeleton:", err)
		os.Exit(3)
	}
	fmt.Print(s)
}
