// Streaming probes for C05: wkb.Read behind scripted readers (the scripts of lean/GeomV/C05/Stream.lean),
// wkb.Write into writers that are not *bytes.Buffer, several values on one stream, foreign byte orders.
package main

import (
	"bufio"
	"bytes"
	"encoding/binary"
	"encoding/hex"
	"errors"
	"fmt"
	"io"
	"strconv"
	"strings"

	"github.com/ctessum/geom"
	ghex "github.com/ctessum/geom/encoding/hex"
	"github.com/ctessum/geom/encoding/wkb"

	"verif/harness/vproto"
)

// scriptErr is the reader's / writer's own error ("other (code)" of the Lean model).
type scriptErr struct{ code int }

func (e scriptErr) Error() string { return "script error " + strconv.Itoa(e.code) }

type ev struct {
	kind byte // 'd' data, 'D' data then error together with the last byte, 'f' fail
	data []byte
	err  error
}

// scriptReader plays a script: one event per Read call (a data event lasts until its bytes are used up).
// Semantics = GeomV.C05.Stream.fill (one Read call = one equation).
type scriptReader struct {
	evs       []ev
	delivered int
}

func (r *scriptReader) Read(p []byte) (int, error) {
	if len(r.evs) == 0 {
		return 0, io.EOF
	}
	e := &r.evs[0]
	switch e.kind {
	case 'd':
		n := copy(p, e.data)
		e.data = e.data[n:]
		if len(e.data) == 0 {
			r.evs = r.evs[1:]
		}
		r.delivered += n
		return n, nil
	case 'D':
		n := copy(p, e.data)
		e.data = e.data[n:]
		r.delivered += n
		if len(e.data) == 0 {
			// the error comes with the last byte.  io.ReadFull drops it when this call has filled p completely
			// (n >= min): it then stays pending until a call reports it alone; otherwise io.ReadFull reports it
			// now, and the reader goes on with its next event (an error is reported once: Retry.lean, fillR)
			err := e.err
			if n == len(p) {
				r.evs[0] = ev{kind: 'f', err: err}
			} else {
				r.evs = r.evs[1:]
			}
			return n, err
		}
		return n, nil
	default:
		err := e.err
		r.evs = r.evs[1:]
		return 0, err
	}
}

func parseErrTok(s string) error {
	if s == "eof" {
		return io.EOF
	}
	c, err := strconv.Atoi(s)
	if err != nil {
		panic("bad error token " + s)
	}
	return scriptErr{c}
}

func parseEvents(toks []string) []ev {
	var evs []ev
	for _, t := range toks {
		switch t[0] {
		case 'd':
			b, err := hex.DecodeString(t[1:])
			if err != nil {
				panic(err)
			}
			evs = append(evs, ev{kind: 'd', data: b})
		case 'D':
			i := strings.IndexByte(t, ':')
			b, err := hex.DecodeString(t[1:i])
			if err != nil {
				panic(err)
			}
			evs = append(evs, ev{kind: 'D', data: b, err: parseErrTok(t[i+1:])})
		case 'f':
			evs = append(evs, ev{kind: 'f', err: parseErrTok(t[1:])})
		default:
			panic("bad event " + t)
		}
	}
	return evs
}

func errClass(err error) string {
	var se scriptErr
	switch {
	case err == io.EOF || err == io.ErrUnexpectedEOF:
		return "err:eof"
	case errors.As(err, &se):
		return "err:io" + strconv.Itoa(se.code)
	default:
		return "err:wkb"
	}
}

// rdscript <n> <k> <geoms...> | <events...>: n+1 successive wkb.Read calls on ONE scripted reader, stopping at
// the first error; after every success the number of bytes the reader has handed out so far.
func implRdscript(p *vproto.Parser) string {
	n := p.Int()
	p.Int()
	for p.Next() != "|" {
	}
	rd := &scriptReader{evs: parseEvents(p.T[p.I:])}
	// the values are kept and printed only after the last call (a result that shares memory with a later
	// call's result or with the reader's buffers is seen changed)
	var kept []geom.Geom
	var at []int
	last := ""
	for i := 0; i <= n; i++ {
		g, err := wkb.Read(rd)
		if err != nil {
			last = errClass(err)
			break
		}
		kept = append(kept, g)
		at = append(at, rd.delivered)
	}
	var b strings.Builder
	for i, g := range kept {
		fmt.Fprintf(&b, "ok %s @%d ", vproto.GeomToks(g), at[i])
	}
	b.WriteString(last)
	return strings.TrimSpace(b.String())
}

// rdretry <cls> <geom> | <events...>: wkb.Read on a scripted reader that fails before or inside a first encoding and
// then delivers a complete one; wkb.Read is called a second time on the same reader.
func implRdretry(p *vproto.Parser) string {
	for p.Next() != "|" {
	}
	rd := &scriptReader{evs: parseEvents(p.T[p.I:])}
	var b strings.Builder
	if g, err := wkb.Read(rd); err != nil {
		b.WriteString(errClass(err))
	} else {
		fmt.Fprintf(&b, "ok %s", vproto.GeomToks(g))
	}
	b.WriteString(" then ")
	if g, err := wkb.Read(rd); err != nil {
		b.WriteString(errClass(err))
	} else {
		fmt.Fprintf(&b, "ok %s @%d", vproto.GeomToks(g), rd.delivered)
	}
	return b.String()
}

// decbatch <k> | <bo> <geom> ...: every value is encoded, all encodings are decoded (wkb.Decode and hex.Decode),
// the encodings are wiped, and only then are the decoded values read.
func implDecbatch(p *vproto.Parser) string {
	k := p.Int()
	var bufs [][]byte
	var hexes []string
	for j := 0; j < k; j++ {
		if p.Next() != "|" {
			panic("decbatch: separator expected")
		}
		o := bo(p.Next())
		g := p.Geom()
		buf, err := wkb.Encode(g, o)
		if err != nil {
			return "encerr"
		}
		bufs = append(bufs, append([]byte(nil), buf...))
		hexes = append(hexes, hex.EncodeToString(buf))
	}
	var kept, keptHex []geom.Geom
	for j := range bufs {
		g, err := wkb.Decode(bufs[j])
		if err != nil {
			return "decerr " + strconv.Itoa(j)
		}
		kept = append(kept, g)
		g, err = ghex.Decode(hexes[j])
		if err != nil {
			return "hexdecerr " + strconv.Itoa(j)
		}
		keptHex = append(keptHex, g)
	}
	for j := range bufs {
		for i := range bufs[j] {
			bufs[j][i] = 0xee
		}
	}
	var b strings.Builder
	b.WriteString("late")
	for j := range kept {
		fmt.Fprintf(&b, " ok %s @%d ok %s @%d", vproto.GeomToks(kept[j]), j, vproto.GeomToks(keptHex[j]), j)
	}
	return b.String()
}

// chunkWriter is an io.Writer that is not a *bytes.Buffer: it keeps every Write call's bytes in a chunk of its
// own (so the callee cannot rely on appending to one buffer), rejects everything beyond `limit` bytes
// (limit < 0: no limit) and remembers the slices it was given to see whether they are changed afterwards.
type chunkWriter struct {
	chunks [][]byte
	total  int
	limit  int
	calls  int
}

func (w *chunkWriter) Write(p []byte) (int, error) {
	w.calls++
	if w.limit >= 0 && w.total+len(p) > w.limit {
		n := w.limit - w.total
		w.chunks = append(w.chunks, append([]byte(nil), p[:n]...))
		w.total += n
		return n, scriptErr{9}
	}
	w.chunks = append(w.chunks, append([]byte(nil), p...))
	w.total += len(p)
	return len(p), nil
}

func (w *chunkWriter) bytes() []byte { return bytes.Join(w.chunks, nil) }

// seqwr <n> | <bo> <geom> | <bo> <geom> ...: the values are written one after the other to ONE chunkWriter
// (not a bytes.Buffer), then read back by n calls of wkb.Read on ONE reader delivering 7 bytes per call, then the
// same values once more through a bufio.Writer and a one-byte reader.
func implSeqwr(p *vproto.Parser) string {
	n := p.Int()
	w := &chunkWriter{limit: -1}
	var bb bytes.Buffer
	bw := bufio.NewWriterSize(&bb, 16)
	for i := 0; i < n; i++ {
		if p.Next() != "|" {
			panic("seqwr: separator expected")
		}
		o := bo(p.Next())
		g := p.Geom()
		if err := wkb.Write(w, o, g); err != nil {
			return "werr " + strconv.Itoa(i)
		}
		if err := wkb.Write(bw, o, g); err != nil {
			return "werr " + strconv.Itoa(i)
		}
	}
	bw.Flush()
	all := w.bytes()
	var b strings.Builder
	fmt.Fprintf(&b, "x%s", hex.EncodeToString(all))
	if bytes.Equal(all, bb.Bytes()) {
		b.WriteString(" same")
	} else {
		b.WriteString(" bufio-differs")
	}
	var evs []ev
	for i := 0; i < len(all); i += 7 {
		evs = append(evs, ev{kind: 'd', data: append([]byte(nil), all[i:min(i+7, len(all))]...)})
	}
	rd := &scriptReader{evs: evs}
	var kept []geom.Geom
	var at []int
	last := ""
	for i := 0; i < n; i++ {
		g, err := wkb.Read(rd)
		if err != nil {
			last = " " + errClass(err)
			break
		}
		kept = append(kept, g)
		at = append(at, rd.delivered)
	}
	for i, g := range kept { // read only now
		fmt.Fprintf(&b, " ok %s @%d", vproto.GeomToks(g), at[i])
	}
	return b.String() + last
}

// wrfail <limit> <bo> <geom>: wkb.Write into a writer that accepts `limit` bytes and then fails with its own error.
func implWrfail(p *vproto.Parser) string {
	limit := p.Int()
	o := bo(p.Next())
	g := p.Geom()
	w := &chunkWriter{limit: limit}
	err := wkb.Write(w, o, g)
	res := "ok"
	if err != nil {
		res = errClass(err)
	}
	return fmt.Sprintf("%s x%s", res, hex.EncodeToString(w.bytes()))
}

// foreignOrder is a binary.ByteOrder that is neither wkb.XDR nor wkb.NDR (it behaves as little endian).
type foreignOrder struct{ binary.ByteOrder }

// encbo <which> <geom>: Encode with a byte order value that is not one of the package's two.
func implEncbo(p *vproto.Parser) string {
	which := p.Next()
	g := p.Geom()
	var o binary.ByteOrder
	switch which {
	case "native":
		o = binary.NativeEndian
	case "wrapped":
		o = foreignOrder{binary.LittleEndian}
	case "nil":
		o = nil
	}
	buf, err := wkb.Encode(g, o)
	if err != nil {
		return "err"
	}
	return "ok " + hex.EncodeToString(buf) + "."
}

// decin <hex>: Decode must not change the buffer it is given, and decoding the same buffer twice gives the same value.
func implDecin(p *vproto.Parser) string {
	buf, err := hex.DecodeString(p.Next()[1:])
	if err != nil {
		panic(err)
	}
	if !plausible(buf) {
		return "skipped"
	}
	// the buffer is a window of a larger array with sentinels on both sides and spare capacity
	back := make([]byte, len(buf)+64)
	for i := range back {
		back[i] = 0xa5
	}
	in := back[16 : 16+len(buf) : 16+len(buf)+8]
	copy(in, buf)
	g1, err1 := wkb.Decode(in)
	state := "intact"
	if !bytes.Equal(in, buf) {
		state = "input-changed"
	}
	for i, b := range back {
		if (i < 16 || i >= 16+len(buf)) && b != 0xa5 {
			state = "sentinel-changed"
		}
	}
	g2, err2 := wkb.Decode(in)
	r1, r2 := result(g1, err1, ""), result(g2, err2, "")
	if r1 != r2 {
		state = "second-decode-differs"
	}
	// nil vs empty: every slice of a decoded value is non-nil (readPoints: make([]geom.Point, 0, …); the Multi*/
	// polygon/collection readers: []T{}), also for a count of 0 — reported apart (the property does not
	// distinguish nil from empty, so this is a correspondence observation, not a violation)
	if state == "intact" && err1 == nil {
		if at := nilAt(g1, "top"); at != "" {
			state = "intact-nil:" + at
		}
	}
	return state + " " + r1
}

// nilAt returns the path of the first nil slice inside a decoded value ("" if there is none).
func nilAt(g geom.Geom, path string) string {
	switch v := g.(type) {
	case geom.LineString:
		if v == nil {
			return path
		}
	case geom.MultiPoint:
		if v == nil {
			return path
		}
	case geom.Polygon:
		if v == nil {
			return path
		}
		for i, ring := range v {
			if ring == nil {
				return fmt.Sprintf("%s/ring%d", path, i)
			}
		}
	case geom.MultiLineString:
		if v == nil {
			return path
		}
		for i, l := range v {
			if l == nil {
				return fmt.Sprintf("%s/line%d", path, i)
			}
		}
	case geom.MultiPolygon:
		if v == nil {
			return path
		}
		for i, pg := range v {
			if at := nilAt(pg, fmt.Sprintf("%s/polygon%d", path, i)); at != "" {
				return at
			}
		}
	case geom.GeometryCollection:
		if v == nil {
			return path
		}
		for i, m := range v {
			if m == nil {
				return fmt.Sprintf("%s/member%d", path, i)
			}
			if at := nilAt(m, fmt.Sprintf("%s/member%d", path, i)); at != "" {
				return at
			}
		}
	}
	return ""
}

// bin <bo> <32 hex digits>: the encoding/binary primitives themselves (the tie of lean/GeomV/C05/BinStd.lean):
// order.Uint32/Uint64 of the first bytes, PutUint32/PutUint64 of those values, binary.Read of a geom.Point from
// the 16 bytes behind a one-byte reader, binary.Write of that point.
func implBin(p *vproto.Parser) string {
	o := bo(p.Next())
	b, err := hex.DecodeString(p.Next())
	if err != nil || len(b) != 16 {
		panic("bin: 16 bytes expected")
	}
	u32, u64 := o.Uint32(b[:4]), o.Uint64(b[:8])
	p32, p64 := make([]byte, 4), make([]byte, 8)
	o.PutUint32(p32, u32)
	o.PutUint64(p64, u64)
	var pt geom.Point
	if err := binary.Read(&scriptReader{evs: []ev{{kind: 'd', data: append([]byte(nil), b[:1]...)}, {kind: 'd', data: append([]byte(nil), b[1:]...)}}}, o, &pt); err != nil {
		return "readerr"
	}
	var w bytes.Buffer
	if err := binary.Write(&w, o, &pt); err != nil {
		return "writeerr"
	}
	var w32 bytes.Buffer
	binary.Write(&w32, o, u32)
	return fmt.Sprintf("%d %016x %x %x %s %s %x %x", u32, u64, p32, p64, vproto.F2H(pt.X), vproto.F2H(pt.Y), w.Bytes(), w32.Bytes())
}

func genStream(out *bufio.Writer, r *vproto.Rng, n int) {
	for i := 0; i < 60; i++ {
		var b [16]byte
		for j := range b {
			b[j] = byte(r.Intn(256))
			if i%7 == 0 && r.Intn(2) == 0 {
				b[j] = []byte{0, 0xff, 0x80, 0x7f}[r.Intn(4)]
			}
		}
		fmt.Fprintf(out, "bin %s %x\n", []string{"X", "N"}[i%2], b[:])
	}
	small := func() geom.Geom { return genGeom(r, 2) }
	// nil vs empty: values whose every member list is empty (count fields 0 at every level), both byte orders
	for _, g := range []geom.Geom{geom.LineString{}, geom.Polygon{}, geom.Polygon{{}}, geom.Polygon{{}, {}}, geom.MultiPoint{},
		geom.MultiLineString{}, geom.MultiLineString{{}}, geom.MultiPolygon{}, geom.MultiPolygon{{}}, geom.MultiPolygon{{{}}},
		geom.GeometryCollection{}, geom.GeometryCollection{geom.LineString{}, geom.GeometryCollection{}, geom.MultiPolygon{{{}}, {}}}} {
		for _, o := range []string{"X", "N"} {
			if buf, err := wkb.Encode(g, bo(o)); err == nil {
				fmt.Fprintf(out, "decin x%s\n", hex.EncodeToString(buf))
			}
		}
	}
	// several values on one stream behind scripted readers (cut and failed by the Lean prep stage from the
	// independent serializer's bytes)
	// a reader that fails before or inside one encoding and then delivers a complete one: wkb.Read twice (rdretry,
	// built by the Lean prep stage from the independent serializer's bytes)
	for i := 0; i < n/15; i++ {
		fmt.Fprintf(out, "rdretrymix %d %s %s\n", r.U64()%1000000007, vproto.GeomToks(small()), vproto.GeomToks(small()))
	}
	for i := 0; i < n/6; i++ {
		k := r.Range(1, 3)
		fmt.Fprintf(out, "rdmix %d %d", r.U64()%1000000007, k)
		for j := 0; j < k; j++ {
			fmt.Fprintf(out, " %s", vproto.GeomToks(small()))
		}
		fmt.Fprintln(out)
	}
	// long point lists behind scripted readers (chunked reading across many short reads)
	for _, k := range []int{1023, 1025, 2049} {
		ps := make([]geom.Point, k)
		for j := range ps {
			ps[j] = geom.Point{X: float64(j), Y: coord(r)}
		}
		for rep := 0; rep < 6; rep++ {
			fmt.Fprintf(out, "rdmix %d 2 %s %s\n", r.U64()%1000000007, vproto.GeomToks(geom.LineString(ps)), vproto.GeomToks(geom.Polygon{ps[:5], ps}))
		}
		// the same, truncated inside a later chunk of the point list, through Decode
		for rep := 0; rep < 4; rep++ {
			buf, err := wkb.Encode(geom.LineString(ps), bo([]string{"X", "N"}[rep%2]))
			if err == nil && len(buf) > 9+16*1024 {
				cutAt := 9 + 16*1024 + r.Intn(len(buf)-9-16*1024)
				fmt.Fprintf(out, "decin x%s\n", hex.EncodeToString(buf[:cutAt]))
			}
		}
	}
	for i := 0; i < n/15; i++ {
		k := r.Range(1, 4)
		fmt.Fprintf(out, "seqwr %d", k)
		for j := 0; j < k; j++ {
			fmt.Fprintf(out, " | %s %s", []string{"X", "N"}[r.Intn(2)], vproto.GeomToks(small()))
		}
		fmt.Fprintln(out)
	}
	for i := 0; i < n/15; i++ {
		k := r.Range(2, 5)
		fmt.Fprintf(out, "decbatch %d", k)
		same := r.Intn(3) == 0 // the same type and sizes several times (a result buffer reused by size or type)
		g0 := small()
		for j := 0; j < k; j++ {
			g := small()
			if same {
				g = reshuffle(r, g0)
			}
			fmt.Fprintf(out, " | %s %s", []string{"X", "N"}[r.Intn(2)], vproto.GeomToks(g))
		}
		fmt.Fprintln(out)
	}
	for i := 0; i < n/15; i++ {
		g := small()
		buf, err := wkb.Encode(g, wkb.NDR)
		if err != nil {
			continue
		}
		lim := r.Intn(len(buf) + 3)
		switch r.Intn(4) {
		case 0:
			lim = len(buf)
		case 1:
			lim = len(buf) - 1
		}
		fmt.Fprintf(out, "wrfail %d %s %s\n", lim, []string{"X", "N"}[r.Intn(2)], vproto.GeomToks(g))
	}
	// an unsupported value (top level; after supported members of a collection; nested): the bytes handed to the
	// writer before wkb.Write gives up — never failing writer (limit 100000) and writers failing before, at and after
	// the position of the unsupported member
	ub := &geom.Bounds{Min: geom.Point{X: 0, Y: 0}, Max: geom.Point{X: 1, Y: 1}}
	for i := 0; i < 24; i++ {
		var g geom.Geom
		switch i % 4 {
		case 0:
			g = ub
		case 1:
			g = geom.GeometryCollection{small(), ub, small()}
		case 2:
			g = geom.GeometryCollection{small(), geom.GeometryCollection{small(), ub}, small()}
		default:
			g = geom.GeometryCollection{nil, small()}
		}
		lim := 100000
		if i >= 8 {
			lim = r.Intn(80)
		}
		fmt.Fprintf(out, "wrfail %d %s %s\n", lim, []string{"X", "N"}[r.Intn(2)], vproto.GeomToks(g))
	}
	for i := 0; i < 12; i++ {
		fmt.Fprintf(out, "encbo %s %s\n", []string{"native", "wrapped", "nil"}[i%3], vproto.GeomToks(small()))
	}
	for i := 0; i < n/10; i++ {
		g := small()
		buf, err := wkb.Encode(g, bo([]string{"X", "N"}[i%2]))
		if err != nil || len(buf) > 4000 {
			continue
		}
		switch r.Intn(3) {
		case 0: // trailing bytes after a complete encoding
			buf = append(buf, byte(r.Intn(256)), byte(r.Intn(3)), 0, 0, 0)
		case 1:
			buf = buf[:r.Intn(len(buf))]
		}
		fmt.Fprintf(out, "decin x%s\n", hex.EncodeToString(buf))
	}
}

// reshuffle returns a value of the same type, nesting and sizes as g with fresh coordinates.
func reshuffle(r *vproto.Rng, g geom.Geom) geom.Geom {
	pt := func() geom.Point { return geom.Point{X: coord(r), Y: coord(r)} }
	path := func(p []geom.Point) []geom.Point {
		q := make([]geom.Point, len(p))
		for i := range q {
			q[i] = pt()
		}
		return q
	}
	paths := func(p []geom.Path) []geom.Path {
		q := make([]geom.Path, len(p))
		for i := range q {
			q[i] = path(p[i])
		}
		return q
	}
	switch v := g.(type) {
	case geom.Point:
		return pt()
	case geom.MultiPoint:
		return geom.MultiPoint(path(v))
	case geom.LineString:
		return geom.LineString(path(v))
	case geom.MultiLineString:
		q := make(geom.MultiLineString, len(v))
		for i := range q {
			q[i] = path(v[i])
		}
		return q
	case geom.Polygon:
		return geom.Polygon(paths(v))
	case geom.MultiPolygon:
		q := make(geom.MultiPolygon, len(v))
		for i := range q {
			q[i] = paths(v[i])
		}
		return q
	case geom.GeometryCollection:
		q := make(geom.GeometryCollection, len(v))
		for i := range q {
			q[i] = reshuffle(r, v[i])
		}
		return q
	}
	return g
}
