// Concurrent callers (generic probe (g)): the C05 operations are pure functions of their arguments, so N
// goroutines repeating one call on private deep copies, while M others hammer the same API on unrelated large
// inputs in both byte orders, must all get the answer the call gives when it runs alone — bit for bit.
package main

import (
	"bufio"
	"bytes"
	"encoding/binary"
	"encoding/hex"
	"fmt"
	"strings"
	"sync"
	"sync/atomic"

	"github.com/ctessum/geom"
	ghex "github.com/ctessum/geom/encoding/hex"
	"github.com/ctessum/geom/encoding/wkb"

	"verif/harness/vproto"
)

// ccAnswer runs every observation point of the property once on (o, g):
// x<Encode> h<hex.Encode> w<bytes Write handed to a non-Buffer writer> <intact|input-changed>
// ok <Decode> @0 ok <hex.Decode> @1 ok <Read behind a 5-bytes-per-call reader> @2
func ccAnswer(o binary.ByteOrder, g geom.Geom) (ans string) {
	defer func() {
		if r := recover(); r != nil {
			ans = fmt.Sprintf("panic %v", r)
		}
	}()
	before := vproto.GeomToks(g)
	var b strings.Builder
	buf, err := wkb.Encode(g, o)
	if err != nil {
		return "encerr"
	}
	s, err := ghex.Encode(g, o)
	if err != nil {
		return "hexencerr"
	}
	w := &chunkWriter{limit: -1}
	if err := wkb.Write(w, o, g); err != nil {
		return "writeerr"
	}
	g1, err1 := wkb.Decode(buf)
	g2, err2 := ghex.Decode(s)
	var evs []ev
	for i := 0; i < len(buf); i += 5 {
		evs = append(evs, ev{kind: 'd', data: buf[i:min(i+5, len(buf)):min(i+5, len(buf))]})
	}
	g3, err3 := wkb.Read(&scriptReader{evs: evs})
	state := "intact"
	if vproto.GeomToks(g) != before {
		state = "input-changed"
	}
	fmt.Fprintf(&b, "x%s h%s w%s %s", hex.EncodeToString(buf), s, hex.EncodeToString(w.bytes()), state)
	for i, r := range []struct {
		g   geom.Geom
		err error
	}{{g1, err1}, {g2, err2}, {g3, err3}} {
		if r.err != nil {
			fmt.Fprintf(&b, " %s @%d", errClass(r.err), i)
		} else {
			fmt.Fprintf(&b, " ok %s @%d", vproto.GeomToks(r.g), i)
		}
	}
	return b.String()
}

var (
	noiseOnce sync.Once
	noise     []geom.Geom
)

// unrelated inputs large enough for calls to overlap: long rings, many members, deep nesting
func noiseGeoms() []geom.Geom {
	noiseOnce.Do(func() {
		r := vproto.NewRng(99)
		ps := make([]geom.Point, 700)
		for i := range ps {
			ps[i] = geom.Point{X: float64(i), Y: coord(r)}
		}
		mp := make(geom.MultiPolygon, 40)
		for i := range mp {
			mp[i] = geom.Polygon{ps[i : i+9], ps[i+3 : i+7]}
		}
		mls := make(geom.MultiLineString, 30)
		for i := range mls {
			mls[i] = ps[2*i : 2*i+40]
		}
		noise = []geom.Geom{geom.LineString(ps), geom.Polygon{ps[:300], ps[300:400], ps[100:600]}, mp, mls,
			geom.MultiPoint(ps[:400]), geom.GeometryCollection{geom.LineString(ps[:500]), mp[:20], geom.GeometryCollection{mls[:15], ps[7]}}}
	})
	return noise
}

// cc <rounds> <bo> <geom>
func implCC(p *vproto.Parser) string {
	rounds := p.Int()
	o := bo(p.Next())
	start := p.I
	g := p.Geom()
	ref := ccAnswer(o, g) // alone
	if len(ref) < 1500 {
		rounds *= 4 // tiny values: the calls are short, more of them are needed to overlap
	}
	const callers, hammers = 8, 6
	var stop atomic.Bool
	var hw sync.WaitGroup
	ng := noiseGeoms()
	for h := 0; h < hammers; h++ {
		hw.Add(1)
		go func(h int) {
			defer hw.Done()
			defer func() { recover() }()
			for i := 0; !stop.Load(); i++ {
				x := ng[(h+i)%len(ng)]
				ord := []binary.ByteOrder{wkb.XDR, wkb.NDR}[(h+i)%2]
				switch (h + i) % 3 {
				case 0:
					if buf, err := wkb.Encode(x, ord); err == nil {
						wkb.Decode(buf)
					}
				case 1:
					if s, err := ghex.Encode(x, ord); err == nil {
						ghex.Decode(s)
					}
				default:
					var bb bytes.Buffer
					bw := bufio.NewWriter(&bb)
					if wkb.Write(bw, ord, x) == nil {
						bw.Flush()
						wkb.Read(bufio.NewReaderSize(&bb, 64))
					}
				}
			}
		}(h)
	}
	var first atomic.Pointer[string]
	var cw sync.WaitGroup
	for c := 0; c < callers; c++ {
		cw.Add(1)
		go func(c int) {
			defer cw.Done()
			mine := (&vproto.Parser{T: p.T, I: start}).Geom() // private deep copy
			for i := 0; i < rounds && first.Load() == nil; i++ {
				if a := ccAnswer(o, mine); a != ref {
					a += fmt.Sprintf(" deviation-in-caller-%d-round-%d", c, i)
					first.CompareAndSwap(nil, &a)
					return
				}
			}
		}(c)
	}
	cw.Wait()
	stop.Store(true)
	hw.Wait()
	if a := first.Load(); a != nil {
		return *a
	}
	return ref + " all-identical"
}

func genCC(out *bufio.Writer, r *vproto.Rng, tier string) {
	k := 60
	if tier == "thorough" {
		k = 400
	}
	for i := 0; i < k; i++ {
		var g geom.Geom
		rounds := 60
		switch i % 12 {
		case 0: // a long list (chunked reading, big buffers)
			n := []int{1025, 2049, 3000, 1500}[r.Intn(4)]
			ps := make([]geom.Point, n)
			for j := range ps {
				ps[j] = geom.Point{X: float64(j), Y: coord(r)}
			}
			g = []geom.Geom{geom.LineString(ps), geom.Polygon{ps[:n/2], ps[n/2:]}, geom.MultiPoint(ps[:n/3]), geom.MultiLineString{ps[:n/3], ps[n/3:]}}[r.Intn(4)]
			rounds = 2
		case 6: // many small members
			m := make(geom.MultiPolygon, 60)
			for j := range m {
				m[j] = geom.Polygon(ptss(r))
			}
			g = geom.GeometryCollection{m, genGeom(r, 2)}
			rounds = 4
		default:
			g = genGeom(r, 3)
		}
		fmt.Fprintf(out, "cc %d %s %s\n", rounds, []string{"X", "N"}[r.Intn(2)], vproto.GeomToks(g))
	}
}
