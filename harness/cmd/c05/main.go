// Harness for C05 (WKB/hex lossless and byte-exact). Subcommands:
//
//	gen --seed S --tier T   write case lines (inputs only)
//	impl                    read case lines, run the real code, append " => result"
package main

import (
	"bufio"
	"bytes"
	"encoding/binary"
	"encoding/hex"
	"fmt"
	"io"
	"math"
	"os"
	"testing/iotest"

	"github.com/ctessum/geom"
	ghex "github.com/ctessum/geom/encoding/hex"
	"github.com/ctessum/geom/encoding/wkb"

	"verif/harness/vproto"
)

func coord(r *vproto.Rng) float64 {
	switch r.Intn(12) {
	case 0:
		return math.Float64frombits(r.U64()) // arbitrary pattern (may be NaN with payload)
	case 1:
		return math.Float64frombits(0x7ff0000000000001 | r.U64()&0x000fffffffffffff) // NaN payloads (signalling or quiet)
	case 2:
		return math.Float64frombits(0xfff8000000000000 | r.U64()&0x0007ffffffffffff)
	case 3:
		return math.Copysign(0, -1)
	case 4:
		return 0
	case 5:
		return math.Inf(1 - 2*r.Intn(2))
	case 6:
		return math.Float64frombits(r.U64() & 0x000fffffffffffff) // subnormal
	case 7:
		return float64(r.Range(-1000, 1000))
	case 8:
		return math.MaxFloat64
	default:
		return (r.Float() - 0.5) * math.Pow(10, float64(r.Range(-5, 12)))
	}
}

func count(r *vproto.Rng, big bool) int {
	switch r.Intn(10) {
	case 0, 1:
		return 0
	case 2, 3, 4:
		return 1
	case 5, 6:
		return 2
	case 7:
		return 3
	case 8:
		if big {
			return []int{17, 255, 256, 257}[r.Intn(4)]
		}
		return 5
	default:
		return r.Range(0, 6)
	}
}

func pts(r *vproto.Rng, big bool) []geom.Point {
	n := count(r, big)
	p := make([]geom.Point, n)
	for i := range p {
		p[i] = geom.Point{X: coord(r), Y: coord(r)}
	}
	return p
}

func ptss(r *vproto.Rng) []geom.Path {
	n := count(r, false)
	p := make([]geom.Path, n)
	for i := range p {
		p[i] = pts(r, false)
	}
	return p
}

func genGeom(r *vproto.Rng, depth int) geom.Geom {
	k := r.Intn(8)
	if depth <= 0 && k == 6 {
		k = r.Intn(6)
	}
	switch k {
	case 0:
		return geom.Point{X: coord(r), Y: coord(r)}
	case 1:
		return geom.MultiPoint(pts(r, true))
	case 2:
		return geom.LineString(pts(r, true))
	case 3:
		n := count(r, false)
		m := make(geom.MultiLineString, n)
		for i := range m {
			m[i] = pts(r, false)
		}
		return m
	case 4:
		return geom.Polygon(ptss(r))
	case 5:
		n := count(r, false)
		m := make(geom.MultiPolygon, n)
		for i := range m {
			m[i] = ptss(r)
		}
		return m
	default:
		n := count(r, false)
		m := make(geom.GeometryCollection, n)
		for i := range m {
			m[i] = genGeom(r, depth-1)
		}
		return m
	}
}

func bo(s string) binary.ByteOrder {
	if s == "X" {
		return wkb.XDR
	}
	return wkb.NDR
}

const one = "3ff0000000000000 4000000000000000"
const two = "3ff0000000000000 4000000000000000 c008000000000000 8000000000000000"

func gen(seed uint64, tier string) {
	out := bufio.NewWriter(os.Stdout)
	defer out.Flush()
	r := vproto.NewRng(seed)
	n := 1500
	if tier == "thorough" {
		n = 15000
	}
	// fixed corpus first: one of each type, empties, deep nesting
	corpus := []geom.Geom{
		geom.Point{X: 1, Y: 2}, geom.MultiPoint{}, geom.LineString{}, geom.MultiLineString{{}, {}},
		geom.Polygon{{}}, geom.MultiPolygon{{}, {{}}}, geom.GeometryCollection{},
		geom.GeometryCollection{geom.GeometryCollection{geom.GeometryCollection{geom.Point{X: math.NaN(), Y: math.Copysign(0, -1)}}}},
	}
	emit := func(g geom.Geom, i int) {
		t := vproto.GeomToks(g)
		o := []string{"X", "N"}[i%2]
		fmt.Fprintf(out, "enc X %s\nenc N %s\n", t, t)
		fmt.Fprintf(out, "rt %s %s\n", o, t)
		fmt.Fprintf(out, "mix %d %s\n", r.U64()%1000000007, t)
		fmt.Fprintf(out, "hexrt %s %s\n", o, t)
	}
	for i, g := range corpus {
		emit(g, i)
	}
	// long point sequences around buffer/chunk sizes (readers that read count-prefixed arrays in
	// blocks must reassemble them exactly), stand-alone, as rings and nested
	sizes := []int{1023, 1024, 1025, 2049, 3000}
	if tier == "thorough" {
		sizes = append(sizes, 2047, 2048, 4095, 4096, 4097, 5000, 8193)
	}
	for i, n := range sizes {
		ps := make([]geom.Point, n)
		for j := range ps {
			ps[j] = geom.Point{X: float64(j), Y: coord(r)}
		}
		emit(geom.LineString(ps), i)
		emit(geom.Polygon{ps[:n/3], ps, ps[:7]}, i+1)
		emit(geom.GeometryCollection{geom.MultiLineString{ps[:5], ps}, geom.MultiPolygon{{ps}, {}}, geom.MultiPoint(ps)}, i)
	}
	{ // 16-bit count boundary: one round trip each (these lines are megabytes long); in the quick tier 65536 and
		// 65537 only — and every OTHER count field (rings, Multi* members, collection members) at 65536/65537 with
		// empty members, which costs a few bytes per member (own mutation q5: a count written through uint16)
		big := []int{65536, 65537}
		if tier == "thorough" {
			big = []int{65535, 65536, 65537}
		}
		for i, n := range big {
			ps := make([]geom.Point, n)
			for j := range ps {
				ps[j] = geom.Point{X: float64(j), Y: float64(j % 7)}
			}
			fmt.Fprintf(out, "rt N %s\n", vproto.GeomToks(geom.LineString(ps)))
			o := []string{"X", "N"}[i%2]
			fmt.Fprintf(out, "rt %s %s\n", o, vproto.GeomToks(geom.Polygon(make([]geom.Path, n))))
			fmt.Fprintf(out, "rt %s %s\n", o, vproto.GeomToks(geom.MultiLineString(make([]geom.LineString, n))))
			fmt.Fprintf(out, "rt %s %s\n", o, vproto.GeomToks(geom.MultiPolygon(make([]geom.Polygon, n))))
			gc := make(geom.GeometryCollection, n)
			for j := range gc {
				gc[j] = geom.MultiPoint{}
			}
			fmt.Fprintf(out, "rt %s %s\n", o, vproto.GeomToks(gc))
			if i == 0 {
				fmt.Fprintf(out, "rt %s %s\n", o, vproto.GeomToks(geom.MultiPoint(ps)))
			}
		}
	}
	// deep nesting ("at every nesting depth"): chains of collections far beyond the depth the grammar reaches, bare
	// and with siblings before and after the nested member at every level (own mutation r17: a recursion bound)
	for i, d := range []int{6, 7, 8, 9, 15, 16, 17, 24, 25, 31, 32, 33, 63, 64, 65, 100, 127, 128, 129, 255, 256, 257, 1000} {
		var bare geom.Geom = geom.Point{X: float64(d), Y: coord(r)}
		var sib geom.Geom = geom.LineString{{X: coord(r), Y: float64(d)}}
		for j := 0; j < d; j++ {
			bare = geom.GeometryCollection{bare}
			sib = geom.GeometryCollection{geom.Point{X: float64(j), Y: 1}, sib, geom.MultiPoint{{X: 2, Y: float64(j)}}}
		}
		emit(bare, i)
		emit(sib, i+1)
		fmt.Fprintf(out, "rdrt %s %s %s\n", []string{"one", "half", "dataerr", "buf"}[i%4], []string{"X", "N"}[i%2], vproto.GeomToks(sib))
	}
	// the hex path at text lengths around 2^16, 2^20 and 2^21 characters (2·(9+16n) for a line string of n points):
	// a bound or a scratch buffer on the text side is not reached by the binary lines above (own mutation r13)
	for i, n := range []int{2047, 2048, 32767, 32768, 65536} {
		ps := make([]geom.Point, n)
		for j := range ps {
			ps[j] = geom.Point{X: float64(j), Y: float64(j % 5)}
		}
		fmt.Fprintf(out, "hexrt %s %s\n", []string{"X", "N"}[i%2], vproto.GeomToks(geom.LineString(ps)))
	}
	// size thresholds at exactly one nesting level: 63..65, 127..130 (a 2 KiB / 4 KiB scratch buffer holds
	// 128 / 256 points), 255..257, 2047..2049 — as a line string, multipoint, ring, member of a Multi*, in a collection
	thr := []int{63, 64, 65, 127, 128, 129, 130, 255, 256, 257, 511, 512, 513}
	if tier == "thorough" {
		thr = append(thr, 2047, 2048, 2049, 4095, 4096, 4097)
	}
	for i, k := range thr {
		ps := make([]geom.Point, k)
		for j := range ps {
			ps[j] = geom.Point{X: float64(j), Y: coord(r)}
		}
		emit(geom.LineString(ps), i)
		emit(geom.MultiPoint(ps), i+1)
		emit(geom.Polygon{ps[:3], ps}, i)
		emit(geom.MultiLineString{ps, ps[:2]}, i+1)
		emit(geom.MultiPolygon{{ps[:4]}, {ps[:4], ps}}, i)
		emit(geom.GeometryCollection{geom.Point{X: 1, Y: 2}, geom.LineString(ps)}, i+1)
	}
	// shared-backing inputs, encoded twice, compared before/after, overwritten in place and encoded again
	genAlias(out, r, n/8)
	for i := 0; i < n; i++ {
		emit(genGeom(r, 4), i)
	}
	// nil slices at every level (Go distinguishes nil from empty; the encoding must not): written with
	// the token "nil" in place of a count so that the impl stage rebuilds them as nil
	for _, t := range []string{"LS nil", "MP nil", "PG nil", "PG 1 nil", "PG 3 2 " + two + " nil 1 " + one, "MLS 2 nil 1 " + one,
		"MPG 2 nil 1 nil", "GC 3 LS nil PG 1 nil MP nil", "GC 1 GC 2 MLS 1 nil P " + one} {
		for _, o := range []string{"X", "N"} {
			fmt.Fprintf(out, "enc %s %s\nrt %s %s\nhexrt %s %s\n", o, t, o, t, o, t)
		}
	}
	// batches: all encodings of a batch are produced first and read only afterwards, so a result
	// that aliases an internal buffer reused by a later call is seen (one line = one replayable history)
	nb := n / 30
	for i := 0; i < nb; i++ {
		k := r.Range(2, 6)
		fmt.Fprintf(out, "encbatch %d", k)
		for j := 0; j < k; j++ {
			fmt.Fprintf(out, " | %s %s", []string{"X", "N"}[r.Intn(2)], vproto.GeomToks(genGeom(r, 2)))
		}
		fmt.Fprintln(out)
	}
	// streaming entry point wkb.Read behind readers that return short reads / data together with EOF
	for i := 0; i < n/10; i++ {
		fmt.Fprintf(out, "rdrt %s %s %s\n", []string{"one", "half", "dataerr", "buf"}[i%4], []string{"X", "N"}[r.Intn(2)], vproto.GeomToks(genGeom(r, 3)))
	}
	// streaming: scripted readers, several values on one stream, writers that are not bytes.Buffer (stream.go)
	genStream(out, r, n)
	// concurrent callers of the (pure) operations (cc.go)
	genCC(out, r, tier)
	// histories: many rejected decodes, then a valid round trip in the same process (state that leaks on
	// error paths must not poison later calls); one line = one replayable history
	for _, bad := range []string{"x", "x02", "x0101", "x01ff000000", "x010700000001000000", "x0107000000020000000101000000000000000000f03f000000000000004001"} {
		fmt.Fprintf(out, "rejthen 12000 %s N GC 2 P %s GC 1 LS 1 %s\n", bad, one, one)
	}
	// histories with FAILED encodes/writes/decodes between valid calls (failthen.go)
	genFailthen(out, r, n/20)
	// unsupported values (at top level and nested)
	b := &geom.Bounds{Min: geom.Point{X: 0, Y: 0}, Max: geom.Point{X: 1, Y: 1}}
	for _, g := range []geom.Geom{b, geom.GeometryCollection{b}, geom.GeometryCollection{geom.Point{}, geom.GeometryCollection{b}}} {
		fmt.Fprintf(out, "enc N %s\nenc X %s\n", vproto.GeomToks(g), vproto.GeomToks(g))
	}
	// raw decodes: mutated valid encodings (the heavy malformed-input work is C07's)
	for i := 0; i < n/3; i++ {
		g := genGeom(r, 3)
		buf, err := wkb.Encode(g, bo([]string{"X", "N"}[i%2]))
		if err != nil || len(buf) == 0 || len(buf) > 4000 {
			continue
		}
		// Only truncations (and intact encodings): a flipped bit can turn payload bytes into a
		// count field and make the decoder allocate gigabytes, which is C07's subject.
		if r.Intn(4) != 0 {
			buf = buf[:r.Intn(len(buf))]
		}
		fmt.Fprintf(out, "dec x%s\n", hex.EncodeToString(buf))
	}
	// header bytes outside the OGC layout: a byte-order flag other than 0/1 and a type code other than 1..7,
	// at the top level and at the first nested element (counts are untouched, so nothing large is allocated)
	for i := 0; i < 12; i++ {
		g := genGeom(r, 2)
		o := []string{"X", "N"}[i%2]
		buf, err := wkb.Encode(g, bo(o))
		if err != nil || len(buf) > 4000 {
			continue
		}
		for _, at := range []int{0, 9} { // 9 = flag of the first member of a Multi*/collection
			if at+5 > len(buf) {
				continue
			}
			switch g.(type) {
			case geom.Point, geom.LineString, geom.Polygon:
				if at != 0 {
					continue
				}
			}
			for _, fl := range []byte{2, 3, 0x80, 0xff} {
				b := append([]byte{}, buf...)
				b[at] = fl
				fmt.Fprintf(out, "dec x%s\n", hex.EncodeToString(b))
			}
			for _, code := range []uint32{0, 8, 15, 16, 17, 1000, 0x01000000, 0x80000001} {
				b := append([]byte{}, buf...)
				bo(o).PutUint32(b[at+1:], code)
				fmt.Fprintf(out, "dec x%s\n", hex.EncodeToString(b))
			}
		}
	}
}

func result(g geom.Geom, err error, pan string) string {
	if pan != "" {
		return "panic " + pan
	}
	if err != nil {
		return "err"
	}
	return "ok " + vproto.GeomToks(g)
}

// safeDecode refuses inputs whose count fields could make the unfixed decoder allocate
// more than a few MiB (that hazard is C07's subject, not C05's).
func plausible(buf []byte) bool { return len(buf) < 1<<20 }

func impl() {
	vproto.Lines(func(line string, out *bufio.Writer) {
		p := vproto.NewParser(line)
		kind := p.Next()
		var res string
		pan := vproto.Safe(func() {
			switch kind {
			case "enc":
				o := bo(p.Next())
				g := p.Geom()
				buf, err := wkb.Encode(g, o)
				if err != nil {
					res = "err"
				} else {
					res = "ok " + hex.EncodeToString(buf) + "."
				}
			case "encbatch":
				k := p.Int()
				kept := make([][]byte, 0, k)
				hexes := make([]string, 0, k)
				for j := 0; j < k; j++ {
					if p.Next() != "|" {
						panic("encbatch: separator expected")
					}
					o := bo(p.Next())
					g := p.Geom()
					buf, err := wkb.Encode(g, o)
					if err != nil {
						buf = nil
					}
					kept = append(kept, buf)
					s, err := ghex.Encode(g, o)
					if err != nil {
						s = "!"
					}
					hexes = append(hexes, s)
				}
				res = "late"
				for j := range kept { // read only now, after every later call has happened
					res += " " + "x" + hex.EncodeToString(kept[j]) + " h" + hexes[j]
				}
			case "alias":
				res = implAlias(p)
			case "rdscript":
				res = implRdscript(p)
			case "rdretry":
				res = implRdretry(p)
			case "seqwr":
				res = implSeqwr(p)
			case "wrfail":
				res = implWrfail(p)
			case "encbo":
				res = implEncbo(p)
			case "decin":
				res = implDecin(p)
			case "decbatch":
				res = implDecbatch(p)
			case "cc":
				res = implCC(p)
			case "failthen":
				res = implFailthen(p)
			case "bin":
				res = implBin(p)
			case "rdrt":
				kind := p.Next()
				o := bo(p.Next())
				g := p.Geom()
				buf, err := wkb.Encode(g, o)
				if err != nil {
					res = "encerr"
					return
				}
				var rd io.Reader = bytes.NewReader(buf)
				switch kind {
				case "one":
					rd = iotest.OneByteReader(rd)
				case "half":
					rd = iotest.HalfReader(rd)
				case "dataerr":
					rd = iotest.DataErrReader(rd)
				case "buf":
					rd = bufio.NewReaderSize(rd, 16)
				}
				g2, err := wkb.Read(rd)
				res = result(g2, err, "")
			case "rejthen":
				k := p.Int()
				bad, err := hex.DecodeString(p.Next()[1:])
				if err != nil {
					panic(err)
				}
				rejected := 0
				for j := 0; j < k; j++ {
					if _, err := wkb.Decode(bad); err != nil {
						rejected++
					}
				}
				o := bo(p.Next())
				g := p.Geom()
				buf, err := wkb.Encode(g, o)
				if err != nil {
					res = "encerr"
					return
				}
				g2, err := wkb.Decode(buf)
				res = fmt.Sprintf("rejected %d ", rejected) + result(g2, err, "")
			case "rt":
				o := bo(p.Next())
				g := p.Geom()
				buf, err := wkb.Encode(g, o)
				if err != nil {
					res = "encerr"
					return
				}
				g2, err := wkb.Decode(buf)
				res = result(g2, err, "")
			case "hexrt":
				o := bo(p.Next())
				g := p.Geom()
				s, err := ghex.Encode(g, o)
				if err != nil {
					res = "encerr"
					return
				}
				g2, err := ghex.Decode(s)
				res = "hex " + s + ". " + result(g2, err, "")
			case "mdec":
				for p.Next() != "|" {
				}
				buf, err := hex.DecodeString(p.Next())
				if err != nil {
					panic(err)
				}
				g2, err := wkb.Decode(buf)
				res = result(g2, err, "")
			case "dec":
				buf, err := hex.DecodeString(p.Next()[1:])
				if err != nil {
					panic(err)
				}
				if !plausible(buf) {
					res = "skipped"
					return
				}
				g2, err := wkb.Decode(buf)
				res = result(g2, err, "")
			default:
				res = "badline"
			}
		})
		if pan != "" {
			res = "panic " + pan
		}
		fmt.Fprintf(out, "%s => %s\n", line, res)
	})
}

func main() {
	if len(os.Args) < 2 {
		fmt.Fprintln(os.Stderr, "usage: c05 gen|impl|extract")
		os.Exit(2)
	}
	switch os.Args[1] {
	case "gen":
		seed, tier := vproto.SeedTier(os.Args[2:])
		gen(seed, tier)
	case "impl":
		impl()
	case "extract": // T1: print lean/GeomV/C05/Gen.lean for the tree at --repo (see extract.go)
		repo := "/repo"
		for i := 2; i+1 < len(os.Args); i++ {
			if os.Args[i] == "--repo" {
				repo = os.Args[i+1]
			}
		}
		os.Exit(extract(repo))
	}
}
