package main

// failthen lines: histories in which FAILED calls (Encode / hex.Encode / Write of a value with an unsupported
// member somewhere after supported ones, so that part of the output has already been produced; Write to a writer
// that fails half way; Decode of a truncated encoding) are interleaved with calls on valid values.  Whatever a
// failed call leaves behind (pooled scratch buffers that were not reset, counters, caches) must not show in the
// answers of the later calls.  One line = one replayable history; every answer is formatted only after the last call.

import (
	"bufio"
	"encoding/hex"
	"fmt"
	"strings"

	"github.com/ctessum/geom"
	ghex "github.com/ctessum/geom/encoding/hex"
	"github.com/ctessum/geom/encoding/wkb"

	"verif/harness/vproto"
)

// failthen <rep> | <bo> <geom> | <bo> <geom> ...
func implFailthen(p *vproto.Parser) string {
	rep := p.Int()
	type ans struct {
		enc    []byte
		encErr bool
		hx     string
		hxErr  bool
		w      []byte
		wErr   bool
		dec    geom.Geom
		decSt  string
	}
	var all []ans
	for p.Peek() == "|" {
		p.Next()
		o := bo(p.Next())
		g := p.Geom()
		var a ans
		buf, err := wkb.Encode(g, o)
		for j := 1; j < rep && err != nil; j++ { // the failing call, repeated
			buf, err = wkb.Encode(g, o)
		}
		a.enc, a.encErr = buf, err != nil
		s, err := ghex.Encode(g, o)
		a.hx, a.hxErr = s, err != nil
		if len(buf) > 1 { // a Write that fails because its writer does, half way
			_ = wkb.Write(&chunkWriter{limit: len(buf) / 2}, o, g)
		}
		cw := &chunkWriter{limit: -1}
		err = wkb.Write(cw, o, g)
		a.w, a.wErr = cw.bytes(), err != nil
		a.decSt = "none"
		if !a.encErr {
			if len(buf) > 0 {
				_, _ = wkb.Decode(buf[:len(buf)-1]) // a failing Decode in between
			}
			g2, err := wkb.Decode(buf)
			if err != nil {
				a.decSt = "err"
			} else {
				a.decSt, a.dec = "ok", g2
			}
		}
		all = append(all, a)
	}
	var b strings.Builder
	b.WriteString("late")
	for j, a := range all {
		x, h, w := "x"+hex.EncodeToString(a.enc), "h"+a.hx, "w"+hex.EncodeToString(a.w)
		if a.encErr {
			x = "x!"
		}
		if a.hxErr {
			h = "h!"
		}
		if a.wErr {
			w = "w!"
		}
		fmt.Fprintf(&b, " %s %s %s %s", x, h, w, a.decSt)
		if a.decSt == "ok" {
			b.WriteString(" " + vproto.GeomToks(a.dec))
		}
		fmt.Fprintf(&b, " @%d", j)
	}
	return b.String()
}

// unsupportedValue builds a value that wkb rejects only after it has produced some output: the unsupported
// member (a *geom.Bounds or a nil member) comes after supported members, possibly nested, possibly after a long one.
func unsupportedValue(r *vproto.Rng) geom.Geom {
	var bad geom.Geom = &geom.Bounds{Min: geom.Point{X: coord(r), Y: 0}, Max: geom.Point{X: 1, Y: coord(r)}}
	if r.Intn(3) == 0 {
		bad = nil
	}
	small := func() geom.Geom { return genGeom(r, 1) }
	switch r.Intn(6) {
	case 0:
		if bad == nil {
			return geom.GeometryCollection{small(), nil}
		}
		return bad // rejected at once (only the flag byte may have been produced)
	case 1:
		gc := geom.GeometryCollection{}
		for i, k := 0, r.Range(1, 4); i < k; i++ {
			gc = append(gc, small())
		}
		return append(gc, bad)
	case 2:
		return geom.GeometryCollection{small(), geom.GeometryCollection{small(), bad}, small()}
	case 3:
		return geom.GeometryCollection{geom.Point{X: 7, Y: 8}, bad, small()}
	case 4:
		ps := make([]geom.Point, r.Range(100, 400))
		for i := range ps {
			ps[i] = geom.Point{X: float64(i), Y: coord(r)}
		}
		return geom.GeometryCollection{geom.LineString(ps), geom.MultiPoint(ps[:50]), bad}
	default:
		return geom.GeometryCollection{geom.GeometryCollection{geom.GeometryCollection{small(), bad}}}
	}
}

func genFailthen(out *bufio.Writer, r *vproto.Rng, n int) {
	ord := func() string { return []string{"X", "N"}[r.Intn(2)] }
	// the shortest history first: one failed call, one valid call
	fmt.Fprintf(out, "failthen 1 | N %s | N P %s\n", vproto.GeomToks(geom.GeometryCollection{geom.Point{X: 7, Y: 8}, nil}), one)
	fmt.Fprintf(out, "failthen 3 | X %s | X LS 2 %s | N GC 0\n",
		vproto.GeomToks(geom.GeometryCollection{geom.Point{X: 7, Y: 8}, &geom.Bounds{}}), two)
	for i := 0; i < n; i++ {
		k := r.Range(2, 7)
		var ms []geom.Geom
		failed, pair := false, false
		for j := 0; j < k; j++ {
			if r.Intn(5) < 2 {
				ms = append(ms, unsupportedValue(r))
				failed = true
			} else {
				ms = append(ms, genGeom(r, 2))
				pair = pair || failed
			}
		}
		if !pair {
			ms = append(ms, unsupportedValue(r), genGeom(r, 2))
		}
		fmt.Fprintf(out, "failthen %d", []int{1, 1, 2, 5}[r.Intn(4)])
		for _, g := range ms {
			fmt.Fprintf(out, " | %s %s", ord(), vproto.GeomToks(g))
		}
		fmt.Fprintln(out)
	}
}
