package main

// T1 tie for C05: regenerate Lean definitions of encoding/wkb and encoding/hex from the Go source of the
// tree under test.  `c05 extract --repo DIR` prints the module GeomV.C05.Gen; lean/GeomV/C05/Tie.lean
// proves every regenerated definition equal to the hand-written model, so a source change either
// still denotes the model the C05 theorems are about, or breaks an obligation that names the function.
//
// Every reader function is translated a second time with the io.Reader as any byte source (stream mode, names
// ending in S, GenLibS.lean, TieGenS.lean) and every writer function a second time with the io.Writer as any
// writer state machine, one put per binary.Write, errors carrying the writer state (sink mode, names ending in
// W, GenLibW.lean, TieSink.lean) — the Go text and the translator are the same, only the vocabulary differs.
//
// The translation is statement by statement into `do` blocks of `Except Err` over the vocabulary of
// lean/GeomV/C05/GenLib.lean (which documents the meaning given to io.Reader/io.Writer, encoding/binary,
// uint32 arithmetic, loops, maps and the Read/Write recursion).  Subset:
//
//	var x T                                              (declares; no value until assigned)
//	x := e / x = e / x -= e / x += e                     let x := e'
//	xs = append(xs, v) / append(xs, ys...)               let xs := xs ++ [v] / xs ++ ys
//	if err := CALL; err != nil { return …, err }         let … ← CALL'
//	x, err := CALL; if err != nil { return …, err }      let (x, bs) ← CALL'
//	if x, err := CALL; err != nil { return …, err } else { A }     let (x, bs) ← CALL'; A
//	if x, err := CALL; err == nil { A } else { return …, err }     let (x, bs) ← CALL'; A
//	v, ok := g.(geom.T); if !ok { return nil, &UnexpectedGeometryError{g} }    let v ← asT g
//	if f, ok := m[k]; ok { A } else { B }                match mapGet m k with | some f => A | none => B
//	switch x { case c: v = e … default: return error }   let v ← if x = c then pure e … else throw
//	switch g.(type) { case geom.T: v = e … }             let v ← match g with | .t _ => pure e … | _ => …
//	switch g.(type) { case geom.T: return f(w, o, g.(geom.T)) … default: return error }   match g with …
//	for i := uint32(0); i < n; i++ { A }                 loopN n state (fun state => do A; pure state)
//	for _, x := range xs { A }                           forRange xs state (fun x state => do A; pure state)
//	for x := e; cond; { A }                              whileLoop loopBudget cond state (fun state => …)
//	return e, nil / return nil / return CALL / return …, <error value>
//	pure helpers: if c { return e } … return e
//
// CALL is binary.Read(r, order, &x), binary.Write(w, order, e), or a function of the two packages.
// `state` is the tuple of the variables assigned in the loop body (declared outside it) plus the
// reader/writer.  Everything else — another statement form, an unknown callee, a package-level variable,
// a method, a changed signature — is reported as `<function>: <reason>`, the function's definition is
// replaced by a declaration that does not elaborate, and the exit status is 3.

import (
	"bytes"
	"fmt"
	"go/ast"
	"go/parser"
	"go/printer"
	"go/token"
	"os"
	"path/filepath"
	"sort"
	"strconv"
	"strings"
)

type untr struct{ msg string }

func fail(f string, a ...interface{}) { panic(untr{fmt.Sprintf(f, a...)}) }

var fset = token.NewFileSet()

func show(n interface{}) string {
	var b bytes.Buffer
	printer.Fprint(&b, fset, n)
	s := strings.Join(strings.Fields(b.String()), " ")
	if len(s) > 90 {
		s = s[:90] + "…"
	}
	return s
}

// ---- Go types (as written) and their Lean counterparts

const ptT = "Pt UInt64"

var leanType = map[string]string{
	"uint8": "Nat", "uint32": "Nat",
	"geom.Point":   ptT,
	"[]geom.Point": "List (" + ptT + ")", "geom.LineString": "List (" + ptT + ")", "geom.Path": "List (" + ptT + ")",
	"geom.MultiPoint": "List (" + ptT + ")",
	"[]geom.Path":     "List (List (" + ptT + "))", "geom.Polygon": "List (List (" + ptT + "))",
	"[]geom.LineString": "List (List (" + ptT + "))", "geom.MultiLineString": "List (List (" + ptT + "))",
	"[]geom.Polygon": "List (List (List (" + ptT + ")))", "geom.MultiPolygon": "List (List (List (" + ptT + ")))",
	"[]geom.Geom": "List BGeom", "geom.GeometryCollection": "List BGeom",
	"geom.Geom": "BGeom", "binary.ByteOrder": "BO", "[]byte": "Bytes", "string": "List Char",
	"*bytes.Buffer": "Bytes", "io.Writer": "Bytes", "io.Reader": "Bytes",
}

var elemType = map[string]string{
	"[]geom.Point": "geom.Point", "geom.LineString": "geom.Point", "geom.Path": "geom.Point", "geom.MultiPoint": "geom.Point",
	"[]geom.Path": "geom.Path", "geom.Polygon": "geom.Path", "[]geom.LineString": "geom.LineString",
	"geom.MultiLineString": "geom.LineString", "[]geom.Polygon": "geom.Polygon", "geom.MultiPolygon": "geom.Polygon",
	"[]geom.Geom": "geom.Geom", "geom.GeometryCollection": "geom.Geom",
}

// constructor of Geom for a concrete geom type, and the number of its fields
var ctor = map[string]string{
	"geom.Point": "point", "geom.LineString": "lineString", "geom.Polygon": "polygon", "geom.MultiPoint": "multiPoint",
	"geom.MultiLineString": "multiLineString", "geom.MultiPolygon": "multiPolygon", "geom.GeometryCollection": "collection",
	"*geom.Bounds": "bounds",
}

var asFn = map[string]string{"geom.Point": "asPoint", "geom.LineString": "asLine", "geom.Polygon": "asPoly", "geom.Geom": "asGeom"}

var leanKeywords = map[string]bool{"at": true, "from": true, "end": true, "open": true, "in": true, "do": true, "then": true,
	"fun": true, "let": true, "have": true, "show": true, "with": true, "match": true, "if": true, "else": true, "def": true,
	"theorem": true, "where": true, "bs": true, "Read": true, "Write": true, "instance": true, "class": true, "structure": true,
	"namespace": true, "section": true, "variable": true, "universe": true, "import": true, "mutual": true, "by": true,
	"using": true, "deriving": true, "inductive": true, "Type": true, "Prop": true, "Sort": true, "return": true, "for": true,
	"unless": true, "try": true, "catch": true, "finally": true, "mut": true, "pure": true, "throw": true}

func lt(goType string) string {
	if l, ok := leanType[goType]; ok {
		return l
	}
	fail("type %s has no Lean counterpart", goType)
	return ""
}

// ---- package model

type param struct{ name, typ string }

type fn struct {
	pkg, name, lean, file string
	decl                  *ast.FuncDecl
	params                []param
	results               []string
	kind                  string // "reader" (r io.Reader first, (T, error)), "writer" (w io.Writer first, error), "plain" ((T, error)), "pure" (T)
	refs                  map[string]bool
	needRead, needWrite   bool
	text, err             string
	stext, serr           string // the streaming translation of a reader function (and why there is none)
	wtext, werr           string // the call-by-call translation of a writer function (and why there is none)
}

type mapEntry struct {
	key ast.Expr
	val string
}

type world struct {
	funcs    map[string]*fn // key: lean name
	consts   map[string]string
	corder   []string
	bovars   map[string]string // XDR → BO.xdr
	bvorder  []string
	mapName  string
	mapElems []mapEntry
	initErr  string
	pkgVars  map[string]string // other package-level variables: name → file
	methods  []string
	unreach  []string
}

func leanName(pkg, name string) string {
	if pkg == "hex" {
		return "hex_" + name
	}
	return name
}

func typeStr(e ast.Expr) string {
	var b bytes.Buffer
	printer.Fprint(&b, fset, e)
	return b.String()
}

func constVal(e ast.Expr, w *world) (int64, bool) {
	switch t := e.(type) {
	case *ast.BasicLit:
		if t.Kind == token.INT {
			v, err := strconv.ParseInt(t.Value, 0, 64)
			return v, err == nil
		}
	case *ast.ParenExpr:
		return constVal(t.X, w)
	case *ast.Ident:
		if s, ok := w.consts[t.Name]; ok {
			v, err := strconv.ParseInt(s, 10, 64)
			return v, err == nil
		}
	case *ast.BinaryExpr:
		a, ok1 := constVal(t.X, w)
		b, ok2 := constVal(t.Y, w)
		if ok1 && ok2 {
			switch t.Op {
			case token.ADD:
				return a + b, true
			case token.SUB:
				return a - b, true
			case token.MUL:
				return a * b, true
			case token.SHL:
				return a << uint(b), true
			}
		}
	}
	return 0, false
}

func load(repo string) *world {
	w := &world{funcs: map[string]*fn{}, consts: map[string]string{}, bovars: map[string]string{}, pkgVars: map[string]string{}}
	var files []string
	wk, _ := filepath.Glob(filepath.Join(repo, "encoding", "wkb", "*.go"))
	sort.Strings(wk)
	for _, f := range wk {
		if !strings.HasSuffix(f, "_test.go") {
			files = append(files, f)
		}
	}
	hx, _ := filepath.Glob(filepath.Join(repo, "encoding", "hex", "*.go"))
	sort.Strings(hx)
	for _, f := range hx {
		if !strings.HasSuffix(f, "_test.go") {
			files = append(files, f)
		}
	}
	if len(files) < 2 {
		fmt.Fprintln(os.Stderr, "no sources under", repo)
		os.Exit(2)
	}
	for _, path := range files {
		af, err := parser.ParseFile(fset, path, nil, 0)
		if err != nil {
			fmt.Fprintln(os.Stderr, err)
			os.Exit(2)
		}
		pkg := af.Name.Name
		short := "encoding/" + pkg + "/" + filepath.Base(path)
		if tags := buildTagged(path); tags {
			continue // files under a build tag (hooks) are not part of the default build
		}
		for _, d := range af.Decls {
			switch t := d.(type) {
			case *ast.FuncDecl:
				if t.Recv != nil {
					if t.Name.Name != "Error" {
						w.methods = append(w.methods, short+": method "+t.Name.Name)
					}
					continue
				}
				if t.Name.Name == "init" {
					w.readInit(t, short)
					continue
				}
				f := &fn{pkg: pkg, name: t.Name.Name, lean: leanName(pkg, t.Name.Name), file: short, decl: t, refs: map[string]bool{}}
				w.funcs[f.lean] = f
			case *ast.GenDecl:
				if t.Tok == token.CONST {
					for _, s := range t.Specs {
						vs := s.(*ast.ValueSpec)
						for i, n := range vs.Names {
							if i < len(vs.Values) {
								if v, ok := constVal(vs.Values[i], w); ok && pkg == "wkb" {
									w.consts[n.Name] = strconv.FormatInt(v, 10)
									w.corder = append(w.corder, n.Name)
									continue
								}
							}
							w.pkgVars[n.Name] = short + " (constant that is not an integer literal)"
						}
					}
				}
				if t.Tok == token.VAR {
					for _, s := range t.Specs {
						vs := s.(*ast.ValueSpec)
						for i, n := range vs.Names {
							if i < len(vs.Values) && pkg == "wkb" {
								switch typeStr(vs.Values[i]) {
								case "binary.BigEndian":
									w.bovars[n.Name] = "BO.xdr"
									w.bvorder = append(w.bvorder, n.Name)
									continue
								case "binary.LittleEndian":
									w.bovars[n.Name] = "BO.ndr"
									w.bvorder = append(w.bvorder, n.Name)
									continue
								}
							}
							if vs.Type != nil && strings.HasPrefix(typeStr(vs.Type), "map[uint32]") && len(vs.Values) == 0 && pkg == "wkb" && w.mapName == "" {
								w.mapName = n.Name
								continue
							}
							w.pkgVars[n.Name] = short
						}
					}
				}
			}
		}
	}
	return w
}

// files that are only compiled under the tag `verif` (add-only instrumentation hooks) are not part of the
// package as its users build it; every other build constraint is ignored (the file is translated)
func buildTagged(path string) bool {
	b, err := os.ReadFile(path)
	if err != nil {
		return false
	}
	for _, l := range strings.Split(string(b), "\n") {
		if strings.HasPrefix(l, "package ") {
			break
		}
		if strings.HasPrefix(l, "//go:build") || strings.HasPrefix(l, "// +build") {
			f := strings.Fields(l)
			return len(f) == 2 && f[1] == "verif" || len(f) == 3 && f[2] == "verif"
		}
	}
	return false
}

// init(): `m = make(map[uint32]T)` and `m[k] = f` only
func (w *world) readInit(d *ast.FuncDecl, file string) {
	for _, s := range d.Body.List {
		as, ok := s.(*ast.AssignStmt)
		if !ok || len(as.Lhs) != 1 || len(as.Rhs) != 1 || as.Tok != token.ASSIGN {
			w.initErr = file + ": init: statement outside the subset: " + show(s)
			return
		}
		if id, ok := as.Lhs[0].(*ast.Ident); ok && id.Name == w.mapName && strings.HasPrefix(show(as.Rhs[0]), "make(map[uint32]") {
			w.mapElems = nil
			continue
		}
		ix, ok1 := as.Lhs[0].(*ast.IndexExpr)
		val, ok2 := as.Rhs[0].(*ast.Ident)
		if ok1 && ok2 {
			if id, ok := ix.X.(*ast.Ident); ok && id.Name == w.mapName {
				w.mapElems = append(w.mapElems, mapEntry{ix.Index, val.Name})
				continue
			}
		}
		w.initErr = file + ": init: statement outside the subset: " + show(s)
		return
	}
}

// ---- signatures, references

func (w *world) signature(f *fn) {
	ft := f.decl.Type
	for _, fl := range ft.Params.List {
		ty := typeStr(fl.Type)
		if _, ok := fl.Type.(*ast.Ellipsis); ok {
			fail("variadic parameter")
		}
		if len(fl.Names) == 0 {
			fail("unnamed parameter")
		}
		for _, n := range fl.Names {
			f.params = append(f.params, param{n.Name, ty})
		}
	}
	if ft.Results != nil {
		for _, fl := range ft.Results.List {
			if len(fl.Names) > 0 {
				fail("named results")
			}
			f.results = append(f.results, typeStr(fl.Type))
		}
	}
	nr := len(f.results)
	hasErr := nr > 0 && f.results[nr-1] == "error"
	switch {
	case len(f.params) > 0 && f.params[0].typ == "io.Reader" && nr == 2 && hasErr:
		f.kind = "reader"
	case len(f.params) > 0 && f.params[0].typ == "io.Writer" && nr == 1 && hasErr:
		f.kind = "writer"
	case nr == 2 && hasErr:
		f.kind = "plain"
	case nr == 1 && !hasErr:
		f.kind = "pure"
	default:
		fail("signature %s is outside the subset", show(ft))
	}
	for i, p := range f.params {
		if (p.typ == "io.Reader" || p.typ == "io.Writer") && i != 0 {
			fail("stream parameter %s is not the first parameter", p.name)
		}
	}
}

// names of package-level functions / the map referenced from the body
func (w *world) references(f *fn) {
	sel := map[*ast.Ident]bool{} // the Sel of pkg.Name / x.Method is not a reference to a package-level name
	ast.Inspect(f.decl.Body, func(n ast.Node) bool {
		if s, ok := n.(*ast.SelectorExpr); ok {
			sel[s.Sel] = true
		}
		return true
	})
	ast.Inspect(f.decl.Body, func(n ast.Node) bool {
		switch t := n.(type) {
		case *ast.Ident:
			if sel[t] {
				return true
			}
			if t.Name == w.mapName && f.pkg == "wkb" {
				f.refs["#map"] = true
			} else if g, ok := w.funcs[leanName(f.pkg, t.Name)]; ok && g.pkg == f.pkg {
				f.refs[g.lean] = true
			}
		case *ast.SelectorExpr:
			if id, ok := t.X.(*ast.Ident); ok && id.Name == "wkb" && f.pkg == "hex" {
				if g, ok := w.funcs[t.Sel.Name]; ok {
					f.refs[g.lean] = true
				}
			}
		}
		return true
	})
}

// ---- the statement translator

type tr struct {
	w      *world
	f      *fn
	env    map[string]string // Go variable → Go type
	stream string            // Lean name of the reader/writer state inside this function ("" if none)
	monad  string            // "Err" | "HErr" | "SErr" (stream mode)
	sm     bool              // stream mode: the reader is any byte source `S : Src σ` (namespace GenS)
	wm     bool              // sink mode: the writer is any io.Writer state machine `K : Sink σ`, one K.put per binary.Write
	// inside an arm `case geom.T:` of a type switch on g: "g.(geom.T)" → (bound variable, its type)
	asserted map[string][2]string
}

// suffix of the binary.Read primitives / loop combinators in stream mode
func (t *tr) sfx() string {
	if t.sm {
		return "S S"
	}
	return ""
}
func (t *tr) lsfx() string {
	if t.sm {
		return "S"
	}
	if t.wm {
		return "W"
	}
	return ""
}

// suffix of the binary.Write primitives and of the writer functions in sink mode
func (t *tr) wsfx() string {
	if t.wm {
		return "W K"
	}
	return ""
}

// a block `(… : Except Err T)` that does not touch the writer, inside a sink-mode function
func (t *tr) pureBlock(text string) string {
	if !t.wm {
		return text
	}
	return "liftW " + t.stream + " " + strings.ReplaceAll(text, "throwW "+t.stream+" ", "throw ")
}

func (t *tr) local(name string) string {
	if leanKeywords[name] && !(name == t.stream) {
		fail("variable name %s clashes with the generated vocabulary", name)
	}
	return name
}

func (t *tr) errOf(e ast.Expr) string {
	s := show(e)
	switch {
	case strings.HasPrefix(s, "&UnexpectedGeometryError{"), strings.HasPrefix(s, "UnexpectedGeometryError{"):
		return "Err.unexpected"
	case strings.HasPrefix(s, "&UnsupportedGeometryError{reflect.TypeOf("), strings.HasPrefix(s, "UnsupportedGeometryError{reflect.TypeOf("):
		return "Err.unsupported"
	case strings.HasPrefix(s, `fmt.Errorf("invalid byte order`), strings.HasPrefix(s, `fmt.Errorf("unsupported byte order`):
		return "Err.badOrder"
	case strings.HasPrefix(s, `fmt.Errorf("unsupported geometry type`):
		return "Err.badType"
	case s == "io.EOF" || s == "io.ErrUnexpectedEOF":
		return "Err.eof"
	}
	fail("error value %s has no counterpart in the model's Err", s)
	return ""
}

func isNilOrZero(e ast.Expr) bool {
	switch t := e.(type) {
	case *ast.Ident:
		return t.Name == "nil"
	case *ast.BasicLit:
		return t.Value == `""` || t.Value == "0"
	}
	return false
}

// order expression → Lean BO
func (t *tr) order(e ast.Expr) string {
	s := show(e)
	switch s {
	case "binary.BigEndian":
		return "BO.xdr"
	case "binary.LittleEndian":
		return "BO.ndr"
	}
	if id, ok := e.(*ast.Ident); ok {
		if t.env[id.Name] == "binary.ByteOrder" {
			return id.Name
		}
		if _, ok := t.w.bovars[id.Name]; ok && t.f.pkg == "wkb" {
			return id.Name
		}
	}
	fail("byte order expression %s", s)
	return ""
}

// pure expressions: (lean text, Go type); "int" is the type of untyped integer constants
func (t *tr) expr(e ast.Expr) (string, string) {
	switch x := e.(type) {
	case *ast.ParenExpr:
		return t.expr(x.X)
	case *ast.BasicLit:
		if x.Kind == token.INT {
			v, err := strconv.ParseInt(x.Value, 0, 64)
			if err == nil && v >= 0 {
				return strconv.FormatInt(v, 10), "int"
			}
		}
		fail("literal %s", x.Value)
	case *ast.Ident:
		if ty, ok := t.env[x.Name]; ok {
			if ty == "" {
				fail("variable %s has no tracked type", x.Name)
			}
			return t.local(x.Name), ty
		}
		if t.f.pkg == "wkb" {
			if _, ok := t.w.consts[x.Name]; ok {
				return x.Name, "int"
			}
			if _, ok := t.w.bovars[x.Name]; ok {
				return x.Name, "binary.ByteOrder"
			}
		}
		if where, ok := t.w.pkgVars[x.Name]; ok {
			fail("use of package-level variable %s (%s): state outside the model", x.Name, where)
		}
		fail("identifier %s", x.Name)
	case *ast.SelectorExpr:
		s := show(x)
		if s == "binary.BigEndian" || s == "binary.LittleEndian" {
			return t.order(x), "binary.ByteOrder"
		}
		fail("selector %s", s)
	case *ast.CompositeLit:
		s := show(x)
		switch {
		case s == "geom.Point{}":
			return "(⟨0, 0⟩ : " + ptT + ")", "geom.Point"
		case len(x.Elts) == 0 && strings.HasPrefix(s, "[]"):
			ty := typeStr(x.Type)
			return "([] : " + lt(ty) + ")", ty
		}
		fail("composite literal %s", s)
	case *ast.CallExpr:
		fun := show(x.Fun)
		switch fun {
		case "uint32":
			if len(x.Args) == 1 {
				if c, ok := x.Args[0].(*ast.CallExpr); ok && show(c.Fun) == "len" && len(c.Args) == 1 {
					a, ty := t.expr(c.Args[0])
					if _, ok := elemType[ty]; !ok {
						fail("len of %s", ty)
					}
					return "(u32len " + a + ".length)", "uint32"
				}
				a, ty := t.expr(x.Args[0])
				if ty == "int" || ty == "uint32" || ty == "uint8" {
					if ty == "int" {
						if v, err := strconv.ParseInt(a, 10, 64); err != nil || v >= 1<<32 {
							return "(u32len " + a + ")", "uint32"
						}
					}
					return a, "uint32"
				}
			}
			fail("conversion %s", show(x))
		case "make":
			if len(x.Args) >= 2 {
				ty := typeStr(x.Args[0])
				if ty == "[]geom.Point" {
					n, nty := t.expr(x.Args[1])
					if nty != "uint32" && nty != "int" {
						fail("make length of type %s", nty)
					}
					if len(x.Args) == 2 {
						return "(mkPoints " + n + ")", ty
					}
					if len(x.Args) == 3 && n == "0" {
						t.expr(x.Args[2]) // the capacity must be translatable; it is not observable
						return "([] : " + lt(ty) + ")", ty
					}
				}
			}
			fail("allocation %s", show(x))
		case "append":
			if len(x.Args) == 2 {
				a, aty := t.expr(x.Args[0])
				b, bty := t.expr(x.Args[1])
				if x.Ellipsis != token.NoPos {
					if lt(aty) != lt(bty) {
						fail("append of %s... to %s", bty, aty)
					}
					return "(" + a + " ++ " + b + ")", aty
				}
				el, ok := elemType[aty]
				if !ok || lt(el) != lt(bty) {
					fail("append of %s to %s", bty, aty)
				}
				return "(" + a + " ++ [" + b + "])", aty
			}
			fail("append with %d arguments", len(x.Args))
		case "hex.EncodeToString":
			if t.f.pkg == "hex" && len(x.Args) == 1 {
				a, ty := t.expr(x.Args[0])
				if ty == "[]byte" {
					return "(hexEncodeToString " + a + ")", "string"
				}
			}
			fail("call %s", show(x))
		case "bytes.NewBuffer":
			if len(x.Args) == 1 && show(x.Args[0]) == "nil" {
				return "([] : Bytes)", "*bytes.Buffer"
			}
			fail("call %s", show(x))
		}
		// conversion to a named geom type
		if _, ok := leanType[fun]; ok && strings.HasPrefix(fun, "geom.") && len(x.Args) == 1 {
			a, ty := t.expr(x.Args[0])
			if lt(ty) != lt(fun) {
				fail("conversion %s of a %s", fun, ty)
			}
			return a, fun
		}
		// method Bytes() of the buffer
		if sel, ok := x.Fun.(*ast.SelectorExpr); ok && sel.Sel.Name == "Bytes" && len(x.Args) == 0 {
			if id, ok := sel.X.(*ast.Ident); ok && t.env[id.Name] == "*bytes.Buffer" {
				return id.Name, "[]byte"
			}
		}
		// pure helper of the package
		if id, ok := x.Fun.(*ast.Ident); ok {
			if g, ok := t.w.funcs[leanName(t.f.pkg, id.Name)]; ok && g.kind == "pure" {
				if len(x.Args) != len(g.params) {
					fail("call %s: argument count", show(x))
				}
				s := "(" + g.lean
				for i, a := range x.Args {
					as, aty := t.expr(a)
					if lt(t.coerce(aty, g.params[i].typ)) != lt(g.params[i].typ) {
						fail("call %s: argument %d has type %s", show(x), i+1, aty)
					}
					s += " " + as
				}
				return s + ")", g.results[0]
			}
		}
		fail("call %s", show(x))
	case *ast.TypeAssertExpr:
		if b, ok := t.asserted[show(x)]; ok {
			return b[0], b[1]
		}
		fail("type assertion %s outside the arm of a type switch for that type", show(x))
	case *ast.BinaryExpr:
		fail("arithmetic %s", show(x))
	}
	fail("expression %s", show(e))
	return "", ""
}

// untyped constants take the type they are used at
func (t *tr) coerce(have, want string) string {
	if have == "int" && (want == "uint32" || want == "uint8") {
		return want
	}
	return have
}

// a boolean condition over uint32 values
func (t *tr) cond(e ast.Expr) string {
	b, ok := e.(*ast.BinaryExpr)
	if !ok {
		fail("condition %s", show(e))
	}
	a, aty := t.expr(b.X)
	c, cty := t.expr(b.Y)
	num := func(s string) bool { return s == "uint32" || s == "uint8" || s == "int" }
	if !num(aty) || !num(cty) {
		fail("comparison of %s with %s", aty, cty)
	}
	op := map[token.Token]string{token.LSS: "<", token.GTR: ">", token.LEQ: "≤", token.GEQ: "≥", token.EQL: "=", token.NEQ: "≠"}[b.Op]
	if op == "" {
		fail("condition %s", show(e))
	}
	return a + " " + op + " " + c
}

// value converted to interface geom.Geom
func (t *tr) toGeom(s, ty string) string {
	if ty == "geom.Geom" {
		return s
	}
	if c, ok := ctor[ty]; ok && c != "bounds" {
		return "(." + c + " " + s + ")"
	}
	fail("a %s used as geom.Geom", ty)
	return ""
}

// argument `a` passed to / returned as a value of Go type `want`
func (t *tr) arg(a ast.Expr, want string) string {
	s, ty := t.expr(a)
	ty = t.coerce(ty, want)
	if want == "geom.Geom" {
		return t.toGeom(s, ty)
	}
	if ty == "geom.Geom" || lt(ty) != lt(want) {
		fail("a %s used as %s in %s", ty, want, show(a))
	}
	return s
}

// ---- calls with an effect.  kind: "streamval" (value and the reader), "stream" (the writer), "val"
type effect struct {
	text, kind, valType string
	bind                string // variable that receives the value of binary.Read
	stream              string // Lean variable holding the stream that is rebound
}

func (t *tr) isWriterVar(e ast.Expr) (string, bool) {
	if id, ok := e.(*ast.Ident); ok {
		if ty := t.env[id.Name]; ty == "io.Writer" || ty == "*bytes.Buffer" {
			return id.Name, true
		}
	}
	return "", false
}

func (t *tr) isReaderVar(e ast.Expr) bool {
	id, ok := e.(*ast.Ident)
	return ok && t.env[id.Name] == "io.Reader"
}

func (t *tr) call(c *ast.CallExpr) effect {
	fun := show(c.Fun)
	switch fun {
	case "binary.Read":
		if len(c.Args) != 3 || !t.isReaderVar(c.Args[0]) {
			fail("%s: the source is not the function's reader", show(c))
		}
		ord := t.order(c.Args[1])
		u, ok := c.Args[2].(*ast.UnaryExpr)
		if !ok || u.Op != token.AND {
			fail("%s: destination is not the address of a variable", show(c))
		}
		id, ok := u.X.(*ast.Ident)
		if !ok {
			fail("%s: destination is not the address of a variable", show(c))
		}
		ty, ok := t.env[id.Name]
		if !ok {
			fail("%s: unknown variable %s", show(c), id.Name)
		}
		var text string
		switch ty {
		case "uint8":
			text = "binReadU8" + t.sfx() + " " + ord + " bs"
		case "uint32":
			text = "binReadU32" + t.sfx() + " " + ord + " bs"
		case "geom.Point":
			text = "binReadPoint" + t.sfx() + " " + ord + " bs"
		case "[]geom.Point":
			text = "binReadPoints" + t.sfx() + " " + ord + " " + id.Name + " bs"
		default:
			fail("binary.Read into a %s", ty)
		}
		return effect{text: text, kind: "streamval", valType: ty, bind: id.Name, stream: "bs"}
	case "binary.Write":
		wv, ok := "", false
		if len(c.Args) == 3 {
			wv, ok = t.isWriterVar(c.Args[0])
		}
		if !ok {
			fail("%s: the destination is not a writer variable", show(c))
		}
		ord := t.order(c.Args[1])
		d := c.Args[2]
		if u, ok := d.(*ast.UnaryExpr); ok && u.Op == token.AND {
			d = u.X
		}
		s, ty := t.expr(d)
		var text string
		switch ty {
		case "uint8":
			text = "binWriteU8" + t.wsfx() + " " + wv + " " + ord + " " + s
		case "uint32":
			text = "binWriteU32" + t.wsfx() + " " + wv + " " + ord + " " + s
		case "geom.Point":
			text = "binWritePoint" + t.wsfx() + " " + wv + " " + ord + " " + s
		case "[]geom.Point", "geom.LineString", "geom.Path", "geom.MultiPoint":
			text = "binWritePoints" + t.wsfx() + " " + wv + " " + ord + " " + s
		default:
			fail("binary.Write of a %s", ty)
		}
		return effect{text: text, kind: "stream", stream: wv}
	case "hex.DecodeString":
		if t.f.pkg == "hex" && len(c.Args) == 1 {
			return effect{text: "hexDecodeString " + t.arg(c.Args[0], "string"), kind: "val", valType: "[]byte"}
		}
		fail("call %s", show(c))
	}
	// a reader taken from the dispatch table
	if id, ok := c.Fun.(*ast.Ident); ok && t.env[id.Name] == "wkbReader" {
		if len(c.Args) != 2 || !t.isReaderVar(c.Args[0]) {
			fail("call %s", show(c))
		}
		return effect{text: id.Name + " " + t.order(c.Args[1]) + " bs", kind: "streamval", valType: "geom.Geom", stream: "bs"}
	}
	// function of the two packages
	var g *fn
	lift := false
	switch x := c.Fun.(type) {
	case *ast.Ident:
		if _, shadow := t.env[x.Name]; !shadow {
			g = t.w.funcs[leanName(t.f.pkg, x.Name)]
		}
	case *ast.SelectorExpr:
		if id, ok := x.X.(*ast.Ident); ok && id.Name == "wkb" && t.f.pkg == "hex" {
			if _, shadow := t.env["wkb"]; shadow {
				fail("call %s through the shadowed package name wkb", show(c))
			}
			g = t.w.funcs[x.Sel.Name]
			lift = true
		}
	}
	if g == nil || g.kind == "" || g.kind == "pure" {
		fail("call of %s, which is not a translated function", fun)
	}
	if len(c.Args) != len(g.params) {
		fail("call %s: argument count", show(c))
	}
	head := g.lean
	if t.sm && g.kind != "reader" {
		fail("call of %s on the streaming path", fun)
	}
	if t.sm && g.lean != "Read" {
		head += "S S"
	}
	if t.wm && g.kind != "writer" {
		fail("call of %s on the call-by-call writing path", fun)
	}
	if t.wm && g.lean != "Write" {
		head += "W K"
	}
	if g.lean == "Read" || g.lean == "Write" {
		// inside a body these names are the parameter standing for the Go function
	} else {
		if g.needRead {
			head += " Read"
		}
		if g.needWrite {
			head += " Write"
		}
	}
	var e effect
	switch g.kind {
	case "reader":
		rest := ""
		for i := 1; i < len(c.Args); i++ {
			rest += " " + t.arg(c.Args[i], g.params[i].typ)
		}
		if t.isReaderVar(c.Args[0]) {
			e = effect{text: head + rest + " bs", kind: "streamval", valType: g.results[0], stream: "bs"}
		} else if nb, ok := c.Args[0].(*ast.CallExpr); ok && !t.sm && show(nb.Fun) == "bytes.NewBuffer" && len(nb.Args) == 1 {
			e = effect{text: "dropRest (" + head + rest + " " + t.arg(nb.Args[0], "[]byte") + ")", kind: "val", valType: g.results[0]}
		} else {
			fail("call %s: the source is neither the function's reader nor a fresh buffer", show(c))
		}
	case "writer":
		wv, ok := t.isWriterVar(c.Args[0])
		if !ok {
			fail("call %s: the destination is not a writer variable", show(c))
		}
		text := head + " " + wv
		for i := 1; i < len(c.Args); i++ {
			text += " " + t.arg(c.Args[i], g.params[i].typ)
		}
		e = effect{text: text, kind: "stream", stream: wv}
	case "plain":
		text := head
		for i := range c.Args {
			text += " " + t.arg(c.Args[i], g.params[i].typ)
		}
		e = effect{text: text, kind: "val", valType: g.results[0]}
	}
	if lift {
		e.text = "liftWkb (" + e.text + ")"
	} else if t.monad == "HErr" {
		fail("call %s from package hex", show(c))
	}
	return e
}

// ---- statements

func (t *tr) isErrReturn(b *ast.BlockStmt) bool {
	if b == nil || len(b.List) != 1 {
		return false
	}
	r, ok := b.List[0].(*ast.ReturnStmt)
	if !ok || len(r.Results) != len(t.f.results) {
		return false
	}
	for i, x := range r.Results {
		if i == len(r.Results)-1 {
			id, ok := x.(*ast.Ident)
			if !ok || id.Name != "err" {
				return false
			}
		} else if !isNilOrZero(x) {
			return false
		}
	}
	return true
}

func isCond(e ast.Expr, s string) bool { return show(e) == s }

func (t *tr) declare(name, ty string) {
	if name == "_" {
		return
	}
	if _, ok := t.env[name]; ok {
		fail("redeclaration (shadowing) of %s", name)
	}
	if _, ok := t.w.funcs[leanName(t.f.pkg, name)]; ok {
		fail("variable %s shadows a function of the package", name)
	}
	t.local(name)
	t.env[name] = ty
}

// `let` line for an effect whose value goes to variable `v` ("" = none)
func (t *tr) bindLine(e effect, v string, ind string) string {
	switch e.kind {
	case "streamval":
		if v == "" {
			v = "_"
		}
		return ind + "let (" + v + ", bs) ← " + e.text
	case "stream":
		if v != "" {
			fail("a value is taken from a call that returns only an error")
		}
		return ind + "let " + e.stream + " ← " + e.text
	default:
		if v == "" {
			v = "_"
		}
		return ind + "let " + v + " ← " + e.text
	}
}

type looping struct{ depth int }

func (t *tr) block(list []ast.Stmt, ind string, lp *looping) ([]string, bool) {
	var out []string
	for i := 0; i < len(list); i++ {
		var next ast.Stmt
		if i+1 < len(list) {
			next = list[i+1]
		}
		lines, used, term := t.stmt(list[i], next, ind, lp)
		out = append(out, lines...)
		i += used
		if term {
			if i+1 < len(list) {
				fail("statements after a return: %s", show(list[i+1]))
			}
			return out, true
		}
	}
	return out, false
}

func (t *tr) stmt(s ast.Stmt, next ast.Stmt, ind string, lp *looping) (lines []string, used int, term bool) {
	switch x := s.(type) {
	case *ast.DeclStmt:
		gd, ok := x.Decl.(*ast.GenDecl)
		if !ok || gd.Tok != token.VAR {
			fail("declaration %s", show(s))
		}
		for _, sp := range gd.Specs {
			vs := sp.(*ast.ValueSpec)
			if vs.Type == nil || len(vs.Values) != 0 {
				fail("declaration %s", show(s))
			}
			ty := typeStr(vs.Type)
			lt(ty)
			for _, n := range vs.Names {
				t.declare(n.Name, ty)
			}
		}
		return nil, 0, false

	case *ast.AssignStmt:
		return t.assign(x, next, ind)

	case *ast.IfStmt:
		return t.ifStmt(x, ind, lp)

	case *ast.SwitchStmt:
		return t.valueSwitch(x, ind), 0, false

	case *ast.TypeSwitchStmt:
		return t.typeSwitch(x, ind)

	case *ast.ForStmt:
		return t.forStmt(x, ind, lp), 0, false

	case *ast.RangeStmt:
		return t.rangeStmt(x, ind, lp), 0, false

	case *ast.ReturnStmt:
		return t.ret(x, ind, lp), 0, true
	}
	fail("statement outside the subset: %s", show(s))
	return
}

func (t *tr) assign(x *ast.AssignStmt, next ast.Stmt, ind string) ([]string, int, bool) {
	name := func(e ast.Expr) string {
		id, ok := e.(*ast.Ident)
		if !ok {
			fail("assignment to %s", show(e))
		}
		return id.Name
	}
	if len(x.Rhs) != 1 {
		fail("statement outside the subset: %s", show(x))
	}
	if x.Tok == token.DEFINE && len(x.Lhs) == 2 {
		a, b := name(x.Lhs[0]), name(x.Lhs[1])
		nif, _ := next.(*ast.IfStmt)
		if ta, ok := x.Rhs[0].(*ast.TypeAssertExpr); ok && ta.Type != nil {
			// v, ok := g.(T); if !ok { return nil, &UnexpectedGeometryError{g} }
			ty := typeStr(ta.Type)
			as, known := asFn[ty]
			g, gty := t.expr(ta.X)
			if !known || gty != "geom.Geom" {
				fail("type assertion %s", show(ta))
			}
			if nif == nil || nif.Init != nil || nif.Else != nil || !isCond(nif.Cond, "!"+b) || len(nif.Body.List) != 1 {
				fail("%s is not followed by `if !%s { return …error }`", show(x), b)
			}
			r, ok := nif.Body.List[0].(*ast.ReturnStmt)
			if !ok || len(r.Results) != len(t.f.results) {
				fail("%s is not followed by `if !%s { return …error }`", show(x), b)
			}
			for i, z := range r.Results[:len(r.Results)-1] {
				if !isNilOrZero(z) {
					fail("result %d of %s", i+1, show(r))
				}
			}
			ev := r.Results[len(r.Results)-1]
			if t.errOf(ev) != "Err.unexpected" || !strings.HasSuffix(show(ev), "{"+g+"}") {
				fail("failed assertion returns %s, not UnexpectedGeometryError{%s}", show(ev), g)
			}
			t.declare(a, ty)
			if t.sm {
				return []string{ind + "let " + a + " ← liftS (" + as + " " + g + ")"}, 1, false
			}
			return []string{ind + "let " + a + " ← " + as + " " + g}, 1, false
		}
		if c, ok := x.Rhs[0].(*ast.CallExpr); ok && b == "err" {
			e := t.call(c)
			if nif == nil || nif.Init != nil || nif.Else != nil || !isCond(nif.Cond, "err != nil") || !t.isErrReturn(nif.Body) {
				fail("%s is not followed by `if err != nil { return …, err }`", show(x))
			}
			if e.kind == "stream" {
				fail("%s: the callee returns only an error", show(x))
			}
			t.declare(a, e.valType)
			return []string{t.bindLine(e, a, ind)}, 1, false
		}
		fail("statement outside the subset: %s", show(x))
	}
	if len(x.Lhs) != 1 {
		fail("statement outside the subset: %s", show(x))
	}
	v := name(x.Lhs[0])
	switch x.Tok {
	case token.DEFINE:
		if _, ok := x.Rhs[0].(*ast.CallExpr); ok && v == "err" {
			fail("statement outside the subset: %s", show(x))
		}
		e, ty := t.expr(x.Rhs[0])
		if ty == "int" {
			fail("variable %s of an untyped constant", v)
		}
		t.declare(v, ty)
		return []string{ind + "let " + v + " : " + lt(ty) + " := " + e}, 0, false
	case token.ASSIGN:
		ty, ok := t.env[v]
		if !ok {
			fail("assignment to %s, which is not a local variable", v)
		}
		e := t.arg(x.Rhs[0], ty)
		return []string{ind + "let " + v + " : " + lt(ty) + " := " + e}, 0, false
	case token.SUB_ASSIGN, token.ADD_ASSIGN:
		if t.env[v] != "uint32" {
			fail("statement outside the subset: %s", show(x))
		}
		e := t.arg(x.Rhs[0], "uint32")
		op := "u32sub"
		if x.Tok == token.ADD_ASSIGN {
			op = "u32add"
		}
		return []string{ind + "let " + v + " : Nat := " + op + " " + v + " " + e}, 0, false
	}
	fail("statement outside the subset: %s", show(x))
	return nil, 0, false
}

func (t *tr) ifStmt(x *ast.IfStmt, ind string, lp *looping) ([]string, int, bool) {
	if x.Init == nil {
		fail("statement outside the subset: %s", show(x))
	}
	as, ok := x.Init.(*ast.AssignStmt)
	if !ok || as.Tok != token.DEFINE || len(as.Rhs) != 1 {
		fail("statement outside the subset: %s", show(x))
	}
	names := []string{}
	for _, l := range as.Lhs {
		id, ok := l.(*ast.Ident)
		if !ok {
			fail("statement outside the subset: %s", show(x))
		}
		names = append(names, id.Name)
	}
	elseBlock, _ := x.Else.(*ast.BlockStmt)
	if x.Else != nil && elseBlock == nil {
		fail("else-if chain: %s", show(x))
	}
	// if f, ok := m[k]; ok { A } else { B }
	if ix, isIx := as.Rhs[0].(*ast.IndexExpr); isIx && len(names) == 2 && isCond(x.Cond, names[1]) {
		id, ok := ix.X.(*ast.Ident)
		if !ok || id.Name != t.w.mapName || t.f.pkg != "wkb" || elseBlock == nil {
			fail("statement outside the subset: %s", show(x))
		}
		k := t.arg(ix.Index, "uint32")
		m := id.Name
		if t.sm {
			m = "(" + m + "S S)"
			if t.w.mapNeedsRead() {
				m = "(" + id.Name + "S S Read)"
			}
		} else if t.w.mapNeedsRead() {
			m = "(" + m + " Read)"
		}
		lines := []string{ind + "match mapGet " + m + " " + k + " with", ind + "| some " + names[0] + " => do"}
		t.declare(names[0], "wkbReader")
		a, ta := t.block(x.Body.List, ind+"    ", lp)
		delete(t.env, names[0])
		b, tb := t.block(elseBlock.List, ind+"    ", lp)
		if !ta || !tb {
			fail("a branch of %s does not return", show(x.Init))
		}
		lines = append(lines, a...)
		lines = append(lines, ind+"| none => do")
		lines = append(lines, b...)
		return lines, 0, true
	}
	c, ok := as.Rhs[0].(*ast.CallExpr)
	if !ok || names[len(names)-1] != "err" || len(names) > 2 {
		fail("statement outside the subset: %s", show(x))
	}
	e := t.call(c)
	v := ""
	if len(names) == 2 {
		v = names[0]
		if e.kind == "stream" {
			fail("%s: the callee returns only an error", show(as))
		}
	} else if e.kind != "stream" && e.bind == "" {
		fail("%s: the value of the call is dropped", show(as))
	}
	var inline *ast.BlockStmt
	switch {
	case isCond(x.Cond, "err != nil") && t.isErrReturn(x.Body):
		inline = elseBlock
	case isCond(x.Cond, "err == nil") && elseBlock != nil && t.isErrReturn(elseBlock):
		inline = x.Body
	default:
		fail("error handling outside the subset: %s", show(x))
	}
	if e.bind != "" { // binary.Read(r, order, &x)
		if v != "" {
			fail("statement outside the subset: %s", show(x))
		}
		v = e.bind
	} else if v != "" {
		t.declare(v, e.valType)
	}
	lines := []string{t.bindLine(e, v, ind)}
	if inline == nil {
		return lines, 0, false
	}
	a, term := t.block(inline.List, ind, lp)
	if e.bind == "" && v != "" {
		defer delete(t.env, v) // scope of the if statement
	}
	return append(lines, a...), 0, term
}

// switch x { case c: v = e … default: return error }
func (t *tr) valueSwitch(x *ast.SwitchStmt, ind string) []string {
	if x.Init != nil || x.Tag == nil {
		fail("statement outside the subset: %s", show(x))
	}
	tag, tagTy := t.expr(x.Tag)
	target := ""
	var arms []string
	def := ""
	for _, cc := range x.Body.List {
		c := cc.(*ast.CaseClause)
		if len(c.Body) != 1 {
			fail("switch arm with %d statements: %s", len(c.Body), show(c))
		}
		var val string
		switch b := c.Body[0].(type) {
		case *ast.AssignStmt:
			if b.Tok != token.ASSIGN || len(b.Lhs) != 1 || len(b.Rhs) != 1 {
				fail("switch arm %s", show(b))
			}
			id, ok := b.Lhs[0].(*ast.Ident)
			if !ok || (target != "" && id.Name != target) {
				fail("switch arms assign different variables: %s", show(b))
			}
			target = id.Name
			ty, ok := t.env[target]
			if !ok {
				fail("assignment to %s, which is not a local variable", target)
			}
			val = "pure " + t.arg(b.Rhs[0], ty)
		case *ast.ReturnStmt:
			val = t.errReturn(b)
		default:
			fail("switch arm %s", show(b))
		}
		if c.List == nil {
			def = val
			continue
		}
		if len(c.List) != 1 {
			fail("switch arm with several labels: %s", show(c))
		}
		l, lty := t.expr(c.List[0])
		if lt(t.coerce(lty, tagTy)) != lt(tagTy) {
			fail("case label %s of type %s", show(c.List[0]), lty)
		}
		arms = append(arms, "if "+tag+" = "+l+" then "+val)
	}
	if target == "" {
		fail("switch assigns no variable: %s", show(x))
	}
	if def == "" {
		def = "pure " + target
	}
	return []string{ind + "let " + target + " ← " + t.pureBlock("("+strings.Join(append(arms, def), " else ")+" : Except "+t.monad+" "+lt(t.env[target])+")")}
}

// `return …, <error value>` → throw
func (t *tr) errReturn(r *ast.ReturnStmt) string {
	if len(r.Results) != len(t.f.results) {
		fail("%s", show(r))
	}
	for _, z := range r.Results[:len(r.Results)-1] {
		if !isNilOrZero(z) {
			fail("%s returns a value together with an error", show(r))
		}
	}
	if t.sm {
		return "throw (SErr.wkb " + t.errOf(r.Results[len(r.Results)-1]) + ")"
	}
	if t.wm {
		return "throwW " + t.stream + " " + t.errOf(r.Results[len(r.Results)-1])
	}
	if t.monad != "Err" {
		fail("%s in package hex", show(r))
	}
	return "throw " + t.errOf(r.Results[len(r.Results)-1])
}

func (t *tr) typeSwitch(x *ast.TypeSwitchStmt, ind string) ([]string, int, bool) {
	es, ok := x.Assign.(*ast.ExprStmt)
	if !ok || x.Init != nil {
		fail("type switch that binds a variable: %s", show(x.Assign))
	}
	ta := es.X.(*ast.TypeAssertExpr)
	g, gty := t.expr(ta.X)
	if gty != "geom.Geom" {
		fail("type switch on a %s", gty)
	}
	target := ""
	returns, assigns := 0, 0
	var arms []string
	def := ""
	seen := map[string]bool{}
	for _, cc := range x.Body.List {
		c := cc.(*ast.CaseClause)
		if len(c.Body) != 1 {
			fail("type-switch arm with %d statements: %s", len(c.Body), show(c))
		}
		pat, bound, bty := "_", "", ""
		if c.List != nil {
			if len(c.List) != 1 {
				fail("type-switch arm with several types: %s", show(c))
			}
			bty = typeStr(c.List[0])
			k, ok := ctor[bty]
			if !ok || seen[bty] {
				fail("type-switch case %s", bty)
			}
			seen[bty] = true
			if k == "bounds" {
				pat = ".bounds _ _"
			} else {
				bound = g + "'"
				pat = "." + k + " " + bound
			}
		}
		var val string
		switch b := c.Body[0].(type) {
		case *ast.AssignStmt:
			assigns++
			if b.Tok != token.ASSIGN || len(b.Lhs) != 1 || len(b.Rhs) != 1 {
				fail("type-switch arm %s", show(b))
			}
			id, ok := b.Lhs[0].(*ast.Ident)
			if !ok || (target != "" && id.Name != target) {
				fail("type-switch arms assign different variables: %s", show(b))
			}
			target = id.Name
			ty, ok := t.env[target]
			if !ok {
				fail("assignment to %s, which is not a local variable", target)
			}
			val = "pure " + t.arg(b.Rhs[0], ty)
			if bound != "" {
				pat = strings.Replace(pat, bound, "_", 1)
			}
		case *ast.ReturnStmt:
			if len(b.Results) == 1 {
				if call, ok := b.Results[0].(*ast.CallExpr); ok {
					returns++
					if bound != "" {
						t.asserted = map[string][2]string{g + ".(" + bty + ")": {bound, bty}}
					}
					e := t.call(call)
					t.asserted = nil
					if !t.tailOK(e) {
						fail("%s", show(b))
					}
					val = e.text
					break
				}
			}
			val = t.errReturn(b)
			if bound != "" {
				pat = strings.Replace(pat, bound, "_", 1)
			}
		default:
			fail("type-switch arm %s", show(b))
		}
		if c.List == nil {
			def = val
			continue
		}
		arms = append(arms, ind+"  | "+pat+" => "+val)
	}
	if assigns > 0 && returns > 0 {
		fail("type switch mixes assignments and calls: %s", show(x.Assign))
	}
	if assigns > 0 {
		if def == "" {
			def = "pure " + target
		}
		lines := []string{ind + "let " + target + " ← (match " + g + " with"}
		lines = append(lines, arms...)
		lines = append(lines, ind+"  | _ => "+def+" : Except "+t.monad+" "+lt(t.env[target])+")")
		if t.wm { // the block does not touch the writer: lifted as a whole
			lines = strings.Split(strings.Replace(t.pureBlock(strings.Join(lines, "\n")), "liftW "+t.stream+" "+ind+"let "+target+" ← (", ind+"let "+target+" ← liftW "+t.stream+" (", 1), "\n")
		}
		return lines, 0, false
	}
	if def == "" {
		fail("type switch without default whose arms return: %s", show(x.Assign))
	}
	lines := []string{ind + "match " + g + " with"}
	for _, a := range arms {
		lines = append(lines, strings.Replace(a, ind+"  | ", ind+"| ", 1))
	}
	lines = append(lines, ind+"| _ => "+def)
	return lines, 0, true
}

// may the effect be the function's result as it stands?
func (t *tr) tailOK(e effect) bool {
	switch t.f.kind {
	case "reader":
		return e.kind == "streamval" && e.bind == "" && e.valType == t.f.results[0]
	case "writer":
		return e.kind == "stream" && e.stream == t.stream
	case "plain":
		return e.kind == "val" && lt(e.valType) == lt(t.f.results[0])
	}
	return false
}

func (t *tr) ret(r *ast.ReturnStmt, ind string, lp *looping) []string {
	n := len(t.f.results)
	if len(r.Results) == 1 && n >= 1 {
		if c, ok := r.Results[0].(*ast.CallExpr); ok {
			if _, conv := leanType[show(c.Fun)]; !conv {
				if lp.depth > 0 {
					fail("%s inside a loop", show(r))
				}
				e := t.call(c)
				if !t.tailOK(e) {
					fail("%s does not have the function's result type", show(r))
				}
				return []string{ind + e.text}
			}
		}
	}
	if len(r.Results) != n {
		fail("%s", show(r))
	}
	last := r.Results[n-1]
	if id, ok := last.(*ast.Ident); !ok || id.Name != "nil" {
		return []string{ind + t.errReturn(r)}
	}
	if lp.depth > 0 {
		fail("%s inside a loop", show(r))
	}
	switch t.f.kind {
	case "writer":
		return []string{ind + "pure " + t.stream}
	case "reader":
		return []string{ind + "pure (" + t.arg(r.Results[0], t.f.results[0]) + ", bs)"}
	default:
		return []string{ind + "pure " + t.arg(r.Results[0], t.f.results[0])}
	}
}

// variables assigned (not declared) in a block
func assigned(b *ast.BlockStmt) []string {
	var out []string
	seen := map[string]bool{}
	add := func(e ast.Expr) {
		if id, ok := e.(*ast.Ident); ok && !seen[id.Name] {
			seen[id.Name] = true
			out = append(out, id.Name)
		}
	}
	ast.Inspect(b, func(n ast.Node) bool {
		switch x := n.(type) {
		case *ast.AssignStmt:
			if x.Tok != token.DEFINE {
				for _, l := range x.Lhs {
					add(l)
				}
			}
		case *ast.IncDecStmt:
			add(x.X)
		case *ast.UnaryExpr:
			if x.Op == token.AND {
				add(x.X) // binary.Read(r, order, &x)
			}
		}
		return true
	})
	return out
}

func mentions(n ast.Node, name string) bool {
	found := false
	ast.Inspect(n, func(m ast.Node) bool {
		if id, ok := m.(*ast.Ident); ok && id.Name == name {
			found = true
		}
		return true
	})
	return found
}

func tuple(vs []string) string {
	if len(vs) == 1 {
		return vs[0]
	}
	return "(" + strings.Join(vs, ", ") + ")"
}

// state of a loop: the outer variables its body assigns, then the stream
func (t *tr) loopState(body *ast.BlockStmt, first []string) []string {
	st := append([]string{}, first...)
	for _, v := range assigned(body) {
		if _, outer := t.env[v]; outer && v != t.stream {
			dup := false
			for _, f := range st {
				dup = dup || f == v
			}
			if !dup {
				st = append(st, v)
			}
		}
	}
	if t.stream != "" {
		st = append(st, t.stream)
	}
	if len(st) == 0 {
		fail("loop without state")
	}
	return st
}

func (t *tr) loopBody(body *ast.BlockStmt, st []string, ind string, lp *looping) []string {
	saved := map[string]string{}
	for k, v := range t.env {
		saved[k] = v
	}
	lp.depth++
	lines, term := t.block(body.List, ind+"    ", lp)
	lp.depth--
	for k := range t.env { // variables declared in the body go out of scope
		if _, ok := saved[k]; !ok {
			delete(t.env, k)
		}
	}
	if !term {
		lines = append(lines, ind+"    pure "+tuple(st))
	}
	lines[len(lines)-1] += ")"
	return lines
}

func (t *tr) forStmt(x *ast.ForStmt, ind string, lp *looping) []string {
	// for i := uint32(0); i < n; i++ { … }
	if as, ok := x.Init.(*ast.AssignStmt); ok && x.Post != nil && x.Cond != nil {
		inc, ok1 := x.Post.(*ast.IncDecStmt)
		cmp, ok2 := x.Cond.(*ast.BinaryExpr)
		if as.Tok == token.DEFINE && len(as.Lhs) == 1 && ok1 && ok2 && inc.Tok == token.INC && cmp.Op == token.LSS {
			i := show(as.Lhs[0])
			if show(as.Rhs[0]) == "uint32(0)" && show(inc.X) == i && show(cmp.X) == i && !mentions(x.Body, i) {
				n, nty := t.expr(cmp.Y)
				if nty != "uint32" {
					fail("loop bound %s of type %s", show(cmp.Y), nty)
				}
				for _, v := range assigned(x.Body) {
					if mentions(cmp.Y, v) {
						fail("loop bound %s is assigned in the loop", show(cmp.Y))
					}
				}
				st := t.loopState(x.Body, nil)
				lines := []string{ind + "let " + tuple(st) + " ← loopN" + t.lsfx() + " " + n + " " + tuple(st) + " (fun " + tuple(st) + " => do"}
				return append(lines, t.loopBody(x.Body, st, ind, lp)...)
			}
		}
		fail("loop header outside the subset: %s", show(x.Init)+"; "+show(x.Cond)+"; "+show(x.Post))
	}
	// for x := e; cond; { … }   /   for cond { … }
	if x.Post != nil || x.Cond == nil {
		fail("loop header outside the subset: for %v; %s; %v", x.Init != nil, show(x.Cond), x.Post != nil)
	}
	var lines []string
	var first []string
	if x.Init != nil {
		as, ok := x.Init.(*ast.AssignStmt)
		if !ok || as.Tok != token.DEFINE || len(as.Lhs) != 1 || len(as.Rhs) != 1 {
			fail("loop header outside the subset: %s", show(x.Init))
		}
		l, _, _ := t.assign(as, nil, ind)
		lines = append(lines, l...)
		first = []string{show(as.Lhs[0])}
	}
	st := t.loopState(x.Body, first)
	c := t.cond(x.Cond)
	lines = append(lines, ind+"let "+tuple(st)+" ← whileLoop" + t.lsfx() + " loopBudget (fun "+tuple(st)+" => decide ("+c+")) "+tuple(st)+" (fun "+tuple(st)+" => do")
	lines = append(lines, t.loopBody(x.Body, st, ind, lp)...)
	if first != nil {
		delete(t.env, first[0])
	}
	return lines
}

func (t *tr) rangeStmt(x *ast.RangeStmt, ind string, lp *looping) []string {
	if x.Tok != token.DEFINE || x.Value == nil || (x.Key != nil && show(x.Key) != "_") {
		fail("range clause outside the subset: %s", show(x.Key)+", "+show(x.Value))
	}
	xs, xty := t.expr(x.X)
	el, ok := elemType[xty]
	if !ok {
		fail("range over a %s", xty)
	}
	v := show(x.Value)
	st := t.loopState(x.Body, nil)
	for _, s := range st {
		if s == xs {
			fail("the ranged-over slice %s is assigned in the loop", xs)
		}
	}
	t.declare(v, el)
	lines := []string{ind + "let " + tuple(st) + " ← forRange" + t.lsfx() + " " + xs + " " + tuple(st) + " (fun " + v + " " + tuple(st) + " => do"}
	lines = append(lines, t.loopBody(x.Body, st, ind, lp)...)
	delete(t.env, v)
	return lines
}

// ---- functions

func (t *tr) pureBody(list []ast.Stmt) string {
	if len(list) == 0 {
		fail("missing return")
	}
	switch x := list[0].(type) {
	case *ast.ReturnStmt:
		if len(x.Results) != 1 || len(list) != 1 {
			fail("%s", show(x))
		}
		return t.arg(x.Results[0], t.f.results[0])
	case *ast.IfStmt:
		if x.Init == nil && x.Else == nil && len(x.Body.List) == 1 {
			if r, ok := x.Body.List[0].(*ast.ReturnStmt); ok && len(r.Results) == 1 {
				return "if " + t.cond(x.Cond) + " then " + t.arg(r.Results[0], t.f.results[0]) + " else " + t.pureBody(list[1:])
			}
		}
	}
	fail("statement outside the subset: %s", show(list[0]))
	return ""
}

func (w *world) mapNeedsRead() bool {
	for _, e := range w.mapElems {
		if g, ok := w.funcs[e.val]; ok && g.needRead {
			return true
		}
	}
	return false
}

func (w *world) translate(f *fn) { f.text = w.translateMode(f, false) }

// the streaming path: the same Go text of a reader function, translated with the reader as ANY byte source
// `S : Src σ` (every binary.Read = one io.ReadFull of the value's size from S, then the in-memory decoding)
func (w *world) translateStream(f *fn) { f.stext = w.translateMode(f, true) }

// the call-by-call writing path: the same Go text of a writer function, translated with the writer as ANY
// `io.Writer` state machine `K : Sink σ` (every binary.Write = ONE K.put of the value's encoding; an error —
// the writer's or the package's — carries the writer state reached, i.e. what was handed over before it)
func (w *world) translateSink(f *fn) {
	if f.kind != "writer" {
		fail("not a writer function")
	}
	sinkMode = true
	defer func() { sinkMode = false }()
	f.wtext = w.translateMode(f, false)
}

var sinkMode bool

func (w *world) translateMode(f *fn, sm bool) string {
	t := &tr{w: w, f: f, env: map[string]string{}, monad: "Err", sm: sm, wm: sinkMode}
	if f.pkg == "hex" {
		t.monad = "HErr"
	}
	if sm {
		t.monad = "SErr"
		if f.kind != "reader" {
			fail("not a reader function")
		}
	}
	sig := "def " + f.lean
	if sm {
		sig += "S {σ : Type} (S : Stream.Src σ)"
	}
	if t.wm {
		sig += "W {σ : Type} (K : Sink.Sink σ)"
	}
	if f.needRead && sm {
		sig += " (Read : ReadFnS σ)"
	} else if f.needRead {
		sig += " (Read : ReadFn)"
	}
	if f.needWrite && t.wm {
		sig += " (Write : WriteFnW σ)"
	} else if f.needWrite {
		sig += " (Write : WriteFn)"
	}
	for i, p := range f.params {
		t.declare(p.name, p.typ)
		if i == 0 && f.kind == "reader" {
			t.stream = "bs"
			continue
		}
		if i == 0 && f.kind == "writer" {
			t.stream = p.name
			if t.wm {
				sig += " (" + p.name + " : σ)"
				continue
			}
		}
		sig += " (" + p.name + " : " + lt(p.typ) + ")"
	}
	doc := "/-- `" + f.file + "`: `" + show(f.decl.Type) + "` as `" + f.name + "` -/\n"
	switch f.kind {
	case "pure":
		return doc + sig + " : " + lt(f.results[0]) + " :=\n  " + t.pureBody(f.decl.Body.List)
	case "reader":
		if sm {
			sig += " (bs : σ) : Except SErr (" + lt(f.results[0]) + " × σ) := do"
		} else {
			sig += " (bs : Bytes) : Except Err (" + lt(f.results[0]) + " × Bytes) := do"
		}
	case "writer":
		if t.wm {
			sig += " : Except (σ × Sink.WErr) σ := do"
		} else {
			sig += " : Except Err Bytes := do"
		}
	case "plain":
		sig += " : Except " + t.monad + " (" + lt(f.results[0]) + ") := do"
	}
	lines, term := t.block(f.decl.Body.List, "  ", &looping{})
	if !term {
		fail("the body does not end in a return")
	}
	return doc + sig + "\n" + strings.Join(lines, "\n")
}

// text that goes into a Lean string literal or comment (the orchestrator greps the Lean sources for
// forbidden words, so a Go identifier spelled like one is broken up)
func sanitize(s string) string {
	r := strings.NewReplacer(`"`, "'", `\`, "/", "-/", "- /", "/-", "/ -", "\n", " ",
		"sorry", "s·orry", "admit", "a·dmit", "native_decide", "native·decide", "bv_decide", "bv·decide",
		"implemented_by", "implemented·by", "unsafe", "un·safe", "axiom", "a·xiom", "maxHeartbeats", "max·Heartbeats")
	return r.Replace(s)
}

func extract(repo string) int {
	w := load(repo)
	type failure struct{ who, msg string }
	var failures []failure
	guard := func(who string, f func()) (ok bool) {
		defer func() {
			if r := recover(); r != nil {
				u, is := r.(untr)
				if !is {
					panic(r)
				}
				failures = append(failures, failure{who, u.msg})
				ok = false
			}
		}()
		f()
		return true
	}
	for _, f := range w.funcs {
		f := f
		if !guard(f.name+" ("+f.file+")", func() { w.signature(f) }) {
			f.err = failures[len(failures)-1].msg
			failures = failures[:len(failures)-1] // reported below if the function is reachable
		}
		w.references(f)
	}
	// package-level state the translated functions read (XDR, NDR, the dispatch table) must not be assigned
	// anywhere but in init(), whether or not the assigning function is reachable from the entry points
	for _, f := range w.funcs {
		f := f
		ast.Inspect(f.decl.Body, func(n ast.Node) bool {
			check := func(e ast.Expr) {
				if ix, ok := e.(*ast.IndexExpr); ok {
					e = ix.X
				}
				if u, ok := e.(*ast.UnaryExpr); ok && u.Op == token.AND {
					e = u.X
				}
				if id, ok := e.(*ast.Ident); ok && f.pkg == "wkb" {
					if _, isBO := w.bovars[id.Name]; (isBO || id.Name == w.mapName) && id.Obj != nil && id.Obj.Kind == ast.Var {
						if _, isDecl := id.Obj.Decl.(*ast.ValueSpec); isDecl {
							failures = append(failures, failure{f.name + " (" + f.file + ")", "assignment to / address of the package-level variable " + id.Name})
						}
					}
				}
			}
			switch x := n.(type) {
			case *ast.AssignStmt:
				if x.Tok != token.DEFINE {
					for _, l := range x.Lhs {
						check(l)
					}
				}
			case *ast.IncDecStmt:
				check(x.X)
			case *ast.UnaryExpr:
				if x.Op == token.AND {
					check(x)
				}
			}
			return true
		})
	}
	// reachability from the entry points
	roots := []string{"Read", "Decode", "Write", "Encode", "hex_Encode", "hex_Decode"}
	reach := map[string]bool{}
	var visit func(string)
	visit = func(n string) {
		if reach[n] {
			return
		}
		reach[n] = true
		if n == "#map" {
			for _, e := range w.mapElems {
				visit(e.val)
			}
			return
		}
		if f, ok := w.funcs[n]; ok {
			for r := range f.refs {
				visit(r)
			}
		}
	}
	for _, r := range roots {
		if _, ok := w.funcs[r]; !ok {
			failures = append(failures, failure{r, "entry point is missing"})
		}
		visit(r)
	}
	// which functions can reach Read / Write
	for changed := true; changed; {
		changed = false
		for n, f := range w.funcs {
			if !reach[n] {
				continue
			}
			nr, nw := f.needRead, f.needWrite
			for r := range f.refs {
				if r == "#map" {
					nr = nr || w.mapNeedsRead() || mapHas(w, "Read")
					continue
				}
				g := w.funcs[r]
				if g == nil {
					continue
				}
				nr = nr || r == "Read" || g.needRead
				nw = nw || r == "Write" || g.needWrite
			}
			if nr != f.needRead || nw != f.needWrite {
				f.needRead, f.needWrite, changed = nr, nw, true
			}
		}
	}
	// translate
	var names []string
	for n := range w.funcs {
		if reach[n] {
			names = append(names, n)
		} else {
			w.unreach = append(w.unreach, w.funcs[n].file+": "+w.funcs[n].name)
		}
	}
	sort.Strings(names)
	sort.Strings(w.unreach)
	for _, n := range names {
		f := w.funcs[n]
		who := f.name + " (" + f.file + ")"
		if f.err != "" {
			failures = append(failures, failure{who, f.err})
			continue
		}
		if !guard(who, func() { w.translate(f) }) {
			f.err = failures[len(failures)-1].msg
			continue
		}
		// the call-by-call writing path (wkb.Write on any io.Writer): every writer function a second time
		if f.kind == "writer" {
			if !guard(f.name+" on the call-by-call writing path ("+f.file+")", func() { w.translateSink(f) }) {
				f.werr = failures[len(failures)-1].msg
			}
		}
		// the streaming path (wkb.Read behind any io.Reader): every reader function a second time
		if f.kind == "reader" {
			if !guard(f.name+" on the streaming path ("+f.file+")", func() { w.translateStream(f) }) {
				f.serr = failures[len(failures)-1].msg
			}
		}
	}
	// the dispatch table
	mapText, mapTextS := "", ""
	if reach["#map"] {
		guard("init ("+w.mapName+")", func() {
			if w.initErr != "" {
				fail("%s", w.initErr)
			}
			if w.mapName == "" {
				fail("no dispatch table of type map[uint32]…")
			}
			var es []string
			t := &tr{w: w, f: &fn{pkg: "wkb"}, env: map[string]string{}}
			for _, e := range w.mapElems {
				g, ok := w.funcs[e.val]
				if !ok || g.kind != "reader" || len(g.params) != 2 || g.params[1].typ != "binary.ByteOrder" || g.results[0] != "geom.Geom" {
					fail("table entry %s is not a reader function", e.val)
				}
				v := g.lean
				if g.needRead {
					v = "(" + g.lean + " Read)"
				}
				es = append(es, "("+t.arg(e.key, "uint32")+", "+v+")")
			}
			sig := "def " + w.mapName
			if w.mapNeedsRead() {
				sig += " (Read : ReadFn)"
			}
			mapText = "/-- the dispatch table filled by `init()`: its assignments, in order -/\n" + sig + " : List (Nat × ReaderFn) :=\n  [" + strings.Join(es, ",\n   ") + "]"
			// the same table for the streaming path
			var ss []string
			for _, e := range w.mapElems {
				g := w.funcs[e.val]
				v := "(" + g.lean + "S S)"
				if g.needRead {
					v = "(" + g.lean + "S S Read)"
				}
				ss = append(ss, "("+t.arg(e.key, "uint32")+", "+v+")")
			}
			ssig := "def " + w.mapName + "S {σ : Type} (S : Stream.Src σ)"
			if w.mapNeedsRead() {
				ssig += " (Read : ReadFnS σ)"
			}
			mapTextS = "/-- the dispatch table on the streaming path -/\n" + ssig + " : List (Nat × ReaderFnS σ) :=\n  [" + strings.Join(ss, ",\n   ") + "]"
		})
	}
	// order: definitions before uses
	var order []string
	done := map[string]bool{}
	var place func(string, int)
	place = func(n string, depth int) {
		if done[n] || depth > 100 {
			return
		}
		done[n] = true
		if n == "#map" {
			for _, e := range w.mapElems {
				place(e.val, depth+1)
			}
		} else if f, ok := w.funcs[n]; ok {
			var rs []string
			for r := range f.refs {
				if r != "Read" && r != "Write" && r != n {
					rs = append(rs, r)
				}
			}
			sort.Strings(rs)
			for _, r := range rs {
				place(r, depth+1)
			}
		}
		order = append(order, n)
	}
	for _, n := range names {
		place(n, 0)
	}

	var b strings.Builder
	b.WriteString("import GeomV.C05.GenLibW\n/-!\nREGENERATED on every run of `bin/check C05` by harness/cmd/c05/extract.go from encoding/wkb/*.go and\nencoding/hex/hex.go of the tree under test — do not edit.  `GeomV/C05/Tie.lean` proves these definitions\nequal to the hand-written model (`GeomV/C05/Model.lean`), so the C05 theorems are re-checked against\nwhat the source says now.  Vocabulary and its meaning: `GeomV/C05/GenLib.lean`.\n")
	for _, u := range w.unreach {
		b.WriteString("not reachable from Read/Decode/Write/Encode, not translated: " + sanitize(u) + "\n")
	}
	for _, m := range w.methods {
		b.WriteString("method, not translated (any use is reported at the caller): " + sanitize(m) + "\n")
	}
	b.WriteString("-/\nset_option linter.unusedVariables false\nnamespace GeomV.C05.Gen\nopen GeomV GeomV.C05\n\n/-! constants of encoding/wkb/wkb.go (and maxChunk of point.go) -/\n")
	for _, c := range w.corder {
		b.WriteString("def " + c + " : Nat := " + w.consts[c] + "\n")
	}
	for _, v := range w.bvorder {
		b.WriteString("def " + v + " : BO := " + w.bovars[v] + "\n")
	}
	for _, n := range order {
		b.WriteString("\n")
		if n == "#map" {
			if mapText != "" {
				b.WriteString(mapText + "\n")
			}
			continue
		}
		f := w.funcs[n]
		if f.err != "" {
			msg := sanitize(f.name + ": " + f.err)
			b.WriteString("/-- `" + f.file + "`: `func " + f.name + "` has left the translatable subset -/\n")
			b.WriteString("theorem untranslatable_" + f.lean + " : \"" + msg + "\" = \"\" := by decide\n")
			continue
		}
		b.WriteString(f.text + "\n")
	}
	for _, fl := range failures {
		if strings.HasPrefix(fl.who, "init") || !strings.Contains(fl.who, "(") {
			b.WriteString("\ntheorem untranslatable_" + strings.Fields(fl.who)[0] + " : \"" + sanitize(fl.who+": "+fl.msg) + "\" = \"\" := by decide\n")
		}
	}
	// the streaming path: the reader functions once more, over any byte source (GenLibS.lean)
	b.WriteString("\n/-! ### the streaming path: the same Go functions with the `io.Reader` as ANY byte source `S : Stream.Src σ`\n(every `binary.Read` = one `io.ReadFull` of the value's size from `S`, then the in-memory decoding: `GenLibS.lean`) -/\n")
	for _, n := range order {
		if n == "#map" {
			if mapTextS != "" {
				b.WriteString("\n" + mapTextS + "\n")
			}
			continue
		}
		f := w.funcs[n]
		if f.kind != "reader" || f.err != "" {
			continue
		}
		if f.serr != "" {
			b.WriteString("\ntheorem untranslatable_" + f.lean + "S : \"" + sanitize(f.name+" on the streaming path: "+f.serr) + "\" = \"\" := by decide\n")
			continue
		}
		b.WriteString("\n" + f.stext + "\n")
	}
	b.WriteString(footerS)
	// the writing path call by call: the writer functions once more, over any io.Writer (GenLibW.lean)
	b.WriteString("\n/-! ### the writing path call by call: the same Go functions with the `io.Writer` as ANY writer state machine\n`K : Sink.Sink σ` (every `binary.Write` = ONE `K.put` of the value's encoding; an error carries the writer state reached: `GenLibW.lean`) -/\n")
	for _, n := range order {
		if n == "#map" {
			continue
		}
		f := w.funcs[n]
		if f.kind != "writer" || f.err != "" {
			continue
		}
		if f.werr != "" {
			b.WriteString("\ntheorem untranslatable_" + f.lean + "W : \"" + sanitize(f.name+" on the call-by-call writing path: "+f.werr) + "\" = \"\" := by decide\n")
			continue
		}
		b.WriteString("\n" + f.wtext + "\n")
	}
	b.WriteString(footerW)
	b.WriteString(footer)
	fmt.Print(b.String())
	if len(failures) > 0 {
		for _, fl := range failures {
			fmt.Fprintf(os.Stderr, "%s: %s\n", fl.who, fl.msg)
		}
		return 3
	}
	return 0
}

func mapHas(w *world, name string) bool {
	for _, e := range w.mapElems {
		if e.val == name {
			return true
		}
	}
	return false
}

const footerS = `
/-- ` + "`wkb.Read`" + ` behind any byte source, the recursion unrolled ` + "`fuel`" + ` times -/
def readS {σ : Type} (S : Stream.Src σ) : Nat → ReadFnS σ
  | 0 => fun _ => .error (.wkb .fuel)
  | fuel+1 => ReadS S (readS S fuel)
`

const footerW = `
/-- ` + "`wkb.Write`" + ` on any writer, call by call, the recursion unrolled ` + "`fuel`" + ` times -/
def writeW {σ : Type} (K : Sink.Sink σ) : Nat → WriteFnW σ
  | 0 => fun w _ _ => throwW w Err.fuel
  | fuel+1 => WriteW K (writeW K fuel)
`

const footer = `
/-! The recursion Read → reader → Read and Write → writer → Write, unrolled (fixed text of the translator). -/

/-- ` + "`wkb.Read`" + ` with the recursion unrolled ` + "`fuel`" + ` times -/
def read : Nat → ReadFn
  | 0 => fun _ => .error .fuel
  | fuel+1 => Read (read fuel)

/-- ` + "`wkb.Write`" + ` with the recursion unrolled ` + "`fuel`" + ` times -/
def write : Nat → WriteFn
  | 0 => fun _ _ _ => .error .fuel
  | fuel+1 => Write (write fuel)

/-- ` + "`wkb.Read`" + ` on any input: every level of recursion consumes at least one byte, so one more level than
the input has bytes is never the limit -/
def readAll : ReadFn := fun bs => read (bs.length + 1) bs

/-- ` + "`wkb.Write`" + ` of any value: one level per collection nesting level, one for the value itself, one for the
members of a Multi* value -/
def writeAll : WriteFn := fun w byteOrder g => write (g.depth + 2) w byteOrder g

/-- ` + "`wkb.Decode`" + ` -/
def decode (buf : Bytes) : Except Err BGeom := Decode readAll buf

/-- ` + "`wkb.Encode`" + ` -/
def encode (g : BGeom) (byteOrder : BO) : Except Err Bytes := Encode writeAll g byteOrder

/-- ` + "`hex.Encode`" + ` -/
def hexEncode (g : BGeom) (byteOrder : BO) : Except HErr (List Char) := hex_Encode writeAll g byteOrder

/-- ` + "`hex.Decode`" + ` -/
def hexDecode (s : List Char) : Except HErr BGeom := hex_Decode readAll s

end GeomV.C05.Gen
`
