package main

// Shared-backing inputs (lesson (b)/(c) of the seeded-change rounds): the geometry of an `alias` line is
// rebuilt so that its point slices are consecutive windows of ONE flat buffer with spare capacity
// (layout "flat": an append by the callee to one member overwrites the next), or prefix re-slices of
// each other ("prefix"), or separately allocated ("own").  The line is one replayable history:
//
//	enc1 = Encode(g); hex1 = hex.Encode(g); enc2 = Encode(g) again (same bytes?); g2 = Decode(enc1) with enc1
//	wiped afterwards (decoder aliasing its input?); input compared bit for bit with its snapshot, the
//	gaps/spare capacity of the flat buffer with their sentinels; then the SAME storage is overwritten
//	in place with the second geometry of the line (same shape, same addresses, same lengths) and encoded
//	again (a cache keyed by address or length would return the old bytes).

import (
	"encoding/binary"
	"encoding/hex"
	"fmt"
	"math"

	"github.com/ctessum/geom"
	ghex "github.com/ctessum/geom/encoding/hex"
	"github.com/ctessum/geom/encoding/wkb"

	"verif/harness/vproto"
)

const sentinelBits = 0x7ff4deadbeef0001

var sentinel = geom.Point{X: math.Float64frombits(sentinelBits), Y: math.Float64frombits(sentinelBits ^ 0xffff)}

func isSentinel(p geom.Point) bool {
	return math.Float64bits(p.X) == sentinelBits && math.Float64bits(p.Y) == sentinelBits^0xffff
}

type flat struct {
	layout string
	buf    []geom.Point
	used   []bool
	off    int
}

func countPoints(g geom.Geom) int {
	n := 0
	switch t := g.(type) {
	case geom.MultiPoint:
		n = len(t) + 1
	case geom.LineString:
		n = len(t) + 1
	case geom.MultiLineString:
		for _, l := range t {
			n += len(l) + 1
		}
	case geom.Polygon:
		for _, l := range t {
			n += len(l) + 1
		}
	case geom.MultiPolygon:
		for _, p := range t {
			for _, l := range p {
				n += len(l) + 1
			}
		}
	case geom.GeometryCollection:
		for _, m := range t {
			n += countPoints(m)
		}
	}
	return n
}

// window of the flat buffer holding a copy of ps, followed by a one-point gap; its capacity runs to the
// end of the buffer
func (f *flat) pts(ps []geom.Point) []geom.Point {
	if ps == nil {
		return nil
	}
	if f.layout == "own" {
		return append(make([]geom.Point, 0, len(ps)+3), ps...)
	}
	w := f.buf[f.off : f.off+len(ps)]
	copy(w, ps)
	for i := range w {
		f.used[f.off+i] = true
	}
	f.off += len(ps) + 1
	return w
}

func samePrefix(long, short []geom.Point) bool {
	if len(short) > len(long) {
		return false
	}
	for i := range short {
		if math.Float64bits(short[i].X) != math.Float64bits(long[i].X) || math.Float64bits(short[i].Y) != math.Float64bits(long[i].Y) {
			return false
		}
	}
	return true
}

// members that are bitwise prefixes of the longest member become re-slices of it
func (f *flat) paths(ls []geom.Path) []geom.Path {
	out := make([]geom.Path, len(ls), len(ls)+2)
	if f.layout == "prefix" {
		long := -1
		for i, l := range ls {
			if long < 0 || len(l) > len(ls[long]) {
				long = i
			}
		}
		if long >= 0 {
			base := f.pts(ls[long])
			for i, l := range ls {
				switch {
				case i == long:
					out[i] = base
				case l != nil && samePrefix(base, l):
					out[i] = base[:len(l)]
				default:
					out[i] = f.pts(l)
				}
			}
			return out
		}
	}
	for i, l := range ls {
		out[i] = f.pts(l)
	}
	return out
}

func (f *flat) build(g geom.Geom) geom.Geom {
	switch t := g.(type) {
	case geom.MultiPoint:
		return geom.MultiPoint(f.pts(t))
	case geom.LineString:
		return geom.LineString(f.pts(t))
	case geom.MultiLineString:
		ps := make([]geom.Path, len(t))
		for i, l := range t {
			ps[i] = geom.Path(l)
		}
		ps = f.paths(ps)
		out := make(geom.MultiLineString, len(t), len(t)+2)
		for i := range ps {
			out[i] = geom.LineString(ps[i])
		}
		return out
	case geom.Polygon:
		return geom.Polygon(f.paths(t))
	case geom.MultiPolygon:
		// the polygons are consecutive windows of one flat []Path with spare capacity as well
		total := 0
		for _, p := range t {
			total += len(p)
		}
		all := make([]geom.Path, 0, total+4)
		out := make(geom.MultiPolygon, len(t), len(t)+2)
		for i, p := range t {
			start := len(all)
			all = append(all, f.paths(p)...)
			out[i] = geom.Polygon(all[start:len(all)])
		}
		return out
	case geom.GeometryCollection:
		out := make(geom.GeometryCollection, len(t), len(t)+2)
		for i, m := range t {
			out[i] = f.build(m)
		}
		return out
	}
	return g
}

// overwrite the storage of dst with the coordinates of src (same shape): same addresses, same lengths
func overwrite(dst, src geom.Geom) (geom.Geom, bool) {
	cp := func(d, s []geom.Point) bool {
		if len(d) != len(s) {
			return false
		}
		copy(d, s)
		return true
	}
	switch d := dst.(type) {
	case geom.Point:
		s, ok := src.(geom.Point)
		return s, ok
	case geom.MultiPoint:
		s, ok := src.(geom.MultiPoint)
		return d, ok && cp(d, s)
	case geom.LineString:
		s, ok := src.(geom.LineString)
		return d, ok && cp(d, s)
	case geom.MultiLineString:
		s, ok := src.(geom.MultiLineString)
		if !ok || len(s) != len(d) {
			return d, false
		}
		for i := len(d) - 1; i >= 0; i-- { // longest-first sharing: later members may be prefixes of earlier ones
			if !cp(d[i], s[i]) {
				return d, false
			}
		}
		return d, true
	case geom.Polygon:
		s, ok := src.(geom.Polygon)
		if !ok || len(s) != len(d) {
			return d, false
		}
		for i := range d {
			if !cp(d[i], s[i]) {
				return d, false
			}
		}
		return d, true
	case geom.MultiPolygon:
		s, ok := src.(geom.MultiPolygon)
		if !ok || len(s) != len(d) {
			return d, false
		}
		for i := range d {
			if _, ok := overwrite(d[i], s[i]); !ok {
				return d, false
			}
		}
		return d, true
	case geom.GeometryCollection:
		s, ok := src.(geom.GeometryCollection)
		if !ok || len(s) != len(d) {
			return d, false
		}
		for i := range d {
			m, ok := overwrite(d[i], s[i])
			if !ok {
				return d, false
			}
			d[i] = m
		}
		return d, true
	}
	return dst, false
}

func other(o binary.ByteOrder) binary.ByteOrder {
	if o == wkb.XDR {
		return wkb.NDR
	}
	return wkb.XDR
}

// alias <layout> <o> <G> | <G'>
func implAlias(p *vproto.Parser) string {
	layout := p.Next()
	o := bo(p.Next())
	g0 := p.Geom()
	if p.Next() != "|" {
		panic("alias: separator expected")
	}
	g1 := p.Geom()
	n := countPoints(g0) + 8
	f := &flat{layout: layout, buf: make([]geom.Point, n), used: make([]bool, n)}
	for i := range f.buf {
		f.buf[i] = sentinel
	}
	g := f.build(g0)
	snap := vproto.GeomToks(g)
	if snap != vproto.GeomToks(g0) {
		panic("alias: the rebuilt geometry differs from the input")
	}
	enc1, err := wkb.Encode(g, o)
	if err != nil {
		return "encerr"
	}
	keep1 := hex.EncodeToString(enc1)
	hex1, err := ghex.Encode(g, o)
	if err != nil {
		return "hexerr"
	}
	if _, err := wkb.Encode(g, other(o)); err != nil {
		return "encerr"
	}
	enc2, err := wkb.Encode(g, o)
	if err != nil {
		return "encerr"
	}
	twice := "same"
	if hex.EncodeToString(enc2) != keep1 || hex.EncodeToString(enc1) != keep1 {
		twice = "differs"
	}
	g2, err := wkb.Decode(enc1)
	for i := range enc1 { // a decoder that aliases its input would now change its result
		enc1[i] = 0xa5
	}
	dec := result(g2, err, "")
	input := "intact"
	if vproto.GeomToks(g) != snap {
		input = "modified"
	}
	for i, p := range f.buf {
		if !f.used[i] && !isSentinel(p) {
			input = "spare-capacity-written"
		}
	}
	// same storage, same lengths, new coordinates
	g, ok := overwrite(g, g1)
	if !ok {
		panic("alias: the second geometry does not have the shape of the first")
	}
	enc3, err := wkb.Encode(g, o)
	if err != nil {
		return "encerr"
	}
	hex3, err := ghex.Encode(g, o)
	if err != nil {
		return "hexerr"
	}
	return fmt.Sprintf("x%s h%s %s %s x%s h%s %s", keep1, hex1, twice, input, hex.EncodeToString(enc3), hex3, dec)
}

// second geometry of an alias line: the same shape with other coordinates, keeping prefix-equal members
// prefix-equal (every point is changed by a function of its value only)
func perturb(g geom.Geom) geom.Geom {
	pp := func(p geom.Point) geom.Point {
		return geom.Point{X: math.Float64frombits(math.Float64bits(p.X) ^ 0x0010000000000001), Y: math.Float64frombits(^math.Float64bits(p.Y))}
	}
	ps := func(s []geom.Point) []geom.Point {
		if s == nil {
			return nil
		}
		out := make([]geom.Point, len(s))
		for i := range s {
			out[i] = pp(s[i])
		}
		return out
	}
	switch t := g.(type) {
	case geom.Point:
		return pp(t)
	case geom.MultiPoint:
		return geom.MultiPoint(ps(t))
	case geom.LineString:
		return geom.LineString(ps(t))
	case geom.MultiLineString:
		out := make(geom.MultiLineString, len(t))
		for i := range t {
			out[i] = ps(t[i])
		}
		return out
	case geom.Polygon:
		out := make(geom.Polygon, len(t))
		for i := range t {
			out[i] = ps(t[i])
		}
		return out
	case geom.MultiPolygon:
		out := make(geom.MultiPolygon, len(t))
		for i := range t {
			out[i] = perturb(t[i]).(geom.Polygon)
		}
		return out
	case geom.GeometryCollection:
		out := make(geom.GeometryCollection, len(t))
		for i := range t {
			out[i] = perturb(t[i])
		}
		return out
	}
	return g
}

// geometry whose rings/members are prefixes of one long point sequence
func prefixGeom(r *vproto.Rng) geom.Geom {
	n := r.Range(3, 40)
	base := make([]geom.Point, n)
	for i := range base {
		base[i] = geom.Point{X: coord(r), Y: coord(r)}
	}
	cut := func() []geom.Point { return append([]geom.Point{}, base[:r.Range(0, n)]...) }
	rings := func() []geom.Path {
		k := r.Range(2, 5)
		out := make([]geom.Path, k)
		for i := range out {
			out[i] = cut()
		}
		out[r.Intn(k)] = append([]geom.Point{}, base...)
		return out
	}
	switch r.Intn(4) {
	case 0:
		return geom.Polygon(rings())
	case 1:
		rs := rings()
		out := make(geom.MultiLineString, len(rs))
		for i := range rs {
			out[i] = geom.LineString(rs[i])
		}
		return out
	case 2:
		return geom.MultiPolygon{rings(), rings()}
	default:
		return geom.GeometryCollection{geom.Polygon(rings()), geom.LineString(cut()), geom.MultiPoint(cut())}
	}
}

func genAlias(out interface{ WriteString(string) (int, error) }, r *vproto.Rng, n int) {
	emitA := func(layout string, g geom.Geom) {
		o := []string{"X", "N"}[r.Intn(2)]
		out.WriteString(fmt.Sprintf("alias %s %s %s | %s\n", layout, o, vproto.GeomToks(g), vproto.GeomToks(perturb(g))))
	}
	ring := func(k int) []geom.Point {
		p := make([]geom.Point, k)
		for i := range p {
			p[i] = geom.Point{X: float64(i), Y: coord(r)}
		}
		return p
	}
	// fixed: several rings in one buffer, empty members between non-empty ones, a ring of one chunk
	for _, g := range []geom.Geom{
		geom.Polygon{ring(5), ring(4), ring(0), ring(7)},
		geom.MultiLineString{ring(2), ring(0), ring(3)},
		geom.MultiPolygon{{ring(4)}, {}, {ring(5), ring(4)}},
		geom.GeometryCollection{geom.MultiPoint(ring(3)), geom.Polygon{ring(4), ring(4)}, geom.LineString(ring(2)), geom.Point{X: 1, Y: 2}},
		geom.Polygon{ring(1024), ring(1025), ring(3)},
		geom.LineString(ring(129)),
	} {
		for _, l := range []string{"own", "flat", "prefix"} {
			emitA(l, g)
		}
	}
	for i := 0; i < n; i++ {
		switch i % 3 {
		case 0:
			emitA("flat", genGeom(r, 3))
		case 1:
			emitA("prefix", prefixGeom(r))
		default:
			emitA([]string{"own", "flat", "prefix"}[r.Intn(3)], genGeom(r, 2))
		}
	}
}
