package main

// Second extractor of the pregen hook: prints lean/GeomV/C20/EqualGen.lean from
//
//	proj/Proj.go       type SR struct (field order and reflect kinds), func (*SR).Equal, func equal (BODY, case by case)
//	proj/datum.go      type datum struct
//	proj/transform.go  the nil decision of (*SR).NewTransform
//	encoding/shp/shp.go (*Decoder).SR
//
// The body of `equal` is TRANSLATED statement by statement (`x := e` ↦ `let x := e`, `if c { return false }` ↦
// `if c then false else`), so a change inside a case changes the generated definition and breaks its tie lemma
// (lean/GeomV/C20/EqualTie.lean).  What is not translated (the recursive Ptr call, the default panic, the loop
// headers, the three statements of NewTransform and Decoder.SR that decide) is pinned as source text.

import (
	"bytes"
	"fmt"
	"go/ast"
	"go/parser"
	"go/printer"
	"go/token"
	"path/filepath"
	"strings"
)

type eqGen struct {
	fs *token.FileSet
}

func (g *eqGen) src(n ast.Node) string {
	var b bytes.Buffer
	printer.Fprint(&b, g.fs, n)
	return strings.Join(strings.Fields(b.String()), " ")
}

// expr translates a Go expression of `equal` into Lean.  idx is the loop variable of the slice loop ("" outside).
func (g *eqGen) expr(e ast.Expr, idx string) string {
	switch t := e.(type) {
	case *ast.Ident:
		return t.Name
	case *ast.ParenExpr:
		return "(" + g.expr(t.X, idx) + ")"
	case *ast.UnaryExpr:
		if t.Op == token.NOT {
			return "(!" + g.expr(t.X, idx) + ")"
		}
	case *ast.BinaryExpr:
		op := map[token.Token]string{token.LAND: "&&", token.LOR: "||", token.NEQ: "!=", token.EQL: "=="}[t.Op]
		if op != "" {
			return "(" + g.expr(t.X, idx) + " " + op + " " + g.expr(t.Y, idx) + ")"
		}
	case *ast.CallExpr:
		if sel, ok := t.Fun.(*ast.SelectorExpr); ok {
			if pk, ok := sel.X.(*ast.Ident); ok && pk.Name == "math" && sel.Sel.Name == "IsNaN" && len(t.Args) == 1 {
				return "(isNaN " + g.expr(t.Args[0], idx) + ")"
			}
			if pk, ok := sel.X.(*ast.Ident); ok && pk.Name == "scalar" && sel.Sel.Name == "EqualWithinULP" && len(t.Args) == 3 {
				if u, ok := t.Args[2].(*ast.Ident); ok && u.Name == "ulp" {
					return "(close " + g.expr(t.Args[0], idx) + " " + g.expr(t.Args[1], idx) + ")"
				}
				return "(closeWithOtherTolerance_" + g.ident(g.src(t.Args[2])) + ")"
			}
			switch sel.Sel.Name {
			case "Float", "Int", "Bool", "String":
				if len(t.Args) == 0 {
					return g.expr(sel.X, idx)
				}
			case "Len":
				if len(t.Args) == 0 {
					return g.expr(sel.X, idx) + ".length"
				}
			case "Index":
				if id, ok := t.Args[0].(*ast.Ident); ok && len(t.Args) == 1 && id.Name == idx && idx != "" {
					return g.expr(sel.X, idx) + "_i"
				}
			}
		}
	}
	return "untranslated_" + g.ident(g.src(e))
}

func (g *eqGen) ident(s string) string {
	var b strings.Builder
	for _, c := range s {
		if c >= 'a' && c <= 'z' || c >= 'A' && c <= 'Z' || c >= '0' && c <= '9' {
			b.WriteRune(c)
		} else {
			b.WriteByte('_')
		}
	}
	return b.String()
}

// stmts translates a list of `x := e` / `if c { return false }` statements; anything else becomes an unknown identifier
func (g *eqGen) stmts(l []ast.Stmt, idx string) string {
	var b strings.Builder
	for _, s := range l {
		switch t := s.(type) {
		case *ast.AssignStmt:
			if t.Tok == token.DEFINE && len(t.Lhs) == 1 && len(t.Rhs) == 1 {
				fmt.Fprintf(&b, "  let %s := %s\n", g.expr(t.Lhs[0], idx), g.expr(t.Rhs[0], idx))
				continue
			}
		case *ast.IfStmt:
			if t.Init == nil && t.Else == nil && len(t.Body.List) == 1 && g.src(t.Body.List[0]) == "return false" {
				fmt.Fprintf(&b, "  if %s then false else\n", g.expr(t.Cond, idx))
				continue
			}
		}
		fmt.Fprintf(&b, "  untranslated_%s\n", g.ident(g.src(s)))
	}
	b.WriteString("  true\n")
	return b.String()
}

func kindOf(e ast.Expr, named map[string]ast.Expr, depth int) string {
	switch t := e.(type) {
	case *ast.Ident:
		switch t.Name {
		case "float64":
			return "flt"
		case "int":
			return "int"
		case "bool":
			return "bool"
		case "string":
			return "str"
		}
		if u, ok := named[t.Name]; ok && depth < 4 {
			return kindOf(u, named, depth+1)
		}
	case *ast.ArrayType:
		if t.Len == nil {
			if id, ok := t.Elt.(*ast.Ident); ok && id.Name == "float64" {
				return "slice"
			}
		}
	case *ast.StarExpr:
		if id, ok := t.X.(*ast.Ident); ok {
			return "ptr:" + id.Name
		}
	}
	return "other"
}

// Go field name -> field of the Lean records `SR`, `Datum` (Model.lean); default: first letter lower-cased
var leanField = map[string]string{"SRSCode": "srsCode", "UTMSouth": "utmSouth", "NADGrids": "nadGrids", "local": "isLocal",
	"datum_type": "dtype", "datum_params": "params", "LatTS": "latTS", "LongC": "longC"}

func leanName(goName string) string {
	if n, ok := leanField[goName]; ok {
		return n
	}
	return strings.ToLower(goName[:1]) + goName[1:]
}

func equalGen(repo string) string {
	g := &eqGen{fs: token.NewFileSet()}
	parse := func(rel string) *ast.File {
		f, err := parser.ParseFile(g.fs, filepath.Join(repo, rel), nil, 0)
		if err != nil {
			panic(err)
		}
		return f
	}
	projGo, datumGo, trGo, shpGo := parse("proj/Proj.go"), parse("proj/datum.go"), parse("proj/transform.go"), parse("encoding/shp/shp.go")

	named := map[string]ast.Expr{}
	structs := map[string]*ast.StructType{}
	for _, f := range []*ast.File{projGo, datumGo} {
		for _, d := range f.Decls {
			if gd, ok := d.(*ast.GenDecl); ok && gd.Tok == token.TYPE {
				for _, sp := range gd.Specs {
					ts := sp.(*ast.TypeSpec)
					if st, ok := ts.Type.(*ast.StructType); ok {
						structs[ts.Name.Name] = st
					} else {
						named[ts.Name.Name] = ts.Type
					}
				}
			}
		}
	}
	funcs := map[string]*ast.FuncDecl{}
	for _, f := range []*ast.File{projGo, trGo, shpGo} {
		for _, d := range f.Decls {
			if fd, ok := d.(*ast.FuncDecl); ok {
				name := fd.Name.Name
				if fd.Recv != nil && len(fd.Recv.List) == 1 {
					name = g.src(fd.Recv.List[0].Type) + "." + name
				}
				funcs[name] = fd
			}
		}
	}

	var b strings.Builder
	b.WriteString("import GeomV.C20.EqualRefl\n/-! GENERATED by `harness/cmd/c20 equalgen` from /repo/proj/{Proj,datum,transform}.go and /repo/encoding/shp/shp.go — do not edit. -/\n")
	b.WriteString("namespace GeomV.C20\nsection\nvariable {α : Type} [Num α]\nopen Num\n\n")

	// ---- struct shapes
	flat := func(name string) (kinds []string, vals []string) {
		st := structs[name]
		if st == nil {
			return []string{"missing-struct-" + name}, []string{"missingStruct_" + name}
		}
		for _, f := range st.Fields.List {
			k := kindOf(f.Type, named, 0)
			for _, n := range f.Names {
				kinds = append(kinds, fmt.Sprintf("(%q, %q)", n.Name, k))
				acc := "x." + leanName(n.Name)
				switch {
				case k == "flt" || k == "int" || k == "bool" || k == "str" || k == "slice":
					vals = append(vals, fmt.Sprintf(".%s %s", k, acc))
				case strings.HasPrefix(k, "ptr:"):
					vals = append(vals, fmt.Sprintf("PTR:%s:%s", strings.TrimPrefix(k, "ptr:"), acc))
				default:
					vals = append(vals, ".other")
				}
			}
		}
		return
	}
	srKinds, srVals := flat("SR")
	ptrStruct := ""
	for _, v := range srVals {
		if strings.HasPrefix(v, "PTR:") {
			ptrStruct = strings.Split(v, ":")[1]
		}
	}
	dKinds, dVals := flat(ptrStruct)
	b.WriteString("/-- `type SR struct` of Proj.go: fields in declaration order with their kind -/\ndef genSRFields : List (String × String) :=\n  [" + strings.Join(srKinds, ", ") + "]\n\n")
	fmt.Fprintf(&b, "/-- `type %s struct` of datum.go -/\ndef genDatumFields : List (String × String) :=\n  [%s]\n\n", ptrStruct, strings.Join(dKinds, ", "))
	var dl []string
	for _, v := range dVals {
		if strings.HasPrefix(v, "PTR:") {
			v = ".other" // a pointer inside the pointed-to struct: outside the (flat) model
		}
		dl = append(dl, v)
	}
	b.WriteString("/-- the fields of a `datum` as `equal` walks them -/\ndef genDatumLeaves (x : Datum α) : List (Leaf α) :=\n  [" + strings.Join(dl, ", ") + "]\n\n")
	var sl []string
	for _, v := range srVals {
		if strings.HasPrefix(v, "PTR:") {
			acc := strings.Split(v, ":")[2]
			sl = append(sl, fmt.Sprintf(".ptr (%s.map genDatumLeaves)", acc))
		} else {
			sl = append(sl, ".leaf ("+v+")")
		}
	}
	b.WriteString("/-- the fields of an `SR` as `equal` walks them -/\ndef genSRVals (x : SR α) : List (FVal α) :=\n  [" + strings.Join(sl, ",\n   ") + "]\n\n")

	// ---- body of `equal`
	eq := funcs["equal"]
	cases := map[string][]ast.Stmt{}
	var kindsHandled []string
	loopHdr, swTag, tail, deflt := "", "", "", ""
	if eq != nil {
		for _, s := range eq.Body.List {
			switch t := s.(type) {
			case *ast.ForStmt:
				loopHdr = g.src(t.Init) + "; " + g.src(t.Cond) + "; " + g.src(t.Post)
				var pre []string
				for _, s2 := range t.Body.List {
					if sw, ok := s2.(*ast.SwitchStmt); ok {
						swTag = strings.Join(pre, "; ") + "; switch " + g.src(sw.Tag)
						for _, c := range sw.Body.List {
							cc := c.(*ast.CaseClause)
							if cc.List == nil {
								var ds []string
								for _, s3 := range cc.Body {
									ds = append(ds, g.src(s3))
								}
								deflt = strings.Join(ds, "; ")
								continue
							}
							for _, k := range cc.List {
								kn := strings.TrimPrefix(g.src(k), "reflect.")
								kindsHandled = append(kindsHandled, kn)
								cases[kn] = cc.Body
							}
						}
					} else {
						pre = append(pre, g.src(s2))
					}
				}
			case *ast.ReturnStmt:
				tail = g.src(t)
			}
		}
	}
	fmt.Fprintf(&b, "/-- the loop of `equal` and what it switches on -/\ndef genEqualLoop : String := %q\ndef genEqualSwitch : String := %q\ndef genEqualTail : String := %q\ndef genEqualDefault : String := %q\n", loopHdr, swTag, tail, deflt)
	fmt.Fprintf(&b, "def genEqualKinds : List String := [%s]\n\n", func() string {
		var q []string
		for _, k := range kindsHandled {
			q = append(q, fmt.Sprintf("%q", k))
		}
		return strings.Join(q, ", ")
	}())
	b.WriteString("/-- `case reflect.Float64:` — `true` when no `return false` is taken -/\ndef genFloat (close : α → α → Bool) (f1 f2 : α) : Bool :=\n" + g.stmts(cases["Float64"], "") + "\n")
	b.WriteString("/-- `case reflect.Int:` -/\ndef genInt (f1 f2 : Nat) : Bool :=\n" + g.stmts(cases["Int"], "") + "\n")
	b.WriteString("/-- `case reflect.Bool:` -/\ndef genBool (f1 f2 : Bool) : Bool :=\n" + g.stmts(cases["Bool"], "") + "\n")
	b.WriteString("/-- `case reflect.String:` -/\ndef genString (f1 f2 : Str) : Bool :=\n" + g.stmts(cases["String"], "") + "\n")
	// Slice: statements before the element loop, the loop header, the loop body
	var pre []ast.Stmt
	var loop *ast.ForStmt
	post := 0
	for _, s := range cases["Slice"] {
		if f, ok := s.(*ast.ForStmt); ok && loop == nil {
			loop = f
		} else if loop == nil {
			pre = append(pre, s)
		} else {
			post++
		}
	}
	b.WriteString("/-- `case reflect.Slice:` before the element loop -/\ndef genSliceLen (f1 f2 : List α) : Bool :=\n" + g.stmts(pre, "") + "\n")
	hdr, idx := "", ""
	var body []ast.Stmt
	if loop != nil {
		hdr = g.src(loop.Init) + "; " + g.src(loop.Cond) + "; " + g.src(loop.Post)
		if as, ok := loop.Init.(*ast.AssignStmt); ok && len(as.Lhs) == 1 {
			idx = g.src(as.Lhs[0])
		}
		body = loop.Body.List
	}
	fmt.Fprintf(&b, "def genSliceLoop : String := %q\ndef genSliceAfterLoop : Nat := %d\n", hdr, post)
	b.WriteString("/-- the body of the element loop on the elements `f1.Index(i)`, `f2.Index(i)` -/\ndef genSliceElem (close : α → α → Bool) (f1_i f2_i : α) : Bool :=\n" + g.stmts(body, idx) + "\n")
	ptr := ""
	for _, s := range cases["Ptr"] {
		ptr += g.src(s) + "; "
	}
	fmt.Fprintf(&b, "/-- `case reflect.Ptr:` (source text) -/\ndef genPtrCase : String := %q\n\n", strings.TrimSpace(ptr))

	// ---- (*SR).Equal, NewTransform, Decoder.SR: source text of the deciding statements
	fnBody := func(name string, n int) string {
		fd := funcs[name]
		if fd == nil {
			return "missing " + name
		}
		var out []string
		for i, s := range fd.Body.List {
			if i >= n {
				break
			}
			out = append(out, g.src(s))
		}
		return strings.Join(out, " ;; ")
	}
	fmt.Fprintf(&b, "/-- `(*SR).Equal` -/\ndef genEqualMethod : String := %q\n", fnBody("*SR.Equal", 9))
	// NewTransform: the statements before the closure is returned
	nt := funcs["*SR.NewTransform"]
	var ntPre []string
	ulp := "0"
	if nt != nil {
		for _, s := range nt.Body.List {
			if _, ok := s.(*ast.ReturnStmt); ok {
				break
			}
			ntPre = append(ntPre, g.src(s))
			if ifs, ok := s.(*ast.IfStmt); ok {
				if c, ok := ifs.Cond.(*ast.CallExpr); ok && len(c.Args) == 2 {
					if sel, ok := c.Fun.(*ast.SelectorExpr); ok && sel.Sel.Name == "Equal" {
						if l, ok := c.Args[1].(*ast.BasicLit); ok {
							ulp = l.Value
						}
					}
				}
			}
		}
	}
	fmt.Fprintf(&b, "/-- `(*SR).NewTransform` before it returns the closure -/\ndef genNewTransformPre : String := %q\n/-- the tolerance of its `Equal` call -/\ndef genNilUlp : Nat := %s\n", strings.Join(ntPre, " ;; "), ulp)
	fmt.Fprintf(&b, "/-- `(*Decoder).SR` of encoding/shp/shp.go -/\ndef genDecoderSR : String := %q\n", fnBody("*Decoder.SR", 9))
	b.WriteString("\nend\nend GeomV.C20\n")
	return b.String()
}
