// Harness for C20 (a CRS means the same as PROJ.4, as OGC WKT, or by registered name).
//
//	gen --seed S --tier T   write case lines
//	impl                    read case lines (after lean:prep), run the real code, append " => result"
//	tables [repo]           print lean/GeomV/C20/Tables.lean from the Go source (pregen hook)
//	wktgen [repo]           print lean/GeomV/C20/WktGen.lean: the PARAMETER switch, the tail of wkt(), the use of the UNIT factor, the .prj path (pregen hook)
//	equalgen [repo]         print lean/GeomV/C20/EqualGen.lean: struct shapes and the translated body of `equal` (pregen hook)
//
// Line kinds (see lean/GeomV/C20/Main.lean):
//
//	crs <kind> <lat0> <lat1> <lat2> <lon0> <k0> <fe> <fn> <feM> <fnM> <a> <rf> <tw> <unit> <datum> <style> <glon> <glat>
//	     -> prep rewrites it to  pair <the same tokens> | <hex PROJ.4> <hex WKT>
//	raw <hex def>            parse one definition, dump the SR
//	eq <hex defA> <hex defB> Equal both ways, NewTransform nil-ness
//	reg <name>               -> prep appends `| <hex definition string of global.go>`
//	prj <hex bytes>          Decoder.SR() of a .prj file with these bytes vs Parse
//	prjn <hex name> <call> <hex bytes> <hex decoy>   the same for a layer of that name (dots, directories) among decoy .prj files
//	pair2 <hex defA> <hex defB> <glon> <glat>   two spellings of one CRS: transform agreement only
package main

import (
	"bufio"
	"encoding/hex"
	"fmt"
	"io/ioutil"
	"math"
	"os"
	"path/filepath"
	"reflect"
	"strings"

	"github.com/ctessum/geom"
	"github.com/ctessum/geom/encoding/shp"
	"github.com/ctessum/geom/proj"

	"verif/harness/vproto"
)

func hx(s string) string {
	if s == "" {
		return "-"
	}
	return hex.EncodeToString([]byte(s))
}

func unhx(s string) string {
	if s == "-" {
		return ""
	}
	b, err := hex.DecodeString(s)
	if err != nil {
		panic(err)
	}
	return string(b)
}

func fl(f float64) string {
	if math.IsNaN(f) {
		return "nan"
	}
	if f == 0 {
		return "0000000000000000"
	}
	return vproto.F2H(f)
}

// dumpValue prints every field of a struct in declaration order (unexported ones included).
func dumpValue(b *strings.Builder, v reflect.Value) {
	for i := 0; i < v.NumField(); i++ {
		f := v.Field(i)
		switch f.Kind() {
		case reflect.Float64:
			b.WriteString(" " + fl(f.Float()))
		case reflect.Int:
			fmt.Fprintf(b, " %d", f.Int())
		case reflect.Bool:
			if f.Bool() {
				b.WriteString(" 1")
			} else {
				b.WriteString(" 0")
			}
		case reflect.String:
			b.WriteString(" s" + hx(f.String()))
		case reflect.Slice:
			fmt.Fprintf(b, " %d", f.Len())
			for j := 0; j < f.Len(); j++ {
				b.WriteString(" " + fl(f.Index(j).Float()))
			}
		case reflect.Ptr:
			if f.IsNil() {
				b.WriteString(" n")
			} else {
				b.WriteString(" d")
				dumpValue(b, f.Elem())
			}
		default:
			fmt.Fprintf(b, " ?%s", f.Kind())
		}
	}
}

func dump(sr *proj.SR) string {
	var b strings.Builder
	dumpValue(&b, reflect.ValueOf(sr).Elem())
	return strings.TrimSpace(b.String())
}

// parseRes: "ok <dump> ;" | "err ;" | "panic ;"
func parseRes(def string) (*proj.SR, string) {
	var sr *proj.SR
	var err error
	if p := vproto.Safe(func() { sr, err = proj.Parse(def) }); p != "" {
		return nil, "panic ;"
	}
	if err != nil || sr == nil {
		return nil, "err ;"
	}
	return sr, "ok " + dump(sr) + " ;"
}

func tf(b bool) string {
	if b {
		return "t"
	}
	return "f"
}

func equalRes(a, b *proj.SR) string {
	if a == nil || b == nil {
		return "na"
	}
	var r bool
	if p := vproto.Safe(func() { r = a.Equal(b, 3) }); p != "" {
		return "panic"
	}
	return tf(r)
}

func nilRes(a, b *proj.SR) string {
	if a == nil || b == nil {
		return "na"
	}
	var t proj.Transformer
	var err error
	if p := vproto.Safe(func() { t, err = a.NewTransform(b) }); p != "" {
		return "panic"
	}
	if err != nil {
		return "err"
	}
	return tf(t == nil)
}

// xf transforms one point with a fresh transformer; "x y ok" | "nan nan err" | "- - nil" | panic
func xf(a, b *proj.SR, x, y float64) (float64, float64, string) {
	if a == nil || b == nil {
		return math.NaN(), math.NaN(), "na"
	}
	var X, Y float64
	st := "ok"
	if p := vproto.Safe(func() {
		t, err := a.NewTransform(b)
		if err != nil {
			st = "err"
			return
		}
		if t == nil {
			X, Y = x, y
			st = "nil"
			return
		}
		X, Y, err = t(x, y)
		if err != nil {
			st = "err"
		}
	}); p != "" {
		return math.NaN(), math.NaN(), "panic"
	}
	return X, Y, st
}

var offsets = [][2]float64{{0, 0}, {-2.5, -2.5}, {2.5, -2.5}, {-2.5, 2.5}, {2.5, 2.5}, {0.37, 1.91}, {-1.13, -0.77}, {2.01, 0.05}, {-0.003, 2.4}}

// a geographic reference with a 7-parameter datum: against it the closure of NewTransform takes the two-hop route
// through defs["WGS84"] unless the other side's DatumCode is WGS84 in any case (strings.EqualFold, fix b165df1; before it the
// comparison was with the literal "WGS84", so a WKT-parsed reference, whose code is "wgs84", took the two hops)
const besselDef = "+proj=longlat +ellps=bessel +towgs84=598.1,73.7,418.2,0.202,0.045,-2.455,6.7 +no_defs"

// grid: positions through both references to and from WGS84
func grid(b *strings.Builder, P, W *proj.SR, glon, glat float64) {
	wgs, _ := proj.Parse("WGS84")
	gridVia(b, wgs, P, W, glon, glat)
}

// gridVia: positions through both references to and from the geographic reference `wgs`
func gridVia(b *strings.Builder, wgs, P, W *proj.SR, glon, glat float64) {
	fmt.Fprintf(b, " GRID %d", len(offsets))
	for _, o := range offsets {
		lon, lat := glon+o[0], glat+o[1]
		if lat > 84 {
			lat = 84
		}
		if lat < -84 {
			lat = -84
		}
		xp, yp, sp := xf(wgs, P, lon, lat)
		xw, yw, sw := xf(wgs, W, lon, lat)
		// inverse from the position P produced (identical input to both)
		lp, bp, sip := xf(P, wgs, xp, yp)
		lw, bw, siw := xf(W, wgs, xp, yp)
		fmt.Fprintf(b, " %s %s %s %s %s %s %s %s %s %s %s %s %s %s", fl(lon), fl(lat), fl(xp), fl(yp), sp, fl(xw), fl(yw), sw,
			fl(lp), fl(bp), sip, fl(lw), fl(bw), siw)
	}
}

// twin: two definitions that may or may not denote the same CRS; every use gets FRESH references
// (LCC/Merc write defaults into the SR when their projection functions are first built)
func twin(b *strings.Builder, da, db string, glon, glat float64) {
	A, ra := parseRes(da)
	B, rb := parseRes(db)
	st := func(r string) string { return r[:strings.Index(r+" ", " ")] }
	eab, eba := equalRes(A, B), equalRes(B, A)
	A1, _ := parseRes(da)
	B1, _ := parseRes(db)
	nab := nilRes(A1, B1)
	A2, _ := parseRes(da)
	B2, _ := parseRes(db)
	nba := nilRes(B2, A2)
	fmt.Fprintf(b, "A %s B %s EQ %s %s NIL %s %s", st(ra), st(rb), eab, eba, nab, nba)
	A3, _ := parseRes(da)
	B3, _ := parseRes(db)
	grid(b, A3, B3, glon, glat)
}

func dec(s string) float64 {
	var f float64
	fmt.Sscanf(s, "%g", &f)
	return f
}

type keptSR struct {
	sr *proj.SR
	d  string
}

// references of earlier hist lines, re-inspected at every later hist line ("late check")
var kept []keptSR

var prjBase string

func prjSR(data string) (*proj.SR, string) {
	if prjBase == "" {
		dir, err := ioutil.TempDir("", "c20-prj")
		if err != nil {
			panic(err)
		}
		prjBase = filepath.Join(dir, "x")
		type rec struct {
			geom.Point
			ID int
		}
		e, err := shp.NewEncoder(prjBase+".shp", rec{})
		if err != nil {
			panic(err)
		}
		if err := e.Encode(rec{Point: geom.Point{X: 1, Y: 2}, ID: 1}); err != nil {
			panic(err)
		}
		e.Close()
	}
	if err := ioutil.WriteFile(prjBase+".prj", []byte(data), 0644); err != nil {
		panic(err)
	}
	var sr *proj.SR
	var err error
	if p := vproto.Safe(func() {
		d, e := shp.NewDecoder(prjBase + ".shp")
		if e != nil {
			err = e
			return
		}
		defer d.Close()
		sr, err = d.SR()
	}); p != "" {
		return nil, "panic ;"
	}
	if err != nil || sr == nil {
		return nil, "err ;"
	}
	return sr, "ok " + dump(sr) + " ;"
}

// prjNamed: a layer <dir>/<name>.shp with its own <name>.prj (bytes `data`) among DECOY .prj files that a wrong rule for
// deriving the .prj path would pick up: one for every dot-prefix of the base name (zones.prj next to zones.v2.prj, ".prj"
// for a layer ".hidden"), <name>.shp.prj, <name>.prj.prj's neighbours, and a "prj" / ".prj" in the directory above.
// call: "ext" = NewDecoder(<name>.shp), "noext" = NewDecoder(<name>), "dotdot" = NewDecoder(<dir>/sub.d/../<name>.shp).
// decoy == "" : no decoys (a wrong path then gives "no such file").
func prjNamed(name, call, data, decoy string) (*proj.SR, string) {
	if prjBase == "" {
		prjSR("") // makes the template layer prjBase.{shp,shx,dbf}
	}
	root, err := ioutil.TempDir(filepath.Dir(prjBase), "n")
	if err != nil {
		panic(err)
	}
	defer os.RemoveAll(root)
	full := filepath.Join(root, filepath.FromSlash(name))
	if err := os.MkdirAll(filepath.Dir(full), 0755); err != nil {
		panic(err)
	}
	if err := os.MkdirAll(filepath.Join(filepath.Dir(full), "sub.d"), 0755); err != nil {
		panic(err)
	}
	for _, ext := range []string{".shp", ".shx", ".dbf"} {
		b, err := ioutil.ReadFile(prjBase + ext)
		if err != nil {
			panic(err)
		}
		if err := ioutil.WriteFile(full+ext, b, 0644); err != nil {
			panic(err)
		}
	}
	if decoy != "" {
		dir, base := filepath.Dir(full), filepath.Base(full)
		var ds []string
		for i := 0; i < len(base); i++ {
			if base[i] == '.' {
				ds = append(ds, filepath.Join(dir, base[:i]+".prj"), filepath.Join(dir, base[:i]+".PRJ"))
			}
		}
		ds = append(ds, full+".shp.prj", full+".prj.prj", full+".PRJ", full+"prj", filepath.Join(dir, "prj"),
			filepath.Join(dir, ".prj"), filepath.Join(dir, "sub.d", base+".prj"), dir+".prj")
		for _, d := range ds {
			if d == full+".prj" {
				continue
			}
			if err := ioutil.WriteFile(d, []byte(decoy), 0644); err != nil {
				panic(err)
			}
		}
	}
	// written LAST: a decoy never overwrites the layer's own file; data "!" = the layer has NO .prj of its own
	if data == "!" {
		os.Remove(full + ".prj")
	} else if err := ioutil.WriteFile(full+".prj", []byte(data), 0644); err != nil {
		panic(err)
	}
	arg := full + ".shp"
	switch call {
	case "noext":
		arg = full
	case "dotdot":
		arg = filepath.Dir(full) + "/sub.d/../" + filepath.Base(full) + ".shp"
	}
	var sr *proj.SR
	if p := vproto.Safe(func() {
		d, e := shp.NewDecoder(arg)
		if e != nil {
			err = e
			return
		}
		defer d.Close()
		sr, err = d.SR()
	}); p != "" {
		return nil, "panic ;"
	}
	if err != nil || sr == nil {
		return nil, "err ;"
	}
	return sr, "ok " + dump(sr) + " ;"
}

func implLine(line string, out *bufio.Writer) {
	t := strings.Fields(line)
	if t[0] == "lreg" || t[0] == "lregalias" { // late registry checks: same calls as reg / regalias
		t[0] = t[0][1:]
	}
	var b strings.Builder
	switch t[0] {
	case "pair":
		bar := -1
		for i, x := range t {
			if x == "|" {
				bar = i
			}
		}
		p4, w := unhx(t[bar+1]), unhx(t[bar+2])
		P, rp := parseRes(p4)
		W, rw := parseRes(w)
		P2, _ := parseRes(p4)
		W2, _ := parseRes(w)
		fmt.Fprintf(&b, "P %s W %s EQ %s %s %s %s NIL %s %s %s", rp, rw, equalRes(P, P2), equalRes(W, W2), equalRes(P, W), equalRes(W, P),
			nilRes(P, P2), nilRes(W, W2), nilRes(P, W))
		grid(&b, P, W, dec(t[bar-2]), dec(t[bar-1]))
		// second grid: to and from a reference with a 7-parameter datum (fresh references: LCC/Merc write defaults)
		if bes, _ := parseRes(besselDef); bes != nil {
			P3, _ := parseRes(p4)
			W3, _ := parseRes(w)
			gridVia(&b, bes, P3, W3, dec(t[bar-2]), dec(t[bar-1]))
		}
	case "twinx":
		bar := -1
		for i, x := range t {
			if x == "|" {
				bar = i
			}
		}
		glon, glat := dec(t[bar-2]), dec(t[bar-1])
		b.WriteString("P4 ")
		twin(&b, unhx(t[bar+1]), unhx(t[bar+2]), glon, glat)
		b.WriteString(" WKT ")
		twin(&b, unhx(t[bar+3]), unhx(t[bar+4]), glon, glat)
	case "twin2":
		twin(&b, unhx(t[1]), unhx(t[2]), dec(t[3]), dec(t[4]))
	case "pair2":
		A, ra := parseRes(unhx(t[1]))
		B, rb := parseRes(unhx(t[2]))
		fmt.Fprintf(&b, "P %s W %s", ra[:strings.Index(ra+" ", " ")], rb[:strings.Index(rb+" ", " ")])
		grid(&b, A, B, dec(t[3]), dec(t[4]))
	case "raw":
		_, r := parseRes(unhx(t[1]))
		b.WriteString(r)
	case "eq":
		A, ra := parseRes(unhx(t[1]))
		B, rb := parseRes(unhx(t[2]))
		A2, _ := parseRes(unhx(t[1]))
		fmt.Fprintf(&b, "A %s B %s EQ %s %s %s NIL %s %s", ra, rb, equalRes(A, B), equalRes(B, A), equalRes(A, A2), nilRes(A, B), nilRes(B, A))
	case "reg":
		N, rn := parseRes(t[1])
		def := ""
		if len(t) > 3 && t[3] != "none" {
			def = unhx(t[3])
		}
		D, rd := parseRes(def)
		// use the registered reference, then look again: the shared definition must not have moved
		wgs, _ := proj.Parse("EPSG:4269")
		x1, y1, s1 := xf(wgs, N, 10.5, 45.25)
		x2, y2, s2 := xf(N, wgs, x1, y1)
		_, rn2 := parseRes(t[1])
		fmt.Fprintf(&b, "N %s D %s N2 %s EQ %s %s NIL %s USE %s %s %s %s %s %s", rn, rd, rn2, equalRes(N, D), equalRes(D, N), nilRes(N, D),
			fl(x1), fl(y1), s1, fl(x2), fl(y2), s2)
		grid(&b, N, D, -71.3, 42.7) // off the equator: through the name and through its definition string
	case "reghist":
		// reghist <hex text>... | <name> <hex def>... | <alias> <target>...
		sec := 0
		var names, als []string
		for _, x := range t[1:] {
			if x == "|" {
				sec++
				continue
			}
			switch sec {
			case 0:
				parseRes(unhx(x)) // the history: its results are not used
			case 1:
				names = append(names, x)
			default:
				als = append(als, x)
			}
		}
		st := func(r string) string { return r[:strings.Index(r+" ", " ")] }
		emit := func(label, a, bdef string) {
			A, ra := parseRes(a)
			B, rb := parseRes(bdef)
			fmt.Fprintf(&b, " R %s %s %s EQ %s %s NIL %s", label, st(ra), st(rb), equalRes(A, B), equalRes(B, A), nilRes(A, B))
			grid(&b, A, B, 11.3, 48.1)
		}
		for i := 0; i+1 < len(names); i += 2 {
			emit(names[i], names[i], unhx(names[i+1]))
		}
		for i := 0; i+1 < len(als); i += 2 {
			emit(als[i]+"~"+als[i+1], als[i], als[i+1])
		}
	case "regalias":
		A, ra := parseRes(t[1])
		T, rt := parseRes(t[2])
		fmt.Fprintf(&b, "A %s T %s EQ %s %s NIL %s %s", ra, rt, equalRes(A, T), equalRes(T, A), nilRes(A, T), nilRes(T, A))
		grid(&b, A, T, 23.6, -37.8)
	case "histall":
		// histall <n> | <hex def>... : parse every text once and keep the references, parse them all n more
		// times, then look at the kept references again (late check of the whole batch, on one line)
		type kd struct {
			sr *proj.SR
			d  string
		}
		var ks []kd
		for _, h := range t[3:] {
			if sr, d := parseRes(unhx(h)); sr != nil {
				ks = append(ks, kd{sr, d})
			}
		}
		for i := 0; i < int(dec(t[1])); i++ {
			for _, h := range t[3:] {
				parseRes(unhx(h))
			}
		}
		changed, first := 0, -1
		for i, k := range ks {
			if "ok "+dump(k.sr)+" ;" != k.d {
				changed++
				if first < 0 {
					first = i
				}
			}
		}
		fmt.Fprintf(&b, "CHANGED %d OF %d FIRST %d", changed, len(ks), first)
	case "hist":
		// hist <key> <kind> <n> | <hex PROJ.4 naming the datum> <hex WKT spelling it out>
		p4, w := unhx(t[5]), unhx(t[6])
		n := int(dec(t[3]))
		P1, d1 := parseRes(p4)
		last := P1
		dn := d1
		for i := 1; i < n; i++ {
			last, dn = parseRes(p4)
		}
		W, dw := parseRes(w)
		var g1, g2 strings.Builder
		glon, glat := 2.5, 49.5
		grid(&g1, P1, W, glon, glat)
		grid(&g2, last, W, glon, glat)
		// late check: the first reference, and every reference kept from earlier hist lines of this process
		dl := "err ;"
		if P1 != nil {
			dl = "ok " + dump(P1) + " ;"
		}
		prev := 0
		for _, k := range kept {
			if dump(k.sr) != k.d {
				prev++
			}
		}
		if P1 != nil {
			kept = append(kept, keptSR{P1, dump(P1)})
		}
		fmt.Fprintf(&b, "H %s L %s N %s W %s PREV %d%s%s", d1, dl, dn, dw, prev, g1.String(), g2.String())
	case "prj":
		data := unhx(t[1])
		_, rs := prjSR(data)
		_, rp := parseRes(data)
		fmt.Fprintf(&b, "S %s P %s", rs, rp)
	case "prjn":
		// prjn <hex layer name> ext|noext|dotdot <hex bytes of its .prj> <hex bytes of the decoy .prj files>
		data := "!" // no .prj at all: SR() must fail, whatever else lies around
		rp := "err ;"
		if t[3] != "!" {
			data = unhx(t[3])
			_, rp = parseRes(data)
		}
		_, rs := prjNamed(unhx(t[1]), t[2], data, unhx(t[4]))
		fmt.Fprintf(&b, "S %s P %s", rs, rp)
	default:
		b.WriteString("skipped")
	}
	fmt.Fprintf(out, "%s => %s\n", line, b.String())
	out.Flush()
}

func main() {
	if len(os.Args) < 2 {
		fmt.Fprintln(os.Stderr, "usage: c20 gen|impl|tables")
		os.Exit(2)
	}
	switch os.Args[1] {
	case "tables":
		repo := "/repo"
		if len(os.Args) > 2 {
			repo = os.Args[2]
		}
		fmt.Print(tables(repo))
	case "equalgen":
		repo := "/repo"
		if len(os.Args) > 2 {
			repo = os.Args[2]
		}
		fmt.Print(equalGen(repo))
	case "routegen":
		repo := "/repo"
		if len(os.Args) > 2 {
			repo = os.Args[2]
		}
		fmt.Print(routeGen(repo))
	case "wktgen":
		repo := "/repo"
		if len(os.Args) > 2 {
			repo = os.Args[2]
		}
		fmt.Print(wktGenOut(repo))
	case "gen":
		seed, tier := vproto.SeedTier(os.Args[2:])
		gen(seed, tier)
	case "impl":
		vproto.Lines(implLine)
		if prjBase != "" {
			os.RemoveAll(filepath.Dir(prjBase))
		}
	}
}
