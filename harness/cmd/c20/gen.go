package main

import (
	"bufio"
	"fmt"
	"math/big"
	"os"
	"strings"

	"verif/harness/vproto"
)

// D is a decimal number mant * 10^-scale, printed exactly.
type D struct {
	mant  *big.Int
	scale int
}

func dInt(n int64, scale int) D { return D{big.NewInt(n), scale} }

func (d D) String() string {
	neg := d.mant.Sign() < 0
	s := new(big.Int).Abs(d.mant).String()
	if d.scale > 0 {
		for len(s) <= d.scale {
			s = "0" + s
		}
		s = s[:len(s)-d.scale] + "." + s[len(s)-d.scale:]
	}
	if neg {
		s = "-" + s
	}
	return s
}

func (d D) mul(e D) D { return D{new(big.Int).Mul(d.mant, e.mant), d.scale + e.scale} }

// rnd draws a decimal in [lo, hi] (integers) with 0..maxFrac fractional digits.
func rnd(r *vproto.Rng, lo, hi int64, maxFrac int) D {
	k := r.Intn(maxFrac + 1)
	p := int64(1)
	for i := 0; i < k; i++ {
		p *= 10
	}
	span := (hi - lo) * p
	v := lo*p + int64(r.U64()%uint64(span+1))
	return dInt(v, k)
}

var ellipsoids = [][2]string{ // (a, 1/f) of built-in ellipsoids that are given by rf
	{"6378137", "298.257222101"}, {"6378137", "298.257223563"}, {"6377397.155", "299.1528128"}, {"6378388", "297"},
	{"6378206.4", "294.9786982"}, {"6378249.145", "293.4663"}, {"6378245", "298.3"}, {"6377563.396", "299.3249646"},
	{"6378160", "298.25"}, {"6378135", "298.26"}, {"6377276.345", "300.8017"}, {"6376896", "300.8017"},
}

func parseD(s string) D {
	neg := strings.HasPrefix(s, "-")
	s = strings.TrimPrefix(s, "-")
	sc := 0
	if i := strings.Index(s, "."); i >= 0 {
		sc = len(s) - i - 1
		s = s[:i] + s[i+1:]
	}
	m, _ := new(big.Int).SetString(s, 10)
	if neg {
		m.Neg(m)
	}
	return D{m, sc}
}

var usft = parseD("0.3048006096012192")

func genCrs(r *vproto.Rng, w *bufio.Writer, forceKind string) {
	fmt.Fprintf(w, "crs %s\n", crsTokens(r, forceKind))
}

// round replaces d, with a fixed share, by an exact zero or an exact integer (zero-versus-unset and
// truncation slips only show on such values)
func round(r *vproto.Rng, d D, lo, hi int64) D {
	switch r.Intn(10) {
	case 0, 1:
		return dInt(0, r.Intn(2))
	case 2, 3:
		return dInt(lo+int64(r.U64()%uint64(hi-lo+1)), 0)
	}
	return d
}

// crsTokens draws one description: the 16 tokens of a crs line followed by the grid centre
func crsTokens(r *vproto.Rng, forceKind string) string {
	kinds := []string{"geog", "merc", "lcc", "aea", "eqdc", "tmerc"}
	kind := kinds[r.Intn(len(kinds))]
	if forceKind != "" {
		kind = forceKind
	}
	lat1 := rnd(r, 5, 70, 10)
	lat2 := rnd(r, 5, 70, 10)
	lat0 := rnd(r, 0, 75, 10)
	lat1 = round(r, lat1, 5, 70)
	if lat1.mant.Sign() == 0 {
		lat1 = dInt(33, 0)
	}
	lat2 = round(r, lat2, 5, 70)
	if lat2.mant.Sign() == 0 || r.Chance(0.1) {
		lat2 = lat1 // tangent cone
	}
	lat0 = round(r, lat0, 0, 75)
	if (kind == "lcc" || kind == "tmerc") && r.Chance(0.03) {
		lat0 = dInt(90, 0)
	}
	if r.Bool() { // southern hemisphere: all three together so that lat1 + lat2 != 0
		lat0 = D{new(big.Int).Neg(lat0.mant), lat0.scale}
		lat1 = D{new(big.Int).Neg(lat1.mant), lat1.scale}
		lat2 = D{new(big.Int).Neg(lat2.mant), lat2.scale}
	}
	lon0 := round(r, rnd(r, -179, 179, 10), -179, 179)
	k0 := rnd(r, 0, 0, 0)
	switch r.Intn(4) {
	case 0:
		k0 = dInt(1, 0)
	case 1:
		k0 = dInt(9996, 4)
	default:
		k0 = rnd(r, 0, 0, 0)
		k0 = D{big.NewInt(900000 + int64(r.Intn(200001))), 6}
	}
	unit := []string{"metre", "metre", "foot", "usFootDec", "usFoot"}[r.Intn(5)]
	if kind == "geog" {
		unit = "metre"
	}
	fe := rnd(r, -9000000, 9000000, 4)
	fn := rnd(r, -9000000, 9000000, 4)
	fe = round(r, fe, -9000000, 9000000)
	fn = round(r, fn, -9000000, 9000000)
	var feM, fnM D
	switch unit {
	case "metre":
		feM, fnM = fe, fn
	case "foot":
		feM, fnM = fe.mul(dInt(3048, 4)), fn.mul(dInt(3048, 4))
	case "usFootDec":
		feM, fnM = fe.mul(usft), fn.mul(usft)
	default: // usFoot: 1200/3937 is not a decimal; the PROJ.4 value is rounded to 1e-10 m
		conv := func(d D) D {
			// round(d * 1200/3937, 10 digits)
			num := new(big.Int).Mul(d.mant, big.NewInt(1200))
			num.Mul(num, new(big.Int).Exp(big.NewInt(10), big.NewInt(10), nil))
			den := new(big.Int).Mul(big.NewInt(3937), new(big.Int).Exp(big.NewInt(10), big.NewInt(int64(d.scale)), nil))
			q := new(big.Rat).SetFrac(num, den)
			f := new(big.Float).SetPrec(400).SetRat(q)
			half := big.NewFloat(0.5)
			if f.Sign() < 0 {
				f.Sub(f, half)
			} else {
				f.Add(f, half)
			}
			i, _ := f.Int(nil)
			return D{i, 10}
		}
		feM, fnM = conv(fe), conv(fn)
	}
	var a, rf D
	if r.Chance(0.5) {
		e := ellipsoids[r.Intn(len(ellipsoids))]
		a, rf = parseD(e[0]), parseD(e[1])
	} else {
		a = rnd(r, 6300000, 6400000, 3)
		rf = rnd(r, 150, 400, 9)
	}
	datum := "custom"
	tw := "none"
	switch r.Intn(10) {
	case 0:
		datum = "wgs84"
	case 1:
		datum = "nad83"
	case 2: // no stated tie to WGS84 (known finding `noshift`)
		if r.Bool() {
			tw = "0,0,0"
		}
	default:
		n := 3
		if r.Bool() {
			n = 7
		}
		var ts []string
		for i := 0; i < n; i++ {
			v := rnd(r, -700, 700, 4)
			if i >= 3 {
				v = rnd(r, -9, 9, 5)
				if r.Chance(0.2) {
					v = dInt(0, 0)
				}
			}
			if i > 0 && r.Chance(0.25) {
				v = dInt(0, r.Intn(2))
			}
			if i == 0 && v.mant.Sign() == 0 {
				v = dInt(17, 1)
			}
			ts = append(ts, v.String())
		}
		tw = strings.Join(ts, ",")
	}
	if datum == "custom" && r.Chance(0.5) {
		// names close to entries of the library's datum tables (WGS_1972, NAD83 HARN, ...): index into customDatumNames
		datum = fmt.Sprintf("custom:%d", 1+r.Intn(10))
	}
	style := ""
	for _, c := range "easxkt" {
		if r.Chance(0.35) {
			style += string(c)
		}
	}
	// clause order: u = UNIT before PROJECTION/PARAMETERs, m = UNIT between PARAMETERs, p = PROJECTION last,
	// g = GEOGCS last, w = TOWGS84 before SPHEROID, f = AUTHORITY first
	switch r.Intn(4) {
	case 0:
		style += "u"
	case 1:
		style += "m"
	}
	for _, c := range "pgwf" {
		if r.Chance(0.3) {
			style += string(c)
		}
	}
	if style == "" {
		style = "-"
	}
	// grid centre
	glon := lon0
	glat := lat0
	switch kind {
	case "merc":
		glat = rnd(r, -60, 60, 3)
	case "geog":
		glon, glat = rnd(r, -170, 170, 3), rnd(r, -75, 75, 3)
	case "lcc", "aea", "eqdc":
		glat = lat1
	}
	return fmt.Sprintf("%s %s %s %s %s %s %s %s %s %s %s %s %s %s %s %s %s %s", kind, lat0, lat1, lat2, lon0, k0, fe, fn, feM, fnM, a, rf, tw, unit, datum, style, glon, glat)
}

// shiftList draws a datum shift of n terms whose first term is positive (so that changing one term never
// makes the translation vanish)
func shiftList(r *vproto.Rng, n int) string {
	var ts []string
	for i := 0; i < n; i++ {
		v := rnd(r, -700, 700, 4)
		if i >= 3 {
			v = rnd(r, -9, 9, 5)
		}
		if i > 0 && r.Chance(0.3) {
			v = dInt(0, r.Intn(2))
		}
		if i == 0 {
			v = rnd(r, 17, 700, 3)
		}
		ts = append(ts, v.String())
	}
	return strings.Join(ts, ",")
}

// ---- fixed corpora

var rawCorpus = []string{
	// the definitions of proj_test.go
	"+proj=longlat +ellps=WGS84 +datum=WGS84 +no_defs",
	"+proj=utm +zone=10 +ellps=GRS80 +datum=NAD83 +units=m +no_defs",
	"+proj=lcc +lat_1=33 +lat_2=45 +lat_0=40 +lon_0=-97 +x_0=0 +y_0=0 +a=6370997 +b=6370997 +units=m +no_defs",
	"+proj=merc +a=6378137 +b=6378137 +lat_ts=0.0 +lon_0=0.0 +x_0=0.0 +y_0=0 +k=1.0 +units=m +nadgrids=@null +no_defs",
	"+proj=aea +lat_1=29.5 +lat_2=45.5 +lat_0=23 +lon_0=-96 +x_0=0 +y_0=0 +datum=NAD83 +units=m +no_defs",
	"+proj=tmerc +lat_0=49 +lon_0=-2 +k=0.9996012717 +x_0=400000 +y_0=-100000 +ellps=airy +datum=OSGB36 +units=m +no_defs",
	"+proj=lcc +lat_1=44.33333333333334 +lat_2=46 +lat_0=43.66666666666666 +lon_0=-120.5 +x_0=609601.2192024384 +y_0=152400.3048006096 +a=6378137 +rf=298.257222101 +units=us-ft +no_defs",
	"+proj=krovak +lat_0=49.5 +lon_0=24.83333333333333 +alpha=30.28813972222222 +k=0.9999 +x_0=0 +y_0=0 +ellps=bessel +towgs84=570.8,85.7,462.8,4.998,1.587,5.261,3.56 +units=m +no_defs",
	"+proj=longlat +a=6378137 +rf=298.25 +towgs84=1,2,3",
	"+proj=longlat +a=6378137 +rf=298.25 +towgs84=1,2,3,0,0,0,0",
	"+proj=longlat +a=6378137 +rf=298.25 +towgs84=0,0,0,0,0,0,1",
	"+proj=longlat +a=6378137 +rf=298.25 +towgs84=1",
	"+proj=longlat +a=6378137 +rf=298.25 +towgs84=0,1",
	"+proj=longlat +a=6378137 +rf=298.25 +towgs84=1,2,3,4",
	"+proj=longlat +a=6378137 +rf=298.25 +towgs84=1,2,x",
	"+proj=longlat +ellps=bessel +r_a",
	"+proj=longlat +ellps=sphere",
	"+proj=longlat +ellps=nosuch",
	"+proj=longlat +a=6378137 +b=6378137",
	"+proj=longlat +a=6378137 +rf=0",
	"+proj=longlat +datum=nad27",
	"+proj=longlat +datum=potsdam +axis=wnu",
	"+proj=longlat +datum=nzgd49 +axis=xyz +axis=en",
	"+proj=merc +lon_0=1e1 +k_0=.5 +x_0=+1. +y_0=-.5e+2 +a=6378137 +rf=298.25 +to_meter=0.3048",
	"+proj=merc +lon_0= 5",
	"+proj=merc +lon_0=5 +",
	"+proj=merc +lon_0=inf +x_0=nan +y_0=-Infinity",
	"+proj=merc +a=1e400",
	"+proj=merc +bogus=1",
	"+proj=merc +no_defs=false +south +R_A +Zone=5 +NADGRIDS=@null",
	"+proj=merc +nadgrids=conus +from_greenwich=2.5",
	"  +proj=merc",
	"x+proj=merc",
	"",
	"+",
	"EPSG:9999",
	"+title=has GEOGCS inside +proj=longlat",
	// WKT of proj_test.go style and real-world files
	`GEOGCS["WGS 84",DATUM["WGS_1984",SPHEROID["WGS 84",6378137,298.257223563,AUTHORITY["EPSG","7030"]],AUTHORITY["EPSG","6326"]],PRIMEM["Greenwich",0,AUTHORITY["EPSG","8901"]],UNIT["degree",0.0174532925199433,AUTHORITY["EPSG","9122"]],AUTHORITY["EPSG","4326"]]`,
	`GEOGCS["WGS 84",DATUM["WGS_1984",SPHEROID["WGS 84",6378137,298.257223563,AUTHORITY["EPSG","7030"]],AUTHORITY["EPSG","6326"]],PRIMEM["Greenwich",0,AUTHORITY["EPSG","8901"]],UNIT["degree",0.0174532925199433,AUTHORITY["EPSG","9122"]],AXIS["Latitude",NORTH],AXIS["Longitude",EAST],AUTHORITY["EPSG","4326"]]`,
	`GEOGCS["GCS_North_American_1983",DATUM["D_North_American_1983",SPHEROID["GRS_1980",6378137,298.257222101]],PRIMEM["Greenwich",0],UNIT["Degree",0.017453292519943295]]`,
	`GEOGCS["NAD83", DATUM["North_American_Datum_1983", SPHEROID["GRS 1980", 6378137, 298.257222101]], PRIMEM["Greenwich", 0], UNIT["degree", 0.0174532925199433]]`,
	`GEOGCS["NAD83",UNIT["degree",0.0174532925199433],DATUM["North_American_Datum_1983",SPHEROID["GRS 1980",6378137,298.257222101]],PRIMEM["Greenwich",0]]`,
	`GEOGCS["NTF (Paris)",DATUM["Nouvelle_Triangulation_Francaise_Paris",SPHEROID["Clarke 1880 (IGN)",6378249.2,293.4660212936269]],PRIMEM["Paris",2.33722917],UNIT["grad",0.01570796326794897]]`,
	`GEOGCS["OSGB 1936",DATUM["OSGB_1936",SPHEROID["Airy 1830",6377563.396,299.3249646],TOWGS84[446.448,-125.157,542.06,0.15,0.247,0.842,-20.489]],PRIMEM["Greenwich",0],UNIT["degree",0.0174532925199433]]`,
	`GEOGCS["x",DATUM["D_Belge_1972",SPHEROID["International_1924",6378388,297]],PRIMEM["Greenwich",0],UNIT["degree",0.0174532925199433]]`,
	`GEOGCS["x",DATUM["New_Zealand_Geodetic_Datum_1949",SPHEROID["International 1924",6378388,297]],PRIMEM["Greenwich",0],UNIT["degree",0.0174532925199433]]`,
	`GEOGCS["x",DATUM["D_S_JTSK_Ferro",SPHEROID["Bessel_1841",6377397.155,299.1528128]],PRIMEM["Greenwich",0],UNIT["degree",0.0174532925199433]]`,
	`GEOGCS["x",DATUM["Gunung_Segara_Jakarta",SPHEROID["Clarke_1866",6378206.4,294.9786982]],PRIMEM["Greenwich",0],UNIT["degree",0.0174532925199433]]`,
	`GEOGCS["x",DATUM["",SPHEROID["s",6378137,298.25]],PRIMEM["Greenwich",0],UNIT["degree",0.0174532925199433]]`,
	`GEOGCS["x"]`,
	`GEOGCS[x,DATUM["D_x",SPHEROID["s",6378137,298.25]]]`,
	`GEOGCS["x",DATUM["D_x",SPHEROID["s",6378137]]]`,
	`GEOGCS["x",DATUM["D_x",SPHEROID["s"]]]`,
	`GEOGCS["x",DATUM["D_x",SPHEROID["s",abc,298.25]]]`,
	`GEOGCS["x",DATUM["D_x",SPHEROID["s",6378137,298.25],TOWGS84[1, 2,3 ,x]]]`,
	`GEOGCS["x",DATUM["D_x",SPHEROID["s",6378137,298.25]],UNIT["degree"]]`,
	`GEOGCS["x",DATUM["D_x",SPHEROID["s",6378137,298.25]],FOO["bar"]]`,
	`GEOGCS["x",DATUM["D_x",SPHEROID["s",6378137,298.25]]`,
	`GEOGCS["x",DATUM["D_x",SPHEROID["s",6378137,298.25]]]]`,
	`]GEOGCS["x",DATUM["D_x",SPHEROID["s",6378137,298.25]]]`,
	`LOCAL_CS["arbitrary",UNIT["metre",1]]`,
	`GEOCCS["x",DATUM["D_x",SPHEROID["s",6378137,298.25]]]`,
	`PROJCS["NAD83 / Conus Albers",GEOGCS["NAD83",DATUM["North_American_Datum_1983",SPHEROID["GRS 1980",6378137,298.257222101],TOWGS84[0,0,0,0,0,0,0]],PRIMEM["Greenwich",0],UNIT["degree",0.0174532925199433]],PROJECTION["Albers_Conic_Equal_Area"],PARAMETER["standard_parallel_1",29.5],PARAMETER["standard_parallel_2",45.5],PARAMETER["latitude_of_center",23],PARAMETER["longitude_of_center",-96],PARAMETER["false_easting",0],PARAMETER["false_northing",0],UNIT["metre",1]]`,
	`PROJCS["WGS_1984_Web_Mercator_Auxiliary_Sphere",GEOGCS["GCS_WGS_1984",DATUM["D_WGS_1984",SPHEROID["WGS_1984",6378137.0,298.257223563]],PRIMEM["Greenwich",0.0],UNIT["Degree",0.0174532925199433]],PROJECTION["Mercator_Auxiliary_Sphere"],PARAMETER["False_Easting",0.0],PARAMETER["False_Northing",0.0],PARAMETER["Central_Meridian",0.0],PARAMETER["Standard_Parallel_1",0.0],PARAMETER["Auxiliary_Sphere_Type",0.0],UNIT["Meter",1.0]]`,
	`PROJCS["x",GEOGCS["GCS_North_American_1983",DATUM["D_North_American_1983",SPHEROID["GRS_1980",6378137.0,298.257222101]],PRIMEM["Greenwich",0.0],UNIT["Degree",0.0174532925199433]],PROJECTION["Lambert_Conformal_Conic"],PARAMETER["False_Easting",2000000.0],PARAMETER["False_Northing",500000.0],PARAMETER["Central_Meridian",-120.5],PARAMETER["Standard_Parallel_1",44.33333333333334],PARAMETER["Standard_Parallel_2",46.0],PARAMETER["Latitude_Of_Origin",43.66666666666666],UNIT["Foot_US",0.3048006096012192]]`,
	`PROJCS["x",GEOGCS["g",DATUM["D_x",SPHEROID["s",6378137,298.25]],PRIMEM["Greenwich",0],UNIT["degree",0.0174532925199433]],PROJECTION["Hotine_Oblique_Mercator"],PARAMETER["latitude_of_center",4],PARAMETER["longitude_of_center",115],PARAMETER["azimuth",53.3],PARAMETER["rectified_grid_angle",53.1],PARAMETER["scale_factor",0.99984],PARAMETER["false_easting",0],PARAMETER["false_northing",0],UNIT["metre",1]]`,
	`PROJCS["x",GEOGCS["g",DATUM["D_x",SPHEROID["s",6378137,298.25]],PRIMEM["Greenwich",0],UNIT["degree",0.0174532925199433]],PROJECTION["Mercator_1SP"],PARAMETER["nonsense",4],UNIT["metre",1]]`,
	`PROJCS["x",GEOGCS["g",DATUM["D_x",SPHEROID["s",6378137,298.25]],PRIMEM["Greenwich",0],UNIT["degree",0.0174532925199433]],PROJECTION["Mercator_1SP"],PARAMETER["central_meridian"],UNIT["metre",1]]`,
	`PROJCS["x",GEOGCS["g",DATUM["D_x",SPHEROID["s",6378137,298.25]],PRIMEM["Ferro",-17.4],UNIT["degree",0.0174532925199433]],PROJECTION["Mercator_1SP"],UNIT["metre",1]]`,
	`PROJCS["x",PROJECTION["Mercator_1SP"],GEOGCS["g",DATUM["D_WGS_1984",SPHEROID["s",6378137,298.25]],PRIMEM["Greenwich",0],UNIT["degree",0.0174532925199433]],UNIT["metre",1]]`,
	`PROJCS["sphere",GEOGCS["g",DATUM["D_x",SPHEROID["Sphere",6371000,0],TOWGS84[1,2,3]],PRIMEM["Greenwich",0],UNIT["degree",0.0174532925199433]],PROJECTION["Mercator_1SP"],PARAMETER["central_meridian",10],PARAMETER["scale_factor",1],PARAMETER["false_easting",250000],PARAMETER["false_northing",-40000],UNIT["metre",1]]`,
	`GEOGCS["sphere",DATUM["D_x",SPHEROID["Sphere",6371000,0.0]],PRIMEM["Greenwich",0],UNIT["degree",0.0174532925199433]]`,
	"+proj=merc +a=6371000 +b=6371000 +lon_0=10 +x_0=250000 +y_0=-40000 +towgs84=1,2,3",
	`PROJCS["x",VERT_CS["y"]]`,
	`PROJCS["x"]`,
	`PROJCS["standard_parallel_1 only",GEOGCS["g",DATUM["D_x",SPHEROID["s",6378137,298.25]],PRIMEM["Greenwich",0],UNIT["degree",0.0174532925199433]],PROJECTION["Lambert_Conformal_Conic_1SP"],PARAMETER["standard_parallel_1",41.5],PARAMETER["central_meridian",3],PARAMETER["scale_factor",0.9999],PARAMETER["false_easting",100],PARAMETER["false_northing",200],UNIT["metre",1]]`,
}

var pair2Corpus = [][4]string{
	{"EPSG:3857", `PROJCS["WGS_1984_Web_Mercator_Auxiliary_Sphere",GEOGCS["GCS_WGS_1984",DATUM["D_WGS_1984",SPHEROID["WGS_1984",6378137.0,298.257223563]],PRIMEM["Greenwich",0.0],UNIT["Degree",0.0174532925199433]],PROJECTION["Mercator_Auxiliary_Sphere"],PARAMETER["False_Easting",0.0],PARAMETER["False_Northing",0.0],PARAMETER["Central_Meridian",0.0],PARAMETER["Standard_Parallel_1",0.0],PARAMETER["Auxiliary_Sphere_Type",0.0],UNIT["Meter",1.0]]`, "10", "50"},
	{"+proj=merc +a=6378137 +b=6378137 +lon_0=-100 +x_0=1000 +y_0=-2000 +k=1 +nadgrids=@null", `PROJCS["x",GEOGCS["GCS_WGS_1984",DATUM["D_WGS_1984",SPHEROID["WGS_1984",6378137.0,298.257223563]],PRIMEM["Greenwich",0.0],UNIT["Degree",0.0174532925199433]],PROJECTION["Mercator_Auxiliary_Sphere"],PARAMETER["False_Easting",1000.0],PARAMETER["False_Northing",-2000.0],PARAMETER["Central_Meridian",-100.0],PARAMETER["Standard_Parallel_1",0.0],PARAMETER["Auxiliary_Sphere_Type",0.0],UNIT["Meter",1.0]]`, "-95", "-40"},
	{"EPSG:4326", `GEOGCS["WGS 84",DATUM["WGS_1984",SPHEROID["WGS 84",6378137,298.257223563,AUTHORITY["EPSG","7030"]],AUTHORITY["EPSG","6326"]],PRIMEM["Greenwich",0,AUTHORITY["EPSG","8901"]],UNIT["degree",0.0174532925199433,AUTHORITY["EPSG","9122"]],AXIS["Latitude",NORTH],AXIS["Longitude",EAST],AUTHORITY["EPSG","4326"]]`, "12", "34"},
	{"EPSG:4269", `GEOGCS["GCS_North_American_1983",DATUM["D_North_American_1983",SPHEROID["GRS_1980",6378137,298.257222101]],PRIMEM["Greenwich",0],UNIT["Degree",0.017453292519943295]]`, "-100", "40"},
	{"+proj=aea +lat_1=29.5 +lat_2=45.5 +lat_0=23 +lon_0=-96 +x_0=0 +y_0=0 +datum=NAD83 +units=m +no_defs", `PROJCS["NAD83 / Conus Albers",GEOGCS["NAD83",DATUM["North_American_Datum_1983",SPHEROID["GRS 1980",6378137,298.257222101],TOWGS84[0,0,0,0,0,0,0]],PRIMEM["Greenwich",0],UNIT["degree",0.0174532925199433]],PROJECTION["Albers_Conic_Equal_Area"],PARAMETER["standard_parallel_1",29.5],PARAMETER["standard_parallel_2",45.5],PARAMETER["latitude_of_center",23],PARAMETER["longitude_of_center",-96],PARAMETER["false_easting",0],PARAMETER["false_northing",0],UNIT["metre",1]]`, "-100", "40"},
	{"+proj=lcc +lat_1=44.33333333333334 +lat_2=46 +lat_0=43.66666666666666 +lon_0=-120.5 +x_0=609601.2192024384 +y_0=152400.3048006096 +a=6378137 +rf=298.257222101 +datum=NAD83 +units=us-ft +no_defs", `PROJCS["NAD_1983_StatePlane_Oregon_North_FIPS_3601_Feet",GEOGCS["GCS_North_American_1983",DATUM["D_North_American_1983",SPHEROID["GRS_1980",6378137.0,298.257222101]],PRIMEM["Greenwich",0.0],UNIT["Degree",0.0174532925199433]],PROJECTION["Lambert_Conformal_Conic"],PARAMETER["False_Easting",2000000.0],PARAMETER["False_Northing",500000.0],PARAMETER["Central_Meridian",-120.5],PARAMETER["Standard_Parallel_1",44.33333333333334],PARAMETER["Standard_Parallel_2",46.0],PARAMETER["Latitude_Of_Origin",43.66666666666666],UNIT["Foot_US",0.3048006096012192]]`, "-121", "45"},
}

func init() {
	// WKT that leaves latitude_of_origin to default to standard_parallel_1
	pair2Corpus = append(pair2Corpus, [4]string{
		"+proj=lcc +lat_1=41.5 +lat_0=41.5 +lon_0=3 +x_0=100 +y_0=200 +a=6378388 +rf=297 +towgs84=-87,-98,-121 +units=m +no_defs",
		`PROJCS["x",GEOGCS["g",DATUM["D_x",SPHEROID["s",6378388,297],TOWGS84[-87,-98,-121]],PRIMEM["Greenwich",0],UNIT["degree",0.0174532925199433]],PROJECTION["Lambert_Conformal_Conic"],PARAMETER["Standard_Parallel_1",41.5],PARAMETER["Central_Meridian",3],PARAMETER["False_Easting",100],PARAMETER["False_Northing",200],UNIT["Meter",1]]`,
		"4", "42"})
}

// twin2Corpus: definitions that differ by one parameter being set vs left out (or by nothing that matters)
var twin2Corpus = [][4]string{
	{"+proj=merc +lon_0=15 +a=6378137 +rf=298.257223563 +x_0=0 +y_0=0 +k=1", "+proj=merc +lon_0=15 +a=6378137 +rf=298.257223563 +x_0=0 +y_0=0 +k=1 +lat_ts=40", "20", "45"},
	{"+proj=merc +lon_0=15 +a=6378137 +rf=298.257223563 +x_0=0 +y_0=0 +k=1", "+proj=merc +a=6378137 +rf=298.257223563 +x_0=0 +y_0=0 +k=1", "20", "45"},
	{"+proj=merc +lon_0=0 +a=6378137 +rf=298.257223563 +x_0=0 +y_0=0 +k=1", "+proj=merc +a=6378137 +rf=298.257223563", "20", "45"},
	{"+proj=lcc +lat_1=33 +lat_2=45 +lat_0=40 +lon_0=-97 +x_0=0 +y_0=0 +a=6378137 +rf=298.257222101", "+proj=lcc +lat_1=33 +lat_0=40 +lon_0=-97 +x_0=0 +y_0=0 +a=6378137 +rf=298.257222101", "-100", "38"},
	{"+proj=lcc +lat_1=33 +lat_2=33 +lat_0=40 +lon_0=-97 +x_0=0 +y_0=0 +a=6378137 +rf=298.257222101", "+proj=lcc +lat_1=33 +lat_0=40 +lon_0=-97 +x_0=0 +y_0=0 +a=6378137 +rf=298.257222101", "-100", "38"},
	{"+proj=longlat +a=6378137 +rf=298.25 +towgs84=1,2,3", "+proj=longlat +a=6378137 +rf=298.25 +towgs84=1,2,3 +lat_0=12", "5", "5"},
	{"+proj=longlat +a=6378137 +rf=298.25 +towgs84=1,2,3", "+proj=longlat +a=6378137 +rf=298.25 +towgs84=1,2,3,0,0,0,2.5", "5", "5"},
	{"+proj=tmerc +lat_0=0 +lon_0=9 +k=0.9996 +x_0=500000 +y_0=0 +a=6378137 +rf=298.257223563", "+proj=tmerc +lat_0=0 +lon_0=9 +k=0.9996 +x_0=500000 +y_0=0 +a=6378137 +rf=298.257223563 +zone=32", "10", "50"},
	// references that differ in ONE boolean field only (UTMSouth, NoDefs): not Equal; north and south zones are 10 000 km apart
	{"+proj=utm +zone=33 +ellps=WGS84 +datum=WGS84 +units=m", "+proj=utm +zone=33 +south +ellps=WGS84 +datum=WGS84 +units=m", "15", "-30"},
	{"+proj=utm +zone=19 +south +ellps=GRS80 +towgs84=1,2,3 +units=m", "+proj=utm +zone=19 +ellps=GRS80 +towgs84=1,2,3 +units=m", "-69", "-20"},
	{"+proj=longlat +a=6378137 +rf=298.25 +towgs84=1,2,3", "+proj=longlat +a=6378137 +rf=298.25 +towgs84=1,2,3 +no_defs", "5", "5"},
	// two realisations of a datum on one ellipsoid: equal-length shift lists with different values
	{"+proj=longlat +a=6377397.155 +rf=299.1528128 +towgs84=598.1,73.7,418.2,0.202,0.045,-2.455,6.7 +no_defs", "+proj=longlat +a=6377397.155 +rf=299.1528128 +towgs84=582,105,414,1.04,0.35,-3.08,8.3 +no_defs", "13.4", "52.5"},
	{"+proj=longlat +a=6377397.155 +rf=299.1528128 +towgs84=598.1,73.7,418.2 +no_defs", "+proj=longlat +a=6377397.155 +rf=299.1528128 +towgs84=598.1,73.7,418.3 +no_defs", "13.4", "52.5"},
	{`GEOGCS["Bessel A",DATUM["Local_A",SPHEROID["Bessel 1841 local",6377397.155,299.1528128],TOWGS84[598.1,73.7,418.2,0.202,0.045,-2.455,6.7]],PRIMEM["Greenwich",0],UNIT["degree",0.0174532925199433]]`, `GEOGCS["Bessel A",DATUM["Local_A",SPHEROID["Bessel 1841 local",6377397.155,299.1528128],TOWGS84[598.1,73.7,418.2,0.202,0.045,-2.455,6.8]],PRIMEM["Greenwich",0],UNIT["degree",0.0174532925199433]]`, "13.4", "52.5"},
	{"+proj=tmerc +lat_0=0 +lon_0=9 +k=0.9996 +x_0=500000 +y_0=0 +ellps=bessel +towgs84=598.1,73.7,418.2,0.202,0.045,-2.455,6.7", "+proj=tmerc +lat_0=0 +lon_0=9 +k=0.9996 +x_0=500000 +y_0=0 +ellps=bessel +towgs84=598.1,73.7,418.2,0.212,0.045,-2.455,6.7", "10", "50"},
}

// histCorpus: texts whose AUTHORITY clauses carry codes that ARE registered names; parsing them must not
// touch the registry
func authWkt(code string, proj string, sph string) string {
	return `PROJCS["x",GEOGCS["WGS 84",DATUM["WGS_1984",SPHEROID[` + sph + `,AUTHORITY["EPSG","7030"]],AUTHORITY["EPSG","6326"]],PRIMEM["Greenwich",0,AUTHORITY["EPSG","8901"]],UNIT["degree",0.0174532925199433,AUTHORITY["EPSG","9122"]],AUTHORITY["EPSG","4326"]],` + proj + `,UNIT["metre",1,AUTHORITY["EPSG","9001"]],AXIS["X",EAST],AXIS["Y",NORTH],AUTHORITY["EPSG","` + code + `"]]`
}

var histCorpus = func() []string {
	merc := `PROJECTION["Mercator_1SP"],PARAMETER["central_meridian",0],PARAMETER["scale_factor",1],PARAMETER["false_easting",0],PARAMETER["false_northing",0]`
	tm := `PROJECTION["Transverse_Mercator"],PARAMETER["latitude_of_origin",0],PARAMETER["central_meridian",9],PARAMETER["scale_factor",0.9996],PARAMETER["false_easting",500000],PARAMETER["false_northing",0]`
	var out []string
	for _, code := range []string{"3857", "3785", "900913", "102113", "4326", "4269"} {
		out = append(out, authWkt(code, merc, `"WGS 84",6378137,298.257223563`))
		out = append(out, authWkt(code, tm, `"Bessel 1841",6377397.155,299.1528128`))
	}
	for _, code := range []string{"4326", "4269"} {
		out = append(out, `GEOGCS["mislabelled",DATUM["D_x",SPHEROID["Bessel 1841",6377397.155,299.1528128],TOWGS84[598.1,73.7,418.2,0.202,0.045,-2.455,6.7]],PRIMEM["Greenwich",0],UNIT["degree",0.0174532925199433],AUTHORITY["EPSG","`+code+`"]]`)
	}
	out = append(out, "+title=EPSG:3857 +proj=tmerc +lat_0=0 +lon_0=9 +k=0.9996 +x_0=500000 +y_0=0 +ellps=bessel", "+title=WGS84 +proj=longlat +ellps=bessel +towgs84=598.1,73.7,418.2")
	return out
}()

func init() {
	// every alias of the web Mercator definition against the ESRI text of the same CRS, off the equator
	for _, n := range []string{"EPSG:3785", "GOOGLE", "EPSG:900913", "EPSG:102113"} {
		pair2Corpus = append(pair2Corpus, [4]string{n, pair2Corpus[0][1], "-71", "-42"})
	}
	pair2Corpus = append(pair2Corpus, [4]string{"WGS84", pair2Corpus[2][1], "-71", "-42"})
}

var eqCorpus = [][2]string{
	{"+proj=longlat +a=6378137 +rf=298.25 +towgs84=1,2,3", "+proj=longlat +a=6378137 +rf=298.25 +towgs84=1,2,3,0,0,0,0"},
	{"+proj=longlat +a=6378137 +rf=298.25 +towgs84=1,2,3", "+proj=longlat +a=6378137 +rf=298.25 +towgs84=1,2,3,1,1,1,1"},
	{"+proj=longlat +a=6378137 +rf=298.25 +towgs84=1,2,3", "+proj=longlat +a=6378137 +rf=298.25 +towgs84=1,2,3"},
	{"+proj=longlat +a=6378137 +rf=298.25", "+proj=longlat +a=6378137 +rf=298.25 +towgs84=1,2,3"},
	{"+proj=longlat +a=6378137 +rf=298.25", "+proj=longlat +a=6378137.000000001 +rf=298.25"},
	{"+proj=longlat +a=6378137 +rf=298.25", "+proj=longlat +a=6378137.00000001 +rf=298.25"},
	{"+proj=merc +lon_0=0.1 +a=6378137 +rf=298.25", "+proj=merc +lon_0=0.10000000000000002 +a=6378137 +rf=298.25"},
	{"+proj=merc +lon_0=0.1 +a=6378137 +rf=298.25", "+proj=merc +lon_0=0.1000000000000001 +a=6378137 +rf=298.25"},
	{"+proj=merc +lon_0=0 +a=6378137 +rf=298.25", "+proj=merc +lon_0=-0.0 +a=6378137 +rf=298.25"},
	{"+proj=merc +lon_0=0 +a=6378137 +rf=298.25", "+proj=merc +a=6378137 +rf=298.25"},
	{"+proj=merc +lon_0=1e-320 +a=6378137 +rf=298.25", "+proj=merc +lon_0=-1e-320 +a=6378137 +rf=298.25"},
	{"+proj=merc +x_0=nan +a=6378137 +rf=298.25", "+proj=merc +a=6378137 +rf=298.25"},
	{"+proj=longlat +a=6378137 +rf=298.25 +towgs84=nan,2,3", "+proj=longlat +a=6378137 +rf=298.25 +towgs84=nan,2,3"},
	{"+proj=longlat +a=6378137 +rf=298.25 +towgs84=1,2,3", "+proj=longlat +a=6378137 +rf=298.25 +towgs84=1,2,4"},
	{"+proj=longlat +a=6378137 +rf=298.25 +towgs84=1,2,3", "+proj=longlat +a=6378137 +rf=298.25 +towgs84=1,2,3.0000000000000004"},
	{"+proj=longlat +a=6378137 +rf=298.25 +towgs84=1,2,3,1,1,1,1", "+proj=longlat +a=6378137 +rf=298.25 +towgs84=1,2,3,1,1,1,2"},
	{"+proj=longlat +a=6378137 +rf=298.25 +towgs84=1,2,3,1,1,1,1", "+proj=longlat +a=6378137 +rf=298.25 +towgs84=2,2,3,1,1,1,1"},
	// Equal(.,.,3) is not transitive: false eastings 1, 1+3ulp, 1+6ulp (C20_equal_not_trans): t, t, f
	{"+proj=merc +a=6378137 +rf=298.25 +x_0=1", "+proj=merc +a=6378137 +rf=298.25 +x_0=1.0000000000000007"},
	{"+proj=merc +a=6378137 +rf=298.25 +x_0=1.0000000000000007", "+proj=merc +a=6378137 +rf=298.25 +x_0=1.0000000000000013"},
	{"+proj=merc +a=6378137 +rf=298.25 +x_0=1", "+proj=merc +a=6378137 +rf=298.25 +x_0=1.0000000000000013"},
	{"EPSG:4326", "WGS84"},
	{"EPSG:4326", "+title=WGS 84 (long/lat) +proj=longlat +ellps=WGS84 +datum=WGS84 +units=degrees"},
	{"EPSG:3857", "GOOGLE"},
	{"EPSG:3857", "EPSG:4326"},
	{"+proj=longlat +datum=WGS84", `GEOGCS["WGS 84",DATUM["WGS_1984",SPHEROID["WGS 84",6378137,298.257223563]],PRIMEM["Greenwich",0],UNIT["degree",0.0174532925199433]]`},
}

var regNames = []string{"WGS84", "EPSG:4326", "EPSG:4269", "EPSG:3857", "EPSG:3785", "GOOGLE", "EPSG:900913", "EPSG:102113", "EPSG:27700", "wgs84"}

// mutate makes a spelling variant / damaged copy of a definition
func mutate(r *vproto.Rng, s string) string {
	if s == "" {
		return "+"
	}
	switch r.Intn(9) {
	case 0: // drop a character
		i := r.Intn(len(s))
		return s[:i] + s[i+1:]
	case 1: // blanks after commas
		return strings.ReplaceAll(s, ",", ", ")
	case 2:
		return strings.ReplaceAll(s, ",", " ,")
	case 3: // truncate
		return s[:r.Intn(len(s))]
	case 4: // duplicate a character
		i := r.Intn(len(s))
		return s[:i] + s[i:i+1] + s[i:]
	case 5:
		return strings.ReplaceAll(s, "\"", "")
	case 6:
		return strings.ToUpper(s)
	case 7:
		return strings.ReplaceAll(s, " +", "  +")
	default:
		i := r.Intn(len(s))
		return s[:i] + string("[],+= \"0x_-."[r.Intn(12)]) + s[i:]
	}
}

func gen(seed uint64, tier string) {
	w := bufio.NewWriterSize(os.Stdout, 1<<20)
	defer w.Flush()
	// NewRng(seed) and NewRng(seed+k) are the same splitmix stream shifted by k draws; re-seed from
	// the first (hashed) output so that different seeds give unrelated streams
	r := vproto.NewRng(vproto.NewRng(seed).U64())
	for _, n := range regNames {
		fmt.Fprintf(w, "reg %s\n", n)
	}
	for i := 0; i < 8; i++ {
		fmt.Fprintf(w, "regalias %d\n", i)
	}
	fmt.Fprintf(w, "histall 1\n")
	fmt.Fprintf(w, "histall 2\n")
	// histories on datums used by name (7-term ones first: getDatum rewrites their terms in place)
	for _, k := range []string{"nzgd49", "osgb36", "ire65", "rnb72", "potsdam", "ch1903", "carthage", "ggrs87", "nad83", "wgs84", "hermannskogel", "rassadiran", "s_jtsk", "beduaram", "gunung_segara", "nad27"} {
		fmt.Fprintf(w, "hist %s geog 3\n", k)
		fmt.Fprintf(w, "hist %s tmerc 2\n", k)
	}
	for _, s := range rawCorpus {
		fmt.Fprintf(w, "raw %s\n", hx(s))
	}
	for _, p := range pair2Corpus {
		fmt.Fprintf(w, "pair2 %s %s %s %s\n", hx(p[0]), hx(p[1]), p[2], p[3])
	}
	for _, p := range twin2Corpus {
		fmt.Fprintf(w, "twin2 %s %s %s %s\n", hx(p[0]), hx(p[1]), p[2], p[3])
	}
	// twins: every optional parameter of every projected kind set vs left out, in both notations
	for _, k := range []string{"merc", "lcc", "aea", "eqdc", "tmerc"} {
		for om := 1; om <= 7; om++ {
			f := strings.Fields(crsTokens(r, k))
			fmt.Fprintf(w, "twin %s %d %s %s\n", strings.Join(f[:16], " "), om, f[16], f[17])
		}
	}
	// twins that are two realisations of one datum: the +towgs84 / TOWGS84 lists have the same length and differ in
	// exactly ONE term (every position of 3- and 7-term lists, by 1 and by 0.01), everything else identical
	for ki, k := range []string{"geog", "merc", "lcc", "aea", "eqdc", "tmerc"} {
		for _, n := range []int{3, 7} {
			for i := 0; i < n; i++ {
				f := strings.Fields(crsTokens(r, k))
				f[12] = shiftList(r, n)
				f[14] = "custom"
				if r.Bool() {
					f[14] = fmt.Sprintf("custom:%d", 1+r.Intn(10))
				}
				om := 10 + i
				if (ki+i+n)%2 == 1 {
					om = 20 + i
				}
				fmt.Fprintf(w, "twin %s %d %s %s\n", strings.Join(f[:16], " "), om, f[16], f[17])
			}
		}
	}
	// spheres: PROJ.4 +a=R +b=R vs WKT SPHEROID[..,R,0]
	nSph := 60
	if tier == "thorough" {
		nSph = 1500
	}
	for i := 0; i < nSph; i++ {
		k := []string{"geog", "merc", "lcc", "aea", "eqdc", "tmerc"}[i%6]
		f := strings.Fields(crsTokens(r, k))
		if f[12] == "none" || f[12] == "0,0,0" { // no stated tie to WGS84 is the known finding `noshift`
			if strings.HasPrefix(f[14], "custom") {
				f[12] = shiftList(r, 3+4*r.Intn(2))
			}
		}
		if f[13] == "usFoot" { // 1200/3937 is not a decimal: the two false origins agree to 1e-10 m only
			f[13] = "usFootDec"
			f[8], f[9] = parseD(f[6]).mul(usft).String(), parseD(f[7]).mul(usft).String()
		}
		fmt.Fprintf(w, "sph %s\n", strings.Join(f, " "))
	}
	for _, e := range eqCorpus {
		fmt.Fprintf(w, "eq %s %s\n", hx(e[0]), hx(e[1]))
	}
	for _, s := range rawCorpus[len(rawCorpus)-20:] {
		fmt.Fprintf(w, "prj %s\n", hx(s))
	}
	fmt.Fprintf(w, "prj %s\n", hx(rawCorpus[37]+"\n"))
	// .prj files around the sizes where buffered / truncated reads slip: 1 KiB, 2 KiB, 4 KiB, 64 KiB
	for i, n := range []int{1023, 1024, 1025, 2047, 2049, 4097, 65537} {
		k := []string{"lcc", "tmerc", "aea", "merc", "eqdc", "geog"}[i%6]
		fmt.Fprintf(w, "prjcrs %d %s\n", n, strings.Join(strings.Fields(crsTokens(r, k))[:16], " "))
	}
	// layers whose NAME the .prj path is derived from: dots in the base name, in a directory, leading / trailing dots, blanks,
	// an inner ".shp"/".prj", given with and without the extension and through a "sub.d/.." detour; every layer sits among
	// decoy .prj files (the dot-prefixes of its name, <name>.shp.prj, ...) that hold ANOTHER reference
	prjNames := []string{"roads", "zones.v2", "tl_2019.06", "a.b.c", "dir.v1/roads", "dir.v1/roads.2020", ".hidden", "layer.", "a..b",
		"v1.0/data.set/layer.name.here", "name.prj", "name.shp", "my layer.v2 final", "x.y/.z", "UPPER.SHP", "1.5", "..a", "a.tar.gz",
		"deep/er/still.deeper/l.1", "utm.zone.32N.etrs89"}
	wkts := rawCorpus[len(rawCorpus)-20:]
	for i, n := range prjNames {
		calls := []string{"ext", "noext", "dotdot"}
		if strings.HasSuffix(n, ".shp") { // NewDecoder("name.shp") means the layer "name": only the spelling with extension
			calls = []string{"ext", "dotdot"}
		}
		for j, c := range calls {
			fmt.Fprintf(w, "prjn %s %s %s %s\n", hx(n), c, hx(wkts[(3*i+j)%len(wkts)]), hx(wkts[(3*i+j+7)%len(wkts)]))
		}
		fmt.Fprintf(w, "prjn %s ext %s -\n", hx(n), hx(wkts[(5*i)%len(wkts)])) // no decoys: a wrong path finds no file
		// a layer WITHOUT a .prj of its own, and one whose .prj is empty, among decoys: SR() must fail, not pick up a neighbour
		fmt.Fprintf(w, "prjn %s %s ! %s\n", hx(n), calls[i%len(calls)], hx(wkts[(5*i+1)%len(wkts)]))
		fmt.Fprintf(w, "prjn %s %s - %s\n", hx(n), calls[(i+1)%len(calls)], hx(wkts[(5*i+2)%len(wkts)]))
		k := []string{"lcc", "tmerc", "aea", "merc", "eqdc", "geog"}
		fmt.Fprintf(w, "prjncrs %s %s %s | %s\n", hx(n), calls[i%len(calls)], strings.Join(strings.Fields(crsTokens(r, k[i%6]))[:16], " "),
			strings.Join(strings.Fields(crsTokens(r, k[(i+1)%6]))[:16], " "))
	}
	nName := 20
	if tier == "thorough" {
		nName = 400
	}
	for i := 0; i < nName; i++ { // random names: 1-4 segments joined by dots, sometimes in a dotted directory
		segs := []string{"zones", "v2", "2019", "06", "final", "tl", "x", "shp", "prj", "N", "etrs89", "0", "data set"}
		n := segs[r.Intn(len(segs))]
		for j := r.Intn(4); j > 0; j-- {
			n += "." + segs[r.Intn(len(segs))]
		}
		if r.Intn(3) == 0 {
			n = segs[r.Intn(len(segs))] + "." + segs[r.Intn(len(segs))] + "/" + n
		}
		calls := []string{"ext", "noext", "dotdot"}
		if strings.HasSuffix(n, ".shp") {
			calls = []string{"ext", "dotdot"}
		}
		k := []string{"lcc", "tmerc", "aea", "merc", "eqdc", "geog"}
		fmt.Fprintf(w, "prjncrs %s %s %s | %s\n", hx(n), calls[r.Intn(len(calls))], strings.Join(strings.Fields(crsTokens(r, k[r.Intn(6)]))[:16], " "),
			strings.Join(strings.Fields(crsTokens(r, k[r.Intn(6)]))[:16], " "))
	}
	nCrs, nMut := 1500, 1200
	if tier == "thorough" {
		nCrs, nMut = 40000, 30000
	}
	for _, k := range []string{"geog", "merc", "lcc", "aea", "eqdc", "tmerc"} {
		for i := 0; i < 6; i++ {
			genCrs(r, w, k)
		}
	}
	// a datum given by the NAME WGS84 on an ellipsoid that compare_datums cannot tell from WGS84's (a = 6378137, es within
	// 5e-11: GRS80, and 1/f = 298.257224) — every kind, in every run: the two notations give the codes WGS84 / wgs84, and a
	// case-sensitive test of the code in NewTransform's checkNotWGS sends only one of them through defs["WGS84"]
	// (16-100 micrometres through a 7-parameter reference; fixed finding wgs84name, b165df1)
	for i, k := range []string{"geog", "merc", "lcc", "aea", "eqdc", "tmerc", "geog", "tmerc", "lcc"} {
		f := strings.Fields(crsTokens(r, k))
		f[10], f[11] = "6378137", []string{"298.257222101", "298.257224"}[i%2]
		f[12], f[14] = "none", "wgs84"
		if i == 0 {
			f[15] = "-"
			f[16], f[17] = "10", "50"
		}
		fmt.Fprintf(w, "crs %s\n", strings.Join(f, " "))
	}
	for i := 0; i < nCrs; i++ {
		genCrs(r, w, "")
	}
	for i := 0; i < nMut; i++ {
		s := rawCorpus[r.Intn(len(rawCorpus))]
		s = mutate(r, s)
		if r.Chance(0.3) {
			s = mutate(r, s)
		}
		if strings.Contains(s, "+pm") {
			continue
		}
		fmt.Fprintf(w, "raw %s\n", hx(s))
		if r.Chance(0.15) {
			fmt.Fprintf(w, "eq %s %s\n", hx(s), hx(rawCorpus[r.Intn(len(rawCorpus))]))
		}
	}
	// histories: parse texts carrying registered codes, then check the whole registry (one line each)
	for _, h := range histCorpus {
		fmt.Fprintf(w, "reghist %s\n", hx(h))
	}
	{
		var all []string
		for _, h := range histCorpus {
			all = append(all, hx(h))
		}
		fmt.Fprintf(w, "reghist %s\n", strings.Join(all, " "))
	}
	// late check: the registry once more after everything else of this run has been parsed (cross-line, so
	// reported as DIFF only: a single line cannot replay it)
	for _, n := range regNames {
		fmt.Fprintf(w, "lreg %s\n", n)
	}
	for i := 0; i < 8; i++ {
		fmt.Fprintf(w, "lregalias %d\n", i)
	}
}
