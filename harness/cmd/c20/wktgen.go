package main

// Fourth extractor of the pregen hook: prints lean/GeomV/C20/WktGen.lean from
//
//	proj/wkt.go          (*SR).parseWKTParameter: the `switch name` TRANSLATED case by case (PARAMETER name -> field, with or
//	                     without the factor deg2rad); func wkt: the statements between the call of parseWKTSection and the
//	                     return TRANSLATED (auxiliary-sphere flag, false origin x ToMeter, Lat0 <- Lat1, Long0 <- LongC);
//	                     (*SR).parseWKTUnit: the statements after the numeral has been read TRANSLATED
//	encoding/shp/shp.go  NewDecoder: the expressions for the stored name and for the file it opens; (*Decoder).SR: the
//	                     expression for the path it reads — TRANSLATED
//
// Tie lemmas: lean/GeomV/C20/ProofsWktGen.lean (`genParamSet_eq`, `genWktFinish_eq`, `genUnitSet_eq`) and ProofsPrj.lean.
// Anything the translator does not know becomes an unknown identifier `untranslated_…` (the build of the tie breaks = a broken
// obligation); the driver does not import these files.

import (
	"fmt"
	"go/ast"
	"go/parser"
	"go/token"
	"path/filepath"
	"strconv"
	"strings"
)

type wktGen struct {
	eqGen
	recv   string              // name of the receiver / the *SR variable
	consts map[string]ast.Expr // package-level constants of package proj (name -> value expression)
	used   []string            // numeric constants referred to by translated code, in order of first use
}

func (g *wktGen) useConst(n string) string {
	for _, u := range g.used {
		if u == n {
			return "gen_" + n
		}
	}
	g.used = append(g.used, n)
	return "gen_" + n
}

// wexpr: expressions over the fields of the reference `recv`, local identifiers, string literals, deg2rad
func (g *wktGen) wexpr(e ast.Expr) string {
	switch t := e.(type) {
	case *ast.Ident:
		switch t.Name {
		case "deg2rad":
			return "deg2rad"
		case "longlat":
			return "(s \"longlat\")"
		case "val", "convert", "filename", "fname", "secData":
			return t.Name
		}
		if v, ok := g.consts[t.Name]; ok {
			if l, ok := v.(*ast.BasicLit); ok && l.Kind == token.STRING {
				return g.wexpr(l)
			}
			if g.isNumConst(v) {
				return "(ofRat " + g.useConst(t.Name) + ")"
			}
		}
	case *ast.BasicLit:
		if t.Kind == token.STRING {
			if v, err := strconv.Unquote(t.Value); err == nil && !strings.ContainsAny(v, "\"\\\n") {
				return "(s \"" + v + "\")"
			}
		}
		if t.Kind == token.INT || t.Kind == token.FLOAT {
			return "(ofRat (" + leanRat(ratOf(t)) + "))"
		}
	case *ast.SelectorExpr:
		if id, ok := t.X.(*ast.Ident); ok && id.Name == g.recv {
			if g.recv == "r" { // the Decoder: its one field that matters
				if t.Sel.Name == "filename" {
					return "r_filename"
				}
				break
			}
			return g.recv + "." + leanName(t.Sel.Name)
		}
	case *ast.SliceExpr:
		// x[0:n] -> take n;  x[n:len(x)] -> drop n   (Go panics when n > len(x): the tie carries that as a hypothesis)
		if t.Slice3 || t.Low == nil || t.High == nil {
			break
		}
		lo, lok := t.Low.(*ast.BasicLit)
		if lok && lo.Kind == token.INT && lo.Value == "0" {
			if hi, ok := t.High.(*ast.BasicLit); ok && hi.Kind == token.INT {
				return "(" + g.wexpr(t.X) + ".take " + hi.Value + ")"
			}
		}
		if lok && lo.Kind == token.INT && g.src(t.High) == "len("+g.src(t.X)+")" {
			return "(" + g.wexpr(t.X) + ".drop " + lo.Value + ")"
		}
	case *ast.IndexExpr:
		// strings.Split(x, "c")[0]: Split never returns an empty list
		if c, ok := t.X.(*ast.CallExpr); ok && g.src(c.Fun) == "strings.Split" && len(c.Args) == 2 && g.src(t.Index) == "0" {
			if sep, err := strconv.Unquote(g.src(c.Args[1])); err == nil && len(sep) == 1 && sep != "'" && sep != "\\" {
				return "((splitOn '" + sep + "' " + g.wexpr(c.Args[0]) + ").headD [])"
			}
		}
	case *ast.ParenExpr:
		return "(" + g.wexpr(t.X) + ")"
	case *ast.UnaryExpr:
		if t.Op == token.NOT {
			return "(!" + g.wexpr(t.X) + ")"
		}
	case *ast.BinaryExpr:
		switch t.Op {
		case token.LAND:
			return "(" + g.wexpr(t.X) + " && " + g.wexpr(t.Y) + ")"
		case token.LOR:
			return "(" + g.wexpr(t.X) + " || " + g.wexpr(t.Y) + ")"
		case token.EQL: // strings: decidable equality; floats: IEEE ==
			if g.isStr(t.X) || g.isStr(t.Y) {
				return "(decide (" + g.wexpr(t.X) + " = " + g.wexpr(t.Y) + "))"
			}
			if g.isNum(t.X) || g.isNum(t.Y) {
				return "(eq " + g.wexpr(t.X) + " " + g.wexpr(t.Y) + ")"
			}
		case token.LSS:
			return "(lt " + g.wexpr(t.X) + " " + g.wexpr(t.Y) + ")"
		case token.SUB:
			return "(sub " + g.wexpr(t.X) + " " + g.wexpr(t.Y) + ")"
		case token.QUO:
			return "(div " + g.wexpr(t.X) + " " + g.wexpr(t.Y) + ")"
		case token.NEQ:
			if g.isStr(t.X) || g.isStr(t.Y) {
				return "(!(decide (" + g.wexpr(t.X) + " = " + g.wexpr(t.Y) + ")))"
			}
		case token.MUL:
			return "(mul " + g.wexpr(t.X) + " " + g.wexpr(t.Y) + ")"
		case token.ADD:
			if g.isStr(t.X) || g.isStr(t.Y) {
				return "(" + g.wexpr(t.X) + " ++ " + g.wexpr(t.Y) + ")"
			}
			return "(add " + g.wexpr(t.X) + " " + g.wexpr(t.Y) + ")"
		}
	case *ast.CallExpr:
		if sel, ok := t.Fun.(*ast.SelectorExpr); ok {
			if pk, ok := sel.X.(*ast.Ident); ok {
				switch {
				case pk.Name == "math" && sel.Sel.Name == "IsNaN" && len(t.Args) == 1:
					return "(isNaN " + g.wexpr(t.Args[0]) + ")"
				case pk.Name == "math" && sel.Sel.Name == "Abs" && len(t.Args) == 1:
					return "(abs " + g.wexpr(t.Args[0]) + ")"
				case pk.Name == "math" && sel.Sel.Name == "Sqrt" && len(t.Args) == 1:
					return "(sqrt " + g.wexpr(t.Args[0]) + ")"
				case pk.Name == "strings" && sel.Sel.Name == "Trim" && len(t.Args) == 2:
					switch g.src(t.Args[1]) {
					case `"\""`:
						return "(trim isQuote " + g.wexpr(t.Args[0]) + ")"
					case `"\" "`:
						return "(trim isQuoteOrSpace " + g.wexpr(t.Args[0]) + ")"
					}
				case pk.Name == "strings" && sel.Sel.Name == "HasSuffix" && len(t.Args) == 2:
					return "(hasSuffix " + g.wexpr(t.Args[0]) + " " + g.wexpr(t.Args[1]) + ")"
				case pk.Name == "strings" && sel.Sel.Name == "Contains" && len(t.Args) == 2:
					return "(containsSub " + g.wexpr(t.Args[0]) + " " + g.wexpr(t.Args[1]) + ")"
				case pk.Name == "strings" && sel.Sel.Name == "ToLower" && len(t.Args) == 1:
					return "(toLower " + g.wexpr(t.Args[0]) + ")"
				case pk.Name == "strings" && sel.Sel.Name == "TrimSuffix" && len(t.Args) == 2:
					return "(trimSuffix " + g.wexpr(t.Args[0]) + " " + g.wexpr(t.Args[1]) + ")"
				}
			}
		}
	}
	return "untranslated_" + g.ident(g.src(e))
}

func (g *wktGen) isNumConst(e ast.Expr) bool {
	switch t := e.(type) {
	case *ast.BasicLit:
		return t.Kind == token.INT || t.Kind == token.FLOAT
	case *ast.ParenExpr:
		return g.isNumConst(t.X)
	case *ast.UnaryExpr:
		return g.isNumConst(t.X)
	case *ast.BinaryExpr:
		return g.isNumConst(t.X) && g.isNumConst(t.Y)
	}
	return false
}

func (g *wktGen) isNum(e ast.Expr) bool {
	if g.isNumConst(e) {
		return true
	}
	if id, ok := e.(*ast.Ident); ok {
		if v, ok := g.consts[id.Name]; ok {
			return g.isNumConst(v)
		}
	}
	return false
}

func (g *wktGen) isStr(e ast.Expr) bool {
	switch t := e.(type) {
	case *ast.BasicLit:
		return t.Kind == token.STRING
	case *ast.Ident:
		if v, ok := g.consts[t.Name]; ok {
			if l, ok := v.(*ast.BasicLit); ok && l.Kind == token.STRING {
				return true
			}
		}
		return t.Name == "longlat" || t.Name == "filename" || t.Name == "fname"
	case *ast.SelectorExpr:
		switch t.Sel.Name {
		case "Name", "DatumCode", "Units", "filename", "Axis":
			return true
		}
	case *ast.BinaryExpr:
		return t.Op == token.ADD && (g.isStr(t.X) || g.isStr(t.Y))
	case *ast.ParenExpr:
		return g.isStr(t.X)
	case *ast.SliceExpr:
		return g.isStr(t.X)
	}
	return false
}

// assign: `sr.F = e`, `sr.F *= e`  ->  "f := e'"
func (g *wktGen) assign(s ast.Stmt) (string, bool) {
	a, ok := s.(*ast.AssignStmt)
	if !ok || len(a.Lhs) != 1 || len(a.Rhs) != 1 {
		return "", false
	}
	sel, ok := a.Lhs[0].(*ast.SelectorExpr)
	if !ok {
		return "", false
	}
	if id, ok := sel.X.(*ast.Ident); !ok || id.Name != g.recv {
		return "", false
	}
	f := leanName(sel.Sel.Name)
	switch a.Tok {
	case token.ASSIGN:
		if b, ok := a.Rhs[0].(*ast.Ident); ok && (b.Name == "true" || b.Name == "false") {
			return f + " := " + b.Name, true
		}
		return f + " := " + g.wexpr(a.Rhs[0]), true
	case token.MUL_ASSIGN:
		return f + " := (mul " + g.recv + "." + f + " " + g.wexpr(a.Rhs[0]) + ")", true
	}
	return "", false
}

// block: a list of assignments to fields of the reference -> nested record updates of `sr`
func (g *wktGen) block(l []ast.Stmt, ind string) string {
	var b strings.Builder
	for _, s := range l {
		b.WriteString(ind + "let " + g.recv + " : SR α := " + g.stmt(s, ind) + "\n")
	}
	b.WriteString(ind + g.recv)
	return b.String()
}

// stmt: one statement as an expression for the NEW value of the reference
func (g *wktGen) stmt(s ast.Stmt, ind string) string {
	if a, ok := g.assign(s); ok {
		return "{ " + g.recv + " with " + a + " }"
	}
	switch t := s.(type) {
	case *ast.IfStmt:
		if t.Init == nil {
			els := g.recv
			if t.Else != nil {
				if eb, ok := t.Else.(*ast.BlockStmt); ok {
					els = "(\n" + g.block(eb.List, ind+"    ") + ")"
				} else {
					els = "untranslated_else_if"
				}
			}
			return "if " + g.wexpr(t.Cond) + " then (\n" + g.block(t.Body.List, ind+"    ") + ")\n" + ind + "  else " + els
		}
	case *ast.SwitchStmt:
		// switch sr.Name { case "a", "b": assignments } without default: an if over the labels
		if t.Init == nil && t.Tag != nil && len(t.Body.List) == 1 {
			cc := t.Body.List[0].(*ast.CaseClause)
			if len(cc.List) > 0 {
				var cs []string
				for _, l := range cc.List {
					cs = append(cs, "(decide ("+g.wexpr(t.Tag)+" = "+g.wexpr(l)+"))")
				}
				return "if (" + strings.Join(cs, " || ") + ") then (\n" + g.block(cc.Body, ind+"    ") + ")\n" + ind + "  else " + g.recv
			}
		}
	}
	return "untranslated_" + g.ident(g.src(s))
}

func wktGenOut(repo string) string {
	g := &wktGen{eqGen: eqGen{fs: token.NewFileSet()}, recv: "sr"}
	parse := func(rel string) *ast.File {
		f, err := parser.ParseFile(g.fs, filepath.Join(repo, rel), nil, 0)
		if err != nil {
			panic(err)
		}
		return f
	}
	wktGo, shpGo := parse("proj/wkt.go"), parse("encoding/shp/shp.go")
	funcs := map[string]*ast.FuncDecl{}
	for _, f := range []*ast.File{wktGo, shpGo} {
		for _, d := range f.Decls {
			if fd, ok := d.(*ast.FuncDecl); ok && fd.Body != nil {
				funcs[fd.Name.Name] = fd
			}
		}
	}
	var b strings.Builder
	b.WriteString("import GeomV.C20.PrjModel\n/-! GENERATED by `harness/cmd/c20 wktgen` from /repo/proj/wkt.go and /repo/encoding/shp/shp.go — do not edit. -/\n")
	b.WriteString("set_option linter.unusedVariables false\nnamespace GeomV.C20\nsection\nvariable {α : Type} [Num α]\nopen Num\n\n")

	// ---- parseWKTParameter: the switch
	pre, sw := []string{}, (*ast.SwitchStmt)(nil)
	post := []string{}
	if fd := funcs["parseWKTParameter"]; fd != nil {
		if fd.Recv != nil && len(fd.Recv.List) == 1 && len(fd.Recv.List[0].Names) == 1 {
			g.recv = fd.Recv.List[0].Names[0].Name
		}
		for _, s := range fd.Body.List {
			if t, ok := s.(*ast.SwitchStmt); ok && sw == nil {
				sw = t
				continue
			}
			if sw == nil {
				pre = append(pre, g.src(s))
			} else {
				post = append(post, g.src(s))
			}
		}
	}
	fmt.Fprintf(&b, "/-- the statements of `parseWKTParameter` before and after its switch (source text) -/\ndef genParamPre : String := %q\ndef genParamPost : String := %q\n",
		strings.Join(pre, " ;; "), strings.Join(post, " ;; "))
	tag := "untranslated_no_switch"
	var arms []string
	deflt := "untranslated_no_default"
	var table []string
	if sw != nil {
		tag = g.src(sw.Tag)
		for _, c := range sw.Body.List {
			cc := c.(*ast.CaseClause)
			if cc.List == nil {
				deflt = "untranslated_" + g.ident(g.src(cc))
				if len(cc.Body) == 1 && g.src(cc.Body[0]) == `return fmt.Errorf("proj.parseWKTParameter: unknown name %v", name)` {
					deflt = "fail " + g.recv + " \"parseWKTParameter: unknown name\""
				}
				continue
			}
			var cs []string
			for _, l := range cc.List {
				cs = append(cs, "(decide (name = "+g.wexpr(l)+"))")
				lab, _ := strconv.Unquote(g.src(l))
				body := "-"
				if len(cc.Body) == 1 {
					body = g.src(cc.Body[0])
				} else if len(cc.Body) > 1 {
					body = "…"
				}
				table = append(table, fmt.Sprintf("(%q, %q)", lab, body))
			}
			res := "ok " + g.recv
			switch {
			case len(cc.Body) == 1:
				if a, ok := g.assign(cc.Body[0]); ok {
					res = "ok { " + g.recv + " with " + a + " }"
				} else {
					res = "untranslated_" + g.ident(g.src(cc.Body[0]))
				}
			case len(cc.Body) > 1:
				res = "untranslated_case_with_" + strconv.Itoa(len(cc.Body)) + "_statements"
			}
			arms = append(arms, "  if ("+strings.Join(cs, " || ")+") then "+res+" else")
		}
	}
	fmt.Fprintf(&b, "/-- what the switch of `parseWKTParameter` switches on -/\ndef genParamTag : String := %q\n", tag)
	fmt.Fprintf(&b, "/-- its case labels in source order with the statement of each case (source text) -/\ndef genParamTable : List (String × String) :=\n  [%s]\n\n", strings.Join(table, ",\n   "))
	b.WriteString("/-- the `switch name` of `parseWKTParameter`, translated case by case (`val` = the parsed numeral) -/\n")
	fmt.Fprintf(&b, "def genParamSet (%s : SR α) (name : Str) (val : α) : Res α :=\n%s\n  %s\n\n", g.recv, strings.Join(arms, "\n"), deflt)

	// ---- wkt(): the statements after the sections have been read
	g.recv = "sr"
	body := "untranslated_missing_wkt"
	first, last := "", ""
	if fd := funcs["wkt"]; fd != nil && len(fd.Body.List) >= 3 {
		l := fd.Body.List
		first = g.src(l[0]) + " ;; " + g.src(l[1])
		last = g.src(l[len(l)-1])
		body = g.block(l[2:len(l)-1], "  ")
	}
	fmt.Fprintf(&b, "/-- the first two statements and the last statement of `wkt` (source text) -/\ndef genWktHead : String := %q\ndef genWktReturn : String := %q\n", first, last)
	b.WriteString("/-- the statements of `wkt` between the call of `parseWKTSection` and the `return`, translated -/\n")
	b.WriteString("def genWktFinish (sr : SR α) : SR α :=\n" + body + "\n\n")

	// ---- datumRename
	g.recv = "sr"
	body = "untranslated_missing_datumRename"
	if fd := funcs["datumRename"]; fd != nil {
		if fd.Recv != nil && len(fd.Recv.List) == 1 && len(fd.Recv.List[0].Names) == 1 {
			g.recv = fd.Recv.List[0].Names[0].Name
		}
		body = g.block(fd.Body.List, "  ")
	}
	b.WriteString("/-- `(*SR).datumRename`, translated (the slice expressions `s[0:2]`, `s[2:len(s)]` as `take` / `drop`: they panic on a code shorter than 2 bytes) -/\n")
	fmt.Fprintf(&b, "def genDatumRename (%s : SR α) : SR α :=\n%s\n\n", g.recv, body)

	// ---- parseWKTProjection
	g.recv = "sr"
	body = "untranslated_missing_parseWKTProjection"
	if fd := funcs["parseWKTProjection"]; fd != nil {
		if fd.Recv != nil && len(fd.Recv.List) == 1 && len(fd.Recv.List[0].Names) == 1 {
			g.recv = fd.Recv.List[0].Names[0].Name
		}
		body = g.block(fd.Body.List, "  ")
	}
	b.WriteString("/-- `(*SR).parseWKTProjection`, translated -/\n")
	fmt.Fprintf(&b, "def genWktProjection (%s : SR α) (secData : Str) : SR α :=\n%s\n\n", g.recv, body)

	// ---- parseWKTUnit: the statements that use the conversion factor
	body = "untranslated_missing_parseWKTUnit"
	unitPre := []string{}
	if fd := funcs["parseWKTUnit"]; fd != nil {
		if fd.Recv != nil && len(fd.Recv.List) == 1 && len(fd.Recv.List[0].Names) == 1 {
			g.recv = fd.Recv.List[0].Names[0].Name
		}
		for _, s := range fd.Body.List {
			ifs, ok := s.(*ast.IfStmt)
			if ok && g.src(ifs.Cond) == "len(v) > 1" && ifs.Else == nil && len(ifs.Body.List) == 3 {
				unitPre = append(unitPre, "if len(v) > 1 { "+g.src(ifs.Body.List[0])+" ;; "+g.src(ifs.Body.List[1])+" ;; <use of convert> }")
				body = g.block(ifs.Body.List[2:], "  ")
				continue
			}
			unitPre = append(unitPre, g.src(s))
		}
	}
	fmt.Fprintf(&b, "/-- the statements of `parseWKTUnit` around the use of the conversion factor (source text) -/\ndef genUnitFrame : String := %q\n", strings.Join(unitPre, " ;; "))
	b.WriteString("/-- what `parseWKTUnit` does with the conversion factor once it has been read, translated -/\n")
	fmt.Fprintf(&b, "def genUnitSet (%s : SR α) (convert : α) : SR α :=\n%s\n\n", g.recv, body)
	// ---- parseCode.go: the words by which testWKT recognises a WKT text
	words := "untranslated_no_codeWords"
	loop := ""
	pcGo := parse("proj/parseCode.go")
	for _, d := range pcGo.Decls {
		fd, ok := d.(*ast.FuncDecl)
		if !ok || fd.Name.Name != "testWKT" || fd.Body == nil {
			continue
		}
		var rest []string
		for _, st := range fd.Body.List {
			if ds, ok := st.(*ast.DeclStmt); ok {
				if gd, ok := ds.Decl.(*ast.GenDecl); ok && len(gd.Specs) == 1 {
					vs := gd.Specs[0].(*ast.ValueSpec)
					if len(vs.Names) == 1 && vs.Names[0].Name == "codeWords" && len(vs.Values) == 1 {
						if cl, ok := vs.Values[0].(*ast.CompositeLit); ok && g.src(cl.Type) == "[]string" {
							var ws []string
							for _, e := range cl.Elts {
								ws = append(ws, g.src(e))
							}
							words = "[" + strings.Join(ws, ", ") + "]"
							continue
						}
					}
				}
			}
			rest = append(rest, g.src(st))
		}
		loop = strings.Join(rest, " ;; ")
	}
	fmt.Fprintf(&b, "/-- `codeWords` of `testWKT` (parseCode.go) and the rest of its body (source text) -/\ndef genCodeWords : List String := %s\ndef genTestWKTLoop : String := %q\n\n", words, loop)

	// ---- deriveConstants.go: the statements between the table lookups and the datum object
	g.recv = "json"
	dcGo := parse("proj/deriveConstants.go")
	g.consts = map[string]ast.Expr{}
	for _, cf := range []*ast.File{dcGo, parse("proj/transform.go")} {
		for _, d := range cf.Decls {
			if gd, ok := d.(*ast.GenDecl); ok && gd.Tok == token.CONST {
				for _, sp := range gd.Specs {
					vs := sp.(*ast.ValueSpec)
					for i, n := range vs.Names {
						if i < len(vs.Values) && (n.Name == "enu" || cf == dcGo) {
							g.consts[n.Name] = vs.Values[i]
						}
					}
				}
			}
		}
	}
	dcBody := "untranslated_missing_DeriveConstants"
	var dcFrame []string
	for _, d := range dcGo.Decls {
		fd, ok := d.(*ast.FuncDecl)
		if !ok || fd.Name.Name != "DeriveConstants" {
			continue
		}
		if fd.Recv != nil && len(fd.Recv.List) == 1 && len(fd.Recv.List[0].Names) == 1 {
			g.recv = fd.Recv.List[0].Names[0].Name
		}
		var mid []ast.Stmt
		for _, st := range fd.Body.List {
			txt := g.src(st)
			// the table lookups (datumDefs, ellipsoidDefs) and the datum object stay hand-modelled (dcDatum, dcEllps, attachDatum)
			if strings.Contains(txt, "datumDefs[") || strings.Contains(txt, "ellipsoidDefs[") || strings.Contains(txt, "getDatum()") {
				dcFrame = append(dcFrame, "<hand-modelled: "+strings.SplitN(txt, "{", 2)[0]+"{…}>")
				continue
			}
			if len(dcFrame) == 2 && len(mid) == 0 {
				dcFrame = append(dcFrame, "<translated>")
			}
			mid = append(mid, st)
		}
		dcBody = g.block(mid, "  ")
	}
	for _, d := range parse("proj/projString.go").Decls { // const deg2rad
		if gd, ok := d.(*ast.GenDecl); ok && gd.Tok == token.CONST {
			for _, sp := range gd.Specs {
				vs := sp.(*ast.ValueSpec)
				for i, n := range vs.Names {
					if n.Name == "deg2rad" && i < len(vs.Values) {
						g.consts[n.Name] = vs.Values[i]
						g.useConst(n.Name)
					}
				}
			}
		}
	}
	var cdefs strings.Builder
	for _, n := range g.used {
		fmt.Fprintf(&cdefs, "/-- `const %s` of package proj -/\ndef gen_%s : Rat := %s\n", n, n, leanRat(ratOf(g.consts[n])))
	}
	b.WriteString(cdefs.String())
	fmt.Fprintf(&b, "/-- the order of the statement groups of `DeriveConstants` -/\ndef genDeriveFrame : List String := [%s]\n", func() string {
		var q []string
		for _, x := range dcFrame {
			q = append(q, strconv.Quote(x))
		}
		return strings.Join(q, ", ")
	}())
	b.WriteString("/-- the statements of `DeriveConstants` between the table lookups and `json.datum = json.getDatum()`, translated -/\n")
	fmt.Fprintf(&b, "def genDeriveArith (%s : SR α) : SR α :=\n%s\n\n", g.recv, dcBody)
	g.consts = map[string]ast.Expr{}

	// ---- projString.go: the switch of the loop body
	g.recv = "self"
	b.WriteString(g.projSwitch(parse("proj/projString.go")))
	b.WriteString("end\n\n")

	// ---- shp.go: NewDecoder and (*Decoder).SR: the path expressions
	g.recv = "r"
	fname, stored, open, prj := "untranslated_no_fname", "untranslated_no_r_filename", "untranslated_no_Open", "untranslated_no_ReadFile"
	var ndStm, srStm []string
	if fd := funcs["NewDecoder"]; fd != nil {
		for _, s := range fd.Body.List {
			ndStm = append(ndStm, g.src(s))
			a, ok := s.(*ast.AssignStmt)
			if !ok || len(a.Rhs) != 1 {
				continue
			}
			if id, ok := a.Lhs[0].(*ast.Ident); ok && id.Name == "fname" && len(a.Lhs) == 1 {
				if fname != "untranslated_no_fname" {
					fname = "untranslated_fname_assigned_twice"
				} else {
					fname = g.wexpr(a.Rhs[0])
				}
			}
			if sel, ok := a.Lhs[0].(*ast.SelectorExpr); ok && len(a.Lhs) == 1 && g.src(sel) == "r.filename" {
				if stored != "untranslated_no_r_filename" {
					stored = "untranslated_r_filename_assigned_twice"
				} else {
					stored = g.wexpr(a.Rhs[0])
				}
			}
			if c, ok := a.Rhs[0].(*ast.CallExpr); ok && g.src(c.Fun) == "shp.Open" && len(c.Args) == 1 {
				open = g.wexpr(c.Args[0])
			}
		}
	}
	if fd := funcs["SR"]; fd != nil {
		for _, s := range fd.Body.List {
			srStm = append(srStm, g.src(s))
			a, ok := s.(*ast.AssignStmt)
			if !ok || len(a.Rhs) != 1 {
				continue
			}
			if c, ok := a.Rhs[0].(*ast.CallExpr); ok && g.src(c.Fun) == "ioutil.ReadFile" && len(c.Args) == 1 {
				prj = g.wexpr(c.Args[0])
			}
		}
	}
	fmt.Fprintf(&b, "/-- the statements of `NewDecoder` and of `(*Decoder).SR` (source text) -/\ndef genNewDecoderStmts : String := %q\ndef genDecoderSRStmts : String := %q\n",
		strings.Join(ndStm, " ;; "), strings.Join(srStm, " ;; "))
	b.WriteString("/-- `NewDecoder(filename)`: the name it stores in `r.filename` -/\n")
	b.WriteString("def genDecoderStored (filename : Str) : Str :=\n  let fname := " + fname + "\n  " + stored + "\n")
	b.WriteString("/-- `NewDecoder(filename)`: the file it opens -/\n")
	b.WriteString("def genDecoderOpen (filename : Str) : Str :=\n  let fname := " + fname + "\n  " + open + "\n")
	b.WriteString("/-- `(*Decoder).SR`: the file it reads -/\n")
	b.WriteString("def genDecoderPrj (r_filename : Str) : Str :=\n  " + prj + "\n")
	b.WriteString("\nend GeomV.C20\n")
	return b.String()
}

// projSwitch translates `switch paramName { … }` of projString case by case.  Shapes translated:
//
//	self.F = paramVal                                              (text)
//	self.F = true                                                  (flag)
//	self.F, err = strconv.ParseFloat(paramVal, 64)                 (number)
//	… followed by self.F *= deg2rad                                (angle in degrees)
//	default: err = fmt.Errorf("proj: invalid field '%s'", paramName)
//
// Cases of any other shape (towgs84, units, pm, nadgrids, axis) stay hand-modelled: the generated definition calls the
// model's `projKV` for THAT label and lists the label in `genProjHandModelled` (the tie pins the list).
func (g *wktGen) projSwitch(f *ast.File) string {
	var sw *ast.SwitchStmt
	ast.Inspect(f, func(n ast.Node) bool {
		if t, ok := n.(*ast.SwitchStmt); ok && sw == nil && t.Tag != nil && g.src(t.Tag) == "paramName" {
			sw = t
		}
		return true
	})
	var arms, hand []string
	deflt := "untranslated_no_default"
	isParse := func(s ast.Stmt) (string, bool) { // self.F, err = strconv.ParseFloat(paramVal, 64)
		a, ok := s.(*ast.AssignStmt)
		if !ok || a.Tok != token.ASSIGN || len(a.Lhs) != 2 || len(a.Rhs) != 1 || g.src(a.Lhs[1]) != "err" ||
			g.src(a.Rhs[0]) != "strconv.ParseFloat(paramVal, 64)" {
			return "", false
		}
		sel, ok := a.Lhs[0].(*ast.SelectorExpr)
		if !ok || g.src(sel.X) != g.recv {
			return "", false
		}
		return sel.Sel.Name, true
	}
	if sw != nil {
		for _, c := range sw.Body.List {
			cc := c.(*ast.CaseClause)
			if cc.List == nil {
				deflt = "untranslated_" + g.ident(g.src(cc))
				if len(cc.Body) == 1 && g.src(cc.Body[0]) == `err = fmt.Errorf("proj: invalid field '%s'", paramName)` {
					deflt = ".error (.error \"invalid field\")"
				}
				continue
			}
			var cs []string
			for _, l := range cc.List {
				cs = append(cs, "(decide (paramName = "+g.wexpr(l)+"))")
			}
			cond := "  if (" + strings.Join(cs, " || ") + ") then "
			res := ""
			switch len(cc.Body) {
			case 1:
				if fld, ok := isParse(cc.Body[0]); ok {
					res = "(do let v ← parseFloat paramVal; pure { " + g.recv + " with " + leanName(fld) + " := v })"
				} else if a, ok := cc.Body[0].(*ast.AssignStmt); ok && a.Tok == token.ASSIGN && len(a.Lhs) == 1 && len(a.Rhs) == 1 {
					sel, ok := a.Lhs[0].(*ast.SelectorExpr)
					if ok && g.src(sel.X) == g.recv {
						switch g.src(a.Rhs[0]) {
						case "paramVal":
							res = ".ok { " + g.recv + " with " + leanName(sel.Sel.Name) + " := paramVal }"
						case "true":
							res = ".ok { " + g.recv + " with " + leanName(sel.Sel.Name) + " := true }"
						}
					}
				}
			case 2:
				if fld, ok := isParse(cc.Body[0]); ok && g.src(cc.Body[1]) == g.recv+"."+fld+" *= deg2rad" {
					res = "(do let v ← parseFloat paramVal; pure { " + g.recv + " with " + leanName(fld) + " := (mul v deg2rad) })"
				}
			}
			if res == "" {
				if len(cc.List) == 1 {
					res = "(projKV " + g.recv + " " + g.wexpr(cc.List[0]) + " paramVal)"
					lab, _ := strconv.Unquote(g.src(cc.List[0]))
					hand = append(hand, strconv.Quote(lab))
				} else {
					res = "untranslated_" + g.ident(g.src(cc))
				}
			}
			arms = append(arms, cond+res+" else")
		}
	}
	// the statements of projString after the loop, before `return self, nil`
	after := "untranslated_missing_projString"
	for _, d := range f.Decls {
		fd, ok := d.(*ast.FuncDecl)
		if !ok || fd.Name.Name != "projString" {
			continue
		}
		var tail []ast.Stmt
		seen := false
		for _, st := range fd.Body.List {
			if _, ok := st.(*ast.RangeStmt); ok {
				seen = true
				continue
			}
			if _, ok := st.(*ast.ReturnStmt); ok {
				continue
			}
			if seen {
				tail = append(tail, st)
			}
		}
		after = g.block(tail, "  ")
	}
	var b strings.Builder
	b.WriteString("/-- the statements of `projString` between its loop and `return self, nil`, translated -/\n")
	b.WriteString("def genLowerDatum (self : SR α) : SR α :=\n" + after + "\n\n")
	fmt.Fprintf(&b, "/-- labels of the cases of `projString`'s switch that are NOT translated (hand-modelled in `projKV`) -/\ndef genProjHandModelled : List String := [%s]\n", strings.Join(hand, ", "))
	b.WriteString("/-- the `switch paramName` of `projString`, translated case by case -/\n")
	fmt.Fprintf(&b, "def genProjKV (%s : SR α) (paramName paramVal : Str) : Except Err (SR α) :=\n%s\n  %s\n\n", g.recv, strings.Join(arms, "\n"), deflt)
	return b.String()
}
