package main

import (
	"bufio"
	"math"

	"verif/harness/vproto"
)

// genCloseParallels: stratum `cp` (own RNG stream).  The conic constructors compute the cone constant as a quotient of two
// differences — (ms1²-ms2²)/(qs2-qs1) in AEA, log(ms1/ms2)/log(ts1/ts2) in LCC, (ms1-ms2)/(ml2-ml1) in EqdC — which cancel
// when the standard parallels are close but not equal (or nearly symmetric about the equator: cone constant near 0).
// The property still holds there (forward and inverse share the constant), but a one-ulp difference of sin/cos/log is
// amplified by kappa = (|p|+|q|)/|p-q| and, for AEA, by 1/cos(lat) towards the pole: this is where the judge's derived
// slack (Main.lean: Slack) is needed and where a fixed 3e-12 rad once raised a false DIFF (thorough, perturbed stream).
// Parallels 0.001..0.5 degrees apart, or within 1.001..1.5 degrees of symmetric; positions include the pole-side border,
// both parallels and lat_0.
func genCloseParallels(out *bufio.Writer, r *vproto.Rng, tier string) {
	n := 20
	if tier == "thorough" {
		n = 100
	}
	seps := []float64{0.001, 0.002, 0.005, 0.01, 0.03, 0.1, 0.219, 0.5}
	for _, name := range []string{"aea", "lcc", "eqdc"} {
		for i := 0; i < n; i++ {
			var p1, p2 float64
			switch i % 4 {
			case 0, 1, 2: // close, anywhere between 85 S and 85 N (|p1+p2| > 1 as everywhere)
				for {
					p1 = rnd((r.Float()-0.5)*168, 3)
					d := seps[r.Intn(len(seps))]
					if r.Intn(2) == 0 {
						d = -d
					}
					p2 = rnd(p1+d, 3)
					if math.Abs(p1+p2) > 1 && p1 != p2 {
						break
					}
				}
			default: // nearly symmetric about the equator: flat cone, cone constant ~ 0.01
				p1 = rnd(5+r.Float()*40, 3)
				p2 = -rnd(p1-1.001-r.Float()*0.5, 3)
				if r.Intn(2) == 0 {
					p1, p2 = -p1, -p2
				}
			}
			el := " +ellps=" + ellipsoids[r.Intn(len(ellipsoids))]
			b := crs{def: "+proj=" + name, tags: []string{"cp"}}
			l0 := lon0(r)
			la0 := rnd((r.Float()-0.5)*120, 3)
			b.def += " +lat_1=" + g(p1) + " +lat_2=" + g(p2) + " +lat_0=" + g(la0) + " +lon_0=" + g(l0) +
				" +x_0=" + g(falseOrigin(r)) + " +y_0=" + g(falseOrigin(r))
			if name == "lcc" && r.Intn(3) == 0 {
				b.def += " +k_0=" + g(k0(r))
			}
			b.def += el
			if el == " +ellps=sphere" {
				b.tags = append(b.tags, "S")
				b.sphere = true
			} else if r.Intn(4) == 0 {
				b.def += " +R_A"
				b.tags = append(b.tags, "ra")
			}
			if r.Intn(3) == 0 {
				b.def += " +units=ft"
				b.tags = append(b.tags, "ft")
			}
			var reg region
			if p1+p2 > 0 {
				reg = region{dlon: 179, lon0: l0, latLo: -60, latHi: 89, special: []float64{p1, p2, 89, 89, la0}}
			} else {
				reg = region{dlon: 179, lon0: l0, latLo: -89, latHi: 60, special: []float64{p1, p2, -89, -89, la0}}
			}
			a := crs{def: "+proj=longlat" + el, tags: []string{"gS"}}
			if r.Intn(3) == 0 {
				a = crs{def: "+proj=longlat +ellps=" + ellipsoids[r.Intn(len(ellipsoids)-1)] + " +towgs84=-126.862,-307.577,-285.152", tags: []string{"gX"}}
			}
			emit(out, class(name, a, b), a, b, positions(r, reg, a, b, 16))
			emitClosures(out, name, b, positions(r, reg, b, b, 8), 0)
		}
	}
}
