package main

import (
	"bufio"
	"fmt"
	"strings"

	"verif/harness/vproto"
)

// genZeroDatum: stratum `dz` (own RNG stream, round h).  Exact-zero strata of a 7-value `+towgs84=dx,dy,dz,rx,ry,rz,ds`:
// every one of the 128 SUBSET patterns of exactly-zero components (each of the seven independently zero or non-zero: ds = 0
// with non-zero rotations, rotations = 0 with non-zero ds, translations = 0, everything 0 ...), a zero written as `0`, `0.0`,
// `-0`, `0.000` or `-0.0`, on the destination side (zB: A is WGS84), on the source side (zA: B on another 3-parameter datum) and
// on both sides (zAB: same datum, the WGS84 hop with the small-angle inverse), through all eight projection families in turn.
// getDatum decides the datum type and converts arc seconds / ppm by `!= 0` tests on exactly these values: a conversion
// skipped, or a type chosen, on a zero component is invisible to parameters drawn from a continuous range (seeded C08-h1).
// Quick: 128 masks x 3 sides = 384 lines of 8 positions; thorough: 3 of each.
func genZeroDatum(out *bufio.Writer, r *vproto.Rng, tier string) {
	reps := 1
	if tier == "thorough" {
		reps = 3
	}
	names := []string{"tmerc", "longlat", "lcc", "merc", "aea", "eqdc", "utm", "krovak"}
	zeros := []string{"0", "0.0", "-0", "0.000", "-0.0"}
	nz := func(f float64, dec int, least float64) string { // a value that is NOT zero after rounding
		v := rnd(f, dec)
		if v == 0 {
			v = least
		}
		return g(v)
	}
	hasDatum := func(c crs) bool {
		for _, t := range c.tags {
			if t == "dn" || t == "d3" || t == "d7" {
				return true
			}
		}
		return false
	}
	k := 0
	for rep := 0; rep < reps; rep++ {
		for mask := 0; mask < 128; mask++ {
			for side := 0; side < 3; side++ {
				name := names[k%len(names)]
				k++
				var b crs
				var reg region
				for {
					b, reg = mkProjected(r, name, r.Intn(600))
					if !hasDatum(b) {
						break
					}
				}
				rot := 2.2 // arc seconds: half of the lines within +-1.1, half within +-6 (national 7-parameter sets reach 5-6)
				if r.Intn(2) == 0 {
					rot = 12
				}
				v := make([]string, 7)
				for i := 0; i < 7; i++ {
					switch {
					case mask&(1<<uint(i)) != 0:
						v[i] = zeros[r.Intn(len(zeros))]
					case i < 3:
						v[i] = nz((r.Float()-0.5)*1400, 3, 0.001)
					case i < 6:
						v[i] = nz((r.Float()-0.5)*rot, 4, 0.0001)
					default:
						v[i] = nz((r.Float()-0.5)*40, 4, 0.0001)
					}
				}
				tw := " +towgs84=" + strings.Join(v, ",")
				// ellipsoid and prime-meridian part of B, as mkGeographic's "gS" takes it
				i := strings.Index(b.def, " +ellps=")
				j := strings.Index(b.def, " +a=")
				if i < 0 || (j >= 0 && j < i) {
					i = j
				}
				rest := b.def[i:]
				for _, cut := range []string{" +units=", " +axis="} {
					if c := strings.Index(rest, cut); c >= 0 {
						rest = rest[:c]
					}
				}
				var a crs
				switch side {
				case 0: // destination side
					a = crs{def: "+proj=longlat +datum=WGS84", tags: []string{"gW"}}
					b.def += tw
					b.tags = append(b.tags, "dz", "zB")
				case 1: // source side; B on its own 3-parameter datum
					a = crs{def: "+proj=longlat" + rest + tw, pm: b.pm, tags: []string{"gZ"}}
					b.def += fmt.Sprintf(" +towgs84=%s,%s,%s", nz((r.Float()-0.5)*900, 3, 0.001), nz((r.Float()-0.5)*900, 3, 0.001), nz((r.Float()-0.5)*900, 3, 0.001))
					b.tags = append(b.tags, "dz", "zA")
				default: // both sides, the same parameter set (possibly with the zeros spelled differently)
					a = crs{def: "+proj=longlat" + rest + tw, pm: b.pm, tags: []string{"gZ"}}
					b.def += tw
					b.tags = append(b.tags, "dz", "zAB")
				}
				b.tags = append(b.tags, fmt.Sprintf("m%d", mask))
				emit(out, class(name, a, b), a, b, positions(r, reg, a, b, 8))
			}
		}
	}
}
