// Harness for C08 (every supported projection inverts). Subcommands:
//
//	gen --seed S --tier T   write case lines (inputs only)
//	impl                    read case lines, run the real code, append " => result"
//
// One case line = one pair of CRS definitions (A geographic, B any supported projection) and up
// to 8 geographic positions p (degrees, hex bit patterns):
//
//	rt <class> <A def, '~' for ' '> <B def> <n> (<lon> <lat>)*n
//
// impl builds ONE forward and ONE inverse transformer per line from one parsed pair and runs all
// positions and all three legs through those two objects in the order a user would; every answer
// is also computed by a transformer parsed and built fresh for that call (control, flag H); it dumps the fields of both *SR right after
// proj.Parse (exported and, read-only through reflect, the unexported `sphere` and `datum`), and
// for every position runs   q = (A->B)(p);  p2 = (B->A)(q);  q2 = (A->B)(p2):
//
//	=> A <srdump> B <srdump> T <nilAB> <nilBA> H <reused != fresh> R (<qx> <qy> <err> <p2x> <p2y> <err> <q2x> <q2y> <err>)*n
package main

import (
	"bufio"
	"fmt"
	"math"
	"os"
	"reflect"
	"regexp"
	"runtime"
	"strconv"
	"strings"
	"sync"

	"github.com/ctessum/geom/proj"

	"verif/harness/vproto"
)

// ---------------------------------------------------------------- impl

func hexf(f float64) string { return vproto.F2H(f) }

func b2s(b bool) string {
	if b {
		return "1"
	}
	return "0"
}

// srDump prints the fields of *SR that the projection constructors and the pipeline read.
func srDump(sr *proj.SR) string {
	v := reflect.ValueOf(sr).Elem()
	var b strings.Builder
	name := strings.ReplaceAll(strings.ToLower(sr.Name), " ", "~")
	if name == "" {
		name = "-"
	}
	b.WriteString(name)
	for _, f := range []string{"Lat0", "Lat1", "Lat2", "LatTS", "Long0", "X0", "Y0", "K0", "K", "A", "B", "Rf",
		"Es", "E", "Ep2", "Zone", "ToMeter", "FromGreenwich"} {
		b.WriteString(" " + hexf(v.FieldByName(f).Float()))
	}
	for _, f := range []string{"sphere", "Ra", "UTMSouth", "Czech"} {
		b.WriteString(" " + b2s(v.FieldByName(f).Bool()))
	}
	ax := sr.Axis
	if ax == "" {
		ax = "-"
	}
	b.WriteString(" " + ax)
	// the datum code itself (DATA): the model decides what NewTransform's checkNotWGS makes of it
	code := strings.Map(func(r rune) rune {
		if r <= ' ' {
			return '~'
		}
		return r
	}, sr.DatumCode)
	if code == "" {
		code = "-"
	}
	b.WriteString(" " + code)
	d := v.FieldByName("datum")
	if d.IsNil() {
		b.WriteString(" nodatum")
		return b.String()
	}
	d = d.Elem()
	fmt.Fprintf(&b, " %d", d.FieldByName("datum_type").Int())
	for _, f := range []string{"a", "b", "es", "ep2"} {
		b.WriteString(" " + hexf(d.FieldByName(f).Float()))
	}
	dp := d.FieldByName("datum_params")
	fmt.Fprintf(&b, " %d", dp.Len())
	for i := 0; i < 7; i++ {
		if i < dp.Len() {
			b.WriteString(" " + hexf(dp.Index(i).Float()))
		} else {
			b.WriteString(" " + hexf(0))
		}
	}
	return b.String()
}

func errTok(err error) string {
	if err == nil {
		return "ok"
	}
	s := strings.Map(func(r rune) rune {
		if r == ' ' || r == '\n' || r == '\t' {
			return '_'
		}
		return r
	}, err.Error())
	if len(s) > 80 {
		s = s[:80]
	}
	return "err:" + s
}

// once runs one transform from definition a to definition b on a freshly parsed pair.
func once(a, b string, x, y float64) (float64, float64, error, bool) {
	A, err := proj.Parse(a)
	if err != nil {
		return math.NaN(), math.NaN(), fmt.Errorf("parse: %v", err), false
	}
	B, err := proj.Parse(b)
	if err != nil {
		return math.NaN(), math.NaN(), fmt.Errorf("parse: %v", err), false
	}
	t, err := A.NewTransform(B)
	if err != nil {
		return math.NaN(), math.NaN(), fmt.Errorf("newtransform: %v", err), false
	}
	if t == nil {
		return x, y, nil, true
	}
	ox, oy, err := t(x, y)
	return ox, oy, err, false
}

func impl() {
	vproto.Lines(func(line string, out *bufio.Writer) {
		var res string
		pan := vproto.Safe(func() {
			p := vproto.NewParser(line)
			kind := p.Next()
			if kind == "cl" {
				res = implClosures(p)
				return
			}
			if kind == "il" {
				res = implInterleaved(p)
				return
			}
			if kind != "rt" && kind != "cc" && kind != "tw" {
				res = "badline"
				return
			}
			lineClass := p.Next() // class
			a := strings.ReplaceAll(p.Next(), "~", " ")
			b := strings.ReplaceAll(p.Next(), "~", " ")
			var a2, b2 string
			if kind == "tw" {
				a2 = strings.ReplaceAll(p.Next(), "~", " ")
				b2 = strings.ReplaceAll(p.Next(), "~", " ")
			}
			n := p.Int()
			A, err := proj.Parse(a)
			if err != nil {
				res = "parseerr A " + errTok(err)
				return
			}
			B, err := proj.Parse(b)
			if err != nil {
				res = "parseerr B " + errTok(err)
				return
			}
			var sb strings.Builder
			sb.WriteString("A " + srDump(A) + " B " + srDump(B))
			// ONE forward and ONE inverse transformer for the whole line, built from one parsed
			// pair (as a user would), called 16 and 8 times: project, un-project, project again
			// for every position in turn.  Every answer is also computed by a transformer that
			// is parsed and built fresh for that single call (the control): H = 1 when any
			// reused answer differs from the fresh one (bit patterns or error status).
			UA, errA := proj.Parse(a)
			UB, errB := proj.Parse(b)
			var tAB, tBA proj.Transformer
			var errAB, errBA error
			if errA == nil && errB == nil {
				tAB, errAB = UA.NewTransform(UB)
				tBA, errBA = UB.NewTransform(UA)
			}
			call := func(t proj.Transformer, e0 error, x, y float64) (float64, float64, error, bool) {
				if errA != nil || errB != nil {
					return math.NaN(), math.NaN(), fmt.Errorf("parse failed"), false
				}
				if e0 != nil {
					return math.NaN(), math.NaN(), fmt.Errorf("newtransform: %v", e0), false
				}
				if t == nil {
					return x, y, nil, true
				}
				ox, oy, err := t(x, y)
				return ox, oy, err, false
			}
			same := func(x1, y1 float64, e1 error, x2, y2 float64, e2 error) bool {
				return math.Float64bits(x1) == math.Float64bits(x2) && math.Float64bits(y1) == math.Float64bits(y2) && (e1 == nil) == (e2 == nil)
			}
			nilAB, nilBA, hist := false, false, false
			// tw lines: the twin pair (the lower-case wgs84 side written as +datum=WGS84) on its own
			// reused transformer pair; K = positions on which any of the three answers differs bit for bit
			var twAB, twBA proj.Transformer
			var twErr error
			var twA, twB *proj.SR
			twBad, twFirst := 0, "-"
			if kind == "tw" {
				if twA, twErr = proj.Parse(a2); twErr == nil {
					if twB, twErr = proj.Parse(b2); twErr == nil {
						UA2, _ := proj.Parse(a2)
						UB2, _ := proj.Parse(b2)
						if twAB, twErr = UA2.NewTransform(UB2); twErr == nil {
							twBA, twErr = UB2.NewTransform(UA2)
						}
					}
				}
			}
			var rs strings.Builder
			for i := 0; i < n; i++ {
				lon, lat := p.F(), p.F()
				qx, qy, e1, n1 := call(tAB, errAB, lon, lat)
				px, py, e2, n2 := call(tBA, errBA, qx, qy)
				rx, ry, e3, _ := call(tAB, errAB, px, py)
				if kind == "tw" && twErr == nil {
					tqx, tqy, t1, _ := call(twAB, nil, lon, lat)
					tpx, tpy, t2, _ := call(twBA, nil, tqx, tqy)
					trx, try, t3, _ := call(twAB, nil, tpx, tpy)
					if !same(qx, qy, e1, tqx, tqy, t1) || !same(px, py, e2, tpx, tpy, t2) || !same(rx, ry, e3, trx, try, t3) {
						if twBad == 0 {
							twFirst = fmt.Sprintf("position-%d-(%s,%s)-q=(%s,%s)-twin-q=(%s,%s)-p2=(%s,%s)-twin-p2=(%s,%s)", i, g(lon), g(lat),
								g(qx), g(qy), g(tqx), g(tqy), g(px), g(py), g(tpx), g(tpy))
						}
						twBad++
					}
				}
				fqx, fqy, f1, _ := once(a, b, lon, lat)
				fpx, fpy, f2, _ := once(b, a, qx, qy)
				frx, fry, f3, _ := once(a, b, px, py)
				if !same(qx, qy, e1, fqx, fqy, f1) || !same(px, py, e2, fpx, fpy, f2) || !same(rx, ry, e3, frx, fry, f3) {
					hist = true
				}
				nilAB, nilBA = nilAB || n1, nilBA || n2
				fmt.Fprintf(&rs, " %s %s %s %s %s %s %s %s %s", hexf(qx), hexf(qy), errTok(e1),
					hexf(px), hexf(py), errTok(e2), hexf(rx), hexf(ry), errTok(e3))
			}
			fmt.Fprintf(&sb, " T %s %s H %s R%s", b2s(nilAB), b2s(nilBA), b2s(hist), rs.String())
			if kind == "cc" {
				// cc-sr lines (constructors that store into the shared *SR per call): the window in which another goroutine can
				// observe an intermediate value is a few nanoseconds, so they get ten times the repetitions (11 s per quick run)
				reps := 200
				if strings.Contains(lineClass, "-sr") {
					reps = 2000
				}
				sb.WriteString(concurrent(p, n, tAB, tBA, reps))
			}
			if kind == "tw" {
				if twErr != nil {
					sb.WriteString(" W twinerr " + errTok(twErr))
				} else {
					fmt.Fprintf(&sb, " W A %s B %s K %d %s", srDump(twA), srDump(twB), twBad, twFirst)
				}
			}
			res = sb.String()
		})
		if pan != "" {
			res = "panic " + pan
		}
		fmt.Fprintf(out, "%s => %s\n", line, res)
	})
}

// concurrent: the line's ONE forward and ONE inverse transformer are shared by 8 goroutines
// (GOMAXPROCS >= 8), each pushing its own positions through project / un-project / project again,
// 200 times over; every answer is compared bit for bit with the sequential answer for the same
// input.  Only emitted for definition pairs for which the unchanged tree performs no write per call
// (tmerc, lcc, aea, merc, longlat with every parameter given and no datum shift: checked with
// `go build -race`, see notes/C08.md).  Returns " X <differing answers> <first differing position>".
func concurrent(p *vproto.Parser, n int, tAB, tBA proj.Transformer, reps int) string {
	if tAB == nil || tBA == nil {
		return " X 0 -"
	}
	if runtime.GOMAXPROCS(0) < 8 {
		runtime.GOMAXPROCS(8)
	}
	// the positions were consumed by the sequential pass: read them again from the token list
	pts := make([][2]float64, n)
	q := vproto.Parser{T: p.T, I: 5}
	for i := range pts {
		pts[i] = [2]float64{q.F(), q.F()}
	}
	type ans struct{ v [6]uint64; e [3]bool }
	one := func(pt [2]float64) ans {
		qx, qy, e1 := tAB(pt[0], pt[1])
		px, py, e2 := tBA(qx, qy)
		rx, ry, e3 := tAB(px, py)
		return ans{[6]uint64{math.Float64bits(qx), math.Float64bits(qy), math.Float64bits(px), math.Float64bits(py),
			math.Float64bits(rx), math.Float64bits(ry)}, [3]bool{e1 == nil, e2 == nil, e3 == nil}}
	}
	seq := make([]ans, n)
	for i, pt := range pts {
		seq[i] = one(pt)
	}
	const G = 8
	var mu sync.Mutex
	bad, first := 0, -1
	var wg sync.WaitGroup
	for k := 0; k < G; k++ {
		wg.Add(1)
		go func(k int) {
			defer wg.Done()
			defer func() { // a panic inside a goroutine would kill the harness
				if e := recover(); e != nil {
					mu.Lock()
					bad++
					mu.Unlock()
				}
			}()
			for r := 0; r < reps; r++ {
				for i := k; i < n; i += G {
					if one(pts[i]) != seq[i] {
						mu.Lock()
						bad++
						if first < 0 {
							first = i
						}
						mu.Unlock()
					}
				}
			}
		}(k)
	}
	wg.Wait()
	if bad == 0 {
		return " X 0 -"
	}
	return fmt.Sprintf(" X %d position-%d-(%s,%s)", bad, first, g(pts[max(first, 0)][0]), g(pts[max(first, 0)][1]))
}

// implClosures: `cl <class> <B def> <n> (<lon> <lat>)*n` (radians, in B's own frame).
// fwd, inv := B.Transformers() is obtained ONCE (public API) and the SAME two closures are pushed
// through: the n in-region positions (project, un-project, project again), then calls that the
// projection may legitimately reject (poles, NaN, a quarter turn off the central meridian), then the n
// in-region positions again.  Every in-region answer is also computed by closures obtained fresh from
// a freshly parsed SR (control): H = 1 when a reused answer differs (bit patterns / error status).
//
//	=> B <srdump> J <rejected invalid calls> H <h> R (<q> <e> <p2> <e> <q2> <e>)*2n   (before*n, after*n)
func implClosures(p *vproto.Parser) string {
	p.Next() // class
	b := strings.ReplaceAll(p.Next(), "~", " ")
	n := p.Int()
	B, err := proj.Parse(b)
	if err != nil {
		return "parseerr B " + errTok(err)
	}
	dump := srDump(B)
	U, _ := proj.Parse(b)
	fwd, inv, err := U.Transformers()
	if err != nil {
		return "B " + dump + " newerr " + errTok(err)
	}
	pts := make([][2]float64, n)
	for i := range pts {
		pts[i] = [2]float64{p.F(), p.F()}
	}
	same := func(x1, y1 float64, e1 error, x2, y2 float64, e2 error) bool {
		return math.Float64bits(x1) == math.Float64bits(x2) && math.Float64bits(y1) == math.Float64bits(y2) && (e1 == nil) == (e2 == nil)
	}
	hist := false
	var rs strings.Builder
	round := func() {
		for _, pt := range pts {
			qx, qy, e1 := fwd(pt[0], pt[1])
			px, py, e2 := inv(qx, qy)
			rx, ry, e3 := fwd(px, py)
			F, _ := proj.Parse(b)
			ff, fi, ferr := F.Transformers()
			if ferr != nil {
				hist = true
			} else {
				fqx, fqy, f1 := ff(pt[0], pt[1])
				fpx, fpy, f2 := fi(qx, qy)
				frx, fry, f3 := ff(px, py)
				if !same(qx, qy, e1, fqx, fqy, f1) || !same(px, py, e2, fpx, fpy, f2) || !same(rx, ry, e3, frx, fry, f3) {
					hist = true
				}
			}
			fmt.Fprintf(&rs, " %s %s %s %s %s %s %s %s %s", hexf(qx), hexf(qy), errTok(e1),
				hexf(px), hexf(py), errTok(e2), hexf(rx), hexf(ry), errTok(e3))
		}
	}
	round()
	// calls a projection may reject; their answers are not judged, only what they leave behind
	rejected := 0
	l0 := 0.0
	if len(pts) > 0 {
		l0 = pts[0][0]
	}
	nan := math.NaN()
	for _, c := range [][2]float64{{l0, math.Pi / 2}, {l0, -math.Pi / 2}, {nan, nan}, {l0, 2}, {l0 + math.Pi/2, 0}, {l0 - math.Pi/2, 0}} {
		if _, _, e := fwd(c[0], c[1]); e != nil {
			rejected++
		}
	}
	for _, c := range [][2]float64{{nan, nan}, {1e30, 1e30}, {math.Inf(1), 0}} {
		if _, _, e := inv(c[0], c[1]); e != nil {
			rejected++
		}
	}
	round()
	return fmt.Sprintf("B %s J %d H %s R%s", dump, rejected, b2s(hist), rs.String())
}

// ---------------------------------------------------------------- gen

func g(f float64) string { return strconv.FormatFloat(f, 'f', -1, 64) }

// round to a few decimals so that definitions stay readable (the value used is the rounded one)
func rnd(f float64, dec int) float64 {
	p := math.Pow(10, float64(dec))
	return math.Round(f*p) / p
}

var ellipsoids = []string{"MERIT", "SGS85", "GRS80", "IAU76", "airy", "APL4", "NWL9D", "mod_airy", "andrae",
	"aust_SA", "GRS67", "bessel", "bess_nam", "clrk66", "clrk80", "clrk58", "CPM", "delmbr", "engelis", "evrst30",
	"evrst48", "evrst56", "evrst69", "evrstSS", "fschr60", "fschr60m", "fschr68", "helmert", "hough", "intl",
	"kaula", "lerch", "mprts", "new_intl", "plessis", "krass", "SEasia", "walbeck", "WGS60", "WGS66", "WGS7",
	"WGS84", "sphere"}

var datums = []string{"WGS84", "ch1903", "ggrs87", "nad83", "nad27", "potsdam", "carthage", "hermannskogel",
	"ire65", "rassadiran", "nzgd49", "osgb36", "s_jtsk", "beduaram", "gunung_segara", "rnb72"}

var pms = []string{"greenwich", "lisbon", "paris", "bogota", "madrid", "rome", "bern", "jakarta", "ferro",
	"brussels", "stockholm", "athens", "oslo"}
var pmDeg = map[string]float64{"greenwich": 0, "lisbon": -9.131906111111, "paris": 2.337229166667,
	"bogota": -74.080916666667, "madrid": -3.687938888889, "rome": 12.452333333333, "bern": 7.439583333333,
	"jakarta": 106.807719444444, "ferro": -17.666666666667, "brussels": 4.367975, "stockholm": 18.058277777778,
	"athens": 23.7163375, "oslo": 10.722916666667}

type crs struct {
	def    string  // the +proj string
	pm     float64 // degrees east of Greenwich of this CRS's zero meridian
	tags   []string
	sphere bool
}

// ellipsoid / datum / prime-meridian part shared by geographic and projected definitions
func (c *crs) body(r *vproto.Rng, idx int, allowDatum bool) {
	// ellipsoid: walk through every built-in one (idx), plus custom forms
	switch k := r.Intn(10); {
	case k < 5:
		e := ellipsoids[idx%len(ellipsoids)]
		c.def += " +ellps=" + e
		c.sphere = e == "sphere"
		c.tags = append(c.tags, "ellps")
	case k == 5:
		a := rnd(6350000+r.Float()*50000, 3)
		c.def += " +a=" + g(a) + " +b=" + g(rnd(a*(1-1/(150+r.Float()*300)), 3))
		c.tags = append(c.tags, "ab")
	case k == 6:
		a := rnd(6350000+r.Float()*50000, 3)
		c.def += " +a=" + g(a) + " +rf=" + g(rnd(150+r.Float()*300, 6))
		c.tags = append(c.tags, "arf")
	case k == 7:
		a := rnd(6350000+r.Float()*50000, 3)
		c.def += " +a=" + g(a) + " +b=" + g(a)
		c.sphere = true
		c.tags = append(c.tags, "sph")
	case k == 8:
		c.def += " +ellps=" + ellipsoids[idx%len(ellipsoids)] + " +R_A"
		c.tags = append(c.tags, "ra")
	default:
		c.def += " +ellps=" + ellipsoids[r.Intn(len(ellipsoids))]
		c.tags = append(c.tags, "ellps")
	}
	if allowDatum {
		switch k := r.Intn(8); {
		case k < 2: // none
		case k < 4:
			d := datums[(idx/3)%len(datums)]
			c.def += " +datum=" + d
			c.tags = append(c.tags, "dn")
		case k < 6:
			c.def += fmt.Sprintf(" +towgs84=%s,%s,%s", g(rnd((r.Float()-0.5)*900, 3)), g(rnd((r.Float()-0.5)*900, 3)), g(rnd((r.Float()-0.5)*900, 3)))
			c.tags = append(c.tags, "d3")
		default:
			c.def += fmt.Sprintf(" +towgs84=%s,%s,%s,%s,%s,%s,%s", g(rnd((r.Float()-0.5)*900, 3)), g(rnd((r.Float()-0.5)*900, 3)), g(rnd((r.Float()-0.5)*900, 3)),
				g(rnd((r.Float()-0.5)*2.2, 4)), g(rnd((r.Float()-0.5)*2.2, 4)), g(rnd((r.Float()-0.5)*2.2, 4)), g(rnd((r.Float()-0.5)*40, 4)))
			c.tags = append(c.tags, "d7")
		}
	}
	switch k := r.Intn(8); {
	case k < 5:
	case k < 7:
		n := pms[r.Intn(len(pms))]
		c.def += " +pm=" + n
		c.pm = pmDeg[n]
		c.tags = append(c.tags, "pmN")
	default:
		c.pm = rnd((r.Float()-0.5)*60, 6)
		c.def += " +pm=" + g(c.pm)
		c.tags = append(c.tags, "pmX")
	}
}

func (c *crs) units(r *vproto.Rng) {
	switch r.Intn(6) {
	case 0:
		c.def += " +units=ft"
		c.tags = append(c.tags, "ft")
	case 1:
		c.def += " +units=us-ft"
		c.tags = append(c.tags, "usft")
	case 2:
		c.def += " +units=m"
	}
	if r.Intn(12) == 0 {
		ax := []string{"wnu", "esu", "wsu", "enu", "neu", "swu"}[r.Intn(6)]
		c.def += " +axis=" + ax
		c.tags = append(c.tags, "ax")
	}
}

func falseOrigin(r *vproto.Rng) float64 {
	switch r.Intn(4) {
	case 0:
		return 0
	case 1:
		return []float64{1e7, -1e7, 500000}[r.Intn(3)]
	default:
		return rnd((r.Float()-0.5)*2e7, 2)
	}
}

func lon0(r *vproto.Rng) float64 {
	switch r.Intn(8) {
	case 0:
		return 0
	case 1:
		return []float64{180, -180, 179.5, -179.5}[r.Intn(4)]
	default:
		return rnd((r.Float()-0.5)*360, 4)
	}
}

func k0(r *vproto.Rng) float64 {
	switch r.Intn(4) {
	case 0:
		return 1
	case 1:
		return []float64{0.9, 1.1, 0.9996, 0.9999}[r.Intn(4)]
	default:
		return rnd(0.9+r.Float()*0.2, 6)
	}
}

// region describes where positions may be drawn: longitudes as offset from the central meridian
// (in the projected CRS's own prime-meridian frame), latitudes absolute.
type region struct {
	dlon     float64 // |lon - lon_0| <= dlon
	lon0     float64
	latLo    float64
	latHi    float64
	special  []float64 // latitudes always included (standard parallels, borders)
	absolute bool      // krovak/longlat: lon range absolute [lonLo, lonHi]
	lonLo    float64
	lonHi    float64
}

// standard parallels with |lat1+lat2| > 1 degree, both in the same hemisphere side of the cone
func parallels(r *vproto.Rng) (float64, float64) {
	for {
		var a, b float64
		switch r.Intn(5) {
		case 0: // tangent cone
			a = rnd((r.Float()-0.5)*160, 3)
			b = a
		case 1: // classic
			a = rnd(20+r.Float()*40, 3)
			b = rnd(a+1+r.Float()*20, 3)
		case 2: // southern
			a = -rnd(20+r.Float()*40, 3)
			b = rnd(a-1-r.Float()*20, 3)
		case 3: // straddling the equator but not symmetric
			a = rnd(r.Float()*40, 3)
			b = -rnd(r.Float()*40, 3)
		default:
			a = rnd((r.Float()-0.5)*170, 3)
			b = rnd((r.Float()-0.5)*170, 3)
		}
		if math.Abs(a+b) > 1 && math.Abs(a) <= 85 && math.Abs(b) <= 85 {
			return a, b
		}
	}
}

func mkProjected(r *vproto.Rng, name string, idx int) (crs, region) {
	c := crs{def: "+proj=" + name}
	c.tags = []string{}
	var reg region
	switch name {
	case "longlat":
		reg = region{absolute: true, lonLo: -180, lonHi: 180, latLo: -89.5, latHi: 89.5, special: []float64{0, 89.5, -89.5}}
	case "merc":
		l0 := lon0(r)
		c.def += " +lon_0=" + g(l0)
		switch r.Intn(3) {
		case 0:
			c.def += " +k_0=" + g(k0(r))
		case 1:
			c.def += " +lat_ts=" + g(rnd((r.Float()-0.5)*140, 3))
		}
		if r.Intn(5) != 0 {
			c.def += " +x_0=" + g(falseOrigin(r)) + " +y_0=" + g(falseOrigin(r))
		}
		reg = region{dlon: 179.9, lon0: l0, latLo: -85, latHi: 85, special: []float64{0, 85, -85}}
	case "lcc", "aea", "eqdc":
		p1, p2 := parallels(r)
		l0 := lon0(r)
		la0 := rnd((r.Float()-0.5)*160, 3)
		if r.Intn(4) == 0 {
			la0 = 0
		}
		c.def += " +lat_1=" + g(p1) + " +lat_2=" + g(p2) + " +lat_0=" + g(la0) + " +lon_0=" + g(l0)
		c.def += " +x_0=" + g(falseOrigin(r)) + " +y_0=" + g(falseOrigin(r))
		if name == "lcc" && r.Intn(3) == 0 {
			c.def += " +k_0=" + g(k0(r))
		}
		// cone side: the hemisphere of the apex, and the other one down to 60 degrees beyond the equator
		if p1+p2 > 0 {
			reg = region{dlon: 179, lon0: l0, latLo: -60, latHi: 89, special: []float64{p1, p2, 89, -60, la0}}
		} else {
			reg = region{dlon: 179, lon0: l0, latLo: -89, latHi: 60, special: []float64{p1, p2, -89, 60, la0}}
		}
	case "tmerc":
		l0 := lon0(r)
		la0 := rnd((r.Float()-0.5)*160, 3)
		if r.Intn(3) == 0 {
			la0 = 0
		}
		c.def += " +lat_0=" + g(la0) + " +lon_0=" + g(l0) + " +k_0=" + g(k0(r))
		c.def += " +x_0=" + g(falseOrigin(r)) + " +y_0=" + g(falseOrigin(r))
		reg = region{dlon: 3.5, lon0: l0, latLo: -84, latHi: 84, special: []float64{0, 84, -84, la0}}
	case "utm":
		z := 1 + idx%60
		c.def += " +zone=" + strconv.Itoa(z)
		south := (idx/60)%2 == 1
		if r.Intn(8) == 0 {
			south = !south
		}
		if south {
			c.def += " +south"
		}
		reg = region{dlon: 3.5, lon0: float64(6*z - 183), latLo: -80, latHi: 84, special: []float64{0, 84, -80}}
	case "krovak":
		if r.Intn(3) != 0 {
			c.def += " +lat_0=" + g(rnd(49.5+(r.Float()-0.5)*0.5, 4)) + " +lon_0=" + g(rnd(24.833333333333+(r.Float()-0.5)*0.5, 6))
		}
		if r.Intn(2) == 0 {
			c.def += " +k_0=" + g(rnd(0.9999+(r.Float()-0.5)*0.01, 6))
		}
		if r.Intn(2) == 0 {
			c.def += " +alpha=30.28813972222222 +x_0=0 +y_0=0"
		}
		reg = region{absolute: true, lonLo: 12, lonHi: 23, latLo: 47, latHi: 51.5, special: []float64{47, 51.5, 49.5}}
	}
	c.body(r, idx, true)
	if name != "longlat" {
		c.units(r)
	}
	if c.sphere {
		c.tags = append(c.tags, "S")
	}
	return c, reg
}

func between(s, a, b string) string {
	i := strings.Index(s, a)
	if i < 0 {
		return "\x00"
	}
	s = s[i+len(a):]
	j := strings.Index(s, b)
	if j < 0 {
		return s
	}
	return s[:j]
}

func mkGeographic(r *vproto.Rng, idx int, like *crs) crs {
	c := crs{def: "+proj=longlat"}
	switch k := r.Intn(20); {
	case k < 2: // plain WGS84
		c.def += " +datum=WGS84"
		c.tags = append(c.tags, "gW")
	case k < 15: // same ellipsoid/datum/pm part as the projected CRS (the usual project/unproject pair)
		i := strings.Index(like.def, " +ellps=")
		j := strings.Index(like.def, " +a=")
		if i < 0 || (j >= 0 && j < i) {
			i = j
		}
		rest := like.def[i:]
		for _, cut := range []string{" +units=", " +axis="} {
			if k := strings.Index(rest, cut); k >= 0 {
				rest = rest[:k]
			}
		}
		c.def += rest
		c.pm = like.pm
		c.tags = append(c.tags, "gS")
	default:
		c.body(r, idx+7, true)
		c.tags = append(c.tags, "gX")
	}
	return c
}

func wrap180(x float64) float64 {
	for x > 180 {
		x -= 360
	}
	for x < -180 {
		x += 360
	}
	return x
}

// positions: stratified grid of the usable region including its border.  About a quarter of the positions
// (never the first of a line of 8) are tied to their predecessor — same meridian, same parallel, an exact
// repeat, or 2.5e-6 degrees away (more than the 1e-6 degree clause, less than a single-precision key
// resolves) — so that an answer remembered from the previous call (memo keyed on one coordinate or on a
// rounded value) is a wrong answer for the next one.
func positions(r *vproto.Rng, reg region, a, b crs, n int) [][2]float64 {
	out := make([][2]float64, 0, n)
	var prevLat, prevOff float64 // previous latitude; previous longitude BEFORE the prime-meridian shift / wrap
	latMid := (reg.latLo + reg.latHi) / 2
	for i := 0; i < n; i++ {
		var off, lat float64 // off: absolute longitude in B's frame, or offset from lon_0
		// latitude
		switch k := r.Intn(6); {
		case k == 0 && len(reg.special) > 0:
			lat = reg.special[r.Intn(len(reg.special))]
			if lat < reg.latLo {
				lat = reg.latLo
			}
			if lat > reg.latHi {
				lat = reg.latHi
			}
		case k == 1:
			lat = []float64{reg.latLo, reg.latHi}[r.Intn(2)]
		default:
			// stratified: i-th stratum of n
			lat = reg.latLo + (reg.latHi-reg.latLo)*(float64(i)+r.Float())/float64(n)
		}
		var offMid float64
		if reg.absolute {
			switch r.Intn(6) {
			case 0:
				off = []float64{reg.lonLo, reg.lonHi}[r.Intn(2)]
			default:
				off = reg.lonLo + (reg.lonHi-reg.lonLo)*r.Float()
			}
			offMid = (reg.lonLo + reg.lonHi) / 2
		} else {
			switch r.Intn(6) {
			case 0:
				off = []float64{reg.dlon, -reg.dlon}[r.Intn(2)]
			case 1:
				off = 0
			default:
				off = (r.Float()*2 - 1) * reg.dlon
			}
		}
		if i%8 != 0 {
			const tiny = 2.5e-6
			towards := func(x, mid float64) float64 { // a tiny step that stays inside the region
				if x > mid {
					return x - tiny
				}
				return x + tiny
			}
			switch r.Intn(20) {
			case 0: // same meridian, another latitude
				off = prevOff
			case 1: // same parallel, another longitude
				lat = prevLat
			case 2: // exact repeat
				off, lat = prevOff, prevLat
			case 3: // 2.5e-6 degrees north/south of the previous position
				off, lat = prevOff, towards(prevLat, latMid)
			case 4: // 2.5e-6 degrees east/west of it
				off, lat = towards(prevOff, offMid), prevLat
			}
		}
		prevLat, prevOff = lat, off
		var lon float64
		if reg.absolute {
			// longitudes are given in A's frame; keep A's value inside [-180, 180]
			lon = off
			if reg.lonLo != -180 {
				lon = off + b.pm - a.pm // region is stated in B's prime-meridian frame (as lon_0 is)
			}
		} else {
			// lon_0 is relative to B's prime meridian; A's longitudes are relative to A's
			lon = reg.lon0 + b.pm - a.pm + off
		}
		lon = wrap180(lon)
		out = append(out, [2]float64{rnd(lon, 9), rnd(lat, 9)})
	}
	return out
}

func emit(out *bufio.Writer, cls string, a, b crs, ps [][2]float64) {
	for i := 0; i < len(ps); i += 8 {
		j := i + 8
		if j > len(ps) {
			j = len(ps)
		}
		fmt.Fprintf(out, "rt %s %s %s %d", cls, strings.ReplaceAll(a.def, " ", "~"), strings.ReplaceAll(b.def, " ", "~"), j-i)
		for _, p := range ps[i:j] {
			fmt.Fprintf(out, " %s %s", hexf(p[0]), hexf(p[1]))
		}
		fmt.Fprintln(out)
	}
}

// emitClosures writes `cl` lines: positions in radians in B's own frame
func emitClosures(out *bufio.Writer, name string, b crs, ps [][2]float64, _ int) {
	for i := 0; i < len(ps); i += 8 {
		j := i + 8
		if j > len(ps) {
			j = len(ps)
		}
		fmt.Fprintf(out, "cl %s-closures %s %d", name, strings.ReplaceAll(b.def, " ", "~"), j-i)
		for _, p := range ps[i:j] {
			fmt.Fprintf(out, " %s %s", hexf(p[0]*math.Pi/180), hexf(p[1]*math.Pi/180))
		}
		fmt.Fprintln(out)
	}
}

var wktCM = regexp.MustCompile(`(?i)central_meridian",\s*([-0-9.]+)`)

func class(name string, a, b crs) string {
	t := name
	for _, s := range b.tags {
		t += "-" + s
	}
	t += "/" + strings.Join(a.tags, "-")
	return t
}

func gen(seed uint64, tier string) {
	out := bufio.NewWriter(os.Stdout)
	defer out.Flush()
	r := vproto.NewRng(seed)
	nParam, nPos := 200, 120
	if tier == "thorough" {
		nParam, nPos = 600, 400
	}
	// fixed corpus: the definitions of proj_test.go/testData.json style and the design-time observations
	wgs := crs{def: "+proj=longlat +datum=WGS84", tags: []string{"gW"}}
	fixed := []struct {
		b  string
		ps [][2]float64
	}{
		{"+proj=krovak +lat_0=49.5 +lon_0=24.83333333333333 +alpha=30.28813972222222 +k=0.9999 +x_0=0 +y_0=0 +ellps=bessel +towgs84=589,76,480 +units=m +no_defs", [][2]float64{{14.4, 50.1}, {12.8, 49.4}, {18.2, 49.8}, {22, 48.5}}},
		{"+proj=krovak +ellps=bessel", [][2]float64{{14.4, 50.1}, {17, 48}}},
		{"+proj=utm +zone=33 +datum=WGS84", [][2]float64{{15, 60}, {12, 0}, {18.5, -10}, {11.5, 84}}},
		{"+proj=merc +a=6378137 +b=6378137 +lat_ts=0.0 +lon_0=0.0 +x_0=0.0 +y_0=0 +k=1.0 +units=m +nadgrids=@null +no_defs", [][2]float64{{-71, 41}, {179.9, 85}, {-179.9, -85}, {0, 0}}},
		{"+proj=lcc +lat_1=49 +lat_2=44 +lat_0=46.5 +lon_0=3 +x_0=700000 +y_0=6600000 +ellps=GRS80 +towgs84=0,0,0,0,0,0,0 +units=m +no_defs", [][2]float64{{2.3, 48.8}, {-4, 42}, {9, 51}}},
		{"+proj=aea +lat_1=29.5 +lat_2=45.5 +lat_0=23 +lon_0=-96 +x_0=0 +y_0=0 +datum=NAD83 +units=m", [][2]float64{{-100, 40}, {-70, 25}, {-125, 49}}},
		{"+proj=eqdc +lat_0=39 +lon_0=-96 +lat_1=33 +lat_2=45 +x_0=0 +y_0=0 +datum=NAD83 +units=m", [][2]float64{{-100, 40}, {-70, 25}}},
		{"+proj=tmerc +lat_0=49 +lon_0=-2 +k=0.9996012717 +x_0=400000 +y_0=-100000 +datum=OSGB36 +units=m", [][2]float64{{-1.5, 52}, {1.5, 51}, {-5.5, 58}}},
		{"+proj=tmerc +lat_0=0 +lon_0=9 +k=1 +x_0=3500000 +y_0=0 +ellps=bessel +datum=potsdam +pm=paris", [][2]float64{{6.7, 50.1}, {10, 48}}},
		{"+proj=longlat +ellps=bessel +towgs84=589,76,480", [][2]float64{{14.4, 50.1}, {-120, -33}}},
		// round h: 7 values, non-zero rotations, scale correction of EXACTLY 0 ppm (scale factor 1), and the other exact-zero patterns
		{"+proj=tmerc +lat_0=0 +lon_0=15 +k=0.9996 +x_0=500000 +y_0=0 +ellps=bessel +towgs84=577.3,90.1,463.9,5.137,1.474,5.297,0 +units=m", [][2]float64{{14.4, 50.1}, {16.9, 48.2}, {13.1, -33.5}}},
		{"+proj=longlat +ellps=bessel +towgs84=577.3,90.1,463.9,5.137,1.474,5.297,0", [][2]float64{{14.4, 50.1}, {-120, -33}, {179.5, 80}}},
		{"+proj=lcc +lat_1=49 +lat_2=44 +lat_0=46.5 +lon_0=3 +x_0=700000 +y_0=6600000 +ellps=clrk80 +towgs84=-168,-60,320,0,0,0.554,-0.0", [][2]float64{{2.3, 48.8}, {-4, 42}}},
		{"+proj=utm +zone=33 +ellps=intl +towgs84=0,0,0,0,0,0,4.5", [][2]float64{{15, 60}, {12, 0}}},
		{"+proj=merc +lon_0=0 +k=1 +x_0=0 +y_0=0 +ellps=krass +towgs84=0.0,-0,0,0.35,0.08,0.12,-0", [][2]float64{{-71, 41}, {30, -60}}},
	}
	// a geographic CRS and its projected CRS on the same national datum (WGS84 two-hop route on
	// ONE reused transformer pair: seeded change C08-a3)
	same := []struct {
		a, b string
		ps   [][2]float64
	}{
		{"+proj=longlat +datum=potsdam", "+proj=tmerc +lat_0=0 +lon_0=9 +k=1 +x_0=3500000 +y_0=0 +datum=potsdam +units=m", [][2]float64{{9.2, 48.8}, {7.1, 50.7}, {11.6, 48.1}, {8.7, 53.1}}},
		{"+proj=longlat +datum=OSGB36", "+proj=tmerc +lat_0=49 +lon_0=-2 +k=0.9996012717 +x_0=400000 +y_0=-100000 +datum=OSGB36 +units=m", [][2]float64{{-0.1, 51.5}, {-3.2, 55.9}, {-4.3, 50.4}}},
		{"+proj=longlat +ellps=bessel +towgs84=589,76,480", "+proj=krovak +ellps=bessel +towgs84=589,76,480", [][2]float64{{14.4, 50.1}, {17, 48.5}, {13, 49.7}}},
		{"+proj=longlat +ellps=bessel +towgs84=577.3,90.1,463.9,5.137,1.474,5.297,0", "+proj=tmerc +lat_0=0 +lon_0=15 +k=0.9996 +x_0=500000 +y_0=0 +ellps=bessel +towgs84=577.3,90.1,463.9,5.137,1.474,5.297,0.0", [][2]float64{{14.4, 50.1}, {16.9, 48.2}}},
		{"+proj=longlat +ellps=bessel +towgs84=577.3,90.1,463.9,5.137,1.474,5.297,-0", "+proj=eqdc +lat_0=40 +lon_0=15 +lat_1=35 +lat_2=48 +x_0=1000 +y_0=250000 +ellps=intl +towgs84=-87,-98,-121", [][2]float64{{14.4, 50.1}, {20, 38}}},
	}
	for _, f := range same {
		a := crs{def: f.a, tags: []string{"gS"}}
		b := crs{def: f.b, tags: []string{"fixed"}}
		emit(out, class(between(f.b, "+proj=", " "), a, b), a, b, f.ps)
	}
	for _, f := range fixed {
		b := crs{def: f.b, tags: []string{"fixed"}}
		if strings.Contains(f.b, "+pm=paris") {
			b.pm = pmDeg["paris"]
		}
		name := between(f.b, "+proj=", " ")
		emit(out, class(name, wgs, b), wgs, b, f.ps)
	}
	// WKT-defined systems (proj.Parse accepts WKT), incl. the ESRI Mercator_Auxiliary_Sphere text
	for _, w := range wktCorpus {
		b := crs{def: w.wkt, tags: []string{"wkt"}}
		ps := [][2]float64{}
		// the transverse series is usable within 3.5 degrees of the central meridian only
		if m := wktCM.FindStringSubmatch(w.wkt); m != nil && strings.Contains(w.wkt, `PROJECTION["Transverse_Mercator"]`) {
			if cm, err := strconv.ParseFloat(m[1], 64); err == nil && math.Abs(w.ll[0]-cm) > 2 {
				w.ll[0] = cm + 1.5
			}
		}
		for _, d := range [][2]float64{{0, 0}, {1, 0.5}, {-1, -0.5}, {0.5, -1}, {-0.5, 1}, {0.25, 2}, {-0.75, -2}, {0, 0.001}} {
			ps = append(ps, [2]float64{w.ll[0] + d[0], w.ll[1] + d[1]})
		}
		if strings.Contains(w.wkt, "Mercator_Auxiliary_Sphere") {
			ps = append(ps, [][2]float64{{-179, 85}, {179, -85}, {0, 45}, {10, 50}, {-95, -40}, {120, 66.5}, {-30, -23.4}, {60, 1}}...)
		}
		emit(out, class("wkt", wgs, b), wgs, b, ps)
		emitClosures(out, "wkt", b, ps, 0)
	}
	// concurrent use of ONE transformer pair: only definitions for which the unchanged tree performs no
	// write per call (every parameter given; no datum shift: both sides on the same ellipsoid, without
	// datum or both +datum=WGS84)
	nConc := 30
	if tier == "thorough" {
		nConc = 120
	}
	for _, name := range []string{"tmerc", "lcc", "aea", "merc", "longlat"} {
		for i := 0; i < nConc; i++ {
			el := " +ellps=" + ellipsoids[r.Intn(len(ellipsoids)-1)] // not "sphere": keep it simple
			if r.Intn(3) == 0 {
				el = " +ellps=WGS84 +datum=WGS84"
			}
			b := crs{def: "+proj=" + name, tags: []string{"cc"}}
			l0 := lon0(r)
			var reg region
			switch name {
			case "tmerc":
				la0 := rnd((r.Float()-0.5)*160, 3)
				b.def += " +lat_0=" + g(la0) + " +lon_0=" + g(l0) + " +k_0=" + g(k0(r)) + " +x_0=" + g(falseOrigin(r)) + " +y_0=" + g(falseOrigin(r))
				reg = region{dlon: 3.5, lon0: l0, latLo: -84, latHi: 84}
			case "merc":
				b.def += " +lon_0=" + g(l0) + " +k_0=" + g(k0(r)) + " +x_0=" + g(falseOrigin(r)) + " +y_0=" + g(falseOrigin(r))
				reg = region{dlon: 179, lon0: l0, latLo: -85, latHi: 85}
			case "lcc", "aea":
				p1, p2 := parallels(r)
				b.def += " +lat_1=" + g(p1) + " +lat_2=" + g(p2) + " +lat_0=" + g(rnd((r.Float()-0.5)*120, 3)) + " +lon_0=" + g(l0) +
					" +x_0=" + g(falseOrigin(r)) + " +y_0=" + g(falseOrigin(r))
				if name == "lcc" {
					b.def += " +k_0=" + g(k0(r))
				}
				if p1+p2 > 0 {
					reg = region{dlon: 170, lon0: l0, latLo: -50, latHi: 88}
				} else {
					reg = region{dlon: 170, lon0: l0, latLo: -88, latHi: 50}
				}
			case "longlat":
				reg = region{absolute: true, lonLo: -180, lonHi: 180, latLo: -89, latHi: 89}
			}
			b.def += el
			if name != "longlat" && r.Intn(3) == 0 {
				b.def += " +units=us-ft"
			}
			if r.Intn(4) == 0 {
				b.pm = pmDeg["paris"]
				b.def += " +pm=paris"
			}
			a := crs{def: "+proj=longlat" + el, tags: []string{"gS"}}
			ps := positions(r, reg, a, b, 32)
			fmt.Fprintf(out, "cc %s %s %s %d", class(name, a, b), strings.ReplaceAll(a.def, " ", "~"), strings.ReplaceAll(b.def, " ", "~"), len(ps))
			for _, p := range ps {
				fmt.Fprintf(out, " %s %s", hexf(p[0]), hexf(p[1]))
			}
			fmt.Fprintln(out)
		}
	}
	// the strata added in wave 2 draw from their own streams, so that the cases of the older strata stay what they were
	genTwins(out, vproto.NewRng(seed^0x7477), tier)
	genInterleaved(out, vproto.NewRng(seed^0x696c), tier)
	genCloseParallels(out, vproto.NewRng(seed^0x6370), tier)
	genZeroDatum(out, vproto.NewRng(seed^0x647a), tier)    // round h: exact-zero patterns of a 7-value +towgs84
	genConcurrentSR(out, vproto.NewRng(seed^0x6373), tier) // phase 4: cc lines for the constructors that store into the shared *SR per call
	names := []string{"longlat", "merc", "lcc", "aea", "eqdc", "tmerc", "utm", "krovak"}
	for _, name := range names {
		for i := 0; i < nParam; i++ {
			b, reg := mkProjected(r, name, i)
			a := mkGeographic(r, i, &b)
			emit(out, class(name, a, b), a, b, positions(r, reg, a, b, nPos))
			// the same parameterisation through ONE reused closure pair of B.Transformers():
			// positions in B's own frame (A := B's frame, so that lon = lon_0 + d)
			emitClosures(out, name, b, positions(r, reg, b, b, 8), 0)
		}
	}
}

func main() {
	if len(os.Args) < 2 {
		fmt.Fprintln(os.Stderr, "usage: c08 gen|impl")
		os.Exit(2)
	}
	switch os.Args[1] {
	case "gen":
		seed, tier := vproto.SeedTier(os.Args[2:])
		gen(seed, tier)
	case "impl":
		impl()
	}
}
