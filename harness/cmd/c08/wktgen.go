package main

// Generator stratum `tw` (route decision of NewTransform, fix b165df1): references whose datum code is
// the LOWER-CASE `wgs84` — what the WKT reader writes for D_WGS_1984 / WGS_1984, and what projString
// writes for `+datum=wgs84` — paired with a reference on a 3- or 7-parameter datum, so that
// checkNotWGS(source, dest) is decided by the comparison of dest.DatumCode with "WGS84" alone.
// Every line carries a TWIN pair: the same two references with the lower-case side written as its
// PROJ.4 form `+datum=WGS84`.  The two pairs must take the same route, hence give bit-identical
// answers on every leg (impl compares; the judge first checks that the twin records are the same).
//
//	tw <class> <A def> <B def> <A twin def> <B twin def> <n> (<lon> <lat>)*n

import (
	"bufio"
	"fmt"
	"strings"

	"verif/harness/vproto"
)

const wktGeogWGS = `GEOGCS["GCS_WGS_1984",DATUM["D_WGS_1984",SPHEROID["WGS_1984",6378137.0,298.257223563]],PRIMEM["Greenwich",0.0],UNIT["Degree",0.0174532925199433]]`
const wktGeogWGSogc = `GEOGCS["WGS 84",DATUM["WGS_1984",SPHEROID["WGS 84",6378137,298.257223563,AUTHORITY["EPSG","7030"]],AUTHORITY["EPSG","6326"]],PRIMEM["Greenwich",0,AUTHORITY["EPSG","8901"]],UNIT["degree",0.01745329251994328,AUTHORITY["EPSG","9122"]],AUTHORITY["EPSG","4326"]]`

// a projected reference on WGS84 in three spellings: WKT (datum code wgs84), PROJ.4 with
// +datum=wgs84 (lower-cased by projString), PROJ.4 with +datum=WGS84 (the twin)
func wgsProjected(r *vproto.Rng, name string) (wkt, p4lc, p4 string, reg region) {
	l0 := lon0(r)
	x0, y0 := falseOrigin(r), falseOrigin(r)
	geog := wktGeogWGS
	par := func(k string, v float64) string { return `,PARAMETER["` + k + `",` + g(v) + `]` }
	var proj, pars, s string
	switch name {
	case "tmerc":
		la0 := rnd((r.Float()-0.5)*160, 3)
		k := k0(r)
		proj = "Transverse_Mercator"
		pars = par("latitude_of_origin", la0) + par("central_meridian", l0) + par("scale_factor", k) + par("false_easting", x0) + par("false_northing", y0)
		s = "+proj=tmerc +lat_0=" + g(la0) + " +lon_0=" + g(l0) + " +k_0=" + g(k) + " +x_0=" + g(x0) + " +y_0=" + g(y0)
		reg = region{dlon: 3.5, lon0: l0, latLo: -84, latHi: 84, special: []float64{0, 84, -84, la0}}
	case "merc":
		k := k0(r)
		proj = "Mercator_1SP"
		pars = par("central_meridian", l0) + par("scale_factor", k) + par("false_easting", x0) + par("false_northing", y0)
		s = "+proj=merc +lon_0=" + g(l0) + " +k_0=" + g(k) + " +x_0=" + g(x0) + " +y_0=" + g(y0)
		reg = region{dlon: 179, lon0: l0, latLo: -85, latHi: 85, special: []float64{0, 85, -85}}
	default: // lcc, aea, eqdc
		p1, p2 := parallels(r)
		la0 := rnd((r.Float()-0.5)*120, 3)
		proj = map[string]string{"lcc": "Lambert_Conformal_Conic_2SP", "aea": "Albers", "eqdc": "Equidistant_Conic"}[name]
		if name == "aea" && r.Intn(2) == 0 { // the OGC spelling: longitude_of_center / latitude_of_center
			proj = "Albers_Conic_Equal_Area"
			pars = par("standard_parallel_1", p1) + par("standard_parallel_2", p2) + par("latitude_of_center", la0) + par("longitude_of_center", l0)
		} else {
			pars = par("standard_parallel_1", p1) + par("standard_parallel_2", p2) + par("latitude_of_origin", la0) + par("central_meridian", l0)
		}
		pars += par("false_easting", x0) + par("false_northing", y0)
		s = "+proj=" + name + " +lat_1=" + g(p1) + " +lat_2=" + g(p2) + " +lat_0=" + g(la0) + " +lon_0=" + g(l0) + " +x_0=" + g(x0) + " +y_0=" + g(y0)
		if p1+p2 > 0 {
			reg = region{dlon: 170, lon0: l0, latLo: -50, latHi: 88, special: []float64{p1, p2, la0}}
		} else {
			reg = region{dlon: 170, lon0: l0, latLo: -88, latHi: 50, special: []float64{p1, p2, la0}}
		}
	}
	if r.Intn(2) == 0 {
		geog = wktGeogWGSogc
	}
	wkt = `PROJCS["w",` + geog + `,PROJECTION["` + proj + `"]` + pars + `,UNIT["Meter",1.0]]`
	return wkt, s + " +datum=wgs84 +units=m", s + " +datum=WGS84 +units=m", reg
}

// a 3- or 7-parameter datum part (named or +towgs84)
func shiftedDatum(r *vproto.Rng, idx int) string {
	named3 := []string{"potsdam", "ch1903", "ggrs87", "carthage", "hermannskogel", "s_jtsk", "beduaram", "gunung_segara"}
	named7 := []string{"ire65", "nzgd49", "osgb36", "rnb72"}
	f := func(w float64, d int) string { return g(rnd((r.Float()-0.5)*w, d)) }
	switch r.Intn(4) {
	case 0:
		return " +datum=" + named3[idx%len(named3)]
	case 1:
		return " +datum=" + named7[idx%len(named7)]
	case 2:
		return " +ellps=" + ellipsoids[idx%(len(ellipsoids)-1)] + " +towgs84=" + f(900, 3) + "," + f(900, 3) + "," + f(900, 3)
	default:
		return " +ellps=" + ellipsoids[idx%(len(ellipsoids)-1)] + " +towgs84=" + f(900, 3) + "," + f(900, 3) + "," + f(900, 3) + "," +
			f(2.2, 4) + "," + f(2.2, 4) + "," + f(2.2, 4) + "," + f(40, 4)
	}
}

func emitTwin(out *bufio.Writer, cls string, a, b, a2, b2 string, ps [][2]float64) {
	t := func(s string) string { return strings.ReplaceAll(s, " ", "~") }
	for i := 0; i < len(ps); i += 8 {
		j := min(i+8, len(ps))
		fmt.Fprintf(out, "tw %s %s %s %s %s %d", cls, t(a), t(b), t(a2), t(b2), j-i)
		for _, p := range ps[i:j] {
			fmt.Fprintf(out, " %s %s", hexf(p[0]), hexf(p[1]))
		}
		fmt.Fprintln(out)
	}
}

func genTwins(out *bufio.Writer, r *vproto.Rng, tier string) {
	n := 12
	if tier == "thorough" {
		n = 60
	}
	const wgsP4 = "+proj=longlat +datum=WGS84"
	zero := crs{}
	for _, name := range []string{"tmerc", "merc", "lcc", "aea", "eqdc"} {
		for i := 0; i < n; i++ {
			// (1) geographic side lower-case wgs84, projected side on a shifted datum:
			//     B -> A is decided by EqualFold(A.DatumCode, "WGS84")
			b, reg := mkProjectedPlain(r, name, i)
			bdef := b + shiftedDatum(r, i)
			a := []string{wktGeogWGS, wktGeogWGSogc, "+proj=longlat +datum=wgs84"}[i%3]
			emitTwin(out, "tw-"+name+"-geoLower", a, bdef, wgsP4, bdef, positions(r, reg, zero, zero, 16))
			// (2) projected side lower-case wgs84 (WKT text or +datum=wgs84), geographic side on a shifted datum:
			//     A -> B is decided by EqualFold(B.DatumCode, "WGS84")
			wkt, p4lc, p4, reg2 := wgsProjected(r, name)
			adef := "+proj=longlat" + shiftedDatum(r, i+5)
			bl := wkt
			if i%4 == 3 {
				bl = p4lc
			}
			emitTwin(out, "tw-"+name+"-projLower", adef, bl, adef, p4, positions(r, reg2, zero, zero, 16))
			// (3) both sides lower-case wgs84: no shift on either side, trivially the same route
			if i%4 == 0 {
				emitTwin(out, "tw-"+name+"-bothLower", a, bl, wgsP4, p4, positions(r, reg2, zero, zero, 8))
			}
		}
	}
}

// the projection part only (every parameter given, metres, Greenwich), without ellipsoid or datum
func mkProjectedPlain(r *vproto.Rng, name string, idx int) (string, region) {
	_, _, p4, reg := wgsProjected(r, name)
	return strings.TrimSuffix(p4, " +datum=WGS84 +units=m") + " +units=m", reg
}
