package main

// Line kind `il` (seeded change C08-f2: state carried from a call on one transformer into the next call on ANOTHER
// transformer, e.g. a package-level memo keyed on the latitude alone): two projected systems B1, B2 with the same
// projection parameters (same lat_0 / standard parallels / central meridian) on DIFFERENT ellipsoids — or a UTM zone
// and a transverse Mercator on its central meridian — and one geographic A without datum (so both receive the same
// radians).  impl runs B2's three legs per position (a) alone and (b) INTERLEAVED with B1's (B1 first, on the same
// position), each on its own reused transformer pair; it reports B2's INTERLEAVED answers (judged by Spec and by
// the model like an `rt` line) and H = 1 when they differ bit for bit from B2's answers alone.
//
//	il <class> <A def> <B1 def> <B2 def> <n> (<lon> <lat>)*n

import (
	"bufio"
	"fmt"
	"math"
	"strings"

	"github.com/ctessum/geom/proj"

	"verif/harness/vproto"
)

func genInterleaved(out *bufio.Writer, r *vproto.Rng, tier string) {
	n := 10
	if tier == "thorough" {
		n = 50
	}
	t := func(s string) string { return strings.ReplaceAll(s, " ", "~") }
	ell := func() string { return ellipsoids[r.Intn(len(ellipsoids)-1)] }
	zero := crs{}
	for _, name := range []string{"tmerc", "eqdc", "lcc", "aea", "merc", "utm"} {
		for i := 0; i < n; i++ {
			e1, e2 := ell(), ell()
			for e2 == e1 {
				e2 = ell()
			}
			var b1, b2 string
			var reg region
			if name == "utm" {
				// a UTM zone, then a transverse Mercator whose lat_0 is a latitude of the positions
				z := 1 + r.Intn(60)
				la0 := rnd((r.Float()-0.5)*140, 3)
				b1 = "+proj=utm +zone=" + fmt.Sprint(z) + " +ellps=" + e1
				b2 = "+proj=tmerc +lat_0=" + g(la0) + " +lon_0=" + g(float64(6*z-183)) + " +k_0=" + g(k0(r)) + " +x_0=" + g(falseOrigin(r)) + " +y_0=" + g(falseOrigin(r)) + " +ellps=" + e2
				reg = region{dlon: 3.5, lon0: float64(6*z - 183), latLo: -80, latHi: 84, special: []float64{la0, la0, 0}}
			} else {
				p, rg := mkProjectedPlain(r, name, i)
				b1, b2, reg = p+" +ellps="+e1, p+" +ellps="+e2, rg
			}
			a := "+proj=longlat +ellps=" + e2
			ps := positions(r, reg, zero, zero, 8)
			// the first position on a constructor latitude (lat_0 for tmerc, a standard parallel or lat_0 for the conics)
			if len(reg.special) > 0 {
				la := reg.special[len(reg.special)-1]
				if name == "utm" {
					la = reg.special[0]
				}
				if la >= reg.latLo && la <= reg.latHi {
					ps[0][1] = la
					ps[3][1] = la
				}
				// the conics: also exactly on lat_1 and on lat_2 (EqdC / LCC / AEA constructors evaluate their series there)
				if name == "lcc" || name == "aea" || name == "eqdc" {
					for k := 0; k < 2; k++ {
						if la := reg.special[k]; la >= reg.latLo && la <= reg.latHi {
							ps[1+k][1] = la
						}
					}
				}
			}
			fmt.Fprintf(out, "il il-%s %s %s %s %d", name, t(a), t(b1), t(b2), len(ps))
			for _, p := range ps {
				fmt.Fprintf(out, " %s %s", hexf(p[0]), hexf(p[1]))
			}
			fmt.Fprintln(out)
		}
	}
}

type legs struct {
	v [6]float64
	e [3]error
}

func (l legs) same(m legs) bool {
	for i := range l.v {
		if math.Float64bits(l.v[i]) != math.Float64bits(m.v[i]) {
			return false
		}
	}
	for i := range l.e {
		if (l.e[i] == nil) != (m.e[i] == nil) {
			return false
		}
	}
	return true
}

func threeLegs(tAB, tBA proj.Transformer, lon, lat float64) legs {
	call := func(t proj.Transformer, x, y float64) (float64, float64, error) {
		if t == nil {
			return x, y, nil
		}
		return t(x, y)
	}
	var l legs
	l.v[0], l.v[1], l.e[0] = call(tAB, lon, lat)
	l.v[2], l.v[3], l.e[1] = call(tBA, l.v[0], l.v[1])
	l.v[4], l.v[5], l.e[2] = call(tAB, l.v[2], l.v[3])
	return l
}

func implInterleaved(p *vproto.Parser) string {
	p.Next() // class
	a := strings.ReplaceAll(p.Next(), "~", " ")
	b1 := strings.ReplaceAll(p.Next(), "~", " ")
	b2 := strings.ReplaceAll(p.Next(), "~", " ")
	n := p.Int()
	pair := func(a, b string) (proj.Transformer, proj.Transformer, error) {
		A, err := proj.Parse(a)
		if err != nil {
			return nil, nil, err
		}
		B, err := proj.Parse(b)
		if err != nil {
			return nil, nil, err
		}
		ab, err := A.NewTransform(B)
		if err != nil {
			return nil, nil, err
		}
		ba, err := B.NewTransform(A)
		return ab, ba, err
	}
	A, err := proj.Parse(a)
	if err != nil {
		return "parseerr A " + errTok(err)
	}
	B2, err := proj.Parse(b2)
	if err != nil {
		return "parseerr B " + errTok(err)
	}
	dump := "A " + srDump(A) + " B " + srDump(B2)
	pts := make([][2]float64, n)
	for i := range pts {
		pts[i] = [2]float64{p.F(), p.F()}
	}
	// (0) B1 alone first (wave 5): anything the library remembers per PARAMETER SET (a constructor-level memo keyed on the
	// standard parallels, say) is then primed with the OTHER ellipsoid's values before B2 is ever built in this process;
	// B2's answers below are judged by Spec and model, so a memo that serves them B1's constants is a failing input
	if ab0, ba0, err := pair(a, b1); err == nil {
		for _, pt := range pts {
			threeLegs(ab0, ba0, pt[0], pt[1])
		}
	}
	// (a) B2 alone
	ab, ba, err := pair(a, b2)
	if err != nil {
		return "parseerr B " + errTok(err)
	}
	alone := make([]legs, n)
	for i, pt := range pts {
		alone[i] = threeLegs(ab, ba, pt[0], pt[1])
	}
	// (b) interleaved with B1
	ab1, ba1, err := pair(a, b1)
	if err != nil {
		return "parseerr B " + errTok(err)
	}
	ab2, ba2, err := pair(a, b2)
	if err != nil {
		return "parseerr B " + errTok(err)
	}
	hist := false
	var rs strings.Builder
	for i, pt := range pts {
		threeLegs(ab1, ba1, pt[0], pt[1])
		l := threeLegs(ab2, ba2, pt[0], pt[1])
		if !l.same(alone[i]) {
			hist = true
		}
		fmt.Fprintf(&rs, " %s %s %s %s %s %s %s %s %s", hexf(l.v[0]), hexf(l.v[1]), errTok(l.e[0]),
			hexf(l.v[2]), hexf(l.v[3]), errTok(l.e[1]), hexf(l.v[4]), hexf(l.v[5]), errTok(l.e[2]))
	}
	return fmt.Sprintf("%s T %s %s H %s R%s", dump, b2s(ab2 == nil), b2s(ba2 == nil), b2s(hist), rs.String())
}
