package main

// transform.go (the pipeline): Gen/GoRoute.lean.  Every DECISION of checkNotWGS, of the closure of NewTransform and of
// transform3 that reads only the two *SR records becomes a regenerated `Bool` definition over (source dest : SR α)
// (`==`/`!=` on datum types, datum codes, axis strings and projection names, `strings.EqualFold`, `math.IsNaN`,
// calls of checkNotWGS with their ARGUMENT ORDER, `!`, `&&`, `||`), and every compound assignment to point[0] /
// point[1] (`*= deg2rad`, `*= source.ToMeter`, `+= source.FromGreenwich`, `-= dest.FromGreenwich`, `*= r2d`,
// `/= dest.ToMeter`) an α definition.  Ties: lean/GeomV/C08/TiesRoute.lean.

import (
	"fmt"
	"go/ast"
	"go/parser"
	"go/token"
	"os"
	"path/filepath"
	"strings"
)

var natConsts = map[string]bool{"pjd3Param": true, "pjd7Param": true, "pjdGridShift": true, "pjdWGS84": true, "pjdNoDatum": true}

// operand of == / != ; kind: "nat", "str", "axis", "name"
func rOperand(e ast.Expr) (string, string, bool) {
	switch t := e.(type) {
	case *ast.ParenExpr:
		return rOperand(t.X)
	case *ast.BasicLit:
		if t.Kind == token.STRING && strings.HasPrefix(t.Value, `"`) && !strings.ContainsAny(t.Value[1:len(t.Value)-1], `"\`) {
			return t.Value, "str", true
		}
	case *ast.Ident:
		if natConsts[t.Name] {
			return t.Name, "nat", true
		}
		if t.Name == "enu" {
			return "enu", "axis", true
		}
		if t.Name == "longlat" {
			return "PName.longlat", "name", true
		}
	case *ast.SelectorExpr:
		// source.datum.datum_type
		if in, ok := t.X.(*ast.SelectorExpr); ok && t.Sel.Name == "datum_type" && in.Sel.Name == "datum" {
			if x, ok := in.X.(*ast.Ident); ok && (x.Name == "source" || x.Name == "dest") {
				return x.Name + ".datum.dtype", "nat", true
			}
		}
		if x, ok := t.X.(*ast.Ident); ok && (x.Name == "source" || x.Name == "dest") {
			switch t.Sel.Name {
			case "DatumCode":
				return x.Name + ".datumCode", "str", true
			case "Axis":
				return x.Name + ".axis", "axis", true
			case "Name":
				return x.Name + ".name", "name", true
			}
		}
	}
	return "", "", false
}

func srArg(e ast.Expr) (string, bool) {
	if x, ok := e.(*ast.Ident); ok && (x.Name == "source" || x.Name == "dest") {
		return x.Name, true
	}
	return "", false
}

// boolean expression over (source dest : SR α)
func rBool(e ast.Expr) (string, bool) {
	switch t := e.(type) {
	case *ast.ParenExpr:
		return rBool(t.X)
	case *ast.UnaryExpr:
		if t.Op == token.NOT {
			if s, ok := rBool(t.X); ok {
				return "(!" + s + ")", true
			}
		}
	case *ast.BinaryExpr:
		switch t.Op {
		case token.LAND, token.LOR:
			l, ok1 := rBool(t.X)
			r, ok2 := rBool(t.Y)
			if ok1 && ok2 {
				return "(" + l + map[token.Token]string{token.LAND: " && ", token.LOR: " || "}[t.Op] + r + ")", true
			}
		case token.EQL, token.NEQ:
			l, k1, ok1 := rOperand(t.X)
			r, k2, ok2 := rOperand(t.Y)
			if ok1 && ok2 && k1 == k2 {
				s := "decide (" + l + " = " + r + ")"
				if t.Op == token.NEQ {
					s = "(!" + s + ")"
				}
				return s, true
			}
		}
	case *ast.CallExpr:
		switch f := t.Fun.(type) {
		case *ast.Ident:
			if f.Name == "checkNotWGS" && len(t.Args) == 2 {
				a, ok1 := srArg(t.Args[0])
				b, ok2 := srArg(t.Args[1])
				if ok1 && ok2 {
					return "(transform_checkNotWGS_ret " + a + " " + b + ")", true
				}
			}
		case *ast.SelectorExpr:
			x, ok := f.X.(*ast.Ident)
			if !ok {
				break
			}
			if x.Name == "strings" && f.Sel.Name == "EqualFold" && len(t.Args) == 2 {
				a, k1, ok1 := rOperand(t.Args[0])
				b, k2, ok2 := rOperand(t.Args[1])
				if ok1 && ok2 && k1 == "str" && k2 == "str" {
					return "(goEqualFold " + a + " " + b + ")", true
				}
			}
			if x.Name == "math" && f.Sel.Name == "IsNaN" && len(t.Args) == 1 {
				if a, ok := rScalar(t.Args[0]); ok {
					return "(RNum.isNaN " + a + ")", true
				}
			}
		}
	}
	return "", false
}

var routeFields = map[string]string{"ToMeter": "toMeter", "FromGreenwich": "fromGreenwich"}

// scalar operand of a compound assignment to point[i]
func rScalar(e ast.Expr) (string, bool) {
	switch t := e.(type) {
	case *ast.Ident:
		if k, ok := consts[t.Name]; ok {
			return k, true
		}
	case *ast.SelectorExpr:
		if x, ok := t.X.(*ast.Ident); ok && (x.Name == "source" || x.Name == "dest") {
			if f, ok := routeFields[t.Sel.Name]; ok {
				return x.Name + "." + f, true
			}
		}
	}
	return "", false
}

type routeWalker struct {
	fset  *token.FileSet
	src   []byte
	count map[string]int
	out   strings.Builder
	n     int
}

func (w *routeWalker) def(key, typ, params, body string, node ast.Node) {
	w.count[key]++
	fmt.Fprintf(&w.out, "/-- transform.go:%d `%s` -/\ndef transform_%s_%d {α : Type} [RTrans α] (source dest : SR α)%s : %s :=\n  %s\n\n",
		w.fset.Position(node.Pos()).Line, text(w.fset, w.src, node), key, w.count[key], params, typ, body)
	w.n++
}

func (w *routeWalker) stmts(where string, list []ast.Stmt) {
	for _, st := range list {
		switch t := st.(type) {
		case *ast.IfStmt:
			if s, ok := rBool(t.Cond); ok {
				w.def(where+"_cond", "Bool", "", s, t.Cond)
			}
			w.stmts(where, t.Body.List)
			if e, ok := t.Else.(*ast.BlockStmt); ok {
				w.stmts(where, e.List)
			}
		case *ast.AssignStmt:
			// point[i] op= scalar
			if len(t.Lhs) == 1 && len(t.Rhs) == 1 {
				ix, ok := t.Lhs[0].(*ast.IndexExpr)
				if !ok {
					continue
				}
				x, ok1 := ix.X.(*ast.Ident)
				lit, ok2 := ix.Index.(*ast.BasicLit)
				op := map[token.Token]string{token.MUL_ASSIGN: "*", token.QUO_ASSIGN: "/", token.ADD_ASSIGN: "+", token.SUB_ASSIGN: "-"}[t.Tok]
				rhs, ok3 := rScalar(t.Rhs[0])
				if ok1 && ok2 && ok3 && op != "" && x.Name == "point" && lit.Kind == token.INT {
					w.def(where+"_point"+lit.Value, "α", " (v_point"+lit.Value+" : α)", "(v_point"+lit.Value+" "+op+" "+rhs+")", t)
				}
			}
		case *ast.ReturnStmt:
			for _, r := range t.Results {
				if fl, ok := r.(*ast.FuncLit); ok { // the closure NewTransform returns
					w.stmts(where, fl.Body.List)
				}
			}
		case *ast.BlockStmt:
			w.stmts(where, t.List)
		}
	}
}

func routeFile(repo string) (string, int, error) {
	path := filepath.Join(repo, "proj", "transform.go")
	src, err := os.ReadFile(path)
	if err != nil {
		return "", 0, err
	}
	fset := token.NewFileSet()
	af, err := parser.ParseFile(fset, path, src, 0)
	if err != nil {
		return "", 0, err
	}
	w := &routeWalker{fset: fset, src: src, count: map[string]int{}}
	w.out.WriteString("/- GENERATED by harness/cmd/c08/extract from /repo/proj/transform.go.\n   Do not edit: rewritten from the current source on every check run (tie T1). -/\nimport GeomV.C08.ProjDatum\nimport GeomV.C08.GoStrings\nset_option linter.unusedVariables false\nnamespace GeomV.C08.Gen\nopen GeomV.C08\n\n")
	// checkNotWGS first: the closure's condition refers to it
	for _, name := range []string{"checkNotWGS", "NewTransform", "transform3"} {
		for _, d := range af.Decls {
			fd, ok := d.(*ast.FuncDecl)
			if !ok || fd.Body == nil || fd.Name.Name != name {
				continue
			}
			if name == "checkNotWGS" {
				for _, st := range fd.Body.List {
					if r, ok := st.(*ast.ReturnStmt); ok && len(r.Results) == 1 {
						if s, ok := rBool(r.Results[0]); ok {
							w.count["checkNotWGS_ret"] = 0
							fmt.Fprintf(&w.out, "/-- transform.go:%d `%s` -/\ndef transform_checkNotWGS_ret {α : Type} [RTrans α] (source dest : SR α) : Bool :=\n  %s\n\n",
								fset.Position(r.Pos()).Line, text(fset, src, r), s)
							w.n++
						}
					}
				}
				continue
			}
			w.stmts(name, fd.Body.List)
		}
	}
	w.out.WriteString("end GeomV.C08.Gen\n")
	return w.out.String(), w.n, nil
}
