// Command extract (C08 pregen, tie T1) regenerates lean/GeomV/C08/Gen/GoProj.lean from the CURRENT
// /repo/proj/{merc,lcc,aea,eqdc,tmerc,krovak}.go: every single-valued arithmetic assignment of a
// projection constructor and of its forward / inverse closure becomes one Lean definition, generic
// over RTrans, whose body is the right-hand side translated operator by operator and constant by
// constant (go/ast, source text only; nothing in /repo is built or run).  The hand-written tie
// lemmas in lean/GeomV/C08/Ties.lean restate the model's functions in terms of these definitions and
// are proved by `rfl`, so a changed constant, operator, argument or field in a projection file
// breaks an obligation of the proof build (and not only the numeric correspondence).
//
// usage: extract --repo /repo --out /verif/lean/GeomV/C08/Gen
package main

import (
	"flag"
	"fmt"
	"go/ast"
	"go/parser"
	"go/token"
	"os"
	"path/filepath"
	"sort"
	"strings"
)

var fields = map[string]string{"X0": "x0", "Y0": "y0", "A": "a", "B": "b", "K0": "k0", "K": "k", "E": "e", "Es": "es",
	"Ep2": "ep2", "Long0": "long0", "Lat0": "lat0", "Lat1": "lat1", "Lat2": "lat2", "LatTS": "latTS", "Rf": "rf",
	"Zone": "zone", "ToMeter": "toMeter", "FromGreenwich": "fromGreenwich"}

var consts = map[string]string{"halfPi": "halfPi", "fortPi": "fortPi", "twoPi": "twoPi", "sPi": "sPi", "epsln": "epsln",
	"r2d": "r2d", "deg2rad": "deg2rad"}

var funcs = map[string]string{"adjust_lon": "adjustLon", "adjust_lat": "adjustLat", "sign": "sign", "msfnz": "msfnz",
	"tsfnz": "tsfnz", "qsfnz": "qsfnz", "mlfn": "mlfn", "e0fn": "e0fn", "e1fn": "e1fn", "e2fn": "e2fn", "e3fn": "e3fn",
	"asinz": "asinz"}

var mathFuncs = map[string]string{"Abs": "RNum.abs", "Sqrt": "RTrans.sqrt", "Sin": "RTrans.sin", "Cos": "RTrans.cos",
	"Tan": "RTrans.tan", "Asin": "RTrans.asin", "Acos": "RTrans.acos", "Atan": "RTrans.atan", "Atan2": "RTrans.atan2",
	"Exp": "RTrans.exp", "Log": "RTrans.log", "Pow": "RTrans.pow"}

type ctx struct {
	free   []string
	seen   map[string]bool
	usesSR bool
	usesD  bool
	datum  bool // the enclosing function is a method of *datum (receiver `this`)
	ok     bool
}

var datumFields = map[string]string{"a": "a", "b": "b", "es": "es", "ep2": "ep2"}

func (c *ctx) v(name string) string {
	n := "v_" + name
	if !c.seen[n] {
		c.seen[n] = true
		c.free = append(c.free, n)
	}
	return n
}

func (c *ctx) expr(e ast.Expr) string {
	switch t := e.(type) {
	case *ast.ParenExpr:
		return c.expr(t.X)
	case *ast.BasicLit:
		switch t.Kind {
		case token.INT:
			return "(" + t.Value + ".0)"
		case token.FLOAT:
			return "(" + t.Value + ")"
		}
	case *ast.Ident:
		if k, ok := consts[t.Name]; ok {
			return k
		}
		if t.Name == "true" || t.Name == "false" || t.Name == "nil" {
			c.ok = false
			return "?"
		}
		return c.v(t.Name)
	case *ast.SelectorExpr:
		if x, ok := t.X.(*ast.Ident); ok {
			if x.Name == "this" && c.datum {
				if f, ok := datumFields[t.Sel.Name]; ok {
					c.usesD = true
					return "d." + f
				}
				c.ok = false
				return "?"
			}
			if x.Name == "this" {
				if f, ok := fields[t.Sel.Name]; ok {
					c.usesSR = true
					return "s." + f
				}
			}
			if x.Name == "math" && t.Sel.Name == "Pi" {
				return "RTrans.pi"
			}
		}
	case *ast.IndexExpr:
		// this.datum_params[i] of a *datum method
		if sel, ok := t.X.(*ast.SelectorExpr); ok && c.datum && sel.Sel.Name == "datum_params" {
			if x, ok := sel.X.(*ast.Ident); ok && x.Name == "this" {
				if lit, ok := t.Index.(*ast.BasicLit); ok && lit.Kind == token.INT && len(lit.Value) == 1 && lit.Value[0] <= '6' {
					c.usesD = true
					return "d.p" + lit.Value
				}
			}
		}
	case *ast.UnaryExpr:
		if t.Op == token.SUB {
			return "(-" + c.expr(t.X) + ")"
		}
		if t.Op == token.ADD {
			return c.expr(t.X)
		}
	case *ast.BinaryExpr:
		op := map[token.Token]string{token.ADD: "+", token.SUB: "-", token.MUL: "*", token.QUO: "/"}[t.Op]
		if op != "" {
			return "(" + c.expr(t.X) + " " + op + " " + c.expr(t.Y) + ")"
		}
	case *ast.CallExpr:
		var name string
		switch f := t.Fun.(type) {
		case *ast.Ident:
			name = funcs[f.Name]
		case *ast.SelectorExpr:
			if x, ok := f.X.(*ast.Ident); ok && x.Name == "math" {
				name = mathFuncs[f.Sel.Name]
			}
		}
		if name != "" {
			s := "(" + name
			for _, a := range t.Args {
				s += " " + c.expr(a)
			}
			return s + ")"
		}
	}
	c.ok = false
	return "?"
}

type def struct {
	name, doc, params, body string
}

type walker struct {
	fset  *token.FileSet
	file  string
	count map[string]int
	defs  []def
	nats  []def
	datum bool
}

func (w *walker) emit(where, lhs string, rhs ast.Expr, pos token.Pos, srcText string) {
	c := &ctx{seen: map[string]bool{}, ok: true, datum: w.datum}
	body := c.expr(rhs)
	if !c.ok {
		return
	}
	key := where + "_" + lhs
	w.count[key]++
	name := fmt.Sprintf("%s_%s_%d", strings.TrimSuffix(w.file, ".go"), key, w.count[key])
	params := ""
	if c.usesSR {
		params += " (s : SR α)"
	}
	if c.usesD {
		params += " (d : Datum α)"
	}
	if len(c.free) > 0 {
		params += " (" + strings.Join(c.free, " ") + " : α)"
	}
	p := w.fset.Position(pos)
	w.defs = append(w.defs, def{name, fmt.Sprintf("%s:%d `%s`", w.file, p.Line, srcText), params, body})
}

var cmpOps = map[token.Token]string{token.LSS: "lt", token.LEQ: "le", token.GTR: "gt", token.GEQ: "ge", token.EQL: "eq", token.NEQ: "ne"}

// cond: every float comparison inside a guard (`if`, `for` condition; through !, &&, ||, parentheses) becomes two
// definitions, left and right operand, with the comparison operator in the name: a changed threshold, operand or
// operator (<= vs <) breaks the tie lemma that restates the guard.
func (w *walker) cond(where string, e ast.Expr, src []byte) {
	switch t := e.(type) {
	case *ast.ParenExpr:
		w.cond(where, t.X, src)
	case *ast.UnaryExpr:
		if t.Op == token.NOT {
			w.cond(where, t.X, src)
		}
	case *ast.BinaryExpr:
		if t.Op == token.LAND || t.Op == token.LOR {
			w.cond(where, t.X, src)
			w.cond(where, t.Y, src)
			return
		}
		op, ok := cmpOps[t.Op]
		if !ok {
			return
		}
		cl := &ctx{seen: map[string]bool{}, ok: true, datum: w.datum}
		cr := &ctx{seen: map[string]bool{}, ok: true, datum: w.datum}
		l, r := cl.expr(t.X), cr.expr(t.Y)
		if !cl.ok || !cr.ok {
			return
		}
		key := where + "_cond_" + op
		w.count[key]++
		base := fmt.Sprintf("%s_%s_%d", strings.TrimSuffix(w.file, ".go"), key, w.count[key])
		p := w.fset.Position(t.Pos())
		doc := fmt.Sprintf("%s:%d guard `%s`", w.file, p.Line, text(w.fset, src, t))
		params := func(c *ctx) string {
			s := ""
			if c.usesSR {
				s += " (s : SR α)"
			}
			if c.usesD {
				s += " (d : Datum α)"
			}
			if len(c.free) > 0 {
				s += " (" + strings.Join(c.free, " ") + " : α)"
			}
			return s
		}
		w.defs = append(w.defs, def{base + "_l", doc + " (left operand)", params(cl), l})
		w.defs = append(w.defs, def{base + "_r", doc + " (right operand)", params(cr), r})
		if lit, ok := t.Y.(*ast.BasicLit); ok && lit.Kind == token.INT {
			w.nats = append(w.nats, def{base + "_rnat", doc + " (right operand, integer)", "", lit.Value})
		}
	}
}

// loopcap: `for i := A; i < B; i++` / `i <= B` with integer literals: the number of passes, as a Nat
func (w *walker) loopcap(where string, t *ast.ForStmt, src []byte) {
	as, ok := t.Init.(*ast.AssignStmt)
	if !ok || len(as.Lhs) != 1 || len(as.Rhs) != 1 {
		return
	}
	iv, ok1 := as.Lhs[0].(*ast.Ident)
	a, ok2 := as.Rhs[0].(*ast.BasicLit)
	c, ok3 := t.Cond.(*ast.BinaryExpr)
	inc, ok4 := t.Post.(*ast.IncDecStmt)
	if !ok1 || !ok2 || !ok3 || !ok4 || a.Kind != token.INT || inc.Tok != token.INC {
		return
	}
	x, ok5 := c.X.(*ast.Ident)
	b, ok6 := c.Y.(*ast.BasicLit)
	if !ok5 || !ok6 || x.Name != iv.Name || b.Kind != token.INT {
		return
	}
	var lo, hi int
	fmt.Sscan(a.Value, &lo)
	fmt.Sscan(b.Value, &hi)
	n := hi - lo
	if c.Op == token.LEQ {
		n++
	} else if c.Op != token.LSS {
		return
	}
	if n < 0 {
		n = 0
	}
	key := where + "_loopcap"
	w.count[key]++
	p := w.fset.Position(t.Pos())
	w.nats = append(w.nats, def{fmt.Sprintf("%s_%s_%d", strings.TrimSuffix(w.file, ".go"), key, w.count[key]),
		fmt.Sprintf("%s:%d `for %s; %s; %s`: number of passes", w.file, p.Line, text(w.fset, src, t.Init), text(w.fset, src, t.Cond), text(w.fset, src, t.Post)), "", fmt.Sprint(n)})
}

func text(fset *token.FileSet, src []byte, n ast.Node) string {
	s := string(src[fset.Position(n.Pos()).Offset:fset.Position(n.End()).Offset])
	s = strings.Join(strings.Fields(s), " ")
	s = strings.ReplaceAll(s, "`", "'")
	if len(s) > 160 {
		s = s[:160] + "…"
	}
	return s
}

func (w *walker) stmts(where string, list []ast.Stmt, src []byte) {
	for _, st := range list {
		switch t := st.(type) {
		case *ast.AssignStmt:
			if len(t.Lhs) == 1 && len(t.Rhs) == 1 {
				lhs := ""
				switch l := t.Lhs[0].(type) {
				case *ast.Ident:
					lhs = l.Name
				case *ast.SelectorExpr:
					if x, ok := l.X.(*ast.Ident); ok && x.Name == "this" {
						lhs = "this" + l.Sel.Name
					}
				}
				if fl, ok := t.Rhs[0].(*ast.FuncLit); ok && (lhs == "forward" || lhs == "inverse") {
					w.stmts(lhs, fl.Body.List, src)
					continue
				}
				if lhs == "" {
					continue
				}
				rhs := t.Rhs[0]
				switch t.Tok {
				case token.ASSIGN, token.DEFINE:
				case token.SUB_ASSIGN:
					rhs = &ast.BinaryExpr{X: t.Lhs[0], Op: token.SUB, Y: rhs}
				case token.ADD_ASSIGN:
					rhs = &ast.BinaryExpr{X: t.Lhs[0], Op: token.ADD, Y: rhs}
				case token.MUL_ASSIGN:
					rhs = &ast.BinaryExpr{X: t.Lhs[0], Op: token.MUL, Y: rhs}
				case token.QUO_ASSIGN:
					rhs = &ast.BinaryExpr{X: t.Lhs[0], Op: token.QUO, Y: rhs}
				default:
					continue
				}
				w.emit(where, lhs, rhs, t.Pos(), text(w.fset, src, t))
			}
		case *ast.ReturnStmt:
			// `return expr[, …]` of a plain function (common.go, datum.go): every translatable result
			if where != "forward" && where != "inverse" {
				for i, r := range t.Results {
					if id, ok := r.(*ast.Ident); ok && (id.Name == "nil" || id.Name == "true" || id.Name == "false") {
						continue
					}
					lhs := "ret"
					if len(t.Results) > 1 {
						lhs = fmt.Sprintf("ret%d", i)
					}
					w.emit(where, lhs, r, t.Pos(), text(w.fset, src, t))
				}
			}
		case *ast.DeclStmt:
			if gd, ok := t.Decl.(*ast.GenDecl); ok && (gd.Tok == token.VAR || gd.Tok == token.CONST) {
				for _, sp := range gd.Specs {
					vs := sp.(*ast.ValueSpec)
					if len(vs.Names) == 1 && len(vs.Values) == 1 {
						lhs := vs.Names[0].Name
						if gd.Tok == token.CONST {
							// function-local constants (krovak.go S45, S90, Uq, S0; datum.go genau …)
							lhs = "const" + lhs
						}
						w.emit(where, lhs, vs.Values[0], vs.Pos(), text(w.fset, src, vs))
						if lit, ok := vs.Values[0].(*ast.BasicLit); ok && lit.Kind == token.INT {
							// integer constants (iteration caps: tmerc max_iter, Hannover maxiter) also as a Nat
							key := where + "_nat" + vs.Names[0].Name
							w.count[key]++
							w.nats = append(w.nats, def{fmt.Sprintf("%s_%s_%d", strings.TrimSuffix(w.file, ".go"), key, w.count[key]),
								fmt.Sprintf("%s:%d `%s` (integer)", w.file, w.fset.Position(vs.Pos()).Line, text(w.fset, src, vs)), "", lit.Value})
						}
					}
				}
			}
		case *ast.IfStmt:
			w.cond(where, t.Cond, src)
			w.stmts(where, t.Body.List, src)
			switch e := t.Else.(type) {
			case *ast.BlockStmt:
				w.stmts(where, e.List, src)
			case *ast.IfStmt:
				w.stmts(where, []ast.Stmt{e}, src)
			}
		case *ast.ForStmt:
			if t.Cond != nil {
				w.cond(where, t.Cond, src)
				w.loopcap(where, t, src)
			}
			w.stmts(where, t.Body.List, src)
		case *ast.BlockStmt:
			w.stmts(where, t.List, src)
		}
	}
}

func main() {
	repo := flag.String("repo", "/repo", "")
	out := flag.String("out", "", "")
	ties := flag.Bool("ties", false, "print the body of TiesShape.lean for the current source")
	flag.Parse()
	if *ties {
		t, err := tiesShape(*repo)
		if err != nil {
			fmt.Fprintln(os.Stderr, "c08 extract:", err)
			os.Exit(1)
		}
		fmt.Print(t)
		return
	}
	var b strings.Builder
	b.WriteString("/- GENERATED by harness/cmd/c08/extract from /repo/proj/{common,datum,merc,lcc,aea,eqdc,tmerc,utm,krovak}.go.\n   Do not edit: rewritten from the current source on every check run (tie T1). -/\nimport GeomV.C08.ProjCommon\nset_option linter.unusedVariables false\nnamespace GeomV.C08.Gen\nopen GeomV.C08\n\n")
	total := 0
	for _, f := range []string{"common.go", "datum.go", "merc.go", "lcc.go", "aea.go", "eqdc.go", "tmerc.go", "utm.go", "krovak.go"} {
		path := filepath.Join(*repo, "proj", f)
		src, err := os.ReadFile(path)
		if err != nil {
			fmt.Fprintln(os.Stderr, "c08 extract:", err)
			os.Exit(1)
		}
		fset := token.NewFileSet()
		af, err := parser.ParseFile(fset, path, src, 0)
		if err != nil {
			fmt.Fprintln(os.Stderr, "c08 extract:", err)
			os.Exit(1)
		}
		w := &walker{fset: fset, file: f, count: map[string]int{}}
		var names []string
		decls := map[string]*ast.FuncDecl{}
		datumMethod := map[string]bool{}
		for _, d := range af.Decls {
			fd, ok := d.(*ast.FuncDecl)
			if !ok || fd.Body == nil || fd.Name.Name == "init" {
				continue
			}
			isDatumMethod := false
			if fd.Recv != nil {
				// methods of *datum with receiver `this` (datum.go): geodetic<->geocentric, 3-/7-parameter shifts
				if f != "datum.go" || len(fd.Recv.List) != 1 || len(fd.Recv.List[0].Names) != 1 || fd.Recv.List[0].Names[0].Name != "this" {
					continue
				}
				if !strings.HasPrefix(fd.Name.Name, "geo") || strings.HasSuffix(fd.Name.Name, "noniter") {
					continue
				}
				isDatumMethod = true
			}
			names = append(names, fd.Name.Name)
			decls[fd.Name.Name] = fd
			datumMethod[fd.Name.Name] = isDatumMethod
		}
		sort.Strings(names)
		for _, n := range names {
			w.datum = datumMethod[n]
			w.stmts(n, decls[n].Body.List, src)
		}
		for _, d := range w.defs {
			fmt.Fprintf(&b, "/-- %s -/\ndef %s {α : Type} [RTrans α]%s : α :=\n  %s\n\n", d.doc, d.name, d.params, d.body)
		}
		for _, d := range w.nats {
			fmt.Fprintf(&b, "/-- %s -/\ndef %s : Nat :=\n  %s\n\n", d.doc, d.name, d.body)
		}
		total += len(w.defs) + len(w.nats)
	}
	b.WriteString("end GeomV.C08.Gen\n")
	route, nroute, err := routeFile(*repo)
	if err != nil {
		fmt.Fprintln(os.Stderr, "c08 extract:", err)
		os.Exit(1)
	}
	axis, naxis, err := axisFile(*repo)
	if err != nil {
		fmt.Fprintln(os.Stderr, "c08 extract:", err)
		os.Exit(1)
	}
	shape, nshape, err := shapeFile(*repo)
	if err != nil {
		fmt.Fprintln(os.Stderr, "c08 extract:", err)
		os.Exit(1)
	}
	if *out == "" {
		fmt.Print(b.String())
		fmt.Print(route)
		return
	}
	os.MkdirAll(*out, 0o755)
	p := filepath.Join(*out, "GoProj.lean")
	for _, f := range []struct{ path, text string }{{p, b.String()}, {filepath.Join(*out, "GoRoute.lean"), route}, {filepath.Join(*out, "GoAxis.lean"), axis}, {filepath.Join(*out, "GoShape.lean"), shape}} {
		old, _ := os.ReadFile(f.path)
		if string(old) != f.text {
			if err := os.WriteFile(f.path, []byte(f.text), 0o644); err != nil {
				fmt.Fprintln(os.Stderr, "c08 extract:", err)
				os.Exit(1)
			}
		}
	}
	fmt.Printf("c08 extract: %d definitions -> %s, %d (transform.go) -> GoRoute.lean, %d (adjust_axis.go) -> GoAxis.lean, %d function skeletons -> GoShape.lean\n", total, p, nroute, naxis, nshape)
}
