package main

// shape.go (tie T1, part 7): the NESTING of the control flow.  Parts 1-6 regenerate every right-hand side, guard operand,
// comparison operator, loop bound and integer cap as definitions, but which statements a guard GOVERNS was only in the
// hand-written restatements.  Here every function of the anchored files (the same selection as GoProj.lean) is reduced to
// its statement skeleton — assignments by their left-hand sides and assignment operator, `if`/`for` with the source text of
// their conditions (blanks removed) and their bodies in braces, `return` with its identifier results, calls, ++/--, break —
// and emitted as ONE string per function into Gen/GoShape.lean.  lean/GeomV/C08/TiesShape.lean states, by `rfl`, that each
// skeleton is the one the model was transcribed from; a statement moved into or out of a guard, an added or dropped `else`,
// a reordered pair of statements or a changed loop header breaks the obligation.

import (
	"fmt"
	"go/ast"
	"go/parser"
	"go/token"
	"os"
	"path/filepath"
	"sort"
	"strings"
)

type shaper struct {
	fset *token.FileSet
	src  []byte
}

func (s *shaper) txt(n ast.Node) string {
	if n == nil {
		return ""
	}
	t := string(s.src[s.fset.Position(n.Pos()).Offset:s.fset.Position(n.End()).Offset])
	return strings.Join(strings.Fields(t), "")
}

func (s *shaper) lhs(e ast.Expr) string {
	switch t := e.(type) {
	case *ast.Ident:
		return t.Name
	default:
		return s.txt(e)
	}
}

func (s *shaper) simple(st ast.Stmt) string {
	if st == nil {
		return ""
	}
	var b strings.Builder
	s.stmt(&b, st)
	return strings.TrimSuffix(b.String(), ";")
}

func (s *shaper) block(b *strings.Builder, list []ast.Stmt) {
	b.WriteString("{")
	for _, st := range list {
		s.stmt(b, st)
	}
	b.WriteString("}")
}

func (s *shaper) stmt(b *strings.Builder, st ast.Stmt) {
	switch t := st.(type) {
	case *ast.AssignStmt:
		var l []string
		for _, e := range t.Lhs {
			l = append(l, s.lhs(e))
		}
		if len(t.Rhs) == 1 {
			if fl, ok := t.Rhs[0].(*ast.FuncLit); ok {
				b.WriteString(strings.Join(l, ",") + t.Tok.String() + "func")
				s.block(b, fl.Body.List)
				b.WriteString(";")
				return
			}
		}
		b.WriteString(strings.Join(l, ",") + t.Tok.String() + ";")
	case *ast.DeclStmt:
		if gd, ok := t.Decl.(*ast.GenDecl); ok {
			for _, sp := range gd.Specs {
				if vs, ok := sp.(*ast.ValueSpec); ok {
					var l []string
					for _, n := range vs.Names {
						l = append(l, n.Name)
					}
					b.WriteString(gd.Tok.String() + " " + strings.Join(l, ","))
					if len(vs.Values) > 0 {
						b.WriteString("=")
					}
					b.WriteString(";")
				}
			}
		}
	case *ast.IfStmt:
		b.WriteString("if(")
		if t.Init != nil {
			b.WriteString(s.simple(t.Init) + ";")
		}
		b.WriteString(s.txt(t.Cond) + ")")
		s.block(b, t.Body.List)
		switch e := t.Else.(type) {
		case *ast.BlockStmt:
			b.WriteString("else")
			s.block(b, e.List)
		case *ast.IfStmt:
			b.WriteString("else ")
			s.stmt(b, e)
		}
	case *ast.ForStmt:
		b.WriteString("for(" + s.simple(t.Init) + ";" + s.txt(t.Cond) + ";" + s.simple(t.Post) + ")")
		s.block(b, t.Body.List)
	case *ast.RangeStmt:
		b.WriteString("range(" + s.txt(t.X) + ")")
		s.block(b, t.Body.List)
	case *ast.SwitchStmt:
		b.WriteString("switch(" + s.txt(t.Tag) + "){")
		for _, c := range t.Body.List {
			cc := c.(*ast.CaseClause)
			var l []string
			for _, e := range cc.List {
				l = append(l, s.txt(e))
			}
			b.WriteString("case(" + strings.Join(l, ",") + ")")
			s.block(b, cc.Body)
		}
		b.WriteString("}")
	case *ast.ReturnStmt:
		var l []string
		for _, r := range t.Results {
			switch x := r.(type) {
			case *ast.Ident:
				l = append(l, x.Name)
			case *ast.BasicLit:
				l = append(l, x.Value)
			default:
				l = append(l, "_")
			}
		}
		b.WriteString("return(" + strings.Join(l, ",") + ");")
	case *ast.IncDecStmt:
		b.WriteString(s.lhs(t.X) + t.Tok.String() + ";")
	case *ast.BranchStmt:
		b.WriteString(t.Tok.String() + ";")
	case *ast.ExprStmt:
		if c, ok := t.X.(*ast.CallExpr); ok {
			b.WriteString("call(" + s.txt(c.Fun) + ");")
		} else {
			b.WriteString("expr;")
		}
	case *ast.BlockStmt:
		s.block(b, t.List)
	case *ast.DeferStmt:
		if fl, ok := t.Call.Fun.(*ast.FuncLit); ok {
			b.WriteString("defer func")
			s.block(b, fl.Body.List)
			b.WriteString(";")
		} else {
			b.WriteString("defer(" + s.txt(t.Call.Fun) + ");")
		}
	default:
		b.WriteString(fmt.Sprintf("?%T;", st))
	}
}

func leanString(x string) string {
	x = strings.ReplaceAll(x, "\\", "\\\\")
	x = strings.ReplaceAll(x, "\"", "\\\"")
	return "\"" + x + "\""
}

type shapeDef struct{ name, doc, body string }

// shapes of every function with a body of the anchored files (methods by Recv.Name: datum.go geo*; init excluded)
func shapeDefs(repo string) ([]shapeDef, error) {
	var out []shapeDef
	for _, f := range []string{"common.go", "datum.go", "datum_transform.go", "transform.go", "adjust_axis.go", "longlat.go", "merc.go", "lcc.go", "aea.go", "eqdc.go", "tmerc.go", "utm.go", "krovak.go"} {
		path := filepath.Join(repo, "proj", f)
		src, err := os.ReadFile(path)
		if err != nil {
			return nil, err
		}
		fset := token.NewFileSet()
		af, err := parser.ParseFile(fset, path, src, 0)
		if err != nil {
			return nil, err
		}
		sh := &shaper{fset: fset, src: src}
		var ds []shapeDef
		for _, d := range af.Decls {
			fd, ok := d.(*ast.FuncDecl)
			if !ok || fd.Body == nil || fd.Name.Name == "init" {
				continue
			}
			name := fd.Name.Name
			if fd.Recv != nil {
				if f == "datum.go" && !strings.HasPrefix(name, "geo") && name != "compare_datums" {
					continue
				}
				name = "m_" + name
			}
			var b strings.Builder
			sh.block(&b, fd.Body.List)
			ds = append(ds, shapeDef{strings.TrimSuffix(f, ".go") + "_" + name + "_shape",
				fmt.Sprintf("%s:%d func %s", f, fset.Position(fd.Pos()).Line, fd.Name.Name), b.String()})
		}
		sort.Slice(ds, func(i, j int) bool { return ds[i].name < ds[j].name })
		out = append(out, ds...)
	}
	return out, nil
}

func shapeFile(repo string) (string, int, error) {
	ds, err := shapeDefs(repo)
	if err != nil {
		return "", 0, err
	}
	var b strings.Builder
	b.WriteString("/- GENERATED by harness/cmd/c08/extract (shape.go) from /repo/proj: the statement skeleton of every function of the anchored files.\n   Do not edit: rewritten from the current source on every check run (tie T1, part 7). -/\nnamespace GeomV.C08.Gen\n\n")
	for _, d := range ds {
		fmt.Fprintf(&b, "/-- %s -/\ndef %s : String :=\n  %s\n\n", d.doc, d.name, leanString(d.body))
	}
	fmt.Fprintf(&b, "/-- number of functions whose skeleton is regenerated -/\ndef shape_count : Nat := %d\n\nend GeomV.C08.Gen\n", len(ds))
	return b.String(), len(ds), nil
}

// tiesShape: the text of lean/GeomV/C08/TiesShape.lean for the CURRENT source (printed with --ties; pasted once, then fixed)
func tiesShape(repo string) (string, error) {
	ds, err := shapeDefs(repo)
	if err != nil {
		return "", err
	}
	var b strings.Builder
	for _, d := range ds {
		fmt.Fprintf(&b, "/-- %s -/\ntheorem %s : Gen.%s =\n    %s := rfl\n\n", d.doc, strings.TrimSuffix(d.name, "_shape"), d.name, leanString(d.body))
	}
	fmt.Fprintf(&b, "theorem shape_functions : Gen.shape_count = %d := rfl\n", len(ds))
	return b.String(), nil
}
