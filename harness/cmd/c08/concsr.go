package main

import (
	"bufio"
	"fmt"
	"strconv"
	"strings"

	"verif/harness/vproto"
)

// genConcurrentSR: second stratum of `cc` lines (own RNG stream; phase 4, seeded change C08-g3).  The first stratum covers the
// definitions whose constructors write nothing per call.  UTM, EqdC and Krovak DO store into the shared *SR on every call
// (`transform3` calls `Transformers()` per point) — but on the unchanged tree every store writes the value the field already
// holds (UTM: Lat0, Long0, X0, Y0, K0; EqdC: Es, E; Krovak: A, Es, E and its defaults), so no reader can ever observe a
// different value and the ANSWERS of goroutines sharing one transformer pair are bit-identical to the sequential ones
// (measured: 0 differences in 5 seeds x 90 lines x 19 200 calls).  A change that makes such a store pass through a different
// intermediate value (e.g. `Y0 = 0` and then `Y0 = 10000000` for a southern zone) breaks exactly that, and only a southern
// zone shows it.  The probe compares VALUES (it is not the race detector): UTM zones 1-60 north and south alternately, EqdC
// with every parameter given, Krovak with and without its defaults; no datum shift (the datum records are saved/restored per
// call by datumTransform: out of the probe, see notes).  The sequential pass of the line is judged by Spec and model as usual.
func genConcurrentSR(out *bufio.Writer, r *vproto.Rng, tier string) {
	n := 30
	if tier == "thorough" {
		n = 120
	}
	for _, name := range []string{"utm", "eqdc", "krovak"} {
		for i := 0; i < n; i++ {
			el := " +ellps=" + ellipsoids[r.Intn(len(ellipsoids)-1)] // not "sphere"
			b := crs{def: "+proj=" + name, tags: []string{"cc", "sr"}}
			var reg region
			switch name {
			case "utm":
				z := 1 + r.Intn(60)
				b.def += " +zone=" + strconv.Itoa(z)
				if i%2 == 0 {
					b.def += " +south"
					b.tags = append(b.tags, "south")
				}
				reg = region{dlon: 3.5, lon0: float64(6*z - 183), latLo: -80, latHi: 84, special: []float64{0, -80}}
			case "eqdc":
				p1, p2 := parallels(r)
				l0 := lon0(r)
				b.def += " +lat_1=" + g(p1) + " +lat_2=" + g(p2) + " +lat_0=" + g(rnd((r.Float()-0.5)*120, 3)) + " +lon_0=" + g(l0) +
					" +x_0=" + g(falseOrigin(r)) + " +y_0=" + g(falseOrigin(r))
				if p1+p2 > 0 {
					reg = region{dlon: 170, lon0: l0, latLo: -50, latHi: 88}
				} else {
					reg = region{dlon: 170, lon0: l0, latLo: -88, latHi: 50}
				}
			case "krovak":
				if r.Intn(2) == 0 {
					b.def += " +lat_0=49.5 +lon_0=24.83333333333333 +alpha=30.28813972222222 +k=0.9999 +x_0=0 +y_0=0"
				}
				el = " +ellps=bessel"
				reg = region{absolute: true, lonLo: 12, lonHi: 23, latLo: 47, latHi: 51.5, special: []float64{47, 51.5, 49.5}}
			}
			b.def += el
			if name != "krovak" && r.Intn(3) == 0 {
				b.def += " +units=us-ft"
			}
			a := crs{def: "+proj=longlat" + el, tags: []string{"gS"}}
			ps := positions(r, reg, a, b, 32)
			fmt.Fprintf(out, "cc %s %s %s %d", class(name, a, b), strings.ReplaceAll(a.def, " ", "~"), strings.ReplaceAll(b.def, " ", "~"), len(ps))
			for _, p := range ps {
				fmt.Fprintf(out, " %s %s", hexf(p[0]), hexf(p[1]))
			}
			fmt.Fprintln(out)
		}
	}
}
