package main

// T1 tie for C01: regenerate Lean definitions of the glue between package geom and the clipper from the
// Go source of the tree under test (approach and translation table of harness/cmd/c14/extract.go, extended).
//
//	c01 extract --repo DIR      prints the module GeomV.C01.Gen
//
// Functions: polygon.go (Polygon).Intersection/Union/XOr/Difference, (Polygon).op, clipperOp,
// (Polygon).toPolyClip, polyClipToPolygon, (Polygon).Polygons; multipolygon.go
// (MultiPolygon).Intersection/Union/XOr/Difference, (MultiPolygon).op, (MultiPolygon).Polygons; bounds.go
// (*Bounds).Polygons, (*Bounds).Intersection/Union/XOr/Difference.  lean/GeomV/C01/Ties.lean proves that
// each regenerated function returns, without fault, the value of the model's function (`api`).  A function
// that leaves the subset below is NOT skipped: the extractor exits 3 and names it on stderr.
//
// Translation (every function is rendered in the monad Go.M = Except Fault; GenLib.lean):
//
//	x := e, x = e, var x T            ↦ let x := e                (zero value of T for var)
//	a[i] = e ; a[i][j] = e            ↦ let a ← Go.setIdx a i e ; let a ← Go.setIdx2 a i j e   (faulting)
//	for i, x := range xs { S }        ↦ let st ← Go.forRange xs st (fun st i x => do S; pure st), st = the
//	                                    variables assigned in S that are declared outside S
//	if c { A } [else E]; R            ↦ if c then A;R else E;R   (R is not repeated after a branch that returns)
//	if x := e; c { … }                ↦ let x := e, then as above
//	if v, ok := p.(*Bounds); ok {A} [else E]; R
//	                                  ↦ match Go.asBounds p with | some v => A;R | none => E;R
//	return e                          ↦ pure e; in a function whose result type is the interface Polygonal the
//	                                    value is wrapped by its static type: Polygon ↦ some (.poly e),
//	                                    *Bounds ↦ some (.box e.Min e.Max), Polygonal ↦ some e, nil ↦ none
//	len(x)  a[i]  a[lo:hi]            ↦ Go.len x, (← Go.idx a i), (← Go.slice a lo hi)   (faulting)
//	make(T, n)  make(T, n, c)         ↦ (← Go.make n zero) (← Go.make3 n c zero)        (faulting for n < 0)
//	append(a, b...)  append(a, b)     ↦ a ++ b, a ++ [b]
//	T(x) for slice/point types        ↦ x           T{a, b} ↦ [a, b]      Point{a, b} ↦ (⟨a, b⟩ : P)
//	&Bounds{Min: a, Max: b}           ↦ (⟨a, b⟩ : Go.Box)
//	math.Max(a, b)  math.Min(a, b)    ↦ max a b, min a b on Rat (finite coordinates: no NaN, no signed zero)
//	+ - == != < <= > >= && || !       ↦ the same on Int / Rat / decide
//	f(args), x.m(args) (listed below) ↦ (← f' …)    p2.Polygons() on a Polygonal ↦ dispatch on the dynamic type
//	pp.Construct(op, pp2)             ↦ construct core op pp pp2   (polyclip-go, pinned by hash)
//	x.BoundingBox(), a.Overlaps(b)    ↦ bbox x, overlaps a b       (polyclip-go, pinned by hash)
//	polyclip.XOR/UNION/…              ↦ COp.bool Op.xor, …
//	Inside / OnEdge / Outside         ↦ WStatus.inside / .onEdge / .outside
//
// NOT regenerated, mapped to hand-written definitions of GenLib.lean (transcriptions of bounds.go /
// polygon.go / multipolygon.go, tied by the correspondence run only):
//
//	p.Bounds() on a Polygonal         ↦ Go.bounds p : Go.OBox   (none = the empty box of NewBounds(), ±Inf corners)
//	bp.Within(b)  (both *Bounds)      ↦ Go.boundsWithin bp b : WStatus
//	b.Overlaps(bp) (both *Bounds)     ↦ Go.boundsOverlaps b bp : Bool

import (
	"fmt"
	"go/ast"
	"go/parser"
	"go/token"
	"os"
	"path/filepath"
	"strings"
)

type xerr struct{ msg string }

func xfail(f string, a ...interface{}) { panic(xerr{fmt.Sprintf(f, a...)}) }

// Go type name -> Lean type
var leanType = map[string]string{
	"Point": "P", "polyclip.Point": "P",
	"LineString": "List P", "Path": "List P", "[]Point": "List P", "polyclip.Contour": "List P", "MultiPoint": "List P",
	"MultiLineString": "List (List P)", "Polygon": "List (List P)", "[]Path": "List (List P)", "polyclip.Polygon": "List (List P)",
	"Linear":       "List (List P)", // the dynamic type returned by both Clip methods is MultiLineString
	"MultiPolygon": "List (List (List P))", "[]Polygon": "List (List (List P))",
	"Polygonal": "Operand", "polyclip.Op": "COp", "*Bounds": "Go.Box", "int": "Int", "bool": "Bool",
	"PolygonalR": "Option Operand", // a value of interface type Polygonal that may be nil (results)
	"OBox":       "Go.OBox",        // the *Bounds returned by Bounds() of a Polygonal (may be the empty box)
	"WithinStatus": "WStatus", "float64": "Rat",
}

// element type of slice types
var elemType = map[string]string{
	"LineString": "Point", "Path": "Point", "[]Point": "Point", "polyclip.Contour": "polyclip.Point", "MultiPoint": "Point",
	"MultiLineString": "LineString", "Polygon": "Path", "[]Path": "Path", "polyclip.Polygon": "polyclip.Contour",
	"MultiPolygon": "Polygon", "[]Polygon": "Polygon",
}

// conversions T(x) that are the identity on the modelled values: slice and point types
func isConv(tn string) bool {
	_, ok := elemType[tn]
	return ok || tn == "Point" || tn == "polyclip.Point"
}

func zeroOf(t string) string {
	lt, ok := leanType[t]
	if !ok {
		xfail("zero value of type %s", t)
	}
	switch lt {
	case "P":
		return "(⟨0, 0⟩ : P)"
	case "Int":
		return "(0 : Int)"
	case "Bool":
		return "false"
	}
	if strings.HasPrefix(lt, "List") {
		return "([] : " + lt + ")"
	}
	xfail("zero value of type %s", t)
	return ""
}

func typeName(x ast.Expr) string {
	switch t := x.(type) {
	case *ast.Ident:
		return t.Name
	case *ast.StarExpr:
		return "*" + typeName(t.X)
	case *ast.ArrayType:
		if t.Len == nil {
			return "[]" + typeName(t.Elt)
		}
	case *ast.SelectorExpr:
		if id, ok := t.X.(*ast.Ident); ok {
			return id.Name + "." + t.Sel.Name
		}
	}
	return "?"
}

// functions and methods of package geom that are translated: Go name (methods: Recv.name) -> Lean name
type fnInfo struct {
	file, recv, name, lean string
	core                   bool   // takes the sweep `core` (reaches Construct)
	res                    string // Go result type (filled from the declaration)
}

var fns = []fnInfo{
	{"polygon.go", "Polygon", "toPolyClip", "polygon_toPolyClip", false, ""},
	{"polygon.go", "", "polyClipToPolygon", "polyClipToPolygon", false, ""},
	{"polygon.go", "", "clipperOp", "clipperOp", false, ""},
	{"polygon.go", "Polygon", "Polygons", "polygon_Polygons", false, ""},
	{"multipolygon.go", "MultiPolygon", "Polygons", "multiPolygon_Polygons", false, ""},
	{"bounds.go", "*Bounds", "Polygons", "bounds_Polygons", false, ""},
	{"polygon.go", "Polygon", "op", "polygon_op", true, ""},
	{"polygon.go", "Polygon", "Intersection", "polygon_Intersection", true, ""},
	{"polygon.go", "Polygon", "Union", "polygon_Union", true, ""},
	{"polygon.go", "Polygon", "XOr", "polygon_XOr", true, ""},
	{"polygon.go", "Polygon", "Difference", "polygon_Difference", true, ""},
	{"multipolygon.go", "MultiPolygon", "op", "multiPolygon_op", true, ""},
	{"multipolygon.go", "MultiPolygon", "Intersection", "multiPolygon_Intersection", true, ""},
	{"multipolygon.go", "MultiPolygon", "Union", "multiPolygon_Union", true, ""},
	{"multipolygon.go", "MultiPolygon", "XOr", "multiPolygon_XOr", true, ""},
	{"multipolygon.go", "MultiPolygon", "Difference", "multiPolygon_Difference", true, ""},
	{"bounds.go", "*Bounds", "Intersection", "bounds_Intersection", true, ""},
	{"bounds.go", "*Bounds", "Union", "bounds_Union", true, ""},
	{"bounds.go", "*Bounds", "XOr", "bounds_XOr", true, ""},
	{"bounds.go", "*Bounds", "Difference", "bounds_Difference", true, ""},
}

func lookupFn(recv, name string) *fnInfo {
	for i := range fns {
		if fns[i].recv == recv && fns[i].name == name {
			return &fns[i]
		}
	}
	return nil
}

// static type of a call of a listed function: a result of interface type Polygonal may be nil
func resType(fi *fnInfo) string {
	if fi.res == "Polygonal" {
		return "PolygonalR"
	}
	return fi.res
}

var consts = map[string]string{
	"polyclip.XOR": "(COp.bool Op.xor)", "polyclip.UNION": "(COp.bool Op.union)",
	"polyclip.INTERSECTION": "(COp.bool Op.inter)", "polyclip.DIFFERENCE": "(COp.bool Op.diff)",
}

// translation of one function
type tr struct {
	vars map[string]string // Go variable -> Go type name ("" when unknown)
	decl []map[string]bool // scopes: variables declared in the block being translated
	core bool
	res  string // Go result type of the function being translated
}

var statusConst = map[string]string{"Inside": "WStatus.inside", "OnEdge": "WStatus.onEdge", "Outside": "WStatus.outside"}

func (t *tr) typeOf(e ast.Expr) string {
	switch x := e.(type) {
	case *ast.Ident:
		return t.vars[x.Name]
	case *ast.CallExpr:
		if tn := typeName(x.Fun); isConv(tn) && len(x.Args) == 1 {
			return tn
		}
		if id, ok := x.Fun.(*ast.Ident); ok && id.Name == "make" {
			return typeName(x.Args[0])
		}
		if id, ok := x.Fun.(*ast.Ident); ok {
			if fi := lookupFn("", id.Name); fi != nil {
				return resType(fi)
			}
		}
		if sel, ok := x.Fun.(*ast.SelectorExpr); ok {
			rt := t.typeOf(sel.X)
			if fi := lookupFn(rt, sel.Sel.Name); fi != nil {
				return resType(fi)
			}
			switch sel.Sel.Name {
			case "Polygons":
				return "[]Polygon"
			case "Bounds":
				if rt == "Polygonal" {
					return "OBox"
				}
			case "Within":
				return "WithinStatus"
			case "Construct":
				return "polyclip.Polygon"
			}
		}
	case *ast.UnaryExpr:
		if cl, ok := x.X.(*ast.CompositeLit); ok && x.Op == token.AND {
			return "*" + typeName(cl.Type)
		}
	case *ast.CompositeLit:
		return typeName(x.Type)
	case *ast.IndexExpr:
		return elemType[t.typeOf(x.X)]
	case *ast.SliceExpr:
		return t.typeOf(x.X)
	}
	return ""
}

func (t *tr) expr(e ast.Expr) string {
	switch x := e.(type) {
	case *ast.ParenExpr:
		return t.expr(x.X)
	case *ast.Ident:
		switch x.Name {
		case "true", "false":
			return x.Name
		case "nil":
			xfail("nil outside a return statement")
		}
		if c, ok := statusConst[x.Name]; ok {
			if _, shadow := t.vars[x.Name]; !shadow {
				return c
			}
		}
		if _, ok := t.vars[x.Name]; !ok {
			xfail("unknown identifier %s", x.Name)
		}
		return x.Name
	case *ast.BasicLit:
		if x.Kind == token.INT {
			return "(" + x.Value + " : Int)"
		}
		xfail("literal %s", x.Value)
	case *ast.UnaryExpr:
		switch x.Op {
		case token.NOT:
			return "(!" + t.expr(x.X) + ")"
		case token.SUB:
			return "(-" + t.expr(x.X) + ")"
		case token.AND:
			if cl, ok := x.X.(*ast.CompositeLit); ok && typeName(cl.Type) == "Bounds" {
				var mn, mx string
				for i, el := range cl.Elts {
					if kv, ok := el.(*ast.KeyValueExpr); ok {
						switch kv.Key.(*ast.Ident).Name {
						case "Min":
							mn = t.expr(kv.Value)
						case "Max":
							mx = t.expr(kv.Value)
						}
					} else if i == 0 {
						mn = t.expr(el)
					} else {
						mx = t.expr(el)
					}
				}
				if mn == "" || mx == "" {
					xfail("Bounds literal with a field left out")
				}
				return "(⟨" + mn + ", " + mx + "⟩ : Go.Box)"
			}
		}
		xfail("unary operator %s", x.Op)
	case *ast.BinaryExpr:
		a, b := t.expr(x.X), t.expr(x.Y)
		switch x.Op {
		case token.ADD, token.SUB, token.MUL:
			return "(" + a + " " + x.Op.String() + " " + b + ")"
		case token.EQL:
			return "(decide (" + a + " = " + b + "))"
		case token.NEQ:
			return "(decide (" + a + " ≠ " + b + "))"
		case token.LSS, token.GTR:
			return "(decide (" + a + " " + x.Op.String() + " " + b + "))"
		case token.LEQ:
			return "(decide (" + a + " ≤ " + b + "))"
		case token.GEQ:
			return "(decide (" + a + " ≥ " + b + "))"
		case token.LAND, token.LOR:
			if strings.Contains(b, "←") {
				xfail("faulting operand on the right of %s (short-circuit evaluation)", x.Op)
			}
			return "(" + a + " " + x.Op.String() + " " + b + ")"
		}
		xfail("binary operator %s", x.Op)
	case *ast.SelectorExpr:
		tn := typeName(x)
		if c, ok := consts[tn]; ok {
			return c
		}
		switch x.Sel.Name {
		case "Min", "Max":
			return t.expr(x.X) + "." + x.Sel.Name
		case "X":
			return t.expr(x.X) + ".x"
		case "Y":
			return t.expr(x.X) + ".y"
		}
		xfail("selector %s", tn)
	case *ast.IndexExpr:
		return "(← Go.idx " + t.expr(x.X) + " " + t.expr(x.Index) + ")"
	case *ast.SliceExpr:
		if x.Slice3 {
			xfail("3-index slice")
		}
		a := t.expr(x.X)
		lo, hi := "(0 : Int)", "(Go.len "+a+")"
		if x.Low != nil {
			lo = t.expr(x.Low)
		}
		if x.High != nil {
			hi = t.expr(x.High)
		}
		return "(← Go.slice " + a + " " + lo + " " + hi + ")"
	case *ast.CompositeLit:
		return t.composite(x, typeName(x.Type))
	case *ast.CallExpr:
		return t.call(x)
	}
	xfail("expression %T", e)
	return ""
}

func (t *tr) composite(x *ast.CompositeLit, tn string) string {
	if tn == "Point" || tn == "polyclip.Point" {
		var xs, ys string
		for i, el := range x.Elts {
			if kv, ok := el.(*ast.KeyValueExpr); ok {
				switch kv.Key.(*ast.Ident).Name {
				case "X":
					xs = t.expr(kv.Value)
				case "Y":
					ys = t.expr(kv.Value)
				}
			} else if i == 0 {
				xs = t.expr(el)
			} else {
				ys = t.expr(el)
			}
		}
		if xs == "" || ys == "" {
			xfail("Point literal with a field left out")
		}
		return "(⟨" + xs + ", " + ys + "⟩ : P)"
	}
	et, ok := elemType[tn]
	if !ok {
		xfail("composite literal of type %s", tn)
	}
	var parts []string
	for _, el := range x.Elts {
		if cl, ok := el.(*ast.CompositeLit); ok && cl.Type == nil {
			parts = append(parts, t.composite(cl, et))
		} else if _, ok := el.(*ast.KeyValueExpr); ok {
			xfail("keyed slice literal")
		} else {
			parts = append(parts, t.expr(el))
		}
	}
	return "([" + strings.Join(parts, ", ") + "] : " + leanType[tn] + ")"
}

// a *Bounds expression as a Go.OBox (the hand-written Within / Overlaps take possibly empty boxes)
func (t *tr) asOBox(e ast.Expr) string {
	switch t.typeOf(e) {
	case "OBox":
		return t.expr(e)
	case "*Bounds":
		return "(Go.ofBox " + t.expr(e) + ")"
	}
	xfail("not a *Bounds: %T", e)
	return ""
}

func (t *tr) args(as []ast.Expr) string {
	var s []string
	for _, a := range as {
		s = append(s, t.expr(a))
	}
	return strings.Join(s, " ")
}

func (t *tr) call(x *ast.CallExpr) string {
	if x.Ellipsis != token.NoPos {
		if id, ok := x.Fun.(*ast.Ident); !ok || id.Name != "append" {
			xfail("variadic call")
		}
	}
	// conversions
	if tn := typeName(x.Fun); isConv(tn) && len(x.Args) == 1 {
		if _, shadow := t.vars[tn]; !shadow {
			return t.expr(x.Args[0])
		}
	}
	switch f := x.Fun.(type) {
	case *ast.Ident:
		switch f.Name {
		case "len":
			return "(Go.len " + t.expr(x.Args[0]) + ")"
		case "make":
			tn := typeName(x.Args[0])
			et, ok := elemType[tn]
			if !ok {
				xfail("make of type %s", tn)
			}
			switch len(x.Args) {
			case 2:
				return "(← Go.make " + t.expr(x.Args[1]) + " " + zeroOf(et) + ")"
			case 3:
				return "(← Go.make3 " + t.expr(x.Args[1]) + " " + t.expr(x.Args[2]) + " " + zeroOf(et) + ")"
			}
			xfail("make with %d arguments", len(x.Args))
		case "append":
			a := t.expr(x.Args[0])
			if x.Ellipsis != token.NoPos {
				if len(x.Args) != 2 {
					xfail("append with ... and %d arguments", len(x.Args))
				}
				return "(" + a + " ++ " + t.expr(x.Args[1]) + ")"
			}
			var parts []string
			for _, b := range x.Args[1:] {
				parts = append(parts, t.expr(b))
			}
			return "(" + a + " ++ [" + strings.Join(parts, ", ") + "])"
		}
		if fi := lookupFn("", f.Name); fi != nil {
			c := ""
			if fi.core {
				c = "core "
				t.core = true
			}
			return "(← " + fi.lean + " " + c + t.args(x.Args) + ")"
		}
		xfail("call of %s", f.Name)
	case *ast.SelectorExpr:
		if tn := typeName(f); tn == "math.Max" || tn == "math.Min" {
			if _, shadow := t.vars["math"]; shadow || len(x.Args) != 2 {
				xfail("%s", tn)
			}
			return "(" + strings.ToLower(f.Sel.Name) + " " + t.expr(x.Args[0]) + " " + t.expr(x.Args[1]) + ")"
		}
		recv := t.expr(f.X)
		rt := t.typeOf(f.X)
		switch f.Sel.Name {
		case "Construct":
			if rt != "polyclip.Polygon" || len(x.Args) != 2 {
				xfail("Construct on %s", rt)
			}
			t.core = true
			return "(construct core " + t.expr(x.Args[0]) + " " + recv + " " + t.expr(x.Args[1]) + ")"
		case "BoundingBox":
			if rt != "polyclip.Polygon" || len(x.Args) != 0 {
				xfail("BoundingBox on %s", rt)
			}
			return "(bbox " + recv + ")"
		case "Overlaps":
			if len(x.Args) != 1 {
				xfail("Overlaps")
			}
			if c, ok := f.X.(*ast.CallExpr); ok {
				if s, ok := c.Fun.(*ast.SelectorExpr); ok && s.Sel.Name == "BoundingBox" {
					return "(overlaps " + recv + " " + t.expr(x.Args[0]) + ")"
				}
			}
			// bounds.go (*Bounds).Overlaps: hand-written Go.boundsOverlaps
			if at := t.typeOf(x.Args[0]); (rt == "*Bounds" || rt == "OBox") && (at == "*Bounds" || at == "OBox") {
				return "(Go.boundsOverlaps " + t.asOBox(f.X) + " " + t.asOBox(x.Args[0]) + ")"
			}
			xfail("Overlaps on %s", rt)
		case "Within":
			// bounds.go (*Bounds).Within with a *Bounds argument: hand-written Go.boundsWithin
			if len(x.Args) == 1 {
				if at := t.typeOf(x.Args[0]); (rt == "*Bounds" || rt == "OBox") && (at == "*Bounds" || at == "OBox") {
					return "(Go.boundsWithin " + t.asOBox(f.X) + " " + t.asOBox(x.Args[0]) + ")"
				}
			}
			xfail("Within on %s", rt)
		case "Bounds":
			if rt == "Polygonal" && len(x.Args) == 0 {
				return "(Go.bounds " + recv + ")"
			}
			xfail("Bounds on %s", rt)
		case "Polygons":
			if rt == "Polygonal" && len(x.Args) == 0 {
				return "(← polygonal_Polygons " + recv + ")"
			}
		}
		if fi := lookupFn(rt, f.Sel.Name); fi != nil {
			c := ""
			if fi.core {
				c = "core "
				t.core = true
			}
			return "(← " + fi.lean + " " + c + recv + " " + t.args(x.Args) + ")"
		}
		xfail("method %s on receiver of type %q", f.Sel.Name, rt)
	}
	xfail("call")
	return ""
}

// variables assigned in the statements (by =, index assignment) that are not declared inside them
func assigned(stmts []ast.Stmt) []string {
	declared := map[string]bool{}
	var out []string
	seen := map[string]bool{}
	var walk func(ss []ast.Stmt)
	base := func(e ast.Expr) string {
		for {
			switch x := e.(type) {
			case *ast.IndexExpr:
				e = x.X
			case *ast.Ident:
				return x.Name
			default:
				xfail("assignment target %T", e)
			}
		}
	}
	walk = func(ss []ast.Stmt) {
		for _, s := range ss {
			switch x := s.(type) {
			case *ast.AssignStmt:
				for _, l := range x.Lhs {
					n := base(l)
					if x.Tok == token.DEFINE {
						declared[n] = true
					} else if !declared[n] && !seen[n] && n != "_" {
						seen[n] = true
						out = append(out, n)
					}
				}
			case *ast.DeclStmt:
				for _, sp := range x.Decl.(*ast.GenDecl).Specs {
					for _, n := range sp.(*ast.ValueSpec).Names {
						declared[n.Name] = true
					}
				}
			case *ast.RangeStmt:
				if x.Tok == token.DEFINE {
					for _, kv := range []ast.Expr{x.Key, x.Value} {
						if id, ok := kv.(*ast.Ident); ok {
							declared[id.Name] = true
						}
					}
				}
				walk(x.Body.List)
			case *ast.IfStmt:
				if x.Init != nil {
					walk([]ast.Stmt{x.Init})
				}
				walk(x.Body.List)
				switch e := x.Else.(type) {
				case nil:
				case *ast.BlockStmt:
					walk(e.List)
				case *ast.IfStmt:
					walk([]ast.Stmt{e})
				}
			case *ast.ReturnStmt:
			default:
				xfail("statement %T", s)
			}
		}
	}
	walk(stmts)
	return out
}

func tuple(vs []string) string {
	switch len(vs) {
	case 0:
		return "()"
	case 1:
		return vs[0]
	}
	return "(" + strings.Join(vs, ", ") + ")"
}

// block translates statements; `tail` is what ends the block when no return does ("" = must return)
func (t *tr) block(ss []ast.Stmt, ind string, tail string, out *strings.Builder) {
	for i, s := range ss {
		switch x := s.(type) {
		case *ast.AssignStmt:
			if len(x.Lhs) != 1 || len(x.Rhs) != 1 {
				xfail("parallel assignment")
			}
			if x.Tok != token.DEFINE && x.Tok != token.ASSIGN {
				xfail("assignment operator %s", x.Tok)
			}
			rhs := t.expr(x.Rhs[0])
			switch l := x.Lhs[0].(type) {
			case *ast.Ident:
				if x.Tok == token.DEFINE {
					t.vars[l.Name] = t.typeOf(x.Rhs[0])
				} else if _, ok := t.vars[l.Name]; !ok {
					xfail("assignment to unknown variable %s", l.Name)
				}
				fmt.Fprintf(out, "%slet %s := %s\n", ind, l.Name, rhs)
			case *ast.IndexExpr:
				if inner, ok := l.X.(*ast.IndexExpr); ok {
					a, ok := inner.X.(*ast.Ident)
					if !ok {
						xfail("index assignment deeper than two levels")
					}
					fmt.Fprintf(out, "%slet %s ← Go.setIdx2 %s %s %s %s\n", ind, a.Name, t.expr(a), t.expr(inner.Index), t.expr(l.Index), rhs)
				} else if a, ok := l.X.(*ast.Ident); ok {
					fmt.Fprintf(out, "%slet %s ← Go.setIdx %s %s %s\n", ind, a.Name, t.expr(a), t.expr(l.Index), rhs)
				} else {
					xfail("index assignment target")
				}
			default:
				xfail("assignment target %T", l)
			}
		case *ast.DeclStmt:
			gd := x.Decl.(*ast.GenDecl)
			if gd.Tok != token.VAR {
				xfail("declaration %s", gd.Tok)
			}
			for _, sp := range gd.Specs {
				vs := sp.(*ast.ValueSpec)
				if len(vs.Values) != 0 || vs.Type == nil {
					xfail("var with initialiser")
				}
				tn := typeName(vs.Type)
				for _, n := range vs.Names {
					t.vars[n.Name] = tn
					fmt.Fprintf(out, "%slet %s := %s\n", ind, n.Name, zeroOf(tn))
				}
			}
		case *ast.RangeStmt:
			if x.Tok != token.DEFINE {
				xfail("range without :=")
			}
			xs := t.expr(x.X)
			st := assigned(x.Body.List)
			for _, v := range st {
				if _, ok := t.vars[v]; !ok {
					xfail("loop assigns unknown variable %s", v)
				}
			}
			et := elemType[t.typeOf(x.X)]
			k, v := "_", "_"
			if id, ok := x.Key.(*ast.Ident); ok && x.Key != nil {
				k = id.Name
			}
			if x.Value != nil {
				if id, ok := x.Value.(*ast.Ident); ok {
					v = id.Name
				}
			}
			saved := map[string]string{}
			for n, ty := range t.vars {
				saved[n] = ty
			}
			if k != "_" {
				t.vars[k] = "int"
			}
			if v != "_" {
				t.vars[v] = et
			}
			fmt.Fprintf(out, "%slet %s ← Go.forRange %s %s (fun %s %s %s => do\n", ind, tuple(st), xs, tuple(st), tuple(st), k, v)
			t.block(x.Body.List, ind+"  ", "pure "+tuple(st), out)
			fmt.Fprintf(out, "%s  )\n", ind)
			t.vars = saved
		case *ast.IfStmt:
			if strings.HasPrefix(tail, "pure ") {
				xfail("if inside a loop")
			}
			rest := ss[i+1:]
			// a branch that does not end in return continues with the statements after the if
			branch := func(b []ast.Stmt) []ast.Stmt {
				if n := len(b); n > 0 {
					if _, ok := b[n-1].(*ast.ReturnStmt); ok {
						return b
					}
				}
				return append(append([]ast.Stmt{}, b...), rest...)
			}
			var els []ast.Stmt
			switch e := x.Else.(type) {
			case nil:
			case *ast.BlockStmt:
				els = e.List
			case *ast.IfStmt:
				els = []ast.Stmt{e}
			default:
				xfail("else %T", x.Else)
			}
			save := func() map[string]string {
				m := map[string]string{}
				for n, ty := range t.vars {
					m[n] = ty
				}
				return m
			}
			// if v, ok := p.(*Bounds); ok { … }
			if as, ok := x.Init.(*ast.AssignStmt); ok && len(as.Lhs) == 2 && len(as.Rhs) == 1 {
				ta, isTA := as.Rhs[0].(*ast.TypeAssertExpr)
				okId, _ := as.Lhs[1].(*ast.Ident)
				v, _ := as.Lhs[0].(*ast.Ident)
				c, _ := x.Cond.(*ast.Ident)
				if !isTA || as.Tok != token.DEFINE || okId == nil || v == nil || c == nil || c.Name != okId.Name ||
					typeName(ta.Type) != "*Bounds" || t.typeOf(ta.X) != "Polygonal" {
					xfail("if with a two-valued initialiser other than `v, ok := p.(*Bounds); ok`")
				}
				fmt.Fprintf(out, "%smatch Go.asBounds %s with\n", ind, t.expr(ta.X))
				saved := save()
				t.vars[v.Name] = "*Bounds"
				fmt.Fprintf(out, "%s| some %s => do\n", ind, v.Name)
				t.block(branch(x.Body.List), ind+"  ", tail, out)
				t.vars = saved
				fmt.Fprintf(out, "%s| none => do\n", ind)
				saved = save()
				t.block(branch(els), ind+"  ", tail, out)
				t.vars = saved
				return
			}
			saved0 := save()
			if x.Init != nil {
				as, ok := x.Init.(*ast.AssignStmt)
				if !ok || as.Tok != token.DEFINE || len(as.Lhs) != 1 || len(as.Rhs) != 1 {
					xfail("if initialiser")
				}
				l, ok := as.Lhs[0].(*ast.Ident)
				if !ok {
					xfail("if initialiser target")
				}
				rhs := t.expr(as.Rhs[0])
				t.vars[l.Name] = t.typeOf(as.Rhs[0])
				fmt.Fprintf(out, "%slet %s := %s\n", ind, l.Name, rhs)
			}
			fmt.Fprintf(out, "%sif %s then do\n", ind, t.expr(x.Cond))
			saved := save()
			t.block(branch(x.Body.List), ind+"  ", tail, out)
			t.vars = saved
			fmt.Fprintf(out, "%selse do\n", ind)
			t.block(branch(els), ind+"  ", tail, out)
			t.vars = saved0
			return
		case *ast.ReturnStmt:
			if strings.HasPrefix(tail, "pure ") {
				xfail("return inside a loop")
			}
			if len(x.Results) != 1 {
				xfail("return with %d results", len(x.Results))
			}
			if i != len(ss)-1 {
				xfail("statements after return")
			}
			fmt.Fprintf(out, "%spure %s\n", ind, t.ret(x.Results[0]))
			return
		default:
			xfail("statement %T", s)
		}
	}
	if tail == "" {
		xfail("function body does not end in return")
	}
	fmt.Fprintf(out, "%s%s\n", ind, tail)
}

// the returned value, wrapped by its static type when the function returns the interface Polygonal
func (t *tr) ret(e ast.Expr) string {
	if t.res != "Polygonal" {
		return t.expr(e)
	}
	if id, ok := e.(*ast.Ident); ok && id.Name == "nil" {
		if _, shadow := t.vars["nil"]; !shadow {
			return "(none : Option Operand)"
		}
	}
	v := t.expr(e)
	switch ty := t.typeOf(e); ty {
	case "Polygon":
		return "(some (Operand.poly " + v + "))"
	case "*Bounds":
		return "(some (Operand.box " + v + ".Min " + v + ".Max))"
	case "Polygonal":
		return "(some " + v + ")"
	case "PolygonalR":
		return v
	default:
		xfail("return of a value of static type %q as a Polygonal", ty)
	}
	return ""
}

func findFunc(f *ast.File, recv, name string) *ast.FuncDecl {
	for _, d := range f.Decls {
		fd, ok := d.(*ast.FuncDecl)
		if !ok || fd.Name.Name != name {
			continue
		}
		r := ""
		if fd.Recv != nil && len(fd.Recv.List) == 1 {
			r = typeName(fd.Recv.List[0].Type)
		}
		if r == recv {
			return fd
		}
	}
	return nil
}

func translate(fi fnInfo, fd *ast.FuncDecl) (text string) {
	t := &tr{vars: map[string]string{}, res: fi.res}
	var params []string
	add := func(n, tn string) {
		lt, ok := leanType[tn]
		if !ok {
			xfail("parameter type %s", tn)
		}
		t.vars[n] = tn
		params = append(params, "("+n+" : "+lt+")")
	}
	if fd.Recv != nil {
		r := fd.Recv.List[0]
		if len(r.Names) != 1 {
			xfail("unnamed receiver")
		}
		add(r.Names[0].Name, typeName(r.Type))
	}
	for _, p := range fd.Type.Params.List {
		for _, n := range p.Names {
			add(n.Name, typeName(p.Type))
		}
	}
	if fd.Type.Results == nil || len(fd.Type.Results.List) != 1 {
		xfail("result list")
	}
	rt, ok := leanType[resType(&fi)]
	if !ok {
		xfail("result type %s", fi.res)
	}
	var body strings.Builder
	t.block(fd.Body.List, "  ", "", &body)
	if t.core && !fi.core {
		xfail("reaches the clipper but is not listed as taking the sweep")
	}
	c := ""
	if fi.core {
		c = "(core : ClipCore) "
	}
	rn := fi.name
	if fi.recv != "" {
		rn = "(" + fi.recv + ")." + fi.name
	}
	return fmt.Sprintf("/-- %s: %s -/\ndef %s %s%s : Go.M (%s) := do\n%s", fi.file, rn, fi.lean, c, strings.Join(params, " "), rt, body.String())
}

const genHeader = `import GeomV.C01.GenLib
/-! GENERATED by ` + "`harness/cmd/c01 extract`" + ` from polygon.go, multipolygon.go, bounds.go of the tree under test.
Do not edit; regenerated by every ` + "`bin/check C01`" + ` run (checks/C01.py pregen).  Tie lemmas: Ties.lean. -/
set_option linter.unusedVariables false
namespace GeomV.C01.Gen
open GeomV GeomV.C01

`

// the dynamic dispatch of the interface method Polygonal.Polygons over the three polygonal types
const dispatch = `/-- interface call ` + "`p.Polygons()`" + ` on a Polygonal: dispatch on the dynamic type -/
def polygonal_Polygons : Operand → Go.M (List (List (List P)))
  | .poly rs => polygon_Polygons rs
  | .multi ps => multiPolygon_Polygons ps
  | .box mn mx => bounds_Polygons ⟨mn, mx⟩

`

func extract(repo string) int {
	fset := token.NewFileSet()
	files := map[string]*ast.File{}
	var sb strings.Builder
	sb.WriteString(genHeader)
	rc := 0
	// first pass: result types of the listed functions (the static type of their calls)
	for i := range fns {
		f, ok := files[fns[i].file]
		if !ok {
			var err error
			f, err = parser.ParseFile(fset, filepath.Join(repo, fns[i].file), nil, 0)
			if err != nil {
				fmt.Fprintf(os.Stderr, "cannot parse %s: %v\n", fns[i].file, err)
				return 2
			}
			files[fns[i].file] = f
		}
		if fd := findFunc(f, fns[i].recv, fns[i].name); fd != nil && fd.Type.Results != nil && len(fd.Type.Results.List) == 1 {
			fns[i].res = typeName(fd.Type.Results.List[0].Type)
		}
	}
	for _, fi := range fns {
		f, ok := files[fi.file]
		if !ok {
			var err error
			f, err = parser.ParseFile(fset, filepath.Join(repo, fi.file), nil, 0)
			if err != nil {
				fmt.Fprintf(os.Stderr, "cannot parse %s: %v\n", fi.file, err)
				return 2
			}
			files[fi.file] = f
		}
		func() {
			defer func() {
				if r := recover(); r != nil {
					e, ok := r.(xerr)
					if !ok {
						panic(r)
					}
					fmt.Fprintf(os.Stderr, "%s %s.%s is outside the translatable subset: %s\n", fi.file, fi.recv, fi.name, e.msg)
					fmt.Fprintf(&sb, "/-- %s %s.%s: outside the translatable subset (%s) -/\ndef %s : Go.M Unit := untranslatable\n\n", fi.file, fi.recv, fi.name, e.msg, fi.lean)
					rc = 3
				}
			}()
			fd := findFunc(f, fi.recv, fi.name)
			if fd == nil {
				xfail("not found")
			}
			sb.WriteString(translate(fi, fd))
			sb.WriteString("\n")
		}()
		if fi.lean == "bounds_Polygons" {
			sb.WriteString(dispatch)
		}
	}
	sb.WriteString("end GeomV.C01.Gen\n")
	fmt.Print(sb.String())
	return rc
}
