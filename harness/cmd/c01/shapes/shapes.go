// Package shapes generates integer-grid polygonal operands (shared by the C01 and C14 harnesses)
// and decides their configuration with exact int64 predicates.
package shapes

import (
	"math"
	"sort"

	"github.com/ctessum/geom"

	"verif/harness/vproto"
)

type Pt struct{ X, Y int64 }
type Ring []Pt   // open form: no repeated closing vertex
type Poly []Ring // shell, holes

// Shape is an operand: Kind "PG" (Polys has one member), "MPG", or "B" (Box).
type Shape struct {
	Kind  string
	Polys []Poly
	Box   [2]Pt
}

func Orient(a, b, p Pt) int64 { return (b.X-a.X)*(p.Y-a.Y) - (b.Y-a.Y)*(p.X-a.X) }

func sgn(v int64) int {
	switch {
	case v > 0:
		return 1
	case v < 0:
		return -1
	}
	return 0
}
func min64(a, b int64) int64 {
	if a < b {
		return a
	}
	return b
}
func max64(a, b int64) int64 {
	if a > b {
		return a
	}
	return b
}

// OnSeg: p on the closed segment ab.
func OnSeg(a, b, p Pt) bool {
	return Orient(a, b, p) == 0 && min64(a.X, b.X) <= p.X && p.X <= max64(a.X, b.X) &&
		min64(a.Y, b.Y) <= p.Y && p.Y <= max64(a.Y, b.Y)
}

// Touch: an endpoint of one segment lies on the other.
func Touch(a, b, c, d Pt) bool {
	return OnSeg(a, b, c) || OnSeg(a, b, d) || OnSeg(c, d, a) || OnSeg(c, d, b)
}

// Meet: the closed segments share a point.
func Meet(a, b, c, d Pt) bool {
	if Touch(a, b, c, d) {
		return true
	}
	return sgn(Orient(a, b, c))*sgn(Orient(a, b, d)) < 0 && sgn(Orient(c, d, a))*sgn(Orient(c, d, b)) < 0
}

func (r Ring) Edge(i int) (Pt, Pt) { return r[i], r[(i+1)%len(r)] }

// Simple: at least 3 vertices, no repeated/collinear-overlapping neighbours, non-adjacent edges disjoint.
func (r Ring) Simple() bool {
	n := len(r)
	if n < 3 {
		return false
	}
	for i := 0; i < n; i++ {
		a, b := r.Edge(i)
		if a == b {
			return false
		}
		for j := i + 1; j < n; j++ {
			c, d := r.Edge(j)
			switch {
			case j == i+1:
				if OnSeg(c, d, a) || OnSeg(a, b, d) {
					return false
				}
			case i == 0 && j == n-1:
				if OnSeg(a, b, c) || OnSeg(c, d, b) {
					return false
				}
			default:
				if Meet(a, b, c, d) {
					return false
				}
			}
		}
	}
	return true
}

// RingsMeet: some edge of r meets some edge of s.
func RingsMeet(r, s Ring) bool {
	for i := range r {
		a, b := r.Edge(i)
		for j := range s {
			c, d := s.Edge(j)
			if Meet(a, b, c, d) {
				return true
			}
		}
	}
	return false
}

// RingsTouch: a vertex of one on an edge of the other (not general position).
func RingsTouch(r, s Ring) bool {
	for i := range r {
		a, b := r.Edge(i)
		for j := range s {
			c, d := s.Edge(j)
			if Touch(a, b, c, d) {
				return true
			}
		}
	}
	return false
}

// InRings: even-odd membership of p over rings; -1 when p is on an edge.
func InRings(rs []Ring, p Pt) int {
	in := 0
	for _, r := range rs {
		for i := range r {
			a, b := r.Edge(i)
			if OnSeg(a, b, p) {
				return -1
			}
			o := Orient(a, b, p)
			if (a.Y <= p.Y && p.Y < b.Y && o > 0) || (b.Y <= p.Y && p.Y < a.Y && o < 0) {
				in ^= 1
			}
		}
	}
	return in
}

func (s Shape) Rings() []Ring {
	if s.Kind == "B" {
		mn, mx := s.Box[0], s.Box[1]
		return []Ring{{mn, {mx.X, mn.Y}, mx, {mn.X, mx.Y}}}
	}
	var out []Ring
	for _, p := range s.Polys {
		out = append(out, p...)
	}
	return out
}

func (s Shape) BBox() (mn, mx Pt, ok bool) {
	mn = Pt{math.MaxInt64, math.MaxInt64}
	mx = Pt{math.MinInt64, math.MinInt64}
	for _, r := range s.Rings() {
		for _, p := range r {
			ok = true
			mn = Pt{min64(mn.X, p.X), min64(mn.Y, p.Y)}
			mx = Pt{max64(mx.X, p.X), max64(mx.Y, p.Y)}
		}
	}
	return
}

func (s Shape) Translate(dx, dy int64) Shape {
	o := Shape{Kind: s.Kind}
	o.Box = [2]Pt{{s.Box[0].X + dx, s.Box[0].Y + dy}, {s.Box[1].X + dx, s.Box[1].Y + dy}}
	for _, p := range s.Polys {
		var np Poly
		for _, r := range p {
			nr := make(Ring, len(r))
			for i, q := range r {
				nr[i] = Pt{q.X + dx, q.Y + dy}
			}
			np = append(np, nr)
		}
		o.Polys = append(o.Polys, np)
	}
	return o
}

// Scale multiplies all coordinates by k and adds (ox, oy) (used for half-integer placement).
func (s Shape) Scale(k, ox, oy int64) Shape {
	o := Shape{Kind: s.Kind}
	o.Box = [2]Pt{{s.Box[0].X*k + ox, s.Box[0].Y*k + oy}, {s.Box[1].X*k + ox, s.Box[1].Y*k + oy}}
	for _, p := range s.Polys {
		var np Poly
		for _, r := range p {
			nr := make(Ring, len(r))
			for i, q := range r {
				nr[i] = Pt{q.X*k + ox, q.Y*k + oy}
			}
			np = append(np, nr)
		}
		o.Polys = append(o.Polys, np)
	}
	return o
}

// InGP: boundaries of a and b in general position.
func InGP(a, b Shape) bool {
	for _, r := range a.Rings() {
		for _, s := range b.Rings() {
			if RingsTouch(r, s) {
				return false
			}
		}
	}
	return true
}

// BoundariesMeet: some edge of a meets some edge of b.
func BoundariesMeet(a, b Shape) bool {
	for _, r := range a.Rings() {
		for _, s := range b.Rings() {
			if RingsMeet(r, s) {
				return true
			}
		}
	}
	return false
}

// AllInside: every vertex of a strictly inside the region of b.
func AllInside(a, b Shape) bool {
	rb := b.Rings()
	n := 0
	for _, r := range a.Rings() {
		for _, p := range r {
			n++
			if InRings(rb, p) != 1 {
				return false
			}
		}
	}
	return n > 0
}

// AllOutside: every vertex of a strictly outside the region of b.
func AllOutside(a, b Shape) bool {
	rb := b.Rings()
	for _, r := range a.Rings() {
		for _, p := range r {
			if InRings(rb, p) != 0 {
				return false
			}
		}
	}
	return true
}

/* ---------- generators ---------- */

// Star: star-shaped ring about the origin with n vertices and radii in [R/2, R].
func Star(r *vproto.Rng, n int, R float64) Ring {
	for try := 0; try < 30; try++ {
		angs := make([]float64, n)
		for i := range angs {
			angs[i] = r.Float() * 2 * math.Pi
		}
		sort.Float64s(angs)
		var ring Ring
		for _, a := range angs {
			rad := R * (0.45 + 0.55*r.Float())
			p := Pt{int64(math.Round(rad * math.Cos(a))), int64(math.Round(rad * math.Sin(a)))}
			if len(ring) == 0 || ring[len(ring)-1] != p {
				ring = append(ring, p)
			}
		}
		if len(ring) > 1 && ring[0] == ring[len(ring)-1] {
			ring = ring[:len(ring)-1]
		}
		if ring.Simple() && InRings([]Ring{ring}, Pt{0, 0}) != 0 {
			return ring
		}
	}
	k := int64(math.Max(1, math.Round(R)))
	return Ring{{-k, -k}, {k, -k}, {0, k}}
}

// Ortho: rectilinear histogram polygon (x-monotone), unit u.
func Ortho(r *vproto.Rng, cols int, maxh int, u int64) Ring {
	xs := []int64{0}
	hs := []int64{}
	last := int64(-1)
	for i := 0; i < cols; i++ {
		xs = append(xs, xs[len(xs)-1]+u*int64(r.Range(1, 3)))
		h := u * int64(r.Range(1, maxh))
		for h == last {
			h = u * int64(r.Range(1, maxh+1))
		}
		hs = append(hs, h)
		last = h
	}
	ring := Ring{{0, 0}, {xs[cols], 0}}
	for i := cols - 1; i >= 0; i-- {
		ring = append(ring, Pt{xs[i+1], hs[i]}, Pt{xs[i], hs[i]})
	}
	// drop duplicate of a vertex that coincides with its predecessor (cannot happen as heights differ)
	return ring
}

// Inscribed: convex ring touching all four sides of (0,0)-(w,h), w,h >= 3.
func Inscribed(r *vproto.Rng, w, h int64) Ring {
	side := func(lim int64) []int64 {
		k := r.Range(1, 2)
		m := map[int64]bool{}
		for len(m) < k {
			m[int64(r.Range(1, int(lim)-1))] = true
			if lim <= 2 {
				break
			}
		}
		var o []int64
		for v := range m {
			o = append(o, v)
		}
		sort.Slice(o, func(i, j int) bool { return o[i] < o[j] })
		return o
	}
	var ring Ring
	for _, x := range side(w) {
		ring = append(ring, Pt{x, 0})
	}
	for _, y := range side(h) {
		ring = append(ring, Pt{w, y})
	}
	t := side(w)
	for i := len(t) - 1; i >= 0; i-- {
		ring = append(ring, Pt{t[i], h})
	}
	l := side(h)
	for i := len(l) - 1; i >= 0; i-- {
		ring = append(ring, Pt{0, l[i]})
	}
	return ring
}

func RectRing(x0, y0, x1, y1 int64) Ring { return Ring{{x0, y0}, {x1, y0}, {x1, y1}, {x0, y1}} }

// Shell returns a random simple ring; big selects the size class.
func Shell(r *vproto.Rng, big bool) Ring {
	switch r.Intn(5) {
	case 0, 1:
		if big {
			return Star(r, r.Range(3, 10), float64(r.Range(5, 12)))
		}
		return Star(r, r.Range(3, 6), float64(r.Range(2, 4)))
	case 2:
		if big {
			return Ortho(r, r.Range(2, 5), 6, int64(r.Range(1, 2)))
		}
		return Ortho(r, r.Range(1, 3), 3, 1)
	case 3:
		if big {
			return Inscribed(r, int64(r.Range(5, 16)), int64(r.Range(5, 16)))
		}
		return Inscribed(r, int64(r.Range(3, 5)), int64(r.Range(3, 5)))
	default:
		if big {
			return RectRing(0, 0, int64(r.Range(3, 14)), int64(r.Range(3, 14)))
		}
		return RectRing(0, 0, int64(r.Range(1, 4)), int64(r.Range(1, 4)))
	}
}

func ringBox(rg Ring) (mn, mx Pt) {
	mn, mx = rg[0], rg[0]
	for _, p := range rg {
		mn = Pt{min64(mn.X, p.X), min64(mn.Y, p.Y)}
		mx = Pt{max64(mx.X, p.X), max64(mx.Y, p.Y)}
	}
	return
}

// AddHoles tries to put up to k small holes strictly inside shell, disjoint and not nested.
func AddHoles(r *vproto.Rng, shell Ring, k int) Poly {
	p := Poly{shell}
	mn, mx := ringBox(shell)
	for try := 0; try < 25*k && len(p) <= k; try++ {
		var h Ring
		cx := int64(r.Range(int(mn.X), int(mx.X)))
		cy := int64(r.Range(int(mn.Y), int(mx.Y)))
		switch r.Intn(3) {
		case 0:
			h = RectRing(cx, cy, cx+int64(r.Range(1, 3)), cy+int64(r.Range(1, 3)))
		case 1:
			h = Ring{{cx, cy}, {cx + int64(r.Range(1, 3)), cy + int64(r.Range(0, 1))}, {cx + int64(r.Range(0, 1)), cy + int64(r.Range(1, 3))}}
		default:
			s := Star(r, r.Range(3, 5), float64(r.Range(1, 3)))
			h = make(Ring, len(s))
			for i, q := range s {
				h[i] = Pt{q.X + cx, q.Y + cy}
			}
		}
		if !h.Simple() {
			continue
		}
		ok := true
		for _, v := range h {
			if InRings([]Ring{shell}, v) != 1 {
				ok = false
			}
		}
		if !ok || RingsMeet(h, shell) {
			continue
		}
		for _, o := range p[1:] {
			if RingsMeet(h, o) || InRings([]Ring{o}, h[0]) != 0 || InRings([]Ring{h}, o[0]) != 0 {
				ok = false
			}
		}
		if ok {
			p = append(p, h)
		}
	}
	return p
}

// GenPoly: polygon with 0-2 holes.
func GenPoly(r *vproto.Rng, big bool) Poly {
	sh := Shell(r, big)
	k := 0
	if big {
		k = []int{0, 0, 1, 1, 2}[r.Intn(5)]
	} else if r.Intn(4) == 0 {
		k = 1
	}
	return AddHoles(r, sh, k)
}

// GenShape of a kind ("PG", "MPG", "B"); members of a multi-polygon have disjoint regions.
func GenShape(r *vproto.Rng, kind string, big bool) Shape {
	switch kind {
	case "B":
		lim := 4
		if big {
			lim = 16
		}
		return Shape{Kind: "B", Box: [2]Pt{{0, 0}, {int64(r.Range(1, lim)), int64(r.Range(1, lim))}}}
	case "PG":
		return Shape{Kind: "PG", Polys: []Poly{GenPoly(r, big)}}
	}
	// MPG
	s := Shape{Kind: "MPG"}
	if r.Intn(4) == 0 {
		// a frame with a member inside its hole
		w := int64(r.Range(8, 14))
		in := Star(r, r.Range(3, 6), float64(w)/2-3)
		in2 := make(Ring, len(in))
		for i, q := range in {
			in2[i] = Pt{q.X + w/2, q.Y + w/2}
		}
		s.Polys = []Poly{{RectRing(0, 0, w, w), RectRing(2, 2, w-2, w-2)}, {in2}}
		if !in2.Simple() || RingsMeet(in2, s.Polys[0][1]) || InRings([]Ring{s.Polys[0][1]}, in2[0]) != 1 {
			s.Polys = s.Polys[:1]
		}
		return s
	}
	n := r.Range(1, 3)
	var off int64
	for i := 0; i < n; i++ {
		p := GenPoly(r, big && n < 3)
		mn, mx := ringBox(p[0])
		dx := off - mn.X
		dy := int64(r.Range(-3, 3))
		m := Shape{Kind: "PG", Polys: []Poly{p}}.Translate(dx, dy)
		s.Polys = append(s.Polys, m.Polys[0])
		off += mx.X - mn.X + int64(r.Range(1, 3))
	}
	// sometimes stack members so that their boxes overlap without the regions meeting
	return s
}

/* ---------- conversion to package geom ---------- */

// ToGeom converts with coordinates divided by div (1 or 2); closed selects OGC-closed rings.
func (s Shape) ToGeom(div float64, closed bool) geom.Polygonal {
	cv := func(p Poly) geom.Polygon {
		var out geom.Polygon
		for _, r := range p {
			var path geom.Path
			for _, q := range r {
				path = append(path, geom.Point{X: float64(q.X) / div, Y: float64(q.Y) / div})
			}
			if closed && len(path) > 0 {
				path = append(path, path[0])
			}
			out = append(out, path)
		}
		return out
	}
	switch s.Kind {
	case "B":
		return &geom.Bounds{Min: geom.Point{X: float64(s.Box[0].X) / div, Y: float64(s.Box[0].Y) / div},
			Max: geom.Point{X: float64(s.Box[1].X) / div, Y: float64(s.Box[1].Y) / div}}
	case "PG":
		if len(s.Polys) == 0 {
			return geom.Polygon{}
		}
		return cv(s.Polys[0])
	}
	mp := geom.MultiPolygon{}
	for _, p := range s.Polys {
		mp = append(mp, cv(p))
	}
	return mp
}

/* ---------- scale families, shared backing arrays, in-place mutation ---------- */

func scalePath(p []geom.Point, f float64) []geom.Point {
	o := make([]geom.Point, len(p))
	for i, q := range p {
		o[i] = geom.Point{X: q.X * f, Y: q.Y * f}
	}
	return o
}

// ScaleGeom multiplies every coordinate by f (use powers of two: exact).
func ScaleGeom(g geom.Geom, f float64) geom.Geom {
	switch t := g.(type) {
	case geom.LineString:
		return geom.LineString(scalePath(t, f))
	case geom.MultiLineString:
		o := make(geom.MultiLineString, len(t))
		for i, l := range t {
			o[i] = geom.LineString(scalePath(l, f))
		}
		return o
	case geom.Polygon:
		o := make(geom.Polygon, len(t))
		for i, l := range t {
			o[i] = geom.Path(scalePath(l, f))
		}
		return o
	case geom.MultiPolygon:
		o := make(geom.MultiPolygon, len(t))
		for i, pg := range t {
			o[i] = ScaleGeom(pg, f).(geom.Polygon)
		}
		return o
	case *geom.Bounds:
		return &geom.Bounds{Min: geom.Point{X: t.Min.X * f, Y: t.Min.Y * f}, Max: geom.Point{X: t.Max.X * f, Y: t.Max.Y * f}}
	}
	return g
}

// Flat rebuilds a polygon / multi-polygon so that all its rings are consecutive windows of ONE
// backing array with spare capacity (an append to a ring would overwrite the next ring).
func Flat(g geom.Polygonal) geom.Polygonal {
	total := 0
	count := func(pg geom.Polygon) {
		for _, r := range pg {
			total += len(r)
		}
	}
	switch t := g.(type) {
	case geom.Polygon:
		count(t)
	case geom.MultiPolygon:
		for _, pg := range t {
			count(pg)
		}
	default:
		return g
	}
	buf := make([]geom.Point, total, total+8)
	at := 0
	flat := func(pg geom.Polygon) geom.Polygon {
		if pg == nil {
			return nil
		}
		o := make(geom.Polygon, len(pg))
		for i, r := range pg {
			copy(buf[at:], r)
			o[i] = geom.Path(buf[at : at+len(r)]) // capacity runs on into the following rings
			at += len(r)
		}
		return o
	}
	switch t := g.(type) {
	case geom.Polygon:
		return flat(t)
	case geom.MultiPolygon:
		o := make(geom.MultiPolygon, len(t))
		for i, pg := range t {
			o[i] = flat(pg)
		}
		return o
	}
	return g
}

// CopyInto overwrites the coordinates of dst with those of src IN PLACE when both have the same
// type and the same member / ring / vertex counts (same addresses, same lengths afterwards) and
// returns dst; otherwise it returns src.
func CopyInto(dst, src geom.Polygonal) geom.Polygonal {
	same := func(a, b geom.Polygon) bool {
		if len(a) != len(b) {
			return false
		}
		for i := range a {
			if len(a[i]) != len(b[i]) {
				return false
			}
		}
		return true
	}
	switch s := src.(type) {
	case geom.Polygon:
		d, ok := dst.(geom.Polygon)
		if !ok || !same(d, s) {
			return src
		}
		for i := range s {
			copy(d[i], s[i])
		}
		return d
	case geom.MultiPolygon:
		d, ok := dst.(geom.MultiPolygon)
		if !ok || len(d) != len(s) {
			return src
		}
		for i := range s {
			if !same(d[i], s[i]) {
				return src
			}
		}
		for i := range s {
			for j := range s[i] {
				copy(d[i][j], s[i][j])
			}
		}
		return d
	case *geom.Bounds:
		d, ok := dst.(*geom.Bounds)
		if !ok || d == nil || s == nil {
			return src
		}
		*d = *s
		return d
	}
	return src
}
