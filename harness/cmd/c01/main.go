// Harness for C01 (polygon boolean operations implement point-set semantics). Subcommands:
//
//	gen --seed S --tier T   write case lines:  op <I|U|D|X> <recv geom> | <arg geom>
//	                                           ie <recv geom> | <arg geom>        (area identities)
//	impl                    read case lines, run the real code, append " => ok <result geom>" / " => panic <msg>"
package main

import (
	"bufio"
	"fmt"
	"os"
	"strings"

	"github.com/ctessum/geom"

	"verif/harness/cmd/c01/shapes"
	"verif/harness/vproto"
)

type S = shapes.Shape

func bboxOf(s S) (mn, mx shapes.Pt) {
	mn, mx, _ = s.BBox()
	return
}

// place translates b relative to a to realise the configuration class; ok=false if it gave up.
func place(r *vproto.Rng, a, b S, class int) (S, bool) {
	amn, amx := bboxOf(a)
	bmn, bmx := bboxOf(b)
	bw, bh := bmx.X-bmn.X, bmx.Y-bmn.Y
	centreIn := func() S {
		cx := int64(r.Range(int(amn.X), int(amx.X)))
		cy := int64(r.Range(int(amn.Y), int(amx.Y)))
		return b.Translate(cx-(bmn.X+bw/2), cy-(bmn.Y+bh/2))
	}
	switch class {
	case 0: // overlapping: boundaries cross
		for try := 0; try < 40; try++ {
			c := centreIn()
			if shapes.InGP(a, c) && shapes.BoundariesMeet(a, c) {
				return c, true
			}
		}
	case 1: // nested: b inside a
		for try := 0; try < 60; try++ {
			c := centreIn()
			if !shapes.BoundariesMeet(a, c) && shapes.AllInside(c, a) {
				return c, true
			}
		}
	case 2: // disjoint regions, overlapping boxes
		for try := 0; try < 60; try++ {
			c := centreIn()
			if !shapes.BoundariesMeet(a, c) && shapes.AllOutside(c, a) && shapes.AllOutside(a, c) {
				cmn, cmx := bboxOf(c)
				if cmn.X < amx.X && cmx.X > amn.X && cmn.Y < amx.Y && cmx.Y > amn.Y {
					return c, true
				}
			}
		}
	case 3: // boxes disjoint along both axes or one, far apart
		gap := int64(r.Range(1, 6))
		var dx, dy int64
		switch r.Intn(4) {
		case 0:
			dx, dy = amx.X+gap-bmn.X, amx.Y+gap-bmn.Y
		case 1:
			dx, dy = amn.X-gap-bmx.X, amn.Y-gap-bmx.Y
		case 2:
			dx, dy = amx.X+gap-bmn.X, amn.Y-gap-bmx.Y
		default:
			dx, dy = amn.X-gap-bmx.X, amx.Y+gap-bmn.Y
		}
		return b.Translate(dx, dy), true
	case 4: // separated along exactly one axis, ranges along the other overlap
		gap := int64(r.Range(1, 4))
		if r.Bool() {
			lo, hi := amn.Y-bh+1, amx.Y-1
			if hi < lo {
				hi = lo
			}
			y := int64(r.Range(int(lo), int(hi)))
			if r.Bool() {
				return b.Translate(amx.X+gap-bmn.X, y-bmn.Y), true
			}
			return b.Translate(amn.X-gap-bmx.X, y-bmn.Y), true
		}
		lo, hi := amn.X-bw+1, amx.X-1
		if hi < lo {
			hi = lo
		}
		x := int64(r.Range(int(lo), int(hi)))
		if r.Bool() {
			return b.Translate(x-bmn.X, amx.Y+gap-bmn.Y), true
		}
		return b.Translate(x-bmn.X, amn.Y-gap-bmx.Y), true
	}
	return b, false
}

// inscribedShape: a shape of the kind whose bounding box is exactly (0,0)-(w,h).
func inscribedShape(r *vproto.Rng, kind string, w, h int64) S {
	switch kind {
	case "B":
		return S{Kind: "B", Box: [2]shapes.Pt{{X: 0, Y: 0}, {X: w, Y: h}}}
	case "PG":
		return S{Kind: "PG", Polys: []shapes.Poly{shapes.AddHoles(r, shapes.Inscribed(r, w, h), r.Intn(2))}}
	}
	return S{Kind: "MPG", Polys: []shapes.Poly{shapes.AddHoles(r, shapes.Inscribed(r, w, h), r.Intn(2))}}
}

var classCycle = []int{0, 1, 2, 3, 4, 5, 0, 1, 2, 3, 4, 0}

func genPair(r *vproto.Rng, ka, kb string, class int) (S, S) {
	if class == 5 {
		for try := 0; try < 30; try++ {
			w, h := int64(r.Range(4, 14)), int64(r.Range(4, 14))
			a, b := inscribedShape(r, ka, w, h), inscribedShape(r, kb, w, h)
			if shapes.InGP(a, b) || ka == "B" || kb == "B" {
				dx, dy := int64(r.Range(-5, 5)), int64(r.Range(-5, 5))
				return a.Translate(dx, dy), b.Translate(dx, dy)
			}
		}
		class = 0
	}
	if class == 0 && ka != "B" && kb != "B" && r.Intn(4) == 0 {
		// two rectilinear combs, one on even and one on odd coordinates: many vertical edges and
		// crossings, never a shared coordinate (general position by construction)
		mk := func(kind string) S {
			return S{Kind: kind, Polys: []shapes.Poly{{shapes.Ortho(r, r.Range(3, 6), 6, 2)}}}
		}
		a, b := mk(ka), mk(kb)
		return a, b.Translate(int64(2*r.Range(-2, 2)+1), int64(2*r.Range(-2, 2)+1))
	}
	for try := 0; try < 8; try++ {
		bigA, bigB := true, true
		swap := false
		switch class {
		case 1:
			bigB = false
			swap = r.Bool()
		case 2:
			bigB = false
			swap = r.Bool()
		case 3, 4:
			bigA, bigB = r.Bool(), r.Bool()
		}
		a, b := GenShapeK(r, ka, kb, swap, bigA, bigB)
		c, ok := place(r, a, b, class)
		if ok {
			dx, dy := int64(r.Range(-6, 6)), int64(r.Range(-6, 6))
			a, c = a.Translate(dx, dy), c.Translate(dx, dy)
			if swap {
				return c, a
			}
			return a, c
		}
	}
	a := shapes.GenShape(r, ka, true)
	b := shapes.GenShape(r, kb, true)
	c, _ := place(r, a, b, 3)
	return a, c
}

// GenShapeK generates the two shapes; with swap the roles (outer/inner) are exchanged so that the
// returned first shape is always the "outer/big" one of kind kb and the second of kind ka.
func GenShapeK(r *vproto.Rng, ka, kb string, swap, bigA, bigB bool) (S, S) {
	if swap {
		return shapes.GenShape(r, kb, bigA), shapes.GenShape(r, ka, bigB)
	}
	return shapes.GenShape(r, ka, bigA), shapes.GenShape(r, kb, bigB)
}

func sq(x0, y0, x1, y1 float64) geom.Polygon {
	return geom.Polygon{{{X: x0, Y: y0}, {X: x1, Y: y0}, {X: x1, Y: y1}, {X: x0, Y: y1}, {X: x0, Y: y0}}}
}
func bx(x0, y0, x1, y1 float64) *geom.Bounds {
	return &geom.Bounds{Min: geom.Point{X: x0, Y: y0}, Max: geom.Point{X: x1, Y: y1}}
}

func corpus() [][2]geom.Polygonal {
	unit := bx(0, 0, 1, 1)
	return [][2]geom.Polygonal{
		{sq(0, 0, 1, 1), sq(5, 5, 6, 6)},         // DESIGN 1.1: XOr of box-disjoint operands
		{bx(0, 0, 1, 1), bx(2, 0, 3, 1)},         // DESIGN 1.1: boxes separated along one axis
		{bx(0, 0, 1, 1), bx(0, 2, 1, 3)},         // ... along the other
		{unit, bx(0, 0, 1, 1)},                   // TestBounds_Intersection cases
		{unit, bx(0.5, 0.5, 1, 1)},
		{unit, bx(0.5, 0.5, 0.625, 0.625)},
		{unit, bx(0.5, 0.5, 2, 2)},
		{unit, bx(1, 1, 2, 2)},
		{unit, bx(1.5, 1.5, 2, 2)},
		{unit, bx(-1, -1, 2, 2)},
		{unit, sq(0.25, 0.25, 0.75, 0.75)},
		{unit, sq(0.5, 0.5, 2, 2)},
		{unit, sq(3, 3, 4, 4)},
		{unit, sq(3, 0.25, 4, 0.75)},
		{sq(0.25, 0.25, 0.75, 0.75), unit},
		{sq(0.5, 0.5, 2, 2), unit},
		{sq(-1, -1, 2, 2), unit},
		{unit, geom.MultiPolygon{sq(0.25, 0.25, 0.5, 0.5), sq(3, 3, 4, 4)}},
		{geom.MultiPolygon{sq(0.25, 0.25, 0.5, 0.5), sq(3, 3, 4, 4)}, bx(0.375, 0.375, 3.5, 3.5)},
		{sq(0, 0, 2, 2), sq(-1, -1, 1, 1)}, // TestPolygonOp
		{geom.MultiPolygon{sq(0, 0, 2, 2), sq(4, 0, 6, 2)}, sq(1, 1, 5, 3)},
		{geom.Polygon{}, sq(0, 0, 1, 1)}, // empty operands
		{sq(0, 0, 1, 1), geom.Polygon{}},
		{geom.MultiPolygon{}, sq(0, 0, 1, 1)},
		{sq(0, 0, 1, 1), geom.MultiPolygon{}},
		{geom.MultiPolygon{}, geom.Polygon{}},
		{unit, geom.Polygon{}},
		{unit, geom.MultiPolygon{{}}},
		{geom.MultiPolygon{{}, sq(0, 0, 2, 2)}, sq(1, 1, 3, 3)},
		{geom.MultiPolygon{{}, sq(0, 0, 2, 2)}, bx(-1, -1, 3, 3)},
		{bx(-1, -1, 3, 3), geom.MultiPolygon{sq(0, 0, 2, 2), {}}},
		{geom.Polygon{{}}, sq(0, 0, 1, 1)},
		{sq(0, 0, 4, 4), geom.Polygon{{}, {{X: 1, Y: 1}, {X: 3, Y: 1}, {X: 2, Y: 3}}}},
		{geom.Polygon{{{X: 0, Y: 0}, {X: 4, Y: 0}, {X: 4, Y: 4}, {X: 0, Y: 4}}, {{X: 1, Y: 1}, {X: 3, Y: 1}, {X: 3, Y: 3}, {X: 1, Y: 3}}},
			geom.Polygon{{{X: 2, Y: 2}, {X: 6, Y: 2.5}, {X: 2.5, Y: 6}}}}, // unclosed rings, hole
	}
}

var opNames = []string{"I", "U", "D", "X"}

func gen(seed uint64, tier string) {
	out := bufio.NewWriter(os.Stdout)
	defer out.Flush()
	r := vproto.NewRng(seed)
	npairs := 500
	if tier == "thorough" {
		npairs = 18000
	}
	emit := func(a, b geom.Polygonal) {
		ta, tb := vproto.GeomToks(a), vproto.GeomToks(b)
		for _, o := range opNames {
			fmt.Fprintf(out, "op %s %s | %s\n", o, ta, tb)
		}
		fmt.Fprintf(out, "ie %s | %s\n", ta, tb)
	}
	for _, c := range corpus() {
		emit(c[0], c[1])
	}
	kinds := []string{"PG", "MPG", "B"}
	for i := 0; i < npairs; i++ {
		ka, kb := kinds[i%3], kinds[(i/3)%3]
		class := classCycle[(i/9)%len(classCycle)]
		a, b := genPair(r, ka, kb, class)
		closed := r.Intn(5) != 0
		emit(a.ToGeom(1, closed), b.ToGeom(1, closed))
	}
}

func apply(a geom.Polygonal, op string, b geom.Polygonal) geom.Polygonal {
	switch op {
	case "I":
		return a.Intersection(b)
	case "U":
		return a.Union(b)
	case "D":
		return a.Difference(b)
	default:
		return a.XOr(b)
	}
}

func area(p geom.Polygonal) float64 {
	if p == nil {
		return 0
	}
	if b, ok := p.(*geom.Bounds); ok && b == nil {
		return 0
	}
	return p.Area()
}

func impl() {
	vproto.Lines(func(line string, out *bufio.Writer) {
		defer out.Flush()
		var res string
		msg := vproto.Safe(func() {
			p := vproto.NewParser(line)
			kind := p.Next()
			op := ""
			if kind == "op" {
				op = p.Next()
			}
			a, _ := p.Geom().(geom.Polygonal)
			if p.Next() != "|" {
				panic("harness: expected |")
			}
			b, _ := p.Geom().(geom.Polygonal)
			if kind == "op" {
				res = "ok " + vproto.GeomToks(apply(a, op, b))
				return
			}
			var sb strings.Builder
			sb.WriteString("ok")
			for _, v := range []float64{area(a), area(b), area(a.Intersection(b)), area(a.Union(b)), area(a.Difference(b)), area(a.XOr(b))} {
				sb.WriteString(" " + vproto.F2H(v))
			}
			res = sb.String()
		})
		if msg != "" {
			res = "panic " + msg
		}
		fmt.Fprintf(out, "%s => %s\n", line, res)
	})
}

func main() {
	if len(os.Args) < 2 {
		fmt.Fprintln(os.Stderr, "usage: c01 gen --seed S --tier T | impl")
		os.Exit(2)
	}
	switch os.Args[1] {
	case "gen":
		seed, tier := vproto.SeedTier(os.Args[2:])
		gen(seed, tier)
	case "impl":
		impl()
	default:
		os.Exit(2)
	}
}
