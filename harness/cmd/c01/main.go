// Harness for C01 (polygon boolean operations implement point-set semantics). Subcommands:
//
//	gen --seed S --tier T   write case lines:  op <I|U|D|X> <recv geom> | <arg geom>
//	                                           ie <recv geom> | <arg geom>        (area identities)
//	impl                    read case lines, run the real code, append " => ok <result geom>" / " => panic <msg>"
package main

import (
	"bufio"
	"fmt"
	"math"
	"os"
	"runtime"
	"strings"
	"sync"
	"sync/atomic"

	"github.com/ctessum/geom"

	"verif/harness/cmd/c01/shapes"
	"verif/harness/vproto"
)

type S = shapes.Shape

func bboxOf(s S) (mn, mx shapes.Pt) {
	mn, mx, _ = s.BBox()
	return
}

// place translates b relative to a to realise the configuration class; ok=false if it gave up.
func place(r *vproto.Rng, a, b S, class int) (S, bool) {
	amn, amx := bboxOf(a)
	bmn, bmx := bboxOf(b)
	bw, bh := bmx.X-bmn.X, bmx.Y-bmn.Y
	centreIn := func() S {
		cx := int64(r.Range(int(amn.X), int(amx.X)))
		cy := int64(r.Range(int(amn.Y), int(amx.Y)))
		return b.Translate(cx-(bmn.X+bw/2), cy-(bmn.Y+bh/2))
	}
	switch class {
	case 0: // overlapping: boundaries cross
		for try := 0; try < 40; try++ {
			c := centreIn()
			if shapes.InGP(a, c) && shapes.BoundariesMeet(a, c) {
				return c, true
			}
		}
	case 1: // nested: b inside a
		for try := 0; try < 60; try++ {
			c := centreIn()
			if !shapes.BoundariesMeet(a, c) && shapes.AllInside(c, a) {
				return c, true
			}
		}
	case 2: // disjoint regions, overlapping boxes
		for try := 0; try < 60; try++ {
			c := centreIn()
			if !shapes.BoundariesMeet(a, c) && shapes.AllOutside(c, a) && shapes.AllOutside(a, c) {
				cmn, cmx := bboxOf(c)
				if cmn.X < amx.X && cmx.X > amn.X && cmn.Y < amx.Y && cmx.Y > amn.Y {
					return c, true
				}
			}
		}
	case 3: // boxes disjoint along both axes or one, far apart
		gap := int64(r.Range(1, 6))
		var dx, dy int64
		switch r.Intn(4) {
		case 0:
			dx, dy = amx.X+gap-bmn.X, amx.Y+gap-bmn.Y
		case 1:
			dx, dy = amn.X-gap-bmx.X, amn.Y-gap-bmx.Y
		case 2:
			dx, dy = amx.X+gap-bmn.X, amn.Y-gap-bmx.Y
		default:
			dx, dy = amn.X-gap-bmx.X, amx.Y+gap-bmn.Y
		}
		return b.Translate(dx, dy), true
	case 4: // separated along exactly one axis, ranges along the other overlap
		gap := int64(r.Range(1, 4))
		if r.Bool() {
			lo, hi := amn.Y-bh+1, amx.Y-1
			if hi < lo {
				hi = lo
			}
			y := int64(r.Range(int(lo), int(hi)))
			if r.Bool() {
				return b.Translate(amx.X+gap-bmn.X, y-bmn.Y), true
			}
			return b.Translate(amn.X-gap-bmx.X, y-bmn.Y), true
		}
		lo, hi := amn.X-bw+1, amx.X-1
		if hi < lo {
			hi = lo
		}
		x := int64(r.Range(int(lo), int(hi)))
		if r.Bool() {
			return b.Translate(x-bmn.X, amx.Y+gap-bmn.Y), true
		}
		return b.Translate(x-bmn.X, amn.Y-gap-bmx.Y), true
	}
	return b, false
}

// inscribedShape: a shape of the kind whose bounding box is exactly (0,0)-(w,h).
func inscribedShape(r *vproto.Rng, kind string, w, h int64) S {
	switch kind {
	case "B":
		return S{Kind: "B", Box: [2]shapes.Pt{{X: 0, Y: 0}, {X: w, Y: h}}}
	case "PG":
		return S{Kind: "PG", Polys: []shapes.Poly{shapes.AddHoles(r, shapes.Inscribed(r, w, h), r.Intn(2))}}
	}
	return S{Kind: "MPG", Polys: []shapes.Poly{shapes.AddHoles(r, shapes.Inscribed(r, w, h), r.Intn(2))}}
}

var classCycle = []int{0, 1, 2, 3, 4, 5, 0, 1, 2, 3, 4, 6}

// genVertsInside (configuration class 6): every vertex of one operand (the guest) lies strictly in
// the solid part of the other (the host), yet the guest is NOT a subset of the host: it surrounds a
// hole of the host without touching it, or its edges bridge a notch of a concave host. A test that
// looks at vertices only ("all vertices inside => nested") is wrong exactly here. The host is on even
// coordinates, the guest on odd ones (general position is re-checked anyway).
func genVertsInside(r *vproto.Rng, ka, kb string) (S, S, bool) {
	if ka == "B" && kb == "B" {
		return S{}, S{}, false
	}
	hostIsA := kb == "B" || (ka != "B" && r.Intn(4) != 0)
	hk, gk := ka, kb
	if !hostIsA {
		hk, gk = kb, ka
	}
	odd := func(lo, hi int64) int64 { // an odd number in [lo, hi] (lo when there is none)
		if hi < lo {
			return lo | 1
		}
		return int64(r.Range(int(lo), int(hi))) | 1
	}
	for try := 0; try < 20; try++ {
		var hp shapes.Poly
		switch r.Intn(3) {
		case 0:
			hp = shapes.Poly{shapes.Ortho(r, r.Range(3, 5), 6, 1)}
		case 1:
			hp = shapes.AddHoles(r, shapes.Shell(r, true), r.Range(1, 2))
			if len(hp) < 2 {
				continue
			}
		default:
			hp = shapes.AddHoles(r, shapes.Star(r, r.Range(6, 10), float64(r.Range(6, 12))), r.Intn(2))
		}
		host := S{Kind: hk, Polys: []shapes.Poly{hp}}.Scale(2, 0, 0)
		mn, mx := bboxOf(host)
		for t := 0; t < 150; t++ {
			x0 := odd(mn.X, mx.X-3)
			x1 := odd(x0+2, mx.X-1)
			y0 := odd(mn.Y, mx.Y-3)
			y1 := odd(y0+2, mx.Y-1)
			if len(host.Polys[0]) > 1 && t%2 == 0 {
				// directed: a frame around one hole of the host
				h := host.Polys[0][1+r.Intn(len(host.Polys[0])-1)]
				hs := S{Kind: "PG", Polys: []shapes.Poly{{h}}}
				hmn, hmx := bboxOf(hs)
				x0, y0 = hmn.X-int64(2*r.Range(0, 2)+1), hmn.Y-int64(2*r.Range(0, 2)+1)
				x1, y1 = hmx.X+int64(2*r.Range(0, 2)+1), hmx.Y+int64(2*r.Range(0, 2)+1)
			}
			if x1 <= x0 || y1 <= y0 {
				continue
			}
			var guest S
			if gk == "B" {
				guest = S{Kind: "B", Box: [2]shapes.Pt{{X: x0, Y: y0}, {X: x1, Y: y1}}}
			} else {
				ring := shapes.RectRing(x0, y0, x1, y1)
				if r.Intn(3) == 0 && x1-x0 >= 6 && y1-y0 >= 6 {
					in := S{Kind: "PG", Polys: []shapes.Poly{{shapes.Inscribed(r, (x1-x0)/2, (y1-y0)/2)}}}.Scale(2, x0, y0)
					ring = in.Polys[0][0]
				}
				guest = S{Kind: gk, Polys: []shapes.Poly{{ring}}}
			}
			if shapes.InGP(host, guest) && shapes.AllInside(guest, host) &&
				(shapes.BoundariesMeet(host, guest) || !shapes.AllOutside(host, guest)) {
				if hk == "MPG" && r.Bool() {
					// a second member of the host, away from everything
					w := int64(2 * r.Range(1, 3))
					host.Polys = append(host.Polys, shapes.Poly{shapes.RectRing(mx.X+2, mn.Y, mx.X+2+w, mn.Y+w)})
				}
				dx, dy := int64(r.Range(-6, 6)), int64(r.Range(-6, 6))
				host, guest = host.Translate(dx, dy), guest.Translate(dx, dy)
				if hostIsA {
					return host, guest, true
				}
				return guest, host, true
			}
		}
	}
	return S{}, S{}, false
}

func genPair(r *vproto.Rng, ka, kb string, class int) (S, S) {
	if class == 6 {
		if a, b, ok := genVertsInside(r, ka, kb); ok {
			return a, b
		}
		class = 0
	}
	if class == 5 {
		for try := 0; try < 30; try++ {
			w, h := int64(r.Range(4, 14)), int64(r.Range(4, 14))
			a, b := inscribedShape(r, ka, w, h), inscribedShape(r, kb, w, h)
			if shapes.InGP(a, b) || ka == "B" || kb == "B" {
				dx, dy := int64(r.Range(-5, 5)), int64(r.Range(-5, 5))
				return a.Translate(dx, dy), b.Translate(dx, dy)
			}
		}
		class = 0
	}
	if class == 0 && ka != "B" && kb != "B" && r.Intn(4) == 0 {
		// two rectilinear combs, one on even and one on odd coordinates: many vertical edges and
		// crossings, never a shared coordinate (general position by construction)
		mk := func(kind string) S {
			return S{Kind: kind, Polys: []shapes.Poly{{shapes.Ortho(r, r.Range(3, 6), 6, 2)}}}
		}
		a, b := mk(ka), mk(kb)
		return a, b.Translate(int64(2*r.Range(-2, 2)+1), int64(2*r.Range(-2, 2)+1))
	}
	for try := 0; try < 8; try++ {
		bigA, bigB := true, true
		swap := false
		switch class {
		case 1:
			bigB = false
			swap = r.Bool()
		case 2:
			bigB = false
			swap = r.Bool()
		case 3, 4:
			bigA, bigB = r.Bool(), r.Bool()
		}
		a, b := GenShapeK(r, ka, kb, swap, bigA, bigB)
		c, ok := place(r, a, b, class)
		if ok {
			dx, dy := int64(r.Range(-6, 6)), int64(r.Range(-6, 6))
			a, c = a.Translate(dx, dy), c.Translate(dx, dy)
			if swap {
				return c, a
			}
			return a, c
		}
	}
	a := shapes.GenShape(r, ka, true)
	b := shapes.GenShape(r, kb, true)
	c, _ := place(r, a, b, 3)
	return a, c
}

// GenShapeK generates the two shapes; with swap the roles (outer/inner) are exchanged so that the
// returned first shape is always the "outer/big" one of kind kb and the second of kind ka.
func GenShapeK(r *vproto.Rng, ka, kb string, swap, bigA, bigB bool) (S, S) {
	if swap {
		return shapes.GenShape(r, kb, bigA), shapes.GenShape(r, ka, bigB)
	}
	return shapes.GenShape(r, ka, bigA), shapes.GenShape(r, kb, bigB)
}

func sq(x0, y0, x1, y1 float64) geom.Polygon {
	return geom.Polygon{{{X: x0, Y: y0}, {X: x1, Y: y0}, {X: x1, Y: y1}, {X: x0, Y: y1}, {X: x0, Y: y0}}}
}
func bx(x0, y0, x1, y1 float64) *geom.Bounds {
	return &geom.Bounds{Min: geom.Point{X: x0, Y: y0}, Max: geom.Point{X: x1, Y: y1}}
}

func corpus() [][2]geom.Polygonal {
	unit := bx(0, 0, 1, 1)
	return [][2]geom.Polygonal{
		{sq(0, 0, 1, 1), sq(5, 5, 6, 6)},         // DESIGN 1.1: XOr of box-disjoint operands
		{bx(0, 0, 1, 1), bx(2, 0, 3, 1)},         // DESIGN 1.1: boxes separated along one axis
		{bx(0, 0, 1, 1), bx(0, 2, 1, 3)},         // ... along the other
		{unit, bx(0, 0, 1, 1)},                   // TestBounds_Intersection cases
		{unit, bx(0.5, 0.5, 1, 1)},
		{unit, bx(0.5, 0.5, 0.625, 0.625)},
		{unit, bx(0.5, 0.5, 2, 2)},
		{unit, bx(1, 1, 2, 2)},
		{unit, bx(1.5, 1.5, 2, 2)},
		{unit, bx(-1, -1, 2, 2)},
		{unit, sq(0.25, 0.25, 0.75, 0.75)},
		{unit, sq(0.5, 0.5, 2, 2)},
		{unit, sq(3, 3, 4, 4)},
		{unit, sq(3, 0.25, 4, 0.75)},
		{sq(0.25, 0.25, 0.75, 0.75), unit},
		{sq(0.5, 0.5, 2, 2), unit},
		{sq(-1, -1, 2, 2), unit},
		{unit, geom.MultiPolygon{sq(0.25, 0.25, 0.5, 0.5), sq(3, 3, 4, 4)}},
		{geom.MultiPolygon{sq(0.25, 0.25, 0.5, 0.5), sq(3, 3, 4, 4)}, bx(0.375, 0.375, 3.5, 3.5)},
		{sq(0, 0, 2, 2), sq(-1, -1, 1, 1)}, // TestPolygonOp
		{geom.MultiPolygon{sq(0, 0, 2, 2), sq(4, 0, 6, 2)}, sq(1, 1, 5, 3)},
		{geom.Polygon{}, sq(0, 0, 1, 1)}, // empty operands
		{sq(0, 0, 1, 1), geom.Polygon{}},
		{geom.MultiPolygon{}, sq(0, 0, 1, 1)},
		{sq(0, 0, 1, 1), geom.MultiPolygon{}},
		{geom.MultiPolygon{}, geom.Polygon{}},
		{unit, geom.Polygon{}},
		{unit, geom.MultiPolygon{{}}},
		{unit, geom.MultiPolygon{}}, // Bounds() of a multi-polygon without members
		{geom.MultiPolygon{}, unit},
		{geom.MultiPolygon{{}, sq(0, 0, 2, 2)}, sq(1, 1, 3, 3)},
		{geom.MultiPolygon{{}, sq(0, 0, 2, 2)}, bx(-1, -1, 3, 3)},
		{bx(-1, -1, 3, 3), geom.MultiPolygon{sq(0, 0, 2, 2), {}}},
		{sq(0, 0, 2, 2), geom.MultiPolygon{{}, sq(1, 1, 3, 3)}}, // an empty member BEFORE a non-empty one in the argument
		{bx(-1, -1, 3, 3), geom.MultiPolygon{{}, sq(0, 0, 2, 2)}},
		{bx(0, 0, 2, 2), geom.MultiPolygon{{}, sq(1, 1, 3, 3), {}}},
		{geom.MultiPolygon{sq(0, 0, 2, 2)}, geom.MultiPolygon{sq(5, 5, 6, 6), {}, sq(1, 1, 3, 3)}},
		{geom.Polygon{{}}, sq(0, 0, 1, 1)},
		{sq(0, 0, 4, 4), geom.Polygon{{}, {{X: 1, Y: 1}, {X: 3, Y: 1}, {X: 2, Y: 3}}}},
		{geom.Polygon{{{X: 0, Y: 0}, {X: 4, Y: 0}, {X: 4, Y: 4}, {X: 0, Y: 4}}, {{X: 1, Y: 1}, {X: 3, Y: 1}, {X: 3, Y: 3}, {X: 1, Y: 3}}},
			geom.Polygon{{{X: 2, Y: 2}, {X: 6, Y: 2.5}, {X: 2.5, Y: 6}}}}, // unclosed rings, hole
		// every vertex of the argument in the solid part of the receiver, the argument not a subset:
		// it surrounds the receiver's hole / bridges the notch of a U (seeded C01-f2)
		{geom.Polygon{sq(0, 0, 10, 10)[0], sq(4, 4, 6, 6)[0]}, sq(2, 2, 8, 8)},
		{geom.Polygon{sq(0, 0, 10, 10)[0], sq(4, 4, 6, 6)[0]}, sq(1, 1, 3, 3)}, // control: really nested
		{uShape(), sq(1, 5, 9, 8)},
		{geom.MultiPolygon{uShape()}, sq(1, 5, 9, 8)},
		{uShape(), geom.MultiPolygon{sq(1, 5, 9, 8)}},
		{uShape(), bx(1, 5, 9, 8)},
		{sq(1, 5, 9, 8), uShape()},
		{bx(2, 2, 8, 8), geom.Polygon{sq(0, 0, 10, 10)[0], sq(4, 4, 6, 6)[0]}},
		{geom.Polygon{sq(0, 0, 10, 10)[0], sq(4, 4, 6, 6)[0]}, geom.Polygon{sq(2, 2, 8, 8)[0], sq(4.5, 4.5, 5.5, 5.5)[0]}},
	}
}

// uShape: a U whose notch is 3 < x < 7, y > 3
func uShape() geom.Polygon {
	return geom.Polygon{{{X: 0, Y: 0}, {X: 10, Y: 0}, {X: 10, Y: 10}, {X: 7, Y: 10}, {X: 7, Y: 3},
		{X: 3, Y: 3}, {X: 3, Y: 10}, {X: 0, Y: 10}, {X: 0, Y: 0}}}
}

var opNames = []string{"I", "U", "D", "X"}

func gen(seed uint64, tier string) {
	out := bufio.NewWriter(os.Stdout)
	defer out.Flush()
	r := vproto.NewRng(seed)
	npairs := 500
	if tier == "thorough" {
		npairs = 12000
	}
	emit := func(a, b geom.Polygonal) {
		ta, tb := vproto.GeomToks(a), vproto.GeomToks(b)
		for _, o := range opNames {
			fmt.Fprintf(out, "op %s %s | %s\n", o, ta, tb)
		}
		fmt.Fprintf(out, "ie %s | %s\n", ta, tb)
	}
	for _, c := range corpus() {
		emit(c[0], c[1])
	}
	// absolute thresholds: the same figures at small coordinate scales (3e-5 "degree" squares etc.)
	for _, k := range []int{-15, -20, -30} {
		u := math.Ldexp(1, k)
		emit(sq(0, 0, 2*u, 2*u), sq(u, u, 3*u, 3*u))                           // small A overlapping small B
		emit(sq(0, 0, 4, 4), sq(1, 1, 1+u, 1+u))                               // small B nested in large A
		emit(bx(0, 0, 4, 4), geom.MultiPolygon{sq(1, 1, 1+u, 1+u), sq(2, 2, 3, 3)}) // a small member
		emit(geom.Polygon{sq(0, 0, 4, 4)[0], sq(1, 1, 1+u, 1+u)[0]}, bx(0.5, 0.5, 3, 3)) // a small hole
		emit(shapes.ScaleGeom(sq(0, 0, 2, 2), u).(geom.Polygon), shapes.ScaleGeom(sq(-1, -1, 1, 1), u).(geom.Polygon))
	}
	// size thresholds: vertex / ring / member counts beyond 64, 128, 1024
	for i, c := range bigCases(tier == "thorough") {
		if tier == "thorough" {
			emit(c[0], c[1])
			continue
		}
		fmt.Fprintf(out, "op %s %s | %s\n", opNames[(i+int(seed))%4], vproto.GeomToks(c[0]), vproto.GeomToks(c[1]))
	}
	// a result ring longer than 128 (thorough: 1024) vertices: the comb with a bite out of its corner
	for _, o := range []string{"D", "U", "X"} {
		fmt.Fprintf(out, "op %s %s | %s\n", o, vproto.GeomToks(bigCases(tier == "thorough")[0][0]), vproto.GeomToks(bx(-1.5, -1.5, 0.5, 0.5)))
	}
	kinds := []string{"PG", "MPG", "B"}
	for i := 0; i < npairs; i++ {
		ka, kb := kinds[i%3], kinds[(i/3)%3]
		class := classCycle[(i/9)%len(classCycle)]
		a, b := genPair(r, ka, kb, class)
		closed := r.Intn(5) != 0
		f := scaleFor(r)
		ga := withEmptyMember(r, shapes.ScaleGeom(a.ToGeom(1, closed), f).(geom.Polygonal))
		gb := withEmptyMember(r, shapes.ScaleGeom(b.ToGeom(1, closed), f).(geom.Polygonal))
		// an operand without any contour (four spellings), either role, against closed and unclosed rings:
		// the paths that never reach the sweep (tables, shortcuts) must still return closed rings
		if i%25 == 7 {
			var e geom.Polygonal
			switch (i / 25) % 4 {
			case 0:
				e = geom.Polygon{}
			case 1:
				e = geom.MultiPolygon{}
			case 2:
				e = geom.MultiPolygon{geom.Polygon{}}
			default:
				e = geom.Polygon(nil)
			}
			if (i/100)%2 == 0 {
				gb = e
			} else {
				ga = e
			}
		}
		emit(ga, gb)
	}
	// bounding boxes that share exactly ONE corner, neither within the other (what a corner-wise box
	// comparison of the *Bounds shortcuts can confuse with "equal" / "within"): a box against a triangle
	// whose box has the same Min (or Max) corner but reaches beyond it; no vertex on an edge of the other
	for k := 0; k < npairs/40+4; k++ {
		x0, y0 := float64(r.Range(-5, 5)), float64(r.Range(-5, 5))
		w, h := float64(r.Range(2, 6)), float64(r.Range(2, 6))
		a, b2, c, d := float64(r.Range(1, 4)), float64(r.Range(1, 4)), float64(r.Range(1, 5)), float64(r.Range(1, 5))
		// (a*b2 < w*h: the triangle cuts the far corner of the box off; otherwise it misses the box)
		x1, y1 := x0+w, y0+h
		var tri geom.Polygon
		if k%2 == 0 {
			tri = geom.Polygon{{{X: x0, Y: y1 + a}, {X: x1 + b2, Y: y0}, {X: x1 + c, Y: y1 + d}, {X: x0, Y: y1 + a}}}
		} else {
			tri = geom.Polygon{{{X: x1, Y: y0 - a}, {X: x0 - b2, Y: y1}, {X: x0 - c, Y: y0 - d}, {X: x1, Y: y0 - a}}}
		}
		f := scaleFor(r)
		box := shapes.ScaleGeom(bx(x0, y0, x1, y1), f).(geom.Polygonal)
		var other geom.Polygonal = shapes.ScaleGeom(tri, f).(geom.Polygonal)
		if k%4 >= 2 {
			other = geom.MultiPolygon{other.(geom.Polygon)}
		}
		if k%5 == 4 {
			emit(other, box)
		} else {
			emit(box, other)
		}
	}
	// histories: the SAME two operand objects, their coordinates overwritten in place between calls
	for h := 0; h < npairs/25; h++ {
		ka, kb := kinds[h%3], kinds[(h/3)%3]
		a := shapes.GenShape(r, ka, true)
		b := shapes.GenShape(r, kb, h%2 == 0)
		closed := r.Intn(5) != 0
		steps := r.Range(2, 3)
		var sb strings.Builder
		for k := 0; k < steps; k++ {
			c, ok := place(r, a, b, r.Intn(5))
			if !ok {
				c, _ = place(r, a, b, 3)
			}
			m := int64(r.Range(1, 3))
			dx, dy := int64(r.Range(-6, 6)), int64(r.Range(-6, 6))
			ak, ck := a.Scale(m, dx, dy), c.Scale(m, dx, dy)
			if k > 0 {
				sb.WriteString(" ;;")
			}
			fmt.Fprintf(&sb, " %s | %s", vproto.GeomToks(ak.ToGeom(1, closed)), vproto.GeomToks(ck.ToGeom(1, closed)))
		}
		for _, o := range opNames {
			fmt.Fprintf(out, "hop %s%s\n", o, sb.String())
		}
	}
	// concurrency: the operations are pure functions of their operands, so the answer must not depend
	// on what other goroutines compute at the same time. `cc` lines: the case is computed by several
	// goroutines (each on its own deep copy of the operands) while others run the four operations on
	// unrelated far-away operands; every answer must be the sequential one, which the oracle judges.
	ncc := npairs / 5
	if ncc > 300 {
		ncc = 300
	}
	for h := 0; h < ncc; h++ {
		ka, kb := kinds[h%3], kinds[(h/3)%3]
		a, b := genPair(r, ka, kb, classCycle[(h/9)%len(classCycle)])
		closed := r.Intn(5) != 0
		fmt.Fprintf(out, "cc %s %s | %s\n", opNames[h%4], vproto.GeomToks(a.ToGeom(1, closed)), vproto.GeomToks(b.ToGeom(1, closed)))
	}
	for _, c := range corpus()[:3] {
		for _, o := range opNames {
			fmt.Fprintf(out, "cc %s %s | %s\n", o, vproto.GeomToks(c[0]), vproto.GeomToks(c[1]))
		}
	}
}

// withEmptyMember: one multi-polygon in eight gets a member polygon without rings at a random
// position (a valid operand: it contributes no point).
func withEmptyMember(r *vproto.Rng, g geom.Polygonal) geom.Polygonal {
	mp, ok := g.(geom.MultiPolygon)
	if !ok || r.Intn(8) != 0 {
		return g
	}
	k := r.Intn(len(mp) + 1)
	o := make(geom.MultiPolygon, 0, len(mp)+1)
	o = append(o, mp[:k]...)
	o = append(o, geom.Polygon{})
	o = append(o, mp[k:]...)
	return o
}

func scaleFor(r *vproto.Rng) float64 {
	switch r.Intn(10) {
	case 0:
		return math.Ldexp(1, -20)
	case 1:
		return math.Ldexp(1, -24)
	case 2:
		return math.Ldexp(1, -30)
	case 3:
		return math.Ldexp(1, 20)
	}
	return 1
}

// bigCases: a comb of 1042 vertices, a polygon with 70 holes, a multi-polygon of 130 members
// (thorough tier; the quick tier uses 262 vertices, 35 holes, 66 members), each against an operand
// that overlaps part of it.
func bigCases(full bool) [][2]geom.Polygonal {
	comb := geom.Path{{X: 0, Y: 0}}
	cols, nholes, nmem := 130, 35, 66
	if full {
		cols, nholes, nmem = 520, 70, 130
	}
	var top []geom.Point
	for c := 0; c < cols; c++ {
		h := 6.0
		if c%2 == 1 {
			h = 2
		}
		top = append(top, geom.Point{X: float64(c), Y: h}, geom.Point{X: float64(c + 1), Y: h})
	}
	comb = append(comb, geom.Point{X: float64(cols), Y: 0})
	for i := len(top) - 1; i >= 0; i-- {
		comb = append(comb, top[i])
	}
	comb = append(comb, comb[0])
	holes := geom.Polygon{sq(0, 0, 211, 5)[0]}
	for i := 0; i < nholes; i++ {
		holes = append(holes, sq(1+3*float64(i), 1, 3+3*float64(i), 3)[0])
	}
	var many geom.MultiPolygon
	for i := 0; i < nmem; i++ {
		many = append(many, sq(3*float64(i), 0, 3*float64(i)+2, 2))
	}
	return [][2]geom.Polygonal{
		{geom.Polygon{comb}, bx(20.5, 3.5, 100.25, 7.5)},
		{holes, geom.Polygon{{{X: 10.5, Y: -1.5}, {X: 90.5, Y: 1.75}, {X: 90.5, Y: 7.5}, {X: 10.5, Y: 2.25}}}},
		{many, bx(10.5, 0.5, 150.5, 1.5)},
		{bx(10.5, 0.5, 150.5, 1.5), many},
	}
}

func apply(a geom.Polygonal, op string, b geom.Polygonal) geom.Polygonal {
	switch op {
	case "I":
		return a.Intersection(b)
	case "U":
		return a.Union(b)
	case "D":
		return a.Difference(b)
	default:
		return a.XOr(b)
	}
}

func area(p geom.Polygonal) float64 {
	if p == nil {
		return 0
	}
	if b, ok := p.(*geom.Bounds); ok && b == nil {
		return 0
	}
	return p.Area()
}

// withinProbe asks the LIBRARY whether points lie in a result ("Point.Within on results" is one of the
// property's observation points): two points beside the midpoint of every edge of the result and of
// both operands and the centroid of the first three vertices of every result ring (thinned to at
// most probeCap points), each followed by the answer of geom.Point.Within(result): 0 Outside,
// 1 Inside, 2 OnEdge. The judge compares the answers with the truth table of the operation at the
// points that keep a clear margin from every input edge. Format: ` pw <n> (<xbits> <ybits> <answer>)*`.
const probeCap = 96

func withinProbe(res, a, b geom.Polygonal) string {
	if res == nil {
		return ""
	}
	if bb, ok := res.(*geom.Bounds); ok && bb == nil {
		return ""
	}
	var pts []geom.Point
	side := func(g geom.Polygonal, centroids bool) {
		if g == nil {
			return
		}
		if bb, ok := g.(*geom.Bounds); ok && bb == nil {
			return
		}
		for _, pg := range g.Polygons() {
			for _, ring := range pg {
				n := len(ring)
				if centroids && n >= 3 {
					pts = append(pts, geom.Point{X: (ring[0].X + ring[1].X + ring[2].X) / 3, Y: (ring[0].Y + ring[1].Y + ring[2].Y) / 3})
				}
				for i := 0; i < n; i++ {
					p, q := ring[i], ring[(i+1)%n]
					if p == q {
						continue
					}
					mx, my := (p.X+q.X)/2, (p.Y+q.Y)/2
					nx, ny := (q.Y-p.Y)/16, (p.X-q.X)/16
					pts = append(pts, geom.Point{X: mx + nx, Y: my + ny}, geom.Point{X: mx - nx, Y: my - ny})
				}
			}
		}
	}
	side(res, true)
	nres := len(pts)
	side(a, false)
	side(b, false)
	// thin: the result's points first (evenly spread over ALL its rings), then the operands'
	pick := func(l []geom.Point, cap int) []geom.Point {
		if len(l) <= cap {
			return l
		}
		k := (len(l) + cap - 1) / cap
		var o []geom.Point
		for i := 0; i < len(l); i += k {
			o = append(o, l[i])
		}
		return o
	}
	sel := append(pick(pts[:nres:nres], probeCap*2/3), pick(pts[nres:], probeCap/3)...)
	var sb strings.Builder
	fmt.Fprintf(&sb, " pw %d", len(sel))
	for _, p := range sel {
		if math.IsNaN(p.X) || math.IsNaN(p.Y) || math.IsInf(p.X, 0) || math.IsInf(p.Y, 0) {
			p = geom.Point{}
		}
		fmt.Fprintf(&sb, " %s %s %d", vproto.F2H(p.X), vproto.F2H(p.Y), int(p.Within(res)))
	}
	return sb.String()
}

// cellAnswers asks the library geom.Point.Within(result) at every point handed over by the lean:prep
// stage, in order: ` cw <n> <one digit per point: 0 Outside, 1 Inside, 2 OnEdge>`. Nothing for a nil result.
func cellAnswers(res geom.Polygonal, cells []geom.Point) string {
	if res == nil || len(cells) == 0 {
		return ""
	}
	if bb, ok := res.(*geom.Bounds); ok && bb == nil {
		return ""
	}
	d := make([]byte, len(cells))
	for i, c := range cells {
		d[i] = byte('0' + int(c.Within(res)))
	}
	return fmt.Sprintf(" cw %d %s", len(cells), d)
}

func toks2(a, b geom.Polygonal) string { return vproto.GeomToks(a) + "|" + vproto.GeomToks(b) }

func impl() {
	vproto.Lines(func(line string, out *bufio.Writer) {
		defer out.Flush()
		var res string
		msg := vproto.Safe(func() {
			p := vproto.NewParser(line)
			kind := p.Next()
			op := ""
			if kind == "op" || kind == "opx" || kind == "hop" || kind == "cc" {
				op = p.Next()
			}
			if kind == "hop" {
				// both operand objects of the first call are kept and overwritten in place for the
				// following calls; all results are serialised only after the last call
				var ha, hb geom.Polygonal
				var results []geom.Polygonal
				var same []bool
				var opnds [][2]geom.Polygonal
				for {
					a, _ := p.Geom().(geom.Polygonal)
					if p.Next() != "|" {
						panic("harness: expected |")
					}
					b, _ := p.Geom().(geom.Polygonal)
					if ha == nil {
						ha, hb = shapes.Flat(a), shapes.Flat(b)
					} else {
						ha, hb = shapes.CopyInto(ha, a), shapes.CopyInto(hb, b)
					}
					before := toks2(ha, hb)
					res := apply(ha, op, hb)
					ok := before == toks2(ha, hb)
					// a result that IS an operand (the *Bounds shortcuts return their argument) would
					// change with the next in-place overwrite: freeze it now
					results = append(results, freeze(res))
					same = append(same, ok)
					opnds = append(opnds, [2]geom.Polygonal{freeze(ha), freeze(hb)})
					if p.Done() {
						break
					}
					if p.Next() != ";;" {
						panic("harness: expected ;;")
					}
				}
				var sb strings.Builder
				for i, r := range results {
					if i > 0 {
						sb.WriteString(" ;; ")
					}
					if !same[i] {
						sb.WriteString("mutated")
					} else {
						// the library is asked about the kept results only now, after all the calls
						sb.WriteString("ok " + vproto.GeomToks(r) + withinProbe(r, opnds[i][0], opnds[i][1]))
					}
				}
				res = sb.String()
				return
			}
			a, _ := p.Geom().(geom.Polygonal)
			if p.Next() != "|" {
				panic("harness: expected |")
			}
			b, _ := p.Geom().(geom.Polygonal)
			if kind == "cc" {
				res = concurrent(a, op, b)
				if strings.HasPrefix(res, "ok ") {
					if g, ok := vproto.NewParser(res[3:]).Geom().(geom.Polygonal); ok {
						res += withinProbe(g, a, b)
					}
				}
				return
			}
			// ` ## <n> (<xbits> <ybits>)*`: the sample points of ALL cells of the operands' arrangement,
			// appended by the lean:prep stage (lean/GeomV/C01/Prep.lean, theorem C01_cells_asked)
			var cells []geom.Point
			if (kind == "op" || kind == "opx") && !p.Done() {
				if p.Next() != "##" {
					panic("harness: expected ##")
				}
				n := p.Int()
				for i := 0; i < n; i++ {
					cells = append(cells, p.Pt())
				}
			}
			a, b = shapes.Flat(a), shapes.Flat(b)
			before := toks2(a, b)
			if kind == "op" || kind == "opx" {
				r := apply(a, op, b)
				if before != toks2(a, b) {
					res = "mutated"
					return
				}
				res = "ok " + vproto.GeomToks(r) + withinProbe(r, a, b) + cellAnswers(r, cells)
				// Area() of the result as the library computes it (judged against the exact area of the
				// result's point set when the area certificate accepts its rings: C01_area_certificate)
				if rr, isPoly := r.(geom.Polygon); isPoly {
					ar := rr.Area()
					if before != toks2(a, b) {
						res = "mutated by-Area-of-the-result"
						return
					}
					res += " ar " + vproto.F2H(ar)
				}
				return
			}
			var sb strings.Builder
			sb.WriteString("ok")
			// Area() of the operands first, then of the four results; the operands are compared with the
			// snapshot after the Area calls and again at the end (Area and the operations are read-only)
			aa, ab := area(a), area(b)
			if before != toks2(a, b) {
				res = "mutated by-Area"
				return
			}
			for _, v := range []float64{aa, ab, area(a.Intersection(b)), area(a.Union(b)), area(a.Difference(b)), area(a.XOr(b))} {
				sb.WriteString(" " + vproto.F2H(v))
			}
			if before != toks2(a, b) {
				res = "mutated"
				return
			}
			res = sb.String()
		})
		if msg != "" {
			res = "panic " + msg
		}
		fmt.Fprintf(out, "%s => %s\n", line, res)
	})
}

// concurrent computes a.op(b) once on its own (the reference answer), then ccVictims goroutines
// compute it ccRounds times each on their own deep copies of the operands while ccNoise goroutines
// run all four operations on unrelated operands far away. The first answer that is not bit for bit
// the reference answer is returned (for the oracle to judge), otherwise the reference answer.
const (
	ccVictims = 8
	ccNoise   = 8
	ccRounds  = 80
)

func concurrent(a geom.Polygonal, op string, b geom.Polygonal) string {
	if runtime.GOMAXPROCS(0) < 4 {
		runtime.GOMAXPROCS(4)
	}
	ref := "ok " + vproto.GeomToks(apply(shapes.Flat(a), op, shapes.Flat(b)))
	var stop int32
	var mu sync.Mutex
	bad := ""
	report := func(s string) {
		mu.Lock()
		if bad == "" {
			bad = s
		}
		mu.Unlock()
		atomic.StoreInt32(&stop, 1)
	}
	var noise, victims sync.WaitGroup
	for i := 0; i < ccNoise; i++ {
		noise.Add(1)
		go func(i int) {
			defer noise.Done()
			defer func() {
				if e := recover(); e != nil {
					report(fmt.Sprintf("panic in a concurrent call on unrelated operands: %v", e))
				}
			}()
			x := 1e6 + 10*float64(i)
			var na, nb geom.Polygonal = sq(x, 1e6, x+4, 1e6+4), sq(x+2, 1e6+1, x+5, 1e6+3)
			if i%2 == 1 {
				nb = geom.MultiPolygon{sq(x+2, 1e6+1, x+5, 1e6+3)}
			}
			for atomic.LoadInt32(&stop) == 0 {
				for _, o := range opNames {
					apply(na, o, nb)
				}
			}
		}(i)
	}
	for i := 0; i < ccVictims; i++ {
		victims.Add(1)
		go func() {
			defer victims.Done()
			defer func() {
				if e := recover(); e != nil {
					report(fmt.Sprintf("panic %v", e))
				}
			}()
			va, vb := shapes.Flat(a), shapes.Flat(b)
			before := toks2(va, vb)
			for k := 0; k < ccRounds && atomic.LoadInt32(&stop) == 0; k++ {
				got := "ok " + vproto.GeomToks(apply(va, op, vb))
				if toks2(va, vb) != before {
					report("mutated")
					return
				}
				if got != ref {
					report(got)
					return
				}
			}
		}()
	}
	victims.Wait()
	atomic.StoreInt32(&stop, 1)
	noise.Wait()
	if bad != "" {
		return bad
	}
	return ref
}

// freeze returns a deep copy of a result (so that a result which is one of the operand objects
// keeps the value it had when it was returned).
func freeze(g geom.Polygonal) geom.Polygonal {
	if g == nil {
		return nil
	}
	if b, ok := g.(*geom.Bounds); ok && b == nil {
		return g
	}
	return shapes.ScaleGeom(g, 1).(geom.Polygonal)
}

func main() {
	if len(os.Args) < 2 {
		fmt.Fprintln(os.Stderr, "usage: c01 gen --seed S --tier T | impl")
		os.Exit(2)
	}
	switch os.Args[1] {
	case "gen":
		seed, tier := vproto.SeedTier(os.Args[2:])
		gen(seed, tier)
	case "impl":
		impl()
	case "extract":
		repo := "/repo"
		for i, a := range os.Args {
			if a == "--repo" && i+1 < len(os.Args) {
				repo = os.Args[i+1]
			}
		}
		os.Exit(extract(repo))
	default:
		os.Exit(2)
	}
}
