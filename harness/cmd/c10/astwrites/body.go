package main

// Second output of astwrites (`astwrites <repo>/proj bodies`): for every projection constructor the SLICE of
// its body that decides what it writes to the *SR and which error it returns, as a term of the little
// language GeomV.C10.IR (lean/GeomV/C10/CtorIR.lean).  The Lean side interprets that term and the tie
// theorems `tie_body_<Ctor>` prove it equal to the hand-written model `initP` for every SR and every float
// semantics — so the VALUES and CONDITIONS of the model are re-extracted from the source on every run too.
//
// Slice (flow-insensitive, computed to a fixed point, function literals never entered):
//   - every assignment to `this.F`, every assignment to `err`, every `return`, every statement that hands
//     `this` to a call or calls a method on it;
//   - every if/for/switch/block that contains such a statement, with its condition;
//   - every assignment to a local variable that one of the kept expressions reads.
// Anything the language has no form for is emitted as `.other "<source>"`, which the interpreter rejects —
// the tie then fails to build (never a silent pass).

import (
	"bytes"
	"fmt"
	"go/ast"
	"go/printer"
	"go/token"
	"sort"
	"strings"
)

type slicer struct {
	fset   *token.FileSet
	recv   string
	locals map[string]bool // identifiers declared inside the function (params, results, :=, var)
	relVar map[string]bool // locals read by kept expressions
}

func (s *slicer) src(n ast.Node) string {
	var b bytes.Buffer
	printer.Fprint(&b, s.fset, n)
	return strings.Join(strings.Fields(b.String()), " ")
}

func q(x string) string { return fmt.Sprintf("%q", x) }

// collectLocals records every identifier the function declares outside function literals.
func (s *slicer) collectLocals(fd *ast.FuncDecl) {
	add := func(fl *ast.FieldList) {
		if fl == nil {
			return
		}
		for _, f := range fl.List {
			for _, n := range f.Names {
				s.locals[n.Name] = true
			}
		}
	}
	add(fd.Type.Params)
	add(fd.Type.Results)
	ast.Inspect(fd.Body, func(n ast.Node) bool {
		switch t := n.(type) {
		case *ast.FuncLit:
			return false
		case *ast.AssignStmt:
			if t.Tok == token.DEFINE {
				for _, l := range t.Lhs {
					if id, ok := l.(*ast.Ident); ok {
						s.locals[id.Name] = true
					}
				}
			}
		case *ast.ValueSpec:
			for _, n := range t.Names {
				s.locals[n.Name] = true
			}
		case *ast.RangeStmt:
			for _, e := range []ast.Expr{t.Key, t.Value} {
				if id, ok := e.(*ast.Ident); ok {
					s.locals[id.Name] = true
				}
			}
		}
		return true
	})
}

// constDecls: identifiers declared by `const` inside the function are not variables
func constNames(fd *ast.FuncDecl) map[string]bool {
	m := map[string]bool{}
	ast.Inspect(fd.Body, func(n ast.Node) bool {
		if _, ok := n.(*ast.FuncLit); ok {
			return false
		}
		if g, ok := n.(*ast.GenDecl); ok && g.Tok == token.CONST {
			for _, sp := range g.Specs {
				for _, n := range sp.(*ast.ValueSpec).Names {
					m[n.Name] = true
				}
			}
		}
		return true
	})
	return m
}

func (s *slicer) usesRecv(e ast.Node) bool {
	found := false
	ast.Inspect(e, func(n ast.Node) bool {
		if _, ok := n.(*ast.FuncLit); ok {
			return false
		}
		if c, ok := n.(*ast.CallExpr); ok {
			for _, a := range c.Args {
				if id, ok := a.(*ast.Ident); ok && id.Name == s.recv {
					found = true
				}
			}
			if sel, ok := c.Fun.(*ast.SelectorExpr); ok {
				if id, ok := sel.X.(*ast.Ident); ok && id.Name == s.recv {
					found = true
				}
			}
		}
		return true
	})
	return found
}

// readVars adds the locals read by e to relVar; reports whether the set grew.
func (s *slicer) readVars(e ast.Node) bool {
	grew := false
	if e == nil {
		return false
	}
	ast.Inspect(e, func(n ast.Node) bool {
		switch t := n.(type) {
		case *ast.FuncLit:
			return false
		case *ast.SelectorExpr:
			// this.F: not a local read; pkg.Name: neither
			if id, ok := t.X.(*ast.Ident); ok && (id.Name == s.recv || !s.locals[id.Name]) {
				return false
			}
		case *ast.Ident:
			if s.locals[t.Name] && t.Name != s.recv && !s.relVar[t.Name] {
				s.relVar[t.Name] = true
				grew = true
			}
		}
		return true
	})
	return grew
}

func (s *slicer) lhsRelevant(l ast.Expr) bool {
	if _, ok := field(l, s.recv); ok {
		return true
	}
	if id, ok := l.(*ast.Ident); ok {
		return id.Name == "err" || s.relVar[id.Name]
	}
	// this.F[i] = …, this.F.G = …, *p = …: anything rooted in the receiver
	root := l
	for {
		switch t := root.(type) {
		case *ast.SelectorExpr:
			root = t.X
			continue
		case *ast.IndexExpr:
			root = t.X
			continue
		case *ast.StarExpr:
			root = t.X
			continue
		case *ast.ParenExpr:
			root = t.X
			continue
		}
		break
	}
	if id, ok := root.(*ast.Ident); ok && id.Name == s.recv {
		return true
	}
	return false
}

// relevant decides whether a statement belongs to the slice (given the current relVar).
func (s *slicer) relevant(st ast.Stmt) bool {
	switch t := st.(type) {
	case nil:
		return false
	case *ast.ReturnStmt:
		return true
	case *ast.AssignStmt:
		for _, l := range t.Lhs {
			if s.lhsRelevant(l) {
				return true
			}
		}
		return s.usesRecv(t)
	case *ast.IncDecStmt:
		return s.lhsRelevant(t.X)
	case *ast.DeclStmt:
		g, ok := t.Decl.(*ast.GenDecl)
		if !ok || g.Tok != token.VAR {
			return false
		}
		for _, sp := range g.Specs {
			vs := sp.(*ast.ValueSpec)
			for _, n := range vs.Names {
				if n.Name == "err" || s.relVar[n.Name] {
					return true
				}
			}
			if s.usesRecv(vs) {
				return true
			}
		}
		return false
	case *ast.ExprStmt:
		return s.usesRecv(t)
	case *ast.BlockStmt:
		for _, x := range t.List {
			if s.relevant(x) {
				return true
			}
		}
		return false
	case *ast.IfStmt:
		return s.relevant(t.Init) || s.relevant(t.Body) || s.relevant(t.Else)
	case *ast.ForStmt:
		return s.relevant(t.Init) || s.relevant(t.Post) || s.relevant(t.Body)
	case *ast.RangeStmt:
		return s.relevant(t.Body)
	case *ast.SwitchStmt:
		return s.relevant(t.Body)
	case *ast.TypeSwitchStmt:
		return s.relevant(t.Body)
	case *ast.CaseClause:
		for _, x := range t.Body {
			if s.relevant(x) {
				return true
			}
		}
		return false
	case *ast.LabeledStmt:
		return s.relevant(t.Stmt)
	case *ast.DeferStmt, *ast.GoStmt:
		return true // would run code we do not follow
	case *ast.BranchStmt:
		return true // break/continue/goto change which writes happen
	}
	return false
}

// grow adds the variables read by the kept parts of st; reports whether relVar grew.
func (s *slicer) grow(st ast.Stmt) bool {
	if st == nil || !s.relevant(st) {
		return false
	}
	g := false
	switch t := st.(type) {
	case *ast.AssignStmt:
		for _, r := range t.Rhs {
			g = s.readVars(r) || g
		}
		for _, l := range t.Lhs {
			if _, ok := l.(*ast.Ident); !ok {
				g = s.readVars(l) || g // index expressions etc.
			}
		}
		if t.Tok != token.ASSIGN && t.Tok != token.DEFINE {
			for _, l := range t.Lhs {
				g = s.readVars(l) || g
			}
		}
	case *ast.DeclStmt:
		g = s.readVars(t) || g
	case *ast.ReturnStmt:
		// results that are function literals / plain identifiers carry no SR state; an error built from
		// fields does not change whether there IS an error
	case *ast.ExprStmt:
		g = s.readVars(t.X) || g
	case *ast.BlockStmt:
		for _, x := range t.List {
			g = s.grow(x) || g
		}
	case *ast.IfStmt:
		g = s.grow(t.Init) || g
		g = s.readVars(t.Cond) || g
		g = s.grow(t.Body) || g
		g = s.grow(t.Else) || g
	default:
		g = s.readVars(st) || g
	}
	return g
}

// ---- expressions ---------------------------------------------------------------------------------

func constOnly(e ast.Expr) bool {
	switch t := e.(type) {
	case *ast.BasicLit:
		return true
	case *ast.ParenExpr:
		return constOnly(t.X)
	case *ast.UnaryExpr:
		return constOnly(t.X)
	case *ast.BinaryExpr:
		return constOnly(t.X) && constOnly(t.Y)
	}
	return false
}

func (s *slicer) expr(e ast.Expr) string {
	if constOnly(e) {
		x := e
		for {
			if p, ok := x.(*ast.ParenExpr); ok {
				x = p.X
				continue
			}
			break
		}
		return ".cst " + q(s.src(x))
	}
	switch t := e.(type) {
	case *ast.ParenExpr:
		return s.expr(t.X)
	case *ast.Ident:
		if s.locals[t.Name] && t.Name != s.recv {
			return ".loc " + q(t.Name)
		}
		return ".cst " + q(t.Name)
	case *ast.SelectorExpr:
		if f, ok := field(t, s.recv); ok {
			return ".fld " + q(f)
		}
		if id, ok := t.X.(*ast.Ident); ok && !s.locals[id.Name] {
			return ".cst " + q(id.Name+"."+t.Sel.Name) // math.Pi
		}
	case *ast.UnaryExpr:
		return fmt.Sprintf(".un %s (%s)", q(t.Op.String()), s.expr(t.X))
	case *ast.BinaryExpr:
		return fmt.Sprintf(".bin %s (%s) (%s)", q(t.Op.String()), s.expr(t.X), s.expr(t.Y))
	case *ast.CallExpr:
		name := ""
		switch f := t.Fun.(type) {
		case *ast.Ident:
			if !s.locals[f.Name] {
				name = f.Name
			}
		case *ast.SelectorExpr:
			if id, ok := f.X.(*ast.Ident); ok && !s.locals[id.Name] && id.Name != s.recv {
				name = id.Name + "." + f.Sel.Name
			}
		}
		if name != "" && !t.Ellipsis.IsValid() {
			switch len(t.Args) {
			case 1:
				return fmt.Sprintf(".call1 %s (%s)", q(name), s.expr(t.Args[0]))
			case 2:
				return fmt.Sprintf(".call2 %s (%s) (%s)", q(name), s.expr(t.Args[0]), s.expr(t.Args[1]))
			}
		}
	}
	return ".other " + q(s.src(e))
}

// ---- statements ----------------------------------------------------------------------------------

// errorfFormat returns the format string when e is fmt.Errorf("…", …)
func errorfFormat(e ast.Expr) (string, bool) {
	c, ok := e.(*ast.CallExpr)
	if !ok || len(c.Args) == 0 {
		return "", false
	}
	sel, ok := c.Fun.(*ast.SelectorExpr)
	if !ok {
		return "", false
	}
	if id, ok := sel.X.(*ast.Ident); !ok || !(id.Name == "fmt" && sel.Sel.Name == "Errorf" || id.Name == "errors" && sel.Sel.Name == "New") {
		return "", false
	}
	// the format may be a concatenation of literals
	var lit func(e ast.Expr) (string, bool)
	lit = func(e ast.Expr) (string, bool) {
		switch t := e.(type) {
		case *ast.BasicLit:
			if t.Kind == token.STRING {
				return strings.Trim(t.Value, "\"`"), true
			}
		case *ast.BinaryExpr:
			a, ok1 := lit(t.X)
			b, ok2 := lit(t.Y)
			return a + b, ok1 && ok2 && t.Op == token.ADD
		case *ast.ParenExpr:
			return lit(t.X)
		}
		return "", false
	}
	return lit(c.Args[0])
}

func isNilOrFuncResult(e ast.Expr) bool {
	switch t := e.(type) {
	case *ast.Ident:
		return t.Name == "nil" || t.Name == "forward" || t.Name == "inverse"
	case *ast.FuncLit:
		return true
	}
	return false
}

func seq(parts []string) string {
	if len(parts) == 0 {
		return ".skip"
	}
	out := parts[len(parts)-1]
	for i := len(parts) - 2; i >= 0; i-- {
		out = fmt.Sprintf(".seq (%s) (%s)", parts[i], out)
	}
	return out
}

func (s *slicer) block(list []ast.Stmt) string {
	var parts []string
	for _, st := range list {
		if s.relevant(st) {
			parts = append(parts, s.stmt(st))
		}
	}
	return seq(parts)
}

func (s *slicer) stmt(st ast.Stmt) string {
	other := func() string { return ".other " + q(s.src(st)) }
	switch t := st.(type) {
	case *ast.BlockStmt:
		return s.block(t.List)
	case *ast.ReturnStmt:
		switch len(t.Results) {
		case 0:
			return ".ret"
		case 1:
			// return Fn(this)
			if c, ok := t.Results[0].(*ast.CallExpr); ok && len(c.Args) == 1 {
				if a, ok := c.Args[0].(*ast.Ident); ok && a.Name == s.recv {
					if f, ok := c.Fun.(*ast.Ident); ok && !s.locals[f.Name] {
						return ".retCall " + q(f.Name)
					}
				}
			}
		case 3:
			if isNilOrFuncResult(t.Results[0]) && isNilOrFuncResult(t.Results[1]) {
				if id, ok := t.Results[2].(*ast.Ident); ok && id.Name == "nil" {
					return ".retOk"
				}
				if id, ok := t.Results[2].(*ast.Ident); ok && id.Name == "err" {
					return ".ret"
				}
				if f, ok := errorfFormat(t.Results[2]); ok && !s.usesRecv(t.Results[2]) {
					return ".retErr " + q(f)
				}
			}
		}
		return other()
	case *ast.AssignStmt:
		if len(t.Lhs) != 1 || len(t.Rhs) != 1 || (t.Tok != token.ASSIGN && t.Tok != token.DEFINE) {
			return other()
		}
		if s.usesRecv(t.Rhs[0]) {
			return other()
		}
		if f, ok := field(t.Lhs[0], s.recv); ok {
			return fmt.Sprintf(".setF %s (%s)", q(f), s.expr(t.Rhs[0]))
		}
		if id, ok := t.Lhs[0].(*ast.Ident); ok {
			if id.Name == "err" {
				if f, ok := errorfFormat(t.Rhs[0]); ok {
					return ".setErr " + q(f)
				}
				if n, ok := t.Rhs[0].(*ast.Ident); ok && n.Name == "nil" {
					return ".clrErr"
				}
				return other()
			}
			return fmt.Sprintf(".setL %s (%s)", q(id.Name), s.expr(t.Rhs[0]))
		}
		return other()
	case *ast.DeclStmt:
		g := t.Decl.(*ast.GenDecl)
		var parts []string
		for _, sp := range g.Specs {
			vs := sp.(*ast.ValueSpec)
			if s.usesRecv(vs) || (len(vs.Values) != 0 && len(vs.Values) != len(vs.Names)) {
				return other()
			}
			for i, n := range vs.Names {
				if n.Name == "err" {
					return other()
				}
				if !s.relVar[n.Name] {
					continue
				}
				if len(vs.Values) == 0 {
					parts = append(parts, fmt.Sprintf(".setL %s (.cst \"0\")", q(n.Name)))
				} else {
					parts = append(parts, fmt.Sprintf(".setL %s (%s)", q(n.Name), s.expr(vs.Values[i])))
				}
			}
		}
		return seq(parts)
	case *ast.IfStmt:
		if t.Init != nil {
			return other()
		}
		el := ".skip"
		if t.Else != nil && s.relevant(t.Else) {
			el = s.stmt(t.Else)
		}
		return fmt.Sprintf(".ite (%s) (%s) (%s)", s.expr(t.Cond), s.block(t.Body.List), el)
	}
	return other()
}

func bodiesReport(fset *token.FileSet, pkgs map[string]*ast.Package) {
	type row struct{ name, term string }
	var rows []row
	for _, pkg := range pkgs {
		for _, f := range pkg.Files {
			for _, d := range f.Decls {
				fd, ok := d.(*ast.FuncDecl)
				if !ok || fd.Body == nil {
					continue
				}
				recv, ok := isCtor(fd)
				if !ok {
					continue
				}
				s := &slicer{fset: fset, recv: recv, locals: map[string]bool{}, relVar: map[string]bool{}}
				s.collectLocals(fd)
				for c := range constNames(fd) {
					delete(s.locals, c)
				}
				for s.grow(fd.Body) {
				}
				rows = append(rows, row{fd.Name.Name, s.block(fd.Body.List)})
			}
		}
	}
	sort.Slice(rows, func(i, j int) bool { return rows[i].name < rows[j].name })
	fmt.Println("/- GENERATED by harness/cmd/c10/astwrites (mode bodies) from /repo/proj/*.go on every check run; do not edit. -/")
	fmt.Println("import GeomV.C10.CtorIR")
	fmt.Println("namespace GeomV.C10.Gen")
	fmt.Println("open GeomV.C10.IR")
	fmt.Println("/-- (constructor, the slice of its body that decides its writes to the SR and its error) -/")
	fmt.Println("def ctorBodies : List (String × St) := [")
	for i, r := range rows {
		c := ","
		if i == len(rows)-1 {
			c = ""
		}
		fmt.Printf("  (%q,\n    %s)%s\n", r.name, r.term, c)
	}
	fmt.Println("]")
	fmt.Println("end GeomV.C10.Gen")
}
