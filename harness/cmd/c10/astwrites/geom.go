package main

// Seventh output of astwrites (`astwrites <repo> geom`): the WHOLE bodies of the eight `Transform` methods of
// /repo/transform.go, statement by statement, as terms of the little language of lean/GeomV/C10/GeomIR.lean.
// One syntactic form per IR constructor; anything else becomes `.other "<source>"`, on which the interpreter is
// stuck, so the tie (Ties/Geom.lean) fails to build rather than pass.

import (
	"fmt"
	"go/ast"
	"go/token"
	"sort"
	"strings"
)

type geomTr struct {
	sl *slicer
	t  string // name of the transformer parameter
}

func identName(e ast.Expr) (string, bool) {
	id, ok := e.(*ast.Ident)
	if !ok {
		return "", false
	}
	return id.Name, true
}

// sel2 matches a.b and returns (a, b)
func sel2(e ast.Expr) (string, string, bool) {
	s, ok := e.(*ast.SelectorExpr)
	if !ok {
		return "", "", false
	}
	a, ok := identName(s.X)
	return a, s.Sel.Name, ok
}

// sel3 matches a.b.c
func sel3(e ast.Expr) (string, string, string, bool) {
	s, ok := e.(*ast.SelectorExpr)
	if !ok {
		return "", "", "", false
	}
	a, b, ok := sel2(s.X)
	return a, b, s.Sel.Name, ok
}

// callTransform matches r.Transform(t) and returns r
func (g *geomTr) callTransform(e ast.Expr) (string, bool) {
	c, ok := e.(*ast.CallExpr)
	if !ok || len(c.Args) != 1 || !isIdent(c.Args[0], g.t) {
		return "", false
	}
	r, m, ok := sel2(c.Fun)
	if !ok || m != "Transform" {
		return "", false
	}
	return r, true
}

// makeLen matches make(T, len(x)) and returns (T as source, x)
func (g *geomTr) makeLen(e ast.Expr) (string, string, bool) {
	c, ok := e.(*ast.CallExpr)
	if !ok || !isIdent(c.Fun, "make") || len(c.Args) != 2 {
		return "", "", false
	}
	l, ok := c.Args[1].(*ast.CallExpr)
	if !ok || !isIdent(l.Fun, "len") || len(l.Args) != 1 {
		return "", "", false
	}
	x, ok := identName(l.Args[0])
	return g.sl.src(c.Args[0]), x, ok
}

func (g *geomTr) ex(e ast.Expr) string {
	if n, ok := identName(e); ok {
		return fmt.Sprintf("(.var %q)", n)
	}
	if ta, ok := e.(*ast.TypeAssertExpr); ok && ta.Type != nil {
		if n, ok := identName(ta.X); ok {
			return fmt.Sprintf("(.assert %q %q)", n, g.sl.src(ta.Type))
		}
	}
	if a, f, ok := sel2(e); ok {
		return fmt.Sprintf("(.fld %q %q)", a, f)
	}
	if cl, ok := e.(*ast.CompositeLit); ok && cl.Type == nil && len(cl.Elts) == 2 {
		kx, ok1 := cl.Elts[0].(*ast.KeyValueExpr)
		ky, ok2 := cl.Elts[1].(*ast.KeyValueExpr)
		if ok1 && ok2 && isIdent(kx.Key, "X") && isIdent(ky.Key, "Y") {
			xa, xf, xc, okx := sel3(kx.Value)
			ya, yf, yc, oky := sel3(ky.Value)
			if okx && oky && xc == "X" && yc == "Y" {
				return fmt.Sprintf("(.mkPt %q %q %q %q)", xa, xf, ya, yf)
			}
		}
	}
	return fmt.Sprintf("(.other %q)", g.sl.src(e))
}

func (g *geomTr) isNil(e ast.Expr) bool { return isIdent(e, "nil") }

// retPair matches `return a, b`
func retPair(s ast.Stmt) (ast.Expr, ast.Expr, bool) {
	r, ok := s.(*ast.ReturnStmt)
	if !ok || len(r.Results) != 2 {
		return nil, nil, false
	}
	return r.Results[0], r.Results[1], true
}

func (g *geomTr) stmt(s ast.Stmt) string {
	other := func() string { return fmt.Sprintf(".other %q", g.sl.src(s)) }
	switch x := s.(type) {
	case *ast.IfStmt:
		if x.Init != nil || x.Else != nil || len(x.Body.List) != 1 {
			return other()
		}
		be, ok := x.Cond.(*ast.BinaryExpr)
		if !ok {
			return other()
		}
		a, b, ok := retPair(x.Body.List[0])
		if !ok {
			return other()
		}
		// if t == nil { return recv, nil }
		if be.Op == token.EQL && isIdent(be.X, g.t) && g.isNil(be.Y) && g.isNil(b) {
			if n, ok := identName(a); ok && n != "nil" {
				return fmt.Sprintf(".ifTNilRet %q", n)
			}
		}
		// if err != nil { return nil, err }
		if be.Op == token.NEQ && isIdent(be.X, "err") && g.isNil(be.Y) && g.isNil(a) && isIdent(b, "err") {
			return ".ifErrRetNil"
		}
		return other()
	case *ast.DeclStmt:
		if g.sl.src(x) == "var err error" {
			return ".declErr"
		}
		return other()
	case *ast.AssignStmt:
		// n := Point{}
		if x.Tok == token.DEFINE && len(x.Lhs) == 1 && len(x.Rhs) == 1 {
			n, ok := identName(x.Lhs[0])
			if ok {
				if cl, ok := x.Rhs[0].(*ast.CompositeLit); ok && cl.Type != nil {
					ty := g.sl.src(cl.Type)
					if ty == "Point" && len(cl.Elts) == 0 {
						return fmt.Sprintf(".declPt %q", n)
					}
					// n := T{{e, …}, …}
					var rows []string
					good := true
					for _, r := range cl.Elts {
						rl, ok := r.(*ast.CompositeLit)
						if !ok || rl.Type != nil {
							good = false
							break
						}
						var es []string
						for _, e := range rl.Elts {
							es = append(es, g.ex(e))
						}
						rows = append(rows, "["+strings.Join(es, ", ")+"]")
					}
					if good && len(cl.Elts) > 0 {
						return fmt.Sprintf(".declLit %q %q [%s]", n, ty, strings.Join(rows, ", "))
					}
				}
				if ty, src, ok := g.makeLen(x.Rhs[0]); ok {
					return fmt.Sprintf(".make %q %q %q", n, ty, src)
				}
			}
		}
		// g, err := r.Transform(t)
		if x.Tok == token.DEFINE && len(x.Lhs) == 2 && len(x.Rhs) == 1 && isIdent(x.Lhs[1], "err") {
			if n, ok := identName(x.Lhs[0]); ok && n != "_" {
				if r, ok := g.callTransform(x.Rhs[0]); ok {
					return fmt.Sprintf(".callM %q %q", n, r)
				}
			}
		}
		if x.Tok == token.ASSIGN && len(x.Rhs) == 1 {
			// d.X, d.Y, err = t(s.X, s.Y)
			if len(x.Lhs) == 3 && isIdent(x.Lhs[2], "err") {
				d1, f1, ok1 := sel2(x.Lhs[0])
				d2, f2, ok2 := sel2(x.Lhs[1])
				c, okc := x.Rhs[0].(*ast.CallExpr)
				if ok1 && ok2 && okc && d1 == d2 && f1 == "X" && f2 == "Y" && isIdent(c.Fun, g.t) && len(c.Args) == 2 {
					s1, g1, oka := sel2(c.Args[0])
					s2, g2, okb := sel2(c.Args[1])
					if oka && okb && s1 == s2 && g1 == "X" && g2 == "Y" {
						return fmt.Sprintf(".callT %q %q", d1, s1)
					}
				}
			}
			// d[i], err = r.Transform(t)
			if len(x.Lhs) == 2 && isIdent(x.Lhs[1], "err") {
				if ix, ok := x.Lhs[0].(*ast.IndexExpr); ok {
					d, ok1 := identName(ix.X)
					i, ok2 := identName(ix.Index)
					if r, ok := g.callTransform(x.Rhs[0]); ok && ok1 && ok2 {
						return fmt.Sprintf(".storeCallM %q %q %q", d, i, r)
					}
				}
			}
			if len(x.Lhs) == 1 {
				if ix, ok := x.Lhs[0].(*ast.IndexExpr); ok {
					i, oki := identName(ix.Index)
					// d[i] = …
					if d, ok := identName(ix.X); ok && oki {
						if ty, src, ok := g.makeLen(x.Rhs[0]); ok {
							return fmt.Sprintf(".makeAt %q %q %q %q", d, i, ty, src)
						}
						return fmt.Sprintf(".store %q %q %s", d, i, g.ex(x.Rhs[0]))
					}
					// d[i][j] = e
					if ix2, ok := ix.X.(*ast.IndexExpr); ok && oki {
						d, ok1 := identName(ix2.X)
						i2, ok2 := identName(ix2.Index)
						if ok1 && ok2 {
							return fmt.Sprintf(".store2 %q %q %q %s", d, i2, i, g.ex(x.Rhs[0]))
						}
					}
				}
			}
		}
		return other()
	case *ast.RangeStmt:
		i, ok1 := identName(x.Key)
		v, ok2 := "", false
		if x.Value != nil {
			v, ok2 = identName(x.Value)
		}
		src, ok3 := identName(x.X)
		if !ok1 || !ok2 || !ok3 || x.Tok != token.DEFINE || i == "_" || v == "_" {
			return other()
		}
		return fmt.Sprintf(".range %q %q %q %s", i, v, src, g.block(x.Body.List))
	case *ast.ReturnStmt:
		if len(x.Results) == 1 {
			if r, ok := g.callTransform(x.Results[0]); ok {
				return fmt.Sprintf(".retCallM %q", r)
			}
		}
		if a, b, ok := retPair(x); ok {
			if n, ok := identName(a); ok && n != "nil" {
				if g.isNil(b) {
					return fmt.Sprintf(".ret %q .nilLit", n)
				}
				if isIdent(b, "err") {
					return fmt.Sprintf(".ret %q .errVar", n)
				}
			}
		}
		return other()
	}
	return other()
}

func (g *geomTr) block(list []ast.Stmt) string {
	var out []string
	for _, s := range list {
		out = append(out, g.stmt(s))
	}
	return "[" + strings.Join(out, ", ") + "]"
}

func geomReport(fset *token.FileSet, pkgs map[string]*ast.Package) {
	fmt.Println("import GeomV.C10.GeomIR")
	fmt.Println("/- GENERATED by harness/cmd/c10/astwrites (mode geom) from /repo/transform.go on every check run; do not edit. -/")
	fmt.Println("namespace GeomV.C10.Gen")
	fmt.Println("open GeomV.C10.GIR")
	defer fmt.Println("end GeomV.C10.Gen")
	type meth struct{ ty, lean string }
	var ms []meth
	for name, pkg := range pkgs {
		if name != "geom" {
			continue
		}
		for _, f := range pkg.Files {
			for _, d := range f.Decls {
				fd, ok := d.(*ast.FuncDecl)
				if !ok || fd.Body == nil || fd.Recv == nil || fd.Name.Name != "Transform" || len(fd.Recv.List) != 1 {
					continue
				}
				sl := &slicer{fset: fset}
				ty := sl.src(fd.Recv.List[0].Type)
				recv := "_"
				if len(fd.Recv.List[0].Names) == 1 {
					recv = fd.Recv.List[0].Names[0].Name
				}
				g := &geomTr{sl: sl, t: "?"}
				sig := sl.src(fd.Type)
				if len(fd.Type.Params.List) == 1 && len(fd.Type.Params.List[0].Names) == 1 {
					g.t = fd.Type.Params.List[0].Names[0].Name
				}
				body := g.block(fd.Body.List)
				ms = append(ms, meth{ty, fmt.Sprintf("  (%q, %q, { recvName := %q, recvTy := %q, body := %s })", ty, sig, recv, ty, body)})
			}
		}
	}
	sort.Slice(ms, func(i, j int) bool { return ms[i].ty < ms[j].ty })
	fmt.Println("/-- (receiver type, signature, body) of every method named Transform in package geom -/")
	fmt.Println("def geomMethods : List (String × String × Method) := [")
	for i, m := range ms {
		c := ","
		if i == len(ms)-1 {
			c = ""
		}
		fmt.Println(m.lean + c)
	}
	fmt.Println("]")
}
