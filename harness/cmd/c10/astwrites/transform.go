package main

// Fifth output of astwrites (`astwrites <repo>/proj transform`): the WHOLE body of `transform3`, the whole body
// of the function literal returned by `NewTransform` and the returned expression of `checkNotWGS`
// (proj/transform.go), translated statement by statement into terms of the little language GeomV.C10.TIR
// (lean/GeomV/C10/TransformIR.lean), together with the constants they mention (datumType constants of
// datum.go, the string constants enu/longlat, the float constants deg2rad/r2d as source text).  The Lean side
// interprets the terms with Go's semantics and the tie theorems of Ties/Transform.lean prove them equal to the
// hand-written model (`stepNoHop`, `step`, `notWGS`) for every heap, every abstract callee and every float
// semantics.  Nothing is sliced away: a statement or expression the language has no form for is emitted as
// `.other "<source>"`, on which the interpreter is stuck — the tie then fails to build (never a silent pass).

import (
	"fmt"
	"go/ast"
	"go/token"
	"os"
	"sort"
	"strconv"
	"strings"
)

type trx struct {
	s      *slicer         // only for src()
	srVars map[string]bool // identifiers known to hold a *SR
}

func (t *trx) other(n ast.Node) string { return "(.other " + q(t.s.src(n)) + ")" }

func isIdent(e ast.Expr, name string) bool {
	id, ok := e.(*ast.Ident)
	return ok && id.Name == name
}

func isCallTo(e ast.Expr, pkg, fn string) (*ast.CallExpr, bool) {
	c, ok := e.(*ast.CallExpr)
	if !ok {
		return nil, false
	}
	if pkg == "" {
		return c, isIdent(c.Fun, fn)
	}
	sel, ok := c.Fun.(*ast.SelectorExpr)
	return c, ok && isIdent(sel.X, pkg) && sel.Sel.Name == fn
}

// srField: `v.F` with v a *SR variable
func (t *trx) srField(e ast.Expr) (string, string, bool) {
	sel, ok := e.(*ast.SelectorExpr)
	if !ok {
		return "", "", false
	}
	id, ok := sel.X.(*ast.Ident)
	if !ok || !t.srVars[id.Name] {
		return "", "", false
	}
	return id.Name, sel.Sel.Name, true
}

func pointIdx(e ast.Expr) (int, bool) {
	ix, ok := e.(*ast.IndexExpr)
	if !ok || !isIdent(ix.X, "point") {
		return 0, false
	}
	lit, ok := ix.Index.(*ast.BasicLit)
	if !ok || lit.Kind != token.INT {
		return 0, false
	}
	n, err := strconv.Atoi(lit.Value)
	return n, err == nil
}

func (t *trx) fex(e ast.Expr) string {
	switch x := e.(type) {
	case *ast.ParenExpr:
		return t.fex(x.X)
	case *ast.Ident:
		switch x.Name {
		case "deg2rad", "r2d":
			return "(.cst " + q(x.Name) + ")"
		}
		return "(.v " + q(x.Name) + ")"
	case *ast.BasicLit:
		if x.Kind == token.FLOAT || x.Kind == token.INT {
			return "(.cst " + q(x.Value) + ")"
		}
	case *ast.IndexExpr:
		if i, ok := pointIdx(x); ok {
			return fmt.Sprintf("(.idx %d)", i)
		}
	case *ast.SelectorExpr:
		if v, f, ok := t.srField(x); ok {
			return "(.fld " + q(v) + " " + q(f) + ")"
		}
	case *ast.CallExpr:
		if c, ok := isCallTo(x, "math", "NaN"); ok && len(c.Args) == 0 {
			return ".nan"
		}
	}
	return t.other(e)
}

func (t *trx) fexs(es []ast.Expr) string {
	var out []string
	for _, e := range es {
		out = append(out, t.fex(e))
	}
	return "[" + strings.Join(out, ", ") + "]"
}

func (t *trx) lv(e ast.Expr) string {
	switch x := e.(type) {
	case *ast.Ident:
		switch x.Name {
		case "_":
			return ".blank"
		case "err":
			return ".err"
		}
		return "(.v " + q(x.Name) + ")"
	case *ast.IndexExpr:
		if i, ok := pointIdx(x); ok {
			return fmt.Sprintf("(.idx %d)", i)
		}
	}
	return "(.other " + q(t.s.src(e)) + ")"
}

func (t *trx) lvs(es []ast.Expr) string {
	var out []string
	for _, e := range es {
		out = append(out, t.lv(e))
	}
	return "[" + strings.Join(out, ", ") + "]"
}

func (t *trx) bex(e ast.Expr) string {
	switch x := e.(type) {
	case *ast.ParenExpr:
		return t.bex(x.X)
	case *ast.UnaryExpr:
		if x.Op == token.NOT {
			if c, ok := isCallTo(x.X, "math", "IsNaN"); ok && len(c.Args) == 1 {
				return "(.notNaN " + t.fex(c.Args[0]) + ")"
			}
			return "(.not " + t.bex(x.X) + ")"
		}
	case *ast.BinaryExpr:
		switch x.Op {
		case token.LOR:
			return "(.or " + t.bex(x.X) + " " + t.bex(x.Y) + ")"
		case token.LAND:
			return "(.and " + t.bex(x.X) + " " + t.bex(x.Y) + ")"
		case token.NEQ, token.EQL:
			if x.Op == token.NEQ && isIdent(x.X, "err") && isIdent(x.Y, "nil") {
				return ".errNotNil"
			}
			if v, f, ok := t.srField(x.X); ok {
				if c, ok := x.Y.(*ast.Ident); ok {
					if x.Op == token.NEQ {
						return "(.strNe " + q(v) + " " + q(f) + " " + q(c.Name) + ")"
					}
					return "(.strEq " + q(v) + " " + q(f) + " " + q(c.Name) + ")"
				}
			}
			// v.datum.datum_type == c
			if sel, ok := x.X.(*ast.SelectorExpr); ok && sel.Sel.Name == "datum_type" && x.Op == token.EQL {
				if v, f, ok := t.srField(sel.X); ok && f == "datum" {
					if c, ok := x.Y.(*ast.Ident); ok {
						return "(.dtypeEq " + q(v) + " " + q(c.Name) + ")"
					}
				}
			}
		}
	case *ast.CallExpr:
		if c, ok := isCallTo(x, "strings", "EqualFold"); ok && len(c.Args) == 2 {
			if v, f, ok := t.srField(c.Args[0]); ok {
				if lit, ok := c.Args[1].(*ast.BasicLit); ok && lit.Kind == token.STRING {
					if s, err := strconv.Unquote(lit.Value); err == nil {
						return "(.equalFold " + q(v) + " " + q(f) + " " + q(s) + ")"
					}
				}
			}
		}
		if fn, ok := x.Fun.(*ast.Ident); ok && len(x.Args) == 2 {
			a, aok := x.Args[0].(*ast.Ident)
			b, bok := x.Args[1].(*ast.Ident)
			if aok && bok && t.srVars[a.Name] && t.srVars[b.Name] {
				return "(.call " + q(fn.Name) + " " + q(a.Name) + " " + q(b.Name) + ")"
			}
		}
	}
	return t.other(e)
}

func (t *trx) block(list []ast.Stmt) string {
	if len(list) == 0 {
		return ".skip"
	}
	if len(list) == 1 {
		return t.stmt(list[0])
	}
	return "(.seq " + t.stmt(list[0]) + " " + t.block(list[1:]) + ")"
}

func boolLit(e ast.Expr) (string, bool) {
	if id, ok := e.(*ast.Ident); ok && (id.Name == "true" || id.Name == "false") {
		return id.Name, true
	}
	return "", false
}

func optName(e ast.Expr) string {
	if id, ok := e.(*ast.Ident); ok && id.Name != "_" {
		return "(some " + q(id.Name) + ")"
	}
	return "none"
}

func (t *trx) stmt(st ast.Stmt) string {
	switch x := st.(type) {
	case *ast.BlockStmt:
		return t.block(x.List)
	case *ast.IfStmt:
		if x.Init != nil {
			return t.other(st)
		}
		els := ".skip"
		if x.Else != nil {
			els = t.stmt(x.Else)
		}
		return "(.ite " + t.bex(x.Cond) + " " + t.block(x.Body.List) + " " + els + ")"
	case *ast.ReturnStmt:
		if n := len(x.Results); n >= 1 {
			last := x.Results[n-1]
			if isIdent(last, "err") {
				return "(.ret " + t.fexs(x.Results[:n-1]) + " true)"
			}
			if isIdent(last, "nil") {
				return "(.ret " + t.fexs(x.Results[:n-1]) + " false)"
			}
		}
	case *ast.DeclStmt:
		// var err error
		if gd, ok := x.Decl.(*ast.GenDecl); ok && gd.Tok == token.VAR && len(gd.Specs) == 1 {
			if vs, ok := gd.Specs[0].(*ast.ValueSpec); ok && len(vs.Names) == 1 && vs.Names[0].Name == "err" && len(vs.Values) == 0 && isIdent(vs.Type, "error") {
				return ".declErr"
			}
		}
	case *ast.AssignStmt:
		// compound assignment to a float place
		if x.Tok != token.ASSIGN && x.Tok != token.DEFINE {
			if len(x.Lhs) == 1 && len(x.Rhs) == 1 {
				return "(.opAssign " + t.lv(x.Lhs[0]) + " " + q(x.Tok.String()) + " " + t.fex(x.Rhs[0]) + ")"
			}
			return t.other(st)
		}
		if len(x.Rhs) != 1 {
			return t.other(st)
		}
		rhs := x.Rhs[0]
		if len(x.Lhs) == 1 {
			l, lok := x.Lhs[0].(*ast.Ident)
			// point := []float64{a, b}
			if cl, ok := rhs.(*ast.CompositeLit); ok && lok && l.Name == "point" && x.Tok == token.DEFINE && len(cl.Elts) == 2 {
				if at, ok := cl.Type.(*ast.ArrayType); ok && at.Len == nil && isIdent(at.Elt, "float64") {
					a, aok := cl.Elts[0].(*ast.Ident)
					b, bok := cl.Elts[1].(*ast.Ident)
					if aok && bok {
						return "(.mkPoint " + q(a.Name) + " " + q(b.Name) + ")"
					}
				}
			}
			if r, ok := rhs.(*ast.Ident); ok && lok && t.srVars[r.Name] {
				if x.Tok == token.DEFINE && r.Name == l.Name {
					return "(.shadow " + q(l.Name) + ")" // v := v
				}
				if x.Tok == token.ASSIGN && t.srVars[l.Name] {
					return "(.assignSR " + q(l.Name) + " " + q(r.Name) + ")"
				}
				return t.other(st)
			}
			if lok && x.Tok == token.DEFINE && !t.srVars[l.Name] {
				return "(.declF " + q(l.Name) + " " + t.fex(rhs) + ")"
			}
			return t.other(st)
		}
		call, ok := rhs.(*ast.CallExpr)
		if !ok {
			return t.other(st)
		}
		// fwd, inv, err := v.Transformers()
		if sel, ok := call.Fun.(*ast.SelectorExpr); ok && sel.Sel.Name == "Transformers" && len(call.Args) == 0 && len(x.Lhs) == 3 && isIdent(x.Lhs[2], "err") {
			if v, ok := sel.X.(*ast.Ident); ok && t.srVars[v.Name] {
				return "(.ctor " + q(v.Name) + " " + optName(x.Lhs[0]) + " " + optName(x.Lhs[1]) + ")"
			}
		}
		if fn, ok := call.Fun.(*ast.Ident); ok {
			switch fn.Name {
			case "Parse": // v, err := Parse("code")
				if len(x.Lhs) == 2 && isIdent(x.Lhs[1], "err") && x.Tok == token.DEFINE && len(call.Args) == 1 {
					if lit, ok := call.Args[0].(*ast.BasicLit); ok && lit.Kind == token.STRING {
						if v, ok := x.Lhs[0].(*ast.Ident); ok {
							code, _ := strconv.Unquote(lit.Value)
							t.srVars[v.Name] = true
							return "(.parse " + q(v.Name) + " " + q(code) + ")"
						}
					}
				}
			case "adjust_axis": // point, err = adjust_axis(v, denorm, point)
				if len(x.Lhs) == 2 && isIdent(x.Lhs[0], "point") && isIdent(x.Lhs[1], "err") && x.Tok == token.ASSIGN && len(call.Args) == 3 && isIdent(call.Args[2], "point") {
					if v, ok := call.Args[0].(*ast.Ident); ok && t.srVars[v.Name] {
						if b, ok := boolLit(call.Args[1]); ok {
							return "(.adjust " + q(v.Name) + " " + b + ")"
						}
					}
				}
			case "datumTransform": // outs…, err = datumTransform(a.datum, b.datum, args…)
				if len(call.Args) == 5 && x.Tok == token.ASSIGN {
					a, fa, aok := t.srField(call.Args[0])
					b, fb, bok := t.srField(call.Args[1])
					if aok && bok && fa == "datum" && fb == "datum" {
						return "(.datum " + q(a) + " " + q(b) + " " + t.lvs(x.Lhs) + " " + t.fexs(call.Args[2:]) + ")"
					}
				}
			case "transform3": // outs…, err = transform3(a, b, args…)
				if len(call.Args) == 5 && x.Tok == token.ASSIGN {
					a, aok := call.Args[0].(*ast.Ident)
					b, bok := call.Args[1].(*ast.Ident)
					if aok && bok && t.srVars[a.Name] && t.srVars[b.Name] {
						return "(.t3 " + q(a.Name) + " " + q(b.Name) + " " + t.lvs(x.Lhs) + " " + t.fexs(call.Args[2:]) + ")"
					}
				}
			default: // outs…, err = f(args…) with f a function VARIABLE bound by Transformers()
				if x.Tok == token.ASSIGN {
					return "(.callFn " + q(fn.Name) + " " + t.lvs(x.Lhs) + " " + t.fexs(call.Args) + ")"
				}
			}
		}
	}
	return t.other(st)
}

func names(fl *ast.FieldList, want string) []string {
	var out []string
	if fl == nil {
		return out
	}
	for _, f := range fl.List {
		ty := ""
		switch x := f.Type.(type) {
		case *ast.StarExpr:
			if id, ok := x.X.(*ast.Ident); ok {
				ty = "*" + id.Name
			}
		case *ast.Ident:
			ty = x.Name
		}
		if ty == want {
			for _, n := range f.Names {
				out = append(out, n.Name)
			}
		}
	}
	return out
}

func qlist(xs []string) string {
	q2 := make([]string, len(xs))
	for i, s := range xs {
		q2[i] = q(s)
	}
	return "[" + strings.Join(q2, ", ") + "]"
}

func transformReport(fset *token.FileSet, pkgs map[string]*ast.Package) {
	funcs := map[string]*ast.FuncDecl{}
	consts := map[string]string{}  // name -> literal source text
	constTy := map[string]string{} // name -> declared type
	for _, pkg := range pkgs {
		for _, f := range pkg.Files {
			for _, d := range f.Decls {
				switch x := d.(type) {
				case *ast.FuncDecl:
					if x.Body != nil {
						funcs[x.Name.Name] = x
					}
				case *ast.GenDecl:
					if x.Tok != token.CONST {
						continue
					}
					for _, sp := range x.Specs {
						vs := sp.(*ast.ValueSpec)
						for i, n := range vs.Names {
							if i < len(vs.Values) {
								if lit, ok := vs.Values[i].(*ast.BasicLit); ok {
									consts[n.Name] = lit.Value
									if id, ok := vs.Type.(*ast.Ident); ok {
										constTy[n.Name] = id.Name
									}
								}
							}
						}
					}
				}
			}
		}
	}
	fail := func(msg string) {
		fmt.Fprintln(os.Stderr, "astwrites transform: "+msg)
		os.Exit(1)
	}
	sl := &slicer{fset: fset}
	fmt.Println("/- GENERATED by harness/cmd/c10/astwrites (mode transform) from /repo/proj/*.go on every check run; do not edit. -/")
	fmt.Println("import GeomV.C10.TransformIR")
	fmt.Println("namespace GeomV.C10.Gen")
	fmt.Println("open GeomV.C10.TIR")

	// checkNotWGS: parameters and the single returned expression
	cn := funcs["checkNotWGS"]
	if cn == nil {
		fail("checkNotWGS not found")
	}
	ps := names(cn.Type.Params, "*SR")
	t := &trx{s: sl, srVars: map[string]bool{}}
	for _, p := range ps {
		t.srVars[p] = true
	}
	body := "(.other " + q("not a single return") + ")"
	if len(cn.Body.List) == 1 {
		if r, ok := cn.Body.List[0].(*ast.ReturnStmt); ok && len(r.Results) == 1 {
			body = t.bex(r.Results[0])
		}
	}
	fmt.Println("/-- `checkNotWGS`: its *SR parameters and the expression it returns -/")
	fmt.Printf("def checkNotWGS : List String × BEx :=\n  (%s,\n   %s)\n", qlist(ps), body)

	// transform3
	t3 := funcs["transform3"]
	if t3 == nil {
		fail("transform3 not found")
	}
	t = &trx{s: sl, srVars: map[string]bool{}}
	srs := names(t3.Type.Params, "*SR")
	for _, p := range srs {
		t.srVars[p] = true
	}
	fmt.Println("/-- `transform3`: *SR parameters, float parameters, the whole body -/")
	fmt.Printf("def transform3 : Fn :=\n  (%s, %s,\n   %s)\n", qlist(srs), qlist(names(t3.Type.Params, "float64")), t.block(t3.Body.List))

	// the function literal returned by NewTransform
	nt := funcs["NewTransform"]
	if nt == nil {
		fail("NewTransform not found")
	}
	var lits []*ast.FuncLit
	var retLit *ast.FuncLit
	ast.Inspect(nt.Body, func(n ast.Node) bool {
		switch x := n.(type) {
		case *ast.FuncLit:
			lits = append(lits, x)
			return false
		case *ast.ReturnStmt:
			if len(x.Results) == 2 {
				if fl, ok := x.Results[0].(*ast.FuncLit); ok {
					retLit = fl
				}
			}
		}
		return true
	})
	if retLit == nil || len(lits) != 1 {
		fail("NewTransform: expected exactly one function literal, returned directly")
	}
	capt := append(names(nt.Recv, "*SR"), names(nt.Type.Params, "*SR")...)
	t = &trx{s: sl, srVars: map[string]bool{}}
	for _, p := range capt {
		t.srVars[p] = true
	}
	fmt.Println("/-- the closure returned by `NewTransform`: captured *SR variables (receiver, parameter), float parameters, the whole body -/")
	fmt.Printf("def closure : Fn :=\n  (%s, %s,\n   %s)\n", qlist(capt), qlist(names(retLit.Type.Params, "float64")), t.block(retLit.Body.List))
	// what NewTransform does before returning the closure (construction time; outside the model): source text
	var pre []string
	for _, st := range nt.Body.List {
		if r, ok := st.(*ast.ReturnStmt); ok && len(r.Results) == 2 {
			if _, ok := r.Results[0].(*ast.FuncLit); ok {
				continue
			}
		}
		pre = append(pre, sl.src(st))
	}
	fmt.Printf("/-- the statements of `NewTransform` before it returns the closure (source text) -/\ndef newTransformPrelude : List String := %s\n", qlist(pre))

	// constants
	var dn []string
	for n := range consts {
		if constTy[n] == "datumType" {
			dn = append(dn, n)
		}
	}
	sort.Strings(dn)
	var rows []string
	for _, n := range dn {
		rows = append(rows, fmt.Sprintf("(%q, %s)", n, consts[n]))
	}
	fmt.Printf("/-- the datumType constants of datum.go -/\ndef datumConsts : List (String × Nat) := [%s]\n", strings.Join(rows, ", "))
	rows = nil
	for _, n := range []string{"enu", "longlat"} {
		v, ok := consts[n]
		if !ok {
			fail("string constant " + n + " not found")
		}
		s, _ := strconv.Unquote(v)
		var cs []string
		for _, c := range s {
			cs = append(cs, fmt.Sprintf("'%c'", c))
		}
		rows = append(rows, fmt.Sprintf("(%q, [%s])", n, strings.Join(cs, ", ")))
	}
	fmt.Printf("/-- the string constants transform3 compares with -/\ndef strConsts : List (String × List Char) := [%s]\n", strings.Join(rows, ", "))
	rows = nil
	for _, n := range []string{"deg2rad", "r2d"} {
		v, ok := consts[n]
		if !ok {
			fail("float constant " + n + " not found")
		}
		rows = append(rows, fmt.Sprintf("(%q, %q)", n, v))
	}
	fmt.Printf("/-- the float constants of transform3 (source text of the literal) -/\ndef floatConsts : List (String × String) := [%s]\n", strings.Join(rows, ", "))
	fmt.Println("end GeomV.C10.Gen")
}
