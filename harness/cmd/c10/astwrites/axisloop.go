package main

// Ninth output of astwrites (`astwrites <repo>/proj axisloop`): the WHOLE body of adjust_axis
// (proj/adjust_axis.go) as a term of the little language of lean/GeomV/C10/AxisIR.lean: the `for` header, the
// `continue` guard, the if / else-if chain picking v and t, the switch on crs.Axis[i] with its cases and
// default, the final return.  Anything else becomes `.other "<source>"` (interpreter stuck => tie fails).

import (
	"fmt"
	"go/ast"
	"go/token"
	"strconv"
	"strings"
)

type axTr struct{ sl *slicer }

func intLit(e ast.Expr) (int, bool) {
	l, ok := e.(*ast.BasicLit)
	if !ok || l.Kind != token.INT {
		return 0, false
	}
	n, err := strconv.Atoi(l.Value)
	return n, err == nil
}

func (a *axTr) cond(e ast.Expr) string {
	other := fmt.Sprintf("(.other %q)", a.sl.src(e))
	b, ok := e.(*ast.BinaryExpr)
	if !ok {
		if p, ok := e.(*ast.ParenExpr); ok {
			return a.cond(p.X)
		}
		return other
	}
	switch b.Op {
	case token.LAND:
		return fmt.Sprintf("(.and %s %s)", a.cond(b.X), a.cond(b.Y))
	case token.EQL:
		n, ok := intLit(b.Y)
		if !ok {
			return other
		}
		if isIdent(b.X, "i") {
			return fmt.Sprintf("(.iEq %d)", n)
		}
		if c, ok := b.X.(*ast.CallExpr); ok && isIdent(c.Fun, "len") && len(c.Args) == 1 && isIdent(c.Args[0], "point") {
			return fmt.Sprintf("(.lenEq %d)", n)
		}
	}
	return other
}

// pointIx matches point[k] / point[t]
func (a *axTr) pointIx(e ast.Expr) (string, bool) {
	ix, ok := e.(*ast.IndexExpr)
	if !ok || !isIdent(ix.X, "point") {
		return "", false
	}
	if n, ok := intLit(ix.Index); ok {
		return fmt.Sprintf("(.lit %d)", n), true
	}
	if isIdent(ix.Index, "t") {
		return ".t", true
	}
	return fmt.Sprintf("(.other %q)", a.sl.src(ix.Index)), true
}

// storeV matches point[ix] = v / point[ix] = -v
func (a *axTr) storeV(s ast.Stmt) (string, string, bool) {
	as, ok := s.(*ast.AssignStmt)
	if !ok || as.Tok != token.ASSIGN || len(as.Lhs) != 1 || len(as.Rhs) != 1 {
		return "", "", false
	}
	ix, ok := a.pointIx(as.Lhs[0])
	if !ok {
		return "", "", false
	}
	if isIdent(as.Rhs[0], "v") {
		return ix, "false", true
	}
	if u, ok := as.Rhs[0].(*ast.UnaryExpr); ok && u.Op == token.SUB && isIdent(u.X, "v") {
		return ix, "true", true
	}
	return "", "", false
}

func (a *axTr) act(s ast.Stmt) string {
	if ix, ng, ok := a.storeV(s); ok {
		return fmt.Sprintf(".store %s %s", ix, ng)
	}
	if is, ok := s.(*ast.IfStmt); ok && is.Init == nil && is.Else == nil && len(is.Body.List) == 1 {
		if b, ok := is.Cond.(*ast.BinaryExpr); ok && b.Op == token.EQL {
			if c, ok := b.X.(*ast.CallExpr); ok && isIdent(c.Fun, "len") && len(c.Args) == 1 && isIdent(c.Args[0], "point") {
				if n, ok := intLit(b.Y); ok {
					if ix, ng, ok := a.storeV(is.Body.List[0]); ok {
						return fmt.Sprintf(".ifLenStore %d %s %s", n, ix, ng)
					}
				}
			}
		}
	}
	return fmt.Sprintf(".other %q", a.sl.src(s))
}

func (a *axTr) stmt(s ast.Stmt) string {
	other := func() string { return fmt.Sprintf(".other %q", a.sl.src(s)) }
	switch x := s.(type) {
	case *ast.IfStmt:
		if x.Init != nil {
			return other()
		}
		if x.Else == nil && len(x.Body.List) == 1 {
			if br, ok := x.Body.List[0].(*ast.BranchStmt); ok && br.Tok == token.CONTINUE && br.Label == nil {
				return fmt.Sprintf(".ifContinue %s", a.cond(x.Cond))
			}
		}
		el := "[]"
		switch e := x.Else.(type) {
		case nil:
		case *ast.BlockStmt:
			el = a.block(e.List)
		case *ast.IfStmt:
			el = "[" + a.stmt(e) + "]"
		default:
			return other()
		}
		return fmt.Sprintf(".ite %s %s %s", a.cond(x.Cond), a.block(x.Body.List), el)
	case *ast.AssignStmt:
		if x.Tok == token.ASSIGN && len(x.Lhs) == 1 && len(x.Rhs) == 1 {
			if isIdent(x.Lhs[0], "v") {
				if ix, ok := a.pointIx(x.Rhs[0]); ok {
					return fmt.Sprintf(".setV %s", ix)
				}
			}
			if isIdent(x.Lhs[0], "t") {
				if n, ok := intLit(x.Rhs[0]); ok {
					return fmt.Sprintf(".setT %d", n)
				}
			}
		}
		return other()
	case *ast.SwitchStmt:
		if x.Init != nil || a.sl.src(x.Tag) != "crs.Axis[i]" {
			return other()
		}
		var cases []string
		dflt := "false"
		for _, c := range x.Body.List {
			cc := c.(*ast.CaseClause)
			body := cc.Body
			if cc.List == nil {
				// err := fmt.Errorf(…); return nil, err
				if len(body) == 2 {
					as, ok1 := body[0].(*ast.AssignStmt)
					r, ok2 := body[1].(*ast.ReturnStmt)
					if ok1 && ok2 && as.Tok == token.DEFINE && len(as.Lhs) == 1 && isIdent(as.Lhs[0], "err") && len(r.Results) == 2 && isIdent(r.Results[0], "nil") && isIdent(r.Results[1], "err") {
						if c, ok := as.Rhs[0].(*ast.CallExpr); ok {
							if p, f, ok := sel2(c.Fun); ok && p == "fmt" && f == "Errorf" {
								dflt = "true"
								continue
							}
						}
					}
				}
				return other()
			}
			// a trailing `break` leaves the switch, as falling off the end of the case does
			if n := len(body); n > 0 {
				if br, ok := body[n-1].(*ast.BranchStmt); ok && br.Tok == token.BREAK && br.Label == nil {
					body = body[:n-1]
				}
			}
			var acts []string
			for _, st := range body {
				acts = append(acts, a.act(st))
			}
			for _, l := range cc.List {
				lit, ok := l.(*ast.BasicLit)
				if !ok || lit.Kind != token.CHAR {
					return other()
				}
				cases = append(cases, fmt.Sprintf("(%s, [%s])", lit.Value, strings.Join(acts, ", ")))
			}
		}
		return fmt.Sprintf(".switchAxis [%s] %s", strings.Join(cases, ", "), dflt)
	}
	return other()
}

func (a *axTr) block(list []ast.Stmt) string {
	var out []string
	for _, s := range list {
		out = append(out, a.stmt(s))
	}
	return "[" + strings.Join(out, ", ") + "]"
}

func axisLoopReport(fset *token.FileSet, pkgs map[string]*ast.Package) {
	fmt.Println("import GeomV.C10.AxisIR")
	fmt.Println("/- GENERATED by harness/cmd/c10/astwrites (mode axisloop) from /repo/proj/adjust_axis.go on every check run; do not edit. -/")
	fmt.Println("namespace GeomV.C10.Gen")
	fmt.Println("open GeomV.C10.AIR")
	defer fmt.Println("end GeomV.C10.Gen")
	a := &axTr{sl: &slicer{fset: fset}}
	lo, hi, body, tail, sig := 0, 0, "[.other \"adjust_axis not found\"]", "", ""
	var extra []string
	for _, pkg := range pkgs {
		for _, f := range pkg.Files {
			for _, d := range f.Decls {
				fd, ok := d.(*ast.FuncDecl)
				if !ok || fd.Name.Name != "adjust_axis" || fd.Body == nil {
					continue
				}
				sig = a.sl.src(fd.Type)
				seenLoop := false
				for _, st := range fd.Body.List {
					switch x := st.(type) {
					case *ast.DeclStmt:
						src := a.sl.src(x)
						if src != "var v float64" && src != "var t int" {
							extra = append(extra, src)
						}
					case *ast.ForStmt:
						if seenLoop {
							extra = append(extra, a.sl.src(x))
							continue
						}
						seenLoop = true
						okHdr := false
						if as, ok := x.Init.(*ast.AssignStmt); ok && as.Tok == token.DEFINE && len(as.Lhs) == 1 && isIdent(as.Lhs[0], "i") {
							if n, ok := intLit(as.Rhs[0]); ok {
								if c, ok := x.Cond.(*ast.BinaryExpr); ok && c.Op == token.LSS && isIdent(c.X, "i") {
									if m, ok := intLit(c.Y); ok {
										if p, ok := x.Post.(*ast.IncDecStmt); ok && p.Tok == token.INC && isIdent(p.X, "i") {
											lo, hi, okHdr = n, m, true
										}
									}
								}
							}
						}
						if !okHdr {
							extra = append(extra, "for header: "+a.sl.src(x.Init)+"; "+a.sl.src(x.Cond)+"; "+a.sl.src(x.Post))
						}
						body = a.block(x.Body.List)
					case *ast.ReturnStmt:
						if tail == "" && seenLoop {
							tail = a.sl.src(x)
						} else {
							extra = append(extra, a.sl.src(x))
						}
					default:
						extra = append(extra, a.sl.src(st))
					}
				}
			}
		}
	}
	fmt.Printf("def axisSig : String := %q\n", sig)
	fmt.Printf("def axisFn : Fn := { lo := %d, hi := %d, body := %s, tail := %q }\n", lo, hi, body, tail)
	fmt.Printf("/-- statements of adjust_axis outside the shape `var v; var t; for …; return …` -/\ndef axisExtra : List String := %s\n", qlist(extra))
}
