// astwrites lists, for every projection constructor of /repo/proj, the SR fields it assigns.
//
//	astwrites <repo>/proj  ->  Lean source on stdout (module GeomV.C10.GenWrites)
//
// For each function `func X(this *SR) (forward, inverse Transformer, err error)` it reports
//   - the fields assigned through the *SR parameter in the constructor body proper (`this.F = …`,
//     `this.F op= …`, `this.F++`), sorted and de-duplicated,
//   - the same for the bodies of the function literals it contains (the returned closures),
//   - compound assignments / inc-dec separately (they are never idempotent),
//   - the functions the *SR parameter is passed to (their writes are writes of the constructor too),
//   - whether the address of a field is taken (`&this.F`), which would defeat this analysis.
//
// Standard library only (go/ast, go/parser); it does not build or import the package.
package main

import (
	"fmt"
	"go/ast"
	"go/parser"
	"go/token"
	"os"
	"sort"
	"strings"
)

type report struct {
	name                                     string
	init, closure, opAssign, callees, addrOf map[string]bool
}

func keys(m map[string]bool) string {
	var k []string
	for s := range m {
		k = append(k, s)
	}
	sort.Strings(k)
	q := make([]string, len(k))
	for i, s := range k {
		q[i] = fmt.Sprintf("%q", s)
	}
	return "[" + strings.Join(q, ", ") + "]"
}

// field returns F when e is `recv.F`
func field(e ast.Expr, recv string) (string, bool) {
	sel, ok := e.(*ast.SelectorExpr)
	if !ok {
		return "", false
	}
	id, ok := sel.X.(*ast.Ident)
	if !ok || id.Name != recv {
		return "", false
	}
	return sel.Sel.Name, true
}

func (r *report) walk(n ast.Node, recv string, inClosure bool) {
	ast.Inspect(n, func(n ast.Node) bool {
		switch t := n.(type) {
		case *ast.FuncLit:
			if !inClosure {
				r.walk(t.Body, recv, true)
				return false
			}
		case *ast.AssignStmt:
			for _, l := range t.Lhs {
				if f, ok := field(l, recv); ok {
					if inClosure {
						r.closure[f] = true
					} else {
						r.init[f] = true
					}
					if t.Tok != token.ASSIGN && t.Tok != token.DEFINE {
						r.opAssign[f] = true
					}
				}
			}
		case *ast.IncDecStmt:
			if f, ok := field(t.X, recv); ok {
				if inClosure {
					r.closure[f] = true
				} else {
					r.init[f] = true
				}
				r.opAssign[f] = true
			}
		case *ast.UnaryExpr:
			if t.Op == token.AND {
				if f, ok := field(t.X, recv); ok {
					r.addrOf[f] = true
				}
			}
		case *ast.CallExpr:
			for _, a := range t.Args {
				if id, ok := a.(*ast.Ident); ok && id.Name == recv {
					switch fn := t.Fun.(type) {
					case *ast.Ident:
						r.callees[fn.Name] = true
					case *ast.SelectorExpr:
						r.callees[fn.Sel.Name] = true
					default:
						r.callees["(indirect)"] = true
					}
				}
			}
			// a method called on the SR itself may write it as well
			if sel, ok := t.Fun.(*ast.SelectorExpr); ok {
				if id, ok := sel.X.(*ast.Ident); ok && id.Name == recv {
					r.callees["(*SR)."+sel.Sel.Name] = true
				}
			}
		}
		return true
	})
}

func isCtor(fd *ast.FuncDecl) (string, bool) {
	if fd.Recv != nil || fd.Type.Params == nil || len(fd.Type.Params.List) != 1 || fd.Type.Results == nil {
		return "", false
	}
	p := fd.Type.Params.List[0]
	st, ok := p.Type.(*ast.StarExpr)
	if !ok || len(p.Names) != 1 {
		return "", false
	}
	if id, ok := st.X.(*ast.Ident); !ok || id.Name != "SR" {
		return "", false
	}
	n := 0
	for _, r := range fd.Type.Results.List {
		k := len(r.Names)
		if k == 0 {
			k = 1
		}
		n += k
	}
	return p.Names[0].Name, n == 3
}

func main() {
	dir := os.Args[1]
	fset := token.NewFileSet()
	pkgs, err := parser.ParseDir(fset, dir, func(fi os.FileInfo) bool { return !strings.HasSuffix(fi.Name(), "_test.go") }, 0)
	if err != nil {
		fmt.Fprintln(os.Stderr, err)
		os.Exit(1)
	}
	if len(os.Args) > 2 && os.Args[2] == "bodies" {
		bodiesReport(fset, pkgs)
		return
	}
	if len(os.Args) > 2 && os.Args[2] == "state" {
		stateReport(dir, fset, pkgs)
		return
	}
	if len(os.Args) > 2 && os.Args[2] == "geom" {
		geomReport(fset, pkgs)
		return
	}
	if len(os.Args) > 2 && os.Args[2] == "datumbody" {
		datumBodyReport(fset, pkgs)
		return
	}
	if len(os.Args) > 2 && os.Args[2] == "axisloop" {
		axisLoopReport(fset, pkgs)
		return
	}
	if len(os.Args) > 2 && os.Args[2] == "prelude" {
		preludeReport(fset, pkgs)
		return
	}
	if len(os.Args) > 2 && os.Args[2] == "axis" {
		axisReport(fset, pkgs)
		return
	}
	if len(os.Args) > 2 && os.Args[2] == "transform" {
		transformReport(fset, pkgs)
		return
	}
	if len(os.Args) > 2 && os.Args[2] == "datum" {
		datumReport(fset, pkgs)
		return
	}
	var reps []*report
	registered := map[string]bool{}
	regNames := map[string]string{} // lower-case name (blanks as _) -> constructor, as registerTrans stores them
	for _, pkg := range pkgs {
		for _, f := range pkg.Files {
			for _, d := range f.Decls {
				fd, ok := d.(*ast.FuncDecl)
				if !ok || fd.Body == nil {
					continue
				}
				// registerTrans(X, names...) in init functions: which constructors are reachable
				ast.Inspect(fd.Body, func(n ast.Node) bool {
					if c, ok := n.(*ast.CallExpr); ok {
						if id, ok := c.Fun.(*ast.Ident); ok && id.Name == "registerTrans" && len(c.Args) > 0 {
							if a, ok := c.Args[0].(*ast.Ident); ok {
								registered[a.Name] = true
								for _, n := range c.Args[1:] {
									if lit, ok := n.(*ast.BasicLit); ok && lit.Kind == token.STRING {
										regNames[strings.ReplaceAll(strings.ToLower(strings.Trim(lit.Value, "\"`")), " ", "_")] = a.Name
									} else {
										regNames["(not a literal)"] = a.Name
									}
								}
							}
						}
					}
					return true
				})
				recv, ok := isCtor(fd)
				if !ok {
					continue
				}
				r := &report{name: fd.Name.Name, init: map[string]bool{}, closure: map[string]bool{}, opAssign: map[string]bool{}, callees: map[string]bool{}, addrOf: map[string]bool{}}
				r.walk(fd.Body, recv, false)
				reps = append(reps, r)
			}
		}
	}
	sort.Slice(reps, func(i, j int) bool { return reps[i].name < reps[j].name })
	fmt.Println("/- GENERATED by harness/cmd/c10/astwrites from /repo/proj/*.go on every check run; do not edit. -/")
	fmt.Println("namespace GeomV.C10.Gen")
	fmt.Println("/-- (constructor, fields assigned in its body, fields assigned in its closures, compound assignments, functions the SR is passed to, fields whose address is taken) -/")
	fmt.Println("def ctorWrites : List (String × List String × List String × List String × List String × List String) := [")
	for i, r := range reps {
		c := ","
		if i == len(reps)-1 {
			c = ""
		}
		fmt.Printf("  (%q, %s, %s, %s, %s, %s)%s\n", r.name, keys(r.init), keys(r.closure), keys(r.opAssign), keys(r.callees), keys(r.addrOf), c)
	}
	fmt.Println("]")
	fmt.Printf("/-- constructors passed to registerTrans -/\ndef registered : List String := %s\n", keys(registered))
	var rn []string
	for n := range regNames {
		rn = append(rn, n)
	}
	sort.Strings(rn)
	fmt.Println("/-- the registry `projections`: lower-case name (blanks written _) ↦ constructor, from the registerTrans calls -/")
	fmt.Println("def regNames : List (String × String) := [")
	for i, n := range rn {
		c := ","
		if i == len(rn)-1 {
			c = ""
		}
		fmt.Printf("  (%q, %q)%s\n", n, regNames[n], c)
	}
	fmt.Println("]")
	pathReport(pkgs)
	fmt.Println("end GeomV.C10.Gen")
}

// ---- the functions on the call path of a transformer ------------------------------------------------

var pathFuncs = []string{"NewTransform", "transform3", "checkNotWGS", "adjust_axis", "Transformers", "datumTransform",
	"compare_datums", "geodetic_to_geocentric", "geocentric_to_geodetic", "geocentric_to_wgs84", "geocentric_from_wgs84"}

func ptrTo(e ast.Expr) string {
	if st, ok := e.(*ast.StarExpr); ok {
		if id, ok := st.X.(*ast.Ident); ok && (id.Name == "SR" || id.Name == "datum") {
			return id.Name
		}
	}
	return ""
}

// pathReport lists, for every function on the call path, the fields assigned through its *SR / *datum
// parameters and receiver (closures included: NewTransform's closure IS the transformer), and what those
// parameters are passed to / which of their methods are called.
func pathReport(pkgs map[string]*ast.Package) {
	type row struct {
		name           string
		writes, passes map[string]bool
	}
	var rows []row
	for _, pkg := range pkgs {
		for _, f := range pkg.Files {
			for _, d := range f.Decls {
				fd, ok := d.(*ast.FuncDecl)
				if !ok || fd.Body == nil {
					continue
				}
				on := false
				for _, n := range pathFuncs {
					on = on || n == fd.Name.Name
				}
				if !on {
					continue
				}
				params := map[string]bool{}
				add := func(fl *ast.FieldList) {
					if fl == nil {
						return
					}
					for _, p := range fl.List {
						if ptrTo(p.Type) != "" {
							for _, n := range p.Names {
								params[n.Name] = true
							}
						}
					}
				}
				add(fd.Recv)
				add(fd.Type.Params)
				r := row{fd.Name.Name, map[string]bool{}, map[string]bool{}}
				lhs := func(e ast.Expr) {
					// p.F  or  p.datum.F
					if sel, ok := e.(*ast.SelectorExpr); ok {
						switch x := sel.X.(type) {
						case *ast.Ident:
							if params[x.Name] {
								r.writes[x.Name+"."+sel.Sel.Name] = true
							}
						case *ast.SelectorExpr:
							if id, ok := x.X.(*ast.Ident); ok && params[id.Name] {
								r.writes[id.Name+"."+x.Sel.Name+"."+sel.Sel.Name] = true
							}
						}
					}
					// p.F[i] = …
					if ix, ok := e.(*ast.IndexExpr); ok {
						if sel, ok := ix.X.(*ast.SelectorExpr); ok {
							if id, ok := sel.X.(*ast.Ident); ok && params[id.Name] {
								r.writes[id.Name+"."+sel.Sel.Name+"[]"] = true
							}
						}
					}
				}
				ast.Inspect(fd.Body, func(n ast.Node) bool {
					switch t := n.(type) {
					case *ast.AssignStmt:
						for _, l := range t.Lhs {
							lhs(l)
						}
					case *ast.IncDecStmt:
						lhs(t.X)
					case *ast.CallExpr:
						if sel, ok := t.Fun.(*ast.SelectorExpr); ok {
							if id, ok := sel.X.(*ast.Ident); ok && params[id.Name] {
								r.passes["method "+sel.Sel.Name] = true
							}
						}
						for _, a := range t.Args {
							if id, ok := a.(*ast.Ident); ok && params[id.Name] {
								switch fn := t.Fun.(type) {
								case *ast.Ident:
									r.passes["arg-of "+fn.Name] = true
								case *ast.SelectorExpr:
									r.passes["arg-of "+fn.Sel.Name] = true
								default:
									r.passes["arg-of (indirect)"] = true
								}
							}
						}
					}
					return true
				})
				rows = append(rows, r)
			}
		}
	}
	sort.Slice(rows, func(i, j int) bool { return rows[i].name < rows[j].name })
	fmt.Println("/-- (function on the transformer's call path, fields assigned through its *SR/*datum parameters, what it passes them to) -/")
	fmt.Println("def pathWrites : List (String × List String × List String) := [")
	for i, r := range rows {
		c := ","
		if i == len(rows)-1 {
			c = ""
		}
		fmt.Printf("  (%q, %s, %s)%s\n", r.name, keys(r.writes), keys(r.passes), c)
	}
	fmt.Println("]")
}
