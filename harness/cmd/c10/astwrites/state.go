package main

// Fourth output of astwrites (`astwrites <repo>/proj state`): hidden state.  "A Transformer is a function of
// its arguments only" fails as soon as something on the call path keeps state between calls: a captured
// variable the closure assigns (the snapshot's `source = wgs84`), a package-level cache or scratch buffer.
// For every function on a transformer's call path, every projection constructor, every function literal
// inside them, and the eight Transform methods of <repo>/transform.go this lists the WRITES WHOSE ROOT
// IDENTIFIER IS NOT DECLARED IN THAT FUNCTION (parameters, results, locals): assignments `x = …`, `x op= …`,
// `x++`, stores `x[i] = …`, `x.f = …`, `*x = …`, and `&x`.  Function literals are analysed on their own:
// for them the enclosing function's variables are non-local (captured).  It also lists the package-level
// `var`s of package proj and of transform.go.  `Ties/State.lean` compares both with the expected lists.

import (
	"fmt"
	"go/ast"
	"go/parser"
	"go/token"
	"path/filepath"
	"sort"
	"strings"
)

func declaredIn(ft *ast.FuncType, recv *ast.FieldList, body *ast.BlockStmt) map[string]bool {
	d := map[string]bool{}
	add := func(fl *ast.FieldList) {
		if fl == nil {
			return
		}
		for _, f := range fl.List {
			for _, n := range f.Names {
				d[n.Name] = true
			}
		}
	}
	add(recv)
	add(ft.Params)
	add(ft.Results)
	ast.Inspect(body, func(n ast.Node) bool {
		switch t := n.(type) {
		case *ast.FuncLit:
			return false
		case *ast.AssignStmt:
			if t.Tok == token.DEFINE {
				for _, l := range t.Lhs {
					if id, ok := l.(*ast.Ident); ok {
						d[id.Name] = true
					}
				}
			}
		case *ast.ValueSpec:
			for _, n := range t.Names {
				d[n.Name] = true
			}
		case *ast.RangeStmt:
			if t.Tok == token.DEFINE {
				for _, e := range []ast.Expr{t.Key, t.Value} {
					if id, ok := e.(*ast.Ident); ok {
						d[id.Name] = true
					}
				}
			}
		case *ast.TypeSwitchStmt:
			if a, ok := t.Assign.(*ast.AssignStmt); ok {
				for _, l := range a.Lhs {
					if id, ok := l.(*ast.Ident); ok {
						d[id.Name] = true
					}
				}
			}
		}
		return true
	})
	return d
}

func rootOf(e ast.Expr) (string, string) { // root identifier, kind
	kind := "assign"
	for {
		switch t := e.(type) {
		case *ast.Ident:
			return t.Name, kind
		case *ast.SelectorExpr:
			e, kind = t.X, "field"
		case *ast.IndexExpr:
			e, kind = t.X, "store"
		case *ast.StarExpr:
			e, kind = t.X, "deref"
		case *ast.ParenExpr:
			e = t.X
		case *ast.SliceExpr:
			e = t.X
		default:
			return "", kind
		}
	}
}

type stateRow struct {
	name   string
	writes map[string]bool
}

func analyseFunc(name string, ft *ast.FuncType, recv *ast.FieldList, body *ast.BlockStmt, rows *[]stateRow) {
	decl := declaredIn(ft, recv, body)
	r := stateRow{name, map[string]bool{}}
	nLit := 0
	flag := func(e ast.Expr, forceKind string) {
		root, kind := rootOf(e)
		if forceKind != "" {
			kind = forceKind
		}
		if root == "" || root == "_" || decl[root] {
			return
		}
		r.writes[kind+" "+root] = true
	}
	ast.Inspect(body, func(n ast.Node) bool {
		switch t := n.(type) {
		case *ast.FuncLit:
			nLit++
			analyseFunc(fmt.Sprintf("%s/func%d", name, nLit), t.Type, nil, t.Body, rows)
			return false
		case *ast.AssignStmt:
			if t.Tok != token.DEFINE {
				for _, l := range t.Lhs {
					flag(l, "")
				}
			}
		case *ast.IncDecStmt:
			flag(t.X, "")
		case *ast.RangeStmt:
			if t.Tok == token.ASSIGN {
				if t.Key != nil {
					flag(t.Key, "")
				}
				if t.Value != nil {
					flag(t.Value, "")
				}
			}
		case *ast.UnaryExpr:
			if t.Op == token.AND {
				flag(t.X, "addr")
			}
		case *ast.GoStmt:
			r.writes["go statement"] = true
		}
		return true
	})
	*rows = append(*rows, r)
}

func stateReport(dir string, fset *token.FileSet, pkgs map[string]*ast.Package) {
	var rows []stateRow
	var globals []string
	onPath := map[string]bool{}
	for _, n := range pathFuncs {
		onPath[n] = true
	}
	visit := func(f *ast.File, all bool, prefix string) {
		for _, d := range f.Decls {
			switch t := d.(type) {
			case *ast.GenDecl:
				if t.Tok == token.VAR {
					for _, sp := range t.Specs {
						for _, n := range sp.(*ast.ValueSpec).Names {
							globals = append(globals, prefix+n.Name)
						}
					}
				}
			case *ast.FuncDecl:
				if t.Body == nil {
					continue
				}
				_, ctor := isCtor(t)
				if all && t.Name.Name == "Transform" && t.Recv != nil {
					rt := ""
					if len(t.Recv.List) == 1 {
						switch x := t.Recv.List[0].Type.(type) {
						case *ast.Ident:
							rt = x.Name
						case *ast.StarExpr:
							if id, ok := x.X.(*ast.Ident); ok {
								rt = "*" + id.Name
							}
						}
					}
					analyseFunc(prefix+rt+".Transform", t.Type, t.Recv, t.Body, &rows)
				} else if !all && (onPath[t.Name.Name] || ctor) && t.Name.Name != "init" {
					analyseFunc(prefix+t.Name.Name, t.Type, t.Recv, t.Body, &rows)
				}
			}
		}
	}
	// transitive closure of the call graph inside package proj (by function / method NAME), starting from
	// the call path and the constructors: helpers such as adjust_lon, msfnz, Parse join the analysed set
	decls := map[string][]*ast.FuncDecl{}
	for _, pkg := range pkgs {
		for _, f := range pkg.Files {
			for _, d := range f.Decls {
				if fd, ok := d.(*ast.FuncDecl); ok && fd.Body != nil {
					decls[fd.Name.Name] = append(decls[fd.Name.Name], fd)
					if _, c := isCtor(fd); c {
						onPath[fd.Name.Name] = true
					}
				}
			}
		}
	}
	for changed := true; changed; {
		changed = false
		for n := range onPath {
			for _, fd := range decls[n] {
				ast.Inspect(fd.Body, func(x ast.Node) bool {
					if c, ok := x.(*ast.CallExpr); ok {
						callee := ""
						switch f := c.Fun.(type) {
						case *ast.Ident:
							callee = f.Name
						case *ast.SelectorExpr:
							callee = f.Sel.Name
						}
						if callee != "" && len(decls[callee]) > 0 && !onPath[callee] {
							onPath[callee] = true
							changed = true
						}
					}
					return true
				})
			}
		}
	}
	for _, pkg := range pkgs {
		var names []string
		for n := range pkg.Files {
			names = append(names, n)
		}
		sort.Strings(names)
		for _, n := range names {
			visit(pkg.Files[n], false, "proj.")
		}
	}
	if f, err := parser.ParseFile(fset, filepath.Join(dir, "..", "transform.go"), nil, 0); err == nil {
		visit(f, true, "geom.")
	} else {
		rows = append(rows, stateRow{"geom.<transform.go unreadable>", map[string]bool{err.Error(): true}})
	}
	sort.Slice(rows, func(i, j int) bool { return rows[i].name < rows[j].name })
	sort.Strings(globals)
	fmt.Println("/- GENERATED by harness/cmd/c10/astwrites (mode state) from /repo/proj/*.go and /repo/transform.go on every check run; do not edit. -/")
	fmt.Println("namespace GeomV.C10.Gen")
	fmt.Println("/-- (function or function literal, its writes whose root identifier is not declared in it) — only non-empty rows -/")
	fmt.Println("def nonlocalWrites : List (String × List String) := [")
	var lines []string
	for _, r := range rows {
		if len(r.writes) > 0 {
			lines = append(lines, fmt.Sprintf("  (%q, %s)", r.name, keys(r.writes)))
		}
	}
	fmt.Println(strings.Join(lines, ",\n"))
	fmt.Println("]")
	fmt.Println("/-- every function and function literal analysed -/")
	var all []string
	for _, r := range rows {
		all = append(all, fmt.Sprintf("%q", r.name))
	}
	fmt.Printf("def analysed : List String := [%s]\n", strings.Join(all, ", "))
	q := make([]string, len(globals))
	for i, g := range globals {
		q[i] = fmt.Sprintf("%q", g)
	}
	fmt.Printf("/-- package-level variables of package proj (non-test files) and of transform.go -/\ndef packageVars : List String := [%s]\n", strings.Join(q, ", "))
	fmt.Println("end GeomV.C10.Gen")
}
