package main

// Eighth output of astwrites (`astwrites <repo>/proj datumbody`): the WHOLE body of datumTransform
// (proj/datum_transform.go) and the returned expression of checkDatumParams, statement by statement, as terms of
// the little language of lean/GeomV/C10/DatumIR.lean.  One syntactic form per IR constructor; anything else
// becomes `.other "<source>"`, on which the interpreter is stuck, so the tie (Ties/DatumBody.lean) fails to build.

import (
	"fmt"
	"go/ast"
	"go/token"
	"strings"
)

type datTr struct{ sl *slicer }

func (d *datTr) tyex(e ast.Expr) string {
	if p, f, ok := sel2(e); ok && f == "datum_type" {
		return fmt.Sprintf("(.fld %q)", p)
	}
	if n, ok := identName(e); ok {
		return fmt.Sprintf("(.var %q)", n)
	}
	return fmt.Sprintf("(.other %q)", d.sl.src(e))
}

func (d *datTr) bex(e ast.Expr) string {
	other := fmt.Sprintf("(.other %q)", d.sl.src(e))
	switch x := e.(type) {
	case *ast.ParenExpr:
		return d.bex(x.X)
	case *ast.BinaryExpr:
		switch x.Op {
		case token.LOR:
			return fmt.Sprintf("(.or %s %s)", d.bex(x.X), d.bex(x.Y))
		case token.EQL:
			if c, ok := identName(x.Y); ok {
				return fmt.Sprintf("(.tyEq %s %q)", d.tyex(x.X), c)
			}
		case token.NEQ:
			p, f, ok1 := sel2(x.X)
			q, g, ok2 := sel2(x.Y)
			if ok1 && ok2 {
				return fmt.Sprintf("(.fne %q %q %q %q)", p, f, q, g)
			}
		}
	case *ast.CallExpr:
		if isIdent(x.Fun, "checkDatumParams") && len(x.Args) == 1 {
			return fmt.Sprintf("(.cdp %s)", d.tyex(x.Args[0]))
		}
	}
	return other
}

func isNaNCall(e ast.Expr) bool {
	c, ok := e.(*ast.CallExpr)
	if !ok || len(c.Args) != 0 {
		return false
	}
	a, b, ok := sel2(c.Fun)
	return ok && a == "math" && b == "NaN"
}

// retNaNErr matches `return math.NaN(), math.NaN(), math.NaN(), err`
func retNaNErr(s ast.Stmt) bool {
	r, ok := s.(*ast.ReturnStmt)
	return ok && len(r.Results) == 4 && isNaNCall(r.Results[0]) && isNaNCall(r.Results[1]) && isNaNCall(r.Results[2]) && isIdent(r.Results[3], "err")
}

// retXYZ matches `return x, y, z, nil`
func retXYZ(s ast.Stmt) bool {
	r, ok := s.(*ast.ReturnStmt)
	return ok && len(r.Results) == 4 && isIdent(r.Results[0], "x") && isIdent(r.Results[1], "y") && isIdent(r.Results[2], "z") && isIdent(r.Results[3], "nil")
}

// methodXYZ matches p.m(x, y, z)
func methodXYZ(e ast.Expr) (string, string, bool) {
	c, ok := e.(*ast.CallExpr)
	if !ok || len(c.Args) != 3 || !isIdent(c.Args[0], "x") || !isIdent(c.Args[1], "y") || !isIdent(c.Args[2], "z") {
		return "", "", false
	}
	return sel2(c.Fun)
}

func (d *datTr) stmt(s ast.Stmt) string {
	other := func() string { return fmt.Sprintf(".other %q", d.sl.src(s)) }
	switch x := s.(type) {
	case *ast.DeclStmt:
		if d.sl.src(x) == "var err error" {
			return ".declErr"
		}
		gd, ok := x.Decl.(*ast.GenDecl)
		if !ok || gd.Tok != token.VAR || len(gd.Specs) != 1 {
			return other()
		}
		vs, ok := gd.Specs[0].(*ast.ValueSpec)
		if !ok || len(vs.Names) != 1 || len(vs.Values) != 1 || vs.Type != nil {
			return other()
		}
		p, f, ok := sel2(vs.Values[0])
		if !ok {
			return other()
		}
		if f == "datum_type" {
			return fmt.Sprintf(".declTy %q %q", vs.Names[0].Name, p)
		}
		return fmt.Sprintf(".save %q %q %q", vs.Names[0].Name, p, f)
	case *ast.IfStmt:
		if x.Init != nil || x.Else != nil {
			return other()
		}
		if a, m, ok := func() (string, string, bool) {
			c, ok := x.Cond.(*ast.CallExpr)
			if !ok || len(c.Args) != 1 {
				return "", "", false
			}
			r, m, ok := sel2(c.Fun)
			b, ok2 := identName(c.Args[0])
			if ok && ok2 && m == "compare_datums" {
				return r, b, true
			}
			return "", "", false
		}(); ok && len(x.Body.List) == 1 && retXYZ(x.Body.List[0]) {
			return fmt.Sprintf(".ifCompareRet %q %q", a, m)
		}
		if be, ok := x.Cond.(*ast.BinaryExpr); ok && be.Op == token.NEQ && isIdent(be.X, "err") && isIdent(be.Y, "nil") {
			if len(x.Body.List) == 1 && retNaNErr(x.Body.List[0]) {
				return ".ifErrRetNaN"
			}
			return other()
		}
		return fmt.Sprintf(".ite %s %s", d.bex(x.Cond), d.block(x.Body.List))
	case *ast.ReturnStmt:
		if retXYZ(x) {
			return ".retXYZ"
		}
		return other()
	case *ast.DeferStmt:
		fl, ok := x.Call.Fun.(*ast.FuncLit)
		if !ok || len(x.Call.Args) != 0 || len(fl.Type.Params.List) != 0 {
			return other()
		}
		var rs []string
		for _, st := range fl.Body.List {
			as, ok := st.(*ast.AssignStmt)
			if !ok || as.Tok != token.ASSIGN || len(as.Lhs) != 1 || len(as.Rhs) != 1 {
				return other()
			}
			p, f, ok1 := sel2(as.Lhs[0])
			l, ok2 := identName(as.Rhs[0])
			if !ok1 || !ok2 {
				return other()
			}
			rs = append(rs, fmt.Sprintf("(%q, %q, %q)", p, f, l))
		}
		return fmt.Sprintf(".deferRestore [%s]", strings.Join(rs, ", "))
	case *ast.AssignStmt:
		if len(x.Rhs) != 1 {
			return other()
		}
		if x.Tok == token.DEFINE && len(x.Lhs) == 1 {
			if n, ok := identName(x.Lhs[0]); ok {
				if st, ok := x.Rhs[0].(*ast.StarExpr); ok {
					if p, ok := identName(st.X); ok {
						return fmt.Sprintf(".copy %q %q", n, p)
					}
				}
			}
			return other()
		}
		if x.Tok != token.ASSIGN {
			return other()
		}
		if len(x.Lhs) == 1 {
			if dn, f, ok := sel2(x.Lhs[0]); ok {
				if c, ok := identName(x.Rhs[0]); ok {
					return fmt.Sprintf(".setC %q %q %q", dn, f, c)
				}
			}
			if p, ok := identName(x.Lhs[0]); ok {
				if u, ok := x.Rhs[0].(*ast.UnaryExpr); ok && u.Op == token.AND {
					if dn, ok := identName(u.X); ok {
						return fmt.Sprintf(".repoint %q %q", p, dn)
					}
				}
			}
			return other()
		}
		xyz := len(x.Lhs) >= 3 && isIdent(x.Lhs[0], "x") && isIdent(x.Lhs[1], "y") && isIdent(x.Lhs[2], "z")
		if p, m, ok := methodXYZ(x.Rhs[0]); ok && xyz {
			if len(x.Lhs) == 3 {
				return fmt.Sprintf(".call %q %q", m, p)
			}
			if len(x.Lhs) == 4 && isIdent(x.Lhs[3], "err") {
				return fmt.Sprintf(".callE %q %q", m, p)
			}
		}
		return other()
	}
	return other()
}

func (d *datTr) block(list []ast.Stmt) string {
	var out []string
	for i := 0; i < len(list); i++ {
		// err := fmt.Errorf(LIT); return math.NaN(), math.NaN(), math.NaN(), err
		if as, ok := list[i].(*ast.AssignStmt); ok && i+1 < len(list) && as.Tok == token.DEFINE && len(as.Lhs) == 1 && len(as.Rhs) == 1 && isIdent(as.Lhs[0], "err") && retNaNErr(list[i+1]) {
			if c, ok := as.Rhs[0].(*ast.CallExpr); ok && len(c.Args) == 1 {
				if a, b, ok := sel2(c.Fun); ok && a == "fmt" && b == "Errorf" {
					if lit, ok := c.Args[0].(*ast.BasicLit); ok && lit.Kind == token.STRING {
						out = append(out, fmt.Sprintf(".retErr %q", lit.Value))
						i++
						continue
					}
				}
			}
		}
		out = append(out, d.stmt(list[i]))
	}
	return "[" + strings.Join(out, ", ") + "]"
}

func datumBodyReport(fset *token.FileSet, pkgs map[string]*ast.Package) {
	fmt.Println("import GeomV.C10.DatumIR")
	fmt.Println("/- GENERATED by harness/cmd/c10/astwrites (mode datumbody) from /repo/proj/datum_transform.go on every check run; do not edit. -/")
	fmt.Println("namespace GeomV.C10.Gen")
	fmt.Println("open GeomV.C10.DIR")
	defer fmt.Println("end GeomV.C10.Gen")
	d := &datTr{sl: &slicer{fset: fset}}
	body, sig, cdp, cdpSig := "[.other \"datumTransform not found\"]", "", "(.other \"checkDatumParams not found\")", ""
	for _, pkg := range pkgs {
		for _, f := range pkg.Files {
			for _, dd := range f.Decls {
				fd, ok := dd.(*ast.FuncDecl)
				if !ok || fd.Body == nil || fd.Recv != nil {
					continue
				}
				if fd.Name.Name == "datumTransform" {
					body, sig = d.block(fd.Body.List), d.sl.src(fd.Type)
				}
				if fd.Name.Name == "checkDatumParams" {
					cdpSig = d.sl.src(fd.Type)
					cdp = fmt.Sprintf("(.other %q)", d.sl.src(fd.Body))
					if len(fd.Body.List) == 1 {
						if r, ok := fd.Body.List[0].(*ast.ReturnStmt); ok && len(r.Results) == 1 {
							cdp = d.bex(r.Results[0])
						}
					}
				}
			}
		}
	}
	fmt.Printf("def datumSig : String := %q\n", sig)
	fmt.Printf("def datumBody : List St := %s\n", body)
	fmt.Printf("def cdpSig : String := %q\n", cdpSig)
	fmt.Printf("def cdpBody : BEx := %s\n", cdp)
}
