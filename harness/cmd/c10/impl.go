package main

import (
	"bufio"
	"fmt"

	"verif/harness/vproto"
)

func impl() {
	vproto.Lines(func(line string, out *bufio.Writer) {
		p := vproto.NewParser(line)
		var res string
		pan := vproto.Safe(func() {
			switch p.Next() {
			case "gt":
				res = implGT(p)
			case "h":
				res = implHist(p)
			case "cc":
				res = implCC(p)
			default:
				res = "badline"
			}
		})
		if pan != "" {
			res = "harness-panic " + pan
		}
		fmt.Fprintf(out, "%s => %s\n", line, res)
		out.Flush()
	})
}
