package main

import (
	"bufio"
	"fmt"
	"math"
	"os"
	"strings"

	"github.com/ctessum/geom/proj"

	"verif/harness/vproto"
)

// catalogue of spatial references; lon/lat is a point well inside the projection's domain
type srDef struct {
	def      string
	lon, lat float64
	class    string // wgs | wgsl | d3 | d7 | none | grid | named | bad
}

// WKT definitions (no blanks inside, so that they survive the line format).  Their datum code is the
// lower-case "wgs84" (wkt.go datumRename), which checkNotWGS must recognise as WGS84 (fix b165df1).
const wktGeogWGS = `GEOGCS["GCS_WGS_1984",DATUM["D_WGS_1984",SPHEROID["WGS_1984",6378137,298.257223563]],PRIMEM["Greenwich",0],UNIT["Degree",0.017453292519943295]]`

func wktProj(name, projection, params, unit string) string {
	return `PROJCS["` + name + `",` + wktGeogWGS + `,PROJECTION["` + projection + `"],` + params + `,` + unit + `]`
}

var (
	wktUTM33 = wktProj("WGS_1984_UTM_Zone_33N", "Transverse_Mercator", `PARAMETER["latitude_of_origin",0],PARAMETER["central_meridian",15],PARAMETER["scale_factor",0.9996],PARAMETER["false_easting",500000],PARAMETER["false_northing",0]`, `UNIT["Meter",1]`)
	wktMerc  = wktProj("World_Mercator", "Mercator", `PARAMETER["central_meridian",0],PARAMETER["false_easting",0],PARAMETER["false_northing",0]`, `UNIT["Meter",1]`)
	wktLCC   = wktProj("lcc_us_ft", "Lambert_Conformal_Conic", `PARAMETER["standard_parallel_1",33],PARAMETER["standard_parallel_2",45],PARAMETER["latitude_of_origin",40],PARAMETER["central_meridian",-97],PARAMETER["false_easting",0],PARAMETER["false_northing",0]`, `UNIT["Foot_US",0.3048006096012192]`)
	wktAEA   = wktProj("albers", "Albers_Conic_Equal_Area", `PARAMETER["standard_parallel_1",29.5],PARAMETER["standard_parallel_2",45.5],PARAMETER["latitude_of_origin",23],PARAMETER["central_meridian",-96],PARAMETER["false_easting",0],PARAMETER["false_northing",0]`, `UNIT["Meter",1]`)
)

var catalogue = []srDef{
	// WGS84-equivalent datums (no hop)
	{"+proj=longlat +datum=WGS84", 10, 50, "wgs"},
	{"+proj=longlat +ellps=GRS80 +datum=NAD83", -100, 40, "wgs"},
	{"+proj=utm +zone=33 +datum=WGS84", 15, 50, "wgs"},
	{"+proj=utm +zone=18 +south +datum=WGS84 +units=m", -75, -30, "wgs"},
	{"+proj=utm +zone=33 +ellps=GRS80 +towgs84=0,0,0,0,0,0,0 +units=m +no_defs", 15, 58, "wgs"},
	{"+proj=merc +lon_0=0 +k=1 +x_0=0 +y_0=0 +ellps=WGS84 +datum=WGS84 +units=m", 20, 30, "wgs"},
	{"+proj=merc +lon_0=5.937 +lat_ts=45.027 +ellps=WGS84 +datum=WGS84", 6, 45, "wgs"},
	{"+proj=lcc +lat_1=33 +lat_2=45 +lat_0=40 +lon_0=-97 +x_0=0 +y_0=0 +ellps=GRS80 +datum=NAD83 +units=m", -97, 40, "wgs"},
	{"+proj=lcc +lat_1=49 +lat_2=44 +lat_0=46.5 +lon_0=3 +x_0=700000 +y_0=6600000 +ellps=GRS80 +datum=WGS84 +units=us-ft", 3, 46, "wgs"},
	{"+proj=aea +lat_1=29.5 +lat_2=45.5 +lat_0=23 +lon_0=-96 +x_0=0 +y_0=0 +ellps=GRS80 +datum=NAD83 +units=m", -96, 35, "wgs"},
	{"+proj=tmerc +lat_0=0 +lon_0=9 +k=0.9996 +x_0=500000 +y_0=0 +datum=WGS84 +units=ft", 9, 48, "wgs"},
	{"+proj=eqdc +lat_0=40 +lon_0=-96 +lat_1=20 +lat_2=60 +x_0=0 +y_0=0 +datum=WGS84 +units=m", -96, 40, "wgs"},
	// authalic-sphere flag +R_A (DeriveConstants shrinks A in place), +rf, +from_greenwich, +to_meter
	{"+proj=merc +lon_0=0 +k=1 +x_0=0 +y_0=0 +ellps=WGS84 +datum=WGS84 +units=m +R_A", 20, 30, "wgs"},
	{"+proj=longlat +ellps=WGS84 +datum=WGS84 +R_A", 10, 45, "wgs"},
	{"+proj=aea +lat_1=29.5 +lat_2=45.5 +lat_0=23 +lon_0=-96 +x_0=0 +y_0=0 +ellps=GRS80 +datum=NAD83 +R_A", -96, 35, "wgs"},
	{"+proj=lcc +lat_1=33 +lat_2=45 +lat_0=40 +lon_0=-97 +x_0=0 +y_0=0 +ellps=clrk66 +datum=WGS84 +R_A +units=us-ft", -97, 40, "wgs"},
	{"+proj=merc +a=6378137 +rf=298.257223563 +lon_0=0 +datum=WGS84 +to_meter=0.3048", 20, 30, "wgs"},
	{"+proj=tmerc +lat_0=0 +lon_0=9 +k=1 +x_0=0 +y_0=0 +ellps=WGS84 +datum=WGS84 +from_greenwich=2.5", 12, 48, "wgs"},
	{"+proj=utm +zone=33 +ellps=bessel +towgs84=598.1,73.7,418.2,0.202,0.045,-2.455,6.7 +R_A", 15, 50, "d7"},
	{"+proj=tmerc +lat_0=0 +lon_0=9 +k=1 +x_0=0 +y_0=0 +ellps=intl +R_A +to_meter=0.3048 +pm=paris +towgs84=-87,-98,-121", 12, 45, "d3"},
	{"+proj=eqdc +lat_0=40 +lon_0=10 +lat_1=30 +lat_2=50 +x_0=0 +y_0=0 +ellps=bessel +R_A", 10, 40, "none"},
	// WGS84 with the datum code in lower case: WKT references and `+datum=wgs84` (checkNotWGS compares
	// the code case-insensitively since fix b165df1; against a 3-/7-parameter source the hop is decided by it)
	{wktGeogWGS, 10, 50, "wgsl"},
	{`GEOGCS["WGS_84",DATUM["WGS_1984",SPHEROID["WGS_84",6378137,298.257223563]],PRIMEM["Greenwich",0],UNIT["degree",0.0174532925199433]]`, 10, 50, "wgsl"},
	{wktUTM33, 15, 50, "wgsl"},
	{wktMerc, 20, 30, "wgsl"},
	{wktLCC, -97, 40, "wgsl"},
	{wktAEA, -96, 35, "wgsl"},
	{"+proj=longlat +datum=wgs84", 10, 50, "wgsl"},
	{"+proj=utm +zone=33 +datum=wgs84", 15, 50, "wgsl"},
	{"+proj=longlat +ellps=WGS84 +datum=Wgs84 +no_defs", 10, 50, "wgsl"},
	// 3-parameter datums (hop through WGS84 unless the other side says +datum=WGS84)
	{"+proj=longlat +datum=potsdam", 10, 51, "d3"},
	{"+proj=tmerc +lat_0=0 +lon_0=9 +k=1 +x_0=3500000 +y_0=0 +datum=potsdam +units=m", 9, 51, "d3"},
	{"+proj=longlat +ellps=intl +towgs84=-87,-98,-121", 5, 45, "d3"},
	{"+proj=utm +zone=33 +ellps=GRS80 +towgs84=1,2,3", 15, 50, "d3"},
	{"+proj=utm +zone=32 +ellps=intl +towgs84=-87,-98,-121 +units=m", 9, 45, "d3"},
	{"+proj=longlat +datum=carthage", 10, 35, "d3"},
	{"+proj=lcc +lat_1=36 +lat_0=36 +lon_0=9.9 +k_0=0.999625544 +x_0=500000 +y_0=300000 +datum=carthage +units=m", 10, 36, "d3"},
	{"+proj=merc +lon_0=0 +k=1 +x_0=0 +y_0=0 +datum=hermannskogel +units=m", 15, 47, "d3"},
	{"+proj=longlat +datum=ch1903 +pm=bern", 1, 47, "d3"},
	{"+proj=longlat +ellps=bessel +towgs84=674.374,15.056,405.346 +pm=2.337229166667", 5, 47, "d3"},
	// 7-parameter datums
	{"+proj=longlat +datum=ire65", -8, 53, "d7"},
	{"+proj=tmerc +lat_0=53.5 +lon_0=-8 +k=1.000035 +x_0=200000 +y_0=250000 +datum=ire65 +units=m", -8, 53, "d7"},
	{"+lon_0=15.808277777799999 +lat_0=0.0 +k=1.0 +x_0=1500000.0 +y_0=0.0 +proj=tmerc +ellps=bessel +units=m +towgs84=414.1,41.3,603.1,-0.855,2.141,-7.023,0 +no_defs", 16, 58, "d7"},
	{"+proj=longlat +ellps=bessel +towgs84=598.1,73.7,418.2,0.202,0.045,-2.455,6.7", 10, 50, "d7"},
	{"+proj=krovak +lat_0=49.5 +lon_0=24.83333333333333 +alpha=30.28813972222222 +k=0.9999 +x_0=0 +y_0=0 +ellps=bessel +pm=greenwich +units=m +no_defs +towgs84=570.8,85.7,462.8,4.998,1.587,5.261,3.56", 15, 50, "d7"},
	{"+proj=aea +lat_1=43 +lat_2=62 +lat_0=30 +lon_0=10 +x_0=0 +y_0=0 +ellps=intl +towgs84=-87,-98,-121,0.1,0.2,0.3,1.5 +units=m", 10, 50, "d7"},
	// no datum
	{"+proj=longlat +ellps=bessel", 10, 50, "none"},
	{"+proj=merc +lon_0=5.937 +lat_ts=45.027 +ellps=sphere +datum=none", 6, 45, "none"},
	{"+proj=merc +a=6378137 +b=6378137 +lat_ts=0.0 +lon_0=0.0 +x_0=0.0 +y_0=0 +units=m +k=1.0 +nadgrids=@null +no_defs", 10, 40, "none"},
	// grid-shift datums (not supported: the datum step reports an error unless both sides name the same grids)
	{"+proj=longlat +ellps=bessel +nadgrids=foo", 10, 50, "grid"},
	{"+proj=utm +zone=33 +ellps=bessel +nadgrids=foo", 15, 50, "grid"},
	{"+proj=longlat +ellps=clrk66 +nadgrids=bar", -100, 40, "grid"},
	// registry entries (shared process-wide objects)
	{"WGS84", 10, 50, "named"},
	{"EPSG:4326", 10, 50, "named"},
	{"EPSG:4269", -100, 40, "named"},
	{"EPSG:3857", 10, 40, "named"},
	{"GOOGLE", 10, 40, "named"},
	// projections whose constructor fails (every call returns that error)
	{"+proj=utm +datum=WGS84", 15, 50, "bad"},
	{"+proj=nosuchprojection +datum=WGS84", 15, 50, "bad"},
	{"+proj=lcc +lat_1=10 +lat_2=-10 +lat_0=0 +lon_0=0 +datum=potsdam", 0, 0, "bad"},
	{"+proj=eqdc +lat_0=0 +lon_0=0 +lat_1=20 +lat_2=-20 +ellps=bessel +towgs84=1,2,3", 0, 0, "bad"},
	// +lat_2 defaulted from a +lat_1 (near) 0: the parallels check must give the same answer on every run
	{"+proj=eqdc +lat_0=0 +lon_0=0 +lat_1=0 +x_0=0 +y_0=0 +datum=WGS84", 5, 5, "bad"},
	{"+proj=eqdc +lat_0=0 +lon_0=0 +lat_1=0.000000001 +x_0=0 +y_0=0 +ellps=bessel +towgs84=1,2,3", 5, 5, "bad"},
	{"+proj=lcc +lat_0=0 +lon_0=0 +lat_1=0 +x_0=0 +y_0=0 +datum=WGS84", 5, 5, "bad"},
}

// pairs of definitions "identical except one parameter SET vs OMITTED": the constructors write first-use
// defaults for the omitted ones, so NewTransform's "source equals dest -> nil" answer must not depend on
// whether an SR has been used before.  val = a value different from the default, dflt = the default.
type optParam struct {
	base      string
	lon, lat  float64
	name      string
	val, dflt string
}

var optParams = []optParam{
	{"+proj=merc +ellps=WGS84 +datum=WGS84", 10, 40, "lon_0", "10", "0"},
	{"+proj=merc +ellps=WGS84 +datum=WGS84", 10, 40, "x_0", "1000", "0"},
	{"+proj=merc +ellps=WGS84 +datum=WGS84", 10, 40, "y_0", "2000", "0"},
	{"+proj=merc +ellps=WGS84 +datum=WGS84", 10, 40, "lat_ts", "30", "0"},
	{"+proj=merc +ellps=WGS84 +datum=WGS84", 10, 40, "k_0", "0.9", "1"},
	{"+proj=lcc +lat_1=40 +lat_0=35 +lon_0=-97 +ellps=GRS80 +datum=NAD83", -97, 40, "lat_2", "50", "40"},
	{"+proj=lcc +lat_1=40 +lat_0=35 +lon_0=-97 +ellps=GRS80 +datum=NAD83", -97, 40, "x_0", "1000", "0"},
	{"+proj=lcc +lat_1=40 +lat_0=35 +lon_0=-97 +ellps=GRS80 +datum=NAD83", -97, 40, "y_0", "2000", "0"},
	{"+proj=lcc +lat_1=40 +lat_0=35 +lon_0=-97 +ellps=GRS80 +datum=NAD83", -97, 40, "k_0", "0.99", "1"},
	{"+proj=utm +zone=33 +datum=WGS84", 15, 50, "lon_0", "9", "15"},
	{"+proj=utm +zone=33 +datum=WGS84", 15, 50, "lat_0", "5", "0"},
	{"+proj=utm +zone=33 +datum=WGS84", 15, 50, "x_0", "1000", "500000"},
	{"+proj=utm +zone=33 +datum=WGS84", 15, 50, "y_0", "5", "0"},
	{"+proj=utm +zone=33 +datum=WGS84", 15, 50, "k_0", "0.9", "0.9996"},
	{"+proj=eqdc +lat_0=40 +lon_0=-96 +lat_1=20 +x_0=0 +y_0=0 +datum=WGS84", -96, 40, "lat_2", "60", "20"},
	{"+proj=krovak +ellps=bessel +towgs84=570.8,85.7,462.8,4.998,1.587,5.261,3.56", 15, 50, "lat_0", "49.5", "49.5"},
	{"+proj=krovak +ellps=bessel +towgs84=570.8,85.7,462.8,4.998,1.587,5.261,3.56", 15, 50, "lon_0", "24.83333333333333", "24.83333333333333"},
	{"+proj=tmerc +lon_0=9 +k=1 +x_0=0 +y_0=0 +datum=WGS84", 9, 48, "lat_0", "10", "0"},
}

// optLine: SR 0 omits the parameter, SR 1 sets it, SR 2 is plain long/lat.  Transformer 0 = (0,2) is
// called first (the constructor writes SR 0's defaults); the transformers between SR 0 and SR 1 are built
// afterwards, between calls.
func (g *histGen) optLine() string {
	r := g.r
	o := optParams[r.Intn(len(optParams))]
	v := o.val
	if r.Chance(0.35) {
		v = o.dflt
	}
	defs := []string{o.base, o.base + " +" + o.name + "=" + v, "+proj=longlat +datum=WGS84"}
	if r.Chance(0.3) { // the other way round: SR 0 sets, SR 1 omits
		defs[0], defs[1] = defs[1], defs[0]
	}
	pairs := [][2]int{{0, 2}, {0, 1}, {1, 0}, {2, 0}, {1, 2}}
	nC := r.Range(3, 10)
	late := []int{-1, r.Range(1, nC-1), r.Range(1, nC-1), -1, -1}
	if r.Chance(0.25) {
		late[1] = -1
	}
	var b strings.Builder
	fmt.Fprintf(&b, "h %d", len(defs))
	for _, d := range defs {
		b.WriteString(" " + enc(d))
	}
	fmt.Fprintf(&b, " | %d", len(pairs))
	for _, p := range pairs {
		fmt.Fprintf(&b, " %d %d", p[0], p[1])
	}
	fmt.Fprintf(&b, " | %d", nC)
	c := srDef{o.base, o.lon, o.lat, "wgs"}
	for i := 0; i < nC; i++ {
		t := r.Intn(len(pairs))
		if i == 0 || late[t] > i {
			t = 0
		}
		x, y := g.input(defs[pairs[t][0]], c)
		fmt.Fprintf(&b, " %d %s %s", t, vproto.F2H(x), vproto.F2H(y))
	}
	nL := 0
	for _, l := range late {
		if l >= 0 {
			nL++
		}
	}
	fmt.Fprintf(&b, " | %d", nL)
	for k, l := range late {
		if l >= 0 {
			fmt.Fprintf(&b, " %d %d", k, l)
		}
	}
	return b.String()
}

var axes = []string{"wnu", "neu", "esu", "wsu", "nwu", "swd", "end", "enu", "une", "dws", "sed"}

func byClass(c ...string) []int {
	var r []int
	for i, d := range catalogue {
		for _, cc := range c {
			if d.class == cc {
				r = append(r, i)
			}
		}
	}
	return r
}

func enc(def string) string { return strings.ReplaceAll(def, " ", ";") }

type histGen struct {
	r *vproto.Rng
}

// decorated definition: catalogue entry, possibly with a non-default axis order / prime meridian
func (g *histGen) decorate(i int, axisP float64) string {
	d := catalogue[i].def
	if catalogue[i].class == "named" || !strings.HasPrefix(d, "+") { // registry names and WKT take no PROJ.4 parameters
		return d
	}
	if g.r.Chance(axisP) {
		d += " +axis=" + axes[g.r.Intn(len(axes))]
	}
	if g.r.Chance(0.08) && !strings.Contains(d, "+pm=") {
		d += " +pm=" + []string{"paris", "lisbon", "2.5", "-17.666666666667"}[g.r.Intn(4)]
	}
	return d
}

// input picks a plausible input for a transformer whose source is def (coordinates near the catalogue
// centre, projected through the real code; this only chooses WHERE to test).
func (g *histGen) input(def string, c srDef) (float64, float64) {
	r := g.r
	switch r.Intn(12) {
	case 0:
		return 0, 0
	case 1:
		return (r.Float() - 0.5) * 1e8, (r.Float() - 0.5) * 1e8
	case 2:
		return []float64{math.NaN(), math.Inf(1), math.Inf(-1), 1e300, -1e-300}[r.Intn(5)], (r.Float() - 0.5) * 100
	case 3:
		return (r.Float() - 0.5) * 400, (r.Float() - 0.5) * 200
	}
	spread := []float64{0.01, 1, 3, 8}[r.Intn(4)]
	lon := c.lon + (r.Float()-0.5)*2*spread
	lat := c.lat + (r.Float()-0.5)*2*spread
	sr, err := proj.Parse(def)
	if err != nil {
		return lon, lat
	}
	if sr.Name == "longlat" {
		x, y := lon, lat
		if !math.IsNaN(sr.FromGreenwich) {
			x -= sr.FromGreenwich / deg2rad
		}
		for i := 0; i < 2 && i < len(sr.Axis); i++ {
			if sr.Axis[i] == 'w' || sr.Axis[i] == 's' {
				if i == 0 {
					x = -x
				} else {
					y = -y
				}
			}
		}
		return x, y
	}
	var x, y float64
	ok := false
	vproto.Safe(func() {
		w, _ := proj.Parse("+proj=longlat +datum=WGS84")
		t, err := w.NewTransform(sr)
		if err != nil || t == nil {
			return
		}
		a, b, err := t(lon, lat)
		if err == nil && !math.IsNaN(a) && !math.IsNaN(b) {
			x, y, ok = a, b, true
		}
	})
	if ok {
		return x, y
	}
	return lon * 100000, lat * 100000
}

// near returns an input that agrees with (x, y) in one coordinate, or differs from it by one ulp / 1e-10 /
// 1e-7 relative in the other: what an approximately keyed or half-keyed memo confuses with (x, y).
func near(k int, x, y float64) (float64, float64) {
	switch k {
	case 0:
		return x, math.Nextafter(y, math.Inf(1))
	case 1:
		return math.Nextafter(x, math.Inf(-1)), y
	case 2:
		return x, y + 1e-10
	case 3:
		return x + 1e-10, y
	case 4:
		return x, y * (1 + 1e-7)
	case 5:
		return x * (1 - 1e-7), y
	case 6:
		return x, y + 0.25 // same x, clearly different y
	default:
		return x - 0.25, y
	}
}

func (g *histGen) line(kind int) string {
	r := g.r
	var idx []int
	axisP := 0.1
	pick := func(cls ...string) int { c := byClass(cls...); return c[r.Intn(len(c))] }
	switch kind {
	case 0: // no datum hop
		idx = []int{pick("wgs"), pick("wgs", "named"), pick("wgs", "none")}
	case 1: // hop on the source side
		idx = []int{pick("d3", "d7"), pick("wgs", "none", "named"), pick("wgs")}
	case 2: // hop on the dest side
		idx = []int{pick("wgs", "none", "named"), pick("d3", "d7"), pick("wgs")}
	case 3: // both sides shifted
		idx = []int{pick("d3", "d7"), pick("d3", "d7"), pick("d3", "d7", "wgs")}
	case 4: // non-default axis order
		axisP = 0.8
		idx = []int{pick("wgs", "d3", "d7"), pick("wgs", "d3", "d7"), pick("wgs", "named")}
	case 5: // registry entries shared between transformers (and with the hop)
		idx = []int{pick("named"), pick("named"), pick("d3", "d7"), pick("wgs", "d3")}
	case 6: // grid shifts and failing constructors
		idx = []int{pick("grid"), pick("grid"), pick("wgs", "d3", "named"), pick("bad", "grid", "none")}
	case 7: // lower-case WGS84 datum code (WKT, +datum=wgs84) against shifted datums: the hop test reads the code
		idx = []int{pick("d3", "d7"), pick("wgsl"), pick("wgsl", "wgs", "named"), pick("d3", "d7", "wgsl")}
		if r.Chance(0.5) {
			idx[0], idx[1] = idx[1], idx[0]
		}
	default:
		n := r.Range(2, 5)
		for i := 0; i < n; i++ {
			idx = append(idx, r.Intn(len(catalogue)))
		}
	}
	if r.Chance(0.3) { // the same definition twice = two distinct objects with equal contents
		idx = append(idx, idx[r.Intn(len(idx))])
	}
	defs := make([]string, len(idx))
	for i, k := range idx {
		defs[i] = g.decorate(k, axisP)
	}
	// transformers: all share the SR objects above
	nT := r.Range(1, 6)
	var pt0 bool
	var p0x, p0y float64
	type pr struct{ s, d int }
	var pairs []pr
	for len(pairs) < nT {
		s, d := r.Intn(len(idx)), r.Intn(len(idx))
		if s == d && !r.Chance(0.05) {
			continue
		}
		pairs = append(pairs, pr{s, d})
	}
	if len(idx) >= 2 { // the stratum's characteristic pair is always present, in both directions
		pairs[0] = pr{0, 1}
		if nT > 1 {
			pairs[1] = pr{1, 0}
		}
	}
	nC := r.Range(2, 50)
	if r.Chance(0.5) {
		nC = r.Range(2, 8)
	}
	// NewTransform as a history step: some transformers are built BETWEEN calls of the others
	// (late[k] = index of the call before which transformer k is built; -1 = before the first call)
	late := make([]int, len(pairs))
	for k := range late {
		late[k] = -1
		if k > 0 && r.Chance(0.45) {
			late[k] = r.Range(1, nC-1)
		}
	}
	var b strings.Builder
	fmt.Fprintf(&b, "h %d", len(defs))
	for _, d := range defs {
		b.WriteString(" " + enc(d))
	}
	fmt.Fprintf(&b, " | %d", len(pairs))
	for _, p := range pairs {
		fmt.Fprintf(&b, " %d %d", p.s, p.d)
	}
	fmt.Fprintf(&b, " | %d", nC)
	var px, py float64
	pt := -1
	for i := 0; i < nC; i++ {
		t := r.Intn(len(pairs))
		if late[t] > i { // not built yet: call the first transformer again (before/after the build)
			t = 0
		}
		var x, y float64
		if t == pt && r.Chance(0.3) { // same transformer, same input again
			x, y = px, py
		} else if t == pt && r.Chance(0.25) { // same transformer, a NEAR duplicate of its previous input
			// (caches keyed approximately, by one coordinate only, or by a rounded key answer from the wrong entry)
			x, y = near(r.Intn(8), px, py)
		} else if t == 0 && pt0 && r.Chance(0.5) { // the first transformer's first input again, later
			x, y = p0x, p0y
		} else {
			x, y = g.input(defs[pairs[t].s], catalogue[idx[pairs[t].s]])
		}
		if t == 0 && !pt0 {
			pt0, p0x, p0y = true, x, y
		}
		pt, px, py = t, x, y
		fmt.Fprintf(&b, " %d %s %s", t, vproto.F2H(x), vproto.F2H(y))
	}
	nL := 0
	for _, l := range late {
		if l >= 0 {
			nL++
		}
	}
	fmt.Fprintf(&b, " | %d", nL)
	for k, l := range late {
		if l >= 0 {
			fmt.Fprintf(&b, " %d %d", k, l)
		}
	}
	return b.String()
}

// ccGridLine: a pair of grid-shift references naming the same grids (the one grid-shift case that works: the
// datum step is the identity) called while other transformers whose DESTINATION is one of the two are running.
// datumTransform needs the WGS84 constants in place of a grid-shift destination's a/es: if it puts them into
// the shared datum, even for the duration of a call, the pair's compare_datums sees them (fix 70faba2).
func (g *histGen) ccGridLine() string {
	r := g.r
	gridA := []string{"+proj=longlat +ellps=bessel +nadgrids=foo", "+proj=longlat +ellps=clrk66 +nadgrids=bar"}[r.Intn(2)]
	gridB := strings.Replace(gridA, "+proj=longlat", "+proj=utm +zone=33", 1)
	if r.Chance(0.3) {
		gridB = gridA + " +pm=paris"
	}
	others := byClass("wgs", "d3", "d7", "named", "wgsl")
	o1, o2 := catalogue[others[r.Intn(len(others))]], catalogue[others[r.Intn(len(others))]]
	defs := []string{gridA, gridB, o1.def, o2.def}
	cat := []srDef{{gridA, 10, 50, "grid"}, {gridB, 15, 50, "grid"}, o1, o2}
	pairs := [][2]int{{0, 1}, {1, 0}, {2, 0}, {2, 1}, {3, 1}, {3, 0}, {2, 3}}
	nC := r.Range(6, 30)
	var b strings.Builder
	fmt.Fprintf(&b, "cc %d", len(defs))
	for _, d := range defs {
		b.WriteString(" " + enc(d))
	}
	fmt.Fprintf(&b, " | %d", len(pairs))
	for _, p := range pairs {
		fmt.Fprintf(&b, " %d %d", p[0], p[1])
	}
	fmt.Fprintf(&b, " | %d", nC)
	for i := 0; i < nC; i++ {
		t := r.Intn(len(pairs))
		if i < 2 {
			t = i // the working pair, both directions, is always called
		}
		x, y := g.input(defs[pairs[t][0]], cat[pairs[t][0]])
		fmt.Fprintf(&b, " %d %s %s", t, vproto.F2H(x), vproto.F2H(y))
	}
	return b.String()
}

// twinLine: two references that agree in every valued parameter and differ ONLY in a boolean flag (+south,
// +czech, +R_A), used side by side in one history, in either order of first use, at points where their
// answers must differ (southern-hemisphere points for utm: 10 000 km of false northing).  Anything the
// package keeps per "parameter set" across references must tell them apart.  The implementation side takes
// the fresh transformer's answer for such a line from a process of its own (hist.go, freshProcess).
func (g *histGen) twinLine(n int) string {
	r := g.r
	var base, flag string
	var lon, lat float64
	switch n % 4 {
	case 0, 1:
		zone := r.Range(1, 60)
		dat := []string{"+datum=WGS84", "+ellps=GRS80 +towgs84=0,0,0,0,0,0,0 +units=m", "+ellps=intl +towgs84=-87,-98,-121", "+ellps=bessel +towgs84=598.1,73.7,418.2,0.202,0.045,-2.455,6.7", "+ellps=WGS84"}[r.Intn(5)]
		base, flag = fmt.Sprintf("+proj=utm +zone=%d %s", zone, dat), "+south"
		lon, lat = float64(zone*6-183), -float64(r.Range(1, 70))
		if r.Chance(0.2) {
			lat = -lat
		}
	case 2:
		base, flag = "+proj=krovak +lat_0=49.5 +lon_0=24.83333333333333 +alpha=30.28813972222222 +k=0.9999 +x_0=0 +y_0=0 +ellps=bessel +pm=greenwich +units=m +towgs84=570.8,85.7,462.8,4.998,1.587,5.261,3.56", "+czech"
		lon, lat = 15, 50
	default:
		base = []string{"+proj=merc +lon_0=0 +k=1 +x_0=0 +y_0=0 +ellps=WGS84 +datum=WGS84 +units=m", "+proj=aea +lat_1=29.5 +lat_2=45.5 +lat_0=23 +lon_0=-96 +x_0=0 +y_0=0 +ellps=GRS80 +datum=NAD83",
			"+proj=lcc +lat_1=33 +lat_2=45 +lat_0=40 +lon_0=-97 +x_0=0 +y_0=0 +ellps=clrk66 +datum=WGS84", "+proj=utm +zone=33 +ellps=bessel +towgs84=598.1,73.7,418.2,0.202,0.045,-2.455,6.7"}[r.Intn(4)]
		flag = "+R_A"
		lon, lat = []float64{20, -96, -97, 15}[r.Intn(4)], 35
	}
	ll := []string{"+proj=longlat +datum=WGS84", "WGS84", "+proj=longlat +datum=potsdam"}[r.Intn(3)]
	defs := []string{ll, base, base + " " + flag}
	if r.Chance(0.5) { // which twin comes first in the pool (and is usually used first)
		defs[1], defs[2] = defs[2], defs[1]
	}
	cat := []srDef{{defs[0], lon, lat, "wgs"}, {defs[1], lon, lat, "wgs"}, {defs[2], lon, lat, "wgs"}}
	pairs := [][2]int{{0, 1}, {0, 2}, {1, 0}, {2, 0}, {1, 2}, {2, 1}}
	nC := r.Range(4, 16)
	var b strings.Builder
	fmt.Fprintf(&b, "h %d", len(defs))
	for _, d := range defs {
		b.WriteString(" " + enc(d))
	}
	fmt.Fprintf(&b, " | %d", len(pairs))
	for _, p := range pairs {
		fmt.Fprintf(&b, " %d %d", p[0], p[1])
	}
	fmt.Fprintf(&b, " | %d", nC)
	first := r.Intn(len(pairs))
	var px, py float64
	for i := 0; i < nC; i++ {
		t := r.Intn(len(pairs))
		switch i {
		case 0:
			t = first
		case 1: // the mirror pair: same direction, the other twin
			t = first ^ 1
		}
		var x, y float64
		if i == 1 && first < 2 { // the same geographic point through both twins
			x, y = px, py
		} else if r.Chance(0.7) { // a point well inside the domain
			x, y = lon+(r.Float()-0.5)*4, lat+(r.Float()-0.5)*2
			if pairs[t][0] != 0 {
				vproto.Safe(func() {
					w, _ := proj.Parse("+proj=longlat +datum=WGS84")
					sr, err := proj.Parse(defs[pairs[t][0]])
					if err != nil {
						return
					}
					tr, err := w.NewTransform(sr)
					if err != nil || tr == nil {
						return
					}
					if a, c, err := tr(x, y); err == nil {
						x, y = a, c
					}
				})
			}
		} else {
			x, y = g.input(defs[pairs[t][0]], cat[pairs[t][0]])
		}
		px, py = x, y
		fmt.Fprintf(&b, " %d %s %s", t, vproto.F2H(x), vproto.F2H(y))
	}
	b.WriteString(" | 0")
	return b.String()
}

func gen(seed uint64, tier string) {
	out := bufio.NewWriter(os.Stdout)
	defer out.Flush()
	emit := func(s string) { fmt.Fprintln(out, s) }
	r := vproto.NewRng(seed)
	nGT, nH := 10000, 2000
	if tier == "thorough" {
		nGT, nH = 150000, 20000
	}
	// fixed history corpus: the observations of DESIGN 1.1 and their neighbours
	F := vproto.F2H
	fixed := []string{
		// same datum-hop transformer called three times with one input
		"h 2 " + enc("+proj=longlat +datum=potsdam") + " " + enc("+proj=utm +zone=33 +ellps=GRS80 +towgs84=1,2,3") +
			" | 1 0 1 | 3 0 " + F(14) + " " + F(50) + " 0 " + F(14) + " " + F(50) + " 0 " + F(14) + " " + F(50),
		// hop on the dest side only, forward and back, interleaved
		"h 2 " + enc("+proj=longlat +datum=WGS84") + " " + enc("+proj=longlat +datum=potsdam") +
			" | 2 0 1 1 0 | 4 0 " + F(10) + " " + F(51) + " 1 " + F(10) + " " + F(51) + " 0 " + F(10) + " " + F(51) + " 1 " + F(10) + " " + F(51),
		// non-default source axis, dest axis
		"h 2 " + enc("+proj=longlat +datum=WGS84 +axis=wnu") + " " + enc("+proj=utm +zone=33 +datum=WGS84") +
			" | 2 0 1 1 0 | 3 0 " + F(-14) + " " + F(50) + " 1 " + F(500000) + " " + F(5000000) + " 0 " + F(-14) + " " + F(50),
		"h 2 " + enc("+proj=longlat +datum=WGS84 +axis=swd") + " " + enc("+proj=longlat +datum=potsdam +axis=neu") +
			" | 2 0 1 1 0 | 3 0 " + F(-14) + " " + F(-50) + " 1 " + F(14) + " " + F(50) + " 0 " + F(-14) + " " + F(-50),
		// grid-shift destination fails; the pair with equal grids must keep working afterwards
		"h 3 " + enc("+proj=longlat +datum=WGS84") + " " + enc("+proj=longlat +ellps=bessel +nadgrids=foo") + " " + enc("+proj=utm +zone=33 +ellps=bessel +nadgrids=foo") +
			" | 2 1 2 0 1 | 3 0 " + F(14) + " " + F(50) + " 1 " + F(14) + " " + F(50) + " 0 " + F(14) + " " + F(50),
		// registry objects
		"h 3 WGS84 EPSG:3857 " + enc("+proj=longlat +datum=potsdam") +
			" | 3 0 1 2 1 1 2 | 4 1 " + F(10) + " " + F(51) + " 0 " + F(10) + " " + F(51) + " 2 " + F(1000000) + " " + F(6000000) + " 1 " + F(10) + " " + F(51),
	}
	// the forward + inverse pair of a +R_A reference, the inverse built between two calls of the forward
	fixed = append(fixed, "h 2 WGS84 "+enc("+proj=merc +lon_0=0 +k=1 +x_0=0 +y_0=0 +ellps=WGS84 +R_A +units=m +no_defs")+
		" | 2 0 1 1 0 | 3 0 "+F(10)+" "+F(45)+" 0 "+F(10)+" "+F(45)+" 1 "+F(1111121)+" "+F(5590912)+" | 1 1 1")
	// 3-parameter source, WKT WGS84 destination (datum code "wgs84"), forward and back; then the same through
	// `+datum=wgs84`: the hop is decided by the case-insensitive comparison of the code (fix b165df1)
	fixed = append(fixed,
		"h 2 "+enc("+proj=longlat +datum=potsdam")+" "+enc(wktUTM33)+
			" | 2 0 1 1 0 | 4 0 "+F(14)+" "+F(50)+" 1 "+F(428205)+" "+F(5538987)+" 0 "+F(14)+" "+F(50)+" 1 "+F(428205)+" "+F(5538987),
		"h 3 "+enc("+proj=longlat +ellps=bessel +towgs84=598.1,73.7,418.2,0.202,0.045,-2.455,6.7")+" "+enc("+proj=longlat +datum=wgs84")+" "+enc(wktGeogWGS)+
			" | 4 0 1 1 0 0 2 2 0 | 5 0 "+F(10)+" "+F(50)+" 1 "+F(10)+" "+F(50)+" 2 "+F(10)+" "+F(50)+" 3 "+F(10)+" "+F(50)+" 0 "+F(10)+" "+F(50))
	for _, l := range fixed {
		emit(l)
	}
	genGT(r, nGT, emit)
	hg := &histGen{r: r}
	for i := 0; i < nH; i++ {
		emit(hg.line(i % 10))
		if i%5 == 0 {
			emit(hg.optLine())
		}
	}
	// true concurrency (cc.go): the strata of the histories again, 8 goroutines per line
	nCC := 160
	if tier == "thorough" {
		nCC = 2000
	}
	for i := 0; i < nCC; i++ {
		if i%4 == 3 {
			emit(hg.ccGridLine())
			continue
		}
		l := hg.line(i % 10)
		secs := strings.Split(l, " | ")
		emit("cc" + strings.TrimPrefix(strings.Join(secs[:3], " | "), "h"))
	}
	// twin references (differing only in a boolean flag); emitted last so that the lines above keep their seeds
	nTw := 48
	if tier == "thorough" {
		nTw = 600
	}
	for i := 0; i < nTw; i++ {
		emit(hg.twinLine(i))
	}
}
