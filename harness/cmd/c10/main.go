// Harness for C10 (reprojection is pointwise, history-independent, structure-preserving).
//
//	gen --seed S --tier T   write case lines (inputs only)
//	impl                    read case lines, run the real code, append " => result"
//
// Three line kinds (see notes/C10.md; cc = goroutines sharing transformers and SRs, cc.go):
//
//	gt <tkind> <geom>                                   Geom.Transform with a synthetic transformer
//	h <nSR> <def>.. | <nT> <s> <d>.. | <nC> <t> <x> <y>..   history of calls over a pool of transformers
package main

import (
	"fmt"
	"os"

	"verif/harness/vproto"
)

func main() {
	if len(os.Args) < 2 {
		fmt.Fprintln(os.Stderr, "usage: c10 gen|impl")
		os.Exit(2)
	}
	switch os.Args[1] {
	case "gen":
		seed, tier := vproto.SeedTier(os.Args[2:])
		gen(seed, tier)
	case "impl":
		impl()
	case "fresh1": // fresh1 <srcdef> <dstdef> <xhex> <yhex>: one call of one transformer in a process that has done nothing else
		fresh1(os.Args[2:])
	}
}
