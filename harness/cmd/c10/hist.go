package main

import (
	"fmt"
	"math"
	"os"
	"os/exec"
	"reflect"
	"strings"

	"github.com/ctessum/geom/proj"

	"verif/harness/vproto"
)

// ---- state dumps (read-only reflection, unexported fields included) -----------------------------

func dumpValue(b *strings.Builder, v reflect.Value) {
	switch v.Kind() {
	case reflect.Float64:
		fmt.Fprintf(b, "%016x,", math.Float64bits(v.Float()))
	case reflect.String:
		fmt.Fprintf(b, "%q,", v.String())
	case reflect.Bool:
		fmt.Fprintf(b, "%v,", v.Bool())
	case reflect.Int:
		fmt.Fprintf(b, "%d,", v.Int())
	case reflect.Slice:
		fmt.Fprintf(b, "[%d:", v.Len())
		for i := 0; i < v.Len(); i++ {
			dumpValue(b, v.Index(i))
		}
		b.WriteString("],")
	case reflect.Ptr:
		if v.IsNil() {
			b.WriteString("nil,")
		} else {
			b.WriteString("&")
			dumpValue(b, v.Elem())
		}
	case reflect.Struct:
		b.WriteString("{")
		for i := 0; i < v.NumField(); i++ {
			b.WriteString(v.Type().Field(i).Name)
			b.WriteString("=")
			dumpValue(b, v.Field(i))
		}
		b.WriteString("},")
	default:
		fmt.Fprintf(b, "?%s,", v.Kind())
	}
}

func dumpSR(sr *proj.SR) string {
	var b strings.Builder
	dumpValue(&b, reflect.ValueOf(sr).Elem())
	return b.String()
}

// diffFields lists the top-level SR fields in which two SR values differ (bit patterns for floats)
func diffFields(a, b *proj.SR) string {
	va, vb := reflect.ValueOf(a).Elem(), reflect.ValueOf(b).Elem()
	var out []string
	for i := 0; i < va.NumField(); i++ {
		var x, y strings.Builder
		dumpValue(&x, va.Field(i))
		dumpValue(&y, vb.Field(i))
		if x.String() != y.String() {
			out = append(out, va.Type().Field(i).Name)
		}
	}
	if len(out) == 0 {
		return "-"
	}
	return strings.Join(out, ",")
}

// sameCRS compares two SR values field by field (unexported datum included): floats must both be NaN or lie
// within 4 units in the last place (NewTransform's own shortcut tolerates 3), everything else exactly.
// Independent of proj's Equal on purpose.
func sameValue(a, b reflect.Value) bool {
	if a.Kind() != b.Kind() {
		return false
	}
	switch a.Kind() {
	case reflect.Float64:
		x, y := a.Float(), b.Float()
		if math.IsNaN(x) || math.IsNaN(y) {
			return math.IsNaN(x) && math.IsNaN(y)
		}
		if x == y {
			return true
		}
		if (x < 0) != (y < 0) {
			return false
		}
		bx, by := math.Float64bits(math.Abs(x)), math.Float64bits(math.Abs(y))
		d := bx - by
		if by > bx {
			d = by - bx
		}
		return d <= 4
	case reflect.String:
		return a.String() == b.String()
	case reflect.Bool:
		return a.Bool() == b.Bool()
	case reflect.Int:
		return a.Int() == b.Int()
	case reflect.Slice:
		if a.Len() != b.Len() {
			return false
		}
		for i := 0; i < a.Len(); i++ {
			if !sameValue(a.Index(i), b.Index(i)) {
				return false
			}
		}
		return true
	case reflect.Ptr:
		if a.IsNil() || b.IsNil() {
			return a.IsNil() && b.IsNil()
		}
		return sameValue(a.Elem(), b.Elem())
	case reflect.Struct:
		for i := 0; i < a.NumField(); i++ {
			if !sameValue(a.Field(i), b.Field(i)) {
				return false
			}
		}
		return true
	}
	return false
}

func sameCRS(a, b *proj.SR) bool {
	return sameValue(reflect.ValueOf(a).Elem(), reflect.ValueOf(b).Elem())
}

// firstDiff names the first field in which two dumps differ (for diagnostics)
func firstDiff(a, b string) string {
	fa, fb := strings.Split(a, ","), strings.Split(b, ",")
	for i := range fa {
		if i >= len(fb) || fa[i] != fb[i] {
			return strings.NewReplacer(" ", "_", "{", "", "}", "").Replace(fa[i])
		}
	}
	return "len"
}

func datumType(sr *proj.SR) int {
	d := reflect.ValueOf(sr).Elem().FieldByName("datum")
	if d.IsNil() {
		return 0
	}
	return int(d.Elem().FieldByName("datum_type").Int())
}

// ---- results ------------------------------------------------------------------------------------

func san(s string) string {
	s = strings.NewReplacer(" ", "_", "|", "/", ";", ",").Replace(s)
	if s == "" {
		return "_"
	}
	return s
}

// callRes formats the outcome of one transformer call: "ok <x> <y>" | "err <msg>" | "panic <msg>"
func callRes(t proj.Transformer, x, y float64) string {
	var res string
	pan := vproto.Safe(func() {
		a, b, err := t(x, y)
		if err != nil {
			res = "err " + san(err.Error())
			return
		}
		res = "ok " + vproto.F2H(a) + " " + vproto.F2H(b)
	})
	if pan != "" {
		return "panic " + pan
	}
	return res
}

func undef(s string) string { return strings.ReplaceAll(s, ";", " ") }

func parseAll(defs []string) ([]*proj.SR, string) {
	out := make([]*proj.SR, len(defs))
	for i, d := range defs {
		sr, err := proj.Parse(undef(d))
		if err != nil {
			return nil, "parse-error " + san(err.Error())
		}
		out[i] = sr
	}
	return out, ""
}

// ---- oracles: the abstract parameters of the Lean model, evaluated on the real code ----------------
//
// All are computed on freshly parsed SRs through the exported API:
//   init i        error (or none) of SR.Transformers()
//   inv/fwd i a b the projection's inverse/forward
//   dt i j a b z  datumTransform(datum_i, datum_j, a, b, z) through the hook proj.VerifDatumTransform
//                 (/repo/proj/verif_hook.go, build tag verif; the only unexported piece)

type oracle struct {
	defs []string
	recs []string
	seen map[string]string
}

func (o *oracle) fresh(i int) *proj.SR {
	sr, err := proj.Parse(undef(o.defs[i]))
	if err != nil {
		panic(err)
	}
	return sr
}

func (o *oracle) memo(key string, f func() string) string {
	if v, ok := o.seen[key]; ok {
		return v
	}
	v := f()
	o.seen[key] = v
	o.recs = append(o.recs, "O "+key+" "+v)
	return v
}

func (o *oracle) init(i int) string {
	return o.memo(fmt.Sprintf("init %d", i), func() string {
		var r string
		pan := vproto.Safe(func() {
			_, _, err := o.fresh(i).Transformers()
			if err != nil {
				r = "err " + san(err.Error())
			} else {
				r = "ok"
			}
		})
		if pan != "" {
			r = "panic " + pan
		}
		return r
	})
}

func (o *oracle) proj(which string, i int, a, b float64) string {
	return o.memo(fmt.Sprintf("%s %d %s %s", which, i, vproto.F2H(a), vproto.F2H(b)), func() string {
		var t proj.Transformer
		var r string
		pan := vproto.Safe(func() {
			f, inv, err := o.fresh(i).Transformers()
			if err != nil {
				r = "err " + san(err.Error())
				return
			}
			t = f
			if which == "inv" {
				t = inv
			}
		})
		if pan != "" {
			return "panic " + pan
		}
		if r != "" {
			return r
		}
		return callRes(t, a, b)
	})
}

func (o *oracle) dt(i, j int, a, b, z float64) string {
	return o.memo(fmt.Sprintf("dt %d %d %s %s %s", i, j, vproto.F2H(a), vproto.F2H(b), vproto.F2H(z)), func() string {
		var r string
		pan := vproto.Safe(func() {
			x, y, z2, err := proj.VerifDatumTransform(o.fresh(i), o.fresh(j), a, b, z)
			if err != nil {
				r = "err " + san(err.Error())
				return
			}
			r = "ok " + vproto.F2H(x) + " " + vproto.F2H(y) + " " + vproto.F2H(z2)
		})
		if pan != "" {
			return "panic " + pan
		}
		return r
	})
}

// okXY parses "ok <x> <y>"
func okXY(res string) (float64, float64, bool) {
	f := strings.Fields(res)
	if len(f) != 3 || f[0] != "ok" {
		return 0, 0, false
	}
	a, _ := vproto.H2F(f[1])
	b, _ := vproto.H2F(f[2])
	return a, b, true
}

// okXYZ parses "ok <x> <y> <z>"
func okXYZ(res string) (float64, float64, float64, bool) {
	f := strings.Fields(res)
	if len(f) != 4 || f[0] != "ok" {
		return 0, 0, 0, false
	}
	a, _ := vproto.H2F(f[1])
	b, _ := vproto.H2F(f[2])
	c, _ := vproto.H2F(f[3])
	return a, b, c, true
}

const deg2rad = 0.01745329251994329577
const r2d = 57.29577951308232088

type srInfo struct {
	longlat bool
	axis    string
	toMeter float64
	fg      float64
	dtype   int
	wgsCode bool // strings.EqualFold(DatumCode, "WGS84"): what checkNotWGS reads (fix b165df1)
}

func axisFlip(axis string, p *[2]float64) bool {
	for i := 0; i < 2; i++ {
		if i >= len(axis) {
			return false
		}
		switch axis[i] {
		case 'w', 's':
			p[i] = -p[i]
		case 'e', 'n', 'u', 'd':
		default:
			return false
		}
	}
	return true
}

// shadowNoHop follows the data flow of the transformer closure (without the WGS84 hop) only to find the
// points at which the oracles have to be evaluated; the Lean model recomputes every step itself and
// reports a missing oracle entry as a DIFF, so an error here cannot hide a model/code difference.
func (o *oracle) shadowNoHop(info []srInfo, s, d int, x, y, z float64) (float64, float64, float64, bool) {
	if !strings.HasPrefix(o.init(s), "ok") || !strings.HasPrefix(o.init(d), "ok") {
		return 0, 0, 0, false
	}
	p := [2]float64{x, y}
	S, D := info[s], info[d]
	if S.axis != "enu" && !axisFlip(S.axis, &p) {
		return 0, 0, 0, false
	}
	if S.longlat {
		p[0] *= deg2rad
		p[1] *= deg2rad
	} else {
		p[0] *= S.toMeter
		p[1] *= S.toMeter
		a, b, ok := okXY(o.proj("inv", s, p[0], p[1]))
		if !ok {
			return 0, 0, 0, false
		}
		p[0], p[1] = a, b
	}
	if !math.IsNaN(S.fg) {
		p[0] += S.fg
	}
	a, b, z, ok := okXYZ(o.dt(s, d, p[0], p[1], z))
	if !ok {
		return 0, 0, 0, false
	}
	p[0], p[1] = a, b
	if !math.IsNaN(D.fg) {
		p[0] -= D.fg
	}
	if D.longlat {
		p[0] *= r2d
		p[1] *= r2d
	} else {
		a, b, ok := okXY(o.proj("fwd", d, p[0], p[1]))
		if !ok {
			return 0, 0, 0, false
		}
		p[0], p[1] = a/D.toMeter, b/D.toMeter
	}
	if D.axis != "enu" && !axisFlip(D.axis, &p) {
		return 0, 0, 0, false
	}
	return p[0], p[1], z, true
}

func notWGS(a, b srInfo) bool { return (a.dtype == 1 || a.dtype == 2) && !b.wgsCode }

func (o *oracle) shadow(info []srInfo, s, d, wgs int, x, y float64) {
	if notWGS(info[s], info[d]) || notWGS(info[d], info[s]) {
		a, b, z, ok := o.shadowNoHop(info, s, wgs, x, y, 0)
		if !ok {
			return
		}
		o.shadowNoHop(info, wgs, d, a, b, z)
		return
	}
	o.shadowNoHop(info, s, d, x, y, 0)
}

// ---- impl of a history line -------------------------------------------------------------------------

func implHist(p *vproto.Parser) string {
	nSR := p.Int()
	defs := make([]string, nSR)
	for i := range defs {
		defs[i] = p.Next()
	}
	p.Next() // |
	nT := p.Int()
	pairs := make([][2]int, nT)
	for i := range pairs {
		pairs[i] = [2]int{p.Int(), p.Int()}
	}
	p.Next() // |
	nC := p.Int()
	type call struct {
		t    int
		x, y float64
	}
	calls := make([]call, nC)
	for i := range calls {
		calls[i] = call{p.Int(), p.F(), p.F()}
	}
	// optional: transformers built between calls (NewTransform as a history step)
	lateAt := make([]int, nT)
	for i := range lateAt {
		lateAt[i] = -1
	}
	if !p.Done() && p.Next() == "|" {
		nL := p.Int()
		for i := 0; i < nL; i++ {
			k, at := p.Int(), p.Int()
			lateAt[k] = at
		}
	}

	// the pool: SR objects parsed once, shared by all transformers of this line; the WGS84 entry of
	// proj's registry is the object the closure hops through, it gets index nSR unless it is in the pool
	srs, perr := parseAll(defs)
	if perr != "" {
		return perr
	}
	wgsSR, err := proj.Parse("WGS84")
	if err != nil {
		return "parse-error WGS84"
	}
	all := append(append([]*proj.SR{}, srs...), wgsSR)
	allDefs := append(append([]string{}, defs...), "WGS84")
	canon := make([]int, len(all))
	for i := range all {
		canon[i] = i
		for j := 0; j < i; j++ {
			if all[j] == all[i] {
				canon[i] = j
				break
			}
		}
	}
	wgs := canon[nSR]

	var b strings.Builder
	// static description of every SR (what the closure reads outside the projection functions)
	info := make([]srInfo, len(all))
	dumpF := make([]string, len(all))
	dumpI := make([]string, len(all))
	fmt.Fprintf(&b, "wgs %d", wgs)
	for i, sr := range all {
		info[i] = srInfo{sr.Name == "longlat", sr.Axis, sr.ToMeter, sr.FromGreenwich, datumType(sr), strings.EqualFold(sr.DatumCode, "WGS84")}
		dumpF[i] = dumpSR(sr)
		c := *sr
		vproto.Safe(func() { c.Transformers() })
		dumpI[i] = dumpSR(&c)
		ll := 0
		if info[i].longlat {
			ll = 1
		}
		wc := 0
		if info[i].wgsCode {
			wc = 1
		}
		fmt.Fprintf(&b, " ; sr %d %d %d %s %s %s %d %d", i, canon[i], ll, san(sr.Axis), vproto.F2H(sr.ToMeter), vproto.F2H(sr.FromGreenwich), info[i].dtype, wc)
		// what one run of the constructor changed on (a copy of) this SR: must lie in the model's write set
		fmt.Fprintf(&b, " ; wd %d %s %s", i, san(strings.ToLower(sr.Name)), diffFields(sr, &c))
	}
	tag := func() string {
		t := make([]byte, len(all))
		for i, sr := range all {
			cur := dumpSR(sr)
			switch {
			case cur == dumpF[i] && cur == dumpI[i]:
				t[i] = 'B'
			case cur == dumpF[i]:
				t[i] = 'F'
			case cur == dumpI[i]:
				t[i] = 'I'
			default:
				t[i] = 'X'
			}
		}
		return string(t)
	}
	xdiff := func() string {
		for i, sr := range all {
			cur := dumpSR(sr)
			if cur != dumpF[i] && cur != dumpI[i] {
				return fmt.Sprintf("%d:%s", i, firstDiff(cur, dumpI[i]))
			}
		}
		return "-"
	}

	// Transformers are built before the first call or, when the line says so, between calls
	// (NewTransform as a history step).  NewTransform returns nil when source.Equal(dest); building one
	// after a constructor has run on only one of two equal SRs flips that answer -- an observation about
	// NewTransform, not about the transformers; the judge does not count it (see notes/C10.md).
	pool := make([]proj.Transformer, nT)
	built := make([]string, nT)
	build := func(k int, srs []*proj.SR) (proj.Transformer, string) {
		var t proj.Transformer
		var err error
		pan := vproto.Safe(func() { t, err = srs[pairs[k][0]].NewTransform(srs[pairs[k][1]]) })
		switch {
		case pan != "":
			return nil, "panic " + pan
		case err != nil:
			return nil, "err " + san(err.Error())
		case t == nil:
			return nil, "nil"
		}
		return t, "ok"
	}
	orc := &oracle{defs: allDefs, seen: map[string]string{}}
	twins := hasTwins(defs)
	// Do the two definitions of transformer k denote the same CRS once the constructors' defaults are
	// applied?  (all fields of copies of freshly parsed objects after one constructor run; floats within 4 ulp)
	for k := range pairs {
		same := 0
		vproto.Safe(func() {
			fr, _ := parseAll(defs)
			fr = append(fr, wgsSR)
			a, b := *fr[pairs[k][0]], *fr[pairs[k][1]]
			vproto.Safe(func() { a.Transformers() })
			vproto.Safe(func() { b.Transformers() })
			if sameCRS(&a, &b) {
				same = 1
			}
		})
		fmt.Fprintf(&b, " ; tsame %d %d", k, same)
	}
	for k := range pool {
		if lateAt[k] < 0 {
			pool[k], built[k] = build(k, all)
		}
	}
	for ci, c := range calls {
		for k := range pool {
			if lateAt[k] == ci {
				pool[k], built[k] = build(k, all)
			}
		}
		k := c.t
		if built[k] == "" { // called before its scheduled build: build now
			pool[k], built[k] = build(k, all)
		}
		// fresh: all SRs parsed anew, one new transformer, one call
		fr, _ := parseAll(defs)
		fr = append(fr, wgsSR)
		ft, fbuilt := build(k, fr)
		fmt.Fprintf(&b, " ; call %d %s %s %s", ci, built[k], fbuilt, tag())
		if pool[k] == nil || ft == nil {
			fmt.Fprintf(&b, " r nocall f nocall %s -", tag())
			continue
		}
		r := callRes(pool[k], c.x, c.y)
		tg := tag()
		xd := xdiff()
		f := callRes(ft, c.x, c.y)
		if twins {
			// references differing only in a flag: the in-process "fresh" transformer shares whatever the
			// package keeps per process with the pooled one, so the reference answer is taken from a
			// process that has done nothing but this one call
			f = freshProcess(allDefs[pairs[k][0]], allDefs[pairs[k][1]], c.x, c.y)
		}
		fmt.Fprintf(&b, " r %s f %s %s %s", r, f, tg, xd)
		vproto.Safe(func() { orc.shadow(info, canon[pairs[k][0]], canon[pairs[k][1]], wgs, c.x, c.y) })
	}
	for _, r := range orc.recs {
		b.WriteString(" ; ")
		b.WriteString(r)
	}
	return b.String()
}

// ---- twin references: the fresh answer from a process of its own ---------------------------------------

// flagless strips the boolean parameters (those the parser reads without a value) from a definition.
func flagless(def string) string {
	var out []string
	for _, t := range strings.Fields(undef(def)) {
		switch strings.ToLower(strings.TrimPrefix(t, "+")) {
		case "south", "czech", "r_a", "no_defs":
			continue
		}
		out = append(out, t)
	}
	return strings.Join(out, " ")
}

// hasTwins: two different definitions of the line agree once their boolean flags are dropped.
func hasTwins(defs []string) bool {
	for i := range defs {
		for j := 0; j < i; j++ {
			if undef(defs[i]) != undef(defs[j]) && flagless(defs[i]) == flagless(defs[j]) {
				return true
			}
		}
	}
	return false
}

func freshProcess(src, dst string, x, y float64) string {
	exe, err := os.Executable()
	if err != nil {
		return "err fresh-process-unavailable"
	}
	out, err := exec.Command(exe, "fresh1", src, dst, vproto.F2H(x), vproto.F2H(y)).Output()
	res := strings.TrimSpace(string(out))
	if err != nil || res == "" {
		return "err fresh-process-failed"
	}
	return res
}

func fresh1(args []string) {
	if len(args) != 4 {
		fmt.Println("err fresh1-usage")
		return
	}
	x, _ := vproto.H2F(args[2])
	y, _ := vproto.H2F(args[3])
	res := "err fresh1-no-transformer"
	pan := vproto.Safe(func() {
		s, err := proj.Parse(undef(args[0]))
		if err != nil {
			return
		}
		d, err := proj.Parse(undef(args[1]))
		if err != nil {
			return
		}
		t, err := s.NewTransform(d)
		if err != nil || t == nil {
			return
		}
		res = callRes(t, x, y)
	})
	if pan != "" {
		res = "panic " + pan
	}
	fmt.Println(res)
}
