package main

import (
	"fmt"
	"strings"
	"sync"

	"github.com/ctessum/geom/proj"

	"verif/harness/vproto"
)

// cc lines: TRUE concurrency.  Same format as an h line (without the late-build section):
//
//	cc <nSR> <def>.. | <nT> <s> <d>.. | <nC> <t> <x> <y>..
//
// The SRs are parsed once and shared.  The expected answer of every call is computed first, sequentially, by a
// transformer built from freshly parsed copies (the property's reference).  Then ccGoroutines goroutines start
// together: the even ones call the transformers of ONE shared pool, the odd ones build their own transformers
// from the same shared *SR objects (NewTransform runs concurrently with the others' calls) and call those; each
// walks the call list ccRounds times from its own offset and compares every answer with the expected one.
//
//	=> cc ok <calls made>            every concurrent answer equals the fresh transformer's
//	=> cc diff call=<i> g=<g> got=<res> want=<res> n=<number of differing answers>
const (
	ccGoroutines = 8
	ccRounds     = 12
)

func implCC(p *vproto.Parser) string {
	nSR := p.Int()
	defs := make([]string, nSR)
	for i := range defs {
		defs[i] = p.Next()
	}
	p.Next() // |
	nT := p.Int()
	pairs := make([][2]int, nT)
	for i := range pairs {
		pairs[i] = [2]int{p.Int(), p.Int()}
	}
	p.Next() // |
	nC := p.Int()
	type call struct {
		t    int
		x, y float64
	}
	calls := make([]call, nC)
	for i := range calls {
		calls[i] = call{p.Int(), p.F(), p.F()}
	}
	srs, perr := parseAll(defs)
	if perr != "" {
		return perr
	}
	build := func(k int, srs []*proj.SR) proj.Transformer {
		var t proj.Transformer
		vproto.Safe(func() {
			tt, err := srs[pairs[k][0]].NewTransform(srs[pairs[k][1]])
			if err == nil {
				t = tt
			}
		})
		return t
	}
	// expected answers: fresh SRs, fresh transformer, one call (sequential)
	want := make([]string, nC)
	for i, c := range calls {
		fr, _ := parseAll(defs)
		ft := build(c.t, fr)
		if ft == nil {
			want[i] = "nocall"
			continue
		}
		want[i] = callRes(ft, c.x, c.y)
	}
	pool := make([]proj.Transformer, nT)
	for k := range pool {
		pool[k] = build(k, srs)
	}
	var wg sync.WaitGroup
	start := make(chan struct{})
	type bad struct {
		call, g int
		got     string
	}
	var mu sync.Mutex
	var first *bad
	nbad, ncalls := 0, 0
	for g := 0; g < ccGoroutines; g++ {
		wg.Add(1)
		go func(g int) {
			defer wg.Done()
			<-start
			mine := pool
			made := 0
			for r := 0; r < ccRounds; r++ {
				if g%2 == 1 { // transformers of its own, built from the shared SRs while the others are calling
					mine = make([]proj.Transformer, nT)
					for k := range mine {
						if mine[k] = build(k, srs); mine[k] == nil {
							mine[k] = pool[k]
						}
					}
				}
				for j := 0; j < nC; j++ {
					i := (j + g*7 + r) % nC
					t := mine[calls[i].t]
					if t == nil || want[i] == "nocall" {
						continue
					}
					got := callRes(t, calls[i].x, calls[i].y)
					made++
					if !sameRes(got, want[i]) {
						mu.Lock()
						nbad++
						if first == nil {
							first = &bad{i, g, got}
						}
						mu.Unlock()
					}
				}
			}
			mu.Lock()
			ncalls += made
			mu.Unlock()
		}(g)
	}
	close(start)
	wg.Wait()
	if first != nil {
		return fmt.Sprintf("cc diff call=%d g=%d got=%s want=%s n=%d", first.call, first.g, strings.ReplaceAll(first.got, " ", ","), strings.ReplaceAll(want[first.call], " ", ","), nbad)
	}
	return fmt.Sprintf("cc ok %d", ncalls)
}

// sameRes: bit-for-bit, except that two NaNs are the same answer whatever their payload
func sameRes(a, b string) bool {
	if a == b {
		return true
	}
	x1, y1, ok1 := okXY(a)
	x2, y2, ok2 := okXY(b)
	if !ok1 || !ok2 {
		return false
	}
	same := func(u, v float64) bool { return vproto.F2H(u) == vproto.F2H(v) || (u != u && v != v) }
	return same(x1, x2) && same(y1, y2)
}
