package main

import (
	"errors"
	"fmt"
	"math"
	"strconv"
	"strings"

	"github.com/ctessum/geom"
	"github.com/ctessum/geom/proj"

	"verif/harness/vproto"
)

// The synthetic transformer works on bit patterns only so that the Lean side reproduces it exactly:
//
//	t(x, y) = (bits(y) xor C1, bits(x) xor C2)
//
// kind "p" (pure): fails on a "poison" vertex, i.e. when the low byte of bits(x) is 0xEE, with error id
// bits(y) & 0xFFFF.  kind "c<k>" (counting): fails on its k-th call (0-based) with error id k.
const (
	xorC1     = 0x00000000000a5a50
	xorC2     = 0x0000000000055aa0
	poisonLow = 0xEE
)

type tErr struct{ id uint64 }

func (e tErr) Error() string { return "synthetic transformer error " + strconv.FormatUint(e.id, 10) }

type callLog struct{ xy []uint64 }

func mkTransformer(kind string, log *callLog) proj.Transformer {
	if kind == "nil" {
		return nil
	}
	failAt := -1
	if kind[0] == 'c' {
		failAt, _ = strconv.Atoi(kind[1:])
	}
	n := 0
	return func(x, y float64) (float64, float64, error) {
		bx, by := math.Float64bits(x), math.Float64bits(y)
		log.xy = append(log.xy, bx, by)
		k := n
		n++
		if kind == "p" && bx&0xFF == poisonLow {
			return math.NaN(), math.NaN(), tErr{by & 0xFFFF}
		}
		if kind[0] == 'c' && k == failAt {
			return math.NaN(), math.NaN(), tErr{uint64(k)}
		}
		return math.Float64frombits(by ^ xorC1), math.Float64frombits(bx ^ xorC2), nil
	}
}

var scribblePt = geom.Point{X: math.Float64frombits(0x7ff80000deadbeef), Y: math.Float64frombits(0x7ff80000deadbeef)}

// scribble overwrites every slice element reachable from g (the OUTPUT of Transform); if the output
// shares backing arrays with the input, the input changes.
func scribble(g geom.Geom) {
	switch t := g.(type) {
	case geom.MultiPoint:
		for i := range t {
			t[i] = scribblePt
		}
	case geom.LineString:
		for i := range t {
			t[i] = scribblePt
		}
	case geom.MultiLineString:
		for i := range t {
			for j := range t[i] {
				t[i][j] = scribblePt
			}
			t[i] = nil
		}
	case geom.Polygon:
		for i := range t {
			for j := range t[i] {
				t[i][j] = scribblePt
			}
			t[i] = nil
		}
	case geom.MultiPolygon:
		for i := range t {
			for j := range t[i] {
				for k := range t[i][j] {
					t[i][j][k] = scribblePt
				}
				t[i][j] = nil
			}
			t[i] = nil
		}
	case geom.GeometryCollection:
		for i := range t {
			scribble(t[i])
			t[i] = nil
		}
	case *geom.Bounds:
		if t != nil {
			t.Min, t.Max = scribblePt, scribblePt
		}
	}
}

func implGT(p *vproto.Parser) string {
	kind := p.Next()
	g := p.Geom()
	before := vproto.GeomToks(g)
	log := &callLog{}
	t := mkTransformer(kind, log)
	var res string
	var out geom.Geom
	pan := vproto.Safe(func() {
		g2, err := g.Transform(t)
		out = g2
		if err != nil {
			var te tErr
			if errors.As(err, &te) {
				res = fmt.Sprintf("err %d", te.id)
			} else {
				res = "errx " + strings.ReplaceAll(err.Error(), " ", "_")
			}
			return
		}
		res = "ok " + vproto.GeomToks(g2)
	})
	if pan != "" {
		res = "panic " + pan
	}
	in := "same"
	if vproto.GeomToks(g) != before {
		in = "changed"
	}
	alias := "na"
	if t != nil && pan == "" {
		alias = "no"
		vproto.Safe(func() { scribble(out) })
		if vproto.GeomToks(g) != before {
			alias = "yes"
		}
	}
	var b strings.Builder
	fmt.Fprintf(&b, "%s | in=%s alias=%s | calls %d", res, in, alias, len(log.xy)/2)
	for _, u := range log.xy {
		fmt.Fprintf(&b, " %016x", u)
	}
	return b.String()
}

// ---- generator -------------------------------------------------------------------------------

func gtCoord(r *vproto.Rng) float64 {
	switch r.Intn(10) {
	case 0:
		return math.Float64frombits(r.U64())
	case 1:
		return math.Copysign(0, -1)
	case 2:
		return math.Inf(1 - 2*r.Intn(2))
	case 3:
		return math.Float64frombits(0x7ff8000000000000 | r.U64()&0x0007ffffffffffff)
	case 4, 5:
		return float64(r.Range(-1000, 1000))
	default:
		return (r.Float() - 0.5) * math.Pow(10, float64(r.Range(-3, 8)))
	}
}

// unpoison makes sure an ordinary coordinate is not a poison vertex by accident
func unpoison(x float64) float64 {
	b := math.Float64bits(x)
	if b&0xFF == poisonLow {
		b ^= 1
	}
	return math.Float64frombits(b)
}

type gtGen struct {
	r      *vproto.Rng
	poison float64 // probability that a vertex is poison
}

func (g *gtGen) pt() geom.Point {
	x, y := unpoison(gtCoord(g.r)), gtCoord(g.r)
	if g.poison > 0 && g.r.Chance(g.poison) {
		x = math.Float64frombits(math.Float64bits(x)&^0xFF | poisonLow)
	}
	return geom.Point{X: x, Y: y}
}

func (g *gtGen) count() int {
	switch g.r.Intn(10) {
	case 0, 1:
		return 0
	case 2, 3, 4:
		return 1
	case 5, 6:
		return 2
	case 7:
		return 3
	default:
		return g.r.Range(0, 7)
	}
}

func (g *gtGen) pts() []geom.Point {
	n := g.count()
	p := make([]geom.Point, n)
	for i := range p {
		p[i] = g.pt()
	}
	return p
}

func (g *gtGen) ptss() []geom.Path {
	n := g.count()
	p := make([]geom.Path, n)
	for i := range p {
		p[i] = g.pts()
	}
	return p
}

func (g *gtGen) geomOf(k, depth int, nilMembers bool) geom.Geom {
	switch k {
	case 0:
		return g.pt()
	case 1:
		return geom.MultiPoint(g.pts())
	case 2:
		return geom.LineString(g.pts())
	case 3:
		n := g.count()
		m := make(geom.MultiLineString, n)
		for i := range m {
			m[i] = g.pts()
		}
		return m
	case 4:
		return geom.Polygon(g.ptss())
	case 5:
		n := g.count()
		m := make(geom.MultiPolygon, n)
		for i := range m {
			m[i] = g.ptss()
		}
		return m
	case 6:
		return &geom.Bounds{Min: g.pt(), Max: g.pt()}
	default:
		n := g.count()
		m := make(geom.GeometryCollection, n)
		for i := range m {
			if nilMembers && g.r.Chance(0.15) {
				m[i] = nil
				continue
			}
			kk := g.r.Intn(8)
			if depth <= 0 && kk == 7 {
				kk = g.r.Intn(7)
			}
			m[i] = g.geomOf(kk, depth-1, nilMembers)
		}
		return m
	}
}

func nVerts(g geom.Geom) int {
	switch t := g.(type) {
	case geom.Point:
		return 1
	case geom.MultiPoint:
		return len(t)
	case geom.LineString:
		return len(t)
	case geom.MultiLineString:
		n := 0
		for _, l := range t {
			n += len(l)
		}
		return n
	case geom.Polygon:
		n := 0
		for _, l := range t {
			n += len(l)
		}
		return n
	case geom.MultiPolygon:
		n := 0
		for _, p := range t {
			for _, l := range p {
				n += len(l)
			}
		}
		return n
	case *geom.Bounds:
		return 4
	case geom.GeometryCollection:
		n := 0
		for _, m := range t {
			n += nVerts(m)
		}
		return n
	}
	return 0
}

func genGT(r *vproto.Rng, n int, emit func(string)) {
	line := func(kind string, g geom.Geom) { emit("gt " + kind + " " + vproto.GeomToks(g)) }
	P := func(x, y float64) geom.Point { return geom.Point{X: x, Y: y} }
	bad := geom.Point{X: math.Float64frombits(0x40000000000000EE), Y: math.Float64frombits(7)}
	bad2 := geom.Point{X: math.Float64frombits(0x40080000000000EE), Y: math.Float64frombits(9)}
	// fixed corpus: every type, empties, failure on first/middle/last member, two poison vertices
	corpus := []geom.Geom{
		P(1, 2), bad,
		geom.MultiPoint{}, geom.MultiPoint{P(1, 2), P(3, 4)}, geom.MultiPoint{P(1, 2), bad, bad2},
		geom.LineString{}, geom.LineString{P(0, 0), P(1, 1), bad},
		geom.MultiLineString{}, geom.MultiLineString{{}, {}}, geom.MultiLineString{{P(1, 1)}}, geom.MultiLineString{{bad}},
		geom.MultiLineString{{P(1, 1), P(2, 2)}, {P(3, 3), bad2, bad}},
		geom.Polygon{}, geom.Polygon{{}}, geom.Polygon{{P(0, 0), P(1, 0), P(1, 1)}, {bad}},
		geom.MultiPolygon{}, geom.MultiPolygon{{}, {{}}}, geom.MultiPolygon{{{P(1, 1)}}}, geom.MultiPolygon{{{bad}}},
		geom.MultiPolygon{{{P(0, 0), P(1, 0)}}, {{P(5, 5)}, {bad2}}, {{bad}}},
		&geom.Bounds{Min: P(0, 0), Max: P(2, 3)}, &geom.Bounds{Min: P(0, 0), Max: bad}, &geom.Bounds{Min: bad, Max: bad2},
		geom.GeometryCollection{}, geom.GeometryCollection{P(1, 2), &geom.Bounds{Min: P(0, 0), Max: P(2, 3)}},
		geom.GeometryCollection{geom.GeometryCollection{geom.MultiLineString{{bad2}}, geom.MultiPolygon{{{bad}}}}},
		geom.GeometryCollection{geom.GeometryCollection{geom.GeometryCollection{geom.LineString{P(1, 2)}}}, bad},
		geom.GeometryCollection{nil}, geom.GeometryCollection{P(1, 2), nil},
	}
	for _, g := range corpus {
		line("nil", g)
		line("p", g)
		nv := nVerts(g)
		for _, k := range []int{0, nv / 2, nv - 1, nv} {
			if k >= 0 {
				line(fmt.Sprintf("c%d", k), g)
			}
		}
	}
	gg := &gtGen{r: r}
	for i := 0; i < n; i++ {
		k := i % 8
		mode := r.Intn(10)
		switch {
		case mode == 0:
			gg.poison = 0
			line("nil", gg.geomOf(k, 3, r.Chance(0.1)))
		case mode <= 4:
			// pure transformer; poison density chosen so that none/one/several vertices fail
			gg.poison = []float64{0, 0, 0.02, 0.1, 0.4}[r.Intn(5)]
			line("p", gg.geomOf(k, 3, r.Chance(0.05)))
		default:
			gg.poison = 0
			g := gg.geomOf(k, 3, false)
			nv := nVerts(g)
			var fail int
			switch r.Intn(5) {
			case 0:
				fail = 0
			case 1:
				fail = nv - 1
			case 2:
				fail = nv // none
			case 3:
				fail = nv / 2
			default:
				fail = r.Intn(nv + 2)
			}
			if fail < 0 {
				fail = 0
			}
			line(fmt.Sprintf("c%d", fail), g)
		}
	}
}
