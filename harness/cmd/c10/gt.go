package main

import (
	"errors"
	"fmt"
	"math"
	"strconv"
	"strings"

	"github.com/ctessum/geom"
	"github.com/ctessum/geom/proj"

	"verif/harness/vproto"
)

// The synthetic transformer works on bit patterns only so that the Lean side reproduces it exactly:
//
//	t(x, y) = (bits(y) xor C1, bits(x) xor C2), except that a vertex whose low byte of bits(x) is 0x1D is a
//	FIXED POINT: t(x, y) = (x, y).  (A transformer that moves one vertex nowhere still moves the others:
//	seeded change C10-f2 returned the input polygon when its first vertex came back unchanged.)
//
// kind "p" (pure): fails on a "poison" vertex, i.e. when the low byte of bits(x) is 0xEE, with error id
// bits(y) & 0xFFFF.  kind "c<k>" (counting): fails on its k-th call (0-based) with error id k.
const (
	xorC1     = 0x00000000000a5a50
	xorC2     = 0x0000000000055aa0
	poisonLow = 0xEE
	fixLow    = 0x1D
)

type tErr struct{ id uint64 }

func (e tErr) Error() string { return "synthetic transformer error " + strconv.FormatUint(e.id, 10) }

type callLog struct{ xy []uint64 }

func mkTransformer(kind string, log *callLog) proj.Transformer {
	if kind == "nil" {
		return nil
	}
	failAt := -1
	if kind[0] == 'c' {
		failAt, _ = strconv.Atoi(kind[1:])
	}
	n := 0
	return func(x, y float64) (float64, float64, error) {
		bx, by := math.Float64bits(x), math.Float64bits(y)
		log.xy = append(log.xy, bx, by)
		k := n
		n++
		if kind == "p" && bx&0xFF == poisonLow {
			return math.NaN(), math.NaN(), tErr{by & 0xFFFF}
		}
		if kind[0] == 'c' && k == failAt {
			return math.NaN(), math.NaN(), tErr{uint64(k)}
		}
		if bx&0xFF == fixLow {
			return x, y, nil
		}
		return math.Float64frombits(by ^ xorC1), math.Float64frombits(bx ^ xorC2), nil
	}
}

// markFixed turns selected vertices of g into fixed points of the synthetic transformer (in place):
// mode 0 the very first vertex, 1 the first vertex of every ring / line / member, 2 the last vertex of
// every ring / line / member, 3 first and last of every one, 4 every vertex with probability 1/3,
// 5 all vertices of the first ring / line / member.
func markFixed(g geom.Geom, mode int, r *vproto.Rng) {
	first := true
	fix := func(p *geom.Point) { p.X = math.Float64frombits(math.Float64bits(p.X)&^0xFF | fixLow) }
	slice := func(ps []geom.Point, idx int) {
		for i := range ps {
			hit := false
			switch mode {
			case 0:
				hit = first && i == 0
			case 1:
				hit = i == 0
			case 2:
				hit = i == len(ps)-1
			case 3:
				hit = i == 0 || i == len(ps)-1
			case 4:
				hit = r.Chance(1.0 / 3)
			default:
				hit = idx == 0
			}
			if hit {
				fix(&ps[i])
			}
		}
		if len(ps) > 0 {
			first = false
		}
	}
	var walk func(g geom.Geom)
	walk = func(g geom.Geom) {
		switch t := g.(type) {
		case geom.MultiPoint:
			slice(t, 0)
		case geom.LineString:
			slice(t, 0)
		case geom.MultiLineString:
			for i := range t {
				slice(t[i], i)
			}
		case geom.Polygon:
			for i := range t {
				slice(t[i], i)
			}
		case geom.MultiPolygon:
			for _, pg := range t {
				for i := range pg {
					slice(pg[i], i)
				}
			}
		case *geom.Bounds:
			if t != nil {
				c := []geom.Point{t.Min, t.Max}
				slice(c, 0)
				t.Min, t.Max = c[0], c[1]
			}
		case geom.GeometryCollection:
			for i := range t {
				if p, ok := t[i].(geom.Point); ok {
					c := []geom.Point{p}
					slice(c, 0)
					t[i] = c[0]
				} else if t[i] != nil {
					walk(t[i])
				}
			}
		}
	}
	walk(g)
}

var scribblePt = geom.Point{X: math.Float64frombits(0x7ff80000deadbeef), Y: math.Float64frombits(0x7ff80000deadbeef)}

// scribble overwrites every slice element reachable from g (the OUTPUT of Transform); if the output
// shares backing arrays with the input, the input changes.
func scribble(g geom.Geom) {
	switch t := g.(type) {
	case geom.MultiPoint:
		for i := range t {
			t[i] = scribblePt
		}
	case geom.LineString:
		for i := range t {
			t[i] = scribblePt
		}
	case geom.MultiLineString:
		for i := range t {
			for j := range t[i] {
				t[i][j] = scribblePt
			}
			t[i] = nil
		}
	case geom.Polygon:
		for i := range t {
			for j := range t[i] {
				t[i][j] = scribblePt
			}
			t[i] = nil
		}
	case geom.MultiPolygon:
		for i := range t {
			for j := range t[i] {
				for k := range t[i][j] {
					t[i][j][k] = scribblePt
				}
				t[i][j] = nil
			}
			t[i] = nil
		}
	case geom.GeometryCollection:
		for i := range t {
			scribble(t[i])
			t[i] = nil
		}
	case *geom.Bounds:
		if t != nil {
			t.Min, t.Max = scribblePt, scribblePt
		}
	}
}

// ---- memory layouts of the input (flags after '@' in the transformer kind) ---------------------------
//
//	w  all point slices of the geometry are consecutive windows of ONE flat buffer, each with spare
//	   capacity reaching into its successors (buf[0:5], buf[5:10], ...): an append or a write past len
//	   would hit the neighbour
//	x  a point slice whose contents are a prefix of an earlier one is a re-slice of it (shared memory)
//	n  empty slices are nil slices
type layouter struct {
	flags string
	buf   []geom.Point
	seen  [][]geom.Point
}

func (l *layouter) pts(ps []geom.Point) []geom.Point {
	if strings.Contains(l.flags, "n") && len(ps) == 0 {
		return nil
	}
	if strings.Contains(l.flags, "x") && len(ps) > 0 {
		for _, q := range l.seen {
			if len(q) >= len(ps) && vproto.GeomToks(geom.LineString(q[:len(ps)])) == vproto.GeomToks(geom.LineString(ps)) {
				return q[:len(ps)]
			}
		}
	}
	if strings.Contains(l.flags, "w") {
		n := len(l.buf)
		l.buf = append(l.buf, ps...)
		ps = l.buf[n:len(l.buf)] // capacity runs to the end of buf
	}
	l.seen = append(l.seen, ps)
	return ps
}

func (l *layouter) paths(pp []geom.Path) []geom.Path {
	if strings.Contains(l.flags, "n") && len(pp) == 0 {
		return nil
	}
	for i := range pp {
		pp[i] = l.pts(pp[i])
	}
	return pp
}

func (l *layouter) geom(g geom.Geom) geom.Geom {
	switch t := g.(type) {
	case geom.MultiPoint:
		return geom.MultiPoint(l.pts(t))
	case geom.LineString:
		return geom.LineString(l.pts(t))
	case geom.MultiLineString:
		if strings.Contains(l.flags, "n") && len(t) == 0 {
			return geom.MultiLineString(nil)
		}
		for i := range t {
			t[i] = l.pts(t[i])
		}
		return t
	case geom.Polygon:
		return geom.Polygon(l.paths(t))
	case geom.MultiPolygon:
		if strings.Contains(l.flags, "n") && len(t) == 0 {
			return geom.MultiPolygon(nil)
		}
		for i := range t {
			t[i] = l.paths(t[i])
		}
		return t
	case geom.GeometryCollection:
		if strings.Contains(l.flags, "n") && len(t) == 0 {
			return geom.GeometryCollection(nil)
		}
		for i := range t {
			if t[i] != nil {
				t[i] = l.geom(t[i])
			}
		}
		return t
	}
	return g
}

func countPts(g geom.Geom) int { return nVerts(g) }

func relayout(g geom.Geom, flags string) geom.Geom {
	if flags == "" {
		return g
	}
	l := &layouter{flags: flags}
	if strings.Contains(flags, "w") {
		l.buf = make([]geom.Point, 0, countPts(g)+8) // never reallocates: windows stay in one array
	}
	return l.geom(g)
}

// mutateInPlace flips bit 8 of every coordinate held in a slice (same addresses, same lengths); value
// types (Point, *Bounds contents) are replaced/updated likewise.  The low byte (poison marker) is kept.
func flip(p geom.Point) geom.Point {
	return geom.Point{X: math.Float64frombits(math.Float64bits(p.X) ^ 0x100), Y: math.Float64frombits(math.Float64bits(p.Y) ^ 0x100)}
}

func mutateInPlace(g geom.Geom, done map[*geom.Point]bool) geom.Geom {
	pts := func(ps []geom.Point) {
		for i := range ps {
			if !done[&ps[i]] { // shared memory is flipped once
				done[&ps[i]] = true
				ps[i] = flip(ps[i])
			}
		}
	}
	switch t := g.(type) {
	case geom.Point:
		return flip(t)
	case geom.MultiPoint:
		pts(t)
	case geom.LineString:
		pts(t)
	case geom.MultiLineString:
		for i := range t {
			pts(t[i])
		}
	case geom.Polygon:
		for i := range t {
			pts(t[i])
		}
	case geom.MultiPolygon:
		for i := range t {
			for j := range t[i] {
				pts(t[i][j])
			}
		}
	case geom.GeometryCollection:
		for i := range t {
			if t[i] != nil {
				t[i] = mutateInPlace(t[i], done)
			}
		}
	case *geom.Bounds:
		if t != nil {
			t.Min, t.Max = flip(t.Min), flip(t.Max)
		}
	}
	return g
}

func runTransform(g geom.Geom, t proj.Transformer) (out geom.Geom, res string, panicked bool) {
	pan := vproto.Safe(func() {
		g2, err := g.Transform(t)
		out = g2
		if err != nil {
			var te tErr
			if errors.As(err, &te) {
				res = fmt.Sprintf("err %d", te.id)
			} else {
				res = "errx " + strings.ReplaceAll(err.Error(), " ", "_")
			}
			return
		}
		res = "ok " + vproto.GeomToks(g2)
	})
	if pan != "" {
		return nil, "panic " + pan, true
	}
	return out, res, false
}

func implGT(p *vproto.Parser) string {
	kindFlags := p.Next()
	kind, flags := kindFlags, ""
	if i := strings.Index(kindFlags, "@"); i >= 0 {
		kind, flags = kindFlags[:i], kindFlags[i+1:]
	}
	g := relayout(p.Geom(), flags)
	before := vproto.GeomToks(g)
	log := &callLog{}
	t := mkTransformer(kind, log)
	// call 1
	out, res, pan := runTransform(g, t)
	in := "same"
	if vproto.GeomToks(g) != before {
		in = "changed"
	}
	// call 2: the identical call again (fresh transformer of the same kind); then re-check result 1
	rep, late := "same", "same"
	out2, res2, _ := runTransform(g, mkTransformer(kind, &callLog{}))
	if res2 != res {
		rep = "diff"
	}
	if vproto.GeomToks(g) != before {
		in = "changed"
	}
	// call 3: the operand is mutated IN PLACE (same addresses and lengths) and transformed again
	g3 := mutateInPlace(g, map[*geom.Point]bool{})
	before3 := vproto.GeomToks(g3)
	out3, res3, _ := runTransform(g3, mkTransformer(kind, &callLog{}))
	alias := "na"
	if t == nil {
		late = "na"
	} else if !pan {
		// late check: the earlier results still read as they did when they were returned
		if strings.HasPrefix(res, "ok ") && "ok "+vproto.GeomToks(out) != res {
			late = "changed"
		}
		if strings.HasPrefix(res2, "ok ") && "ok "+vproto.GeomToks(out2) != res2 {
			late = "changed"
		}
		alias = "no"
		vproto.Safe(func() { scribble(out); scribble(out2); scribble(out3) })
		if vproto.GeomToks(g3) != before3 {
			alias = "yes"
		}
	}
	var b strings.Builder
	fmt.Fprintf(&b, "%s | in=%s alias=%s rep=%s late=%s | calls %d", res, in, alias, rep, late, len(log.xy)/2)
	for _, u := range log.xy {
		fmt.Fprintf(&b, " %016x", u)
	}
	fmt.Fprintf(&b, " | %s", res3)
	return b.String()
}

// ---- generator -------------------------------------------------------------------------------

func gtCoord(r *vproto.Rng) float64 {
	switch r.Intn(10) {
	case 0:
		return math.Float64frombits(r.U64())
	case 1:
		return math.Copysign(0, -1)
	case 2:
		return math.Inf(1 - 2*r.Intn(2))
	case 3:
		return math.Float64frombits(0x7ff8000000000000 | r.U64()&0x0007ffffffffffff)
	case 4, 5:
		return float64(r.Range(-1000, 1000))
	case 6:
		// the same small integers at extreme dyadic scales and at 1e9
		k := []int{-30, -25, -20, 20, 25, 30}[r.Intn(6)]
		if r.Intn(4) == 0 {
			return float64(r.Range(-1000, 1000)) * 1e9
		}
		return math.Ldexp(float64(r.Range(-1000, 1000)), k)
	default:
		return (r.Float() - 0.5) * math.Pow(10, float64(r.Range(-3, 8)))
	}
}

// unpoison makes sure an ordinary coordinate is not a poison vertex by accident
func unpoison(x float64) float64 {
	b := math.Float64bits(x)
	if b&0xFF == poisonLow {
		b ^= 1
	}
	return math.Float64frombits(b)
}

type gtGen struct {
	r      *vproto.Rng
	poison float64 // probability that a vertex is poison
	big    int     // how many counts of this geometry may still be a size threshold (64 … 2048)
	prefix bool    // rings of a polygon / lines of a multi-line are prefixes of one base ring
	dup    float64 // probability that a vertex repeats one of the last few vertices (coincident / degenerate input)
	hist   []geom.Point
}

// pt: a vertex; with probability dup a copy of one of the last four vertices generated for this geometry
// (mostly the previous one), so that lines, rings and boxes with coincident vertices, zero-length segments,
// closed rings and all-equal members occur.
func (g *gtGen) pt() geom.Point {
	if g.dup > 0 && len(g.hist) > 0 && g.r.Chance(g.dup) {
		k := len(g.hist) - 1
		if g.r.Chance(0.3) {
			k = g.r.Intn(len(g.hist))
		}
		return g.hist[k]
	}
	p := g.freshPt()
	g.hist = append(g.hist, p)
	if len(g.hist) > 4 {
		g.hist = g.hist[1:]
	}
	return p
}

// bounds: the shapes a *Bounds takes in practice — a proper box, the bounds of a single point (Min == Max),
// of a vertical / horizontal segment (zero width / zero height), the empty bounds of NewBounds()
// (Min = +Inf, Max = -Inf), corners in the wrong order.
func (g *gtGen) bounds() *geom.Bounds {
	a, b := g.pt(), g.pt()
	switch g.r.Intn(10) {
	case 0, 1, 2:
		b = a
	case 3:
		b.X = a.X
	case 4:
		b.Y = a.Y
	case 5:
		return geom.NewBounds()
	}
	return &geom.Bounds{Min: a, Max: b}
}

func (g *gtGen) freshPt() geom.Point {
	x, y := unpoison(gtCoord(g.r)), gtCoord(g.r)
	if g.poison > 0 && g.r.Chance(g.poison) {
		x = math.Float64frombits(math.Float64bits(x)&^0xFF | poisonLow)
	}
	return geom.Point{X: x, Y: y}
}

func (g *gtGen) count() int {
	if g.big > 0 && g.r.Chance(0.5) {
		g.big--
		return []int{63, 64, 65, 128, 129, 1024, 1025, 2048}[g.r.Intn(8)]
	}
	switch g.r.Intn(10) {
	case 0, 1:
		return 0
	case 2, 3, 4:
		return 1
	case 5, 6:
		return 2
	case 7:
		return 3
	default:
		return g.r.Range(0, 7)
	}
}

func (g *gtGen) pts() []geom.Point {
	n := g.count()
	p := make([]geom.Point, n)
	for i := range p {
		p[i] = g.pt()
	}
	return p
}

func (g *gtGen) ptss() []geom.Path {
	n := g.count()
	p := make([]geom.Path, n)
	var base []geom.Point
	for i := range p {
		if g.prefix && i > 0 && len(base) > 0 {
			p[i] = append([]geom.Point{}, base[:g.r.Intn(len(base)+1)]...)
			continue
		}
		p[i] = g.pts()
		if i == 0 {
			base = p[0]
		}
	}
	return p
}

func (g *gtGen) geomOf(k, depth int, nilMembers bool) geom.Geom {
	switch k {
	case 0:
		return g.pt()
	case 1:
		return geom.MultiPoint(g.pts())
	case 2:
		return geom.LineString(g.pts())
	case 3:
		pp := g.ptss()
		m := make(geom.MultiLineString, len(pp))
		for i := range m {
			m[i] = geom.LineString(pp[i])
		}
		return m
	case 4:
		return geom.Polygon(g.ptss())
	case 5:
		n := g.count()
		m := make(geom.MultiPolygon, n)
		for i := range m {
			m[i] = g.ptss()
		}
		return m
	case 6:
		return g.bounds()
	default:
		n := g.count()
		m := make(geom.GeometryCollection, n)
		for i := range m {
			if nilMembers && g.r.Chance(0.15) {
				m[i] = nil
				continue
			}
			kk := g.r.Intn(8)
			if depth <= 0 && kk == 7 {
				kk = g.r.Intn(7)
			}
			m[i] = g.geomOf(kk, depth-1, nilMembers)
		}
		return m
	}
}

func nVerts(g geom.Geom) int {
	switch t := g.(type) {
	case geom.Point:
		return 1
	case geom.MultiPoint:
		return len(t)
	case geom.LineString:
		return len(t)
	case geom.MultiLineString:
		n := 0
		for _, l := range t {
			n += len(l)
		}
		return n
	case geom.Polygon:
		n := 0
		for _, l := range t {
			n += len(l)
		}
		return n
	case geom.MultiPolygon:
		n := 0
		for _, p := range t {
			for _, l := range p {
				n += len(l)
			}
		}
		return n
	case *geom.Bounds:
		return 4
	case geom.GeometryCollection:
		n := 0
		for _, m := range t {
			n += nVerts(m)
		}
		return n
	}
	return 0
}

func genGT(r *vproto.Rng, n int, emit func(string)) {
	line := func(kind string, g geom.Geom) { emit("gt " + kind + " " + vproto.GeomToks(g)) }
	P := func(x, y float64) geom.Point { return geom.Point{X: x, Y: y} }
	bad := geom.Point{X: math.Float64frombits(0x40000000000000EE), Y: math.Float64frombits(7)}
	bad2 := geom.Point{X: math.Float64frombits(0x40080000000000EE), Y: math.Float64frombits(9)}
	// fixed corpus: every type, empties, failure on first/middle/last member, two poison vertices
	corpus := []geom.Geom{
		P(1, 2), bad,
		geom.MultiPoint{}, geom.MultiPoint{P(1, 2), P(3, 4)}, geom.MultiPoint{P(1, 2), bad, bad2},
		geom.LineString{}, geom.LineString{P(0, 0), P(1, 1), bad},
		geom.MultiLineString{}, geom.MultiLineString{{}, {}}, geom.MultiLineString{{P(1, 1)}}, geom.MultiLineString{{bad}},
		geom.MultiLineString{{P(1, 1), P(2, 2)}, {P(3, 3), bad2, bad}},
		geom.Polygon{}, geom.Polygon{{}}, geom.Polygon{{P(0, 0), P(1, 0), P(1, 1)}, {bad}},
		geom.MultiPolygon{}, geom.MultiPolygon{{}, {{}}}, geom.MultiPolygon{{{P(1, 1)}}}, geom.MultiPolygon{{{bad}}},
		geom.MultiPolygon{{{P(0, 0), P(1, 0)}}, {{P(5, 5)}, {bad2}}, {{bad}}},
		&geom.Bounds{Min: P(0, 0), Max: P(2, 3)}, &geom.Bounds{Min: P(0, 0), Max: bad}, &geom.Bounds{Min: bad, Max: bad2},
		// degenerate boxes: bounds of a single point, the zero value, zero width, zero height, NewBounds()
		&geom.Bounds{Min: P(1, 2), Max: P(1, 2)}, &geom.Bounds{}, geom.NewBoundsPoint(P(-3, 7)), P(5, 6).Bounds(),
		&geom.Bounds{Min: P(1, 2), Max: P(1, 5)}, &geom.Bounds{Min: P(1, 2), Max: P(4, 2)}, geom.NewBounds(),
		geom.GeometryCollection{&geom.Bounds{Min: P(4, 4), Max: P(4, 4)}, P(1, 2), geom.LineString{P(1, 1), P(1, 1)}.Bounds()},
		// coincident vertices: repeated points, zero-length segments, closed and all-equal rings
		geom.MultiPoint{P(1, 2), P(1, 2), P(1, 2)}, geom.LineString{P(0, 0), P(0, 0), P(1, 1), P(1, 1)},
		geom.MultiLineString{{P(1, 1), P(1, 1)}, {P(1, 1), P(1, 1)}},
		geom.Polygon{{P(0, 0), P(4, 0), P(4, 4), P(0, 0)}, {P(1, 1), P(1, 1), P(1, 1), P(1, 1)}},
		geom.MultiPolygon{{{P(2, 2), P(2, 2), P(2, 2)}}, {{P(2, 2), P(2, 2), P(2, 2)}}},
		geom.GeometryCollection{}, geom.GeometryCollection{P(1, 2), &geom.Bounds{Min: P(0, 0), Max: P(2, 3)}},
		geom.GeometryCollection{geom.GeometryCollection{geom.MultiLineString{{bad2}}, geom.MultiPolygon{{{bad}}}}},
		geom.GeometryCollection{geom.GeometryCollection{geom.GeometryCollection{geom.LineString{P(1, 2)}}}, bad},
		geom.GeometryCollection{nil}, geom.GeometryCollection{P(1, 2), nil},
	}
	// fixed points of the transformer at the first vertex / the first vertex of every member / the last one:
	// the other vertices must still be transformed, later failures still reported
	fixable := func() []geom.Geom {
		return []geom.Geom{
			geom.MultiPoint{P(0, 0), P(1, 2), P(3, 4)}, geom.LineString{P(0, 0), P(1, 1), P(2, 5)},
			geom.MultiLineString{{P(0, 0), P(1, 1)}, {P(3, 3), P(4, 4), P(5, 6)}},
			geom.Polygon{{P(0, 0), P(2, 1), P(2, 3), P(0, 0)}, {P(1, 1), P(1, 2)}},
			geom.Polygon{{P(0, 0), P(2, 1), bad, P(0, 0)}, {P(1, 1), bad2}},
			geom.MultiPolygon{{{P(1, 1), P(2, 1), P(2, 3)}}, {{P(0, 0), P(5, 0), P(5, 5)}, {P(7, 7), bad}}},
			&geom.Bounds{Min: P(0, 0), Max: P(3, 4)}, &geom.Bounds{Min: P(1, 1), Max: bad},
			geom.GeometryCollection{P(1, 2), geom.Polygon{{P(0, 0), P(2, 1), P(2, 3)}}, &geom.Bounds{Min: P(0, 0), Max: P(2, 3)},
				geom.GeometryCollection{geom.MultiPolygon{{{P(0, 0), P(1, 0), bad2}}}}},
		}
	}
	for mode := 0; mode < 6; mode++ {
		for _, g := range fixable() {
			markFixed(g, mode, r)
			nv := nVerts(g)
			line("p", g)
			line("p@wx", g)
			line(fmt.Sprintf("c%d", nv-1), g)
			line(fmt.Sprintf("c%d", nv), g)
			line("c1", g)
		}
	}
	for _, g := range corpus {
		line("nil", g)
		line("p", g)
		line("p@wxn", g)
		nv := nVerts(g)
		for _, k := range []int{0, nv / 2, nv - 1, nv} {
			if k >= 0 {
				line(fmt.Sprintf("c%d", k), g)
			}
		}
	}
	gg := &gtGen{r: r}
	layouts := []string{"", "", "", "@w", "@w", "@x", "@wx", "@n", "@wn", "@wxn"}
	for i := 0; i < n; i++ {
		k := i % 8
		mode := r.Intn(10)
		lay := layouts[r.Intn(len(layouts))]
		gg.big = 0
		if r.Chance(0.04) {
			gg.big = 1 // one size threshold at exactly one nesting level
		}
		gg.prefix = strings.Contains(lay, "x") || r.Chance(0.1)
		// one line in six: coincident vertices (repeats of the last few vertices), up to all vertices equal
		gg.dup, gg.hist = 0, nil
		if r.Chance(0.17) {
			gg.dup = []float64{0.3, 0.7, 0.95}[r.Intn(3)]
		}
		// one line in four: some vertices are fixed points of the transformer (first / first of every member /
		// last / both / a third of them / the whole first member)
		fixMode := -1
		if r.Chance(0.25) {
			fixMode = r.Intn(6)
		}
		line := func(kind string, g geom.Geom) {
			if fixMode >= 0 {
				markFixed(g, fixMode, r)
			}
			line(kind, g)
		}
		switch {
		case mode == 0:
			gg.poison = 0
			line("nil"+lay, gg.geomOf(k, 3, r.Chance(0.1)))
		case mode <= 4:
			// pure transformer; poison density chosen so that none/one/several vertices fail
			gg.poison = []float64{0, 0, 0.02, 0.1, 0.4}[r.Intn(5)]
			if gg.big > 0 {
				gg.poison = []float64{0, 0, 0.001}[r.Intn(3)]
			}
			line("p"+lay, gg.geomOf(k, 3, r.Chance(0.05)))
		default:
			gg.poison = 0
			g := gg.geomOf(k, 3, false)
			nv := nVerts(g)
			var fail int
			switch r.Intn(5) {
			case 0:
				fail = 0
			case 1:
				fail = nv - 1
			case 2:
				fail = nv // none
			case 3:
				fail = nv / 2
			default:
				fail = r.Intn(nv + 2)
			}
			if fail < 0 {
				fail = 0
			}
			line(fmt.Sprintf("c%d%s", fail, lay), g)
		}
	}
}
