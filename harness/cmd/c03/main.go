// Harness for C03 (area, centroid, length, distance, buffer are the true measures).
//
//	gen --seed S --tier T   write case lines (inputs only)
//	impl                    read case lines, run the real code, append " => result"
//
// Line kinds (tag is g = integer grid, exact comparison; f = float, tolerance):
//
//	area  <tag> PG …            => <Area> <op.Area>
//	marea <tag> MPG …           => <Area> <op.Area>
//	cent  <tag> PG …            => <Polygon.Centroid> | <op.Centroid>     (ok x y | panic m | err)
//	mcent <tag> MPG …           => <MultiPolygon.Centroid>
//	len   <tag> LS…|MLS…        => <Length> <op.Length>
//	dist  <tag> px py LS…|MLS…  => <Distance>
//	buf   <tag> px py r n       => ok PG … | panic m
//	bnd   <tag> B …             => <Area> <cx> <cy>
package main

import (
	"bufio"
	"fmt"
	"math"
	"os"
	"sort"
	"strconv"
	"strings"
	"sync"
	"sync/atomic"

	"github.com/ctessum/geom"
	"github.com/ctessum/geom/op"

	"verif/harness/vproto"
)

type ring = []geom.Point

func pt(x, y int) geom.Point { return geom.Point{X: float64(x), Y: float64(y)} }

// ---------- exact integer validity (mirrors Spec.ValidPoly) ----------

func cross(a, b, c geom.Point) float64 { return (b.X-a.X)*(c.Y-a.Y) - (b.Y-a.Y)*(c.X-a.X) }
func sgn(x float64) int {
	if x > 0 {
		return 1
	} else if x < 0 {
		return -1
	}
	return 0
}
func inBox(p, a, b geom.Point) bool {
	return math.Min(a.X, b.X) <= p.X && p.X <= math.Max(a.X, b.X) && math.Min(a.Y, b.Y) <= p.Y && p.Y <= math.Max(a.Y, b.Y)
}
func onSeg(p, a, b geom.Point) bool { return cross(a, b, p) == 0 && inBox(p, a, b) }

// segsMeet: closed segments ab and cd share at least one point (exact on integer grids).
func segsMeet(a, b, c, d geom.Point) bool {
	d1, d2, d3, d4 := sgn(cross(a, b, c)), sgn(cross(a, b, d)), sgn(cross(c, d, a)), sgn(cross(c, d, b))
	if d1*d2 < 0 && d3*d4 < 0 {
		return true
	}
	return onSeg(c, a, b) || onSeg(d, a, b) || onSeg(a, c, d) || onSeg(b, c, d)
}

// strictlyInside by exact crossing number (half-open rule); -1 on edge, 0 outside, 1 inside.
func side(p geom.Point, r ring) int {
	n := len(r)
	in := false
	for i := 0; i < n; i++ {
		a, b := r[i], r[(i+1)%n]
		if onSeg(p, a, b) {
			return -1
		}
		if (a.Y <= p.Y) != (b.Y <= p.Y) {
			// x of the edge at height p.Y compared with p.X, exactly
			t := cross(a, b, p)
			if b.Y < a.Y {
				t = -t
			}
			if t > 0 {
				in = !in
			}
		}
	}
	if in {
		return 1
	}
	return 0
}

func simpleRing(r ring) bool {
	n := len(r)
	if n < 3 {
		return false
	}
	for i := 0; i < n; i++ {
		a, b := r[i], r[(i+1)%n]
		if a == b {
			return false
		}
		for j := i + 1; j < n; j++ {
			c, d := r[j], r[(j+1)%n]
			adj := j == i+1 || (i == 0 && j == n-1)
			if !adj {
				if segsMeet(a, b, c, d) {
					return false
				}
			} else {
				// adjacent: only the shared vertex may be common
				var s, u, v geom.Point
				if j == i+1 {
					s, u, v = b, a, d
				} else {
					s, u, v = a, b, c
				}
				if cross(s, u, v) == 0 && (u.X-s.X)*(v.X-s.X)+(u.Y-s.Y)*(v.Y-s.Y) > 0 {
					return false
				}
			}
		}
	}
	return shoelace2(r) != 0
}

func shoelace2(r ring) float64 {
	s := 0.
	n := len(r)
	for i := 0; i < n; i++ {
		a, b := r[i], r[(i+1)%n]
		s += (a.X + b.X) * (b.Y - a.Y)
	}
	return s
}

func ringsDisjoint(r, s ring) bool {
	for i := range r {
		for j := range s {
			if segsMeet(r[i], r[(i+1)%len(r)], s[j], s[(j+1)%len(s)]) {
				return false
			}
		}
	}
	return true
}

// validPoly: open spelling, ring 0 shell, others holes strictly inside and mutually outside.
func validPoly(p []ring) bool {
	if len(p) == 0 {
		return false
	}
	for _, r := range p {
		if !simpleRing(r) {
			return false
		}
	}
	for i := range p {
		for j := i + 1; j < len(p); j++ {
			if !ringsDisjoint(p[i], p[j]) {
				return false
			}
		}
	}
	for i := 1; i < len(p); i++ {
		if side(p[i][0], p[0]) != 1 {
			return false
		}
		for j := 1; j < len(p); j++ {
			if j != i && side(p[i][0], p[j]) != 0 {
				return false
			}
		}
	}
	return true
}

// ---------- base shapes on the integer grid ----------

func starRing(r *vproto.Rng, cx, cy, rmin, rmax, n int) ring {
	for try := 0; try < 50; try++ {
		ang := make([]float64, n)
		for i := range ang {
			ang[i] = r.Float() * 2 * math.Pi
		}
		sort.Float64s(ang)
		out := make(ring, 0, n)
		for _, a := range ang {
			rad := float64(rmin) + r.Float()*float64(rmax-rmin)
			p := pt(cx+int(math.Round(rad*math.Cos(a))), cy+int(math.Round(rad*math.Sin(a))))
			if len(out) > 0 && out[len(out)-1] == p {
				continue
			}
			out = append(out, p)
		}
		if len(out) >= 3 && out[0] == out[len(out)-1] {
			out = out[:len(out)-1]
		}
		if simpleRing(out) {
			return out
		}
	}
	return rect(cx-rmin, cy-rmin, cx+rmin, cy+rmin)
}

func rect(x0, y0, x1, y1 int) ring { return ring{pt(x0, y0), pt(x1, y0), pt(x1, y1), pt(x0, y1)} }
func diamond(cx, cy, h int) ring   { return ring{pt(cx-h, cy), pt(cx, cy-h), pt(cx+h, cy), pt(cx, cy+h)} }
func tri(r *vproto.Rng, x0, y0, x1, y1 int) ring {
	for try := 0; try < 20; try++ {
		t := ring{pt(r.Range(x0, x1), r.Range(y0, y1)), pt(r.Range(x0, x1), r.Range(y0, y1)), pt(r.Range(x0, x1), r.Range(y0, y1))}
		if simpleRing(t) {
			return t
		}
	}
	return ring{pt(x0, y0), pt(x1, y0), pt(x0, y1)}
}

// rectilinear comb / staircase shell covering [0,w]x[0,h] with teeth cut from the top edge
func comb(r *vproto.Rng, x0, y0, w, h int) ring {
	out := ring{pt(x0, y0), pt(x0+w, y0)}
	teeth := r.Range(1, 3)
	step := w / (2*teeth + 1)
	if step < 1 {
		return rect(x0, y0, x0+w, y0+h)
	}
	x := x0 + w
	out = append(out, pt(x, y0+h))
	for t := 0; t < teeth; t++ {
		d := r.Range(1, h/3+1)
		out = append(out, pt(x-step, y0+h), pt(x-step, y0+h-d), pt(x-2*step, y0+h-d), pt(x-2*step, y0+h))
		x -= 2 * step
	}
	out = append(out, pt(x0, y0+h))
	// remove a duplicated corner if the last tooth ended exactly at x0
	if out[len(out)-1] == out[len(out)-2] {
		out = out[:len(out)-1]
	}
	return out
}

func smallShape(r *vproto.Rng, x0, y0, x1, y1 int) ring {
	cx, cy := (x0+x1)/2, (y0+y1)/2
	h := (x1 - x0) / 2
	if (y1-y0)/2 < h {
		h = (y1 - y0) / 2
	}
	switch r.Intn(5) {
	case 0:
		return rect(r.Range(x0, cx-1), r.Range(y0, cy-1), r.Range(cx+1, x1), r.Range(cy+1, y1))
	case 1:
		return diamond(cx, cy, r.Range(1, h))
	case 2:
		return tri(r, x0, y0, x1, y1)
	case 3:
		if h >= 3 {
			return starRing(r, cx, cy, 1, h, r.Range(4, 8))
		}
		return tri(r, x0, y0, x1, y1)
	default:
		// thin diagonal sliver with a large bounding box
		return ring{pt(x0, y0), pt(x1, y1-1), pt(x1-1, y1)}
	}
}

// basePoly returns a valid polygon (open spelling) with nh holes around origin (ox,oy).
func basePoly(r *vproto.Rng, nh int, ox, oy int) []ring {
	for try := 0; try < 200; try++ {
		S := r.Range(8, 24) // half size of the hole area
		var shell ring
		switch r.Intn(5) {
		case 0:
			shell = rect(ox-S-r.Range(1, 4), oy-S-r.Range(1, 4), ox+S+r.Range(1, 4), oy+S+r.Range(1, 4))
		case 1:
			shell = starRing(r, ox, oy, 2*S+3, 3*S+3, r.Range(6, 12))
		case 2:
			shell = comb(r, ox-S-2, oy-S-2, 2*S+4+r.Range(0, 6), 2*S+4+r.Range(0, 6))
		case 3:
			shell = diamond(ox, oy, 2*S+r.Range(2, 6))
		default:
			// concave star with spikes that may reach into hole bounding boxes
			shell = starRing(r, ox, oy, S/2+1, 3*S, r.Range(8, 14))
		}
		p := []ring{shell}
		// holes in the cells of a 2x2 subdivision of [ox-S,ox+S]x[oy-S,oy+S] (or spanning, for 1 hole)
		cells := [][4]int{{ox - S, oy - S, ox - 1, oy - 1}, {ox + 1, oy - S, ox + S, oy - 1}, {ox - S, oy + 1, ox - 1, oy + S}, {ox + 1, oy + 1, ox + S, oy + S}}
		perm := []int{0, 1, 2, 3}
		for i := 3; i > 0; i-- {
			j := r.Intn(i + 1)
			perm[i], perm[j] = perm[j], perm[i]
		}
		if nh == 1 && r.Bool() {
			p = append(p, smallShape(r, ox-S, oy-S, ox+S, oy+S))
		} else {
			for k := 0; k < nh; k++ {
				c := cells[perm[k]]
				p = append(p, smallShape(r, c[0], c[1], c[2], c[3]))
			}
		}
		if validPoly(p) {
			return p
		}
	}
	// fallback: rectangle with small square holes
	p := []ring{rect(ox-30, oy-30, ox+30, oy+30)}
	for k := 0; k < nh; k++ {
		x := ox - 20 + 10*k
		p = append(p, rect(x, oy-2, x+4, oy+2))
	}
	return p
}

// ---------- spellings ----------

type spell struct {
	rev    bool
	rot    int
	closed bool
}

func respell(r ring, s spell) ring {
	n := len(r)
	out := make(ring, 0, n+1)
	if n == 0 {
		return out
	}
	k := ((s.rot % n) + n) % n
	for i := 0; i < n; i++ {
		out = append(out, r[(i+k)%n])
	}
	if s.rev {
		for i, j := 0, len(out)-1; i < j; i, j = i+1, j-1 {
			out[i], out[j] = out[j], out[i]
		}
	}
	if s.closed {
		out = append(out, out[0])
	}
	return out
}

func rotChoices(n int) []int { return []int{0, 1, n / 2, n - 1} }

// orbit enumerates (or samples up to max) spellings of p.
func orbit(r *vproto.Rng, p []ring, max int, f func([]ring, []spell)) {
	k := len(p)
	total := 1
	for i := 0; i < k && total <= max; i++ {
		total *= 16
	}
	emit := func(code []int) {
		q := make([]ring, k)
		ss := make([]spell, k)
		for i := range p {
			c := code[i]
			ss[i] = spell{rev: c&1 == 1, closed: c&2 == 2, rot: rotChoices(len(p[i]))[c>>2]}
			q[i] = respell(p[i], ss[i])
		}
		f(q, ss)
	}
	if total <= max {
		code := make([]int, k)
		for {
			emit(code)
			i := 0
			for i < k {
				code[i]++
				if code[i] < 16 {
					break
				}
				code[i] = 0
				i++
			}
			if i == k {
				return
			}
		}
	}
	// systematic part: identity, all reversed, each single ring reversed, all closed, all closed+reversed
	code := make([]int, k)
	set := func(g func(i int) int) {
		for i := range code {
			code[i] = g(i)
		}
		emit(code)
	}
	set(func(int) int { return 0 })
	set(func(int) int { return 1 })
	set(func(int) int { return 2 })
	set(func(int) int { return 3 })
	for j := 0; j < k; j++ {
		set(func(i int) int {
			if i == j {
				return 3 | r.Intn(4)<<2
			}
			return 2 | r.Intn(4)<<2
		})
	}
	for n := 6 + k; n < max; n++ {
		set(func(int) int { return r.Intn(16) })
	}
}

func toPoly(p []ring) geom.Polygon {
	out := make(geom.Polygon, len(p))
	for i, r := range p {
		out[i] = r
	}
	return out
}

// affine map to arbitrary floats (invertible, moderate conditioning)
type affine struct{ a, b, c, d, tx, ty float64 }

func randAffine(r *vproto.Rng) affine {
	s := math.Pow(10, float64(r.Range(-3, 4))) * (0.5 + r.Float())
	th := r.Float() * 2 * math.Pi
	k := 0.5 + 1.5*r.Float() // anisotropy
	sh := (r.Float() - 0.5)  // shear
	a := affine{a: s * math.Cos(th), b: -s * math.Sin(th) * k, c: s * math.Sin(th), d: s * math.Cos(th) * k}
	a.b += sh * a.a
	a.d += sh * a.c
	a.tx = (r.Float() - 0.5) * s * 200
	a.ty = (r.Float() - 0.5) * s * 200
	return a
}
func (m affine) ap(p geom.Point) geom.Point {
	return geom.Point{X: m.a*p.X + m.b*p.Y + m.tx, Y: m.c*p.X + m.d*p.Y + m.ty}
}
func mapRings(m affine, p []ring) []ring {
	out := make([]ring, len(p))
	for i, r := range p {
		out[i] = make(ring, len(r))
		for j, q := range r {
			out[i][j] = m.ap(q)
		}
	}
	return out
}

func allClosed(ss []spell) bool {
	for _, s := range ss {
		if !s.closed {
			return false
		}
	}
	return true
}

// ---------- generator ----------

// dyadic coordinate scales: multiplying by a power of two is exact, so the shape stays on a grid
// (products stay exact) while absolute magnitudes move across any fixed threshold in the code
var dyadic = []int{-14, -16, -17, -18, -20, -24, -30, 20}

func scaleRings(p []ring, e int) []ring {
	f := math.Ldexp(1, e)
	out := make([]ring, len(p))
	for i, r := range p {
		out[i] = make(ring, len(r))
		for j, q := range r {
			out[i][j] = geom.Point{X: q.X * f, Y: q.Y * f}
		}
	}
	return out
}

// scaleRingsXY multiplies X by 2^ex and Y by 2^ey (exact): polygons whose extents in x and y differ
// by hundreds of binary orders of magnitude (the centroids rescale each axis on its own)
func scaleRingsXY(p []ring, ex, ey int) []ring {
	fx, fy := math.Ldexp(1, ex), math.Ldexp(1, ey)
	out := make([]ring, len(p))
	for i, r := range p {
		out[i] = make(ring, len(r))
		for j, q := range r {
			out[i][j] = geom.Point{X: q.X * fx, Y: q.Y * fy}
		}
	}
	return out
}

// translateRings adds (ox, oy) to every vertex (rounded when the sum is not representable: the judge reads the
// coordinates the implementation got)
func translateRings(p []ring, ox, oy float64) []ring {
	out := make([]ring, len(p))
	for i, r := range p {
		out[i] = make(ring, len(r))
		for j, q := range r {
			out[i][j] = geom.Point{X: q.X + ox, Y: q.Y + oy}
		}
	}
	return out
}

// farOffsets: powers of two 2^20..2^40 and decimal offsets 1e5..1e9 (whole and fractional), either sign
func farOffset(r *vproto.Rng) float64 {
	var o float64
	switch r.Intn(4) {
	case 0:
		o = math.Ldexp(1, r.Range(20, 40))
	case 1:
		o = math.Ldexp(float64(r.Range(3, 15)), r.Range(18, 36)) // k·2^e
	case 2:
		o = []float64{1e5, 1e6, 1e7, 1e8, 1e9, 3e7, 5e5, 4.2e8}[r.Intn(8)]
	default:
		o = []float64{500000.123, 5000000.456, 123456.789, 98765432.125, 1e9 + 0.25, 654321.5, 33333333.3, 271828.1828}[r.Intn(8)]
	}
	if r.Bool() {
		o = -o
	}
	return o
}

// farExact: offsets for which the area sums of a small integer-grid polygon stay exact (whole numbers up to 2^30)
func farExact(o float64) bool { return o == math.Trunc(o) && math.Abs(o) <= 1<<30 }

var anisoExps = [][2]int{{0, 600}, {600, 0}, {0, -600}, {-600, 0}, {350, -350}, {-350, 350}, {0, 520}, {-520, 0}, {0, 320}, {310, 0}, {400, -200}, {0, -330}}

// lay picks the memory layout suffix of a tag (see relayout)
func lay(r *vproto.Rng) string { return []string{"", "", "", ".p", ".p", ".s"}[r.Intn(6)] }

func gen(seed uint64, tier string) {
	out := bufio.NewWriterSize(os.Stdout, 1<<20)
	defer out.Flush()
	r := vproto.NewRng(seed)
	nBase, maxOrbit, nMulti, nLine, nBuf := 220, 24, 90, 900, 150
	if tier == "thorough" {
		nBase, maxOrbit, nMulti, nLine, nBuf = 1000, 64, 450, 15000, 2500
	}
	G := func(g geom.Geom) string { return vproto.GeomToks(g) }

	// ---- fixed corpus ----
	sq := ring{pt(0, 0), pt(2, 0), pt(2, 2), pt(0, 2)}
	sqcw := respell(sq, spell{rev: true})
	sqC := respell(sq, spell{closed: true})
	sqcwC := respell(sq, spell{rev: true, closed: true})
	hole := ring{pt(4, 4), pt(6, 4), pt(6, 7), pt(4, 7)}
	big := ring{pt(0, 0), pt(10, 0), pt(10, 10), pt(0, 10)}
	for _, p := range []geom.Polygon{
		{sq}, {sqcw}, {sqC}, {sqcwC}, {big, hole}, {big, respell(hole, spell{rev: true})},
		{respell(big, spell{closed: true}), respell(hole, spell{closed: true})},
		{respell(big, spell{closed: true, rev: true}), respell(hole, spell{closed: true})},
		{respell(big, spell{closed: true}), respell(hole, spell{closed: true, rev: true, rot: 2})},
		{}, {{}}, {sq, {}}, {{pt(1, 1)}}, {{pt(1, 1), pt(2, 2)}}, {{pt(0, 0), pt(1, 1), pt(2, 2)}},
		{big, big}, {big, respell(big, spell{rev: true})}, // identical rings (not valid)
		{big, ring{pt(0, 0), pt(5, 0), pt(5, 5)}},      // hole touching the shell (not valid)
		{ring{pt(0, 0), pt(4, 4), pt(4, 0), pt(0, 4)}}, // bow-tie (not valid)
		{hole, big}, // hole listed first (not valid as written)
		{big, hole, ring{pt(5, 5), pt(5, 6), pt(6, 6)}[0:3]},                                                // nested hole in hole (not valid)
		{ring{pt(0, 0), pt(20, 0), pt(20, 20), pt(10, 6), pt(0, 20)}, ring{pt(4, 2), pt(16, 2), pt(16, 4)}}, // notch
		// every vertex of the shell is touched by a hole (no vertex of the shell decides): area() falls through to its "matches" logic
		{ring{pt(0, 0), pt(12, 0), pt(0, 12)}, ring{pt(0, 0), pt(3, 1), pt(1, 3)}, ring{pt(12, 0), pt(8, 1), pt(9, 2)}, ring{pt(0, 12), pt(1, 8), pt(2, 9)}},
	} {
		fmt.Fprintf(out, "area g %s\ncent g %s\n", G(p), G(p))
		fmt.Fprintf(out, "marea g %s\nmcent g %s\n", G(geom.MultiPolygon{p}), G(geom.MultiPolygon{p}))
	}
	packedShell, packedHole := ring{pt(0, 0), pt(4, 0), pt(4, 4), pt(0, 4)}, ring{pt(1, 1), pt(1, 3), pt(3, 3), pt(3, 1)}
	for _, lm := range []string{"g.p", "g.s", "g"} {
		fmt.Fprintf(out, "area %s %s\ncent %s %s\n", lm, G(geom.Polygon{packedShell, packedHole}), lm, G(geom.Polygon{packedShell, packedHole}))
		mpk := geom.MultiPolygon{{ring{pt(0, 0), pt(2, 0), pt(2, 2), pt(0, 2)}}, {ring{pt(10, 10), pt(13, 10), pt(13, 13), pt(10, 13)}}}
		fmt.Fprintf(out, "marea %s %s\nmcent %s %s\n", lm, G(mpk), lm, G(mpk))
		for _, e := range []int{-17, -20, -30} {
			b := toPoly(scaleRings([]ring{respell(big, spell{closed: true}), respell(hole, spell{closed: true, rev: true})}, e))
			fmt.Fprintf(out, "area %s %s\ncent %s %s\nmcent %s %s\n", lm, G(b), lm, G(b), lm, G(geom.MultiPolygon{b}))
		}
	}
	for _, e := range []int{-600, -400, 400, 600} {
		b := toPoly(scaleRings([]ring{respell(big, spell{closed: true}), respell(hole, spell{closed: true, rev: true})}, e))
		fmt.Fprintf(out, "cent g %s\nmcent g %s\n", G(b), G(geom.MultiPolygon{b}))
	}
	// anisotropic magnitudes (x ~ 1, y ~ 2^±600 and the like): the centroid is representable, the cubic sums
	// are not unless each axis is rescaled on its own
	for _, e := range anisoExps {
		b := toPoly(scaleRingsXY([]ring{respell(big, spell{closed: true}), respell(hole, spell{closed: true, rev: true})}, e[0], e[1]))
		fmt.Fprintf(out, "area g %s\ncent g %s\nmcent g %s\n", G(b), G(b), G(geom.MultiPolygon{b}))
	}
	// polygons far from the origin relative to their size (finding 9, fixed: the centroid sums formed in absolute
	// coordinates cancel, relative error ~ 2^-53 (offset/extent)^2; they are now formed relative to the first vertex).
	// The judge measures the centroid against the EXTENT of the polygon (class suffix -offset:far).
	for _, o := range [][2]float64{{1 << 30, 1 << 30}, {1e9, 1e9}, {500000.123, 5000000.456}, {1e12, -1e12},
		{-(1 << 40), 1 << 20}, {0, 1 << 35}, {-1e7, 0}, {123456.789, -98765432.125}, {1e5, 1e8}} {
		b := toPoly(translateRings([]ring{respell(big, spell{closed: true}), respell(hole, spell{closed: true, rev: true})}, o[0], o[1]))
		fmt.Fprintf(out, "cent f %s\nmcent f %s\n", G(b), G(geom.MultiPolygon{b}))
		if farExact(o[0]) && farExact(o[1]) {
			fmt.Fprintf(out, "area f %s\n", G(b))
		}
		// the first vertex is not the first ring's / the first member is not the largest: two members far away
		mp2 := geom.MultiPolygon{toPoly(translateRings([]ring{sqC}, o[0]+20, o[1]-7)), b}
		fmt.Fprintf(out, "mcent f %s\n", G(mp2))
	}
	for _, mp := range []geom.MultiPolygon{{}, {{}}, {{sqcwC}}, {{sqC}, {respell(hole, spell{closed: true, rev: true})}},
		{{sqcwC}, {respell(big, spell{closed: true}), respell(hole, spell{closed: true})}}} {
		fmt.Fprintf(out, "marea g %s\nmcent g %s\n", G(mp), G(mp))
	}
	for _, l := range []geom.Geom{geom.LineString{}, geom.LineString{pt(1, 1)}, geom.LineString{pt(0, 0), pt(3, 4)},
		geom.LineString{pt(0, 0), pt(0, 0)}, geom.LineString{pt(0, 0), pt(3, 4), pt(3, 4), pt(6, 8)},
		geom.MultiLineString{}, geom.MultiLineString{{}}, geom.MultiLineString{{pt(0, 0), pt(3, 4)}, {}, {pt(1, 1), pt(1, 2), pt(5, 2)}}} {
		fmt.Fprintf(out, "len g %s\n", G(l))
		for _, q := range []geom.Point{pt(0, 0), pt(3, 4), pt(-3, -4), pt(4, -3), pt(10, 10), {X: 1.5, Y: 2}} {
			fmt.Fprintf(out, "dist g %s %s %s\n", vproto.F2H(q.X), vproto.F2H(q.Y), G(l))
		}
	}
	for _, b := range [][3]float64{{0, 3, 0}, {1, 2, 0}, {1, -1, 0}, {0, 0, 0}, {5, 4, 0}, {2.5, 3, 0}, {1, 6, 0}, {1, 360, 0}, {1e6, 5, 1e6}, {1, 7, 1e6}} {
		fmt.Fprintf(out, "buf f %s %s %s %d\n", vproto.F2H(b[2]), vproto.F2H(-b[2]/3), vproto.F2H(b[0]), int(b[1]))
	}
	fmt.Fprintf(out, "buf f %s %s %s %d\n", vproto.F2H(0), vproto.F2H(0), vproto.F2H(-1), 2)
	for _, b := range []*geom.Bounds{{Min: pt(0, 0), Max: pt(1, 1)}, {Min: pt(-3, 2), Max: pt(5, 9)}, {Min: pt(2, 2), Max: pt(2, 2)}} {
		fmt.Fprintf(out, "bnd g %s\n", G(b))
	}

	// ---- valid polygons under their spelling orbit ----
	emitPoly := func(tag string, q []ring, ss []spell) {
		g := G(toPoly(q))
		fmt.Fprintf(out, "area %s%s %s\n", tag, lay(r), g)
		fmt.Fprintf(out, "cent %s%s %s\n", tag, lay(r), g)
		if r.Intn(3) == 0 || allClosed(ss) {
			mg := G(geom.MultiPolygon{toPoly(q)})
			fmt.Fprintf(out, "mcent %s%s %s\n", tag, lay(r), mg)
			if r.Intn(4) == 0 {
				fmt.Fprintf(out, "marea %s%s %s\n", tag, lay(r), mg)
			}
		}
	}
	randSpells := func(p []ring, closedAll bool, sameRev bool) ([]ring, []spell) {
		q := make([]ring, len(p))
		ss := make([]spell, len(p))
		rev := r.Bool()
		for j := range p {
			ss[j] = spell{rev: r.Bool(), rot: rotChoices(len(p[j]))[r.Intn(4)], closed: closedAll || r.Bool()}
			if sameRev {
				ss[j].rev = rev
			}
			q[j] = respell(p[j], ss[j])
		}
		return q, ss
	}
	for i := 0; i < nBase; i++ {
		nh := []int{0, 0, 1, 1, 2, 3, 4}[r.Intn(7)]
		base := basePoly(r, nh, r.Range(-40, 40), r.Range(-40, 40))
		mo := maxOrbit
		if i%4 != 0 { // most bases get a small sample, every 4th the larger orbit
			mo = maxOrbit / 3
		}
		if nh == 0 {
			mo = 16
		}
		orbit(r, base, mo, func(q []ring, ss []spell) { emitPoly("g", q, ss) })
		// ring order permuted (shell not first): outside ValidPoly as written, so these lines only tie
		// the model to the code (hole detection must not depend on the ring's position in the slice)
		if len(base) >= 2 && i%2 == 0 {
			for rep := 0; rep < 2; rep++ {
				k := 1 + r.Intn(len(base)-1)
				q := make([]ring, 0, len(base))
				for j := range base {
					q = append(q, respell(base[(j+k)%len(base)], spell{rev: r.Bool(), rot: r.Intn(3), closed: rep == 0 || r.Bool()}))
				}
				fmt.Fprintf(out, "area g%s %s\n", lay(r), G(toPoly(q)))
				fmt.Fprintf(out, "cent g%s %s\n", lay(r), G(toPoly(q)))
				fmt.Fprintf(out, "marea g%s %s\n", lay(r), G(geom.MultiPolygon{toPoly(q)}))
				fmt.Fprintf(out, "mcent g%s %s\n", lay(r), G(geom.MultiPolygon{toPoly(q)}))
			}
		}
		// float images of the same base (validity is affine invariant)
		m := randAffine(r)
		orbit(r, mapRings(m, base), 5+len(base), func(q []ring, ss []spell) { emitPoly("f", q, ss) })
		// far magnitudes: areas where the result is still representable (2^±400, 2^±500), centroids
		// where the cubic moment sums are (2^±300)
		if i%4 == 1 {
			e := []int{-500, -400, 400, 500}[r.Intn(4)]
			q, _ := randSpells(scaleRings(base, e), r.Bool(), false)
			fmt.Fprintf(out, "area g%s %s\nmarea g%s %s\n", lay(r), G(toPoly(q)), lay(r), G(geom.MultiPolygon{toPoly(q)}))
			e = []int{-300, 300}[r.Intn(2)]
			q, _ = randSpells(scaleRings(base, e), true, true)
			fmt.Fprintf(out, "cent g%s %s\nmcent g%s %s\n", lay(r), G(toPoly(q)), lay(r), G(geom.MultiPolygon{toPoly(q)}))
			ae := anisoExps[r.Intn(len(anisoExps))]
			q, _ = randSpells(scaleRingsXY(base, ae[0], ae[1]), true, true)
			fmt.Fprintf(out, "area g%s %s\ncent g%s %s\nmcent g%s %s\n", lay(r), G(toPoly(q)), lay(r), G(toPoly(q)), lay(r), G(geom.MultiPolygon{toPoly(q)}))
		}
		// far from the origin relative to its size (offsets 2^20..2^40, 1e5..1e9, whole and fractional, per axis; one
		// axis may stay near): the centroid is judged against the extent of the polygon, not against the offset
		if i%2 == 1 {
			ox, oy := farOffset(r), farOffset(r)
			switch r.Intn(5) {
			case 0:
				ox = float64(r.Range(-3, 3))
			case 1:
				oy = float64(r.Range(-3, 3))
			}
			fb := translateRings(base, ox, oy)
			q, _ := randSpells(fb, true, true)
			fmt.Fprintf(out, "cent f%s %s\nmcent f%s %s\n", lay(r), G(toPoly(q)), lay(r), G(geom.MultiPolygon{toPoly(q)}))
			q, _ = randSpells(fb, true, false)
			fmt.Fprintf(out, "cent f%s %s\nmcent f%s %s\n", lay(r), G(toPoly(q)), lay(r), G(geom.MultiPolygon{toPoly(q)}))
			q, _ = randSpells(fb, false, false) // unclosed spellings: outside the statement, tie the model to the code
			fmt.Fprintf(out, "cent f%s %s\nmcent f%s %s\n", lay(r), G(toPoly(q)), lay(r), G(geom.MultiPolygon{toPoly(q)}))
			if farExact(ox) && farExact(oy) {
				fmt.Fprintf(out, "area f%s %s\n", lay(r), G(toPoly(q)))
			}
			// the first vertex of the first ring exactly ON a coordinate axis, the polygon far away along that axis
			// (a local origin with one coordinate 0: the guards must look at each axis, not at both or none)
			q, _ = randSpells(base, true, r.Bool())
			if v := q[0][0]; r.Bool() {
				q = translateRings(q, -v.X, oy)
			} else {
				q = translateRings(q, ox, -v.Y)
			}
			fmt.Fprintf(out, "cent f%s %s\nmcent f%s %s\n", lay(r), G(toPoly(q)), lay(r), G(geom.MultiPolygon{toPoly(q)}))
		}
		// the same base at dyadic scales (absolute thresholds must not exist): three scales per base,
		// one closed and one free spelling each; still tag g (exact on the scaled grid)
		for k := 0; k < 3; k++ {
			sb := scaleRings(base, dyadic[r.Intn(len(dyadic))])
			q, ss := randSpells(sb, true, r.Bool())
			emitPoly("g", q, ss)
			q, ss = randSpells(sb, false, false)
			emitPoly("g", q, ss)
		}
	}

	// ---- small hole-free polygons (3..6 vertices) under their FULL orbit ----
	// every start vertex x both directions x closed/unclosed; shapes with an axis-aligned right angle
	// that are not rectangles (right trapezoids, right triangles, quads with one square corner),
	// L-shapes, kites, rectangles and random simple polygons; in all eight axis symmetries
	smallFamily := func() [][]geom.Point {
		a, b, h := r.Range(2, 7), 0, r.Range(1, 5)
		b = r.Range(1, a-1)
		k := r.Range(1, 4)
		fam := []ring{
			{pt(0, 0), pt(a, 0), pt(a, h), pt(b, h)},                             // right trapezoid
			{pt(0, 0), pt(a, 0), pt(a, h), pt(a-b, h+k)},                         // one square corner
			{pt(0, 0), pt(a, 0), pt(0, h)},                                       // right triangle
			{pt(0, 0), pt(a, 0), pt(a, h), pt(0, h)},                             // rectangle
			{pt(0, 0), pt(a+k, 0), pt(a+k, h), pt(a, h), pt(a, h+k), pt(0, h+k)}, // L
			{pt(0, k), pt(-b, 0), pt(0, -h-k), pt(b, 0)},                         // kite
			{pt(0, 0), pt(a, 0), pt(a+b, h), pt(a, h+k), pt(0, h+k)},             // house (two square corners)
		}
		for try := 0; try < 20 && len(fam) < 9; try++ { // random simple polygons
			n := r.Range(3, 6)
			q := make(ring, n)
			for j := range q {
				q[j] = pt(r.Range(0, 6), r.Range(0, 6))
			}
			if simpleRing(q) {
				fam = append(fam, q)
			}
		}
		// one of the eight symmetries of the axes and a translation
		sym, tx, ty := r.Intn(8), float64(r.Range(-9, 9)), float64(r.Range(-9, 9))
		for _, q := range fam {
			for j, v := range q {
				x, y := v.X, v.Y
				if sym&1 == 1 {
					x = -x
				}
				if sym&2 == 2 {
					y = -y
				}
				if sym&4 == 4 {
					x, y = y, x
				}
				q[j] = geom.Point{X: x + tx, Y: y + ty}
			}
		}
		return fam
	}
	nSmall := 3
	if tier == "thorough" {
		nSmall = 40
	}
	for i := 0; i < nSmall; i++ {
		for _, base := range smallFamily() {
			if !simpleRing(base) {
				continue
			}
			for rot := 0; rot < len(base); rot++ {
				for c := 0; c < 4; c++ {
					q := respell(base, spell{rev: c&1 == 1, rot: rot, closed: c&2 == 2})
					g := G(geom.Polygon{q})
					fmt.Fprintf(out, "cent g%s %s\n", lay(r), g)
					if c&2 == 2 || r.Intn(4) == 0 {
						fmt.Fprintf(out, "mcent g%s %s\n", lay(r), G(geom.MultiPolygon{{q}}))
					}
					if r.Intn(4) == 0 {
						fmt.Fprintf(out, "area g%s %s\n", lay(r), g)
					}
				}
			}
		}
	}

	// ---- rings that touch in a single point (valid in the OGC sense; Spec.ValidPolyT) ----
	// a hole vertex on a side of a rectangular shell / on the extreme vertex of a diamond or triangle
	// shell (the touch point lies on the shell's bounding box), a hole vertex on a slanted shell edge,
	// two holes touching each other; with and without further holes strictly inside; every spelling
	nTouch := 10
	if tier == "thorough" {
		nTouch = 120
	}
	for i := 0; i < nTouch; i++ {
		ox, oy := r.Range(-30, 30), r.Range(-30, 30)
		W, H := r.Range(12, 30), r.Range(12, 30)
		a, b, c := r.Range(2, 5), r.Range(1, 3), r.Range(1, 3)
		var base []ring
		switch i % 6 {
		case 0: // hole vertex on the left side of a rectangle
			ym := oy + r.Range(4, H-4)
			base = []ring{rect(ox, oy, ox+W, oy+H), {pt(ox, ym), pt(ox+a, ym-b), pt(ox+a, ym+c)}}
		case 1: // on the top side
			xm := ox + r.Range(4, W-4)
			base = []ring{rect(ox, oy, ox+W, oy+H), {pt(xm, oy+H), pt(xm-b, oy+H-a), pt(xm+c, oy+H-a)}}
		case 2: // on the right / bottom side, second hole strictly inside
			ym := oy + r.Range(4, H/2-1)
			base = []ring{rect(ox, oy, ox+W, oy+H), {pt(ox+W, ym), pt(ox+W-a, ym+c), pt(ox+W-a, ym-b)}, rect(ox+2, oy+H-4, ox+5, oy+H-2)}
			if r.Bool() {
				xm := ox + r.Range(4, W-4)
				base[1] = ring{pt(xm, oy), pt(xm+c, oy+a), pt(xm-b, oy+a)}
			}
		case 3: // hole vertex on the extreme vertex of a diamond (b, c < a keeps it in the corner wedge)
			h := r.Range(8, 20)
			base = []ring{diamond(ox, oy, h), {pt(ox-h, oy), pt(ox-h+a+3, oy-b), pt(ox-h+a+3, oy+c)}}
			if r.Bool() {
				base[1] = ring{pt(ox, oy+h), pt(ox-b, oy+h-a-3), pt(ox+c, oy+h-a-3)}
			}
		case 4: // hole vertex on the slanted edge of a right triangle (touch point not on the bounding box) + a corner touch
			L := 4 * r.Range(4, 8)
			k := r.Range(2, L/2-2)
			base = []ring{{pt(ox, oy), pt(ox+L, oy), pt(ox, oy+L)}, {pt(ox+k, oy+L-k), pt(ox+k-1, oy+L-k-3), pt(ox+k-3, oy+L-k-1)}}
		default: // two holes touching each other in one point, strictly inside the shell
			base = []ring{rect(ox, oy, ox+W, oy+H), rect(ox+2, oy+2, ox+5, oy+5), {pt(ox+5, oy+3), pt(ox+8, oy+2), pt(ox+8, oy+6)}}
		}
		mo := 24
		if len(base) == 2 {
			mo = 256
			if tier != "thorough" && i >= 6 {
				mo = 40
			}
		}
		secondScale := 0 // dyadic exponent of the second member (sums stay exact)
		emitT := func(q []ring, ss []spell) {
			g := G(toPoly(q))
			fmt.Fprintf(out, "area g%s %s\ncent g%s %s\n", lay(r), g, lay(r), g)
			if allClosed(ss) || r.Intn(4) == 0 {
				second := toPoly(scaleRings([]ring{respell(rect(ox+100, oy, ox+104, oy+4), spell{rev: r.Bool(), closed: true})}, secondScale))
				mp := geom.MultiPolygon{toPoly(q)}
				if r.Bool() {
					mp = append(mp, second)
				}
				fmt.Fprintf(out, "mcent g%s %s\nmarea g%s %s\n", lay(r), G(mp), lay(r), G(mp))
			}
		}
		orbit(r, base, mo, emitT)
		for rep := 0; rep < 6; rep++ { // all closed (the statement's centroid clause), random directions and start vertices
			q, ss := randSpells(base, true, rep%2 == 0)
			emitT(q, ss)
		}
		secondScale = dyadic[r.Intn(len(dyadic))]
		q, ss := randSpells(scaleRings(base, secondScale), true, false)
		emitT(q, ss)
		// (no float images: an affine image in floating point does not keep a vertex exactly on an edge)
	}

	// a shell touched in every vertex AND in the middle of two of its three edges: only the middle of the
	// third edge decides; under every start vertex / direction / closure that edge is the first, the
	// second or the closing one (unclosed spelling: the wrap-around edge)
	{
		T := 2 * r.Range(3, 9) // leg = 4T, multiples keep every middle on the grid
		ox, oy := r.Range(-20, 20), r.Range(-20, 20)
		P := func(x, y int) geom.Point { return pt(ox+x, oy+y) }
		L := 4 * T
		base := []ring{
			{P(0, 0), P(L, 0), P(0, L)},
			{P(0, 0), P(3, 1), P(1, 3)}, {P(L, 0), P(L-4, 1), P(L-3, 2)}, {P(0, L), P(1, L-4), P(2, L-3)},
			{P(L/2, 0), P(L/2-1, 2), P(L/2+1, 2)}, {P(L/2, L/2), P(L/2-2, L/2-1), P(L/2-1, L/2-2)},
		}
		for rot := 0; rot < 3; rot++ {
			for c := 0; c < 4; c++ {
				q := make([]ring, len(base))
				q[0] = respell(base[0], spell{rev: c&1 == 1, rot: rot, closed: c&2 == 2})
				for j := 1; j < len(base); j++ {
					q[j] = respell(base[j], spell{rev: r.Bool(), rot: r.Intn(3), closed: c&2 == 2 || r.Bool()})
				}
				g := G(toPoly(q))
				fmt.Fprintf(out, "area g%s %s\ncent g%s %s\nmarea g%s %s\nmcent g%s %s\n", lay(r), g, lay(r), g,
					lay(r), G(geom.MultiPolygon{toPoly(q)}), lay(r), G(geom.MultiPolygon{toPoly(q)}))
			}
		}
	}

	// ---- size thresholds: vertex counts and member counts around powers of two ----
	// (integer coordinates: every sum is exact)
	sizes := []int{63, 64, 65, 66, 127, 128, 129, 130, 255, 256, 257, 1023, 1024, 1025, 2047, 2048, 2049}
	zig := func(n int) geom.LineString { // n points, segments of length 5 or 13 (3-4-5 / 5-12-13), never self-overlapping issues for Length/Distance
		l := make(geom.LineString, n)
		x, y := r.Range(-5, 5), r.Range(-5, 5)
		for j := range l {
			l[j] = pt(x, y)
			if r.Bool() {
				x += 3
				y += 4 * (1 - 2*(j%2))
			} else {
				x += 5
				y += 12 * (1 - 2*(j%2))
			}
		}
		return l
	}
	// sawtooth ring with exactly n vertices: flat bottom, strictly x-monotone zigzag top (simple by construction)
	saw := func(n int, ox, oy int) ring {
		q := make(ring, 0, n)
		q = append(q, pt(ox, oy), pt(ox+2*(n-2)+2, oy))
		for k := 0; k < n-2; k++ {
			q = append(q, pt(ox+2*(n-2)+1-2*k, oy+3+(k%2)*r.Range(1, 4)))
		}
		return q
	}
	for _, n := range sizes {
		l := zig(n)
		fmt.Fprintf(out, "len g%s %s\n", lay(r), G(l))
		for _, qp := range []geom.Point{l[0], l[n/2], {X: l[n/2].X + 7, Y: l[n/2].Y - 11}, {X: l[n-1].X + 3, Y: l[n-1].Y + 1}, {X: l[n/2-1].X, Y: l[n/2-1].Y + 2}} {
			fmt.Fprintf(out, "dist g%s %s %s %s\n", lay(r), vproto.F2H(qp.X), vproto.F2H(qp.Y), G(l))
		}
		// the long line as a member of a multi line string, and n short members
		ml := geom.MultiLineString{zig(3), l, zig(2)}
		fmt.Fprintf(out, "len g%s %s\ndist g%s %s %s %s\n", lay(r), G(ml), lay(r), vproto.F2H(l[n-2].X+1), vproto.F2H(l[n-2].Y), G(ml))
		many := make(geom.MultiLineString, n)
		for j := range many {
			many[j] = geom.LineString{pt(3*j, j%7), pt(3*j+3, j%7+4)}
		}
		fmt.Fprintf(out, "len g%s %s\ndist g%s %s %s %s\n", lay(r), G(many), lay(r), vproto.F2H(float64(3*(n-1))+1), vproto.F2H(-2), G(many))
		// rings and members: exact validity costs O(n^2) in the judge, so the quick tier takes 65 and 129 only and the thorough tier goes up to 1025 vertices / 257 members
		polySize := n == 65 || n == 129 // quick tier
		if tier == "thorough" {
			polySize = n <= 1025
		}
		if polySize {
			sp := spell{rev: r.Bool(), rot: r.Intn(n), closed: true}
			q := respell(saw(n, r.Range(-9, 9), r.Range(-9, 9)), sp)
			fmt.Fprintf(out, "area g%s %s\ncent g%s %s\nmcent g%s %s\n", lay(r), G(geom.Polygon{q}), lay(r), G(geom.Polygon{q}), lay(r), G(geom.MultiPolygon{{q}}))
			q = respell(saw(n, 0, 0), spell{rev: r.Bool(), rot: r.Intn(n)})
			fmt.Fprintf(out, "area g%s %s\n", lay(r), G(geom.Polygon{q}))
		}
		// member counts: n unit-ish squares as members of a multipolygon; n holes in one shell
		if polySize && n <= 257 {
			mp := make(geom.MultiPolygon, n)
			holes := []ring{rect(-2, -2, 4*n+2, 6)}
			for j := range mp {
				sq := rect(4*j, 0, 4*j+2, 2+j%3)
				mp[j] = geom.Polygon{respell(sq, spell{rev: r.Bool(), rot: r.Intn(4), closed: true})}
				holes = append(holes, respell(sq, spell{rev: r.Bool(), rot: r.Intn(4), closed: true}))
			}
			fmt.Fprintf(out, "marea g%s %s\nmcent g%s %s\n", lay(r), G(mp), lay(r), G(mp))
			if n <= 130 {
				holes[0] = respell(holes[0], spell{closed: true})
				fmt.Fprintf(out, "area g%s %s\ncent g%s %s\nmcent g%s %s\n", lay(r), G(toPoly(holes)), lay(r), G(toPoly(holes)), lay(r), G(geom.MultiPolygon{toPoly(holes)}))
			}
		}
	}

	// ---- multipolygons of disjoint members ----
	for i := 0; i < nMulti; i++ {
		nm := r.Range(1, 4)
		var members [][]ring
		for k := 0; k < nm; k++ {
			nh := []int{0, 0, 1, 2, 4}[r.Intn(5)]
			members = append(members, basePoly(r, nh, 200*k+r.Range(-10, 10), r.Range(-60, 60)))
		}
		// island inside the first hole of the first member, when it fits
		if len(members[0]) > 1 && r.Bool() {
			h := members[0][1]
			cx, cy := 0., 0.
			for _, q := range h {
				cx += q.X
				cy += q.Y
			}
			c := pt(int(math.Round(cx/float64(len(h)))), int(math.Round(cy/float64(len(h)))))
			isl := []ring{{c, {X: c.X + 1, Y: c.Y}, {X: c.X, Y: c.Y + 1}}}
			if side(isl[0][0], h) == 1 && side(isl[0][1], h) == 1 && side(isl[0][2], h) == 1 && ringsDisjoint(isl[0], h) {
				members = append(members, isl)
			}
		}
		mo := maxOrbit / 2
		for rep := 0; rep < mo; rep++ {
			closedAll := rep%2 == 0
			mode := rep % 6 // 0: as is; others: random single-ring flips
			for _, tag := range []string{"g", "f"} {
				if tag == "f" && rep >= 4 {
					continue
				}
				m := randAffine(r)
				mp := make(geom.MultiPolygon, len(members))
				for k, mem := range members {
					src := mem
					if tag == "f" {
						src = mapRings(m, mem)
					}
					q := make([]ring, len(src))
					for j := range src {
						s := spell{rev: r.Bool(), rot: rotChoices(len(src[j]))[r.Intn(4)], closed: closedAll || r.Bool()}
						if mode == 0 {
							s.rev = false
						}
						if mode == 1 {
							s.rev = true
						}
						q[j] = respell(src[j], s)
					}
					mp[k] = toPoly(q)
				}
				if tag == "g" && rep%3 == 2 {
					e := dyadic[r.Intn(len(dyadic))]
					for k := range mp {
						rs := make([]ring, len(mp[k]))
						for j := range mp[k] {
							rs[j] = mp[k][j]
						}
						mp[k] = toPoly(scaleRings(rs, e))
					}
				}
				fmt.Fprintf(out, "marea %s%s %s\nmcent %s%s %s\n", tag, lay(r), G(mp), tag, lay(r), G(mp))
			}
		}
	}

	// ---- line strings: length and distance ----
	for i := 0; i < nLine; i++ {
		grid := i%2 == 0
		n := []int{2, 2, 3, 4, 6, 9}[r.Intn(6)]
		mk := func() geom.LineString {
			l := make(geom.LineString, n)
			for j := range l {
				if grid {
					l[j] = pt(r.Range(-20, 20), r.Range(-20, 20))
				} else {
					sc := math.Pow(10, float64(r.Range(-3, 5)))
					l[j] = geom.Point{X: (r.Float() - 0.5) * sc, Y: (r.Float() - 0.5) * sc}
				}
				if j > 0 && r.Intn(12) == 0 {
					l[j] = l[j-1] // zero-length segment
				}
			}
			return l
		}
		var g geom.Geom
		var first geom.LineString
		if r.Intn(3) == 0 {
			ml := geom.MultiLineString{}
			for k := r.Range(1, 3); k > 0; k-- {
				ml = append(ml, mk())
			}
			if r.Intn(4) == 0 {
				ml = append(ml, geom.LineString{})
			}
			g, first = ml, ml[0]
		} else {
			l := mk()
			g, first = l, l
		}
		tag := "f"
		if grid {
			tag = "g"
		}
		xs := 0 // extreme dyadic scale for every 5th grid case: squares of the coordinates leave the float range
		if grid && i%5 == 4 {
			// far scales, and scales around the thresholds of distPointToSegment's range guard (2^±500) and around the
			// magnitudes where the squares really leave the range (2^511.5 / 2^-537)
			xs = []int{-900, -600, -520, -511, 511, 520, 600, 900, 499, 500, 501, 505, 506, 507, 508, 509, 510, -499, -500, -501, -505, -507, -509, -530, -535, -540}[r.Intn(26)]
			f := math.Ldexp(1, xs)
			sc := func(l geom.LineString) {
				for j := range l {
					l[j] = geom.Point{X: l[j].X * f, Y: l[j].Y * f}
				}
			}
			switch t := g.(type) {
			case geom.LineString:
				sc(t)
			case geom.MultiLineString:
				for _, l := range t {
					sc(l)
				}
			}
		}
		fmt.Fprintf(out, "len %s%s %s\n", tag, lay(r), G(g))
		// query points: random; a vertex; a point whose projection is an endpoint; a point on a segment;
		// beyond each end of the first segment along its direction
		a, b := first[0], first[1]
		qs := []geom.Point{}
		if grid {
			qs = append(qs, pt(r.Range(-25, 25), r.Range(-25, 25)), a, b,
				geom.Point{X: a.X - (b.Y - a.Y), Y: a.Y + (b.X - a.X)}, // projects exactly onto a
				geom.Point{X: b.X - (b.Y - a.Y), Y: b.Y + (b.X - a.X)}, // projects exactly onto b
				geom.Point{X: (a.X + b.X) / 2, Y: (a.Y + b.Y) / 2},
				geom.Point{X: 2*b.X - a.X, Y: 2*b.Y - a.Y}, geom.Point{X: 2*a.X - b.X, Y: 2*a.Y - b.Y})
			if xs != 0 {
				f := math.Ldexp(1, xs)
				qs[0] = geom.Point{X: qs[0].X * f, Y: qs[0].Y * f}
			}
		} else {
			t := r.Float()*1.6 - 0.3
			off := (r.Float() - 0.5) * 2
			qs = append(qs, geom.Point{X: a.X + t*(b.X-a.X) - off*(b.Y-a.Y), Y: a.Y + t*(b.Y-a.Y) + off*(b.X-a.X)},
				geom.Point{X: a.X * (1 + r.Float()), Y: b.Y * (1 - r.Float())})
		}
		for _, q := range qs {
			fmt.Fprintf(out, "dist %s%s %s %s %s\n", tag, lay(r), vproto.F2H(q.X), vproto.F2H(q.Y), G(g))
		}
	}

	// ---- query points on / grazing the interior of a segment, non-dyadic coordinates ----
	// (cancellation: a formula that subtracts two nearly equal squares is exact on integer grids and
	// harmless for random query points, but loses everything when the point is numerically ON the
	// supporting line: coordinates k/10, k/7, k/3 and random floats; the point is interpolated along a
	// segment in floating point and pushed off it by 0, 1e-12 … 1e-3 of the segment length)
	nNear := 120
	if tier == "thorough" {
		nNear = 2500
	}
	for i := 0; i < nNear; i++ {
		den := []float64{10, 7, 3, 0}[i%4]
		sc := math.Pow(10, float64(r.Range(-2, 3)))
		coord := func() float64 {
			if den == 0 {
				return (r.Float() - 0.5) * 200 * sc
			}
			return float64(r.Range(-700, 700)) / den * sc
		}
		mk := func(n int) geom.LineString {
			l := make(geom.LineString, n)
			for j := range l {
				l[j] = geom.Point{X: coord(), Y: coord()}
			}
			return l
		}
		l := mk(r.Range(2, 5))
		var g geom.Geom = l
		if i%3 == 1 { // the grazed line among other members: one NaN must not spread, one minimum must win
			ml := geom.MultiLineString{mk(r.Range(2, 3)), l, mk(2)}
			if r.Bool() {
				ml = geom.MultiLineString{l, mk(r.Range(2, 4))}
			}
			g = ml
		}
		j := r.Intn(len(l) - 1)
		a, b := l[j], l[j+1]
		if a == b {
			continue
		}
		for _, t := range []float64{0.5, r.Float(), []float64{0.1, 0.9, 1. / 3, 0.999, 0.001}[r.Intn(5)]} {
			for _, off := range []float64{0, 0, 1e-12, 1e-9, 1e-6, 1e-3} {
				if off != 0 && r.Bool() {
					off = -off
				}
				if off == 0 && r.Bool() {
					t = r.Float()
				}
				q := geom.Point{X: a.X + t*(b.X-a.X) - off*(b.Y-a.Y), Y: a.Y + t*(b.Y-a.Y) + off*(b.X-a.X)}
				fmt.Fprintf(out, "dist f%s %s %s %s\n", lay(r), vproto.F2H(q.X), vproto.F2H(q.Y), G(g))
			}
		}
	}

	// ---- buffers ----
	for i := 0; i < nBuf; i++ {
		n := []int{3, 4, 5, 6, 8, 12, 17, 36, 90, 360, 720}[r.Intn(11)]
		if tier != "thorough" && n > 90 && r.Intn(4) != 0 {
			n = r.Range(3, 40)
		}
		rad := math.Pow(10, float64(r.Range(-3, 4))) * (0.1 + r.Float())
		c := geom.Point{X: (r.Float() - 0.5) * rad * float64(r.Range(0, 50)), Y: (r.Float() - 0.5) * rad * float64(r.Range(0, 50))}
		if i%12 == 5 { // far magnitudes
			f := math.Ldexp(1, []int{-900, -600, -511, 511, 600, 900}[r.Intn(6)])
			rad = f * float64(r.Range(1, 9))
			c = geom.Point{X: f * float64(r.Range(-20, 20)), Y: f * float64(r.Range(-20, 20))}
		}
		if r.Intn(25) == 0 {
			n = r.Range(-1, 2)
		}
		if r.Intn(25) == 0 {
			rad = -rad
		}
		fmt.Fprintf(out, "buf f %s %s %s %d\n", vproto.F2H(c.X), vproto.F2H(c.Y), vproto.F2H(rad), n)
	}

	// ---- concurrent callers (see concurrentEval): inputs large enough for calls to overlap ----
	nCC := 14
	if tier == "thorough" {
		nCC = 60
	}
	for i := 0; i < nCC; i++ {
		base := basePoly(r, r.Range(2, 4), r.Range(-40, 40), r.Range(-40, 40))
		q, _ := randSpells(base, true, i%2 == 0)
		g := G(toPoly(q))
		fmt.Fprintf(out, "cc area g%s %s\ncc cent g%s %s\n", lay(r), g, lay(r), g)
		var mems geom.MultiPolygon
		for k := 0; k < 3; k++ {
			mq, _ := randSpells(basePoly(r, r.Range(0, 3), 200*k, r.Range(-60, 60)), true, false)
			mems = append(mems, toPoly(mq))
		}
		fmt.Fprintf(out, "cc marea g%s %s\ncc mcent g%s %s\n", lay(r), G(mems), lay(r), G(mems))
		sq := respell(saw(65+i, r.Range(-9, 9), r.Range(-9, 9)), spell{rev: r.Bool(), rot: r.Intn(60), closed: true})
		fmt.Fprintf(out, "cc cent g%s %s\n", lay(r), G(geom.Polygon{sq}))
		l := zig(200 + 10*i)
		fmt.Fprintf(out, "cc len g%s %s\ncc dist g%s %s %s %s\n", lay(r), G(l), lay(r), vproto.F2H(l[100].X+2), vproto.F2H(l[100].Y-1), G(l))
		ml := geom.MultiLineString{zig(40), l, zig(7)}
		fmt.Fprintf(out, "cc dist g%s %s %s %s\n", lay(r), vproto.F2H(l[150].X), vproto.F2H(l[150].Y+3), G(ml))
		fmt.Fprintf(out, "cc buf f %s %s %s %d\n", vproto.F2H(float64(i)/3), vproto.F2H(-float64(i)/7), vproto.F2H(1+float64(i)/10), 90+i)
	}

	// ---- bounds (read only here; envelope properties are C04's) ----
	for i := 0; i < 60; i++ {
		x0, y0 := r.Range(-50, 50), r.Range(-50, 50)
		b := &geom.Bounds{Min: pt(x0, y0), Max: pt(x0+r.Range(0, 40), y0+r.Range(0, 40))}
		fmt.Fprintf(out, "bnd g %s\n", G(b))
	}
	genExtremes(out, seed, tier) // centroids of polygons whose whole extent is subnormal / near the top of the range (gc.go)
	genGuardEdges(out)           // magnitudes at the edges of distPointToSegment's range guard (gc.go)
	genGC(out, seed, tier)       // op.Area / op.Length on collections (gc.go), own random stream
	genOp(out, seed, tier)       // op.Within / op.FixOrientation lines (op.go), own random stream
}

// ---------- implementation stage ----------

func ptRes(p geom.Point) string { return "ok " + vproto.F2H(p.X) + " " + vproto.F2H(p.Y) }

// ---------- memory layouts of the receiver ----------
//
// The tag's suffix selects how the rings handed to the real code sit in memory (the shape is the same):
//
//	(none)  every ring separately allocated, cap == len
//	.p      all rings of the polygon / multipolygon / multilinestring are consecutive windows
//	        flat[o:o+n] of ONE buffer, so each ring's spare capacity is the following ring's data
//	.s      every ring is a prefix re-slice buf[:n] of its own buffer of n+1 points whose last slot
//	        holds a sentinel
//
// After every measured call the whole buffer is compared bit for bit with a pristine copy
// (and restored), "modified:<call>" is appended to the result when it differs.
type layout struct {
	bufs  [][]geom.Point // full backing buffers (len == cap)
	clean [][]geom.Point
	extra *geom.Point // the query point of a `dist` line: doubled together with the receiver
}

// doubleInPlace multiplies every coordinate of the receiver's memory (and the query point) by two, in place, and takes
// a new snapshot; it refuses (false) when a coordinate is not finite or outside [2^-100, 2^100] (zero is fine).
func (l *layout) doubleInPlace() bool {
	ok := func(v float64) bool { a := math.Abs(v); return a == 0 || (a >= 0x1p-100 && a <= 0x1p100) }
	for _, b := range l.bufs {
		for _, q := range b {
			if !ok(q.X) || !ok(q.Y) {
				return false
			}
		}
	}
	if l.extra != nil && (!ok(l.extra.X) || !ok(l.extra.Y)) {
		return false
	}
	for _, b := range l.bufs {
		for j := range b {
			b[j].X *= 2
			b[j].Y *= 2
		}
	}
	if l.extra != nil {
		l.extra.X *= 2
		l.extra.Y *= 2
	}
	l.snapshot()
	return true
}

// scaledAnswer multiplies every float64 bit pattern of a result string by fac; false when the result holds a panic,
// an error, a modification mark or a value that is not finite (nothing exact to compare with).
func scaledAnswer(res string, fac float64) (string, bool) {
	toks := strings.Fields(res)
	for i, t := range toks {
		if t == "ok" || t == "|" {
			continue
		}
		if len(t) != 16 {
			return "", false
		}
		u, err := strconv.ParseUint(t, 16, 64)
		if err != nil {
			return "", false
		}
		v := math.Float64frombits(u)
		if math.IsNaN(v) || math.IsInf(v, 0) || math.Abs(v) > 0x1p900 || (v != 0 && math.Abs(v) < 0x1p-900) {
			return "", false
		}
		toks[i] = vproto.F2H(v * fac)
	}
	return strings.Join(toks, " "), true
}

func (l *layout) window(mode string, rings [][]geom.Point) [][]geom.Point {
	out := make([][]geom.Point, len(rings))
	switch mode {
	case "p":
		total := 0
		for _, r := range rings {
			total += len(r)
		}
		flat := make([]geom.Point, total+2)
		flat[total] = geom.Point{X: 987654.5, Y: -123456.5}
		flat[total+1] = flat[total]
		o := 0
		for i, r := range rings {
			copy(flat[o:], r)
			out[i] = flat[o : o+len(r)] // cap reaches to the end of flat
			o += len(r)
		}
		l.bufs = append(l.bufs, flat)
	case "s":
		for i, r := range rings {
			buf := make([]geom.Point, len(r)+1)
			copy(buf, r)
			buf[len(r)] = geom.Point{X: 987654.5, Y: -123456.5}
			out[i] = buf[:len(r)]
			l.bufs = append(l.bufs, buf)
		}
	default:
		for i, r := range rings {
			buf := make([]geom.Point, len(r))
			copy(buf, r)
			out[i] = buf
			l.bufs = append(l.bufs, buf)
		}
	}
	return out
}

func (l *layout) snapshot() {
	l.clean = make([][]geom.Point, len(l.bufs))
	for i, b := range l.bufs {
		l.clean[i] = append([]geom.Point(nil), b...)
	}
}

// changed reports whether any buffer differs bit for bit from the snapshot, and restores it.
func (l *layout) changed() bool {
	ch := false
	for i, b := range l.bufs {
		for j := range b {
			c := l.clean[i][j]
			if math.Float64bits(b[j].X) != math.Float64bits(c.X) || math.Float64bits(b[j].Y) != math.Float64bits(c.Y) {
				ch = true
				b[j] = c
			}
		}
	}
	return ch
}

// relayout rebuilds g with the requested memory layout.
func relayout(g geom.Geom, mode string) (geom.Geom, *layout) {
	l := &layout{}
	var out geom.Geom
	switch t := g.(type) {
	case geom.Polygon:
		rs := make([][]geom.Point, len(t))
		for i, r := range t {
			rs[i] = r
		}
		w := l.window(mode, rs)
		q := make(geom.Polygon, len(t))
		for i := range w {
			q[i] = w[i]
		}
		out = q
	case geom.MultiPolygon:
		var rs [][]geom.Point
		for _, pg := range t {
			for _, r := range pg {
				rs = append(rs, r)
			}
		}
		w := l.window(mode, rs)
		q := make(geom.MultiPolygon, len(t))
		k := 0
		for i, pg := range t {
			q[i] = make(geom.Polygon, len(pg))
			for j := range pg {
				q[i][j] = w[k]
				k++
			}
		}
		out = q
	case geom.LineString:
		w := l.window(mode, [][]geom.Point{t})
		out = geom.LineString(w[0])
	case geom.MultiLineString:
		rs := make([][]geom.Point, len(t))
		for i, r := range t {
			rs[i] = r
		}
		w := l.window(mode, rs)
		q := make(geom.MultiLineString, len(t))
		for i := range w {
			q[i] = w[i]
		}
		out = q
	default:
		out = g
	}
	l.snapshot()
	return out, l
}

func layoutMode(tag string) string {
	if i := strings.Index(tag, "."); i >= 0 {
		return tag[i+1:]
	}
	return ""
}

// evalLine runs the real code on one (non-cc) input line; the geometry is parsed afresh, so every call
// works on a private deep copy.
func evalLine(line string) string {
	{
		p := vproto.NewParser(line)
		kind := p.Next()
		var res string
		safe := func(f func() string) string {
			var s string
			if pan := vproto.Safe(func() { s = f() }); pan != "" {
				return "panic " + pan
			}
			return s
		}
		pan := vproto.Safe(func() {
			mode := layoutMode(p.Next()) // tag
			mods := ""
			// call runs one measurement, then compares (and restores) the receiver
			call := func(name string, l *layout, f func() string) string {
				s := safe(f)
				if l.changed() {
					mods += " modified:" + name
				}
				return s
			}
			// every measurement is a closure `run` so that it can be repeated on the SAME object after an in-place
			// update (the `stale:` probe below); `lay` is the receiver's memory, `fac` what doubling every coordinate does
			// to the answers (exactly: scaling by a power of two commutes with every rounding)
			var run func() string
			var lay *layout
			fac := 2.
			switch kind {
			case "area":
				gg, l := relayout(p.Geom(), mode)
				g := gg.(geom.Polygon)
				lay, fac = l, 4
				run = func() string {
					return call("Area", l, func() string { return vproto.F2H(g.Area()) }) + " " + call("op.Area", l, func() string { return vproto.F2H(op.Area(g)) })
				}
			case "marea":
				gg, l := relayout(p.Geom(), mode)
				g := gg.(geom.MultiPolygon)
				lay, fac = l, 4
				run = func() string {
					return call("Area", l, func() string { return vproto.F2H(g.Area()) }) + " " + call("op.Area", l, func() string { return vproto.F2H(op.Area(g)) })
				}
			case "cent":
				gg, l := relayout(p.Geom(), mode)
				g := gg.(geom.Polygon)
				lay = l
				run = func() string {
					return call("Centroid", l, func() string { return ptRes(g.Centroid()) }) + " | " + call("op.Centroid", l, func() string {
						c, err := op.Centroid(g)
						if err != nil {
							return "err"
						}
						return ptRes(c)
					})
				}
			case "mcent":
				gg, l := relayout(p.Geom(), mode)
				g := gg.(geom.MultiPolygon)
				lay = l
				run = func() string { return call("Centroid", l, func() string { return ptRes(g.Centroid()) }) }
			case "len":
				g, l := relayout(p.Geom(), mode)
				lay = l
				run = func() string {
					return call("Length", l, func() string { return vproto.F2H(g.(geom.Linear).Length()) }) + " " + call("op.Length", l, func() string { return vproto.F2H(op.Length(g)) })
				}
			case "dist":
				q := p.Pt()
				g, l := relayout(p.Geom(), mode)
				lay = l
				l.extra = &q
				run = func() string {
					return call("Distance", l, func() string { return vproto.F2H(g.(geom.Linear).Distance(q)) })
				}
			case "buf":
				c := p.Pt()
				rad := p.F()
				n, err := strconv.Atoi(p.Next())
				if err != nil {
					panic(err)
				}
				res = safe(func() string { return "ok " + vproto.GeomToks(c.Buffer(rad, n)) })
			case "bnd":
				b := p.Geom().(*geom.Bounds)
				res = safe(func() string {
					c := b.Centroid()
					return vproto.F2H(b.Area()) + " " + vproto.F2H(c.X) + " " + vproto.F2H(c.Y)
				})
			default:
				res = "badline"
			}
			if run != nil {
				res = run()
				// history on one object: the caller updates the receiver in place (every coordinate doubled — exact)
				// and asks again; the answer must be the answer for the updated shape, i.e. the first answer times
				// `fac`, bit for bit.  A result remembered from the first call (keyed by the object's address, its
				// length, ...) shows up as `stale:<kind>`.
				if want, ok := scaledAnswer(res, fac); ok {
					if again := run(); again != res { // the identical call, repeated on the untouched object
						mods += " stale:repeat-" + kind
					} else if lay.doubleInPlace() {
						if got := run(); got != want {
							mods += " stale:" + kind
						}
					}
				}
			}
			res += mods
		})
		if pan != "" {
			res = "harness-panic " + pan
		}
		return res
	}
}

// ---------- concurrent callers ----------
//
// Area, Centroid, Length, Distance, Buffer and op.* are pure functions of their arguments: callers on
// different goroutines must not influence each other. A `cc <line>` is answered alone first (reference);
// then ccCallers goroutines repeat the same call ccRounds times on private copies, all started together,
// while ccHammers goroutines keep calling the same API on unrelated large inputs. The first answer that is
// not bit-identical to the reference (the result strings carry IEEE bit patterns, panics and
// "modified:" marks) is reported; otherwise the reference.
const ccCallers, ccHammers, ccRounds = 8, 8, 25

func hammer(stop *int32, id int) {
	r := vproto.NewRng(uint64(1000 + id))
	n := 1500
	big := make(ring, 0, n)
	big = append(big, pt(0, 0), pt(2*n, 0))
	for k := 0; k < n-2; k++ {
		big = append(big, pt(2*n-1-2*k, 3+(k%2)*r.Range(1, 4)))
	}
	holes := geom.Polygon{rect(-5, -5, 4*200+5, 9)}
	mp := make(geom.MultiPolygon, 200)
	for j := range mp {
		sq := rect(4*j, 0, 4*j+2, 2+j%3)
		mp[j] = geom.Polygon{respell(sq, spell{rev: j%2 == 0, rot: j % 4, closed: true})}
		holes = append(holes, respell(sq, spell{rev: j%3 == 0, closed: true}))
	}
	ls := make(geom.LineString, 3000)
	for j := range ls {
		ls[j] = geom.Point{X: float64(j) * 0.7, Y: float64((j*37)%11) / 3}
	}
	pg := geom.Polygon{big}
	for atomic.LoadInt32(stop) == 0 {
		switch id % 4 {
		case 0:
			pg.Area()
			pg.Centroid()
			op.Area(pg)
			op.Centroid(pg)
			holes.Area()
		case 1:
			mp.Area()
			mp.Centroid()
			holes.Centroid()
			geom.MultiPolygon{holes}.Centroid()
		case 2:
			ls.Length()
			ls.Distance(geom.Point{X: 1000.3, Y: -7})
			op.Length(geom.MultiLineString{ls, ls[:100]})
			geom.MultiLineString{ls[:50], ls}.Distance(geom.Point{X: -3, Y: 2})
		default:
			geom.Point{X: 1, Y: 2}.Buffer(3.5, 3000)
			pg.Area()
			ls.Length()
		}
	}
}

func concurrentEval(line string) string {
	ref := evalLine(line)
	var stop int32
	var wg, hw sync.WaitGroup
	first := make([]string, ccCallers+ccHammers)
	for h := 0; h < ccHammers; h++ {
		hw.Add(1)
		go func(h int) {
			defer hw.Done()
			if pan := vproto.Safe(func() { hammer(&stop, h) }); pan != "" {
				first[ccCallers+h] = "panic concurrent-caller-on-unrelated-input: " + pan
			}
		}(h)
	}
	start := make(chan struct{})
	for g := 0; g < ccCallers; g++ {
		wg.Add(1)
		go func(g int) {
			defer wg.Done()
			<-start
			for i := 0; i < ccRounds; i++ {
				if s := evalLine(line); s != ref {
					first[g] = s
					return
				}
			}
		}(g)
	}
	close(start)
	wg.Wait()
	atomic.StoreInt32(&stop, 1)
	hw.Wait()
	for _, s := range first {
		if s != "" {
			return s
		}
	}
	return ref
}

func impl() {
	vproto.Lines(func(line string, out *bufio.Writer) {
		var res string
		if strings.HasPrefix(line, "opgc ") {
			res = evalGC(line)
		} else if strings.HasPrefix(line, "op") {
			res = evalOp(line)
		} else if strings.HasPrefix(line, "cc ") {
			res = concurrentEval(line[3:])
		} else {
			res = evalLine(line)
		}
		fmt.Fprintf(out, "%s => %s\n", line, res)
	})
}

func main() {
	if len(os.Args) < 2 {
		fmt.Fprintln(os.Stderr, "usage: c03 gen|impl")
		os.Exit(2)
	}
	switch os.Args[1] {
	case "gen":
		seed, tier := vproto.SeedTier(os.Args[2:])
		gen(seed, tier)
	case "impl":
		impl()
	case "extract":
		extractMain(os.Args[2:])
	}
}
