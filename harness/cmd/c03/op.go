// op.Within and op.FixOrientation (op/properties.go): generator and implementation stage.
//
// Line kinds (tag g = dyadic grid, everything compared exactly; suffix .p/.s = memory layout, see relayout):
//
//	opfix       <tag> <geom>            => ok <geom after 1 call> | ok <geom after 2 calls> | <op.Area before> <op.Area after> <Polygon.Area before> <Polygon.Area after> | <op.Centroid after: ok x y|err|panic m|na>
//	                                       err <message> | panic <message>
//	opwithin    <tag> <inner> <outer>   => ok true|false | err <message> | panic <message>
//	opfixwithin <tag> <inner> <outer>   => the same after FixOrientation(outer)   (err fix:<message> when that fails)
//
// FixOrientation mutates its argument; the rings are printed as they are after the call(s).
// Within must not: the arguments are compared before/after ("modified:Within").
package main

import (
	"bufio"
	"fmt"
	"math"
	"os"
	"strings"

	"github.com/ctessum/geom"
	"github.com/ctessum/geom/op"

	"verif/harness/vproto"
)

func us(s string) string { return strings.ReplaceAll(s, " ", "_") }

func areaToks(g geom.Geom) (string, string) {
	a, b := "na", "na"
	switch t := g.(type) {
	case geom.Polygon:
		if pan := vproto.Safe(func() { a = vproto.F2H(op.Area(t)) }); pan != "" {
			a = "panic"
		}
		if pan := vproto.Safe(func() { b = vproto.F2H(t.Area()) }); pan != "" {
			b = "panic"
		}
	case geom.MultiPolygon:
		if pan := vproto.Safe(func() { a = vproto.F2H(op.Area(t)) }); pan != "" {
			a = "panic"
		}
		if pan := vproto.Safe(func() { b = vproto.F2H(t.Area()) }); pan != "" {
			b = "panic"
		}
	}
	return a, b
}

// evalOp answers one op… line with the real code.
func evalOp(line string) string {
	var res string
	pan := vproto.Safe(func() {
		p := vproto.NewParser(line)
		kind := p.Next()
		mode := layoutMode(p.Next())
		switch kind {
		case "opfix":
			g, _ := relayout(p.Geom(), mode)
			a0, b0 := areaToks(g)
			fix := func() string {
				var s string
				if pan := vproto.Safe(func() {
					if err := op.FixOrientation(g); err != nil {
						s = "err " + us(err.Error())
					} else {
						s = "ok " + vproto.GeomToks(g)
					}
				}); pan != "" {
					return "panic " + pan
				}
				return s
			}
			r1 := fix()
			if !strings.HasPrefix(r1, "ok ") {
				res = r1
				return
			}
			r2 := fix()
			a1, b1 := areaToks(g)
			cen := "na"
			if pg, ok := g.(geom.Polygon); ok {
				if pan := vproto.Safe(func() {
					if c, err := op.Centroid(pg); err != nil {
						cen = "err"
					} else {
						cen = ptRes(c)
					}
				}); pan != "" {
					cen = "panic " + pan
				}
			}
			res = r1 + " | " + r2 + " | " + a0 + " " + a1 + " " + b0 + " " + b1 + " | " + cen
		case "opwithin", "opfixwithin":
			inner, _ := relayout(p.Geom(), mode)
			outer, _ := relayout(p.Geom(), mode)
			if kind == "opfixwithin" {
				var e error
				if pan := vproto.Safe(func() { e = op.FixOrientation(outer) }); pan != "" {
					res = "panic fix:" + pan
					return
				}
				if e != nil {
					res = "err fix:" + us(e.Error())
					return
				}
			}
			before := vproto.GeomToks(inner) + " " + vproto.GeomToks(outer)
			if pan := vproto.Safe(func() {
				in, err := op.Within(inner, outer)
				if err != nil {
					res = "err " + us(err.Error())
				} else {
					res = fmt.Sprintf("ok %v", in)
				}
			}); pan != "" {
				res = "panic " + pan
			}
			if vproto.GeomToks(inner)+" "+vproto.GeomToks(outer) != before {
				res += " modified:Within"
			}
		default:
			res = "badline"
		}
	})
	if pan != "" {
		res = "harness-panic " + pan
	}
	return res
}

// ---------- generator ----------

func closeAll(p []ring, r *vproto.Rng, mode int) []ring {
	q := make([]ring, len(p))
	for j := range p {
		s := spell{rev: r.Bool(), rot: r.Intn(len(p[j]) + 1), closed: true}
		switch mode {
		case 0:
			s.rev = false
		case 1:
			s.rev = true
		case 2: // shell one way, holes the same way
			s.rev = shoelace2(p[j]) > 0
		case 3: // already as FixOrientation wants it (p is shell first)
			s.rev = (shoelace2(p[j]) > 0) != (j == 0)
		}
		q[j] = respell(p[j], s)
	}
	return q
}

// fixed winding: shell (index 0) counter-clockwise, holes clockwise, all closed
func wound(p []ring, r *vproto.Rng) []ring { return closeAll(p, r, 3) }

func permuted(p []ring, r *vproto.Rng) []ring {
	q := append([]ring{}, p...)
	for i := len(q) - 1; i > 0; i-- {
		j := r.Intn(i + 1)
		q[i], q[j] = q[j], q[i]
	}
	if len(q) > 1 && &q[0][0] == &p[0][0] { // make sure the shell is not first
		q[0], q[1] = q[1], q[0]
	}
	return q
}

func times2(p []ring) []ring {
	out := make([]ring, len(p))
	for i, rr := range p {
		out[i] = make(ring, len(rr))
		for j, q := range rr {
			out[i][j] = geom.Point{X: 2 * q.X, Y: 2 * q.Y}
		}
	}
	return out
}

func scalePt(q geom.Point, e int) geom.Point {
	f := math.Ldexp(1, e)
	return geom.Point{X: q.X * f, Y: q.Y * f}
}

// probePoints: vertices, edge middles, ring "centres", random grid points in and around the box.
// p is an open-spelled grid polygon with even coordinates (edge middles are grid points).
func probePoints(r *vproto.Rng, p []ring, n int) []geom.Point {
	var pts []geom.Point
	x0, y0, x1, y1 := math.Inf(1), math.Inf(1), math.Inf(-1), math.Inf(-1)
	for _, rr := range p {
		for _, q := range rr {
			x0, y0, x1, y1 = math.Min(x0, q.X), math.Min(y0, q.Y), math.Max(x1, q.X), math.Max(y1, q.Y)
		}
	}
	for _, rr := range p {
		i := r.Intn(len(rr))
		a, b := rr[i], rr[(i+1)%len(rr)]
		pts = append(pts, a, geom.Point{X: (a.X + b.X) / 2, Y: (a.Y + b.Y) / 2})
		// same height as a vertex, left and right of it (the ray rule's special cases)
		pts = append(pts, geom.Point{X: a.X - float64(r.Range(1, 9)), Y: a.Y}, geom.Point{X: a.X + float64(r.Range(1, 9)), Y: a.Y})
		cx, cy := 0., 0.
		for _, q := range rr {
			cx += q.X
			cy += q.Y
		}
		pts = append(pts, geom.Point{X: math.Round(cx / float64(len(rr))), Y: math.Round(cy / float64(len(rr)))})
	}
	for len(pts) < n {
		pts = append(pts, geom.Point{X: x0 - 3 + float64(r.Intn(int(x1-x0)+7)), Y: y0 - 3 + float64(r.Intn(int(y1-y0)+7))})
	}
	return pts
}

// emitKnown (default OFF until the coordinator has re-run bin/mkfindings so that KNOWN_FINDINGS.json carries the
// `known` entry of findings/C03.json — a shared file this property may not write; VERIF_C03_OP_FINDINGS=1 turns it on): also emit the two corpus lines on which the
// composite FixOrientation + op.Area of the unchanged tree is known to be wrong (2^-40: every coordinate
// difference is below the absolute tolerance 1e-9); they are matched by the `known` signature
// `SPEC opfix-\S*-tol:xy op\.Area-after-FixOrientation` of findings/C03.json
var emitKnown = os.Getenv("VERIF_C03_OP_FINDINGS") != "0" // on: KNOWN_FINDINGS.json carries the entry

func genOp(out *bufio.Writer, seed uint64, tier string) {
	r := vproto.NewRng(seed ^ 0x0c03f1e1d)
	G := func(g geom.Geom) string { return vproto.GeomToks(g) }
	nBase, nMulti := 30, 20
	if tier == "thorough" {
		nBase, nMulti = 500, 200
	}
	C := func(rr ring, rev bool, rot int) ring { return respell(rr, spell{rev: rev, rot: rot, closed: true}) }

	// ---- fixed corpus ----
	sq := ring{pt(0, 0), pt(2, 0), pt(2, 2), pt(0, 2)}
	big := ring{pt(0, 0), pt(10, 0), pt(10, 10), pt(0, 10)}
	hole := ring{pt(4, 4), pt(6, 4), pt(6, 7), pt(4, 7)}
	hole2 := ring{pt(1, 1), pt(3, 1), pt(2, 3)}
	isl := ring{{X: 4.5, Y: 5}, {X: 5.5, Y: 5}, {X: 5, Y: 6}} // an island inside `hole`
	tri3 := ring{pt(20, 0), pt(24, 0), pt(20, 4)}
	var fixCorpus []geom.Geom
	for _, rv := range [][2]bool{{false, false}, {false, true}, {true, false}, {true, true}} {
		fixCorpus = append(fixCorpus,
			geom.Polygon{C(big, rv[0], 0), C(hole, rv[1], 0)},
			geom.Polygon{C(hole, rv[1], 1), C(big, rv[0], 2)}, // hole first
			geom.Polygon{C(big, rv[0], 3), C(hole, rv[1], 2), C(hole2, rv[0] != rv[1], 1)},
			geom.Polygon{C(hole2, rv[0], 0), C(big, rv[1], 1), C(hole, rv[0], 3)},
			// nested island as a further member; and (not valid as ONE polygon) as a third ring of the same polygon
			geom.MultiPolygon{{C(big, rv[0], 0), C(hole, rv[1], 0)}, {C(isl, rv[0], 0)}, {C(tri3, rv[1], 1)}},
			geom.Polygon{C(big, rv[0], 0), C(hole, rv[1], 0), C(isl, rv[1], 0)},
			geom.Polygon{C(isl, rv[0], 2), C(hole, rv[1], 1), C(big, rv[1], 0)},
		)
	}
	fixCorpus = append(fixCorpus,
		geom.Polygon{C(sq, false, 0)}, geom.Polygon{C(sq, true, 0)}, geom.Polygon{C(sq, true, 1)}, geom.Polygon{C(sq, true, 2)}, geom.Polygon{C(sq, true, 3)},
		// unclosed rings (outside the documented domain)
		geom.Polygon{sq}, geom.Polygon{respell(sq, spell{rev: true})}, geom.Polygon{respell(sq, spell{rev: true, rot: 1})}, geom.Polygon{big, hole},
		geom.Polygon{respell(big, spell{rev: true, rot: 2}), respell(hole, spell{rot: 1})}, geom.Polygon{C(big, true, 0), hole},
		// faults and errors
		geom.Polygon{}, geom.Polygon{{}}, geom.Polygon{C(sq, false, 0), {}}, geom.Polygon{{}, C(sq, true, 0)}, geom.Polygon{{pt(1, 1)}},
		geom.Polygon{{pt(1, 1), pt(2, 2)}}, geom.Polygon{{pt(1, 1), pt(1, 1)}}, geom.Polygon{{pt(0, 0), pt(1, 1), pt(2, 2)}}, geom.Polygon{{pt(0, 0), pt(1, 0), pt(0, 0)}},
		geom.Polygon{C(sq, true, 0), {pt(1, 1)}},
		geom.MultiPolygon{}, geom.MultiPolygon{{}}, geom.MultiPolygon{{C(sq, true, 0)}, {{}}}, geom.MultiPolygon{{{}}, {C(sq, true, 0)}},
		nil, geom.Point{X: 1, Y: 2}, geom.LineString{pt(0, 0), pt(1, 1)}, geom.MultiLineString{}, geom.MultiPoint{}, geom.GeometryCollection{}, &geom.Bounds{Min: pt(0, 0), Max: pt(1, 1)},
		// invalid shapes: identical rings, hole touching the shell, bow-tie, degenerate extreme vertex
		geom.Polygon{C(big, false, 0), C(big, true, 0)}, geom.Polygon{C(big, false, 0), C(ring{pt(0, 0), pt(5, 0), pt(5, 5)}, false, 0)},
		geom.Polygon{C(ring{pt(0, 0), pt(4, 4), pt(4, 0), pt(0, 4)}, false, 0)},
		// a ring that visits its lowest-rightmost point twice: which occurrence `orientation` keeps decides the sign
		geom.Polygon{{pt(0, 4), pt(0, 2), pt(4, 0), pt(8, 2), pt(8, 4), pt(4, 0), pt(0, 4)}},
		geom.Polygon{{pt(8, 4), pt(4, 0), pt(0, 4), pt(0, 2), pt(4, 0), pt(8, 2), pt(8, 4)}},
		geom.Polygon{C(ring{pt(0, 0), pt(2, 0), pt(4, 0), pt(4, 4)}, true, 0)}, geom.Polygon{C(ring{pt(0, 0), pt(2, 0), pt(4, 0), pt(4, 4)}, true, 2)},
	)
	for _, g := range fixCorpus {
		fmt.Fprintf(out, "opfix g %s\n", G(g))
	}
	for _, lm := range []string{"g.p", "g.s"} {
		fmt.Fprintf(out, "opfix %s %s\n", lm, G(geom.Polygon{C(big, true, 0), C(hole, false, 0)}))
		fmt.Fprintf(out, "opfix %s %s\n", lm, G(geom.MultiPolygon{{C(big, true, 0), C(hole, false, 0)}, {C(isl, true, 0)}}))
	}
	fixed := geom.Polygon{C(big, false, 0), C(hole, true, 0)}
	holeFirst := geom.Polygon{C(hole, true, 2), C(big, false, 1)}
	unfixed := geom.Polygon{C(big, true, 0), C(hole, true, 0)}
	probes := []geom.Point{pt(5, 1), pt(5, 5), pt(0, 0), pt(10, 10), pt(10, 5), pt(0, 5), pt(5, 0), pt(4, 4), pt(6, 7), pt(4, 5), pt(5, 4), pt(6, 5), pt(5, 7),
		pt(11, 5), pt(-1, 5), pt(5, 11), pt(5, -1), pt(-1, 0), pt(11, 10), pt(-1, 4), pt(11, 4), pt(-1, 7), pt(3, 4), pt(7, 4), pt(3, 7), pt(7, 7), pt(12, 12), {X: 4.5, Y: 5.5}}
	for _, outer := range []geom.Polygon{fixed, holeFirst, unfixed} {
		for _, q := range probes {
			fmt.Fprintf(out, "opwithin g %s %s\n", G(q), G(outer))
			fmt.Fprintf(out, "opfixwithin g %s %s\n", G(q), G(outer))
		}
		for _, in := range []geom.Polygon{{C(hole2, false, 0)}, {C(hole2, true, 0)}, {hole2}, {C(hole, false, 0)}, {C(big, false, 0)}, {C(sq, false, 0), C(tri3, false, 0)},
			{C(ring{pt(1, 1), pt(9, 1), pt(9, 9), pt(1, 9)}, false, 0)}, // surrounds the hole: every vertex within, the region is not
			{C(ring{pt(1, 1), pt(9, 1), pt(9, 9), pt(1, 9)}, false, 0), C(ring{pt(3, 3), pt(7, 3), pt(7, 8), pt(3, 8)}, true, 0)},
			{C(isl, false, 0)}, {}, {{}}, {{pt(1, 1)}}, {{pt(5, 5)}}, {{pt(20, 20)}, {}}} {
			fmt.Fprintf(out, "opwithin g %s %s\n", G(in), G(outer))
		}
	}
	// unsupported combinations, nil, faults (an empty ring of outer is only touched when inner has a point)
	for _, io := range [][2]geom.Geom{
		{pt(1, 1), geom.MultiPolygon{fixed}}, {pt(1, 1), nil}, {nil, fixed}, {nil, nil}, {geom.LineString{pt(1, 1), pt(2, 2)}, fixed}, {geom.MultiPolygon{fixed}, fixed},
		{geom.MultiPoint{pt(1, 1)}, fixed}, {fixed, geom.LineString{pt(1, 1)}}, {pt(1, 1), geom.Point{X: 1, Y: 1}}, {fixed, &geom.Bounds{Min: pt(0, 0), Max: pt(20, 20)}},
		{pt(1, 1), geom.Polygon{}}, {pt(1, 1), geom.Polygon{{}}}, {pt(1, 1), geom.Polygon{C(sq, false, 0), {}}}, {pt(1, 1), geom.Polygon{{pt(1, 1)}}}, {pt(1, 1), geom.Polygon{{pt(1, 1), pt(2, 2)}}},
		{geom.Polygon{}, geom.Polygon{{}}}, {geom.Polygon{{}}, geom.Polygon{{}}}, {geom.Polygon{{pt(1, 1)}}, geom.Polygon{{}}}, {geom.Polygon{{pt(1, 1)}}, geom.Polygon{}},
		{pt(1, 1), geom.Polygon{sq}}, {pt(1, 1), geom.Polygon{respell(sq, spell{rev: true})}}, {pt(2, 1), geom.Polygon{sq}}, {pt(1, 0), geom.Polygon{respell(sq, spell{rot: 1})}}, // unclosed
	} {
		fmt.Fprintf(out, "opwithin g %s %s\n", G(io[0]), G(io[1]))
		fmt.Fprintf(out, "opfixwithin g %s %s\n", G(io[0]), G(io[1]))
	}
	// scales where the ABSOLUTE tolerance 1e-9 bites: 2^-16/2^-20 (the cross product d is below it), 2^-40 (every difference is)
	for _, e := range []int{-16, -20, -40} {
		for _, rv := range [][2]bool{{false, true}, {true, false}} {
			b := toPoly(scaleRings([]ring{C(big, rv[0], 0), C(hole, rv[1], 0)}, e))
			if e > -30 || emitKnown { // at 2^-40 FixOrientation + op.Area is wrong on the unchanged tree (notes: F3)
				fmt.Fprintf(out, "opfix g %s\n", G(b))
			}
			for _, q := range []geom.Point{pt(5, 1), pt(5, 5), pt(0, 0), pt(10, 5), pt(4, 5), pt(11, 5), pt(1, 9), pt(9, 1)} {
				fmt.Fprintf(out, "opwithin g %s %s\n", G(scalePt(q, e)), G(b))
				fmt.Fprintf(out, "opfixwithin g %s %s\n", G(scalePt(q, e)), G(b))
			}
		}
		d := toPoly(scaleRings([]ring{C(ring{pt(0, 0), pt(40, 2), pt(42, 44), pt(2, 40)}, false, 0)}, e))
		for _, q := range []geom.Point{pt(20, 2), pt(20, 0), pt(22, 1), pt(30, 1), pt(30, 2), pt(41, 20), pt(42, 20), pt(1, 30), pt(2, 30)} {
			fmt.Fprintf(out, "opwithin g %s %s\n", G(scalePt(q, e)), G(d))
		}
	}

	// ---- generated: valid grid polygons (coordinates doubled so that edge middles are grid points) ----
	scales := []int{0, 0, 0, -14, -10, -3, 20, 7}
	for i := 0; i < nBase; i++ {
		nh := []int{0, 1, 1, 2, 2, 3, 4}[r.Intn(7)]
		base := times2(basePoly(r, nh, r.Range(-40, 40), r.Range(-40, 40)))
		e := scales[r.Intn(len(scales))]
		sc := func(p []ring) geom.Polygon { return toPoly(scaleRings(p, e)) }
		// FixOrientation: every winding pattern, any start vertex, hole-first orders
		for mode := 0; mode < 6; mode++ {
			q := closeAll(base, r, mode)
			if mode >= 4 && len(q) > 1 {
				q = permuted(q, r)
			}
			fmt.Fprintf(out, "opfix g%s %s\n", lay(r), G(sc(q)))
		}
		// one unclosed spelling (outside the Spec: model comparison only)
		uq := closeAll(base, r, 4)
		k := r.Intn(len(uq))
		uq[k] = uq[k][:len(uq[k])-1]
		fmt.Fprintf(out, "opfix g %s\n", G(sc(uq)))
		// Within(point, polygon)
		w := wound(base, r)
		if i%3 == 0 && len(w) > 1 {
			w = permuted(w, r)
		}
		any := closeAll(base, r, 4)
		for _, q := range probePoints(r, base, 8+5*len(base)) {
			fmt.Fprintf(out, "opwithin g %s %s\n", G(scalePt(q, e)), G(sc(w)))
			fmt.Fprintf(out, "opfixwithin g%s %s %s\n", lay(r), G(scalePt(q, e)), G(sc(any)))
		}
		// Within(polygon, polygon): each hole (within: on the boundary), a small triangle around probe points, the shell itself
		for j := 1; j < len(base) && j < 3; j++ {
			fmt.Fprintf(out, "opwithin g %s %s\n", G(sc([]ring{respell(base[j], spell{closed: true, rev: r.Bool()})})), G(sc(w)))
		}
		for _, q := range probePoints(r, base, 6) {
			t := ring{q, {X: q.X + float64(r.Range(1, 4)), Y: q.Y}, {X: q.X, Y: q.Y + float64(r.Range(1, 4))}}
			fmt.Fprintf(out, "opwithin g %s %s\n", G(sc([]ring{respell(t, spell{closed: true, rev: r.Bool()})})), G(sc(w)))
			fmt.Fprintf(out, "opfixwithin g %s %s\n", G(sc([]ring{t})), G(sc(any)))
		}
	}
	// ---- multipolygons: disjoint members, islands nested in holes ----
	for i := 0; i < nMulti; i++ {
		nm := r.Range(1, 3)
		var mp geom.MultiPolygon
		for k := 0; k < nm; k++ {
			b := times2(basePoly(r, []int{0, 1, 2, 3}[r.Intn(4)], 200*k+r.Range(-10, 10), r.Range(-60, 60)))
			if k == 0 && len(b) > 1 {
				h := b[1]
				cx, cy := 0., 0.
				for _, q := range h {
					cx += q.X
					cy += q.Y
				}
				c := geom.Point{X: math.Round(cx / float64(len(h))), Y: math.Round(cy / float64(len(h)))}
				is := ring{c, {X: c.X + 1, Y: c.Y}, {X: c.X, Y: c.Y + 1}}
				if side(is[0], h) == 1 && side(is[1], h) == 1 && side(is[2], h) == 1 && ringsDisjoint(is, h) {
					mp = append(mp, toPoly(closeAll([]ring{is}, r, 4)))
				}
			}
			q := closeAll(b, r, 4+r.Intn(2))
			if r.Bool() && len(q) > 1 {
				q = permuted(q, r)
			}
			mp = append(mp, toPoly(q))
		}
		fmt.Fprintf(out, "opfix g%s %s\n", lay(r), G(mp))
	}
}
