package main

// T1 tie for C03: regenerate Lean definitions of the measure code from the Go source of the tree
// under test.
//
//	c03 extract --repo DIR      prints the module GeomV.C03.Gen
//
// lean/GeomV/C03/Ties.lean proves that each regenerated function returns the value of the
// hand-written model's function (lean/GeomV/C03/Model.lean) — for the exact functions over `Rat`
// with NO fault for every input, for `Polygon.Centroid` with exactly the model's fault.  A function
// that leaves the subset below is NOT skipped: the extractor exits 3 and names it on stderr.
//
// Translation (every function is rendered in the monad Go.M = Except Go.Fault; GenLib.lean).
// float64 is `Rat` in the exact functions (mode rat) and a type `α` of class `RNum` (Model.lean) in
// the real-valued ones (mode rnum).
//
//	x := e, x = e, x op= e, x++, var x T ↦ let x := e                (zero value of T for var)
//	a[i] = e ; a[i][j] = e            ↦ let a ← Go.setIdx a i e ; let a ← Go.setIdx2 a i j e   (faulting)
//	for i, x := range xs { S }        ↦ let st ← Go.forRange xs st (fun st i x => do S; pure st), st = the
//	                                    variables assigned in S that are declared outside S
//	for i := lo; i < hi; i++ { S }    ↦ let st ← Go.forLt lo hi st (fun st i => do S; pure st); refused when S
//	                                    assigns i or a variable that hi mentions
//	if c { …return e }; R             ↦ if c then … else R
//	if c { S } (no return)            ↦ let st ← (if c then do S; pure st else pure st)
//	return e ; panic(…)               ↦ pure e ; throw Go.Fault.explicitPanic
//	len(x)  a[i]  a[lo:hi] a[lo:hi:m] ↦ Go.len x, (← Go.idx a i), (← Go.slice a lo hi), (← Go.slice3 a lo hi m) (faulting)
//	make(T, n)                        ↦ (← Go.make n zero)             (faulting for n < 0)
//	append(a, b...)  append(a, b)     ↦ a ++ b, a ++ [b]
//	T(x) for slice/point types        ↦ x     float64(i) ↦ Go.ofInt i     Point{a, b} ↦ ⟨a, b⟩
//	+ - *                             ↦ the same on Int / Rat / α
//	x / c (float64)                   ↦ rat: x / c for a non-zero literal c, otherwise (← Go.fdiv x c), which leaves the
//	                                    exact mode with Go.Fault.nonFinite when c = 0 (±Inf/NaN in Go; not a panic);
//	                                    rnum: the class's division
//	a % b (int)                       ↦ (← Go.imod a b)   (faulting)
//	== != < <= > >=                   ↦ decide on Int / Rat / points; RNum.lt / RNum.le on α (== refused)
//	&& || !                           ↦ the same on Bool (a faulting right operand is refused)
//	math.Abs/Max/Min/Hypot/Sqrt/Cos/Sin/Pi ↦ rat: absR, max; rnum: RNum.abs, …
//	math.Inf(1); math.Min(d, x)       ↦ none : Option α; Go.minInf d x  (d a variable initialised with math.Inf(1))
//	f(args), x.m(args) (listed below) ↦ (← f' …)
//	f(g geom.Geom) with `switch g.(type)` ↦ one function per listed case T: the statements around the switch with the body
//	                                    of `case T:` in its place, g a T, g.(T) ↦ g; a call f(x) with x of static type T ↦ case T
//	for i, x := range xs { S } with return/continue in S, followed by R
//	                                  ↦ let c ← Go.forRangeRet xs st (fun st i x => do S'), return e ↦ pure (.ret e),
//	                                    continue / end of S ↦ pure (.next st); match c with | .ret v => pure v | .next st => R
//	if c1 {…exit} else if c2 {…exit}; R ↦ if c1 then … else if c2 then … else R     (exit = return, continue, panic)
//	copy(dst, src)                    ↦ let dst := Go.copy dst src
//	[]*Bounds, *Bounds (outside bounds.go) ↦ List (Option C02.Bounds), Option C02.Bounds   (nil = none)
//	NewBounds(); b.extendPoints(ps)   ↦ Go.newBounds; let b ← Go.extendPoints b ps          (faulting for nil; C02's box model)
//	pointInPolygon(pt, pg, bounds)    ↦ (← Go.pointInPolygon pt pg bounds): the model of within.go of property C02
//	                                    (GeomV.C02.pointInPolygon, regenerated from within.go by C02's extractor), WITH the
//	                                    bounds slice that the code passes; a nil box is a fault
//	for i, n := lo, E; i < n; i++ { S } ↦ let n := E; Go.forLt lo n …; with return in S: Go.forLtRet (as forRangeRet)
//	a && b, a || b with a faulting b  ↦ (← Go.andAlso a (do pure b)), (← Go.orElse a (do pure b))   (b runs only when a does not decide)
//	Outside, Inside, OnEdge           ↦ Side.outside, Side.inside, Side.onEdge
//
// Statement groups rendered as ONE model operation, by a structural match that refuses anything else
// (float64 division by a computed value has IEEE semantics that `Rat` lacks; Model.lean `CAcc`):
//
//	var A, xA, yA float64                                       ↦ let acc := CAcc.zero
//	cx /= 6 * d; cy /= 6 * d; A += w; xA += cx * w; yA += cy * w ↦ let acc := CAcc.add acc cx cy d w
//	return Point{X: xA / A, Y: yA / A}                          ↦ pure (CAcc.finish acc)
//	distPointToSegment's guard `if m := E; (m >= 0x1p500 || (m <= 0x1p-500 && m > 0)) && !math.IsInf(m, 0) { _, e := math.Frexp(m);
//	k := math.Ldexp(1, e-1); return k * distPointToSegment(a, b, c) }`  ↦ match RNum.rescale E with | some k => k * core a b c | none => core …
//	centroidAxisScale's body (compared as text)                 ↦ pure (axisScale m)      (Frexp/Ldexp over Rat = pow2Floor)
//	in the range guard `if kx, ky := centroidScale(…); … { … }` at the head of Polygon.Centroid / MultiPolygon.Centroid:
//	  x.Centroid() (the function itself, on the rescaled copy)  ↦ (← <name>_core x): the loops below the guard
//	  return Point{X: c.X * kx, Y: c.Y * ky}                    ↦ pure (unscale kx ky c)
//	  the rest of the guard is translated statement by statement
//	in the origin guard `if ox, oy := centroidOrigin(…); ox != 0 || oy != 0 { … }` that precedes the range guard:
//	  x.Centroid() / Centroid(q) (the function itself, on the translated copy) ↦ (← <name>_scaled x): the range guard and the loops below it
//	  return Point{X: c.X + ox, Y: c.Y + oy}                    ↦ pure (unshift ox oy c)
//	centroidAxisOrigin's body (compared as text)                ↦ pure v                  (over Rat every value is finite)
//	op.Centroid, case geom.Polygon: `var A, xA, yA float64` + the last two statements of the clause = op_Centroid_core; the
//	  statements before them = the inline guard: `kx, ky := 1., 1.` + the two axis-scale blocks (compared as text) ↦
//	  kx := axisScale mx; ky := axisScale my;  c, err := Centroid(q) ↦ c := (← op_Centroid_core q);  return Point{…}, err ↦ unscale

import (
	"fmt"
	"go/ast"
	"go/parser"
	"go/printer"
	"go/token"
	"os"
	"path/filepath"
	"strconv"
	"strings"
)

type xerr struct{ msg string }

func xfail(f string, a ...interface{}) { panic(xerr{fmt.Sprintf(f, a...)}) }

type fnInfo struct {
	file, recv, name, lean string
	rnum                   bool
	ret                    string // result type when it is not the declared one ("optfloat": float64 that may be +Inf)
}

func (fi fnInfo) pkg() string {
	if strings.HasPrefix(fi.file, "op/") {
		return "op"
	}
	return "geom"
}

var fns = []fnInfo{
	{"area.go", "", "signedarea", "signedarea", false, ""},
	{"op/properties.go", "", "area", "op_area", false, ""},
	{"op/properties.go", "", "centroidAxisOrigin", "op_centroidAxisOrigin", false, "axisorigin"},
	{"op/properties.go", "", "centroidOrigin", "op_centroidOrigin", false, ""},
	{"op/properties.go", "", "Centroid", "op_Centroid", false, "opcentroid"},
	{"op/properties.go", "", "Area", "op_Area_Polygon", false, "case:Polygon"},
	{"op/properties.go", "", "Area", "op_Area_MultiPolygon", false, "case:MultiPolygon"},
	{"op/properties.go", "", "Area", "op_Area_GeometryCollection", false, "case:GeometryCollection"},
	{"op/properties.go", "", "Area", "op_Area_other", false, "case:other"},
	{"area.go", "", "centroidAxisScale", "centroidAxisScale", false, "axisscale"},
	{"area.go", "", "centroidScale", "centroidScale", false, ""},
	{"area.go", "Polygon", "scaled", "polygon_scaled", false, ""},
	{"area.go", "", "centroidAxisOrigin", "centroidAxisOrigin", false, "axisorigin"},
	{"area.go", "", "centroidOrigin", "centroidOrigin", false, ""},
	{"area.go", "Polygon", "translated", "polygon_translated", false, ""},
	{"area.go", "Polygon", "Centroid", "polygon_Centroid", false, "centroid"},
	{"similar.go", "", "similar", "similar", false, ""},
	{"similar.go", "", "pointSimilar", "pointSimilar", false, ""},
	{"similar.go", "", "pointsSimilar", "pointsSimilar", false, ""},
	{"area.go", "", "area", "area", false, ""},
	{"area.go", "Polygon", "Area", "polygon_Area", false, ""},
	{"area.go", "Polygon", "ringBounds", "polygon_ringBounds", false, ""},
	{"multipolygon.go", "MultiPolygon", "Area", "multiPolygon_Area", false, ""},
	{"multipolygon.go", "MultiPolygon", "Centroid", "multiPolygon_Centroid", false, "centroid"},
	{"bounds.go", "*Bounds", "Area", "bounds_Area", false, ""},
	{"bounds.go", "*Bounds", "Centroid", "bounds_Centroid", false, ""},
	{"op/properties.go", "", "length", "op_length", true, ""},
	{"op/properties.go", "", "Length", "op_Length_LineString", true, "case:LineString"},
	{"op/properties.go", "", "Length", "op_Length_MultiLineString", true, "case:MultiLineString"},
	{"op/properties.go", "", "Length", "op_Length_GeometryCollection", true, "case:GeometryCollection"},
	{"op/properties.go", "", "Length", "op_Length_other", true, "case:other"},
	{"linestring.go", "LineString", "Length", "lineString_Length", true, ""},
	{"multilinestring.go", "MultiLineString", "Length", "multiLineString_Length", true, ""},
	{"simplify.go", "", "pointSubtract", "pointSubtract", true, ""},
	{"simplify.go", "", "dot", "dot", true, ""},
	{"simplify.go", "", "norm", "norm", true, ""},
	{"simplify.go", "", "d", "d", true, ""},
	{"simplify.go", "", "distPointToSegment", "distPointToSegment", true, "dps"},
	{"linestring.go", "LineString", "Distance", "lineString_Distance", true, "optfloat"},
	{"multilinestring.go", "MultiLineString", "Distance", "multiLineString_Distance", true, "optfloat"},
	{"point.go", "Point", "Buffer", "point_Buffer", true, ""},
}

// element type of slice types
var elemType = map[string]string{
	"LineString": "Point", "Path": "Point", "[]Point": "Point", "MultiPoint": "Point",
	"MultiLineString": "LineString", "Polygon": "Path", "[]Path": "Path",
	"MultiPolygon": "Polygon", "[]Polygon": "Polygon", "[]*Bounds": "*Bounds",
	"GeometryCollection": "Geom",
}

// translation of one function
type tr struct {
	fi       fnInfo
	vars     map[string]string // Go variable -> Go type name ("" when unknown)
	frozen   map[string]bool   // loop counters and variables a loop bound mentions: may not be assigned
	centroid bool              // the accumulator pattern of the centroid loops is active (acc stands for A, xA, yA)
	loop     int               // 0: function level, 1: loop body / branch without exits, 2: body of a loop with return/continue
	guard    bool              // translating the range guard of a centroid function (see translate)
	self     string            // what the function's call of itself inside the guard being translated denotes (the code below that guard)
	openRec  bool              // the case being regenerated takes the function itself as the parameter `self` (GeometryCollection)
	ctlNext  string            // in a loop body of kind 2: what `continue` and the end of the body yield
}

func (t *tr) num() string {
	if t.fi.rnum {
		return "α"
	}
	return "Rat"
}

func (t *tr) pt() string {
	if t.fi.rnum {
		return "(Pt α)"
	}
	return "P"
}

func (t *tr) leanType(tn string) string {
	switch tn {
	case "float64":
		return t.num()
	case "optfloat":
		if !t.fi.rnum {
			xfail("+Inf in an exact function")
		}
		return "(Option α)"
	case "int":
		return "Int"
	case "bool":
		return "Bool"
	case "Point":
		return t.pt()
	case "Box": // the receiver of the methods of bounds.go (non-nil)
		return "(Go.Box " + t.pt() + ")"
	case "*Bounds": // elsewhere: a pointer that may be nil, to the box type of within.go's model
		if t.fi.rnum {
			xfail("*Bounds in a real-valued function")
		}
		return "(Option C02.Bounds)"
	case "WithinStatus":
		return "Side"
	case "centroid":
		return "(FV × FV)"
	case "float64,float64":
		return "(" + t.num() + " × " + t.num() + ")"
	case "CAcc":
		return "CAcc"
	case "Geom": // an arbitrary geometry (member of a GeometryCollection): the shared value type of Common/Geom.lean
		return "(GeomV.Geom " + t.num() + ")"
	}
	if et, ok := elemType[tn]; ok {
		return "(List " + t.leanType(et) + ")"
	}
	xfail("type %s", tn)
	return ""
}

func (t *tr) lit(n uint64, tn string) string {
	switch tn {
	case "int":
		return fmt.Sprintf("(%d : Int)", n)
	case "float64":
		if t.fi.rnum {
			return fmt.Sprintf("(RNum.ofNat %d : α)", n)
		}
		return fmt.Sprintf("(%d : Rat)", n)
	}
	xfail("numeric literal where a %q is expected", tn)
	return ""
}

func (t *tr) zeroOf(tn string) string {
	switch tn {
	case "float64", "int":
		return t.lit(0, tn)
	case "bool":
		return "false"
	case "Point":
		return "(⟨" + t.lit(0, "float64") + ", " + t.lit(0, "float64") + "⟩ : " + t.pt() + ")"
	case "*Bounds":
		return "(none : Option C02.Bounds)"
	}
	if _, ok := elemType[tn]; ok {
		return "([] : " + t.leanType(tn) + ")"
	}
	xfail("zero value of type %s", tn)
	return ""
}

func typeName(x ast.Expr) string {
	switch t := x.(type) {
	case *ast.Ident:
		return t.Name
	case *ast.StarExpr:
		return "*" + typeName(t.X)
	case *ast.ArrayType:
		if t.Len == nil {
			return "[]" + typeName(t.Elt)
		}
	case *ast.SelectorExpr:
		if id, ok := t.X.(*ast.Ident); ok {
			if id.Name == "geom" { // package op names the types of package geom
				return t.Sel.Name
			}
			return id.Name + "." + t.Sel.Name
		}
	}
	return "?"
}

// value of a non-negative integral numeric literal
func litValue(x *ast.BasicLit) (uint64, bool) {
	if x.Kind != token.INT && x.Kind != token.FLOAT {
		return 0, false
	}
	f, err := strconv.ParseFloat(x.Value, 64)
	if err != nil || f < 0 || f > 1<<52 || f != float64(uint64(f)) {
		return 0, false
	}
	return uint64(f), true
}

func lookupFn(pkg, recv, name string) *fnInfo {
	for i := range fns {
		if fns[i].pkg() == pkg && fns[i].recv == recv && fns[i].name == name {
			return &fns[i]
		}
	}
	return nil
}

// the constants of type WithinStatus
var withinConst = map[string]string{"Outside": "Side.outside", "Inside": "Side.inside", "OnEdge": "Side.onEdge"}

// a function f(g geom.Geom) that switches on the dynamic type of g is regenerated once per listed case; a call f(x)
// with x of static type T is the case T
func lookupCase(fi *fnInfo, argType string) *fnInfo {
	if fi == nil || !strings.HasPrefix(fi.ret, "case:") {
		return fi
	}
	if argType == "Geom" {
		// the function called on a value whose dynamic type is not known (a member of a GeometryCollection): open
		// recursion, the parameter `self` of the regenerated case (Ties.lean instantiates it with the model of the
		// whole function)
		return &fnInfo{file: fi.file, name: fi.name, lean: "self", rnum: fi.rnum, ret: "self"}
	}
	for i := range fns {
		if fns[i].pkg() == fi.pkg() && fns[i].recv == "" && fns[i].name == fi.name && fns[i].ret == "case:"+argType {
			return &fns[i]
		}
	}
	xfail("call of %s on a %q, a case that is not regenerated", fi.name, argType)
	return nil
}

var paramTypes = map[string][]string{} // lean name -> Go types of receiver and parameters

var variadic = map[string]bool{} // lean name -> its last parameter is variadic

var resultType = map[string]string{} // lean name -> Go result type, filled while translating

func (t *tr) typeOf(e ast.Expr) string {
	switch x := e.(type) {
	case *ast.ParenExpr:
		return t.typeOf(x.X)
	case *ast.Ident:
		if x.Name == "true" || x.Name == "false" {
			return "bool"
		}
		if _, ok := t.vars[x.Name]; !ok && withinConst[x.Name] != "" {
			return "WithinStatus"
		}
		return t.vars[x.Name]
	case *ast.BasicLit:
		return ""
	case *ast.UnaryExpr:
		if x.Op == token.NOT {
			return "bool"
		}
		return t.typeOf(x.X)
	case *ast.BinaryExpr:
		switch x.Op {
		case token.EQL, token.NEQ, token.LSS, token.LEQ, token.GTR, token.GEQ, token.LAND, token.LOR:
			return "bool"
		}
		if a := t.typeOf(x.X); a != "" {
			return a
		}
		return t.typeOf(x.Y)
	case *ast.SelectorExpr:
		if typeName(x) == "math.Pi" {
			return "float64"
		}
		switch x.Sel.Name {
		case "X", "Y":
			return "float64"
		case "Min", "Max":
			return "Point"
		}
	case *ast.IndexExpr:
		return elemType[t.typeOf(x.X)]
	case *ast.SliceExpr:
		return t.typeOf(x.X)
	case *ast.CompositeLit:
		return typeName(x.Type)
	case *ast.TypeAssertExpr:
		if x.Type != nil {
			return typeName(x.Type)
		}
	case *ast.CallExpr:
		tn := typeName(x.Fun)
		if _, shadow := t.vars[tn]; !shadow {
			if tn == "float64" {
				return "float64"
			}
			if _, ok := elemType[tn]; (ok || tn == "Point") && len(x.Args) == 1 {
				return tn
			}
		}
		switch tn {
		case "len":
			return "int"
		case "make":
			return typeName(x.Args[0])
		case "append":
			return t.typeOf(x.Args[0])
		case "math.Inf":
			return "optfloat"
		case "math.Min":
			for _, a := range x.Args {
				if t.typeOf(a) == "optfloat" {
					return "optfloat"
				}
			}
			return "float64"
		case "NewBounds":
			return "*Bounds"
		case "pointInPolygon":
			return "WithinStatus"
		}
		if strings.HasPrefix(tn, "math.") {
			return "float64"
		}
		if id, ok := x.Fun.(*ast.Ident); ok {
			if fi := lookupFn(t.fi.pkg(), "", id.Name); fi != nil {
				if strings.HasPrefix(fi.ret, "case:") && len(x.Args) == 1 {
					fi = lookupCase(fi, t.typeOf(x.Args[0]))
					if fi.ret == "self" {
						return "float64"
					}
				}
				return resultType[fi.lean]
			}
		}
		if sel, ok := x.Fun.(*ast.SelectorExpr); ok {
			if t.guard && sel.Sel.Name == t.fi.name && t.typeOf(sel.X) == t.fi.recv && len(x.Args) == 0 {
				return "centroid"
			}
			if fi := lookupFn(t.fi.pkg(), t.typeOf(sel.X), sel.Sel.Name); fi != nil {
				return resultType[fi.lean]
			}
		}
	}
	return ""
}

func hasFault(s string) bool { return strings.Contains(s, "←") }

func (t *tr) expr(e ast.Expr, want string) string {
	switch x := e.(type) {
	case *ast.ParenExpr:
		return t.expr(x.X, want)
	case *ast.Ident:
		switch x.Name {
		case "true", "false":
			return x.Name
		case "nil":
			xfail("nil")
		}
		if _, ok := t.vars[x.Name]; !ok && withinConst[x.Name] != "" {
			return withinConst[x.Name]
		}
		if ty, ok := t.vars[x.Name]; !ok {
			xfail("unknown identifier %s", x.Name)
		} else if ty == "acc!" {
			xfail("the accumulator %s is read outside the recognised statement groups", x.Name)
		}
		return x.Name
	case *ast.BasicLit:
		n, ok := litValue(x)
		if !ok {
			xfail("literal %s", x.Value)
		}
		if want == "" {
			xfail("literal %s whose type is not determined by its context", x.Value)
		}
		return t.lit(n, want)
	case *ast.UnaryExpr:
		switch x.Op {
		case token.NOT:
			return "(!" + t.expr(x.X, "bool") + ")"
		case token.SUB:
			ty := t.typeOf(x.X)
			if ty == "" {
				ty = want
			}
			if ty == "float64" && t.fi.rnum {
				return "(" + t.lit(0, "float64") + " - " + t.expr(x.X, ty) + ")"
			}
			return "(-" + t.expr(x.X, ty) + ")"
		}
		xfail("unary operator %s", x.Op)
	case *ast.BinaryExpr:
		ty := t.typeOf(x.X)
		if ty == "" {
			ty = t.typeOf(x.Y)
		}
		switch x.Op {
		case token.LAND, token.LOR:
			a, b := t.expr(x.X, "bool"), t.expr(x.Y, "bool")
			if hasFault(b) {
				// short-circuit evaluation: the right operand runs (and may fault) only when the left one does not decide
				if x.Op == token.LAND {
					return "(← Go.andAlso " + a + " (do pure " + b + "))"
				}
				return "(← Go.orElse " + a + " (do pure " + b + "))"
			}
			return "(" + a + " " + x.Op.String() + " " + b + ")"
		case token.ADD, token.SUB, token.MUL, token.QUO, token.REM:
			if ty == "" {
				ty = want
			}
		}
		if ty == "" {
			xfail("operands of %s are both untyped constants", x.Op)
		}
		a, b := t.expr(x.X, ty), t.expr(x.Y, ty)
		switch x.Op {
		case token.ADD, token.SUB, token.MUL:
			if ty != "int" && ty != "float64" {
				xfail("%s on %s", x.Op, ty)
			}
			return "(" + a + " " + x.Op.String() + " " + b + ")"
		case token.QUO:
			if ty != "float64" {
				xfail("/ on %s", ty)
			}
			if !t.fi.rnum {
				l, ok := x.Y.(*ast.BasicLit)
				if !ok {
					// x/0 is ±Inf or NaN in Go and 0 in Rat: the exact mode is left (Go.Fault.nonFinite)
					return "(← Go.fdiv " + a + " " + b + ")"
				}
				if n, ok := litValue(l); !ok || n == 0 {
					xfail("float64 division by the literal %s", l.Value)
				}
			}
			return "(" + a + " / " + b + ")"
		case token.REM:
			if ty != "int" {
				xfail("%% on %s", ty)
			}
			return "(← Go.imod " + a + " " + b + ")"
		case token.EQL, token.NEQ:
			if ty == "optfloat" || (t.fi.rnum && (ty == "float64" || ty == "Point")) {
				xfail("%s on real values", x.Op)
			}
			if ty == "*Bounds" || elemType[ty] != "" {
				xfail("%s on %s", x.Op, ty)
			}
			op := " = "
			if x.Op == token.NEQ {
				op = " ≠ "
			}
			return "(decide (" + a + op + b + "))"
		case token.LSS, token.GTR, token.LEQ, token.GEQ:
			if ty != "int" && ty != "float64" {
				xfail("%s on %s", x.Op, ty)
			}
			if ty == "float64" && t.fi.rnum {
				switch x.Op {
				case token.LSS:
					return "(RNum.lt " + a + " " + b + ")"
				case token.GTR:
					return "(RNum.lt " + b + " " + a + ")"
				case token.LEQ:
					return "(RNum.le " + a + " " + b + ")"
				default:
					return "(RNum.le " + b + " " + a + ")"
				}
			}
			op := map[token.Token]string{token.LSS: "<", token.GTR: ">", token.LEQ: "≤", token.GEQ: "≥"}[x.Op]
			return "(decide (" + a + " " + op + " " + b + "))"
		}
		xfail("binary operator %s", x.Op)
	case *ast.SelectorExpr:
		if typeName(x) == "math.Pi" {
			if !t.fi.rnum {
				xfail("math.Pi in an exact function")
			}
			return "(RNum.pi : α)"
		}
		xt := t.typeOf(x.X)
		switch x.Sel.Name {
		case "Min", "Max":
			if xt == "Box" {
				return t.expr(x.X, "") + "." + x.Sel.Name
			}
		case "X", "Y":
			if xt == "Point" {
				return t.expr(x.X, "") + "." + strings.ToLower(x.Sel.Name)
			}
		}
		xfail("selector .%s on %q", x.Sel.Name, xt)
	case *ast.IndexExpr:
		if _, ok := elemType[t.typeOf(x.X)]; !ok {
			xfail("index into %q", t.typeOf(x.X))
		}
		return "(← Go.idx " + t.expr(x.X, "") + " " + t.expr(x.Index, "int") + ")"
	case *ast.SliceExpr:
		if _, ok := elemType[t.typeOf(x.X)]; !ok {
			xfail("slice of %q", t.typeOf(x.X))
		}
		a := t.expr(x.X, "")
		lo, hi := "(0 : Int)", "(Go.len "+a+")"
		if x.Low != nil {
			lo = t.expr(x.Low, "int")
		}
		if x.High != nil {
			hi = t.expr(x.High, "int")
		}
		if x.Slice3 {
			return "(← Go.slice3 " + a + " " + lo + " " + hi + " " + t.expr(x.Max, "int") + ")"
		}
		return "(← Go.slice " + a + " " + lo + " " + hi + ")"
	case *ast.CompositeLit:
		return t.composite(x)
	case *ast.CallExpr:
		return t.call(x)
	case *ast.TypeAssertExpr:
		// inside the `case geom.Polygon:` clause of the type switch on g, g.(geom.Polygon) is g
		if id, ok := x.X.(*ast.Ident); ok && x.Type != nil && (t.fi.ret == "opcentroid" || strings.HasPrefix(t.fi.ret, "case:")) && t.vars[id.Name] == typeName(x.Type) {
			return id.Name
		}
		xfail("type assertion")
	}
	xfail("expression %T", e)
	return ""
}

func (t *tr) composite(x *ast.CompositeLit) string {
	tn := typeName(x.Type)
	if tn != "Point" {
		xfail("composite literal of type %s", tn)
	}
	if len(x.Elts) == 0 {
		return t.zeroOf("Point")
	}
	var xs, ys string
	for i, el := range x.Elts {
		if kv, ok := el.(*ast.KeyValueExpr); ok {
			switch kv.Key.(*ast.Ident).Name {
			case "X":
				xs = t.expr(kv.Value, "float64")
			case "Y":
				ys = t.expr(kv.Value, "float64")
			}
		} else if i == 0 {
			xs = t.expr(el, "float64")
		} else if i == 1 {
			ys = t.expr(el, "float64")
		}
	}
	if xs == "" || ys == "" || len(x.Elts) != 2 {
		xfail("Point literal with a field left out")
	}
	return "(⟨" + xs + ", " + ys + "⟩ : " + t.pt() + ")"
}

func (t *tr) floatArgs(x *ast.CallExpr, n int) []string {
	if len(x.Args) != n {
		xfail("%s with %d arguments", typeName(x.Fun), len(x.Args))
	}
	var s []string
	for _, a := range x.Args {
		if ty := t.typeOf(a); ty != "float64" && ty != "" {
			xfail("%s of a %s", typeName(x.Fun), ty)
		}
		s = append(s, t.expr(a, "float64"))
	}
	return s
}

func (t *tr) callFn(fi *fnInfo, args []string) string {
	if fi.rnum != t.fi.rnum {
		xfail("call of %s across the exact/real-valued modes", fi.lean)
	}
	if _, ok := resultType[fi.lean]; !ok {
		xfail("call of %s before its definition", fi.lean)
	}
	return "(← " + fi.lean + " " + strings.Join(args, " ") + ")"
}

func (t *tr) call(x *ast.CallExpr) string {
	tn := typeName(x.Fun)
	if x.Ellipsis != token.NoPos && tn != "append" {
		id, ok := x.Fun.(*ast.Ident)
		var fi *fnInfo
		if ok {
			fi = lookupFn(t.fi.pkg(), "", id.Name)
		}
		if fi == nil || !variadic[fi.lean] || len(x.Args) != 1 {
			xfail("variadic call")
		}
	}
	if _, shadow := t.vars[tn]; !shadow && len(x.Args) == 1 {
		// conversions
		if tn == "float64" {
			if t.typeOf(x.Args[0]) != "int" || !t.fi.rnum {
				xfail("float64(%s) in this mode", t.typeOf(x.Args[0]))
			}
			return "(Go.ofInt " + t.expr(x.Args[0], "int") + " : α)"
		}
		if _, ok := elemType[tn]; ok || tn == "Point" {
			at := t.typeOf(x.Args[0])
			if at != tn && elemType[at] != elemType[tn] {
				xfail("conversion %s(%s)", tn, at)
			}
			return t.expr(x.Args[0], "")
		}
	}
	switch tn {
	case "len":
		if _, ok := elemType[t.typeOf(x.Args[0])]; !ok {
			xfail("len of %q", t.typeOf(x.Args[0]))
		}
		return "(Go.len " + t.expr(x.Args[0], "") + ")"
	case "make":
		et, ok := elemType[typeName(x.Args[0])]
		if !ok || len(x.Args) != 2 {
			xfail("make of type %s with %d arguments", typeName(x.Args[0]), len(x.Args))
		}
		return "(← Go.make " + t.expr(x.Args[1], "int") + " " + t.zeroOf(et) + ")"
	case "append":
		at := t.typeOf(x.Args[0])
		if _, ok := elemType[at]; !ok {
			xfail("append to %q", at)
		}
		a := t.expr(x.Args[0], "")
		if x.Ellipsis != token.NoPos {
			if len(x.Args) != 2 {
				xfail("append with ... and %d arguments", len(x.Args))
			}
			return "(" + a + " ++ " + t.expr(x.Args[1], "") + ")"
		}
		var parts []string
		for _, b := range x.Args[1:] {
			parts = append(parts, t.expr(b, ""))
		}
		return "(" + a + " ++ [" + strings.Join(parts, ", ") + "])"
	case "math.Abs":
		a := t.floatArgs(x, 1)
		if t.fi.rnum {
			return "(RNum.abs " + a[0] + ")"
		}
		return "(absR " + a[0] + ")"
	case "math.Max":
		a := t.floatArgs(x, 2)
		if t.fi.rnum {
			return "(RNum.max " + a[0] + " " + a[1] + ")"
		}
		return "(max " + a[0] + " " + a[1] + ")"
	case "math.Inf":
		if l, ok := x.Args[0].(*ast.BasicLit); !ok || l.Value != "1" || !t.fi.rnum {
			xfail("math.Inf of something else than 1")
		}
		return "(none : Option α)"
	case "math.Min":
		if !t.fi.rnum || len(x.Args) != 2 {
			xfail("math.Min in an exact function")
		}
		t0, t1 := t.typeOf(x.Args[0]), t.typeOf(x.Args[1])
		switch {
		case t0 == "optfloat" && t1 == "optfloat":
			return "(Go.minInf2 " + t.expr(x.Args[0], "") + " " + t.expr(x.Args[1], "") + ")"
		case t0 == "optfloat":
			return "(Go.minInf " + t.expr(x.Args[0], "") + " " + t.expr(x.Args[1], "float64") + ")"
		case t1 == "optfloat":
			xfail("math.Min(x, d) with d possibly +Inf on the right")
		}
		a := t.floatArgs(x, 2)
		return "(RNum.min " + a[0] + " " + a[1] + ")"
	case "math.Hypot", "math.Sqrt", "math.Cos", "math.Sin":
		if !t.fi.rnum {
			xfail("%s in an exact function", tn)
		}
		n := 1
		if tn == "math.Hypot" {
			n = 2
		}
		return "(RNum." + strings.ToLower(tn[5:]) + " " + strings.Join(t.floatArgs(x, n), " ") + ")"
	case "NewBounds":
		if t.fi.pkg() != "geom" || len(x.Args) != 0 {
			xfail("NewBounds here")
		}
		return "Go.newBounds"
	case "pointInPolygon":
		// within.go: the model of property C02 (regenerated from within.go by C02's own extractor)
		if t.fi.pkg() != "geom" || len(x.Args) != 3 || t.typeOf(x.Args[0]) != "Point" || t.typeOf(x.Args[1]) != "Polygon" || t.typeOf(x.Args[2]) != "[]*Bounds" {
			xfail("pointInPolygon with these arguments")
		}
		return "(← Go.pointInPolygon " + t.expr(x.Args[0], "") + " " + t.expr(x.Args[1], "") + " " + t.expr(x.Args[2], "") + ")"
	}
	var args []string
	argsOf := func(fi *fnInfo) {
		pt := paramTypes[fi.lean]
		if fi.recv != "" && len(pt) > 0 {
			pt = pt[1:]
		}
		for k, a := range x.Args {
			want := t.typeOf(a)
			if want == "" && k < len(pt) && !variadic[fi.lean] {
				want = pt[k]
			}
			args = append(args, t.expr(a, want))
		}
	}
	switch f := x.Fun.(type) {
	case *ast.Ident:
		if _, shadow := t.vars[f.Name]; shadow {
			xfail("call of the variable %s", f.Name)
		}
		if fi := lookupFn(t.fi.pkg(), "", f.Name); fi != nil {
			if strings.HasPrefix(fi.ret, "case:") {
				if len(x.Args) != 1 {
					xfail("call of %s with %d arguments", f.Name, len(x.Args))
				}
				fi = lookupCase(fi, t.typeOf(x.Args[0]))
				if fi.ret == "self" {
					if f.Name != t.fi.name || !t.openRec {
						xfail("call of %s on a geom.Geom outside its own GeometryCollection case", f.Name)
					}
					return "(← self " + t.expr(x.Args[0], "Geom") + ")"
				}
			}
			argsOf(fi)
			if variadic[fi.lean] && x.Ellipsis == token.NoPos {
				// f(a, b) with f(xs ...T): the arguments are the elements of xs (only functions whose single parameter is variadic)
				args = []string{"[" + strings.Join(args, ", ") + "]"}
			}
			return t.callFn(fi, args)
		}
		xfail("call of %s", f.Name)
	case *ast.SelectorExpr:
		rt := t.typeOf(f.X)
		if t.guard && f.Sel.Name == t.fi.name && rt == t.fi.recv && len(x.Args) == 0 {
			// the call of the function itself on the rescaled copy: the guard does not fire again, the loops below it run
			return "(← " + t.self + " " + t.expr(f.X, "") + ")"
		}
		if fi := lookupFn(t.fi.pkg(), rt, f.Sel.Name); fi != nil {
			args = append(args, t.expr(f.X, ""))
			argsOf(fi)
			return t.callFn(fi, args)
		}
		xfail("method %s on receiver of type %q", f.Sel.Name, rt)
	}
	xfail("call")
	return ""
}

func baseName(e ast.Expr) string {
	for {
		switch x := e.(type) {
		case *ast.IndexExpr:
			e = x.X
		case *ast.Ident:
			return x.Name
		default:
			xfail("assignment target %T", e)
		}
	}
}

// variables assigned in the statements that are not declared inside them
func assigned(stmts []ast.Stmt, declared map[string]bool) []string {
	var out []string
	seen := map[string]bool{}
	mark := func(n string) {
		if !declared[n] && !seen[n] && n != "_" {
			seen[n] = true
			out = append(out, n)
		}
	}
	var walk func(ss []ast.Stmt)
	walk = func(ss []ast.Stmt) {
		for _, s := range ss {
			switch x := s.(type) {
			case *ast.AssignStmt:
				for _, l := range x.Lhs {
					n := baseName(l)
					if x.Tok == token.DEFINE {
						declared[n] = true
					} else {
						mark(n)
					}
				}
			case *ast.IncDecStmt:
				mark(baseName(x.X))
			case *ast.DeclStmt:
				for _, sp := range x.Decl.(*ast.GenDecl).Specs {
					for _, n := range sp.(*ast.ValueSpec).Names {
						declared[n.Name] = true
					}
				}
			case *ast.RangeStmt:
				if x.Tok == token.DEFINE {
					for _, kv := range []ast.Expr{x.Key, x.Value} {
						if id, ok := kv.(*ast.Ident); ok {
							declared[id.Name] = true
						}
					}
				}
				walk(x.Body.List)
			case *ast.ForStmt:
				if x.Init != nil {
					walk([]ast.Stmt{x.Init})
				}
				walk(x.Body.List)
				if x.Post != nil {
					walk([]ast.Stmt{x.Post})
				}
			case *ast.IfStmt:
				if x.Init != nil {
					walk([]ast.Stmt{x.Init})
				}
				walk(x.Body.List)
				if x.Else != nil {
					walk([]ast.Stmt{x.Else})
				}
			case *ast.BlockStmt:
				walk(x.List)
			case *ast.ExprStmt:
				if n := mutated(x); n != "" {
					mark(n)
				}
			case *ast.ReturnStmt, *ast.BranchStmt:
			default:
				xfail("statement %T", s)
			}
		}
	}
	walk(stmts)
	return out
}

// copy(dst, …) and b.extendPoints(…) assign dst / the box b points to
func mutated(s *ast.ExprStmt) string {
	c, ok := s.X.(*ast.CallExpr)
	if !ok {
		return ""
	}
	if isIdent(c.Fun, "copy") && len(c.Args) == 2 {
		if id, ok := c.Args[0].(*ast.Ident); ok {
			return id.Name
		}
	}
	if sel, ok := c.Fun.(*ast.SelectorExpr); ok && sel.Sel.Name == "extendPoints" && len(c.Args) == 1 {
		if id, ok := sel.X.(*ast.Ident); ok {
			return id.Name
		}
	}
	return ""
}

func identsOf(e ast.Expr) map[string]bool {
	m := map[string]bool{}
	ast.Inspect(e, func(n ast.Node) bool {
		if id, ok := n.(*ast.Ident); ok {
			m[id.Name] = true
		}
		return true
	})
	return m
}

func tuple(vs []string) string {
	switch len(vs) {
	case 0:
		return "()"
	case 1:
		return vs[0]
	}
	return "(" + strings.Join(vs, ", ") + ")"
}

// the lines that take a state tuple named st__ apart
func unpack(vs []string, ind string) string {
	if len(vs) < 2 {
		return ""
	}
	var sb strings.Builder
	path := "st__"
	for i, v := range vs {
		if i == len(vs)-1 {
			fmt.Fprintf(&sb, "%slet %s := %s\n", ind, v, path)
		} else {
			fmt.Fprintf(&sb, "%slet %s := %s.1\n", ind, v, path)
			path += ".2"
		}
	}
	return sb.String()
}

func stName(vs []string) string {
	if len(vs) == 1 {
		return vs[0]
	}
	if len(vs) == 0 {
		return "_"
	}
	return "st__"
}

func (t *tr) save() map[string]string {
	saved := map[string]string{}
	for n, ty := range t.vars {
		saved[n] = ty
	}
	return saved
}

func (t *tr) assignable(n string) {
	if _, ok := t.vars[n]; !ok {
		xfail("assignment to unknown variable %s", n)
	}
	if t.frozen[n] {
		xfail("assignment to %s, which is a loop counter or part of a loop bound", n)
	}
	if t.centroid && (n == "A" || n == "xA" || n == "yA") {
		xfail("assignment to the accumulator %s outside the recognised statement group", n)
	}
}

func isPanic(s ast.Stmt) bool {
	es, ok := s.(*ast.ExprStmt)
	if !ok {
		return false
	}
	c, ok := es.X.(*ast.CallExpr)
	if !ok {
		return false
	}
	id, ok := c.Fun.(*ast.Ident)
	return ok && id.Name == "panic"
}

func endsInExit(ss []ast.Stmt) bool {
	if len(ss) == 0 {
		return false
	}
	if _, ok := ss[len(ss)-1].(*ast.ReturnStmt); ok {
		return true
	}
	if b, ok := ss[len(ss)-1].(*ast.BranchStmt); ok && b.Tok == token.CONTINUE {
		return true
	}
	return isPanic(ss[len(ss)-1])
}

func containsExit(ss []ast.Stmt) bool {
	found := false
	for _, s := range ss {
		ast.Inspect(s, func(n ast.Node) bool {
			switch x := n.(type) {
			case *ast.ReturnStmt, *ast.BranchStmt:
				found = true
			case ast.Stmt:
				if isPanic(x) {
					found = true
				}
			}
			return true
		})
	}
	return found
}

// ---- the statement groups of the centroid loops (see the header) ----

func isIdent(e ast.Expr, n string) bool {
	id, ok := e.(*ast.Ident)
	return ok && id.Name == n
}

// x op= e with x, op as given; returns e
func opAssign(s ast.Stmt, tok token.Token, lhs string) ast.Expr {
	a, ok := s.(*ast.AssignStmt)
	if !ok || a.Tok != tok || len(a.Lhs) != 1 || len(a.Rhs) != 1 || !isIdent(a.Lhs[0], lhs) {
		return nil
	}
	return a.Rhs[0]
}

// op.Centroid's inline form of centroidScale's two factors, compared as text:
//
//	kx, ky := 1., 1.
//	if (mx >= 0x1p300 || (mx <= 0x1p-300 && mx > 0)) && !math.IsInf(mx, 0) { _, e := math.Frexp(mx); kx = math.Ldexp(1, e-1) }
//	if (my >= 0x1p300 || … my …) { _, e := math.Frexp(my); ky = math.Ldexp(1, e-1) }
//
// is kx := axisScale mx; ky := axisScale my (Frexp/Ldexp over Rat = pow2Floor)
func (t *tr) axisGroup(ss []ast.Stmt) bool {
	if len(ss) < 3 || srcOf(ss[0]) != "kx, ky := 1., 1." {
		return false
	}
	axisIf := func(m, k string) string {
		return "if (" + m + " >= 0x1p300 || (" + m + " <= 0x1p-300 && " + m + " > 0)) && !math.IsInf(" + m + ", 0) {\n\t_, e := math.Frexp(" + m + ")\n\t" + k + " = math.Ldexp(1, e-1)\n}"
	}
	if srcOf(ss[1]) != axisIf("mx", "kx") || srcOf(ss[2]) != axisIf("my", "ky") {
		xfail("the two blocks after `kx, ky := 1., 1.` are not the axis-scale blocks: `%s` `%s`", srcOf(ss[1]), srcOf(ss[2]))
	}
	if t.vars["mx"] != "float64" || t.vars["my"] != "float64" {
		xfail("mx, my are not float64 variables")
	}
	if _, hides := t.vars["kx"]; hides {
		xfail("kx hides a variable")
	}
	if _, hides := t.vars["ky"]; hides {
		xfail("ky hides a variable")
	}
	return true
}

// Point{X: c.X * kx, Y: c.Y * ky} with c a centroid (FV × FV) and kx, ky float64 variables
func (t *tr) isUnscale(e ast.Expr, op token.Token) (c, kx, ky string, ok bool) {
	lit, isLit := e.(*ast.CompositeLit)
	if !isLit || typeName(lit.Type) != "Point" || len(lit.Elts) != 2 {
		return
	}
	field := func(e ast.Expr, key string) (string, string, bool) {
		kv, ok := e.(*ast.KeyValueExpr)
		if !ok || !isIdent(kv.Key, key) {
			return "", "", false
		}
		b, ok := kv.Value.(*ast.BinaryExpr)
		if !ok || b.Op != op {
			return "", "", false
		}
		s, ok := b.X.(*ast.SelectorExpr)
		k, ok2 := b.Y.(*ast.Ident)
		if !ok || !ok2 || s.Sel.Name != key {
			return "", "", false
		}
		cid, ok := s.X.(*ast.Ident)
		if !ok || t.vars[cid.Name] != "centroid" || t.vars[k.Name] != "float64" {
			return "", "", false
		}
		return cid.Name, k.Name, true
	}
	c1, kx, ok1 := field(lit.Elts[0], "X")
	c2, ky, ok2 := field(lit.Elts[1], "Y")
	if !ok1 || !ok2 || c1 != c2 {
		return
	}
	return c1, kx, ky, true
}

// `6 * d` with d an identifier; returns d
func sixTimes(e ast.Expr) string {
	b, ok := e.(*ast.BinaryExpr)
	if !ok || b.Op != token.MUL {
		return ""
	}
	l, ok := b.X.(*ast.BasicLit)
	if !ok || l.Value != "6" {
		return ""
	}
	if id, ok := b.Y.(*ast.Ident); ok {
		return id.Name
	}
	return ""
}

func timesIdent(e ast.Expr, a string) string {
	b, ok := e.(*ast.BinaryExpr)
	if !ok || b.Op != token.MUL || !isIdent(b.X, a) {
		return ""
	}
	if id, ok := b.Y.(*ast.Ident); ok {
		return id.Name
	}
	return ""
}

// cx /= 6 * d; cy /= 6 * d; A += w; xA += cx * w; yA += cy * w   ↦ (d, w)
func (t *tr) accGroup(ss []ast.Stmt) (d, w string, ok bool) {
	if len(ss) < 5 {
		return
	}
	e0, e1 := opAssign(ss[0], token.QUO_ASSIGN, "cx"), opAssign(ss[1], token.QUO_ASSIGN, "cy")
	e2, e3, e4 := opAssign(ss[2], token.ADD_ASSIGN, "A"), opAssign(ss[3], token.ADD_ASSIGN, "xA"), opAssign(ss[4], token.ADD_ASSIGN, "yA")
	if e0 == nil || e1 == nil || e2 == nil || e3 == nil || e4 == nil {
		return
	}
	d = sixTimes(e0)
	wi, isId := e2.(*ast.Ident)
	if d == "" || sixTimes(e1) != d || !isId {
		return
	}
	w = wi.Name
	if timesIdent(e3, "cx") != w || timesIdent(e4, "cy") != w {
		return
	}
	for _, v := range []string{"cx", "cy", d, w} {
		if t.vars[v] != "float64" {
			return
		}
	}
	return d, w, true
}

func quoIdents(e ast.Expr, a, b string) bool {
	x, ok := e.(*ast.BinaryExpr)
	return ok && x.Op == token.QUO && isIdent(x.X, a) && isIdent(x.Y, b)
}

// return Point{X: xA / A, Y: yA / A}    (also positional; in op.Centroid followed by `, nil`)
func isFinish(s ast.Stmt, withNil bool) bool {
	r, ok := s.(*ast.ReturnStmt)
	if !ok {
		return false
	}
	if withNil {
		if len(r.Results) != 2 || !isIdent(r.Results[1], "nil") {
			return false
		}
	} else if len(r.Results) != 1 {
		return false
	}
	c, ok := r.Results[0].(*ast.CompositeLit)
	if !ok || typeName(c.Type) != "Point" || len(c.Elts) != 2 {
		return false
	}
	kx, ok1 := c.Elts[0].(*ast.KeyValueExpr)
	ky, ok2 := c.Elts[1].(*ast.KeyValueExpr)
	if ok1 && ok2 {
		return isIdent(kx.Key, "X") && isIdent(ky.Key, "Y") && quoIdents(kx.Value, "xA", "A") && quoIdents(ky.Value, "yA", "A")
	}
	return !ok1 && !ok2 && quoIdents(c.Elts[0], "xA", "A") && quoIdents(c.Elts[1], "yA", "A")
}

// var A, xA, yA float64
func isAccDecl(s ast.Stmt) bool {
	d, ok := s.(*ast.DeclStmt)
	if !ok {
		return false
	}
	gd := d.Decl.(*ast.GenDecl)
	if gd.Tok != token.VAR || len(gd.Specs) != 1 {
		return false
	}
	vs := gd.Specs[0].(*ast.ValueSpec)
	return len(vs.Values) == 0 && vs.Type != nil && typeName(vs.Type) == "float64" && len(vs.Names) == 3 &&
		vs.Names[0].Name == "A" && vs.Names[1].Name == "xA" && vs.Names[2].Name == "yA"
}

// the range guard at the head of the centroid functions: `if <vars> := centroidScale(...); <cond> { ...; return ... }`.
// It is NOT regenerated (its rescaling branch calls the function itself on a scaled copy; tied by the
// correspondence run and by the model's theorems about centScale); only its shape is recognised so that the
// loops below it can be cut out.
func isCentroidGuard(s ast.Stmt) bool { return isGuardOf(s, "centroidScale") }

// the origin guard that precedes it: `if ox, oy := centroidOrigin(...); <cond> { ...; return ... }`
func isOriginGuard(s ast.Stmt) bool { return isGuardOf(s, "centroidOrigin") }

func isGuardOf(s ast.Stmt, fn string) bool {
	x, ok := s.(*ast.IfStmt)
	if !ok || x.Init == nil || x.Else != nil || !endsInExit(x.Body.List) {
		return false
	}
	in, ok := x.Init.(*ast.AssignStmt)
	if !ok || in.Tok != token.DEFINE || len(in.Rhs) != 1 {
		return false
	}
	c, ok := in.Rhs[0].(*ast.CallExpr)
	return ok && isIdent(c.Fun, fn)
}

// block translates statements; `tail` is what ends the block when no return does ("" = must return)
func (t *tr) block(ss []ast.Stmt, ind string, tail string, out *strings.Builder) {
	inLoop := t.loop != 0
	for i := 0; i < len(ss); i++ {
		s := ss[i]
		if t.guard && t.fi.ret == "opcentroid" && t.loop == 0 && t.axisGroup(ss[i:]) {
			fmt.Fprintf(out, "%slet kx := axisScale mx\n%slet ky := axisScale my\n", ind, ind)
			t.vars["kx"], t.vars["ky"] = "float64", "float64"
			i += 2
			continue
		}
		if t.centroid {
			if d, w, ok := t.accGroup(ss[i:]); ok {
				fmt.Fprintf(out, "%slet acc := CAcc.add acc cx cy %s %s\n", ind, d, w)
				i += 4
				continue
			}
			if isFinish(s, t.fi.ret == "opcentroid") && !inLoop && i == len(ss)-1 {
				fmt.Fprintf(out, "%spure (CAcc.finish acc)\n", ind)
				return
			}
		}
		switch x := s.(type) {
		case *ast.AssignStmt:
			t.assign(x, ind, out)
		case *ast.IncDecStmt:
			id, ok := x.X.(*ast.Ident)
			if !ok || t.vars[id.Name] != "int" {
				xfail("++/-- on something that is not an int variable")
			}
			t.assignable(id.Name)
			op := "+"
			if x.Tok == token.DEC {
				op = "-"
			}
			fmt.Fprintf(out, "%slet %s := (%s %s (1 : Int))\n", ind, id.Name, id.Name, op)
		case *ast.DeclStmt:
			gd := x.Decl.(*ast.GenDecl)
			if gd.Tok != token.VAR {
				xfail("declaration %s", gd.Tok)
			}
			if (t.fi.ret == "centroid" || t.fi.ret == "opcentroid") && isAccDecl(s) && !inLoop {
				t.centroid = true
				t.vars["acc"] = "CAcc"
				for _, n := range []string{"A", "xA", "yA"} {
					t.vars[n] = "acc!" // not readable as a value
				}
				fmt.Fprintf(out, "%slet acc := CAcc.zero\n", ind)
				continue
			}
			for _, sp := range gd.Specs {
				vs := sp.(*ast.ValueSpec)
				if len(vs.Values) != 0 || vs.Type == nil {
					xfail("var with initialiser")
				}
				tn := typeName(vs.Type)
				for _, n := range vs.Names {
					t.vars[n.Name] = tn
					fmt.Fprintf(out, "%slet %s := %s\n", ind, n.Name, t.zeroOf(tn))
				}
			}
		case *ast.RangeStmt:
			if containsExit(x.Body.List) {
				// a loop that returns: the statements after it are the `.next` arm
				t.rangeRet(x, ind, out, ss[i+1:], tail)
				return
			}
			t.rangeStmt(x, ind, out)
		case *ast.ForStmt:
			if t.forStmt(x, ind, out, ss[i+1:], tail) {
				return
			}
		case *ast.IfStmt:
			if x.Init != nil {
				// if v := e; c { … }: v is declared first (refused when it would hide a variable of the enclosing scope)
				in, ok := x.Init.(*ast.AssignStmt)
				if !ok || in.Tok != token.DEFINE || t.loop != 0 {
					xfail("if with this init")
				}
				for _, l := range in.Lhs {
					if id, ok := l.(*ast.Ident); !ok {
						xfail("if with this init")
					} else if _, hides := t.vars[id.Name]; hides {
						xfail("if init redeclares %s", id.Name)
					}
				}
				t.assign(in, ind, out)
				x = &ast.IfStmt{Cond: x.Cond, Body: x.Body, Else: x.Else}
			}
			if len(x.Body.List) == 0 {
				xfail("empty if body")
			}
			if endsInExit(x.Body.List) {
				// if c1 { …exit } else if c2 { …exit } …; R   ↦   if c1 then … else if c2 then … else R
				if t.loop == 1 {
					xfail("return inside a loop")
				}
				cur, in := x, ind
				for {
					if cur.Init != nil || !endsInExit(cur.Body.List) {
						xfail("else-if chain with a branch that does not end in return/continue/panic")
					}
					fmt.Fprintf(out, "%sif %s then do\n", in, t.expr(cur.Cond, "bool"))
					saved := t.save()
					t.block(cur.Body.List, in+"  ", "", out)
					t.vars = saved
					fmt.Fprintf(out, "%selse do\n", in)
					in += "  "
					if cur.Else == nil {
						break
					}
					next, ok := cur.Else.(*ast.IfStmt)
					if !ok {
						xfail("final else after branches that end in return")
					}
					cur = next
				}
				t.block(ss[i+1:], in, tail, out)
				return
			}
			if x.Else != nil {
				xfail("if with else")
			}
			cond := t.expr(x.Cond, "bool")
			if containsExit(x.Body.List) {
				xfail("return/continue/break/panic in the middle of an if body")
			}
			st := t.acc(assigned(x.Body.List, map[string]bool{}))
			for _, v := range st {
				t.assignable(v)
			}
			fmt.Fprintf(out, "%slet %s ← (if %s then do\n", ind, stName(st), cond)
			saved, savedLoop := t.save(), t.loop
			t.loop = 1
			t.block(x.Body.List, ind+"    ", "pure "+tuple(st), out)
			t.vars, t.loop = saved, savedLoop
			fmt.Fprintf(out, "%s  else do\n%s    pure %s)\n", ind, ind, tuple(st))
			out.WriteString(unpack(st, ind))
		case *ast.BranchStmt:
			if x.Tok != token.CONTINUE || x.Label != nil || t.loop != 2 || i != len(ss)-1 {
				xfail("%s here", x.Tok)
			}
			fmt.Fprintf(out, "%s%s\n", ind, t.ctlNext)
			return
		case *ast.ReturnStmt:
			if t.loop == 1 {
				xfail("return inside a loop")
			}
			if i != len(ss)-1 {
				xfail("statements after return")
			}
			if resultType[t.fi.lean] == "float64,float64" && len(x.Results) == 2 && t.loop == 0 {
				fmt.Fprintf(out, "%spure (%s, %s)\n", ind, t.expr(x.Results[0], "float64"), t.expr(x.Results[1], "float64"))
				return
			}
			if t.guard && t.fi.ret == "opcentroid" && len(x.Results) == 2 && t.loop == 0 {
				// return geom.Point{X: c.X * kx, Y: c.Y * ky}, err
				if id, ok := x.Results[1].(*ast.Ident); ok && t.vars[id.Name] == "error" {
					if c, kx, ky, ok := t.isUnscale(x.Results[0], token.MUL); ok && strings.HasSuffix(t.self, "_core") {
						fmt.Fprintf(out, "%spure (unscale %s %s %s)\n", ind, kx, ky, c)
						return
					}
					if c, ox, oy, ok := t.isUnscale(x.Results[0], token.ADD); ok && strings.HasSuffix(t.self, "_scaled") {
						fmt.Fprintf(out, "%spure (unshift %s %s %s)\n", ind, ox, oy, c)
						return
					}
				}
				xfail("the guard returns something else than geom.Point{X: c.X * kx, Y: c.Y * ky}, err (range guard) / geom.Point{X: c.X + ox, Y: c.Y + oy}, err (origin guard)")
			}
			if len(x.Results) != 1 {
				xfail("return with %d results", len(x.Results))
			}
			if t.guard {
				// return Point{X: c.X * kx, Y: c.Y * ky} with c the centroid of the rescaled copy
				if c, kx, ky, ok := t.isUnscale(x.Results[0], token.MUL); ok && t.loop == 0 && strings.HasSuffix(t.self, "_core") {
					fmt.Fprintf(out, "%spure (unscale %s %s %s)\n", ind, kx, ky, c)
					return
				}
				if c, ox, oy, ok := t.isUnscale(x.Results[0], token.ADD); ok && t.loop == 0 && strings.HasSuffix(t.self, "_scaled") {
					fmt.Fprintf(out, "%spure (unshift %s %s %s)\n", ind, ox, oy, c)
					return
				}
				xfail("the guard returns something else than Point{X: c.X * kx, Y: c.Y * ky} (range guard) / Point{X: c.X + ox, Y: c.Y + oy} (origin guard)")
			}
			want := resultType[t.fi.lean]
			if got := t.typeOf(x.Results[0]); got != "" && got != want && elemType[got] != elemType[want] {
				xfail("return of a %s where %s is expected", got, want)
			}
			if t.loop == 2 {
				fmt.Fprintf(out, "%spure (Go.Ctl.ret %s)\n", ind, t.expr(x.Results[0], want))
				return
			}
			fmt.Fprintf(out, "%spure %s\n", ind, t.expr(x.Results[0], want))
			return
		case *ast.ExprStmt:
			if n := mutated(x); n != "" {
				c := x.X.(*ast.CallExpr)
				t.assignable(n)
				if isIdent(c.Fun, "copy") {
					// copy(dst, src)
					dt, st := t.typeOf(c.Args[0]), t.typeOf(c.Args[1])
					if elemType[dt] == "" || elemType[dt] != elemType[st] {
						xfail("copy(%s, %s)", dt, st)
					}
					fmt.Fprintf(out, "%slet %s := Go.copy %s %s\n", ind, n, n, t.expr(c.Args[1], ""))
				} else {
					// b.extendPoints(ps) on a *Bounds (bounds.go; the model of property C02)
					if t.vars[n] != "*Bounds" || elemType[t.typeOf(c.Args[0])] != "Point" {
						xfail("extendPoints on a %s", t.vars[n])
					}
					fmt.Fprintf(out, "%slet %s ← Go.extendPoints %s %s\n", ind, n, n, t.expr(c.Args[0], ""))
				}
				continue
			}
			if !isPanic(s) {
				xfail("expression statement")
			}
			if inLoop || i != len(ss)-1 {
				xfail("panic that is not the last statement of a branch")
			}
			fmt.Fprintf(out, "%sthrow Go.Fault.explicitPanic\n", ind)
			return
		default:
			xfail("statement %T", s)
		}
	}
	if tail == "" && t.loop == 2 {
		tail = t.ctlNext
	}
	if tail == "" {
		xfail("function body does not end in return")
	}
	fmt.Fprintf(out, "%s%s\n", ind, tail)
}

// in the centroid pattern the three accumulators are one state variable
func (t *tr) acc(st []string) []string {
	if !t.centroid {
		return st
	}
	var out []string
	seen := false
	for _, v := range st {
		if v == "A" || v == "xA" || v == "yA" {
			if !seen {
				out = append(out, "acc")
				seen = true
			}
			continue
		}
		out = append(out, v)
	}
	return out
}

func (t *tr) assign(x *ast.AssignStmt, ind string, out *strings.Builder) {
	if t.guard && t.fi.ret == "opcentroid" && len(x.Lhs) == 2 && len(x.Rhs) == 1 && x.Tok == token.DEFINE {
		// c, err := Centroid(q) with q a Polygon: the function itself on the rescaled copy, read as the loop below the guard
		// (which returns no error)
		c, ok1 := x.Lhs[0].(*ast.Ident)
		e, ok2 := x.Lhs[1].(*ast.Ident)
		call, ok3 := x.Rhs[0].(*ast.CallExpr)
		if ok1 && ok2 && ok3 && isIdent(call.Fun, t.fi.name) && len(call.Args) == 1 && t.typeOf(call.Args[0]) == "Polygon" && call.Ellipsis == token.NoPos {
			if _, hides := t.vars[c.Name]; hides || c.Name == "_" || e.Name == "_" || c.Name == e.Name {
				xfail("targets of `c, err := %s(q)`", t.fi.name)
			}
			fmt.Fprintf(out, "%slet %s := (← %s %s)\n", ind, c.Name, t.self, t.expr(call.Args[0], ""))
			t.vars[c.Name], t.vars[e.Name] = "centroid", "error"
			return
		}
	}
	if len(x.Lhs) == 2 && len(x.Rhs) == 1 && x.Tok == token.DEFINE && t.typeOf(x.Rhs[0]) == "float64,float64" {
		// a, b := f() with f returning two float64
		a, ok1 := x.Lhs[0].(*ast.Ident)
		b, ok2 := x.Lhs[1].(*ast.Ident)
		if !ok1 || !ok2 || a.Name == "_" || b.Name == "_" || a.Name == b.Name {
			xfail("targets of a two-valued :=")
		}
		for _, n := range []string{a.Name, b.Name} {
			if t.centroid && (n == "A" || n == "xA" || n == "yA" || n == "acc") {
				xfail("redeclaration of %s", n)
			}
		}
		fmt.Fprintf(out, "%slet st__ := %s\n%slet %s := st__.1\n%slet %s := st__.2\n", ind, t.expr(x.Rhs[0], ""), ind, a.Name, ind, b.Name)
		t.vars[a.Name], t.vars[b.Name] = "float64", "float64"
		delete(t.frozen, a.Name)
		delete(t.frozen, b.Name)
		return
	}
	if len(x.Lhs) != len(x.Rhs) {
		xfail("assignment with %d targets and %d values", len(x.Lhs), len(x.Rhs))
	}
	if len(x.Lhs) > 1 {
		if x.Tok != token.DEFINE {
			xfail("parallel assignment")
		}
		for _, r := range x.Rhs {
			if _, ok := r.(*ast.BasicLit); !ok {
				xfail("parallel := of something else than literals")
			}
		}
	}
	for k := range x.Lhs {
		var rhs string
		switch x.Tok {
		case token.DEFINE, token.ASSIGN:
			want := ""
			if x.Tok == token.ASSIGN {
				want = t.typeOf(x.Lhs[k])
			} else if l, ok := x.Rhs[k].(*ast.BasicLit); ok {
				want = "int"
				if l.Kind == token.FLOAT {
					want = "float64"
				}
			}
			rhs = t.expr(x.Rhs[k], want)
		case token.ADD_ASSIGN, token.SUB_ASSIGN, token.MUL_ASSIGN, token.QUO_ASSIGN:
			op := map[token.Token]token.Token{token.ADD_ASSIGN: token.ADD, token.SUB_ASSIGN: token.SUB, token.MUL_ASSIGN: token.MUL, token.QUO_ASSIGN: token.QUO}[x.Tok]
			rhs = t.expr(&ast.BinaryExpr{X: x.Lhs[k], Op: op, Y: x.Rhs[k]}, "")
		default:
			xfail("assignment operator %s", x.Tok)
		}
		switch l := x.Lhs[k].(type) {
		case *ast.Ident:
			if x.Tok == token.DEFINE {
				ty := t.typeOf(x.Rhs[k])
				if l2, ok := x.Rhs[k].(*ast.BasicLit); ok {
					ty = "int"
					if l2.Kind == token.FLOAT {
						ty = "float64"
					}
				}
				if ty == "" {
					xfail("type of %s is not known", l.Name)
				}
				if t.centroid && (l.Name == "A" || l.Name == "xA" || l.Name == "yA" || l.Name == "acc") {
					xfail("redeclaration of %s", l.Name)
				}
				t.vars[l.Name] = ty
				delete(t.frozen, l.Name)
			} else {
				t.assignable(l.Name)
				if lt, rt := t.vars[l.Name], t.typeOf(x.Rhs[k]); rt != "" && lt != rt && x.Tok == token.ASSIGN {
					xfail("assignment of a %s to %s of type %s", rt, l.Name, lt)
				}
			}
			fmt.Fprintf(out, "%slet %s := %s\n", ind, l.Name, rhs)
		case *ast.IndexExpr:
			if x.Tok != token.ASSIGN {
				xfail("op= on an element")
			}
			if inner, ok := l.X.(*ast.IndexExpr); ok {
				a, ok := inner.X.(*ast.Ident)
				if !ok {
					xfail("index assignment deeper than two levels")
				}
				t.assignable(a.Name)
				fmt.Fprintf(out, "%slet %s ← Go.setIdx2 %s %s %s %s\n", ind, a.Name, t.expr(a, ""), t.expr(inner.Index, "int"), t.expr(l.Index, "int"), rhs)
			} else if a, ok := l.X.(*ast.Ident); ok {
				t.assignable(a.Name)
				fmt.Fprintf(out, "%slet %s ← Go.setIdx %s %s %s\n", ind, a.Name, t.expr(a, ""), t.expr(l.Index, "int"), rhs)
			} else {
				xfail("index assignment target")
			}
		default:
			xfail("assignment target %T", l)
		}
	}
}

func (t *tr) rangeStmt(x *ast.RangeStmt, ind string, out *strings.Builder) {
	if x.Tok != token.DEFINE {
		xfail("range without :=")
	}
	xt := t.typeOf(x.X)
	et, ok := elemType[xt]
	if !ok {
		xfail("range over %q", xt)
	}
	xs := t.expr(x.X, "")
	k, v := "_", "_"
	if x.Key != nil {
		k = x.Key.(*ast.Ident).Name
	}
	if x.Value != nil {
		v = x.Value.(*ast.Ident).Name
	}
	st := t.acc(assigned(x.Body.List, map[string]bool{k: true, v: true}))
	for _, n := range st {
		t.assignable(n)
	}
	saved, savedFrozen := t.save(), t.frozen
	t.frozen = map[string]bool{}
	for n := range savedFrozen {
		t.frozen[n] = true
	}
	if k != "_" {
		t.vars[k] = "int"
		t.frozen[k] = true
	}
	if v != "_" {
		t.vars[v] = et
		delete(t.frozen, v)
	}
	savedLoop := t.loop
	t.loop = 1
	fmt.Fprintf(out, "%slet %s ← Go.forRange %s %s (fun %s %s %s => do\n", ind, stName(st), xs, tuple(st), stName(st), k, v)
	out.WriteString(unpack(st, ind+"  "))
	t.block(x.Body.List, ind+"  ", "pure "+tuple(st), out)
	fmt.Fprintf(out, "%s  )\n", ind)
	out.WriteString(unpack(st, ind))
	t.vars, t.frozen, t.loop = saved, savedFrozen, savedLoop
}

// for i, x := range xs { S } where S contains return/continue, followed by the statements `rest`
func (t *tr) rangeRet(x *ast.RangeStmt, ind string, out *strings.Builder, rest []ast.Stmt, tail string) {
	if x.Tok != token.DEFINE {
		xfail("range without :=")
	}
	if t.loop != 0 {
		xfail("a loop with return/continue inside another loop")
	}
	xt := t.typeOf(x.X)
	et, ok := elemType[xt]
	if !ok {
		xfail("range over %q", xt)
	}
	xs := t.expr(x.X, "")
	k, v := "_", "_"
	if x.Key != nil {
		k = x.Key.(*ast.Ident).Name
	}
	if x.Value != nil {
		v = x.Value.(*ast.Ident).Name
	}
	st := t.acc(assigned(x.Body.List, map[string]bool{k: true, v: true}))
	for _, n := range st {
		t.assignable(n)
	}
	saved, savedFrozen := t.save(), t.frozen
	t.frozen = map[string]bool{}
	for n := range savedFrozen {
		t.frozen[n] = true
	}
	if k != "_" {
		t.vars[k] = "int"
		t.frozen[k] = true
	}
	if v != "_" {
		t.vars[v] = et
		delete(t.frozen, v)
	}
	t.loop, t.ctlNext = 2, "pure (Go.Ctl.next "+tuple(st)+")"
	fmt.Fprintf(out, "%slet ctl__ ← Go.forRangeRet %s %s (fun %s %s %s => do\n", ind, xs, tuple(st), stName(st), k, v)
	out.WriteString(unpack(st, ind+"  "))
	t.block(x.Body.List, ind+"  ", "", out)
	fmt.Fprintf(out, "%s  )\n", ind)
	t.vars, t.frozen, t.loop, t.ctlNext = saved, savedFrozen, 0, ""
	fmt.Fprintf(out, "%smatch ctl__ with\n%s| Go.Ctl.ret v__ => pure v__\n%s| Go.Ctl.next %s => do\n", ind, ind, ind, stName(st))
	out.WriteString(unpack(st, ind+"  "))
	t.block(rest, ind+"  ", tail, out)
}

// for i := lo; i < hi; i++ { S }
func (t *tr) forStmt(x *ast.ForStmt, ind string, out *strings.Builder, rest []ast.Stmt, tail string) (consumedRest bool) {
	in, ok := x.Init.(*ast.AssignStmt)
	if !ok || in.Tok != token.DEFINE || len(in.Lhs) != len(in.Rhs) || len(in.Lhs) < 1 || len(in.Lhs) > 2 {
		xfail("for loop whose init is not `i := lo` or `i, n := lo, hi`")
	}
	iv := in.Lhs[0].(*ast.Ident).Name
	lo := t.expr(in.Rhs[0], "int")
	if ty := t.typeOf(in.Rhs[0]); ty != "" && ty != "int" {
		xfail("loop counter of type %s", ty)
	}
	cond, ok := x.Cond.(*ast.BinaryExpr)
	if !ok || cond.Op != token.LSS || !isIdent(cond.X, iv) {
		xfail("for loop whose condition is not `%s < hi`", iv)
	}
	post, ok := x.Post.(*ast.IncDecStmt)
	if !ok || post.Tok != token.INC || !isIdent(post.X, iv) {
		xfail("for loop whose post statement is not `%s++`", iv)
	}
	var hiExpr ast.Expr = cond.Y
	nv := ""
	if len(in.Lhs) == 2 {
		// for i, n := lo, E; i < n; i++: n is evaluated once, before the loop
		nv = in.Lhs[1].(*ast.Ident).Name
		if !isIdent(cond.Y, nv) || nv == iv {
			xfail("for loop `%s, %s := …` whose condition is not `%s < %s`", iv, nv, iv, nv)
		}
		if _, hides := t.vars[nv]; hides {
			xfail("loop variable %s hides a variable", nv)
		}
		if identsOf(in.Rhs[1])[iv] || identsOf(in.Rhs[1])[nv] {
			xfail("loop bound mentions the loop variables")
		}
		if ty := t.typeOf(in.Rhs[1]); ty != "" && ty != "int" {
			xfail("loop bound of type %s", ty)
		}
		hiExpr = in.Rhs[1]
	}
	bound := identsOf(hiExpr)
	if bound[iv] {
		xfail("loop bound mentions the counter")
	}
	hi := t.expr(hiExpr, "int")
	if hasFault(hi) || hasFault(lo) {
		xfail("faulting loop bound (evaluated once per iteration in Go)")
	}
	st := t.acc(assigned(x.Body.List, map[string]bool{}))
	for _, n := range st {
		t.assignable(n)
		if n == iv || n == nv || bound[n] {
			xfail("loop body assigns %s, which the loop header reads", n)
		}
	}
	exits := containsExit(x.Body.List)
	if exits && t.loop != 0 {
		xfail("a loop with return/continue inside another loop")
	}
	saved, savedFrozen := t.save(), t.frozen
	t.frozen = map[string]bool{}
	for n := range savedFrozen {
		t.frozen[n] = true
	}
	for n := range bound {
		t.frozen[n] = true
	}
	t.vars[iv] = "int"
	t.frozen[iv] = true
	if nv != "" {
		fmt.Fprintf(out, "%slet %s := %s\n", ind, nv, hi)
		hi = nv
		t.vars[nv] = "int"
		t.frozen[nv] = true
	}
	savedLoop := t.loop
	if exits {
		// a loop that returns: the statements after it are the `.next` arm
		t.loop, t.ctlNext = 2, "pure (Go.Ctl.next "+tuple(st)+")"
		fmt.Fprintf(out, "%slet ctl__ ← Go.forLtRet %s %s %s (fun %s %s => do\n", ind, lo, hi, tuple(st), stName(st), iv)
		out.WriteString(unpack(st, ind+"  "))
		t.block(x.Body.List, ind+"  ", "", out)
		fmt.Fprintf(out, "%s  )\n", ind)
		t.vars, t.frozen, t.loop, t.ctlNext = saved, savedFrozen, 0, ""
		fmt.Fprintf(out, "%smatch ctl__ with\n%s| Go.Ctl.ret v__ => pure v__\n%s| Go.Ctl.next %s => do\n", ind, ind, ind, stName(st))
		out.WriteString(unpack(st, ind+"  "))
		t.block(rest, ind+"  ", tail, out)
		return true
	}
	t.loop = 1
	fmt.Fprintf(out, "%slet %s ← Go.forLt %s %s %s (fun %s %s => do\n", ind, stName(st), lo, hi, tuple(st), stName(st), iv)
	out.WriteString(unpack(st, ind+"  "))
	t.block(x.Body.List, ind+"  ", "pure "+tuple(st), out)
	fmt.Fprintf(out, "%s  )\n", ind)
	out.WriteString(unpack(st, ind))
	t.vars, t.frozen, t.loop = saved, savedFrozen, savedLoop
	return false
}

func findFunc(f *ast.File, recv, name string) *ast.FuncDecl {
	for _, d := range f.Decls {
		fd, ok := d.(*ast.FuncDecl)
		if !ok || fd.Name.Name != name {
			continue
		}
		r := ""
		if fd.Recv != nil && len(fd.Recv.List) == 1 {
			r = typeName(fd.Recv.List[0].Type)
		}
		if r == recv {
			return fd
		}
	}
	return nil
}

// Go identifiers that are keywords of Lean get an underscore appended
var leanKeywords = map[string]bool{"in": true, "at": true, "from": true, "fun": true, "do": true, "then": true, "end": true, "open": true,
	"show": true, "have": true, "match": true, "with": true, "let": true, "matches": true, "by": true, "where": true, "using": true,
	"calc": true, "theorem": true, "def": true, "instance": true, "class": true, "structure": true, "namespace": true, "section": true,
	"variable": true, "universe": true, "import": true, "mutual": true, "private": true, "protected": true, "partial": true,
	"unsafe": true, "macro": true, "syntax": true, "notation": true, "deriving": true, "extends": true, "forall": true, "exists": true,
	"Type": true, "Prop": true, "Sort": true, "pure": true, "throw": true, "st__": true, "ctl__": true, "v__": true, "acc": true}

func renameKeywords(fd *ast.FuncDecl) {
	used := map[string]bool{}
	ast.Inspect(fd, func(n ast.Node) bool {
		if id, ok := n.(*ast.Ident); ok {
			used[id.Name] = true
		}
		return true
	})
	ast.Inspect(fd, func(n ast.Node) bool {
		if id, ok := n.(*ast.Ident); ok && leanKeywords[id.Name] {
			if used[id.Name+"_"] {
				xfail("identifiers %s and %s_", id.Name, id.Name)
			}
			id.Name += "_"
		}
		return true
	})
}

// op.Centroid: `var A, xA, yA float64` and, in the `case geom.Polygon:` clause of `switch g.(type)`, the last two
// statements (the loop over the rings and `return geom.Point{xA / A, yA / A}, nil`) are the function op_Centroid_core
// of a Polygon g; the statements of the clause before them (the range guard) are not regenerated and may not assign
// the accumulators.
func translateOpCentroid(fi fnInfo, fd *ast.FuncDecl) string {
	t := &tr{fi: fi, vars: map[string]string{}, frozen: map[string]bool{}}
	if fd.Recv != nil || len(fd.Type.Params.List) != 1 || len(fd.Type.Params.List[0].Names) != 1 || typeName(fd.Type.Params.List[0].Type) != "Geom" {
		xfail("parameters")
	}
	g := fd.Type.Params.List[0].Names[0].Name
	if fd.Type.Results == nil || len(fd.Type.Results.List) != 2 || typeName(fd.Type.Results.List[0].Type) != "Point" || typeName(fd.Type.Results.List[1].Type) != "error" {
		xfail("result list")
	}
	var accDecl ast.Stmt
	var sw *ast.TypeSwitchStmt
	for _, s := range fd.Body.List {
		if isAccDecl(s) && sw == nil {
			accDecl = s
		}
		if x, ok := s.(*ast.TypeSwitchStmt); ok {
			if sw != nil {
				xfail("two type switches")
			}
			sw = x
		} else if sw == nil {
			if _, ok := s.(*ast.DeclStmt); !ok {
				xfail("statement %T before the type switch", s)
			}
		}
	}
	if accDecl == nil || sw == nil || sw.Init != nil {
		xfail("no `var A, xA, yA float64` followed by a type switch")
	}
	es, ok := sw.Assign.(*ast.ExprStmt)
	if !ok {
		xfail("type switch that binds a variable")
	}
	if ta, ok := es.X.(*ast.TypeAssertExpr); !ok || ta.Type != nil || !isIdent(ta.X, g) {
		xfail("type switch on something else than %s", g)
	}
	var clause *ast.CaseClause
	for _, c := range sw.Body.List {
		cc := c.(*ast.CaseClause)
		for _, ty := range cc.List {
			if typeName(ty) == "Polygon" {
				if clause != nil || len(cc.List) != 1 {
					xfail("case geom.Polygon is not a clause of its own")
				}
				clause = cc
			}
		}
	}
	if clause == nil || len(clause.Body) < 2 {
		xfail("no case geom.Polygon")
	}
	// every other geometry: exactly one more clause, `default`, compared as text (an error, no value)
	if len(sw.Body.List) != 2 {
		xfail("the type switch has %d clauses, not `case geom.Polygon` and `default`", len(sw.Body.List))
	}
	for _, c := range sw.Body.List {
		if cc := c.(*ast.CaseClause); cc != clause {
			if cc.List != nil || len(cc.Body) != 1 || srcOf(cc.Body[0]) != "return geom.Point{}, newUnsupportedGeometryError("+g+")" {
				xfail("the default clause is not `return geom.Point{}, newUnsupportedGeometryError(%s)`", g)
			}
		}
	}
	n := len(clause.Body)
	for _, v := range assigned(clause.Body[:n-2], map[string]bool{}) {
		if v == "A" || v == "xA" || v == "yA" {
			xfail("the range guard assigns the accumulator %s", v)
		}
	}
	t.vars[g] = "Polygon"
	resultType[fi.lean] = "centroid"
	var body strings.Builder
	t.block([]ast.Stmt{accDecl, clause.Body[n-2], clause.Body[n-1]}, "  ", "", &body)
	core := fmt.Sprintf("/-- %s: %s on a Polygon, below its range guard -/\ndef %s_core (%s : %s) : Go.M %s := do\n%s\n",
		fi.file, fi.name, fi.lean, g, t.leanType("Polygon"), t.leanType("centroid"), body.String())
	// the Polygon case itself: the range guard, then the loop
	if n < 3 || !isOriginGuard(clause.Body[0]) {
		xfail("case geom.Polygon does not begin with an origin guard `if ox, oy := centroidOrigin(…); … { …; return … }`")
	}
	for _, st := range clause.Body[1 : n-2] {
		if isOriginGuard(st) {
			xfail("a second origin guard")
		}
	}
	t2 := &tr{fi: fi, vars: map[string]string{g: "Polygon"}, frozen: map[string]bool{}, guard: true, self: fi.lean + "_core"}
	var full strings.Builder
	t2.block(clause.Body[1:n-2], "  ", "pure (← "+fi.lean+"_core "+g+")", &full)
	t3 := &tr{fi: fi, vars: map[string]string{g: "Polygon"}, frozen: map[string]bool{}, guard: true, self: fi.lean + "_scaled"}
	var top strings.Builder
	t3.block(clause.Body[:1], "  ", "pure (← "+fi.lean+"_scaled "+g+")", &top)
	core = fmt.Sprintf("/-- %s: %s, `default` clause of its type switch (one statement, compared as text: `return geom.Point{}, newUnsupportedGeometryError(%s)`):\nevery geometry that is not a Polygon is answered with an error and no value -/\ndef %s_default_isError : Bool := true\n\n", fi.file, fi.name, g, fi.lean) + core
	return core + fmt.Sprintf("/-- %s: %s on a Polygon below its origin guard: the range guard (its call of itself is the loop below it), then the loop -/\ndef %s_scaled (%s : %s) : Go.M %s := do\n%s\n",
		fi.file, fi.name, fi.lean, g, t.leanType("Polygon"), t.leanType("centroid"), full.String()) + fmt.Sprintf("/-- %s: %s on a Polygon (its call of itself inside the origin guard is the function below that guard) -/\ndef %s (%s : %s) : Go.M %s := do\n%s",
		fi.file, fi.name, fi.lean, g, t.leanType("Polygon"), t.leanType("centroid"), top.String())
}

func srcOf(n ast.Node) string {
	var sb strings.Builder
	printer.Fprint(&sb, token.NewFileSet(), n)
	return sb.String()
}

// distPointToSegment: the range guard
//
//	if m := E; (m >= 0x1p500 || (m <= 0x1p-500 && m > 0)) && !math.IsInf(m, 0) {
//		_, e := math.Frexp(m); k := math.Ldexp(1, e-1); return k * distPointToSegment(A1, A2, A3) }
//
// is the class's `RNum.rescale m` (Model.lean: `some k` with k that power of two when the condition holds), its
// recursive call is the code below the guard (`distPointToSegment_core`): the guard does not fire on the rescaled copy.
func translateDps(fi fnInfo, fd *ast.FuncDecl, t *tr, hdr, params string, paramNames []string) string {
	stmts := fd.Body.List
	gi := -1
	for i, s := range stmts {
		if x, ok := s.(*ast.IfStmt); ok && x.Init != nil {
			gi = i
			break
		}
	}
	if gi < 0 {
		xfail("no range guard `if m := …; … {`")
	}
	g := stmts[gi].(*ast.IfStmt)
	in, ok := g.Init.(*ast.AssignStmt)
	if !ok || in.Tok != token.DEFINE || len(in.Lhs) != 1 || !isIdent(in.Lhs[0], "m") || len(in.Rhs) != 1 || g.Else != nil || len(g.Body.List) != 3 {
		xfail("shape of the range guard")
	}
	if c := srcOf(g.Cond); c != "(m >= 0x1p500 || (m <= 0x1p-500 && m > 0)) && !math.IsInf(m, 0)" {
		xfail("condition of the range guard is %s", c)
	}
	if a, b := srcOf(g.Body.List[0]), srcOf(g.Body.List[1]); a != "_, e := math.Frexp(m)" || b != "k := math.Ldexp(1, e-1)" {
		xfail("the range guard computes its factor by `%s; %s`", a, b)
	}
	ret, ok := g.Body.List[2].(*ast.ReturnStmt)
	if !ok || len(ret.Results) != 1 {
		xfail("the range guard does not end in return")
	}
	mul, ok := ret.Results[0].(*ast.BinaryExpr)
	if !ok || mul.Op != token.MUL || !isIdent(mul.X, "k") {
		xfail("the range guard does not return k * …")
	}
	rec, ok := mul.Y.(*ast.CallExpr)
	if !ok || !isIdent(rec.Fun, fi.name) || len(rec.Args) != 3 {
		xfail("the range guard does not call %s", fi.name)
	}
	for _, n := range []string{"m", "k", "e"} {
		if _, used := t.vars[n]; used {
			xfail("%s is also a parameter", n)
		}
	}
	resultType[fi.lean] = "float64"
	var core, guard strings.Builder
	saved := t.save()
	t.block(append(append([]ast.Stmt{}, stmts[:gi]...), stmts[gi+1:]...), "  ", "", &core)
	t.vars = saved
	// the guard: the statements before it, m, the match
	pre := append(append([]ast.Stmt{}, stmts[:gi]...), &ast.ReturnStmt{Results: []ast.Expr{&ast.BasicLit{Kind: token.INT, Value: "0"}}})
	t.block(pre, "  ", "", &guard)
	gs := guard.String()
	gs = gs[:strings.LastIndex(strings.TrimRight(gs, "\n"), "\n")+1] // drop the placeholder return
	if ty := t.typeOf(in.Rhs[0]); ty != "float64" {
		xfail("m is a %s", ty)
	}
	gs += "  let m := " + t.expr(in.Rhs[0], "float64") + "\n"
	t.vars["k"] = "float64"
	var as []string
	for _, a := range rec.Args {
		if t.typeOf(a) != "Point" {
			xfail("recursive call with a %s", t.typeOf(a))
		}
		as = append(as, t.expr(a, "Point"))
	}
	gs += "  match RNum.rescale m with\n  | some k =>\n    pure (k * (← " + fi.lean + "_core " + strings.Join(as, " ") + "))\n  | none =>\n    pure (← " + fi.lean + "_core " + strings.Join(paramNames, " ") + ")\n"
	return fmt.Sprintf("/-- %s: %s below its range guard -/\ndef %s_core %s%s : Go.M α := do\n%s\n/-- %s: %s (range guard: statement group, see extract.go) -/\ndef %s %s%s : Go.M α := do\n%s",
		fi.file, fi.name, fi.lean, hdr, params, core.String(), fi.file, fi.name, fi.lean, hdr, params, gs)
}

// f(g geom.Geom) float64 { pre; switch g.(type) { case T: S … }; post } for the dynamic type T: pre; S; post with g a T
func translateCase(fi fnInfo, fd *ast.FuncDecl) string {
	T := strings.TrimPrefix(fi.ret, "case:")
	t := &tr{fi: fi, vars: map[string]string{}, frozen: map[string]bool{}}
	if fd.Recv != nil || len(fd.Type.Params.List) != 1 || len(fd.Type.Params.List[0].Names) != 1 || typeName(fd.Type.Params.List[0].Type) != "Geom" {
		xfail("parameters")
	}
	g := fd.Type.Params.List[0].Names[0].Name
	if fd.Type.Results == nil || len(fd.Type.Results.List) != 1 || len(fd.Type.Results.List[0].Names) != 0 || typeName(fd.Type.Results.List[0].Type) != "float64" {
		xfail("result list")
	}
	var stmts []ast.Stmt
	found := false
	for _, s := range fd.Body.List {
		sw, ok := s.(*ast.TypeSwitchStmt)
		if !ok {
			stmts = append(stmts, s)
			continue
		}
		if found || sw.Init != nil {
			xfail("two type switches")
		}
		found = true
		es, ok := sw.Assign.(*ast.ExprStmt)
		if !ok {
			xfail("type switch that binds a variable")
		}
		if ta, ok := es.X.(*ast.TypeAssertExpr); !ok || ta.Type != nil || !isIdent(ta.X, g) {
			xfail("type switch on something else than %s", g)
		}
		var clause *ast.CaseClause
		for _, c := range sw.Body.List {
			cc := c.(*ast.CaseClause)
			if T == "other" && cc.List == nil {
				clause = cc // `default:` — the geometries no case lists
			}
			for _, ty := range cc.List {
				if typeName(ty) == T {
					if clause != nil || len(cc.List) != 1 {
						xfail("case %s is not a clause of its own", T)
					}
					clause = cc
				}
			}
		}
		if clause == nil && T == "other" {
			continue // no `default:` clause: a geometry that no case lists runs the statements around the switch only
		}
		if clause == nil {
			xfail("no case %s", T)
		}
		if containsExit(clause.Body) {
			xfail("return/break/fallthrough in case %s", T)
		}
		stmts = append(stmts, clause.Body...)
	}
	if !found {
		xfail("no type switch")
	}
	t.vars[g] = T
	if T == "other" {
		t.vars[g] = "Geom" // a geometry of a type that no case lists
	}
	resultType[fi.lean] = "float64"
	paramTypes[fi.lean] = []string{T}
	hdr := ""
	if fi.rnum {
		hdr = "{α : Type} [RNum α] "
	}
	note := ""
	if T == "GeometryCollection" {
		t.openRec = true
		hdr += "(self : " + t.leanType("Geom") + " → Go.M " + t.leanType("float64") + ") "
		note = " (its call of itself on a member, whose dynamic type is not known, is the parameter `self`)"
	}
	var body strings.Builder
	t.block(stmts, "  ", "", &body)
	gt := T
	if T == "other" {
		gt = "Geom"
		note = " (a geometry of a type that no case lists: the `default:` clause when there is one, otherwise only the statements around the switch)"
	}
	return fmt.Sprintf("/-- %s: %s, case %s of its type switch%s -/\ndef %s %s(%s : %s) : Go.M %s := do\n%s", fi.file, fi.name, T, note, fi.lean, hdr, g, t.leanType(gt), t.leanType("float64"), body.String())
}

func translate(fi fnInfo, fd *ast.FuncDecl) (text string) {
	renameKeywords(fd)
	if strings.HasPrefix(fi.ret, "case:") {
		return translateCase(fi, fd)
	}
	if fi.ret == "opcentroid" {
		return translateOpCentroid(fi, fd)
	}
	t := &tr{fi: fi, vars: map[string]string{}, frozen: map[string]bool{}}
	var params []string
	recvName := ""
	add := func(n, tn string) {
		t.vars[n] = tn
		params = append(params, "("+n+" : "+t.leanType(tn)+")")
		paramTypes[fi.lean] = append(paramTypes[fi.lean], tn)
	}
	if fd.Recv != nil {
		r := fd.Recv.List[0]
		if len(r.Names) != 1 {
			xfail("unnamed receiver")
		}
		recvName = r.Names[0].Name
		rtn := typeName(r.Type)
		if fi.file == "bounds.go" && rtn == "*Bounds" {
			rtn = "Box"
		}
		add(recvName, rtn)
	}
	for _, p := range fd.Type.Params.List {
		if el, ok := p.Type.(*ast.Ellipsis); ok {
			if fd.Recv != nil || len(fd.Type.Params.List) != 1 || len(p.Names) != 1 {
				xfail("variadic parameter that is not the only one")
			}
			variadic[fi.lean] = true
			add(p.Names[0].Name, "[]"+typeName(el.Elt))
			continue
		}
		for _, n := range p.Names {
			add(n.Name, typeName(p.Type))
		}
	}
	if fd.Type.Results == nil || len(fd.Type.Results.List) != 1 {
		xfail("result list")
	}
	rt := typeName(fd.Type.Results.List[0].Type)
	switch rn := fd.Type.Results.List[0].Names; {
	case len(rn) == 2 && rt == "float64":
		// (kx, ky float64): two results; the named result variables themselves are not translated (their use is refused
		// as an unknown identifier)
		for _, n := range rn {
			if _, clash := t.vars[n.Name]; clash {
				xfail("result %s", n.Name)
			}
		}
		rt = "float64,float64"
	case len(rn) != 0:
		xfail("named results")
	}
	if fi.ret == "axisorigin" {
		// centroidAxisOrigin: one statement group, compared as text; over Rat every value is finite
		want := []string{"if math.IsInf(v, 0) || math.IsNaN(v) {\n\treturn 0\n}", "return v"}
		if len(params) != 1 || t.vars["v"] != "float64" || rt != "float64" || len(fd.Body.List) != len(want) {
			xfail("signature or length of the body")
		}
		for i, w := range want {
			if got := srcOf(fd.Body.List[i]); got != w {
				xfail("statement %d is `%s`", i+1, got)
			}
		}
		resultType[fi.lean] = rt
		return fmt.Sprintf("/-- %s: %s (one statement group, see extract.go: a Rat is finite) -/\ndef %s (v : Rat) : Go.M Rat := do\n  pure v\n", fi.file, fi.name, fi.lean)
	}
	if fi.ret == "axisscale" {
		// centroidAxisScale: one statement group, compared as text; `Frexp`/`Ldexp` over Rat is the model's pow2Floor
		want := []string{"if (m >= 0x1p300 || (m <= 0x1p-300 && m > 0)) && !math.IsInf(m, 0) {\n\t_, e := math.Frexp(m)\n\treturn math.Ldexp(1, e-1)\n}", "return 1"}
		if len(params) != 1 || t.vars["m"] != "float64" || rt != "float64" || len(fd.Body.List) != len(want) {
			xfail("signature or length of the body")
		}
		for i, w := range want {
			if got := srcOf(fd.Body.List[i]); got != w {
				xfail("statement %d is `%s`", i+1, got)
			}
		}
		resultType[fi.lean] = rt
		return fmt.Sprintf("/-- %s: %s (one statement group, see extract.go) -/\ndef %s (m : Rat) : Go.M Rat := do\n  pure (axisScale m)\n", fi.file, fi.name, fi.lean)
	}
	if fi.ret == "optfloat" {
		if rt != "float64" {
			xfail("result type %s", rt)
		}
		rt = "optfloat"
	}
	if fi.ret == "centroid" {
		if rt != "Point" {
			xfail("result type %s", rt)
		}
		rt = "centroid"
	}
	if fi.ret == "dps" {
		if rt != "float64" || !fi.rnum || fd.Recv != nil {
			xfail("result type %s", rt)
		}
		var names []string
		for _, p := range fd.Type.Params.List {
			for _, n := range p.Names {
				names = append(names, n.Name)
			}
		}
		return translateDps(fi, fd, t, "{α : Type} [RNum α] ", strings.Join(params, " "), names)
	}
	resultType[fi.lean] = rt
	hdr := ""
	if fi.rnum {
		hdr = "{α : Type} [RNum α] "
	}
	rn := fi.name
	if fi.recv != "" {
		rn = "(" + fi.recv + ")." + fi.name
	}
	var body strings.Builder
	stmts := fd.Body.List
	if fi.ret == "centroid" {
		// the loops below the range guard are the function `<name>_core`
		if len(stmts) < 2 || !isOriginGuard(stmts[0]) || !isCentroidGuard(stmts[1]) {
			xfail("does not begin with an origin guard `if … := centroidOrigin(…); … { …; return … }` and a range guard `if … := centroidScale(…); … { …; return … }`")
		}
		saved := t.save()
		t.block(stmts[2:], "  ", "", &body)
		core := fmt.Sprintf("/-- %s: %s below its range guard -/\ndef %s_core %s%s : Go.M %s := do\n%s\n", fi.file, rn, fi.lean, hdr, strings.Join(params, " "), t.leanType(rt), body.String())
		// the function itself: the guard, then the loops
		t.vars, t.centroid, t.guard, t.self = saved, false, true, fi.lean+"_core"
		saved = t.save()
		var full strings.Builder
		t.block(stmts[1:2], "  ", "pure (← "+fi.lean+"_core "+recvName+")", &full)
		scaled := fmt.Sprintf("/-- %s: %s below its origin guard: the range guard (its call of itself is the loops below it), then the loops -/\ndef %s_scaled %s%s : Go.M %s := do\n%s\n", fi.file, rn, fi.lean, hdr, strings.Join(params, " "), t.leanType(rt), full.String())
		t.vars, t.self = saved, fi.lean+"_scaled"
		var top strings.Builder
		t.block(stmts[:1], "  ", "pure (← "+fi.lean+"_scaled "+recvName+")", &top)
		return core + scaled + fmt.Sprintf("/-- %s: %s (its call of itself inside the origin guard is the function below that guard) -/\ndef %s %s%s : Go.M %s := do\n%s", fi.file, rn, fi.lean, hdr, strings.Join(params, " "), t.leanType(rt), top.String())
	}
	t.block(stmts, "  ", "", &body)
	return fmt.Sprintf("/-- %s: %s -/\ndef %s %s%s : Go.M %s := do\n%s", fi.file, rn, fi.lean, hdr, strings.Join(params, " "), t.leanType(rt), body.String())
}

const genHeader = `import GeomV.C03.GenLib
/-! GENERATED by ` + "`harness/cmd/c03 extract`" + ` from area.go, multipolygon.go, bounds.go, linestring.go, multilinestring.go,
simplify.go, point.go, op/properties.go of the tree under test.  Do not edit; regenerated by every ` + "`bin/check C03`" + ` run
(checks/C03.py pregen).  Tie lemmas: Ties.lean. -/
set_option linter.unusedVariables false
namespace GeomV.C03.Gen
open GeomV GeomV.C03

`

func extract(repo string) int {
	fset := token.NewFileSet()
	files := map[string]*ast.File{}
	var sb strings.Builder
	sb.WriteString(genHeader)
	rc := 0
	for _, fi := range fns {
		f, ok := files[fi.file]
		if !ok {
			var err error
			f, err = parser.ParseFile(fset, filepath.Join(repo, fi.file), nil, 0)
			if err != nil {
				fmt.Fprintf(os.Stderr, "cannot parse %s: %v\n", fi.file, err)
				return 2
			}
			files[fi.file] = f
		}
		func() {
			defer func() {
				if r := recover(); r != nil {
					e, ok := r.(xerr)
					if !ok {
						panic(r)
					}
					fmt.Fprintf(os.Stderr, "%s %s.%s is outside the translatable subset: %s\n", fi.file, fi.recv, fi.name, e.msg)
					fmt.Fprintf(&sb, "/-- %s %s.%s: outside the translatable subset (%s) -/\ndef %s : Go.M Unit := untranslatable\n\n", fi.file, fi.recv, fi.name, e.msg, fi.lean)
					delete(resultType, fi.lean)
					rc = 3
				}
			}()
			fd := findFunc(f, fi.recv, fi.name)
			if fd == nil {
				xfail("not found")
			}
			sb.WriteString(translate(fi, fd))
			sb.WriteString("\n")
		}()
	}
	sb.WriteString("end GeomV.C03.Gen\n")
	fmt.Print(sb.String())
	return rc
}

func extractMain(args []string) {
	repo := "/repo"
	for i := 0; i+1 < len(args); i++ {
		if args[i] == "--repo" {
			repo = args[i+1]
		}
	}
	os.Exit(extract(repo))
}
