package main

// `opgc` lines: op.Area and op.Length on arbitrary geometries — the GeometryCollection cases of their type
// switches (the functions call themselves on every member), nested collections, and the geometries no case
// lists (points, multi-points, bounds, nil: the zero the functions start from is returned).
//
//	opgc <tag> <geometry>  =>  <op.Area> <op.Length> <err | pt:X:Y>     (float64 bit patterns; the last token is op.Centroid:
//	                                                                    every geometry but a Polygon is its `default` case, an error)
//
// Polygons are valid, wound alternately (the assumption op.Area documents: shell one way, holes the other,
// either common direction), any start vertex, closed or unclosed; line strings have integer coordinates
// (3-4-5 / 5-12-13 steps and random steps).  Own random stream.

import (
	"bufio"
	"fmt"
	"math"

	"github.com/ctessum/geom"
	"github.com/ctessum/geom/op"
	"verif/harness/vproto"
)

func evalGC(line string) string {
	var res string
	pan := vproto.Safe(func() {
		p := vproto.NewParser(line)
		p.Next() // opgc
		p.Next() // tag
		g := p.Geom()
		before := vproto.GeomToks(g)
		a := op.Area(g)
		l := op.Length(g)
		res = vproto.F2H(a) + " " + vproto.F2H(l)
		if c, err := op.Centroid(g); err != nil {
			res += " err"
		} else {
			res += " pt:" + vproto.F2H(c.X) + ":" + vproto.F2H(c.Y)
		}
		if vproto.GeomToks(g) != before {
			res += " modified:op.Area/op.Length/op.Centroid"
		}
	})
	if pan != "" {
		res = "panic " + pan
	}
	return res
}

func gcPolygon(r *vproto.Rng, ox, oy int) geom.Polygon {
	p := basePoly(r, r.Intn(4), ox, oy)
	q := make([]ring, len(p))
	rev := r.Bool() // common direction
	closed := r.Intn(4) != 0
	for j := range p {
		s := spell{rot: r.Intn(len(p[j]) + 1), closed: closed}
		s.rev = ((shoelace2(p[j]) > 0) != (j == 0)) != rev
		q[j] = respell(p[j], s)
	}
	return toPoly(q)
}

func gcLine(r *vproto.Rng) geom.LineString {
	n := r.Range(0, 7)
	if r.Intn(6) == 0 {
		n = r.Range(60, 70)
	}
	steps := [][2]int{{3, 4}, {4, 3}, {-3, 4}, {5, 12}, {12, -5}, {-4, -3}, {0, 7}, {6, 0}, {8, 15}}
	x, y := r.Range(-50, 50), r.Range(-50, 50)
	l := geom.LineString{}
	for i := 0; i < n; i++ {
		l = append(l, pt(x, y))
		if r.Intn(4) == 0 {
			x, y = x+r.Range(-9, 9), y+r.Range(-9, 9)
		} else {
			s := steps[r.Intn(len(steps))]
			x, y = x+s[0], y+s[1]
		}
	}
	return l
}

func gcGeom(r *vproto.Rng, depth int, cell *int) geom.Geom {
	k := r.Intn(12)
	if depth <= 0 && k >= 9 {
		k = r.Intn(9)
	}
	next := func() (int, int) { *cell++; return 200 * (*cell % 7), 200 * (*cell / 7) }
	switch k {
	case 0, 1:
		ox, oy := next()
		return gcPolygon(r, ox, oy)
	case 2:
		mp := geom.MultiPolygon{}
		for i, n := 0, r.Intn(4); i < n; i++ {
			ox, oy := next()
			mp = append(mp, gcPolygon(r, ox, oy))
		}
		return mp
	case 3, 4:
		return gcLine(r)
	case 5:
		ml := geom.MultiLineString{}
		for i, n := 0, r.Intn(4); i < n; i++ {
			ml = append(ml, gcLine(r))
		}
		return ml
	case 6:
		return geom.Point{X: float64(r.Range(-9, 9)), Y: float64(r.Range(-9, 9))}
	case 7:
		return geom.MultiPoint{pt(1, 2), pt(3, 4)}
	case 8:
		if r.Bool() {
			return &geom.Bounds{Min: pt(0, 0), Max: pt(3, 4)}
		}
		return nil
	default:
		gc := geom.GeometryCollection{}
		for i, n := 0, r.Intn(5); i < n; i++ {
			gc = append(gc, gcGeom(r, depth-1, cell))
		}
		return gc
	}
}

func scaleGeom(g geom.Geom, e int) geom.Geom {
	sp := func(ps []geom.Point) []geom.Point {
		o := make([]geom.Point, len(ps))
		for i, p := range ps {
			o[i] = scalePt(p, e)
		}
		return o
	}
	switch t := g.(type) {
	case geom.Point:
		return scalePt(t, e)
	case geom.MultiPoint:
		return geom.MultiPoint(sp(t))
	case geom.LineString:
		return geom.LineString(sp(t))
	case geom.MultiLineString:
		o := make(geom.MultiLineString, len(t))
		for i := range t {
			o[i] = geom.LineString(sp(t[i]))
		}
		return o
	case geom.Polygon:
		o := make(geom.Polygon, len(t))
		for i := range t {
			o[i] = sp(t[i])
		}
		return o
	case geom.MultiPolygon:
		o := make(geom.MultiPolygon, len(t))
		for i := range t {
			o[i] = scaleGeom(t[i], e).(geom.Polygon)
		}
		return o
	case geom.GeometryCollection:
		o := make(geom.GeometryCollection, len(t))
		for i := range t {
			o[i] = scaleGeom(t[i], e)
		}
		return o
	}
	return g
}

func genGC(out *bufio.Writer, seed uint64, tier string) {
	r := vproto.NewRng(seed ^ 0x0c036c6c)
	G := func(g geom.Geom) string { return vproto.GeomToks(g) }
	n := 150
	if tier == "thorough" {
		n = 1200
	}
	big := ring{pt(0, 0), pt(10, 0), pt(10, 10), pt(0, 10), pt(0, 0)}
	hole := ring{pt(4, 4), pt(4, 7), pt(6, 7), pt(6, 4), pt(4, 4)}
	pg := geom.Polygon{geom.Path(big), geom.Path(hole)}
	tri3 := geom.Polygon{{pt(20, 0), pt(24, 0), pt(20, 4), pt(20, 0)}}
	tri3cw := geom.Polygon{{pt(20, 0), pt(20, 4), pt(24, 0), pt(20, 0)}}
	l345 := geom.LineString{pt(0, 0), pt(3, 4), pt(3, 10)}
	for _, g := range []geom.Geom{
		geom.GeometryCollection{}, geom.GeometryCollection{geom.GeometryCollection{}},
		geom.GeometryCollection{pg}, geom.GeometryCollection{pg, tri3}, geom.GeometryCollection{pg, tri3cw}, geom.GeometryCollection{tri3cw, pg, tri3cw},
		geom.GeometryCollection{l345}, geom.GeometryCollection{l345, l345}, geom.GeometryCollection{l345, pg, geom.MultiLineString{l345, l345}},
		geom.GeometryCollection{geom.MultiPolygon{pg, tri3cw}, geom.GeometryCollection{tri3, geom.GeometryCollection{l345, tri3cw}}, geom.Point{X: 1, Y: 1}, nil},
		geom.GeometryCollection{geom.Point{X: 1, Y: 1}, geom.MultiPoint{pt(1, 1)}, &geom.Bounds{Min: pt(0, 0), Max: pt(1, 1)}, nil},
		geom.Point{X: 1, Y: 2}, geom.MultiPoint{}, nil, &geom.Bounds{Min: pt(0, 0), Max: pt(2, 2)}, pg, geom.MultiPolygon{pg, tri3}, l345, geom.MultiLineString{l345},
		geom.GeometryCollection{geom.LineString{}, geom.LineString{pt(1, 1)}, geom.Polygon{}, geom.Polygon{{}}, geom.MultiPolygon{}, geom.MultiLineString{{}}},
	} {
		fmt.Fprintf(out, "opgc g %s\n", G(g))
	}
	for i := 0; i < n; i++ {
		cell := 0
		gc := geom.GeometryCollection{}
		for j, m := 0, r.Range(1, 4); j < m; j++ {
			gc = append(gc, gcGeom(r, 2, &cell))
		}
		var g geom.Geom = gc
		if r.Intn(5) == 0 && len(gc) > 0 {
			g = gc[0]
		}
		fmt.Fprintf(out, "opgc g %s\n", G(g))
		if i%3 == 0 {
			e := []int{-14, -20, -30, 20}[r.Intn(4)]
			fmt.Fprintf(out, "opgc g %s\n", G(scaleGeom(g, e)))
		}
	}
}

// genGuardEdges: line strings whose largest coordinate difference m sits in the windows that the thresholds of
// distPointToSegment's range guard (m >= 2^500, m <= 2^-500) protect with a wide margin: just below the magnitude where
// the squares of the dot products overflow (2^511.5 <= m < 2^512), where they underflow to zero (m < 2^-537) or lose
// their bits to subnormals (2^-537 .. 2^-511), and on either side of the thresholds themselves.  All coordinates are
// small integer multiples of one power of two (exact for the judge).
func genGuardEdges(out *bufio.Writer) {
	G := func(g geom.Geom) string { return vproto.GeomToks(g) }
	for _, c := range [][2]int{{3, 510}, {7, 509}, {13, 508}, {15, 508}, {11, 508}, {3, -539}, {5, -540}, {1, -538}, {7, -530}, {3, -520},
		{3, 498}, {1, 500}, {1, 499}, {3, 499}, {1, -500}, {3, -502}, {1, -499}, {3, -501}} {
		g := math.Ldexp(1, c[1])
		f := float64(c[0]) * g
		l := geom.LineString{{X: 0, Y: 0}, {X: f, Y: g}, {X: f, Y: -2 * g}}
		for _, q := range []geom.Point{{X: g, Y: 2 * g}, {X: f + g, Y: g}, {X: -g, Y: g}, {X: 2 * g, Y: 0}, {X: f - g, Y: -g}, {X: f, Y: -3 * g}} {
			fmt.Fprintf(out, "dist g %s %s %s\n", vproto.F2H(q.X), vproto.F2H(q.Y), G(l))
			fmt.Fprintf(out, "dist g %s %s %s\n", vproto.F2H(q.X), vproto.F2H(q.Y), G(geom.MultiLineString{l[1:], l[:2]}))
		}
		fmt.Fprintf(out, "len g %s\n", G(l))
	}
}

// genExtremes (round h): centroids at the two ends of the float64 range.  Polygons and multi-polygons (holes, any start
// vertex, either direction, closed / unclosed) whose coordinates are small integer multiples of 2^-1074 .. 2^-1060 —
// the WHOLE extent on an axis is subnormal (a power-of-two scale factor of such an axis has no representable
// reciprocal: 1/2^-1025 = +Inf) — on one axis, on both, or on one axis with the other ordinary or huge; the window
// 2^-1034 .. 2^-1016 around the smallest normal number; and the mirror stratum with extents 2^1000 .. 2^1022 (no
// coordinate difference reaches 2^1024).  Only cent / mcent lines: the areas are not representable there.  The judge
// measures against the exact rational centroid with a tolerance relative to the extent, never below one step of the
// subnormal grid (2^-1074).
func genExtremes(out *bufio.Writer, seed uint64, tier string) {
	r := vproto.NewRng(seed ^ 0x0c03e87e)
	G := func(g geom.Geom) string { return vproto.GeomToks(g) }
	spellAll := func(p []ring, closedAll bool) []ring {
		q := make([]ring, len(p))
		for j := range p {
			q[j] = respell(p[j], spell{rev: r.Bool(), rot: rotChoices(len(p[j]))[r.Intn(4)], closed: closedAll || r.Bool()})
		}
		return q
	}
	emit := func(p []ring) {
		fmt.Fprintf(out, "cent f%s %s\nmcent f%s %s\n", lay(r), G(toPoly(p)), lay(r), G(geom.MultiPolygon{toPoly(p)}))
	}
	// ---- fixed corpus ----
	sq4 := ring{pt(0, 0), pt(4, 0), pt(4, 4), pt(0, 4)}
	tr4 := ring{pt(0, 0), pt(4, 0), pt(0, 4)} // centroid 4/3: not on the grid, the best answer is 1 step of 2^-1074 off at most
	big := ring{pt(0, 0), pt(10, 0), pt(10, 10), pt(0, 10)}
	hole := ring{pt(4, 4), pt(6, 4), pt(6, 7), pt(4, 7)}
	for _, e := range []int{-1074, -1073, -1070, -1060, -1030, -1026, -1025, -1024, -1022, 1000, 1013, 1019} {
		for _, o := range [][2]int{{0, 0}, {5, 3}, {-7, 0}, {0, 9}} {
			for _, base := range [][]ring{{sq4}, {tr4}, {big, hole}} {
				if e == 1019 && len(base) == 2 {
					continue
				}
				tb := translateRings(base, float64(o[0]), float64(o[1]))
				for c := 0; c < 4; c++ {
					q := make([]ring, len(tb))
					for j := range tb {
						q[j] = respell(tb[j], spell{rev: (c&1 == 1) != (j > 0), rot: c, closed: c < 3})
					}
					emit(scaleRings(q, e))
				}
			}
		}
		two := geom.MultiPolygon{toPoly(scaleRings([]ring{respell(sq4, spell{closed: true})}, e)),
			toPoly(scaleRings(translateRings([]ring{respell(sq4, spell{closed: true, rev: true, rot: 2})}, 8, 6), e))}
		fmt.Fprintf(out, "mcent f %s\n", G(two))
		// one axis extreme, the other ordinary
		emit(scaleRingsXY([]ring{respell(sq4, spell{closed: true})}, e, 0))
		emit(scaleRingsXY([]ring{respell(big, spell{closed: true}), respell(hole, spell{closed: true, rev: true})}, 0, e))
	}
	// ---- random ----
	n := 45
	if tier == "thorough" {
		n = 600
	}
	subE := func() int { return r.Range(-1074, -1060) }
	edgeE := func() int { return r.Range(-1034, -1023) } // coordinates < 2^7: the largest one falls on either side of 2^-1024
	topE := func() int { return r.Range(993, 1013) }
	for i := 0; i < n; i++ {
		var base []ring
		if i%3 == 0 { // small shapes: multiples 0..15 of the grid step
			for try := 0; try < 50 && base == nil; try++ {
				q := make(ring, r.Range(3, 6))
				tx, ty := r.Range(0, 9), r.Range(0, 9)
				for j := range q {
					q[j] = pt(r.Range(0, 6)+tx, r.Range(0, 6)+ty)
				}
				if simpleRing(q) && shoelace2(q) != 0 {
					base = []ring{q}
				}
			}
			if base == nil {
				base = []ring{sq4}
			}
		} else {
			base = basePoly(r, []int{0, 1, 1, 2, 3}[r.Intn(5)], r.Range(-40, 40), r.Range(-40, 40))
		}
		for _, ex := range [][2]int{{subE(), 0}, {0, subE()}, {subE(), subE()}, {edgeE(), edgeE()}, {topE(), topE()}, {topE(), 0}, {0, topE()}, {subE(), topE()}, {topE(), subE()}} {
			ex := ex
			if r.Intn(3) == 0 && ex[0] != 0 && ex[1] != 0 && (ex[0] < 0) == (ex[1] < 0) {
				ex[1] = ex[0] // isotropic
			}
			emit(scaleRingsXY(spellAll(base, r.Intn(4) != 0), ex[0], ex[1]))
		}
		// multi-polygons: two or three members side by side (coordinates < 2^9)
		if i%2 == 0 {
			for _, e := range []int{subE(), topE() - 1} {
				var mems geom.MultiPolygon
				for k := 0; k < r.Range(2, 3); k++ {
					mems = append(mems, toPoly(scaleRings(spellAll(basePoly(r, r.Range(0, 2), 150*k, r.Range(-40, 40)), r.Intn(4) != 0), e)))
				}
				fmt.Fprintf(out, "mcent f%s %s\n", lay(r), G(mems))
			}
		}
	}
}
