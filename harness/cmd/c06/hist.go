package main

// Phase 4 additions to the C06 harness:
//
//	hist <k> <geom_0> … <geom_{k-1}>   a history on ONE object: the harness builds geom_0, encodes and decodes it, then
//	                                   overwrites the SAME backing arrays with the vertices of geom_1 (in-place edit, a
//	                                   run resliced shorter/longer, the same run seen through another type) and encodes
//	                                   again, …  Every step is judged against the geometry the object holds AT THAT STEP.
//	twins / huge                       generator families (see gen): vertices equal under == but not bit for bit (±0) in
//	                                   one run / one geometry / consecutive calls; runs and member lists around 2^13..2^17.

import (
	"bufio"
	"encoding/hex"
	"errors"
	"fmt"
	"math"
	"strings"

	"github.com/ctessum/geom"
	"github.com/ctessum/geom/encoding/geojson"

	"verif/harness/vproto"
)

// ---- in-place assignment: the new value lives in the storage of the old one wherever it fits

// runsOf lists the leaf runs of points of g in document order.
func runsOf(g geom.Geom) [][]geom.Point {
	var rs [][]geom.Point
	switch t := g.(type) {
	case geom.MultiPoint:
		rs = append(rs, t)
	case geom.LineString:
		rs = append(rs, t)
	case geom.MultiLineString:
		for _, l := range t {
			rs = append(rs, l)
		}
	case geom.Polygon:
		for _, l := range t {
			rs = append(rs, l)
		}
	case geom.MultiPolygon:
		for _, pg := range t {
			for _, l := range pg {
				rs = append(rs, l)
			}
		}
	}
	return rs
}

type pool struct {
	runs [][]geom.Point
	i    int
}

// take returns a slice holding src that reuses the next pooled run's backing array (same first address) when it fits.
func (p *pool) take(src []geom.Point) []geom.Point {
	if p.i < len(p.runs) {
		dst := p.runs[p.i]
		p.i++
		if cap(dst) >= len(src) && len(src) > 0 {
			dst = dst[:len(src)]
			copy(dst, src)
			return dst
		}
	}
	return append([]geom.Point(nil), src...)
}

// assign builds the value of `next` inside the storage of `cur`: leaf runs are reused across types (a LineString's run
// may come back as a MultiPoint or as a ring), outer slices are reused when the concrete type stays the same.
func assign(cur, next geom.Geom) geom.Geom {
	p := &pool{runs: runsOf(cur)}
	switch n := next.(type) {
	case geom.MultiPoint:
		return geom.MultiPoint(p.take(n))
	case geom.LineString:
		return geom.LineString(p.take(n))
	case geom.MultiLineString:
		out := make(geom.MultiLineString, len(n))
		if c, ok := cur.(geom.MultiLineString); ok && cap(c) >= len(n) {
			out = c[:len(n)]
		}
		for i, l := range n {
			out[i] = geom.LineString(p.take(l))
		}
		return out
	case geom.Polygon:
		out := make(geom.Polygon, len(n))
		if c, ok := cur.(geom.Polygon); ok && cap(c) >= len(n) {
			out = c[:len(n)]
		}
		for i, l := range n {
			out[i] = geom.Path(p.take(l))
		}
		return out
	case geom.MultiPolygon:
		out := make(geom.MultiPolygon, len(n))
		var c geom.MultiPolygon
		if cc, ok := cur.(geom.MultiPolygon); ok && cap(cc) >= len(n) {
			out, c = cc[:len(n)], cc[:len(n)]
		}
		for i, pg := range n {
			o := make(geom.Polygon, len(pg))
			if c != nil && cap(c[i]) >= len(pg) {
				o = c[i][:len(pg)]
			}
			for j, l := range pg {
				o[j] = geom.Path(p.take(l))
			}
			out[i] = o
		}
		return out
	}
	return next
}

// implHist runs one `hist` line.
func implHist(p *vproto.Parser) string {
	k := p.Int()
	var b strings.Builder
	var cur geom.Geom
	doc := make([]byte, 0, 1<<16)
	for i := 0; i < k; i++ {
		next := p.Geom()
		if i == 0 {
			cur = next
		} else {
			cur = assign(cur, next)
			b.WriteString(" ; ")
		}
		want := vproto.GeomToks(next)
		if got := vproto.GeomToks(cur); got != want { // the harness's own in-place edit went wrong
			return "harness-assign-broken " + got
		}
		buf, err := geojson.Encode(cur)
		if vproto.GeomToks(cur) != want {
			b.WriteString("argument-modified")
			continue
		}
		if err != nil {
			b.WriteString("err " + errKind(err))
			continue
		}
		// the document is handed to Decode in ONE buffer that is overwritten from step to step (same address, new
		// content: the in-place edit seen from the decoder's side); Decode must not change it
		doc = append(doc[:0], buf...)
		res := result(geojson.Decode(doc))
		if string(doc) != string(buf) {
			b.WriteString("argument-modified")
			continue
		}
		b.WriteString("ok x" + hex.EncodeToString(buf) + " | " + res)
	}
	return b.String()
}

// errText: the text of the two geojson error types (geojson.go's Error methods), anything else by kind
func errText(err error) string {
	if err == nil {
		return "noerr"
	}
	var ug *geojson.UnsupportedGeometryError
	var ig *geojson.InvalidGeometryError
	if errors.As(err, &ug) || errors.As(err, &ig) {
		return "geojson " + hexs(err.Error())
	}
	return "other " + errKind(err)
}

// ---- generator families

func negz() float64 { return math.Copysign(0, -1) }

// twinGeoms: vertices that are equal under Go's == (and as map keys) but differ bit for bit — the two zeros — placed
// in one run (adjacent / apart / as closing vertex, either order), in different runs and in different members of one
// geometry.  A table, memo or de-duplication keyed on float equality confuses them; bit-exact code does not.
func twinGeoms(r *vproto.Rng) []geom.Geom {
	P := func(x, y float64) geom.Point { return geom.Point{X: x, Y: y} }
	z, nz := 0.0, negz()
	var out []geom.Geom
	pairs := [][2]geom.Point{}
	v := coord(r, false)
	w := float64(r.Range(-9, 9))
	for _, o := range []float64{v, w, 5} {
		pairs = append(pairs, [2]geom.Point{P(z, o), P(nz, o)}, [2]geom.Point{P(o, z), P(o, nz)})
	}
	pairs = append(pairs, [2]geom.Point{P(z, z), P(nz, nz)}, [2]geom.Point{P(z, nz), P(nz, z)}, [2]geom.Point{P(z, z), P(z, nz)}, [2]geom.Point{P(nz, z), P(z, z)})
	o, q := P(3, nz), P(7, 8)
	for i, pr := range pairs {
		a, c := pr[0], pr[1]
		if (i+r.Intn(2))%2 == 1 { // whichever comes first in the run "wins" in an interning table
			a, c = c, a
		}
		out = append(out,
			geom.LineString{a, c}, geom.MultiPoint{a, o, c}, geom.LineString{a, o, q, c, a}, geom.MultiPoint{q, a, a, c, c, a},
			geom.Polygon{{a, o, q, c, a}}, geom.Polygon{{a, q, o, a}, {c, q, o, c}}, geom.Polygon{{q, o, q}, {a, o, c, a}},
			geom.MultiLineString{{a, q}, {c, q}}, geom.MultiLineString{{q}, {}, {o, a, c}},
			geom.MultiPolygon{{{a, o, q, a}}, {{c, o, q, c}}}, geom.MultiPolygon{{{q, o, q}, {a, c, a}}}, geom.MultiPolygon{{{a}}, {}, {{q}, {c}}})
	}
	return out
}

// hugeRun: a geometry of type k (1..5) with n members at nesting level `level` and one member elsewhere; ordinates are
// small whole numbers so that the text stays short.
func hugeRun(r *vproto.Rng, k, level, n int) geom.Geom {
	cnt := func(l int) int {
		if l == level {
			return n
		}
		return 1
	}
	pts := func(l int) []geom.Point {
		p := make([]geom.Point, cnt(l))
		for i := range p {
			p[i] = geom.Point{X: float64(i % 1000), Y: float64(r.Range(-9, 9))}
		}
		if len(p) > 0 {
			p[len(p)-1].Y = coord(r, false) // the last vertex of the run is a "real" value
		}
		return p
	}
	ptss := func(l int) []geom.Path {
		p := make([]geom.Path, cnt(l))
		for i := range p {
			p[i] = pts(l + 1)
		}
		return p
	}
	switch k {
	case 1:
		return geom.MultiPoint(pts(0))
	case 2:
		return geom.LineString(pts(0))
	case 3:
		m := make(geom.MultiLineString, cnt(0))
		for i := range m {
			m[i] = pts(1)
		}
		return m
	case 4:
		return geom.Polygon(ptss(0))
	default:
		m := make(geom.MultiPolygon, cnt(0))
		for i := range m {
			m[i] = ptss(1)
		}
		return m
	}
}

// later puts `run` as a LATER member (not the first) of a geometry of type k (3: MultiLineString, 4: Polygon, 5: MultiPolygon)
func later(k int, run []geom.Point) geom.Geom {
	s := []geom.Point{{X: 1, Y: 2}}
	switch k {
	case 3:
		return geom.MultiLineString{s, run}
	case 4:
		return geom.Polygon{s, run}
	default:
		return geom.MultiPolygon{{s}, {s, run}}
	}
}

func clonePts(p []geom.Point) []geom.Point { return append([]geom.Point(nil), p...) }

// cloneGeom: a deep copy of one of the six types (others returned as they are)
func cloneGeom(g geom.Geom) geom.Geom { return vproto.NewParser(vproto.GeomToks(g)).Geom() }

// editGeom derives the next state of a history from g (a deep copy is edited; the harness writes it over the old storage).
func editGeom(r *vproto.Rng, g geom.Geom, kind int) geom.Geom {
	n := cloneGeom(g)
	runs := runsOf(n)
	var nonEmpty []int
	for i, run := range runs {
		if len(run) > 0 {
			nonEmpty = append(nonEmpty, i)
		}
	}
	flip := func(x float64) float64 {
		if x == 0 {
			return -x // +0 <-> -0 (math: -(+0) = -0)
		}
		return x
	}
	switch kind {
	case 0: // nothing changes: the same object encoded twice
		return n
	case 1: // ONE vertex of one run changes in place (same address, same length, same neighbours)
		if len(nonEmpty) > 0 {
			run := runs[nonEmpty[r.Intn(len(nonEmpty))]]
			j := r.Intn(len(run))
			if r.Bool() {
				run[j].X = coord(r, false)
			} else {
				run[j].Y = coord(r, false)
			}
		}
		return n
	case 2: // every vertex changes (an in-place transform)
		for _, run := range runs {
			for j := range run {
				run[j] = geom.Point{X: run[j].X + 1, Y: coord(r, false)}
			}
		}
		return n
	case 3: // the zeros change sign, everything else stays (== cannot see the edit)
		for _, run := range runs {
			for j := range run {
				run[j] = geom.Point{X: flip(run[j].X), Y: flip(run[j].Y)}
			}
		}
		return n
	case 4: // one run gets shorter by one vertex / longer by one (same first address)
		if len(nonEmpty) > 0 {
			i := nonEmpty[r.Intn(len(nonEmpty))]
			run := runs[i]
			var nr []geom.Point
			if len(run) > 1 && r.Bool() {
				nr = clonePts(run[:len(run)-1])
			} else {
				nr = append(clonePts(run), geom.Point{X: coord(r, false), Y: 1})
			}
			return withRun(n, i, nr)
		}
		return n
	case 5: // the same runs seen through another type
		switch t := n.(type) {
		case geom.LineString:
			return geom.MultiPoint(t)
		case geom.MultiPoint:
			return geom.LineString(t)
		case geom.Polygon:
			m := make(geom.MultiLineString, len(t))
			for i := range t {
				m[i] = geom.LineString(t[i])
			}
			return m
		case geom.MultiLineString:
			m := make(geom.Polygon, len(t))
			for i := range t {
				m[i] = geom.Path(t[i])
			}
			return m
		case geom.MultiPolygon:
			if len(t) > 0 {
				return t[0]
			}
		}
		return n
	case 7: // two vertices of a run trade places, or one vertex trades X and Y: the text keeps its length and its characters
		if len(nonEmpty) > 0 {
			run := runs[nonEmpty[r.Intn(len(nonEmpty))]]
			a, b := r.Intn(len(run)), r.Intn(len(run))
			if a == b {
				run[a].X, run[a].Y = run[a].Y, run[a].X
			} else {
				run[a], run[b] = run[b], run[a]
			}
		}
		return n
	default: // one non-finite ordinate appears (Encode must fail now, and work again at the next step)
		if len(nonEmpty) > 0 {
			run := runs[nonEmpty[r.Intn(len(nonEmpty))]]
			run[r.Intn(len(run))].Y = []float64{math.NaN(), math.Inf(1), math.Inf(-1)}[r.Intn(3)]
		}
		return n
	}
}

// withRun replaces leaf run i of g
func withRun(g geom.Geom, i int, nr []geom.Point) geom.Geom {
	switch t := g.(type) {
	case geom.MultiPoint:
		return geom.MultiPoint(nr)
	case geom.LineString:
		return geom.LineString(nr)
	case geom.MultiLineString:
		t[i] = nr
	case geom.Polygon:
		t[i] = nr
	case geom.MultiPolygon:
		for a := range t {
			for b := range t[a] {
				if i == 0 {
					t[a][b] = nr
					return t
				}
				i--
			}
		}
	}
	return g
}

func genPhase4(out *bufio.Writer, r *vproto.Rng, tier string, emit func(geom.Geom)) {
	// ±0 twins in one run / one geometry
	reps := 1
	if tier == "thorough" {
		reps = 12
	}
	for i := 0; i < reps; i++ {
		for _, g := range twinGeoms(r) {
			emit(g)
		}
	}
	// histories on one object
	nh := 80
	if tier == "thorough" {
		nh = 2000
	}
	for i := 0; i < nh; i++ {
		var g geom.Geom
		switch {
		case i%8 == 7:
			tw := twinGeoms(r)
			g = tw[r.Intn(len(tw))]
		case i%8 == 6:
			g = edgeGeoms(edges[r.Intn(len(edges))], r.Intn(2))[4+r.Intn(10)]
		case i%16 == 5:
			g = wide(r, 1+r.Intn(5), 0, []int{65, 129}[r.Intn(2)])
		default:
			g = cfg{laterEmpty: i%2 == 0}.geom(r, 1+r.Intn(5))
		}
		k := r.Range(2, 5)
		fmt.Fprintf(out, "hist %d %s", k, vproto.GeomToks(g))
		for j := 1; j < k; j++ {
			kind := []int{1, 1, 1, 0, 2, 3, 4, 5, 6, 7, 7}[r.Intn(11)]
			if j == 1 && i%4 == 0 {
				kind = 1 // the plainest history first: Encode, edit one vertex, Encode
			}
			g = editGeom(r, g, kind)
			fmt.Fprintf(out, " %s", vproto.GeomToks(g))
		}
		fmt.Fprintln(out)
	}
	// the error VALUES (geojson.go): emsg = text of Encode's error, dmsg = text of FromGeoJSON's error
	ne := 60
	if tier == "thorough" {
		ne = 600
	}
	fmt.Fprintln(out, "emsg NIL")
	for i := 0; i < ne; i++ {
		var g geom.Geom
		switch i % 3 {
		case 0:
			g = cfg{}.geom(r, 6+r.Intn(2))
		case 1:
			g = cfg{nonFinite: true}.geom(r, r.Intn(6))
		default:
			g = cfg{laterEmpty: true, firstEmpty: true}.geom(r, r.Intn(6))
		}
		fmt.Fprintf(out, "emsg %s\n", vproto.GeomToks(g))
	}
	names := []string{"Feature", "FeatureCollection", "GeometryCollection", "point", "", "Point ", " Point", "multipoint", "POLYGON", "Polygon\x00", "Ünknown type", "Line String"}
	for i := 0; i < 3*ne; i++ {
		base := cfg{laterEmpty: true, firstEmpty: r.Intn(4) == 0}.geom(r, r.Intn(6))
		ty, c, d := coordsNode(base)
		if r.Intn(2) == 0 {
			c = mutate(r, c, d)
		}
		switch r.Intn(4) {
		case 0:
			ty = names[r.Intn(len(names))]
		case 1:
			ty = []string{"Point", "MultiPoint", "LineString", "MultiLineString", "Polygon", "MultiPolygon"}[r.Intn(6)]
		}
		var tb strings.Builder
		c.toks(&tb)
		fmt.Fprintf(out, "dmsg %s%s\n", hexs(ty), tb.String())
	}
	// member counts around powers of two beyond the `wide` family (2^13 … 2^17): runs of positions and outer member
	// lists, in the first member and in a later one.  rt lines only (the text of such a geometry is megabytes).
	type hc struct{ k, level, n int }
	depth := map[int]int{1: 1, 2: 1, 3: 2, 4: 2, 5: 3}
	var cases []hc
	for k := 1; k <= 5; k++ {
		for level := 0; level < depth[k]; level++ { // every nesting level of every type: 2^16+1 members
			cases = append(cases, hc{k, level, 1<<16 + 1})
		}
	}
	sizes := []int{1 << 16, 1<<16 - 1, 1<<17 + 1, 1<<15 + 1, 1<<14 + 1, 1<<13 + 1, 1<<16 + 2, 100003}
	extra := 4
	if tier == "thorough" {
		extra = 24
	}
	for i := 0; i < extra; i++ {
		k := 1 + r.Intn(5)
		cases = append(cases, hc{k, r.Intn(depth[k]), sizes[(i+r.Intn(len(sizes)))%len(sizes)]})
	}
	for _, c := range cases {
		fmt.Fprintf(out, "rt %s\n", vproto.GeomToks(hugeRun(r, c.k, c.level, c.n)))
	}
	for k := 3; k <= 5; k++ { // a LATER member with a long run
		run := hugeRun(r, 2, 0, 1<<16+1+r.Intn(3)).(geom.LineString)
		fmt.Fprintf(out, "rt %s\n", vproto.GeomToks(later(k, run)))
	}
}
