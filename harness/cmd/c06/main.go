// Harness for C06 (GeoJSON round trip). Subcommands:
//
//	gen --seed S --tier T   write case lines (inputs only)
//	impl                    read case lines, call the real code, append " => result"
//
// Lines (see lean/GeomV/C06/Main.lean):
//
//	tog <geom>               ToGeoJSON(g): type and the typed nested float slices
//	enc <geom>               Encode(g): the JSON bytes
//	rt <geom>                Decode(Encode(g))
//	dec x<hex>               Decode of a well-formed JSON document written by the generator
//	fromt <type> <tree>      FromGeoJSON(&Geometry{Type, Coordinates: generic tree})
package main

import (
	"bufio"
	"encoding/hex"
	"encoding/json"
	"errors"
	"fmt"
	"math"
	"os"
	"runtime"
	"strconv"
	"strings"
	"sync"
	"sync/atomic"
	"time"

	"github.com/ctessum/geom"
	"github.com/ctessum/geom/encoding/geojson"

	"verif/harness/vproto"
)

var specials = []float64{
	0, math.Copysign(0, -1), 1, -1, 0.1, 0.5, -2.5, 1e21, 1e20, 9.999999999999999e20, 1.0000000000000001e21, 123456789012345680000, 1e22, 1e23,
	1e-6, 1e-7, 0.000001, 9.999999999999999e-7, 0.0000010000000000000002, 1e-5, 1.5e-7, 1e-10,
	5e-324, 2.2250738585072014e-308, 2.225073858507201e-308, math.MaxFloat64, -math.MaxFloat64,
	0.30000000000000004, 1.0 / 3, 2.0 / 3, 100, 1e15, 1e16, 1e17, 9007199254740993, 9007199254740992, 18014398509481984, 123456.789,
	1e300, -1e300, 1e-300, 8.41e21, 12345678901234567890, 1e100, 3.141592653589793, 179.99999999999997, 4503599627370496.5,
}

// edges: ordinates at exact powers of two and at the integer-conversion / formatter-switch edges (int32, uint32,
// int64, uint64, 2^53, powers of ten that are exact doubles, largest/smallest finite, subnormals, many-digit integers).
// A code path that sends "whole" ordinates through an integer type, a narrower float, or a different formatter
// differs from the float64 path exactly at such values (e.g. float64(math.MaxInt64) == 2^63 overflows int64).
var edges = func() []float64 {
	var e []float64
	add := func(v float64) {
		up, dn := math.Nextafter(v, math.Inf(1)), math.Nextafter(v, math.Inf(-1))
		for _, x := range []float64{v, up, dn, v + 1, v - 1, v + 0.5, v - 0.5} {
			if !math.IsInf(x, 0) {
				e = append(e, x, -x)
			}
		}
	}
	for _, k := range []int{7, 8, 15, 16, 23, 24, 31, 32, 52, 53, 54, 62, 63, 64, 65, 100, 127, 128, 1023} {
		add(math.Ldexp(1, k))
	}
	for _, k := range []int{-1, -24, -126, -149, -1021, -1022, -1023, -1073, -1074} {
		v := math.Ldexp(1, k)
		e = append(e, v, -v, math.Nextafter(v, 1), -math.Nextafter(v, 1), math.Nextafter(v, 0), -math.Nextafter(v, 0))
	}
	for k := 0; k <= 23; k++ { // 10^k: exact doubles up to 1e22; encoding/json changes notation at 1e21
		add(math.Pow(10, float64(k)))
	}
	e = append(e, math.MaxFloat64, -math.MaxFloat64, math.MaxFloat32, -math.MaxFloat32, math.SmallestNonzeroFloat64, -math.SmallestNonzeroFloat64,
		math.SmallestNonzeroFloat32, 0x1p-1022, 0x0.fffffffffffffp-1022, math.Copysign(0, -1), 0,
		float64(math.MaxInt64), float64(math.MinInt64), float64(math.MaxUint64), float64(math.MaxInt32), float64(math.MinInt32), float64(math.MaxUint32),
		9223372036854774784, 9223372036854777856, 18446744073709549568, 18446744073709555712, // float neighbours of 2^63, 2^64
		123456789012345678, 999999999999999983222784, 987654321098765432109, 100000000000000000000, 999999999999999868928, // many digits, < and > 1e21
		1e19, -1e19, 1.8446744073709552e19, 4294967295.5, 2147483647.5, -2147483648.5, 1e308, 1.7976931348623155e308)
	return e
}()

func coord(r *vproto.Rng, nonFinite bool) float64 {
	switch r.Intn(18) {
	case 16:
		return edges[r.Intn(len(edges))]
	case 17:
		// +-2^k and its float neighbours, any k of the finite range
		f := math.Ldexp(1, r.Range(-1074, 1023))
		switch r.Intn(4) {
		case 0:
			f = math.Nextafter(f, math.Inf(1))
		case 1:
			f = math.Nextafter(f, 0)
		}
		if r.Bool() {
			f = -f
		}
		return f
	case 0:
		for {
			f := math.Float64frombits(r.U64())
			if !math.IsNaN(f) && !math.IsInf(f, 0) {
				return f
			}
		}
	case 1:
		return math.Float64frombits(r.U64() & 0x000fffffffffffff) // subnormal
	case 2:
		return math.Copysign(0, -1)
	case 3, 4:
		return specials[r.Intn(len(specials))]
	case 5:
		// around encoding/json's exponent-notation boundaries 1e21 and 1e-6
		f := []float64{1e21, 1e-6, 1e-7, 1e20}[r.Intn(4)]
		for i := r.Intn(4); i > 0; i-- {
			if r.Bool() {
				f = math.Nextafter(f, math.Inf(1))
			} else {
				f = math.Nextafter(f, 0)
			}
		}
		if r.Bool() {
			f = -f
		}
		return f
	case 6:
		return float64(r.Range(-1000, 1000))
	case 7:
		return (r.Float() + 0.1) * math.Pow(10, float64(r.Range(-8, 22))) // 17 significant digits
	case 8:
		return math.Ldexp(float64(r.U64()>>11)+0.5, r.Range(-1074, 960))
	case 9:
		if nonFinite {
			return []float64{math.NaN(), math.Inf(1), math.Inf(-1)}[r.Intn(3)]
		}
		return float64(r.Range(-180, 180)) + r.Float()
	case 10:
		return float64(int64(1)<<53 + int64(r.Intn(1000))) // integers above 2^53
	default:
		return (r.Float() - 0.5) * math.Pow(10, float64(r.Range(-5, 12)))
	}
}

type cfg struct {
	firstEmpty bool // first member (at some level) empty
	laterEmpty bool // later members may be empty
	nonFinite  bool
}

func (c cfg) count(r *vproto.Rng, first bool) int {
	if first && c.firstEmpty && r.Intn(2) == 0 {
		return 0
	}
	if !first && c.laterEmpty && r.Intn(3) == 0 {
		return 0
	}
	return []int{1, 1, 2, 2, 3, 5}[r.Intn(6)]
}

func (c cfg) pts(r *vproto.Rng, first bool) []geom.Point {
	n := c.count(r, first)
	if r.Intn(200) == 0 {
		n = 120
	}
	p := make([]geom.Point, n)
	nf := -1
	if c.nonFinite && n > 0 {
		nf = r.Intn(n)
	}
	for i := range p {
		p[i] = geom.Point{X: coord(r, false), Y: coord(r, false)}
		if i == nf {
			nfv := []float64{math.NaN(), math.Inf(1), math.Inf(-1), math.Float64frombits(0x7ff0000000000001 | r.U64()&0x800fffffffffffff)}[r.Intn(4)]
			if r.Bool() {
				p[i].X = nfv
			} else {
				p[i].Y = nfv
			}
		}
	}
	return p
}

func (c cfg) ptss(r *vproto.Rng, first bool) []geom.Path {
	n := c.count(r, first)
	p := make([]geom.Path, n)
	for i := range p {
		p[i] = c.pts(r, first && i == 0)
	}
	return p
}

func (c cfg) geom(r *vproto.Rng, k int) geom.Geom {
	switch k {
	case 0:
		p := geom.Point{X: coord(r, false), Y: coord(r, false)}
		if c.nonFinite {
			p.Y = []float64{math.NaN(), math.Inf(1), math.Inf(-1)}[r.Intn(3)]
		}
		return p
	case 1:
		return geom.MultiPoint(c.pts(r, true))
	case 2:
		return geom.LineString(c.pts(r, true))
	case 3:
		n := c.count(r, true)
		m := make(geom.MultiLineString, n)
		for i := range m {
			m[i] = c.pts(r, i == 0)
		}
		return m
	case 4:
		return geom.Polygon(c.ptss(r, true))
	case 5:
		n := c.count(r, true)
		m := make(geom.MultiPolygon, n)
		for i := range m {
			m[i] = c.ptss(r, i == 0)
		}
		return m
	case 6:
		n := r.Range(0, 3)
		m := make(geom.GeometryCollection, n)
		for i := range m {
			m[i] = c.geom(r, r.Intn(6))
		}
		return m
	default:
		return &geom.Bounds{Min: geom.Point{X: coord(r, false), Y: coord(r, false)}, Max: geom.Point{X: coord(r, false), Y: coord(r, false)}}
	}
}

// wide builds a geometry of type k in which exactly one nesting level has w members (all others 1..2),
// so that limits or truncations at any level show up without blowing up the total size
func wide(r *vproto.Rng, k, level, w int) geom.Geom {
	cnt := func(l int) int {
		if l == level {
			return w
		}
		if w > 2000 { // keep the text (and the judge's parse) small: the other levels have one member
			return 1
		}
		return r.Range(1, 2)
	}
	pts := func(l int) []geom.Point {
		p := make([]geom.Point, cnt(l))
		for i := range p {
			p[i] = geom.Point{X: coord(r, false), Y: float64(i)}
		}
		return p
	}
	ptss := func(l int) []geom.Path {
		p := make([]geom.Path, cnt(l))
		for i := range p {
			p[i] = pts(l + 1)
		}
		return p
	}
	switch k {
	case 1:
		return geom.MultiPoint(pts(0))
	case 2:
		return geom.LineString(pts(0))
	case 3:
		m := make(geom.MultiLineString, cnt(0))
		for i := range m {
			m[i] = pts(1)
		}
		return m
	case 4:
		return geom.Polygon(ptss(0))
	default:
		m := make(geom.MultiPolygon, cnt(0))
		for i := range m {
			m[i] = ptss(1)
		}
		return m
	}
}

// edgeGeoms puts the ordinate v into every type at every kind of position (X / Y; first / later position;
// first / later member at each nesting level); all other ordinates are small integers
func edgeGeoms(v float64, i int) []geom.Geom {
	P := func(x, y float64) geom.Point { return geom.Point{X: x, Y: y} }
	a, b := P(v, 1), P(2, v) // v as X, v as Y
	if i%2 == 1 {
		a, b = P(3, v), P(v, 4)
	}
	o, q := P(5, 6), P(7, 8)
	return []geom.Geom{
		a, b, P(v, v), P(v, -v),
		geom.MultiPoint{a, o, b}, geom.MultiPoint{o, q, a}, geom.LineString{b, o}, geom.LineString{o, a, q, b},
		geom.MultiLineString{{a, o}, {q, b}}, geom.MultiLineString{{o}, {}, {q, o, a}},
		geom.Polygon{{a, o, q, a}, {o, b, q, o}}, geom.Polygon{{o, q, o}, {q, o, b, q}, {}},
		geom.MultiPolygon{{{a, o, q, a}}, {{o, q, o}, {q, b, o, q}}}, geom.MultiPolygon{{{o, q, b}, {a}}, {}, {{o}, {q, a}}},
	}
}

// ---- generic JSON documents written by the generator (for dec / fromt lines)

type node struct {
	kind byte // 'N' null, 'T'/'F' bool, 'D' number, 'S' string, 'A' array, 'O' object
	f    float64
	s    string
	arr  []*node
	keys []string
	raw  []string // optional raw JSON spelling of each key (with escapes), same length as keys
	num  string   // optional raw JSON spelling of the number
}

func num(f float64) *node       { return &node{kind: 'D', f: f} }
func str(s string) *node        { return &node{kind: 'S', s: s} }
func arr(xs ...*node) *node     { return &node{kind: 'A', arr: xs} }
func null() *node               { return &node{kind: 'N'} }
func position(p geom.Point) *node { return arr(num(p.X), num(p.Y)) }
func positions(ps []geom.Point) *node {
	a := arr()
	for _, p := range ps {
		a.arr = append(a.arr, position(p))
	}
	return a
}

func coordsNode(g geom.Geom) (string, *node, int) {
	switch t := g.(type) {
	case geom.Point:
		return "Point", position(t), 1
	case geom.MultiPoint:
		return "MultiPoint", positions(t), 2
	case geom.LineString:
		return "LineString", positions(t), 2
	case geom.MultiLineString:
		a := arr()
		for _, l := range t {
			a.arr = append(a.arr, positions(l))
		}
		return "MultiLineString", a, 3
	case geom.Polygon:
		a := arr()
		for _, l := range t {
			a.arr = append(a.arr, positions(l))
		}
		return "Polygon", a, 3
	case geom.MultiPolygon:
		a := arr()
		for _, pg := range t {
			b := arr()
			for _, l := range pg {
				b.arr = append(b.arr, positions(l))
			}
			a.arr = append(a.arr, b)
		}
		return "MultiPolygon", a, 4
	}
	return "?", null(), 0
}

func junk(r *vproto.Rng) *node {
	switch r.Intn(6) {
	case 0:
		return null()
	case 1:
		return &node{kind: 'T'}
	case 2:
		return str("1")
	case 3:
		return &node{kind: 'O', keys: []string{"x"}, arr: []*node{num(1)}}
	case 4:
		return arr()
	default:
		return num(float64(r.Range(-5, 5)))
	}
}

// pick walks down `depth` array levels choosing index 0 (first) or a random one
func pick(r *vproto.Rng, n *node, depth int, first bool) *node {
	for d := 0; d < depth && n.kind == 'A' && len(n.arr) > 0; d++ {
		i := 0
		if !first {
			i = r.Intn(len(n.arr))
		}
		n = n.arr[i]
	}
	return n
}

// mutate perturbs the coordinates tree of nesting depth d (positions are at depth d-1)
func mutate(r *vproto.Rng, c *node, d int) *node {
	first := r.Bool()
	switch r.Intn(12) {
	case 0: // third ordinate in one position
		p := pick(r, c, d-1, first)
		if p.kind == 'A' {
			p.arr = append(p.arr, num(float64(r.Range(0, 9))))
		}
	case 1: // position of arity 1
		p := pick(r, c, d-1, first)
		if p.kind == 'A' && len(p.arr) > 0 {
			p.arr = p.arr[:1]
		}
	case 2: // empty position
		p := pick(r, c, d-1, first)
		if p.kind == 'A' {
			p.arr = nil
		}
	case 3: // a non-number inside a position
		p := pick(r, c, d-1, first)
		if p.kind == 'A' && len(p.arr) > 0 {
			p.arr[r.Intn(len(p.arr))] = junk(r)
		}
	case 4: // something that is not an array somewhere up the nesting
		lvl := r.Intn(d)
		p := pick(r, c, lvl, first)
		if p.kind == 'A' && len(p.arr) > 0 {
			p.arr[r.Intn(len(p.arr))] = junk(r)
		}
	case 5: // one level too deep
		return arr(c)
	case 6: // one level too shallow
		if c.kind == 'A' && len(c.arr) > 0 {
			return c.arr[0]
		}
	case 7:
		return junk(r)
	case 8: // empty array at some level
		lvl := r.Intn(d)
		p := pick(r, c, lvl, first)
		if p.kind == 'A' {
			p.arr = nil
		}
	default:
	}
	return c
}

func jsonNum(r *vproto.Rng, f float64) string {
	if f == math.Trunc(f) && math.Abs(f) < 1e15 && !(f == 0 && math.Signbit(f)) {
		switch r.Intn(5) {
		case 0:
			return strconv.FormatFloat(f, 'f', 1, 64) // 1.0
		case 1:
			return strconv.FormatFloat(f, 'e', -1, 64) // 1e+00
		case 2:
			return strings.Replace(strconv.FormatFloat(f, 'e', -1, 64), "e", "E", 1)
		}
	}
	if f == math.Trunc(f) && math.Abs(f) >= 1e15 && math.Abs(f) < 1e40 && r.Intn(3) == 0 {
		return strconv.FormatFloat(f, 'f', -1, 64) // all integer digits spelled out (9223372036854775808)
	}
	s := strconv.FormatFloat(f, 'g', -1, 64)
	if r.Intn(6) == 0 {
		// more digits than needed, still the same double
		s2 := strconv.FormatFloat(f, 'e', 25, 64)
		if g, err := strconv.ParseFloat(s2, 64); err == nil && math.Float64bits(g) == math.Float64bits(f) {
			return s2
		}
	}
	return s
}

func (n *node) text(r *vproto.Rng, b *strings.Builder, ws bool) {
	sp := func() {
		if ws && r.Intn(3) == 0 {
			b.WriteString([]string{" ", "\n", "\t", "  "}[r.Intn(4)])
		}
	}
	sp()
	switch n.kind {
	case 'N':
		b.WriteString("null")
	case 'T':
		b.WriteString("true")
	case 'F':
		b.WriteString("false")
	case 'D':
		if n.num != "" {
			b.WriteString(n.num)
		} else {
			b.WriteString(jsonNum(r, n.f))
		}
	case 'S':
		q, _ := json.Marshal(n.s)
		b.Write(q)
	case 'A':
		b.WriteString("[")
		for i, x := range n.arr {
			if i > 0 {
				b.WriteString(",")
			}
			x.text(r, b, ws)
		}
		sp()
		b.WriteString("]")
	case 'O':
		b.WriteString("{")
		for i, x := range n.arr {
			if i > 0 {
				b.WriteString(",")
			}
			sp()
			if n.raw != nil && n.raw[i] != "" {
				b.WriteString(n.raw[i])
			} else {
				q, _ := json.Marshal(n.keys[i])
				b.Write(q)
			}
			sp()
			b.WriteString(":")
			x.text(r, b, ws)
		}
		sp()
		b.WriteString("}")
	}
	sp()
}

func hexs(s string) string {
	if s == "" {
		return "-"
	}
	return hex.EncodeToString([]byte(s))
}

func (n *node) toks(b *strings.Builder) {
	switch n.kind {
	case 'N', 'T', 'F':
		fmt.Fprintf(b, " %c", n.kind)
	case 'D':
		fmt.Fprintf(b, " D %s", vproto.F2H(n.f))
	case 'S':
		fmt.Fprintf(b, " S %s", hexs(n.s))
	case 'A':
		fmt.Fprintf(b, " A %d", len(n.arr))
		for _, x := range n.arr {
			x.toks(b)
		}
	case 'O':
		fmt.Fprintf(b, " O %d", len(n.arr))
		for i, x := range n.arr {
			fmt.Fprintf(b, " %s", hexs(n.keys[i]))
			x.toks(b)
		}
	}
}

// document builds the object around (type, coordinates) with the variations json.Unmarshal tolerates
func document(r *vproto.Rng, ty string, c *node) *node {
	o := &node{kind: 'O'}
	add := func(k, raw string, v *node) {
		o.keys = append(o.keys, k)
		o.raw = append(o.raw, raw)
		o.arr = append(o.arr, v)
	}
	tkey, traw := "type", ""
	ckey, craw := "coordinates", ""
	switch r.Intn(14) {
	case 0:
		tkey = "Type"
	case 1:
		tkey = "TYPE"
	case 2:
		ckey = "Coordinates"
	case 3:
		ckey = "COORDINATES"
	case 4:
		ckey = "coordinateſ" // long s folds to s in encoding/json
	case 5:
		traw = "\"\\u0074ype\""
	case 6:
		tkey = "tKpe" // Kelvin sign does not make "type": ignored member
	case 7:
		ckey = "coordinates " // trailing blank: a different member name
	}
	var tv *node = str(ty)
	switch r.Intn(30) {
	case 0:
		tv = null()
	case 1:
		tv = num(1)
	case 2:
		tv = arr(str(ty))
	case 3:
		tv = str(strings.ToLower(ty))
	case 4:
		tv = str([]string{"GeometryCollection", "Feature", "", "Point ", "Circle"}[r.Intn(5)])
	}
	order := r.Intn(6)
	if r.Intn(5) == 0 {
		add("bbox", "", arr(num(0), num(0), num(1), num(1)))
	}
	if r.Intn(12) == 0 { // an earlier duplicate that must lose
		add(ckey, craw, junk(r))
	}
	if r.Intn(12) == 0 {
		add("type", "", str("Point"))
	}
	if order == 0 {
		add(ckey, craw, c)
		add(tkey, traw, tv)
	} else {
		add(tkey, traw, tv)
		if order == 1 {
			add("crs", "", &node{kind: 'O', keys: []string{"type"}, arr: []*node{str("name")}})
		}
		add(ckey, craw, c)
	}
	if r.Intn(15) == 0 { // "type": null after the real one: no effect
		add("type", "", null())
	}
	if r.Intn(25) == 0 { // coordinates: null after the real one: resets to nil
		add("coordinates", "", null())
	}
	if r.Intn(8) == 0 {
		add("properties", "", null())
	}
	return o
}

func gen(seed uint64, tier string) {
	out := bufio.NewWriter(os.Stdout)
	defer out.Flush()
	r := vproto.NewRng(seed)
	n := 3000
	if tier == "thorough" {
		n = 60000
	}
	emit := func(g geom.Geom) {
		t := vproto.GeomToks(g)
		fmt.Fprintf(out, "tog %s\nenc %s\nrt %s\n", t, t, t)
	}
	emitDoc := func(ty string, c *node, doc *node, ws bool) {
		var b strings.Builder
		doc.text(r, &b, ws)
		fmt.Fprintf(out, "dec x%s\n", hex.EncodeToString([]byte(b.String())))
		if c != nil {
			var tb strings.Builder
			c.toks(&tb)
			if r.Intn(12) == 0 { // another (possibly unknown) type name over the same coordinates
				ty = []string{"Point", "MultiPoint", "LineString", "MultiLineString", "Polygon", "MultiPolygon", "GeometryCollection", "", "point"}[r.Intn(9)]
			}
			fmt.Fprintf(out, "fromt %s%s\n", hexs(ty), tb.String())
		}
	}
	P := func(x, y float64) geom.Point { return geom.Point{X: x, Y: y} }
	corpus := []geom.Geom{
		P(1, 2), P(math.Copysign(0, -1), 1e21), P(1e-7, 5e-324), P(0.30000000000000004, 9007199254740993),
		geom.MultiPoint{P(1, 2)}, geom.MultiPoint{P(1, 2), P(3, 4)}, geom.LineString{P(1, 2), P(3, 4), P(5, 6)},
		geom.MultiLineString{{P(1, 2), P(3, 4)}, {P(5, 6)}}, geom.MultiLineString{{P(1, 2)}, {}, {P(5, 6), P(7, 8)}},
		geom.Polygon{{P(0, 0), P(4, 0), P(4, 4), P(0, 0)}, {P(1, 1), P(2, 1), P(2, 2), P(1, 1)}}, geom.Polygon{{P(0, 0)}, {}},
		geom.MultiPolygon{{{P(0, 0), P(1, 0), P(0, 0)}}, {{P(5, 5), P(6, 5), P(5, 5)}, {P(7, 7)}}},
		geom.MultiPolygon{{{P(0, 0)}}, {}, {{}}, {{P(2, 2)}, {}}},
		// first member empty (C06_guard_exact)
		geom.MultiPoint{}, geom.LineString{}, geom.MultiLineString{}, geom.MultiLineString{{}}, geom.MultiLineString{{}, {P(1, 2)}},
		geom.Polygon{}, geom.Polygon{{}}, geom.Polygon{{}, {P(1, 2)}}, geom.MultiPolygon{}, geom.MultiPolygon{{}}, geom.MultiPolygon{{{}}},
		geom.MultiPolygon{{{}, {P(1, 2)}}}, geom.MultiPolygon{{}, {{P(1, 2)}}},
		// unsupported / non-finite (C06_errors)
		geom.GeometryCollection{}, geom.GeometryCollection{P(1, 2)}, &geom.Bounds{Min: P(0, 0), Max: P(1, 1)},
		P(math.NaN(), 1), P(1, math.Inf(1)), geom.LineString{P(1, 2), P(math.Inf(-1), 0)}, geom.MultiPolygon{{{P(1, 2)}}, {{P(1, math.NaN())}}},
	}
	for _, g := range corpus {
		emit(g)
	}
	for _, x := range specials {
		emit(P(x, -x))
		emit(geom.MultiPoint{P(x, 1), P(2, x)})
	}
	for i, v := range edges {
		for _, g := range edgeGeoms(v, i) {
			emit(g)
		}
		// the same ordinates read by the decoder from generator-written documents (several spellings)
		for j, g := range edgeGeoms(v, i+1) {
			if (i+j)%3 == 0 {
				ty, c, _ := coordsNode(g)
				emitDoc(ty, c, document(r, ty, c), false)
			}
		}
	}
	for i := 0; i < n; i++ {
		var g geom.Geom
		switch {
		case i%20 == 16:
			g = cfg{firstEmpty: true, laterEmpty: true}.geom(r, 1+r.Intn(5))
		case i%20 == 17:
			g = cfg{nonFinite: true}.geom(r, r.Intn(6))
		case i%20 == 18:
			g = cfg{}.geom(r, 6+r.Intn(2))
		default:
			g = cfg{laterEmpty: i%2 == 0}.geom(r, r.Intn(6))
		}
		emit(g)
		// documents derived from a supported geometry
		if i%2 == 0 {
			base := cfg{laterEmpty: true, firstEmpty: r.Intn(8) == 0}.geom(r, r.Intn(6))
			ty, c, d := coordsNode(base)
			if r.Intn(3) != 0 {
				c = mutate(r, c, d)
			}
			doc := document(r, ty, c)
			emitDoc(ty, c, doc, r.Bool())
		}
	}
	// wide geometries: one nesting level with many members
	nw := 6
	if tier == "thorough" {
		nw = 40
	}
	depth := map[int]int{1: 1, 2: 1, 3: 2, 4: 2, 5: 3}
	for i := 0; i < nw; i++ {
		for k := 1; k <= 5; k++ {
			for level := 0; level < depth[k]; level++ {
				sizes := []int{65, 129, 257, 1025, 2049, 65, 129, 257}
				if tier == "thorough" {
					sizes = []int{65, 129, 257, 1025, 2049, 4097, 1023, 2047}
				}
				emit(wide(r, k, level, sizes[(i+r.Intn(2)*3)%len(sizes)]))
			}
		}
	}
	// histories: a window of Encode results is kept and re-verified after the whole batch (a result must
	// not alias state that a later call overwrites); one batch = one line so that a replay reproduces it
	nb := 60
	if tier == "thorough" {
		nb = 1500
	}
	for i := 0; i < nb; i++ {
		k := r.Range(2, 8)
		fmt.Fprintf(out, "batch %d", k)
		for j := 0; j < k; j++ {
			var g geom.Geom
			switch {
			case i%5 == 4 && j == 0:
				g = wide(r, 1+r.Intn(5), 0, []int{65, 129}[r.Intn(2)]) // one long text in the window
			case j%3 == 2:
				g = geom.Point{X: float64(r.Range(-9, 9)), Y: coord(r, false)}
			default:
				g = cfg{laterEmpty: true}.geom(r, r.Intn(6))
			}
			fmt.Fprintf(out, " %s", vproto.GeomToks(g))
		}
		fmt.Fprintln(out)
	}
	// decode histories: Decode(Encode g_i) for a window of geometries; the returned geometries are kept and
	// re-read after the whole batch (a decoded geometry must not share storage with what a later Decode writes)
	for i := 0; i < nb; i++ {
		k := r.Range(2, 6)
		fmt.Fprintf(out, "dbatch %d", k)
		for j := 0; j < k; j++ {
			var g geom.Geom
			switch {
			case i%6 == 5 && j == 0:
				g = wide(r, 1+r.Intn(5), 0, []int{65, 129}[r.Intn(2)])
			case i%6 == 4 && j == 1: // a later result large enough to recycle any arena/pool of a few thousand vertices
				n := []int{4100, 8200, 1030, 2060}[(i/6)%4]
				ls := make(geom.LineString, n)
				for q := range ls {
					ls[q] = geom.Point{X: float64(q), Y: coord(r, false)}
				}
				g = ls
			case j%3 == 1:
				g = edgeGeoms(edges[r.Intn(len(edges))], r.Intn(2))[r.Intn(14)]
			default:
				g = cfg{laterEmpty: true}.geom(r, r.Intn(6))
			}
			fmt.Fprintf(out, " %s", vproto.GeomToks(g))
		}
		fmt.Fprintln(out)
	}
	// concurrent callers (generic probe (g)): Encode/Decode/ToGeoJSON/FromGeoJSON are pure functions of their
	// arguments. One line = reference answer computed alone, then the same call repeated by 8 goroutines on private
	// copies while 8 others hammer the API on unrelated large MultiPolygons (built in impl from the seed in the line).
	ncc := 60
	if tier == "thorough" {
		ncc = 600
	}
	for i := 0; i < ncc; i++ {
		op := []string{"enc", "rt", "tog", "dec", "from"}[i%5]
		var g geom.Geom
		rounds := 40
		switch {
		case i%4 == 0: // large target: calls of the 8 callers overlap each other, not only the noise
			g = wide(r, 1+r.Intn(5), 0, []int{257, 1025}[r.Intn(2)])
			rounds = 6
		case i%4 == 1:
			g = edgeGeoms(edges[r.Intn(len(edges))], r.Intn(2))[r.Intn(14)]
		case i%16 == 2:
			g = cfg{nonFinite: true}.geom(r, r.Intn(6))
		case i%16 == 6:
			g = cfg{}.geom(r, 6+r.Intn(2))
		default:
			g = cfg{laterEmpty: true}.geom(r, r.Intn(6))
		}
		fmt.Fprintf(out, "cc %s %d %d %s\n", op, rounds, r.Intn(1<<30), vproto.GeomToks(g))
	}
	// phase 4: ±0 twins, histories on one object (in-place edits between calls), member counts around 2^13..2^17
	genPhase4(out, r, tier, emit)
	// the nil interface value (outside the property: ToGeoJSON/Encode panic in reflect.TypeOf(nil).String()),
	// FromGeoJSON(nil), and nil slices at every level (Encode writes [] for nil and for empty: make(...))
	fmt.Fprintln(out, "tog NIL\nenc NIL\nrt NIL\nfromnil")
	one := "1 " + vproto.F2H(1) + " " + vproto.F2H(2)
	for _, t := range []string{"MP nil", "LS nil", "PG nil", "MLS 0", "MLS 1 nil", "MLS 2 " + one + " nil", "MLS 2 nil " + one,
		"PG 1 nil", "PG 2 " + one + " nil", "PG 2 nil " + one, "MPG 0", "MPG 1 nil", "MPG 2 1 " + one + " nil", "MPG 1 1 nil",
		"MPG 2 nil 1 " + one, "MPG 1 2 " + one + " nil", "GC 1 NIL", "GC 2 P " + vproto.F2H(1) + " " + vproto.F2H(2) + " NIL"} {
		fmt.Fprintf(out, "tog %s\nenc %s\nrt %s\n", t, t, t)
	}
	// GeoJSON objects that are not geometry objects, foreign members, 3-D positions (RFC 7946 allows a third
	// ordinate; this decoder rejects it everywhere), and the same through FromGeoJSON is covered by `fromt`
	for _, s := range []string{
		`{"type":"Feature","geometry":{"type":"Point","coordinates":[1,2]},"properties":null}`,
		`{"type":"Feature","geometry":{"type":"Point","coordinates":[1,2]},"properties":{"coordinates":[3,4]},"coordinates":[5,6]}`,
		`{"geometry":{"type":"Point","coordinates":[1,2]},"type":"Feature","id":7,"bbox":[1,2,1,2]}`,
		`{"type":"FeatureCollection","features":[{"type":"Feature","geometry":{"type":"Point","coordinates":[1,2]},"properties":{}}]}`,
		`{"type":"FeatureCollection","features":[]}`,
		`{"type":"GeometryCollection","geometries":[{"type":"Point","coordinates":[1,2]}]}`,
		`{"type":"GeometryCollection","geometries":[],"coordinates":[1,2]}`,
		`{"type":"Point","coordinates":[1,2],"crs":{"type":"name","properties":{"name":"urn:ogc:def:crs:OGC:1.3:CRS84"}}}`,
		`{"crs":{"type":"MultiPoint","coordinates":[[9,9]]},"type":"Point","coordinates":[1,2]}`,
		`{"bbox":[0,0,0,10,10,10],"type":"Point","coordinates":[1,2]}`,
		`{"type":"Point","bbox":null,"coordinates":[1,2],"properties":{"type":"LineString"}}`,
		`{"type":"Point","coordinates":[1,2],"geometry":{"type":"LineString","coordinates":[[1,2],[3,4]]}}`,
		`{"type":"Point","coordinates":[1,2],"":0,"typ":1,"types":2,"coordinate":3,"coordinatess":4,"type\u0000":5}`,
		`{"type":"Point","coordinates":[1,2],"ty\u0070e":"LineString"}`, `{"type":"Point","coordinates":[1,2],"t\u0079pe":null}`,
		`{"type":"Point","coordinates":[1,2],"\u212Aoordinates":[3,4]}`, `{"type":"Point","coordinates":[1,2],"TYPE":"MultiPoint"}`,
		`{"type":"Point","coordinates":[1,2],"COORDINATES":[[3,4]]}`, `{"type":"Point","coordinates":[1,2],"coordinate\u017f":[3,4]}`,
		`{"type":"Point","coordinates":[1,2],"type":{}}`, `{"type":[],"type":"Point","coordinates":[1,2]}`,
		`{"type":"Point","coordinates":[1,2,0]}`, `{"type":"Point","coordinates":[1,2,0,0]}`, `{"type":"Point","coordinates":[1]}`,
		`{"type":"MultiPoint","coordinates":[[1,2,3]]}`, `{"type":"MultiPoint","coordinates":[[1,2],[3,4,5]]}`,
		`{"type":"LineString","coordinates":[[1,2,3],[4,5,6]]}`, `{"type":"MultiLineString","coordinates":[[[1,2,3]]]}`,
		`{"type":"MultiLineString","coordinates":[[[1,2]],[[1,2,3]]]}`, `{"type":"Polygon","coordinates":[[[1,2,3],[4,5,6],[7,8,9],[1,2,3]]]}`,
		`{"type":"Polygon","coordinates":[[[1,2],[4,5],[7,8],[1,2,3]]]}`, `{"type":"MultiPolygon","coordinates":[[[[1,2,3]]]]}`,
		`{"type":"MultiPolygon","coordinates":[[[[1,2]]],[[[1,2]],[[1,2,3]]]]}`, `{"type":"MultiPolygon","coordinates":[[[[1,2]],[]],[[[4,5],[6]]]]}`,
		`{"type":"Point","coordinates":[1,"2"]}`, `{"type":"Point","coordinates":[1,null]}`, `{"type":"Point","coordinates":[true,2]}`,
		`{"type":"Point","coordinates":{"0":1,"1":2}}`, `{"type":"Point","coordinates":"1,2"}`, `{"type":"Point","coordinates":[[1,2]]}`,
		`{"type":"MultiPoint","coordinates":[1,2]}`, `{"type":"Polygon","coordinates":[[1,2],[3,4]]}`, `{"type":"LineString","coordinates":[[[1,2]]]}`,
		`{"type":"Point","coordinates":[1e400,2]}`, `{"type":"Point","coordinates":[-1e400,2]}`, `{"type":"Point","coordinates":[1e-400,-1e-400]}`,
		`{"type":"Point","coordinates":[1.7976931348623158e308,2]}`, `{"type":"Point","coordinates":[1.7976931348623159e308,2]}`,
		`{"type":"Point","coordinates":[9223372036854775808,-9223372036854775809]}`, `{"type":"Point","coordinates":[18446744073709551616,4294967296]}`,
		`{"type":"Point","coordinates":[1,2],"bbox":[1e400,-1e999]}`, `{"coordinates":[1e400,1],"type":"Point","coordinates":[1,2]}`,
		`{"type":"Point","coordinates":[1,2],"properties":{"coordinates":[1e400]}}`, `{"type":"Point","Coordinates":[[1e309]],"coordinates":[1,2]}`,
		// literal-level Unmarshal (Unmarshal.lean): out-of-range literals in stored values of any shape, in replaced duplicates, in
		// the type member, at top level; in skipped members they are only scanned
		`{"type":"Point","coordinates":{"a":[1e400]}}`, `{"type":"Point","coordinates":{"a":{"b":-1e999}},"coordinates":[1,2]}`,
		`{"type":[1e400],"coordinates":[1,2]}`, `{"type":1e400,"coordinates":[1,2]}`, `{"type":{"a":1e400},"coordinates":[1,2]}`,
		`{"coordinates":[1e400,2],"coordinates":[1,2],"type":"Point"}`, `{"type":"Point","COORDINATES":[-1e999],"coordinates":[1,2]}`,
		`{"type":"Point","coordinate\u017f":[[[1e309]]],"coordinates":[1,2]}`, `{"type":null,"coordinates":[1e400]}`,
		`{"type":"Point","coordinates":1e400}`, `{"type":"Point","coordinates":1e400,"coordinates":null}`, `1e400`, `[1e400]`, `-1e400`,
		`{"type":"Point","coordinates":[1,2],"x":1e400,"y":{"coordinates":[1e400]},"z":[{"type":1e999}]}`,
		`{"x":{"coordinates":[1e400]},"type":"Point","coordinates":[1,2],"bbox":[-1e400,1e400]}`,
		`{"type":"Point","coordinates":[1,2],"coordinates":null}`, `{"type":"Point","coordinates":null,"coordinates":[1,2]}`,
		`{"type":"Point","coordinates":[1.7976931348623157e308,-1.7976931348623157e308]}`, `{"type":"Point","coordinates":[1.797693134862315808e308,2]}`,
		`{"type":"Point","coordinates":[179769313486231580793728971405303415079934132710037826936173778980444968292764750946649017977587207096330286416692887910946555547851940402630657488671505820681908902000708383676273854845817711531764475730270069855571366959622842914819860834936475292719074168444365510704342711559699508093042880177904174497791.9999,2]}`,
		`{"type":"Point","coordinates":[0.1e1,100e-2]}`, `{"type":"Point","coordinates":[-0,0e0]}`, `{"type":"Point","coordinates":[2.5E+0,2.5e-0]}`,
	} {
		fmt.Fprintf(out, "dec x%s\n", hex.EncodeToString([]byte(s)))
	}
	// texts that are NOT JSON (RFC 8259): the driver's total parser must reject exactly what json.Unmarshal rejects
	// with a SyntaxError; nothing may be decoded from them
	good := `{"type":"LineString","coordinates":[[1,2],[3.5,-4e2]]}`
	bad := []string{"", " ", "{", "}", "[", `{"type":"Point","coordinates":[1,2]`, `{"type":"Point","coordinates":[1,2]}}`, `{"type":"Point","coordinates":[1,2]} x`,
		`{"type":"Point","coordinates":[1,2],}`, `{"type":"Point","coordinates":[1,2,]}`, `{"type":"Point","coordinates":[1,,2]}`, `{"type":"Point","coordinates":[,1,2]}`,
		`{"type":"Point" "coordinates":[1,2]}`, `{"type""Point","coordinates":[1,2]}`, `{type:"Point","coordinates":[1,2]}`, `{'type':'Point','coordinates':[1,2]}`,
		`{"type":"Point","coordinates":[01,2]}`, `{"type":"Point","coordinates":[+1,2]}`, `{"type":"Point","coordinates":[.5,2]}`, `{"type":"Point","coordinates":[1.,2]}`,
		`{"type":"Point","coordinates":[1e,2]}`, `{"type":"Point","coordinates":[1e+,2]}`, `{"type":"Point","coordinates":[0x10,2]}`, `{"type":"Point","coordinates":[1_0,2]}`,
		`{"type":"Point","coordinates":[NaN,2]}`, `{"type":"Point","coordinates":[Infinity,2]}`, `{"type":"Point","coordinates":[-Infinity,2]}`, `{"type":"Point","coordinates":[-,2]}`,
		`{"type":"Point","coordinates":[1 2]}`, `{"type":"Point","coordinates":[1,2]]}`, `{"type":"Point","coordinates":(1,2)}`, `{"type":"Point","coordinates":[--1,2]}`,
		`{"type":"Point","coordinates":[1.2.3,2]}`, `{"type":"Point","coordinates":[1e2e3,2]}`, `{"type":"Point","coordinates":[00,2]}`, `{"type":"Point","coordinates":[-01,2]}`,
		`{"type":"Po` + "\n" + `int","coordinates":[1,2]}`, `{"type":"Po\xint","coordinates":[1,2]}`, `{"type":"Po\u12int","coordinates":[1,2]}`, `{"type":"Point,"coordinates":[1,2]}`,
		`{"type":"Point","coordinates":[1,2],"a"}`, `{"type":"Point","coordinates":[1,2],"a":}`, `{"type":"Point","coordinates":[1,2],:1}`, `{"type":Point,"coordinates":[1,2]}`,
		`{"type":nul,"coordinates":[1,2]}`, `{"type":"Point","coordinates":[tru,2]}`, `{"type":"Point","coordinates":[1,2]}{"type":"Point","coordinates":[1,2]}`,
		`[{"type":"Point","coordinates":[1,2]}`, "\ufeff" + good, good + ",", good + "]", "//c\n" + good, good + "/**/", good[:len(good)-1], good[1:], "nul", "tru", "-", `"`, `"\`}
	for _, s := range bad {
		fmt.Fprintf(out, "dec x%s\n", hex.EncodeToString([]byte(s)))
	}
	nbad := 150
	if tier == "thorough" {
		nbad = 5000
	}
	for i := 0; i < nbad; i++ { // one random byte edit of a good document: may or may not stay JSON — the driver's parser decides
		base := cfg{laterEmpty: true}.geom(r, r.Intn(6))
		ty, c, _ := coordsNode(base)
		var b strings.Builder
		document(r, ty, c).text(r, &b, r.Bool())
		t := []byte(b.String())
		if len(t) == 0 {
			continue
		}
		k := r.Intn(len(t))
		switch r.Intn(4) {
		case 0:
			t = append(t[:k:k], t[k+1:]...) // delete
		case 1:
			const repl = "{}[],:\"0-+.eE 1tfn\\x"
			t[k] = repl[r.Intn(len(repl))] // replace (ASCII: the text stays UTF-8)
		case 2:
			const ins = "{}[],:\"0-+.eE"
			t = append(t[:k:k], append([]byte{ins[r.Intn(len(ins))]}, t[k:]...)...) // insert
		default:
			t = t[:k] // truncate
		}
		ok := true
		for _, ch := range t {
			if ch >= 0x80 || ch == '\n' || ch == '\r' { // keep to one-line ASCII so that the edit cannot split a UTF-8 sequence
				ok = false
			}
		}
		if ok {
			fmt.Fprintf(out, "dec x%s\n", hex.EncodeToString(t))
		}
	}
	// documents that are not objects
	for _, s := range []string{"null", "[]", "1", `"Point"`, "true", "{}", `{"type":"Point"}`, `{"coordinates":[1,2]}`,
		`{"type":"Point","coordinates":[1,2]}`, `{"type":"Point","coordinates":[1,2,3]}`, `{"type":"Point","coordinates":[]}`,
		`{"type":"MultiPoint","coordinates":[[1,2],[3]]}`, `{"type":"MultiPoint","coordinates":[[1,2,3],[3,4]]}`,
		`{"type":"LineString","coordinates":[[1,2],[3,4,5]]}`, `{"type":"Polygon","coordinates":[[[1,2]],[[3]]]}`,
		`{"type":"Polygon","coordinates":[[[1,2]],[]]}`, `{"type":"MultiPolygon","coordinates":[[[[1,2]]],[],[[]]]}`,
		`{"type":"MultiLineString","coordinates":[[],[[1,2]]]}`, `{"type":null,"coordinates":[1,2]}`, `{"type":5,"coordinates":[1,2]}`,
		`{"type":"Point","coordinates":null}`, `{"type":"Point","coordinates":[1,2],"coordinates":[3,4]}`,
		`{"TYPE":"Point","Coordinates":[1e0,-0.0]}`, `{"type":"Point","coordinateſ":[1,2]}`, `{"type":"GeometryCollection","geometries":[]}`,
	} {
		fmt.Fprintf(out, "dec x%s\n", hex.EncodeToString([]byte(s)))
	}
	// round h: unsupported dynamic types that are near misses of the supported ones (own stream: earlier lines unchanged)
	genUns(out, vproto.NewRng(seed^0xC06AA), tier)
}

// ---- impl

func errKind(err error) string {
	var ug *geojson.UnsupportedGeometryError
	var ig *geojson.InvalidGeometryError
	var ut *json.UnmarshalTypeError
	var se *json.SyntaxError
	var uv *json.UnsupportedValueError
	var me *json.MarshalerError
	var re runtime.Error
	switch {
	case errors.As(err, &ug):
		return "unsupported"
	case errors.As(err, &ig):
		return "invalid"
	case errors.As(err, &ut):
		return "unmarshaltype"
	case errors.As(err, &se):
		return "syntax"
	case errors.As(err, &uv):
		return "nonfinite"
	case errors.As(err, &me):
		return "marshaler"
	case errors.As(err, &re):
		return "runtime"
	}
	return "other:" + strings.ReplaceAll(fmt.Sprintf("%T", err), " ", "_")
}

func result(g geom.Geom, err error) string {
	if err != nil {
		return "err " + errKind(err)
	}
	return "ok " + vproto.GeomToks(g)
}

func c1(b *strings.Builder, v []float64) {
	fmt.Fprintf(b, " %d", len(v))
	for _, x := range v {
		b.WriteString(" " + vproto.F2H(x))
	}
}
func c2(b *strings.Builder, v [][]float64) {
	fmt.Fprintf(b, " %d", len(v))
	for _, x := range v {
		c1(b, x)
	}
}
func c3(b *strings.Builder, v [][][]float64) {
	fmt.Fprintf(b, " %d", len(v))
	for _, x := range v {
		c2(b, x)
	}
}
func c4(b *strings.Builder, v [][][][]float64) {
	fmt.Fprintf(b, " %d", len(v))
	for _, x := range v {
		c3(b, x)
	}
}

func parseTree(p *vproto.Parser) interface{} {
	switch p.Next() {
	case "N":
		return nil
	case "T":
		return true
	case "F":
		return false
	case "D":
		return p.F()
	case "S":
		return unhex(p.Next())
	case "A":
		n := p.Int()
		a := make([]interface{}, n)
		for i := range a {
			a[i] = parseTree(p)
		}
		return a
	case "O":
		n := p.Int()
		m := map[string]interface{}{}
		for i := 0; i < n; i++ {
			k := unhex(p.Next())
			m[k] = parseTree(p)
		}
		return m
	}
	panic("bad tree token")
}

func unhex(h string) string {
	if h == "-" {
		return ""
	}
	b, err := hex.DecodeString(h)
	if err != nil {
		panic(err)
	}
	return string(b)
}

func renderings(g geom.Geom) string {
	var b strings.Builder
	seen := map[uint64]bool{}
	add := func(x float64) {
		u := math.Float64bits(x)
		if seen[u] || math.IsNaN(x) || math.IsInf(x, 0) {
			return
		}
		seen[u] = true
		t, err := json.Marshal(x)
		if err != nil {
			return
		}
		b.WriteString(" " + vproto.F2H(x) + " " + string(t))
	}
	pts := func(ps []geom.Point) {
		for _, p := range ps {
			add(p.X)
			add(p.Y)
		}
	}
	switch t := g.(type) {
	case geom.Point:
		add(t.X)
		add(t.Y)
	case geom.MultiPoint:
		pts(t)
	case geom.LineString:
		pts(t)
	case geom.MultiLineString:
		for _, l := range t {
			pts(l)
		}
	case geom.Polygon:
		for _, l := range t {
			pts(l)
		}
	case geom.MultiPolygon:
		for _, pg := range t {
			for _, l := range pg {
				pts(l)
			}
		}
	}
	return b.String()
}

func togString(g geom.Geom) string {
	o, err := geojson.ToGeoJSON(g)
	if err != nil {
		return "err " + errKind(err)
	}
	var b strings.Builder
	b.WriteString("ok " + hexs(o.Type))
	switch v := o.Coordinates.(type) {
	case []float64:
		b.WriteString(" C1")
		c1(&b, v)
	case [][]float64:
		b.WriteString(" C2")
		c2(&b, v)
	case [][][]float64:
		b.WriteString(" C3")
		c3(&b, v)
	case [][][][]float64:
		b.WriteString(" C4")
		c4(&b, v)
	default:
		fmt.Fprintf(&b, " UNKNOWN(%T)", v)
	}
	return b.String()
}

// noiseGeom: a MultiPolygon big enough (about a thousand vertices, ~40 kB of text) for its Encode/Decode to overlap other calls
func noiseGeom(r *vproto.Rng) geom.Geom {
	m := make(geom.MultiPolygon, r.Range(2, 4))
	for i := range m {
		m[i] = make(geom.Polygon, r.Range(10, 60))
		for j := range m[i] {
			m[i][j] = make(geom.Path, r.Range(4, 16))
			for k := range m[i][j] {
				m[i][j][k] = geom.Point{X: coord(r, false), Y: coord(r, false)}
			}
		}
	}
	return m
}

// concurrent runs one `cc` line: the answer the judge sees is the first concurrent answer that differs from the
// reference computed alone (or the reference when all agree), prefixed by what happened.
func concurrent(op string, rounds int, seed uint64, toks string) string {
	parse := func() geom.Geom { return vproto.NewParser(toks).Geom() } // a private deep copy per caller
	// the operation on a private argument; `doc` are the reference bytes (for dec / from)
	call := func(g geom.Geom, doc []byte) (ans string) {
		if pan := vproto.Safe(func() {
			switch op {
			case "enc":
				buf, err := geojson.Encode(g)
				if err != nil {
					ans = "err " + errKind(err)
				} else {
					ans = "ok x" + hex.EncodeToString(buf)
				}
			case "tog":
				ans = togString(g)
			case "rt":
				buf, err := geojson.Encode(g)
				if err != nil {
					ans = "encerr " + errKind(err)
				} else {
					ans = result(geojson.Decode(buf))
				}
			case "dec":
				if doc == nil {
					ans = "encerr"
				} else {
					ans = result(geojson.Decode(append([]byte(nil), doc...)))
				}
			case "from":
				if doc == nil {
					ans = "encerr"
				} else {
					var o struct {
						Type        string      `json:"type"`
						Coordinates interface{} `json:"coordinates"`
					}
					if err := json.Unmarshal(doc, &o); err != nil {
						ans = "err " + errKind(err)
					} else {
						ans = result(geojson.FromGeoJSON(&geojson.Geometry{Type: o.Type, Coordinates: o.Coordinates}))
					}
				}
			}
		}); pan != "" {
			ans = "panic " + pan
		}
		return ans
	}
	g0 := parse()
	var doc []byte
	encErr := ""
	if op == "dec" || op == "from" {
		b, err := geojson.Encode(g0)
		if err != nil {
			encErr = "encerr " + errKind(err)
		} else {
			doc = b
		}
	}
	if encErr != "" {
		return "same " + encErr
	}
	ref := call(g0, doc)
	before := vproto.GeomToks(g0)
	var stop int32
	var mu sync.Mutex
	first := ""
	report := func(s string) {
		mu.Lock()
		if first == "" {
			first = s
		}
		mu.Unlock()
		atomic.StoreInt32(&stop, 1)
	}
	var wg, nwg sync.WaitGroup
	for w := 0; w < 8; w++ { // noise: unrelated large inputs through the same API
		nwg.Add(1)
		go func(w int) {
			defer nwg.Done()
			nr := vproto.NewRng(seed + uint64(w)*7919)
			ng := noiseGeom(nr)
			for atomic.LoadInt32(&stop) == 0 {
				vproto.Safe(func() {
					if buf, err := geojson.Encode(ng); err == nil {
						geojson.Decode(buf)
					}
					geojson.ToGeoJSON(ng)
				})
			}
		}(w)
	}
	for w := 0; w < 8; w++ {
		wg.Add(1)
		go func() {
			defer wg.Done()
			g := parse()
			var d []byte
			if doc != nil {
				d = append([]byte(nil), doc...)
			}
			for i := 0; i < rounds && atomic.LoadInt32(&stop) == 0; i++ {
				if a := call(g, d); a != ref {
					report("differs " + a)
					return
				}
				if vproto.GeomToks(g) != before {
					report("argument-modified " + vproto.GeomToks(g))
					return
				}
				if d != nil && string(d) != string(doc) {
					report("argument-modified document")
					return
				}
			}
		}()
	}
	wg.Wait()
	atomic.StoreInt32(&stop, 1)
	nwg.Wait()
	// a goroutine the library itself spawned and that panics kills the process: give it the chance to do so
	// while this line is still the current one (the orchestrator then records `crash` for THIS line)
	runtime.Gosched()
	time.Sleep(time.Millisecond)
	if first != "" {
		return first
	}
	return "same " + ref
}

func impl() {
	vproto.Lines(func(line string, out *bufio.Writer) {
		p := vproto.NewParser(line)
		var res string
		pan := vproto.Safe(func() {
			switch p.Next() {
			case "tog":
				g := p.Geom()
				o, err := geojson.ToGeoJSON(g)
				if err != nil {
					res = "err " + errKind(err)
					return
				}
				var b strings.Builder
				b.WriteString("ok " + hexs(o.Type))
				switch v := o.Coordinates.(type) {
				case []float64:
					b.WriteString(" C1")
					c1(&b, v)
				case [][]float64:
					b.WriteString(" C2")
					c2(&b, v)
				case [][][]float64:
					b.WriteString(" C3")
					c3(&b, v)
				case [][][][]float64:
					b.WriteString(" C4")
					c4(&b, v)
				default:
					fmt.Fprintf(&b, " UNKNOWN(%T)", v)
				}
				res = b.String()
			case "enc":
				g := p.Geom()
				buf, err := geojson.Encode(g)
				if err != nil {
					res = "err " + errKind(err)
				} else {
					res = "ok x" + hex.EncodeToString(buf)
				}
				// encoding/json's own rendering of every finite coordinate (the model's number formatter)
				res += " |" + renderings(g)
			case "batch":
				n := p.Int()
				kept := make([][]byte, n)   // the slices exactly as Encode returned them
				copies := make([]string, n) // immediate copies
				errs := make([]error, n)
				gs := make([]geom.Geom, n)
				for i := 0; i < n; i++ {
					gs[i] = p.Geom()
					kept[i], errs[i] = geojson.Encode(gs[i])
					copies[i] = string(kept[i])
				}
				// late check: what the kept slices hold NOW, and what Decode makes of them
				var b strings.Builder
				for i := 0; i < n; i++ {
					if i > 0 {
						b.WriteString(" ; ")
					}
					if errs[i] != nil {
						b.WriteString("err " + errKind(errs[i]))
					} else {
						b.WriteString("ok x" + hex.EncodeToString([]byte(copies[i])) + " x" + hex.EncodeToString(kept[i]))
					}
				}
				res = b.String()
			case "hist":
				res = implHist(p)
			case "uns":
				res = implUns(p)
			case "emsg":
				g := p.Geom()
				_, err := geojson.Encode(g)
				res = errText(err)
			case "dmsg":
				ty := unhex(p.Next())
				t := parseTree(p)
				_, err := geojson.FromGeoJSON(&geojson.Geometry{Type: ty, Coordinates: t})
				res = errText(err)
			case "cc":
				op := p.Next()
				rounds := p.Int()
				seed := uint64(p.Int())
				toks := p.Rest()
				res = concurrent(op, rounds, seed, toks)
				if op == "enc" {
					res += " |" + renderings(vproto.NewParser(toks).Geom())
				}
			case "dbatch":
				n := p.Int()
				kept := make([]geom.Geom, n) // the geometries exactly as Decode returned them
				first := make([]string, n)   // their tokens immediately after the call
				errs := make([]string, n)
				for i := 0; i < n; i++ {
					g := p.Geom()
					buf, err := geojson.Encode(g)
					if err != nil {
						errs[i] = "encerr " + errKind(err)
						continue
					}
					kept[i], err = geojson.Decode(buf)
					if err != nil {
						errs[i] = "err " + errKind(err)
						continue
					}
					first[i] = vproto.GeomToks(kept[i])
				}
				var b strings.Builder
				for i := 0; i < n; i++ {
					if i > 0 {
						b.WriteString(" ; ")
					}
					if errs[i] != "" {
						b.WriteString(errs[i])
					} else {
						b.WriteString("ok " + first[i] + " | " + vproto.GeomToks(kept[i]))
					}
				}
				res = b.String()
			case "rt":
				g := p.Geom()
				buf, err := geojson.Encode(g)
				if err != nil {
					res = "encerr " + errKind(err)
					return
				}
				res = result(geojson.Decode(buf))
			case "dec":
				buf, err := hex.DecodeString(p.Next()[1:])
				if err != nil {
					panic(err)
				}
				res = result(geojson.Decode(buf))
			case "fromnil":
				res = result(geojson.FromGeoJSON(nil))
			case "fromt":
				ty := unhex(p.Next())
				t := parseTree(p)
				res = result(geojson.FromGeoJSON(&geojson.Geometry{Type: ty, Coordinates: t}))
			default:
				res = "badline"
			}
		})
		if pan != "" {
			res = "panic " + pan
		}
		fmt.Fprintf(out, "%s => %s\n", line, res)
		out.Flush()
	})
}

func main() {
	if len(os.Args) < 2 {
		fmt.Fprintln(os.Stderr, "usage: c06 gen|impl")
		os.Exit(2)
	}
	switch os.Args[1] {
	case "gen":
		seed, tier := vproto.SeedTier(os.Args[2:])
		gen(seed, tier)
	case "impl":
		impl()
	}
}
