package main

// Round h: unsupported DYNAMIC types that are near misses of the six supported value types.
//
//	uns <tog|enc> <kind> <geom>
//
// The geometry on the line is the value the near miss is built from; what is handed to the encoder is
//   ptr      a non-nil pointer to that value (*geom.Point, ..., *geom.GeometryCollection — all are geom.Geom: value receivers)
//   nilptr   the typed nil pointer of that pointer type (for a B line: (*geom.Bounds)(nil))
//   named    a named struct type of the harness embedding the value (methods promoted, a different Go type)
//   gcptr    geom.GeometryCollection{ptr}      (the only place the API takes a member of interface type)
//   gcnamed  geom.GeometryCollection{named}
//   pp       a named pointer-holding struct: struct{ *geom.X } (non-nil)
// None of them is one of the six supported types, so the property wants an error from ToGeoJSON / Encode
// (no panic escaping, no JSON).

import (
	"bufio"
	"encoding/hex"
	"fmt"

	"github.com/ctessum/geom"
	"github.com/ctessum/geom/encoding/geojson"

	"verif/harness/vproto"
)

type nPoint struct{ geom.Point }
type nMultiPoint struct{ geom.MultiPoint }
type nLineString struct{ geom.LineString }
type nMultiLineString struct{ geom.MultiLineString }
type nPolygon struct{ geom.Polygon }
type nMultiPolygon struct{ geom.MultiPolygon }
type nCollection struct{ geom.GeometryCollection }

type ppPoint struct{ *geom.Point }
type ppMultiPoint struct{ *geom.MultiPoint }
type ppLineString struct{ *geom.LineString }
type ppMultiLineString struct{ *geom.MultiLineString }
type ppPolygon struct{ *geom.Polygon }
type ppMultiPolygon struct{ *geom.MultiPolygon }
type ppCollection struct{ *geom.GeometryCollection }

var unsKinds = []string{"ptr", "nilptr", "named", "gcptr", "gcnamed", "pp"}

// nearMiss builds the unsupported value of the given kind from a parsed geometry.
func nearMiss(kind string, g geom.Geom) geom.Geom {
	switch kind {
	case "gcptr":
		return geom.GeometryCollection{nearMiss("ptr", g)}
	case "gcnamed":
		return geom.GeometryCollection{nearMiss("named", g)}
	}
	switch v := g.(type) {
	case geom.Point:
		switch kind {
		case "ptr":
			return &v
		case "nilptr":
			return (*geom.Point)(nil)
		case "named":
			return nPoint{v}
		case "pp":
			return ppPoint{&v}
		}
	case geom.MultiPoint:
		switch kind {
		case "ptr":
			return &v
		case "nilptr":
			return (*geom.MultiPoint)(nil)
		case "named":
			return nMultiPoint{v}
		case "pp":
			return ppMultiPoint{&v}
		}
	case geom.LineString:
		switch kind {
		case "ptr":
			return &v
		case "nilptr":
			return (*geom.LineString)(nil)
		case "named":
			return nLineString{v}
		case "pp":
			return ppLineString{&v}
		}
	case geom.MultiLineString:
		switch kind {
		case "ptr":
			return &v
		case "nilptr":
			return (*geom.MultiLineString)(nil)
		case "named":
			return nMultiLineString{v}
		case "pp":
			return ppMultiLineString{&v}
		}
	case geom.Polygon:
		switch kind {
		case "ptr":
			return &v
		case "nilptr":
			return (*geom.Polygon)(nil)
		case "named":
			return nPolygon{v}
		case "pp":
			return ppPolygon{&v}
		}
	case geom.MultiPolygon:
		switch kind {
		case "ptr":
			return &v
		case "nilptr":
			return (*geom.MultiPolygon)(nil)
		case "named":
			return nMultiPolygon{v}
		case "pp":
			return ppMultiPolygon{&v}
		}
	case geom.GeometryCollection:
		switch kind {
		case "ptr":
			return &v
		case "nilptr":
			return (*geom.GeometryCollection)(nil)
		case "named":
			return nCollection{v}
		case "pp":
			return ppCollection{&v}
		}
	case *geom.Bounds:
		if kind == "nilptr" {
			return (*geom.Bounds)(nil)
		}
	}
	panic("c06: no near miss " + kind + " of " + fmt.Sprintf("%T", g))
}

func implUns(p *vproto.Parser) string {
	how := p.Next()
	kind := p.Next()
	g := nearMiss(kind, p.Geom())
	switch how {
	case "tog":
		o, err := geojson.ToGeoJSON(g)
		if err != nil {
			return "err " + errKind(err)
		}
		return "ok " + hexs(o.Type)
	case "enc":
		buf, err := geojson.Encode(g)
		if err != nil {
			return "err " + errKind(err)
		}
		return "ok x" + hex.EncodeToString(buf)
	}
	panic("c06: uns how " + how)
}

// genUns writes the near-miss lines: a fixed corpus (every type x every kind) and random values.
func genUns(out *bufio.Writer, r *vproto.Rng, tier string) {
	P := func(x, y float64) geom.Point { return geom.Point{X: x, Y: y} }
	emit := func(kind string, g geom.Geom) {
		t := vproto.GeomToks(g)
		fmt.Fprintf(out, "uns tog %s %s\nuns enc %s %s\n", kind, t, kind, t)
	}
	fixed := []geom.Geom{
		P(1, 2), geom.MultiPoint{P(1, 2), P(3, 4)}, geom.MultiPoint{}, geom.LineString{P(1, 2), P(3, 4), P(5, 6)},
		geom.MultiLineString{{P(1, 2), P(3, 4)}, {P(5, 6)}}, geom.Polygon{{P(0, 0), P(1, 0), P(1, 1)}}, geom.Polygon{},
		geom.MultiPolygon{{{P(0, 0), P(1, 0), P(0, 0)}}, {{P(5, 5), P(6, 5), P(5, 5)}}},
		geom.GeometryCollection{}, geom.GeometryCollection{P(1, 2)},
	}
	for _, g := range fixed {
		for _, k := range unsKinds {
			emit(k, g)
		}
	}
	emit("nilptr", &geom.Bounds{Min: P(0, 0), Max: P(1, 1)})
	n := 60
	if tier == "thorough" {
		n = 600
	}
	for i := 0; i < n; i++ {
		g := cfg{laterEmpty: i%2 == 0, firstEmpty: i%7 == 0, nonFinite: i%11 == 0}.geom(r, r.Intn(7))
		emit(unsKinds[r.Intn(len(unsKinds))], g)
	}
}
