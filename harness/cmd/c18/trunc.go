package main

// Truncated input (scanner error paths).  Line:  t <fmt> <cut> <keep> | <obj> ...
//   fmt = x (XML) | p1 (PBF, one object per block) | p2 (PBF, three objects per block)
//   cut = b<k>  exactly after the k-th data block / the k-th object line (k = 0: nothing but the header)
//         m<k>  in the middle of the k-th data block / object line (k >= 1)
//         f<k>  PBF: between the BlobHeader and the Blob of the k-th data block
//         h     in the middle of the header block / the <osm ...> line
//         e     nothing cut (control)
// Result: trunc=err:<msg> | trunc=ok/<ids>/<check>   n=<number of objects that lie completely before the cut>
//         clean=<1 if the remaining bytes are a well-formed file of those n objects; 2: the model has no expectation>
// Spec: an error, or exactly the closure of the first n objects — never a nil error with something else.

import (
	"context"
	"encoding/binary"
	"fmt"
	"strconv"
	"strings"

	gosm "github.com/ctessum/geom/encoding/osm"
)

func truncLine(f []string) (string, bool) {
	head, objs := splitBar(f)
	if len(head) != 4 {
		return "badline", false
	}
	format, cutTok, keep := head[1], head[2], parseKeep(head[3])
	var data []byte
	var ends, counts []int // ends[k] = offset after unit k (k = 0: header), counts[k] = objects before that offset
	if format == "x" {
		data = buildXML(objs)
		off := 0
		n := 0
		for i, line := range strings.SplitAfter(string(data), "\n") {
			off += len(line)
			if i == 1 { // xml declaration + <osm ...>
				ends, counts = append(ends, off), append(counts, 0)
			} else if i > 1 && i-2 < len(objs) {
				n++
				ends, counts = append(ends, off), append(counts, n)
			}
		}
	} else {
		variant := 1
		if format == "p2" {
			variant = 2
		}
		data, ends, counts = buildPBFEx(objs, variant)
	}
	cut, n, clean := len(data), len(objs), 1
	k, _ := strconv.Atoi(strings.TrimLeft(cutTok, "bmhef"))
	if k >= len(ends) {
		k = len(ends) - 1
	}
	switch cutTok[0] {
	case 'b':
		cut, n = ends[k], counts[k]
		if format == "x" {
			clean = 0 // </osm> is missing
		}
	case 'm':
		if k < 1 {
			k = 1
		}
		if k >= len(ends) {
			return "trunc=skip n=0 clean=0", false
		}
		cut, n, clean = (ends[k-1]+ends[k])/2, counts[k-1], 0
		if format != "x" { // keep away from the inner frame boundaries (see 'f')
			hdr := int(binary.BigEndian.Uint32(data[ends[k-1]:]))
			if cut == ends[k-1]+4 || cut == ends[k-1]+4+hdr {
				cut++
			}
		}
	case 'f':
		// PBF only: after the 4-byte size and the BlobHeader of block k, before its Blob.  io.ReadFull then reports a
		// plain io.EOF, which the pinned decoder takes for the end of the file: no model expectation (clean=2), the
		// Spec (error or closure of the prefix) still applies.
		if k < 1 {
			k = 1
		}
		if format == "x" || k >= len(ends) {
			return "trunc=skip n=0 clean=0", false
		}
		hdr := int(binary.BigEndian.Uint32(data[ends[k-1]:]))
		cut, n, clean = ends[k-1]+4+hdr, counts[k-1], 2
	case 'h':
		cut, n, clean = ends[0]/2, 0, 0
		if format == "x" {
			clean = 2 // the XML scanner reports a file that ends inside its prolog as empty
		}
	}
	r := runWith(2, func(rd *countingReader) (*gosm.Data, error) {
		if format == "x" {
			return gosm.ExtractXML(context.Background(), rd, keep, true)
		}
		return gosm.ExtractPBF(context.Background(), rd, keep, true)
	}, data[:cut])
	if r.hang {
		return "timeout trunc", true
	}
	if s := r.bad(); s != "" {
		if r.err != nil {
			s = "err"
		}
		return fmt.Sprintf("trunc=%s n=%d clean=%d", s, n, clean), false
	}
	return fmt.Sprintf("trunc=ok/%s/%s n=%d clean=%d", idsOf(r.d), checkStr(r.d), n, clean), false
}
