// Harness for C18 (OSM extraction is referentially closed and schedule independent).
//
//	gen --seed S --tier T   write case lines (inputs only)
//	impl                    read case lines, run the real code, append " => result"
//
// Case line:   x <keep> <runs> <seed> | <obj> <obj> ...
//
//	keep  = all | bounds:<minX>,<minY>,<maxX>,<maxY> | tags:<k>=<v>|<v>;<k>=          (k= : any value)
//	obj   = n<id>:<x>,<y>:<tags> | w<id>:<refs>:<tags> | r<id>:<members>:<tags>     (x = lon, y = lat, integers)
//	        | B | N | U      a <bounds>, <note>, <user> element at this place of the file (the scanner yields
//	                         *osm.Bounds/*osm.Note/*osm.User; not objects of the extraction)
//	refs  = - | <id>,<id>,...        members = - | n<id>,w<id>,r<id>,...
//	tags  = - | <k>=<v>;<k>=<v>      (k, v small numbers; rendered as k="k<k>" v="v<v>"; v = 0 is the EMPTY value v="")
//
// History line:  h <pos> <keep> <keep> [<keep>] | <obj> ...     2-3 extractions, one after the other, on the SAME
//	bytes.Reader (never re-created); <pos> = where the reader stands before the first call: 0 | m (middle) | e (EOF).
//	Result: hist=<ids>/<check>;<ids>/<check>;...   (err:<msg> for a call that returned an error)
//
// Cancel line:   c <n> <keep> | <obj> ...    one extraction whose ReadSeeker cancels the context on its n-th rewind.
//	Result: cancel=err:<msg> | cancel=ok/<ids>/<check>   plus rewinds=<k>
//
// Result:      seq=<passes>/<keepcalls>/<ids>/<check> par=<runs>/<ids>;<ids>;.../<checkfails>
//
//	filt=<ids>;.../<check>  filt2=<ids>;...
//
// ids = n1,n2,w1,r1 (sorted by kind then id) or -.  dig=<h> and the suffix ~<h> of every `par` id set is a digest of
// everything else an observer sees of the result (stored objects, Geom, CountTags; obs.go): it must not depend on
// the schedule either.  Lines starting with `p` are described in obs.go.
//
// `seq` is one extraction with GOMAXPROCS=1 (one worker: sequential, deterministic, so the number
// of passes over the file and the number of keep calls are compared exactly with the model).
// `par` are <runs> extractions with GOMAXPROCS in {2,4,16} under a wrapped KeepFunc that delays
// (sleep / Gosched) on seeded object ids, which lands in the window between the kept-set read and
// the store; all distinct results are reported.  `filt` = Filter applied to the KeepAll extraction
// (several times: Go map order varies), `filt2` = Filter applied to that result again.
package main

import (
	"bytes"
	"context"
	"fmt"
	"io"
	"os"
	"runtime"
	"sort"
	"strconv"
	"strings"
	"sync"
	"sync/atomic"
	"time"

	"github.com/ctessum/geom"
	gosm "github.com/ctessum/geom/encoding/osm"
	"github.com/paulmach/osm"

	"verif/harness/vproto"
)

type ref struct {
	kind byte // 'n','w','r'
	id   int64
}

type obj struct {
	ref
	x, y int // node position: lon, lat (integer grid; bounds edges pass exactly through nodes)
	refs []ref
	tags [][2]int
}

func (r ref) String() string { return fmt.Sprintf("%c%d", r.kind, r.id) }

func tagsTok(t [][2]int) string {
	if len(t) == 0 {
		return "-"
	}
	s := make([]string, len(t))
	for i, kv := range t {
		s[i] = fmt.Sprintf("%d=%d", kv[0], kv[1])
	}
	return strings.Join(s, ";")
}

func (o obj) tok() string {
	switch o.kind {
	case 'B', 'N', 'U':
		return string(o.kind)
	case 'n':
		return fmt.Sprintf("n%d:%d,%d:%s", o.id, o.x, o.y, tagsTok(o.tags))
	case 'w':
		s := make([]string, len(o.refs))
		for i, r := range o.refs {
			s[i] = strconv.FormatInt(r.id, 10)
		}
		rs := strings.Join(s, ",")
		if rs == "" {
			rs = "-"
		}
		return fmt.Sprintf("w%d:%s:%s", o.id, rs, tagsTok(o.tags))
	default:
		s := make([]string, len(o.refs))
		for i, r := range o.refs {
			s[i] = r.String()
		}
		rs := strings.Join(s, ",")
		if rs == "" {
			rs = "-"
		}
		return fmt.Sprintf("r%d:%s:%s", o.id, rs, tagsTok(o.tags))
	}
}

func parseTags(s string) [][2]int {
	if s == "-" || s == "" {
		return nil
	}
	var out [][2]int
	for _, kv := range strings.Split(s, ";") {
		p := strings.SplitN(kv, "=", 2)
		k, _ := strconv.Atoi(p[0])
		v, _ := strconv.Atoi(p[1])
		out = append(out, [2]int{k, v})
	}
	return out
}

func parseObj(t string) obj {
	if t == "B" || t == "N" || t == "U" {
		return obj{ref: ref{t[0], 0}}
	}
	p := strings.Split(t, ":")
	if len(p) != 3 || len(p[0]) < 2 {
		panic("bad object token " + t)
	}
	id, err := strconv.ParseInt(p[0][1:], 10, 64)
	if err != nil {
		panic(err)
	}
	o := obj{ref: ref{p[0][0], id}, tags: parseTags(p[2])}
	switch o.kind {
	case 'n':
		xy := strings.Split(p[1], ",")
		if len(xy) != 2 {
			panic("bad node position " + t)
		}
		o.x, _ = strconv.Atoi(xy[0])
		o.y, _ = strconv.Atoi(xy[1])
	case 'w':
		if p[1] != "-" {
			for _, s := range strings.Split(p[1], ",") {
				n, err := strconv.ParseInt(s, 10, 64)
				if err != nil {
					panic(err)
				}
				o.refs = append(o.refs, ref{'n', n})
			}
		}
	case 'r':
		if p[1] != "-" {
			for _, s := range strings.Split(p[1], ",") {
				n, err := strconv.ParseInt(s[1:], 10, 64)
				if err != nil {
					panic(err)
				}
				o.refs = append(o.refs, ref{s[0], n})
			}
		}
	default:
		panic("bad object kind " + t)
	}
	return o
}

// valS: the string of a tag-value code: "v<code>", code 0 = the EMPTY string (`<tag k="k1" v=""/>`)
func valS(v int) string {
	if v == 0 {
		return ""
	}
	return fmt.Sprintf("v%d", v)
}

// valCode: inverse of valS for the tokens of the case line ("0" = empty value)
func valTok(v string) string {
	if v == "" {
		return "0"
	}
	return strings.TrimPrefix(v, "v")
}

func xmlTags(b *bytes.Buffer, t [][2]int) {
	for _, kv := range t {
		fmt.Fprintf(b, `<tag k="k%d" v="%s"/>`, kv[0], valS(kv[1]))
	}
}

// buildXML renders the document in file order; node positions are small integers (lon = x, lat = y).
func buildXML(objs []obj) []byte {
	var b bytes.Buffer
	b.WriteString(`<?xml version="1.0" encoding="UTF-8"?>` + "\n" + `<osm version="0.6" generator="verif">` + "\n")
	for _, o := range objs {
		switch o.kind {
		case 'n':
			fmt.Fprintf(&b, `<node id="%d" lat="%d" lon="%d" version="1">`, o.id, o.y, o.x)
			xmlTags(&b, o.tags)
			b.WriteString("</node>\n")
		case 'B':
			b.WriteString(`<bounds minlat="-10" minlon="-10" maxlat="10" maxlon="10"/>` + "\n")
		case 'N':
			b.WriteString(`<note lat="1" lon="1"><id>5</id><status>open</status></note>` + "\n")
		case 'U':
			b.WriteString(`<user id="7" display_name="verif"></user>` + "\n")
		case 'w':
			fmt.Fprintf(&b, `<way id="%d" version="1">`, o.id)
			for _, r := range o.refs {
				fmt.Fprintf(&b, `<nd ref="%d"/>`, r.id)
			}
			xmlTags(&b, o.tags)
			b.WriteString("</way>\n")
		case 'r':
			fmt.Fprintf(&b, `<relation id="%d" version="1">`, o.id)
			for _, r := range o.refs {
				ty := map[byte]string{'n': "node", 'w': "way", 'r': "relation"}[r.kind]
				fmt.Fprintf(&b, `<member type="%s" ref="%d" role=""/>`, ty, r.id)
			}
			xmlTags(&b, o.tags)
			b.WriteString("</relation>\n")
		}
	}
	b.WriteString("</osm>\n")
	return b.Bytes()
}

func parseKeep(s string) gosm.KeepFunc {
	switch {
	case s == "all":
		return gosm.KeepAll()
	case strings.HasPrefix(s, "bounds:"):
		var v [4]float64
		for i, t := range strings.Split(s[7:], ",") {
			n, err := strconv.Atoi(t)
			if err != nil || i > 3 {
				panic("bad bounds " + s)
			}
			v[i] = float64(n)
		}
		return gosm.KeepBounds(&geom.Bounds{Min: geom.Point{X: v[0], Y: v[1]}, Max: geom.Point{X: v[2], Y: v[3]}})
	case strings.HasPrefix(s, "tags:"):
		m := map[string][]string{}
		for _, kv := range strings.Split(s[5:], ";") {
			p := strings.SplitN(kv, "=", 2)
			vals := []string{}
			if p[1] != "" {
				for _, v := range strings.Split(p[1], "|") {
					n, _ := strconv.Atoi(v)
					vals = append(vals, valS(n))
				}
			}
			m["k"+p[0]] = vals
		}
		return gosm.KeepTags(m)
	}
	panic("bad keep " + s)
}

func objRef(o interface{}) ref {
	switch t := o.(type) {
	case *osm.Node:
		return ref{'n', int64(t.ID)}
	case *osm.Way:
		return ref{'w', int64(t.ID)}
	case *osm.Relation:
		return ref{'r', int64(t.ID)}
	case *gosm.Node:
		return ref{'n', int64(t.ID)}
	case *gosm.Way:
		return ref{'w', int64(t.ID)}
	case *gosm.Relation:
		return ref{'r', int64(t.ID)}
	}
	return ref{'?', 0}
}

// watchdog for one extraction (normal ones take milliseconds; 100-pass chains well under a second)
const watchdog = 8 * time.Second

// steering: what to do around the real keep call for a given object
type delay struct {
	before, after int // 0 none; n>0: n x Gosched; n<0: sleep -n microseconds
	// rendezvous (deterministic windows instead of lucky sleeps): the keep call of this object
	// waits, before calling the real keep (waitBefore) or after it returned and before the caller stores
	// (waitAfter), until the keep call of `on` has RETURNED (plus a short grace period so that its caller has
	// stored) — or until a timeout, so that a file order / worker count in which `on` can never be reached
	// concurrently costs 2 ms instead of a deadlock.
	waitBefore, waitAfter bool
	on                    ref
}

// rendezvous bookkeeping of one extraction
type rdv struct {
	mu   sync.Mutex
	done map[ref]chan struct{}
}

func (r *rdv) ch(x ref) chan struct{} {
	r.mu.Lock()
	defer r.mu.Unlock()
	c, ok := r.done[x]
	if !ok {
		c = make(chan struct{})
		r.done[x] = c
	}
	return c
}

func (r *rdv) signal(x ref) {
	c := r.ch(x)
	r.mu.Lock()
	defer r.mu.Unlock()
	select {
	case <-c:
	default:
		close(c)
	}
}

func (r *rdv) wait(x ref) {
	select {
	case <-r.ch(x):
		time.Sleep(30 * time.Microsecond)
	case <-time.After(2 * time.Millisecond):
	}
}

func doDelay(n int) {
	if n > 0 {
		for i := 0; i < n; i++ {
			runtime.Gosched()
		}
	} else if n < 0 {
		time.Sleep(time.Duration(-n) * time.Microsecond)
	}
}

func wrapKeep(k gosm.KeepFunc, calls *int64, steer map[ref]delay) gosm.KeepFunc {
	rv := &rdv{done: map[ref]chan struct{}{}}
	return func(d *gosm.Data, o interface{}) bool {
		atomic.AddInt64(calls, 1)
		if steer == nil {
			return k(d, o)
		}
		me := objRef(o)
		dl, ok := steer[me]
		if !ok {
			r := k(d, o)
			rv.signal(me)
			return r
		}
		doDelay(dl.before)
		if dl.waitBefore {
			rv.wait(dl.on)
		}
		r := k(d, o)
		rv.signal(me)
		doDelay(dl.after)
		if dl.waitAfter {
			rv.wait(dl.on)
		}
		return r
	}
}

// countingReader counts Seek(0,0) calls = passes over the file
type countingReader struct {
	*bytes.Reader
	seeks int
}

func (c *countingReader) Seek(off int64, whence int) (int64, error) {
	if off == 0 && whence == io.SeekStart {
		c.seeks++
	}
	return c.Reader.Seek(off, whence)
}

func idsOf(d *gosm.Data) string {
	var rs []ref
	for id := range d.Nodes {
		rs = append(rs, ref{'n', int64(id)})
	}
	for id := range d.Ways {
		rs = append(rs, ref{'w', int64(id)})
	}
	for id := range d.Relations {
		rs = append(rs, ref{'r', int64(id)})
	}
	return refsStr(rs)
}

func kindRank(k byte) int { return strings.IndexByte("nwr", k) }

func refsStr(rs []ref) string {
	if len(rs) == 0 {
		return "-"
	}
	sort.Slice(rs, func(i, j int) bool {
		if rs[i].kind != rs[j].kind {
			return kindRank(rs[i].kind) < kindRank(rs[j].kind)
		}
		return rs[i].id < rs[j].id
	})
	s := make([]string, len(rs))
	for i, r := range rs {
		s[i] = r.String()
	}
	return strings.Join(s, ",")
}

func checkStr(d *gosm.Data) string {
	if err := d.Check(); err != nil {
		return "fail"
	}
	return "ok"
}

type extractRes struct {
	d      *gosm.Data
	err    error
	passes int
	calls  int64
	hang   bool
	panic  string
}

// extractOnce runs ExtractXML with the given GOMAXPROCS under a watchdog.
func extractOnce(xmlDoc []byte, keep gosm.KeepFunc, procs int, steer map[ref]delay) extractRes {
	prev := runtime.GOMAXPROCS(procs)
	defer runtime.GOMAXPROCS(prev)
	var res extractRes
	rd := &countingReader{Reader: bytes.NewReader(xmlDoc)}
	done := make(chan struct{})
	go func() {
		defer close(done)
		res.panic = vproto.Safe(func() {
			res.d, res.err = gosm.ExtractXML(context.Background(), rd, wrapKeep(keep, &res.calls, steer), true)
		})
	}()
	select {
	case <-done:
	case <-time.After(watchdog):
		return extractRes{hang: true}
	}
	res.passes = rd.seeks
	return res
}

func distinctStr(m map[string]int) string {
	ks := make([]string, 0, len(m))
	for k := range m {
		ks = append(ks, k)
	}
	sort.Strings(ks)
	return strings.Join(ks, ";")
}

// cancelReader cancels the context on its n-th Seek(0,0)
type cancelReader struct {
	*bytes.Reader
	seeks, n int
	cancel   context.CancelFunc
}

func (c *cancelReader) Seek(off int64, whence int) (int64, error) {
	if off == 0 && whence == io.SeekStart {
		c.seeks++
		if c.seeks == c.n {
			c.cancel()
		}
	}
	return c.Reader.Seek(off, whence)
}

// guarded runs f under recover and a watchdog
func guarded(f func()) (panicked string, hang bool) {
	done := make(chan struct{})
	go func() {
		defer close(done)
		panicked = vproto.Safe(f)
	}()
	select {
	case <-done:
		return panicked, false
	case <-time.After(watchdog):
		return "", true
	}
}

func splitBar(f []string) (head []string, objs []obj) {
	i := 0
	for i < len(f) && f[i] != "|" {
		i++
	}
	head = f[:i]
	if i < len(f) {
		for _, t := range f[i+1:] {
			objs = append(objs, parseObj(t))
		}
	}
	return
}

func errTok(err error) string { return "err:" + strings.ReplaceAll(err.Error(), " ", "_") }

// histLine: several extractions on ONE reader
func histLine(f []string) (string, bool) {
	head, objs := splitBar(f)
	if len(head) < 3 {
		return "badline", false
	}
	xmlDoc := buildXML(objs)
	prev := runtime.GOMAXPROCS(1)
	defer runtime.GOMAXPROCS(prev)
	rd := bytes.NewReader(xmlDoc)
	switch head[1] {
	case "m":
		rd.Seek(int64(len(xmlDoc)/2), io.SeekStart)
	case "e":
		rd.Seek(0, io.SeekEnd)
	}
	var parts []string
	for _, kt := range head[2:] {
		keep := parseKeep(kt)
		var d *gosm.Data
		var err error
		pan, hang := guarded(func() { d, err = gosm.ExtractXML(context.Background(), rd, keep, true) })
		if hang {
			return "timeout hist", true
		}
		switch {
		case pan != "":
			parts = append(parts, "panic:"+pan)
		case err != nil:
			parts = append(parts, errTok(err))
		default:
			parts = append(parts, idsOf(d)+"/"+checkStr(d))
		}
	}
	return "hist=" + strings.Join(parts, ";"), false
}

// cancelLine: the context is cancelled on the n-th rewind of the input
func cancelLine(f []string) (string, bool) {
	head, objs := splitBar(f)
	if len(head) != 3 {
		return "badline", false
	}
	n, _ := strconv.Atoi(head[1])
	keep := parseKeep(head[2])
	xmlDoc := buildXML(objs)
	prev := runtime.GOMAXPROCS(1)
	defer runtime.GOMAXPROCS(prev)
	ctx, cancel := context.WithCancel(context.Background())
	defer cancel()
	rd := &cancelReader{Reader: bytes.NewReader(xmlDoc), n: n, cancel: cancel}
	var d *gosm.Data
	var err error
	pan, hang := guarded(func() { d, err = gosm.ExtractXML(ctx, rd, keep, true) })
	if hang {
		return "timeout cancel", true
	}
	switch {
	case pan != "":
		return fmt.Sprintf("cancel=panic:%s rewinds=%d", pan, rd.seeks), false
	case err != nil:
		return fmt.Sprintf("cancel=%s rewinds=%d", errTok(err), rd.seeks), false
	}
	return fmt.Sprintf("cancel=ok/%s/%s rewinds=%d", idsOf(d), checkStr(d), rd.seeks), false
}

// dupLine: a document that repeats ids: one GOMAXPROCS=1 extraction (ids, Check, passes, stored objects) and
// three extractions under GOMAXPROCS 4 / 3 / 16 with yields around the keep calls (ids, Check)
func dupLine(f []string) (string, bool) {
	head, objs := splitBar(f)
	if len(head) != 2 {
		return "badline", false
	}
	keep := parseKeep(head[1])
	xmlDoc := buildXML(objs)
	one := func(procs int, steer map[ref]delay) (string, *gosm.Data, int, bool) {
		r := extractOnce(xmlDoc, keep, procs, steer)
		switch {
		case r.hang:
			return "", nil, 0, true
		case r.panic != "":
			return "panic:" + strings.ReplaceAll(r.panic, " ", "_"), nil, 0, false
		case r.err != nil:
			return errTok(r.err), nil, 0, false
		}
		return idsOf(r.d) + "/" + checkStr(r.d), r.d, r.passes, false
	}
	sq, d, passes, hang := one(1, nil)
	if hang {
		return "timeout dup", true
	}
	content := "-"
	if d != nil {
		content = contentOf(d)
	}
	steer := map[ref]delay{}
	for _, o := range objs {
		steer[o.ref] = delay{after: 1}
	}
	var par []string
	for _, p := range []int{4, 3, 16} {
		s, _, _, hang := one(p, steer)
		if hang {
			return "timeout dup", true
		}
		par = append(par, s)
	}
	return fmt.Sprintf("dup=%s/%d content=%s par=%s", sq, passes, content, strings.Join(par, ";")), false
}

func implLine(line string) (res string, fatal bool) {
	f := strings.Fields(line)
	if len(f) > 0 && f[0] == "d" {
		return dupLine(f)
	}
	if len(f) > 0 && f[0] == "h" {
		return histLine(f)
	}
	if len(f) > 0 && f[0] == "c" {
		return cancelLine(f)
	}
	if len(f) > 0 && f[0] == "p" {
		return pbfLine(f)
	}
	if len(f) > 0 && f[0] == "t" {
		return truncLine(f)
	}
	if len(f) < 5 || f[0] != "x" || f[4] != "|" {
		return "badline", false
	}
	keepTok := f[1]
	runs, _ := strconv.Atoi(f[2])
	seed, _ := strconv.ParseUint(f[3], 10, 64)
	objs := make([]obj, 0, len(f)-5)
	for _, t := range f[5:] {
		objs = append(objs, parseObj(t))
	}
	xmlDoc := buildXML(objs)
	keep := parseKeep(keepTok)

	// 1. sequential
	sq := extractOnce(xmlDoc, keep, 1, nil)
	if sq.hang {
		return "timeout seq GOMAXPROCS=1", true
	}
	if sq.panic != "" {
		return "panic seq " + sq.panic, false
	}
	if sq.err != nil {
		return "error seq " + strings.ReplaceAll(sq.err.Error(), " ", "_"), false
	}
	var b strings.Builder
	fmt.Fprintf(&b, "seq=%d/%d/%s/%s dig=%s", sq.passes, sq.calls, idsOf(sq.d), checkStr(sq.d), obsDigest(sq.d))

	// 2. steered parallel runs
	rng := vproto.NewRng(seed)
	distinct := map[string]int{}
	checkFails := 0
	for i := 0; i < runs; i++ {
		procs := []int{2, 4, 16, 2, 3}[rng.Intn(5)]
		steer := map[ref]delay{}
		mode := rng.Intn(6)
		nd := 1 + rng.Intn(3)
		if mode == 3 {
			nd = len(objs) // yield everywhere (cheap Gosched only)
		}
		for j := 0; j < nd; j++ {
			o := objs[rng.Intn(len(objs))]
			if mode == 3 {
				o = objs[j]
			}
			var dl delay
			switch mode {
			case 4, 5: // rendezvous between an object and one that references it (or any other object)
				dl.on = objs[rng.Intn(len(objs))].ref
				var users []ref
				for _, u := range objs {
					for _, rr := range u.refs {
						if rr == o.ref {
							users = append(users, u.ref)
						}
					}
				}
				if len(users) > 0 && rng.Intn(4) != 0 {
					dl.on = users[rng.Intn(len(users))]
				}
				if mode == 4 { // o is judged, its user is judged (and sees o not stored), then o is stored
					dl.waitAfter = true
				} else { // o is judged only after its user has been judged and stored
					dl.waitBefore = true
				}
			case 0: // hold the store back: sleep after keep decided
				dl.after = -(20 + rng.Intn(120))
			case 1: // hold the read back
				dl.before = -(20 + rng.Intn(120))
			case 2:
				dl.before, dl.after = rng.Intn(40), rng.Intn(40)
			default:
				dl.before, dl.after = rng.Intn(3), rng.Intn(3)
			}
			steer[o.ref] = dl
		}
		r := extractOnce(xmlDoc, keep, procs, steer)
		if r.hang {
			return fmt.Sprintf("timeout par GOMAXPROCS=%d", procs), true
		}
		if r.panic != "" {
			return "panic par " + r.panic, false
		}
		if r.err != nil {
			return "error par " + strings.ReplaceAll(r.err.Error(), " ", "_"), false
		}
		distinct[idsOf(r.d)+"~"+obsDigest(r.d)]++
		if r.d.Check() != nil {
			checkFails++
		}
	}
	if runs == 0 {
		b.WriteString(" par=0/none/0")
	} else {
		fmt.Fprintf(&b, " par=%d/%s/%d", runs, distinctStr(distinct), checkFails)
	}

	// 3. Filter (tags / all only: KeepBounds does not accept the stored object types)
	if !strings.HasPrefix(keepTok, "bounds") {
		all := extractOnce(xmlDoc, gosm.KeepAll(), 1, nil)
		if all.hang {
			return "timeout all", true
		}
		if all.panic != "" || all.err != nil {
			return "error all", false
		}
		f1s, f2s := map[string]int{}, map[string]int{}
		fdig, fdig2 := map[string]int{}, map[string]int{} // stored objects + Geom + CountTags of the Filter results
		chk := "ok"
		var pan string
		for i := 0; i < 4; i++ {
			pan = vproto.Safe(func() {
				f1 := all.d.Filter(keep)
				f1s[idsOf(f1)]++
				fdig[obsDigest(f1)]++
				if f1.Check() != nil {
					chk = "fail"
				}
				f2 := f1.Filter(keep)
				f2s[idsOf(f2)]++
				fdig2[obsDigest(f2)]++
			})
			if pan != "" {
				break
			}
		}
		if pan != "" {
			fmt.Fprintf(&b, " filt=panic:%s", pan)
		} else {
			fmt.Fprintf(&b, " filt=%s/%s filt2=%s fdig=%s|%s", distinctStr(f1s), chk, distinctStr(f2s), distinctStr(fdig), distinctStr(fdig2))
		}
	} else {
		b.WriteString(" filt=skip")
	}
	return b.String(), false
}

var hangs int

func impl() {
	vproto.Lines(func(line string, out *bufioWriter) {
		var res string
		var fatal bool
		pan := vproto.Safe(func() { res, fatal = implLine(line) })
		if pan != "" {
			res = "panic harness " + pan
		}
		fmt.Fprintf(out, "%s => %s\n", line, res)
		out.Flush()
		// an extraction that hung leaves its goroutines blocked on the channel; they cost nothing, so carry on
		// with the next line in this process (exiting would make the orchestrator blame the NEXT line for a crash).
		// Give up only when hangs pile up.
		if fatal {
			hangs++
			if hangs > 12 {
				os.Exit(3)
			}
		}
	})
	if tmpDir != "" { // directory of the ExtractFile documents (obs.go)
		os.RemoveAll(tmpDir)
	}
}

func main() {
	if len(os.Args) < 2 {
		fmt.Fprintln(os.Stderr, "usage: c18 gen|impl")
		os.Exit(2)
	}
	switch os.Args[1] {
	case "gen":
		seed, tier := vproto.SeedTier(os.Args[2:])
		gen(seed, tier)
	case "impl":
		impl()
	case "skel":
		skelMain(os.Args[2:])
	case "t1":
		t1Main(os.Args[2:])
	}
}
