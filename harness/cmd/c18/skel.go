package main

// `c18 skel <dir of encoding/osm>` prints, for each function the interleaving model is written
// against, the sequence of events that matter for the model, extracted from the CURRENT Go source
// with go/ast: which lock is taken where, which map is read or written inside it, where the keep
// function is called, where the pass flag is raised, and the enclosing control structure.  The
// check regenerates lean/GeomV/C18/Gen.lean from this output; `GeomV.C18.skeleton_tie` (Proofs)
// states that it equals the skeleton the model's atomic steps were derived from, so a source
// change that moves a store out of its lock, drops a flag assignment or reorders reads breaks the
// build of the proofs even if no generated input shows a behavioural difference.

import (
	"fmt"
	"go/ast"
	"go/parser"
	"go/token"
	"os"
	"path/filepath"
	"sort"
	"strings"
)

var skelFuncs = map[string]bool{
	"extract": true, "Filter": true,
	"hasNeedNode": true, "hasNeedWay": true, "hasNeedRelation": true,
	"processNode": true, "processWay": true, "processRelation": true,
	"processNodeNoCopy": true, "processWayNoCopy": true, "processRelationNoCopy": true,
	"KeepBounds": true, "KeepTags": true, "KeepAll": true, "Check": true,
}

// functions added in phase 3 (entry points, copies, observers): EVERY call is an event, with its literal
// arguments, because what matters there is which function is delegated to and with which constants
// (`osmpbf.New(ctx, rs, 1)`, `extract(ctx, rs, scanFunc, keep, keepTags)`, the map a loop ranges over)
var skelAllCalls = map[string]bool{
	"ExtractFile": true, "ExtractPBF": true, "ExtractXML": true, "ExtractTag": true, "hasTag": true,
	"copyNode": true, "copyWay": true, "copyRelation": true,
	"Geom": true, "nodeToPoint": true, "wayToGeom": true, "wayIsClosed": true, "wayToPolygon": true,
	"wayToLineString": true, "relationToGeom": true, "relationToPolygon": true, "relationToGeometryCollection": true,
	"tagsToMap": true, "CountTags": true, "Data.CountTags": true, "Less": true,
}

type skel struct {
	ev  []string
	all bool
}

func (s *skel) add(f string, a ...interface{}) { s.ev = append(s.ev, fmt.Sprintf(f, a...)) }

func selName(e ast.Expr) string {
	switch t := e.(type) {
	case *ast.SelectorExpr:
		return t.Sel.Name
	case *ast.Ident:
		return t.Name
	}
	return ""
}

// expression events: calls to hasNeed*/keep/locks, map reads of the Data maps
func (s *skel) expr(e ast.Expr) {
	ast.Inspect(e, func(n ast.Node) bool {
		switch t := n.(type) {
		case *ast.FuncLit:
			s.add("func{")
			s.block(t.Body)
			s.add("}")
			return false
		case *ast.CallExpr:
			name := selName(t.Fun)
			switch {
			case s.all:
				as := make([]string, len(t.Args))
				for i, a := range t.Args {
					as[i] = exprStr(a)
				}
				s.add("call:%s(%s)", name, strings.Join(as, ","))
			case strings.HasPrefix(name, "hasNeed"):
				s.add("call:%s", name)
			case name == "keep":
				s.add("call:keep")
			case name == "Lock" || name == "Unlock" || name == "RLock" || name == "RUnlock":
				if se, ok := t.Fun.(*ast.SelectorExpr); ok {
					s.add("%s:%s", name, selName(se.X))
				}
			case strings.HasPrefix(name, "process") || name == "hasTag" || name == "Overlaps" ||
				name == "Wait" || name == "Go" || name == "Seek" || name == "Scan" || name == "close":
				s.add("call:%s", name)
			}
		case *ast.IndexExpr:
			if n := selName(t.X); s.all {
				s.add("index:%s", exprStr(t.X))
			} else if isDataMap(n) {
				s.add("index:%s", n)
			}
		}
		return true
	})
}

func isDataMap(n string) bool {
	switch n {
	case "Nodes", "Ways", "Relations", "dependentNodes", "dependentWays", "dependentRelations":
		return true
	}
	return false
}

func (s *skel) stmt(st ast.Stmt) {
	switch t := st.(type) {
	case nil:
	case *ast.BlockStmt:
		s.block(t)
	case *ast.ExprStmt:
		s.expr(t.X)
	case *ast.DeferStmt:
		s.add("defer{")
		s.expr(t.Call)
		s.add("}")
	case *ast.AssignStmt:
		for _, r := range t.Rhs {
			s.expr(r)
		}
		if s.all {
			ls, rs := []string{}, []string{}
			for _, l := range t.Lhs {
				ls = append(ls, exprStr(l))
			}
			for _, r := range t.Rhs {
				rs = append(rs, exprStr(r))
			}
			s.add("assign:%s%s%s", strings.Join(ls, ","), t.Tok.String(), strings.Join(rs, ","))
			return
		}
		for i, l := range t.Lhs {
			if ix, ok := l.(*ast.IndexExpr); ok && isDataMap(selName(ix.X)) {
				s.add("write:%s", selName(ix.X))
				continue
			}
			if id, ok := l.(*ast.Ident); ok {
				switch id.Name {
				case "anotherPass", "needAnotherPass", "has", "need":
					v := "?"
					if i < len(t.Rhs) {
						if b, ok := t.Rhs[i].(*ast.Ident); ok {
							v = b.Name
						} else if u, ok := t.Rhs[i].(*ast.UnaryExpr); ok {
							v = u.Op.String() + selName(u.X)
						}
					}
					if t.Tok == token.DEFINE && v != "true" && v != "false" {
						continue
					}
					s.add("set:%s=%s", id.Name, v)
				}
			}
		}
	case *ast.IfStmt:
		s.add("if{")
		s.stmt(t.Init)
		s.add("cond:%s", condStr(t.Cond))
		s.expr(t.Cond)
		s.add("then{")
		s.block(t.Body)
		s.add("}")
		if t.Else != nil {
			s.add("else{")
			s.stmt(t.Else)
			s.add("}")
		}
		s.add("}")
	case *ast.ForStmt:
		s.add("for{")
		if t.Cond != nil {
			s.add("cond:%s", condStr(t.Cond))
			s.expr(t.Cond)
		}
		s.block(t.Body)
		s.add("}")
	case *ast.RangeStmt:
		s.add("range:%s{", rangeStr(t.X))
		s.block(t.Body)
		s.add("}")
	case *ast.SwitchStmt:
		s.add("switch{")
		s.block(t.Body)
		s.add("}")
	case *ast.TypeSwitchStmt:
		s.add("typeswitch{")
		s.block(t.Body)
		s.add("}")
	case *ast.CaseClause:
		names := []string{}
		for _, e := range t.List {
			names = append(names, exprStr(e))
		}
		if t.List == nil {
			names = []string{"default"}
		}
		s.add("case:%s{", strings.Join(names, "|"))
		for _, b := range t.Body {
			s.stmt(b)
		}
		s.add("}")
	case *ast.ReturnStmt:
		for _, r := range t.Results {
			s.expr(r)
		}
		rs := []string{}
		for _, r := range t.Results {
			rs = append(rs, exprStr(r))
		}
		s.add("return:%s", strings.Join(rs, ","))
	case *ast.SendStmt:
		s.add("send:%s", selName(t.Chan))
	case *ast.GoStmt:
		s.expr(t.Call)
	case *ast.IncDecStmt:
		if s.all {
			s.add("incdec:%s%s", exprStr(t.X), t.Tok.String())
		}
	case *ast.BranchStmt:
		if s.all {
			s.add("branch:%s", t.Tok.String())
		}
	case *ast.DeclStmt, *ast.EmptyStmt:
	default:
		s.add("stmt:%T", st)
	}
}

func (s *skel) block(b *ast.BlockStmt) {
	if b == nil {
		return
	}
	for _, st := range b.List {
		s.stmt(st)
	}
}

// short stable rendering of small expressions (identifiers, selectors, !x, a||b, a&&b, literals)
func exprStr(e ast.Expr) string {
	switch t := e.(type) {
	case *ast.Ident:
		return t.Name
	case *ast.SelectorExpr:
		return exprStr(t.X) + "." + t.Sel.Name
	case *ast.StarExpr:
		return "*" + exprStr(t.X)
	case *ast.UnaryExpr:
		return t.Op.String() + exprStr(t.X)
	case *ast.BinaryExpr:
		return "(" + exprStr(t.X) + t.Op.String() + exprStr(t.Y) + ")"
	case *ast.ParenExpr:
		return exprStr(t.X)
	case *ast.CallExpr:
		return selName(t.Fun) + "()"
	case *ast.BasicLit:
		return t.Value
	case *ast.IndexExpr:
		return exprStr(t.X) + "[]"
	case *ast.TypeAssertExpr:
		return exprStr(t.X) + ".()"
	case *ast.CompositeLit:
		es := make([]string, len(t.Elts))
		for i, e := range t.Elts {
			es[i] = exprStr(e)
		}
		return exprStr(t.Type) + "{" + strings.Join(es, ",") + "}"
	case *ast.KeyValueExpr:
		return exprStr(t.Key) + ":" + exprStr(t.Value)
	case *ast.MapType:
		return "map[" + exprStr(t.Key) + "]" + exprStr(t.Value)
	case *ast.ArrayType:
		return "[]" + exprStr(t.Elt)
	}
	return "_"
}

func condStr(e ast.Expr) string { return exprStr(e) }
func rangeStr(e ast.Expr) string { return exprStr(e) }

func skeleton(dir string) (string, error) {
	fset := token.NewFileSet()
	var lines []string
	for _, f := range []string{"extract.go", "keep.go", "check.go", "geom.go", "tags.go"} {
		af, err := parser.ParseFile(fset, filepath.Join(dir, f), nil, 0)
		if err != nil {
			return "", err
		}
		for _, d := range af.Decls {
			fd, ok := d.(*ast.FuncDecl)
			if !ok {
				continue
			}
			name := fd.Name.Name
			if f == "tags.go" || f == "geom.go" {
				if fd.Recv != nil && len(fd.Recv.List) == 1 {
					name = strings.TrimPrefix(exprStr(fd.Recv.List[0].Type), "*") + "." + name
				}
				if name == "Data.Geom" || name == "Tags.Less" {
					name = fd.Name.Name
				}
				if !skelAllCalls[name] {
					continue
				}
			} else if !skelFuncs[name] && !skelAllCalls[name] {
				continue
			}
			s := &skel{all: skelAllCalls[name] && !skelFuncs[name]}
			s.block(fd.Body)
			lines = append(lines, name+": "+strings.Join(s.ev, " "))
		}
	}
	sort.Strings(lines)
	return strings.Join(lines, "\n"), nil
}

func skelMain(args []string) {
	if len(args) < 1 {
		fmt.Fprintln(os.Stderr, "usage: c18 skel <dir>")
		os.Exit(2)
	}
	s, err := skeleton(args[0])
	if err != nil {
		fmt.Fprintln(os.Stderr, err)
		os.Exit(1)
	}
	fmt.Println(s)
}
