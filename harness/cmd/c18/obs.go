package main

// Observation points of the property besides the id sets (properties.jsonl observe_at):
//   - the stored objects themselves (reference lists, tags, positions) rendered back as object tokens,
//   - (*Data).Geom and (*Data).CountTags on an extraction result,
//   - ExtractPBF / ExtractTag / ExtractFile / CountTags(ctx, rs) on a PBF rendering of the document (pbf.go).
//
// Line:  p <variant> <keep> | <obj> ...
// Result fields (all canonical, sorted where Go map order would show):
//   pbf=<passes>/<ids>/<check>        ExtractPBF, GOMAXPROCS=1
//   pbfpar=<ids>;<ids>...             3 ExtractPBF runs under GOMAXPROCS 4/16/3 with yields around every keep call
//   content=<obj>+<obj>...            the stored objects of the PBF extraction as object tokens (sorted by kind, id)
//   xcontent=...                      the same for ExtractXML
//   nt=<obj>+...                      ExtractXML with keepTags=false
//   file=<ids .osm>|<ids .pbf>|<answer for extension .txt>      ExtractFile
//   tag=<ids>|skip                    ExtractTag (keep functions by tags with ONE key)
//   count=<row>,<row>...              CountTags(ctx, pbf)    row = k<k>=v<v>:total:node:closedway:openway:relation
//   dcount=...                        (*Data).CountTags of the PBF extraction
//   geom=<item>,<item>...             (*Data).Geom of the PBF extraction, items sorted
//                                     N<x>_<y>{tags} | L<x>_<y>;...{tags} | G<ring>{tags} | R<pg|ml|mp|gc>{tags}
//   a panic is reported as panic:<msg>, an error as err:<msg>, in the field it happened in.

import (
	"bytes"
	"context"
	"fmt"
	"hash/fnv"
	"math"
	"os"
	"path/filepath"
	"runtime"
	"sort"
	"strconv"
	"strings"

	"github.com/ctessum/geom"
	gosm "github.com/ctessum/geom/encoding/osm"
	"github.com/paulmach/osm"

	"verif/harness/vproto"
)

func numTok(f float64) string {
	if f == math.Trunc(f) && math.Abs(f) < 1e9 {
		return fmt.Sprintf("%d", int64(f))
	}
	return "x" + vproto.F2H(f)
}

func osmTagsTok(t osm.Tags) string {
	if len(t) == 0 {
		return "-"
	}
	s := make([]string, len(t))
	for i, kv := range t {
		s[i] = strings.TrimPrefix(kv.Key, "k") + "=" + valTok(kv.Value)
	}
	return strings.Join(s, ";")
}

// contentOf renders the stored objects back into the object tokens of the case line
func contentOf(d *gosm.Data) string {
	type item struct {
		r ref
		s string
	}
	var items []item
	for id, n := range d.Nodes {
		if n == nil {
			items = append(items, item{ref{'n', int64(id)}, fmt.Sprintf("n%d:nil", id)})
			continue
		}
		items = append(items, item{ref{'n', int64(id)}, fmt.Sprintf("n%d:%s,%s:%s", n.ID, numTok(n.Lon), numTok(n.Lat), osmTagsTok(n.Tags))})
	}
	for id, w := range d.Ways {
		if w == nil {
			items = append(items, item{ref{'w', int64(id)}, fmt.Sprintf("w%d:nil", id)})
			continue
		}
		s := make([]string, len(w.Nodes))
		for i, n := range w.Nodes {
			s[i] = fmt.Sprintf("%d", n)
		}
		rs := strings.Join(s, ",")
		if rs == "" {
			rs = "-"
		}
		items = append(items, item{ref{'w', int64(id)}, fmt.Sprintf("w%d:%s:%s", w.ID, rs, osmTagsTok(w.Tags))})
	}
	for id, r := range d.Relations {
		if r == nil {
			items = append(items, item{ref{'r', int64(id)}, fmt.Sprintf("r%d:nil", id)})
			continue
		}
		s := make([]string, len(r.Members))
		for i, m := range r.Members {
			k := "?"
			switch m.Type {
			case osm.TypeNode:
				k = "n"
			case osm.TypeWay:
				k = "w"
			case osm.TypeRelation:
				k = "r"
			}
			s[i] = fmt.Sprintf("%s%d", k, m.Ref)
		}
		rs := strings.Join(s, ",")
		if rs == "" {
			rs = "-"
		}
		items = append(items, item{ref{'r', int64(id)}, fmt.Sprintf("r%d:%s:%s", r.ID, rs, osmTagsTok(r.Tags))})
	}
	if len(items) == 0 {
		return "-"
	}
	sort.Slice(items, func(i, j int) bool {
		if items[i].r.kind != items[j].r.kind {
			return kindRank(items[i].r.kind) < kindRank(items[j].r.kind)
		}
		return items[i].r.id < items[j].r.id
	})
	s := make([]string, len(items))
	for i, it := range items {
		s[i] = it.s
	}
	return strings.Join(s, "+")
}

func tagMapTok(m map[string][]string) string {
	if len(m) == 0 {
		return "{}"
	}
	ks := make([]string, 0, len(m))
	for k := range m {
		ks = append(ks, k)
	}
	sort.Strings(ks)
	s := make([]string, len(ks))
	for i, k := range ks {
		s[i] = k + "=" + strings.Join(m[k], "|")
	}
	return "{" + strings.Join(s, "&") + "}"
}

func ptsTok(ps []geom.Point) string {
	s := make([]string, len(ps))
	for i, p := range ps {
		s[i] = numTok(p.X) + "_" + numTok(p.Y)
	}
	return strings.Join(s, ";")
}

// full rendering of a geometry (goes into the digest; the judge sees only the kind for relations)
func geomFull(g geom.Geom) string {
	switch t := g.(type) {
	case geom.Point:
		return "N" + numTok(t.X) + "_" + numTok(t.Y)
	case geom.LineString:
		return "L" + ptsTok(t)
	case geom.Polygon:
		s := make([]string, len(t))
		for i, r := range t {
			s[i] = ptsTok(r)
		}
		return "G" + strings.Join(s, "/")
	case geom.MultiPoint:
		return "MP" + ptsTok(t)
	case geom.MultiLineString:
		s := make([]string, len(t))
		for i, l := range t {
			s[i] = ptsTok(l)
		}
		return "ML" + strings.Join(s, "/")
	case geom.GeometryCollection:
		s := make([]string, len(t))
		for i, x := range t {
			s[i] = geomFull(x)
		}
		return "GC[" + strings.Join(s, " ") + "]"
	case nil:
		return "nil"
	}
	return fmt.Sprintf("?%T", g)
}

// geomOf: the items of (*Data).Geom; `judge` form (relations by kind) and `full` form (for the digest)
func geomOf(d *gosm.Data) (judge string, full string) {
	var items []*gosm.GeomTags
	var err error
	if pan := vproto.Safe(func() { items, err = d.Geom() }); pan != "" {
		s := "panic:" + strings.ReplaceAll(pan, " ", "_")
		return s, s
	}
	if err != nil {
		return errTok(err), errTok(err)
	}
	nrel := 0
	if pan := vproto.Safe(func() { nrel = relationItems(d) }); pan != "" {
		nrel = -1
	}
	var js, fs []string
	for i, it := range items {
		f := geomFull(it.Geom) + tagMapTok(it.Tags)
		fs = append(fs, f)
		if i < nrel {
			k := "??"
			switch it.Geom.(type) {
			case geom.Polygon:
				k = "pg"
			case geom.MultiLineString:
				k = "ml"
			case geom.MultiPoint:
				k = "mp"
			case geom.GeometryCollection:
				k = "gc"
			}
			js = append(js, "R"+k+tagMapTok(it.Tags))
		} else {
			js = append(js, f)
		}
	}
	sort.Strings(js)
	sort.Strings(fs)
	if len(js) == 0 {
		return "-", "-"
	}
	return strings.Join(js, ","), strings.Join(fs, ",")
}

// relationItems: how many items of Geom come from relations.  Geom appends relation items first (then ways, then
// nodes), one per stored relation that is not a registered dependency.  A one-ring Polygon can come from a relation
// or from a closed way, so the origin is taken from the position in the list; the count is recomputed here from the
// stored objects themselves (a stored relation that no stored relation lists as a member — the SPECIFICATION of a
// root; only relations can reference relations).  If Geom's own bookkeeping (dependentRelations) disagrees, the
// labels shift and the judge reports the difference.
func relationItems(d *gosm.Data) int {
	// roots among relations, recomputed from the stored objects themselves (a relation is referenced iff some stored
	// relation lists it as a member — ways and nodes cannot reference relations)
	refd := map[int64]bool{}
	for _, r := range d.Relations {
		if r == nil {
			continue
		}
		for _, m := range r.Members {
			if m.Type == osm.TypeRelation {
				refd[m.Ref] = true
			}
		}
	}
	n := 0
	for id := range d.Relations {
		if !refd[int64(id)] {
			n++
		}
	}
	return n
}

func tagCountTok(t gosm.Tags) string {
	if len(t) == 0 {
		return "-"
	}
	s := make([]string, len(t))
	for i, c := range t {
		s[i] = fmt.Sprintf("%s=%s:%d:%d:%d:%d:%d", c.Key, c.Value, c.TotalCount, c.ObjectCount[gosm.NodeType],
			c.ObjectCount[gosm.ClosedWayType], c.ObjectCount[gosm.OpenWayType], c.ObjectCount[gosm.RelationType])
	}
	return strings.Join(s, ",")
}

func dcountOf(d *gosm.Data) string {
	var t gosm.Tags
	if pan := vproto.Safe(func() { t = d.CountTags() }); pan != "" {
		return "panic:" + strings.ReplaceAll(pan, " ", "_")
	}
	return tagCountTok(t)
}

// obsDigest: everything an observer of the result can see besides the id sets
func obsDigest(d *gosm.Data) string {
	h := fnv.New64a()
	_, full := geomOf(d)
	fmt.Fprintf(h, "%s\n%s\n%s", contentOf(d), full, dcountOf(d))
	return fmt.Sprintf("%016x", h.Sum64())[:10]
}

func yieldAll(objs []obj) map[ref]delay {
	m := map[ref]delay{}
	for i, o := range objs {
		m[o.ref] = delay{before: i % 3, after: (i + 1) % 3}
	}
	return m
}

type runOut struct {
	d      *gosm.Data
	err    error
	pan    string
	hang   bool
	passes int
}

func (r runOut) bad() string {
	switch {
	case r.hang:
		return "timeout"
	case r.pan != "":
		return "panic:" + strings.ReplaceAll(r.pan, " ", "_")
	case r.err != nil:
		return errTok(r.err)
	}
	return ""
}

func runWith(procs int, f func(rd *countingReader) (*gosm.Data, error), data []byte) runOut {
	prev := runtime.GOMAXPROCS(procs)
	defer runtime.GOMAXPROCS(prev)
	rd := &countingReader{Reader: bytes.NewReader(data)}
	var out runOut
	out.pan, out.hang = guarded(func() { out.d, out.err = f(rd) })
	if out.hang {
		return runOut{hang: true}
	}
	out.passes = rd.seeks
	return out
}

var tmpDir string

func pbfLine(f []string) (string, bool) {
	head, objs := splitBar(f)
	if len(head) != 3 {
		return "badline", false
	}
	variant := 0
	fmt.Sscanf(head[1], "%d", &variant)
	keepTok := head[2]
	keep := parseKeep(keepTok)
	pbf := buildPBF(objs, variant)
	xmlDoc := buildXML(objs)
	ctx := context.Background()
	var b strings.Builder
	hung := false

	// ExtractPBF, one worker
	sq := runWith(1, func(rd *countingReader) (*gosm.Data, error) { return gosm.ExtractPBF(ctx, rd, keep, true) }, pbf)
	if s := sq.bad(); s != "" {
		hung = hung || sq.hang
		fmt.Fprintf(&b, "pbf=%s", s)
		return b.String(), hung
	}
	fmt.Fprintf(&b, "pbf=%d/%s/%s", sq.passes, idsOf(sq.d), checkStr(sq.d))
	// ExtractPBF, several workers, yields around every keep call
	distinct := map[string]int{}
	for _, procs := range []int{4, 16, 3} {
		var calls int64
		r := runWith(procs, func(rd *countingReader) (*gosm.Data, error) {
			return gosm.ExtractPBF(ctx, rd, wrapKeep(keep, &calls, yieldAll(objs)), true)
		}, pbf)
		if s := r.bad(); s != "" {
			hung = hung || r.hang
			distinct[s]++
			continue
		}
		distinct[idsOf(r.d)+"~"+obsDigest(r.d)]++
	}
	fmt.Fprintf(&b, " pbfpar=%s seqdig=%s", distinctStr(distinct), obsDigest(sq.d))
	fmt.Fprintf(&b, " content=%s", contentOf(sq.d))
	gj, _ := geomOf(sq.d)
	fmt.Fprintf(&b, " geom=%s dcount=%s", gj, dcountOf(sq.d))

	// ExtractXML with and without tags
	xr := runWith(1, func(rd *countingReader) (*gosm.Data, error) { return gosm.ExtractXML(ctx, rd, keep, true) }, xmlDoc)
	if s := xr.bad(); s != "" {
		hung = hung || xr.hang
		fmt.Fprintf(&b, " xcontent=%s", s)
	} else {
		fmt.Fprintf(&b, " xcontent=%s", contentOf(xr.d))
	}
	nt := runWith(1, func(rd *countingReader) (*gosm.Data, error) { return gosm.ExtractXML(ctx, rd, keep, false) }, xmlDoc)
	if s := nt.bad(); s != "" {
		hung = hung || nt.hang
		fmt.Fprintf(&b, " nt=%s", s)
	} else {
		fmt.Fprintf(&b, " nt=%s", contentOf(nt.d))
	}

	// ExtractFile: extension decides the decoder
	if tmpDir == "" {
		tmpDir, _ = os.MkdirTemp("", "c18-files-")
	}
	var parts []string
	for _, ext := range []string{".osm", ".pbf", ".txt"} {
		p := filepath.Join(tmpDir, "doc"+ext)
		data := xmlDoc
		if ext == ".pbf" {
			data = pbf
		}
		os.WriteFile(p, data, 0o644)
		var d *gosm.Data
		var err error
		prev := runtime.GOMAXPROCS(2)
		pan, hang := guarded(func() { d, err = gosm.ExtractFile(ctx, p, keep, true) })
		runtime.GOMAXPROCS(prev)
		switch {
		case hang:
			hung = true
			parts = append(parts, "timeout")
		case pan != "":
			parts = append(parts, "panic:"+strings.ReplaceAll(pan, " ", "_"))
		case err != nil:
			parts = append(parts, "err")
		default:
			parts = append(parts, idsOf(d))
		}
		os.Remove(p)
	}
	fmt.Fprintf(&b, " file=%s", strings.Join(parts, "|"))

	// ExtractTag: keep by tags with one key
	if strings.HasPrefix(keepTok, "tags:") && !strings.Contains(keepTok, ";") {
		kv := strings.SplitN(keepTok[5:], "=", 2)
		var vals []string
		if kv[1] != "" {
			for _, v := range strings.Split(kv[1], "|") {
				n, _ := strconv.Atoi(v)
				vals = append(vals, valS(n))
			}
		}
		r := runWith(3, func(rd *countingReader) (*gosm.Data, error) { return gosm.ExtractTag(rd, "k"+kv[0], true, vals...) }, pbf)
		if s := r.bad(); s != "" {
			hung = hung || r.hang
			fmt.Fprintf(&b, " tag=%s", s)
		} else {
			fmt.Fprintf(&b, " tag=%s", idsOf(r.d))
		}
	} else {
		b.WriteString(" tag=skip")
	}

	// CountTags(ctx, rs) over the PBF file
	{
		var t gosm.Tags
		var err error
		prev := runtime.GOMAXPROCS(4)
		rd := bytes.NewReader(pbf)
		rd.Seek(int64(len(pbf)/2), 0) // CountTags rewinds itself
		pan, hang := guarded(func() { t, err = gosm.CountTags(ctx, rd) })
		runtime.GOMAXPROCS(prev)
		switch {
		case hang:
			hung = true
			b.WriteString(" count=timeout")
		case pan != "":
			fmt.Fprintf(&b, " count=panic:%s", strings.ReplaceAll(pan, " ", "_"))
		case err != nil:
			fmt.Fprintf(&b, " count=%s", errTok(err))
		default:
			fmt.Fprintf(&b, " count=%s", tagCountTok(t))
		}
	}
	return b.String(), hung
}
